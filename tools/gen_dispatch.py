"""Generators for C10 (server dispatch): resource tables, handler behaviours and request datagrams
aimed at the case splits of coap_dispatch()/handle_request()/no_response().
Case line format: see harness/h_dispatch.c."""

# option numbers
IF_MATCH, URI_HOST, ETAG, IF_NONE_MATCH, OBSERVE, URI_PORT, LOC_PATH, OSCORE = 1, 3, 4, 5, 6, 7, 8, 9
URI_PATH, CONTENT_FORMAT, MAXAGE, URI_QUERY, HOP_LIMIT, ACCEPT, Q_BLOCK1 = 11, 12, 14, 15, 16, 17, 19
LOC_QUERY, BLOCK2, BLOCK1, SIZE2, Q_BLOCK2, PROXY_URI, PROXY_SCHEME, SIZE1 = 20, 23, 27, 28, 31, 35, 39, 60
ECHO, NORESPONSE, RTAG = 252, 258, 292

# per-option length limits of the parser (so that most generated requests are accepted)
LIMITS = {1: (0, 8), 3: (1, 255), 4: (1, 8), 5: (0, 0), 6: (0, 3), 7: (0, 2), 8: (0, 255),
          9: (0, 255), 11: (0, 255), 12: (0, 2), 14: (0, 4), 15: (0, 255), 16: (1, 1), 17: (0, 2),
          19: (0, 3), 31: (0, 3),
          20: (0, 255), 23: (0, 3), 27: (0, 3), 28: (0, 4), 35: (1, 1034), 39: (1, 255),
          60: (0, 4), 252: (1, 40), 258: (0, 1), 292: (0, 8)}

NON_REPEATABLE = [3, 5, 6, 7, 9, 12, 14, 16, 17, 23, 27, 28, 35, 39, 60, 252, 258]
UNKNOWN_CRIT = [13, 21, 25, 29, 33, 37, 41, 47, 65, 67, 19, 31, 9, 2049, 2051, 2053, 65001, 65535, 257]
UNKNOWN_ELEC = [2, 10, 18, 22, 26, 30, 64, 66, 2048, 2050, 65000]

PATHS = [[b"a"], [b"b"], [b"a", b"b"], [b"x/y"], [b"a/b"], [b"x", b"y"], [b"a%2Fb"], [b"."], [b".."],
         [b"a", b".", b"b"], [b"a%b"], [b"/"], [b"a/"], [b".well-known", b"core"], [], [b""], [b"\xc3\xa9"],
         [b"a", b"", b"b"], [b".well-known"], [b"a b"], [b"A"], [b"long-segment-0123456789"], [b"a&b"],
         [b"%41"]]

HEX = "0123456789ABCDEF"
UNESC_PATH = set(b"ABCDEFGHIJKLMNOPQRSTUVWXYZabcdefghijklmnopqrstuvwxyz0123456789-._~!$'()*+,;=:@&")


def esc_path(segs):
    """the canonical path string a resource must be registered under to match these segments
    (input generation only: picks table entries that requests can hit; never an oracle)"""
    out = []
    for s in segs:
        t = b""
        for c in s:
            t += bytes([c]) if c in UNESC_PATH else ("%" + HEX[c >> 4] + HEX[c & 15]).encode()
        out.append(t)
    return b"/".join(out)


def hexs(b):
    return bytes(b).hex() if b else "-"


def py_ext(x):
    if x < 13:
        return x, b""
    if x < 269:
        return 13, bytes([x - 13])
    return 14, bytes([((x - 269) >> 8) & 0xff, (x - 269) & 0xff])


def py_opt(delta, val):
    dn, de = py_ext(delta)
    ln, le = py_ext(len(val))
    return bytes([dn * 16 + ln]) + de + le + val


def serialize(ty, code, mid, token, opts, payload):
    """UDP encoding; opts is a list of (number, value), stably sorted here"""
    body = b""
    prev = 0
    for n, v in sorted(opts, key=lambda o: o[0]):
        body += py_opt(n - prev, v)
        prev = n
    if payload:
        body += b"\xff" + payload
    tl = len(token)
    if tl < 13:
        tkl, tarea = tl, token
    elif tl < 269:
        tkl, tarea = 13, bytes([tl - 13]) + token
    else:
        tkl, tarea = 14, bytes([((tl - 269) >> 8) & 0xff, (tl - 269) & 0xff]) + token
    return bytes([64 + 16 * ty + tkl, code, mid >> 8, mid & 0xff]) + tarea + body


def rbytes(r, n):
    return bytes(r.randrange(256) for _ in range(n))


MCAST_FLAGS = [8, 16, 32, 64, 128, 256]


def gen_flags(r, mcast_bias):
    f = 0
    if r.random() < mcast_bias:
        for b in MCAST_FLAGS:
            if r.random() < (0.6 if b == 8 else 0.3):
                f |= b
    if r.random() < 0.03:
        f |= 0x400
    return f


def gen_mask(r):
    x = r.random()
    if x < 0.15:
        return 127
    if x < 0.25:
        return 0
    if x < 0.45:
        return r.choice([1, 2, 4, 8, 16, 32, 64])
    return r.randrange(128)


def gen_table(r):
    """-> dict(mpr, known, res=[(pathbytes, mask, flags)], unk, prx) + its five tokens"""
    mpr = 1 if r.random() < 0.5 else 0
    known = []
    if r.random() < 0.5:
        # 9 (OSCORE) is never registered: "application knows the OSCORE option but the library
        # has no OSCORE context" is a corner of C14's code path, not of this property
        pool = [n for n in UNKNOWN_CRIT + UNKNOWN_ELEC if n != 9]
        known = r.sample(pool, r.choice([1, 1, 2, 3, 7, 9]))
    nres = r.choice([0, 1, 2, 3, 4, 6])
    segs = r.sample(PATHS, nres)
    seen = set()
    res = []
    for s in segs:
        p = esc_path(s)
        if p in seen:
            continue
        seen.add(p)
        res.append((p, gen_mask(r), gen_flags(r, 0.6 if mpr else 0.3), 1 if r.random() < 0.35 else 0))
    unk = None
    if r.random() < 0.45:
        f = gen_flags(r, 0.5)
        if r.random() < 0.4:
            f |= 0x800
        unk = (gen_mask(r), f)
    prx = None
    if r.random() < 0.3:
        names = r.choice([[b"proxy"], [b""], [b"h1", b"proxy"], [b"h1"], [b"", b"h1"]])
        prx = (gen_mask(r) if r.random() < 0.6 else 127, gen_flags(r, 0.4), names)
    return {"mpr": mpr, "known": known, "res": res, "unk": unk, "prx": prx}


def table_tokens(t):
    k = ",".join(str(x) for x in t["known"]) or "-"
    res = ",".join("%s/%d/%d/%d" % (hexs(x[0]), x[1], x[2], x[3] if len(x) > 3 else 0) for x in t["res"]) or "-"
    unk = "-" if t["unk"] is None else "%d/%d" % t["unk"]
    prx = "-" if t["prx"] is None else "%d/%d/%s" % (t["prx"][0], t["prx"][1],
                                                     "+".join(hexs(n) for n in t["prx"][2]))
    return [str(t["mpr"]), k, res, unk, prx]


HCODES = [0, 69, 69, 69, 65, 66, 67, 68, 95, 128, 132, 133, 140, 141, 143, 160, 163, 165, 96, 127, 32,
          192, 225, 31, 1, 64]


def gen_hact(r):
    if r.random() < 0.06:
        return "0/-/-/A", 0, [], b""
    code = r.choice(HCODES) if r.random() < 0.9 else r.randrange(256)
    if code == 168:
        code = 160
    opts = []
    x = r.random()
    if x < 0.35:
        opts.append((12, r.choice([b"", b"\x28", b"\x00\x32"])))
    if r.random() < 0.15:
        opts.append((4, rbytes(r, r.choice([1, 4, 8]))))
    if r.random() < 0.15:
        opts.append((14, rbytes(r, r.choice([0, 1, 2]))))
    if r.random() < 0.15:
        opts.append((27, r.choice([b"", b"\x06", b"\x0e", b"\x01\x06"])))
    if r.random() < 0.08:
        opts.append((60, b"\x10"))
    if r.random() < 0.04:
        opts.append((6, r.choice([b"\x05", b""])))
    if r.random() < 0.9:
        opts.sort(key=lambda o: o[0])
    else:
        r.shuffle(opts)              # coap_add_option inserts out-of-order options
    pay = b"" if r.random() < 0.4 else rbytes(r, r.choice([1, 2, 5, 20]))
    o = "+".join("%d=%s" % (n, hexs(v)) for n, v in opts) or "-"
    return "%d/%s/%s" % (code, o, hexs(pay)), code, opts, pay


def gen_request(r, t):
    """-> (ty, code, mid, token, opts, payload, mcast, tags)"""
    tags = []
    x = r.random()
    ty = 0 if x < 0.45 else 1 if x < 0.86 else 2 if x < 0.93 else 3
    x = r.random()
    if x < 0.70:
        code = r.choice([1, 1, 1, 2, 3, 4, 4, 5, 5, 6, 7])
    elif x < 0.78:
        code = r.randrange(8, 32)
    elif x < 0.80:
        code = 0
    elif x < 0.92:
        code = r.choice([1, 3, 6, 7]) * 32 + r.choice([0, 1, 5, 31])
        tags.append("class%d" % (code // 32))
    else:
        code = r.choice([2, 4, 5]) * 32 + r.choice([0, 1, 4, 5])
        tags.append("response")
    mid = r.choice([0, 1, 0xffff, r.randrange(65536)])
    tl = r.choice([0, 1, 2, 4, 8, 8, 8, 7]) if r.random() < 0.93 else r.choice([9, 12, 13, 20, 269, 300])
    token = rbytes(r, tl)
    mcast = r.random() < (0.35 if ty == 1 else 0.08)
    if code == 0:
        return ty, 0, mid, b"", [], b"", mcast, tags + ["empty"]
    opts = []
    # path
    x = r.random()
    if t["res"] and x < 0.55:
        # hit a registered resource: find the segments that escape to it
        cands = [s for s in PATHS if esc_path(s) in [x[0] for x in t["res"]]]
        segs = r.choice(cands) if cands else r.choice(PATHS)
        tags.append("hit")
    elif x < 0.70:
        segs = [b".well-known", b"core"]
        tags.append("wk")
    elif x < 0.90:
        segs = r.choice(PATHS)
    else:
        segs = [rbytes(r, r.choice([0, 1, 3])) for _ in range(r.choice([1, 2, 3]))]
    for s in segs:
        opts.append((URI_PATH, s))
    for _ in range(r.choice([0, 0, 0, 1, 2])):
        opts.append((URI_QUERY, r.choice([b"a=1", b"x&y", b"rt=t", b"a/b?c", b" ", b"\x00\xff", b"k=%20", b"", b"%", b"x%26y"])))
    if r.random() < 0.12:
        opts.append((IF_NONE_MATCH, b""))
        tags.append("inm")
    if r.random() < (0.5 if code == 5 else 0.15):
        opts.append((CONTENT_FORMAT, r.choice([b"", b"\x32", b"\x01\x00"])))
    if r.random() < 0.14:
        opts.append((HOP_LIMIT, bytes([r.choice([0, 1, 2, 255, 3, 254, r.randrange(256)])])))
        tags.append("hop")
    if r.random() < 0.28:
        v = r.choice([b"", bytes([r.randrange(128)]), bytes([r.choice([2, 8, 16, 26, 24, 10, 18, 4, 1, 0, 127, 128, 255])])])
        opts.append((NORESPONSE, v))
        tags.append("noresp")
    if r.random() < 0.08:
        opts.append((BLOCK2, r.choice([b"", b"\x08", b"\x0e", b"\x06", b"\x0f", b"\x00\x08", b"\x01\x0a", b"\x10\x00\x08", b"\x18"])))
        tags.append("block2")
    if r.random() < 0.05:
        opts.append((BLOCK1, r.choice([b"", b"\x08", b"\x06"])))
    if r.random() < 0.08:
        opts.append((ACCEPT, r.choice([b"", b"\x28"])))
    if r.random() < 0.08:
        opts.append((ETAG, rbytes(r, r.choice([1, 8]))))
        if r.random() < 0.5:
            opts.append((ETAG, rbytes(r, 2)))      # legal repeat
    if r.random() < 0.05:
        opts.append((IF_MATCH, rbytes(r, 2)))
        opts.append((IF_MATCH, b""))
    if r.random() < 0.12:
        opts.append((OBSERVE, r.choice([b"", b"", b"\x00", b"\x01", b"\x02", b"\x00\x00\x01"])))
        tags.append("observe")
    if r.random() < 0.04:
        opts.append((SIZE1, b"\x10"))
    px = r.random()
    if px < 0.05:
        opts.append((PROXY_SCHEME, r.choice([b"coap", b"http"])))
        tags.append("proxy")
        if r.random() < 0.85:
            opts.append((URI_HOST, r.choice([b"proxy", b"h1", b"other", b"h"])))
    elif px < 0.09:
        opts.append((PROXY_URI, r.choice([b"coap://h1/a", b"coap://proxy/b?x", b"http://other/", b"zzz"])))
        tags.append("proxy")
    elif px < 0.13:
        opts.append((URI_HOST, r.choice([b"proxy", b"h1", b"x"])))
    if r.random() < 0.13:
        k = r.choice([1, 1, 1, 2, 3, 7, 8, 9])
        for n in r.sample(UNKNOWN_CRIT, min(k, len(UNKNOWN_CRIT))):
            opts.append((n, rbytes(r, r.choice([0, 1, 3, 13]))))
        tags.append("crit")
    if r.random() < 0.10:
        for n in r.sample(UNKNOWN_ELEC, r.choice([1, 2, 3])):
            opts.append((n, rbytes(r, r.choice([0, 1, 2]))))
            if r.random() < 0.3:
                opts.append((n, b""))
        tags.append("elective")
    if r.random() < 0.09:
        # illegal repeat of a non-repeatable option (present or new)
        for _ in range(r.choice([1, 1, 2, 7, 9])):
            n = r.choice(NON_REPEATABLE)
            lo, hi = LIMITS[n]
            have = [o for o in opts if o[0] == n]
            if not have:
                opts.append((n, rbytes(r, lo)))
            opts.append((n, rbytes(r, r.choice([lo, min(hi, lo + 1)]))))
        tags.append("repeat")
    if r.random() < 0.02:
        opts.append((OSCORE, rbytes(r, r.choice([0, 3]))))
    payload = b"" if r.random() < 0.65 else rbytes(r, r.choice([1, 3, 16, 64]))
    return ty, code, mid, token, opts, payload, mcast, tags


def gen_case(r, t, ttoks):
    hact, hcode, hopts, hpay = gen_hact(r)
    ty, code, mid, token, opts, payload, mcast, tags = gen_request(r, t)
    dg = serialize(ty, code, mid, token, opts, payload)
    line = " ".join(["c10"] + ttoks + [hact, "m" if mcast else "u", dg.hex()])
    info = {"ty": ty, "code": code, "mcast": mcast, "tags": tags, "nopts": len(opts), "hcode": hcode}
    return line, info

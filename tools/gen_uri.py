"""Case generators and the Python side of the C16 oracles (URI text <-> options).

All byte strings travel as hex tokens ("-" = empty).  The generators aim at the case splits of
the proofs: segment boundaries, escapes cut at the very end of the input, dot segments written
literally / escaped / half-escaped, option-length boundaries 12/13, 268/269, buffer sizes around
what is needed, ports around 65535, every delimiter inside every component."""
import itertools
import re

ALPHA12 = b"a./%2eE?#&:["


def tok(b):
    return b.hex() if b else "-"


def untok(t):
    return b"" if t == "-" else bytes.fromhex(t)


# ---------------------------------------------------------------- exhaustive leaf sweeps

def all_strings(maxlen, alphabet=ALPHA12):
    for n in range(maxlen + 1):
        for t in itertools.product(alphabet, repeat=n):
            yield bytes(t)


# ---------------------------------------------------------------- structured paths / queries

SEG_POOL = [b"", b"a", b"ab", b"abc", b".", b"..", b"...", b"%2e", b"%2E", b"%2e%2e", b"%2E%2e",
            b".%2E", b"%2e.", b".a", b"..a", b"a.", b"%2ea", b"%41", b"%2f", b"%2F", b"%25",
            b"%2541", b"%252e", b"%3f", b"%23", b"%26", b"%00", b"%ff", b"%FF", b"%aB",
            b"%", b"%4", b"%4g", b"%g1", b"%%2e", b"%2.", b"%.2", b"%2e%", b"%2e%2", b".%", b".%2",
            b"a%41b", b"%41%42", b"\x00", b"\xff\x80", b"a b", b"=", b"a=b", b"~-_.!$'()*+,;=:@",
            b":", b"[", b"]", b"@"]
TRUNC = [b"%", b"%4", b"%a", b"%F", b"%2", b"a%", b"a%4", b"%41%", b"%41%4", b"%2e%2", b".%2"]


def long_seg(r, n):
    base = r.choice([b"a", b"ab", b"x%41"])
    s = (base * (n // len(base) + 1))
    # decoded length exactly n for the pure-letter bases; for the escaped base the raw length n
    return s[:n]


def gen_path(r, query=False):
    sep = b"&" if query else b"/"
    k = r.choice([0, 1, 1, 2, 2, 3, 3, 4, 5, 6, 8])
    segs = []
    for _ in range(k):
        x = r.random()
        if x < 0.8:
            segs.append(r.choice(SEG_POOL))
        elif x < 0.9:
            segs.append(long_seg(r, r.choice([11, 12, 13, 14, 15, 267, 268, 269, 270, 271, 300])))
        else:
            segs.append(bytes(r.choice([r.randrange(256), r.choice(b"/%.&?#2eE")])
                              for _ in range(r.randrange(0, 5))))
    s = sep.join(segs)
    x = r.random()
    if x < 0.25:
        s += r.choice(TRUNC)                       # escape cut at the very end of the input
    elif x < 0.35:
        s += r.choice([b"?", b"#", b"?x/y", b"#f/../g", b"#%", b"?%4"])
    elif x < 0.40 and s:
        i = r.randrange(len(s))
        s = s[:i] + bytes([r.choice(b"/%.&?#2eE\x00\xff")]) + s[i + (r.random() < 0.5):]
    return s


def rough_need(s, query=False):
    sep = b"&" if query else b"/"
    return sum(3 + len(x) for x in s.split(sep)) if True else 0


def gen_buflen(r, s, query=False):
    need = rough_need(s, query)
    x = r.random()
    if x < 0.45:
        return need + r.choice([0, 1, 7])
    if x < 0.6:
        return r.choice([0, 1, 2, 3, 4])
    return max(0, r.randrange(0, need + 2) + r.choice([-1, 0, 1]))


# ---------------------------------------------------------------- URIs

SCHEMES = {b"coap": (0, 5683, False), b"coaps": (1, 5684, False), b"coap+tcp": (2, 5683, False),
           b"coaps+tcp": (3, 5684, False), b"http": (4, 80, True), b"https": (5, 443, True),
           b"coap+ws": (6, 80, False), b"coaps+ws": (7, 443, False)}
BAD_SCHEMES = [b"", b"COAP", b"coapx", b"coa", b"coap+udp", b"coaps+tc", b"ws", b"coap:", b"coap/",
               b"a://coap", b"htt", b"coaps+wss"]
SEPS = [b"://"] * 12 + [b":/", b":", b"//", b":///", b"", b":/ /"]
HOSTS = [b"h", b"example.com", b"198.51.100.1", b"[::1]", b"[2001:db8::1]", b"[fe80::1%25eth0]",
         b"[]", b"[", b"[::1", b"[::1]x", b"[?]", b"[/]", b"[a]b", b"%2Fun%2Fsock", b"%2fx",
         b"%2F", b"%2", b"%2G", b"", b"a[b]", b"A.B", b"h%41", b"\xc3\xa4", b"a@b", b"]"]
PORTS = [b""] * 8 + [b":", b":0", b":1", b":80", b":5683", b":5684", b":65535", b":65536", b":65534",
                     b":99999", b":000080", b":0000065535", b":655350", b":12a", b":-1", b": 1",
                     b":4294967297", b":18446744073709551617", b":99999999999999999999999", b"::1"]
PATHS = [b""] * 4 + [b"/", b"/a", b"/a/b", b"/a/../b", b"/%2e", b"/a%", b"/a/", b"//", b"/a#f", b"/.",
                     b"/..", b"/a/.", b"/%2e%2e/x", b"/a:b", b"/[", b"/a/%2F/b"]
QUERIES = [b""] * 4 + [b"?", b"?a", b"?a=1", b"?a&b", b"?a?b", b"?a#f", b"?%26&%", b"?/", b"??", b"?&"]


def gen_uri(r):
    x = r.random()
    if x < 0.12:
        s = r.choice([b"/", b"/a", b"/a/b", b"//", b"/?", b"/a?b", b"/a?b?c", b"/%", b"/a#f"]) + \
            r.choice(QUERIES)
        return s
    sch = r.choice(list(SCHEMES)) if r.random() < 0.85 else r.choice(BAD_SCHEMES)
    s = sch + r.choice(SEPS) + r.choice(HOSTS) + r.choice(PORTS)
    if r.random() < 0.3:
        s += b"/" + gen_path(r)
    else:
        s += r.choice(PATHS)
    s += r.choice(QUERIES)
    y = r.random()
    if y < 0.12 and s:
        i = r.randrange(len(s))
        s = s[:i] + s[i + 1:]
    elif y < 0.2:
        i = r.randrange(len(s) + 1)
        s = s[:i] + bytes([r.choice(b":/?[]#%@0a\x00")]) + s[i:]
    elif y < 0.25:
        s = s[:r.randrange(len(s) + 1)]
    return s


DSTS = ["-", "198.51.100.1", "::1", "2001:db8::1", "fe80::1"]
INTO_HOSTS = [b"198.51.100.1", b"198.51.100.2", b"[::1]", b"[2001:db8::1]", b"[2001:DB8::1]",
              b"[fe80::1%25eth0]", b"[fe80::2%25eth0]", b"example.com", b"EXAMPLE.com", b"ex%41mple",
              b"h%2", b"%2Fun%2Fsock", b"h", b"[::1%25]", b"198.51.100.1%25x"]


def gen_into(r):
    sch = r.choice([b"coap", b"coaps", b"coap+tcp", b"coaps+tcp", b"coap+ws", b"coaps+ws"])
    port = r.choice([b"", b"", b":5683", b":5684", b":80", b":443", b":0", b":1", b":255", b":256",
                     b":65535", b":"])
    path = r.choice([b"", b"/", b"/..", b"/../a", b"/a/../../b", b"/a/b", b"/%2e%2e/x", b"/a/./b/",
                     b"/" + gen_path(r)])
    q = r.choice([b"", b"?", b"?a=1&b", b"?%26", b"?" + gen_path(r, query=True)])
    return r.choice(DSTS), sch + b"://" + r.choice(INTO_HOSTS) + port + path + q


REST_RX = re.compile(rb"(?:\[(?P<v6>[^\]]+)\]|(?P<h>[^:/?\[][^:/?]*))(?::(?P<port>[0-9]*))?"
                     rb"(?:/(?P<path>[^?]*))?(?:\?(?P<q>.*))?\Z", re.S)
ABS_RX = re.compile(rb"/(?P<path>[^?]*)(?:\?(?P<q>.*))?\Z", re.S)


def ref_split(s, proxy, caps):
    """Independent reading of the grammar (RFC 3986 s.3 as RFC 7252 s.6 restricts it):
    -> None (rejected) or (scheme, host, port, path, query)"""
    if not s:
        return None
    if s[:1] == b"/":
        if proxy:
            return None
        m = ABS_RX.match(s)
        return (0, b"", 5683, m.group("path"), m.group("q") or b"")
    i = s.find(b"://")
    if i < 0 or s[:i] not in SCHEMES:
        return None
    sch, dport, ponly = SCHEMES[s[:i]]
    if ponly and not proxy:
        return None
    need = {1: 0, 2: 1, 3: 2, 6: 3, 7: 4}
    if sch in need and caps[need[sch]] != "1":
        return None
    m = REST_RX.match(s[i + 3:])
    if not m:
        return None
    if m.group("v6") is not None:
        host, unix = m.group("v6"), False
    else:
        host = m.group("h")
        unix = host[:3] in (b"%2F", b"%2f")
    port = 0 if unix else dport
    if m.group("port") is not None:
        if unix:
            return None
        if m.group("port"):
            port = int(m.group("port"))
            if port > 65535:
                return None
    return (sch, host, port, m.group("path") or b"", m.group("q") or b"")


def show_parts(p):
    if p is None:
        return "reject"
    return "rc=0 sch=%d host=%s port=%d path=%s query=%s" % (p[0], tok(p[1]), p[2], tok(p[3]), tok(p[4]))


# ---------------------------------------------------------------- segment lists (options -> string)

def gen_seglist(r):
    k = r.choice([0, 1, 1, 2, 2, 3, 4, 6])
    out = []
    for _ in range(k):
        x = r.random()
        if x < 0.15:
            out.append(b"")
        elif x < 0.3:
            out.append(r.choice([b".", b"..", b"...", b"%2e", b"a&b", b"a/b", b"a?b", b"a#b", b"%41",
                                 b"a%", b"&", b"/", b"%", b"?", b"#", b"a b", b"=&="]))
        else:
            n = r.choice([1, 1, 2, 3, 5, 12, 13, 40])
            out.append(bytes(r.choice([r.randrange(256), r.choice(b"/%&?#.aZ09~")]) for _ in range(n)))
    return out


def has_dots(segs):
    return any(x in (b".", b"..") for x in segs)


def norm(segs):
    return [] if segs == [b""] else list(segs)


# ---------------------------------------------------------------- decoding what the C wrote

def parse_optbuf(buf):
    """options written with delta 0 -> list of values, or None if the bytes are not that"""
    out = []
    i = 0
    while i < len(buf):
        b0 = buf[i]
        i += 1
        if b0 >> 4:
            return None
        ln = b0 & 15
        if ln == 13:
            if i >= len(buf):
                return None
            ln = buf[i] + 13
            i += 1
        elif ln == 14:
            if i + 1 >= len(buf):
                return None
            ln = buf[i] * 256 + buf[i + 1] + 269
            i += 2
        elif ln == 15:
            return None
        if i + ln > len(buf):
            return None
        out.append(bytes(buf[i:i + ln]))
        i += ln
    return out


SPLIT_RX = re.compile(r"n=(-?\d+) used=(\d+) buf=(\S+)$")


def parse_split_out(o):
    m = SPLIT_RX.search(o)
    if not m or m.group(3) == "OVERFLOW":
        return None
    buf = untok(m.group(3))
    if len(buf) != int(m.group(2)):
        return None
    vals = parse_optbuf(buf)
    if vals is None or len(vals) != int(m.group(1)):
        return None
    return vals


def parse_spec_list(t):
    if t == "MALFORMED":
        return None
    if t == "NONE":
        return []
    return [bytes.fromhex(x) for x in t.split(",")]


def parse_chain(o):
    m = re.search(r"rc=(-?\d+) chain=(\S+)$", o)
    if not m:
        return None
    if m.group(2) == "-":
        return int(m.group(1)), []
    out = []
    for e in m.group(2).split(","):
        n, v = e.split(":")
        out.append((int(n), untok(v)))
    return int(m.group(1)), out


def default_port(sch):
    return {0: 5683, 1: 5684, 2: 5683, 3: 5684, 4: 80, 5: 443, 6: 80, 7: 443}[sch]


def lenient_decode(b):
    out = bytearray()
    i = 0
    hexd = b"0123456789abcdefABCDEF"
    while i < len(b):
        if b[i] == 0x25 and i + 2 < len(b) and b[i + 1] in hexd and b[i + 2] in hexd:
            out.append(int(b[i + 1:i + 3], 16))
            i += 3
        else:
            out.append(b[i])
            i += 1
    return bytes(out)


def expected_into(parts, dst, create, spec):
    """RFC 7252 6.4 steps 5-9 on the split URI; spec = 'path=<list> query=<list>' from the extracted
    specification; None when path or query has a malformed escape (then only the tie applies)"""
    m = re.match(r"path=(\S*) query=(\S*)$", spec)
    po, qo = parse_spec_list(m.group(1)), parse_spec_list(m.group(2))
    if po is None or qo is None:
        return None
    sch, host, port, path, query = parts
    out = []
    unix = host[:3] in (b"%2F", b"%2f") or host[:1] == b"/"
    if create and not unix:
        if dst != "-" and host:
            bare = host.split(b"%")[0]
            if bare != dst.encode():
                low = bytes(c + 32 if 65 <= c <= 90 else c for c in lenient_decode(host))
                out.append((3, low))
        if port != default_port(sch):
            out.append((7, b"" if port == 0 else bytes([port]) if port < 256 else bytes([port >> 8, port & 255])))
    out += [(11, v) for v in po] + [(15, v) for v in qo]
    return out


def ref_unix_path(host, pmax):
    """sun_path for a Unix-domain URI host: complete %2F / %2f escapes become '/', nothing else is
    decoded; at most pmax - 1 bytes; a C string (ends at a NUL byte)"""
    out = bytearray()
    i = 0
    while i < len(host):
        if host[i:i + 3] in (b"%2F", b"%2f"):
            out.append(0x2f)
            i += 3
        else:
            out.append(host[i])
            i += 1
    out = bytes(out[:pmax - 1])
    return out.split(b"\x00")[0]

#!/usr/bin/env python3
"""Entry point registered in MANIFEST.json:  tools/check.py Cxx [--tier quick|thorough]
Each property's check lives in tools/checks/cxx.py and exposes main(run) -> None."""
import argparse
import importlib
import os
import sys
import traceback

sys.path.insert(0, os.path.dirname(os.path.abspath(__file__)))
import vlib  # noqa: E402


def main():
    ap = argparse.ArgumentParser()
    ap.add_argument("pid")
    ap.add_argument("--tier", default=os.environ.get("VERIF_TIER", "quick") or "quick")
    ap.add_argument("--replay", default=None)
    a = ap.parse_args()
    tier = a.tier if a.tier in ("quick", "thorough") else "quick"
    mod = importlib.import_module("checks." + a.pid.lower())
    run = vlib.Run(a.pid, tier, level=getattr(mod, "LEVEL", "proof"))
    run.replay = a.replay
    try:
        mod.main(run)
    except vlib.BuildError as e:
        # the harness or the library no longer builds: nothing can be shown to hold
        run.violation("build failed: " + str(e)[:300], str(e), tag="build", no_input=True)
    except Exception:
        tb = traceback.format_exc()
        run.violation("check crashed: " + tb.splitlines()[-1], tb, tag="crash", no_input=True)
    rc = run.finish(rule=getattr(mod, "RULE", ""))
    sys.exit(rc)


if __name__ == "__main__":
    main()

#!/usr/bin/env python3
"""Entry point registered in MANIFEST.json:  tools/check.py Cxx [--tier quick|thorough]
Each property's check lives in tools/checks/cxx.py and exposes main(run) -> None."""
import argparse
import importlib
import os
import sys
import traceback

sys.path.insert(0, os.path.dirname(os.path.abspath(__file__)))
import vlib  # noqa: E402


def confirm_wrapper():
    """A violation must reproduce.  The check proper runs in a child process (VERIF_INNER=1); if it
    reports a violation the identical command is run once more in a fresh process (same seed, same
    tree) and the violation is reported only when that run fails too.  Checks are deterministic for
    a given seed and tree, so a genuine violation (and every broken proof or build) reproduces; what
    does not is an artefact of the environment (observed twice, under heavy parallel load: a
    kernel-chosen port reused within a case, a late datagram on a real socket).  The first run's
    lines are kept on stderr and in the evidence (coverage.first_run_not_reproduced)."""
    import json
    import subprocess
    env = dict(os.environ, VERIF_INNER="1")
    cmd = [sys.executable, os.path.abspath(__file__)] + sys.argv[1:]
    p1 = subprocess.run(cmd, env=env, capture_output=True, text=True)
    if p1.returncode == 0 and "VIOLATION" not in p1.stdout:
        sys.stderr.write(p1.stderr)
        sys.stdout.write(p1.stdout)
        sys.exit(0)
    p2 = subprocess.run(cmd, env=env, capture_output=True, text=True)
    if p2.returncode != 0 or "VIOLATION" in p2.stdout:
        sys.stderr.write(p2.stderr)
        sys.stdout.write(p2.stdout)
        sys.exit(p2.returncode if p2.returncode else 1)
    first = [ln for ln in p1.stdout.splitlines() if ln.startswith("VIOLATION")]
    detail = [ln for ln in p1.stderr.splitlines() if "violation detail" in ln]
    sys.stderr.write(p2.stderr)
    sys.stderr.write("note: the first run reported %d violation line(s) that an identical second run "
                     "did not reproduce; not reported:\n" % len(first))
    for ln in detail[:5] + first[:5]:
        sys.stderr.write("  first run: " + ln[:300] + "\n")
    sys.stdout.write(p2.stdout)
    try:
        pid = [x for x in sys.argv[1:] if not x.startswith("-")][0]
        ep = os.path.join(vlib.EVID, pid + ".json")
        ev = json.load(open(ep))
        ev["coverage"]["first_run_not_reproduced"] = [ln[:300] for ln in (detail[:5] + first[:5])]
        with open(ep, "w") as f:
            json.dump(ev, f, indent=1, sort_keys=True)
            f.write("\n")
    except Exception:
        pass
    sys.exit(0)


def main():
    if os.environ.get("VERIF_INNER") != "1":
        confirm_wrapper()
    ap = argparse.ArgumentParser()
    ap.add_argument("pid")
    ap.add_argument("--tier", default=os.environ.get("VERIF_TIER", "quick") or "quick")
    ap.add_argument("--replay", default=None)
    a = ap.parse_args()
    tier = a.tier if a.tier in ("quick", "thorough") else "quick"
    mod = importlib.import_module("checks." + a.pid.lower())
    run = vlib.Run(a.pid, tier, level=getattr(mod, "LEVEL", "proof"))
    run.replay = a.replay
    try:
        mod.main(run)
    except vlib.BuildError as e:
        # the harness or the library no longer builds: nothing can be shown to hold
        run.violation("build failed: " + str(e)[:300], str(e), tag="build", no_input=True)
    except Exception:
        tb = traceback.format_exc()
        run.violation("check crashed: " + tb.splitlines()[-1], tb, tag="crash", no_input=True)
    rc = run.finish(rule=getattr(mod, "RULE", ""))
    sys.exit(rc)


if __name__ == "__main__":
    main()

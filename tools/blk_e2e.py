"""C09 end-to-end: trace parser and implementation-only oracle for harness/h_block_e2e.c.

The oracle is the property text evaluated on what the two real endpoints did:
  O1 integrity   every body/piece handed to the receiving application equals the submitted body
                 at that offset (single-body mode: offset 0, total = length, whole body)
  O2 once        at most one (complete) delivery per transfer
  O3 token       handlers only see the application's token
  O4 lossless    no drop/dup/reorder in the schedule => exactly one delivery and exactly one
                 success response seen by the requester
  O5 explicit    a CON request whose transfer did not succeed ends in an error response or a NACK
  O6 fits        every datagram <= the sender's session MTU
  O7 release     the release callback of every coap_add_data_large_* call ran exactly once
"""


class Case:
    def __init__(self, line):
        t = line.split()
        self.line = line
        # "b1s"/"b2s": slow but successful: every message gets through within its retransmission
        # budget (no exchange is abandoned), so the transfer must complete
        self.slow = t[1] in ("b1s", "b2s")
        self.dir = t[1][:2] if self.slow else t[1]
        self.len = int(t[2])
        self.seed = int(t[3])
        self.type = int(t[4])
        self.cli_szx, self.srv_szx, self.app_szx = int(t[5]), int(t[6]), int(t[7])
        self.single_cli, self.single_srv = int(t[8]), int(t[9])
        self.cli_mtu, self.srv_mtu = int(t[10]), int(t[11])
        self.opts = dict(x.split("=", 1) for x in t[12:] if "=" in x)   # tok= meth= rq= q2=
        t = [x for x in t if "=" not in x]
        self.sched = t[12] if len(t) > 12 else ""
        self.len2 = int(t[13]) if len(t) > 14 else None      # "b11"/"b22": second transfer
        self.start2 = int(t[14]) if len(t) > 14 else None

    def lossless(self):
        return all(c == "." for c in self.sched)

    def must_complete(self):
        # completion is promised only when no datagram is lost or duplicated; a slow transfer
        # (self.slow) may fail, but explicitly (O5, O8, O9)
        return self.lossless()


def parse(out):
    ev = []
    for tok in out.split():
        f = tok.split(":")
        ev.append(f)
    return ev


def fill_byte(seed, i):
    return (seed * 31 + i * 7 + (i >> 8) * 13 + 5) & 0xff


def oracle(case, out):
    """-> list of failure strings (empty = property held on this run)"""
    bad = []
    if out.startswith("CRASH") or "END:" not in out:
        return ["driver crashed or did not finish: " + out[:80]]
    ev = parse(out)
    single_rx = case.single_srv if case.dir == "b1" else case.single_cli
    deliveries = []      # (off, total, len, eq) seen by the receiving application
    success = 0          # success responses seen by the requester
    errors = 0
    nacks = 0
    tx = {}              # idx -> (sender, offset or None, plen) for datagrams that carry body bytes
    rx_count = {}        # offset -> how many times a datagram carrying it reached the receiver
    blockwise = False    # some body-carrying datagram had a Block option
    data_sender = "TXc" if case.dir == "b1" else "TXs"
    bopt = 6 if case.dir == "b1" else 7
    sends_adl = 0
    refused = 0          # coap_add_data_large_* returned 0: explicit refusal at the API
    fin = None
    end = None
    cli_state = (0, 0)   # (lg_crcv, lg_xmit) of the client session, from the ST events
    rx_times = {}
    last_rx = None
    for f in ev:
        k = f[0]
        if k == "ST":
            cli_state = (int(f[3]), int(f[4]))
        if k == "RX":
            rx_times[f[1]] = rx_times.get(f[1], 0) + 1
            last_rx = f[1]
        if k in ("TXc", "TXs"):
            if f[2] == "UNPARSEABLE":
                bad.append("unparseable datagram sent: " + ":".join(f))
                continue
            dlen = int(f[12])
            if k == data_sender and int(f[10]) > 0 and (case.dir == "b1" or int(f[3]) >> 5 == 2):
                if f[bopt] != "-":
                    blockwise = True
                    num, m, szx = map(int, f[bopt].split("/"))
                    tx[f[1]] = num << (szx + 4)
                else:
                    tx[f[1]] = 0
            mtu = (case.cli_mtu if k == "TXc" else case.srv_mtu) or 1152
            if dlen > mtu:
                bad.append("O6 datagram %s of %d bytes exceeds the session MTU %d" % (f[1], dlen, mtu))
        elif k == "RX":
            if f[1] in tx:
                rx_count[tx[f[1]]] = rx_count.get(tx[f[1]], 0) + 1
        elif k == "END" and f[1] == "steps":
            bad.append("LIVELOCK the exchange does not terminate (datagram budget exhausted at t=%s)" % f[2])
        elif k == "ADL":
            sends_adl += 1
            if f[1] != "1":
                refused += 1
        elif k == "HS":
            if f[2] != case.tok:
                pass    # the server sees the wire token (its peer's); nothing to check
            if case.dir == "b1":
                off, total, ln, eq = int(f[3]), int(f[4]), int(f[5]), f[7]
                deliveries.append((off, total, ln, eq))
        elif k == "HC":
            code = int(f[1])
            # after the transfer concluded (final response or NACK given to the application)
            # a late reply - the answer to a duplicated datagram, or to a request of the
            # transfer (ETag restart) that was still outstanding - can no longer be mapped
            # to the application's token
            late = (success + errors + nacks) > 0 and not case.lossless()
            if f[3] != "T":
                bad.append("%s response handler saw token %s, the application's is %s" %
                           ("O3STALE" if late else "O3", f[2], case.tok))
            if code == 95:
                if not late:
                    bad.append("O9 the application's response handler was given an intermediate 2.31 Continue")
                continue
            if code >> 5 == 2:
                if case.dir == "b2":
                    off, total, ln, eq = int(f[4]), int(f[5]), int(f[6]), f[8]
                    if late:
                        # reported as O3STALE; the bytes must still be the body's
                        if eq != "=" or off + ln > case.len:
                            bad.append("O1 late reply delivered bytes that are not the body's: off=%d len=%d" % (off, ln))
                        continue
                    deliveries.append((off, total, ln, eq))
                    # in per-block mode every block is a response; the last one counts
                    if single_rx or off + ln >= total:
                        success += 1
                else:
                    success += 1
            else:
                errors += 1
        elif k == "NK":
            nacks += 1
            if f[3] == "F":
                bad.append("O3 nack handler saw token %s, the application's is %s" % (f[2], case.tok))
        elif k == "EV" and f[2] == "3001" and not single_rx:
            # COAP_EVENT_PARTIAL_BLOCK: the application is told that the pieces delivered so far
            # are to be discarded (the body changed / the transfer restarts)
            deliveries = []
        elif k == "FIN":
            fin = f
        elif k == "END":
            end = f
    # O1 / O2
    complete = 0
    if case.len > 0:
        if single_rx:
            for (off, total, ln, eq) in deliveries:
                if off != 0 or ln != case.len or total != case.len or eq != "=":
                    bad.append("O1 delivered body differs from the submitted one: off=%d total=%d len=%d eq=%s "
                               "(submitted %d bytes)" % (off, total, ln, eq, case.len))
                else:
                    complete += 1
            if complete > 1 and blockwise:
                bound = min(rx_count.values()) if rx_count else 0
                bad.append(("O2DUP" if complete <= bound else "O2") +
                           " the body was delivered %d times (every block datagram reached the receiver"
                           " at least %d times)" % (complete, bound))
        else:
            covered = {}
            for (off, total, ln, eq) in deliveries:
                if eq != "=" or off + ln > case.len:
                    bad.append("O1 delivered piece differs from the body: off=%d len=%d eq=%s" % (off, ln, eq))
                if ln > 0:
                    covered[off] = covered.get(off, 0) + 1
            # pieces must tile: consecutive offsets; count complete passes
            offs = sorted(covered)
            pos = 0
            tiles = True
            sizes = {}
            for (off, total, ln, eq) in deliveries:
                sizes[off] = ln
            for o in offs:
                if o != pos:
                    tiles = False
                    break
                pos = o + sizes[o]
            if tiles and pos == case.len:
                complete = min(covered.values()) if covered else 0
            over = sorted((o, v) for o, v in covered.items() if v > 1)
            if over and blockwise:
                beyond = [(o, v) for o, v in over if v > rx_count.get(o, 0)]
                bad.append(("O2" if beyond else "O2DUP") +
                           " a piece of the body was delivered more than once: %s" % (beyond or over)[:4])
    else:
        complete = len(deliveries)
    # O4
    if refused:
        # the sender's API call failed (no room for even a 16-byte block): nothing may be
        # delivered as the body, the requester is told (b2: error response)
        if complete:
            bad.append("coap_add_data_large_* refused but a body was delivered")
        if case.dir == "b2" and case.lossless() and errors == 0:
            bad.append("O5 coap_add_data_large_response refused but the requester saw no error response")
    elif case.must_complete():
        why = "no datagram lost or duplicated" if case.lossless() else \
              "every message got through within its retransmission budget"
        if case.len > 0 and complete != 1:
            bad.append("O4 %s but %d complete deliveries (%d handler calls)"
                       % (why, complete, len(deliveries)))
        if success != 1 or errors or nacks:
            bad.append("O4 %s but success responses=%d errors=%d nacks=%d"
                       % (why, success, errors, nacks))
    # O8: a success told to the uploader means the server application has the body
    if case.dir == "b1" and not refused and success > 0 and complete == 0 and case.len > 0:
        bad.append("O8 the uploader was given a success response but the body was never delivered")
    # O5: a Confirmable request of the client that was transmitted MAX_RETRANSMIT+1 times without
    # any reply reaching the client is abandoned: the application must then have been told
    # (silence after an acknowledged request whose separate response was lost is the network's)
    if case.type == 0 and success == 0 and errors == 0 and nacks == 0 and not (refused and case.dir == "b1"):
        sent_n, answered = {}, set()
        txs = {}
        for f in ev:
            if f[0] == "TXc" and f[2] == "0":
                sent_n[f[4]] = sent_n.get(f[4], 0) + 1
            elif f[0] == "TXs" and f[2] in ("2", "3"):
                txs[f[1]] = f[4]
            elif f[0] == "RX" and f[1] in txs:
                answered.add(txs[f[1]])
        abandoned = [m for m, n in sent_n.items() if n >= 5 and m not in answered]
        if abandoned or case.lossless():
            bad.append("O5 confirmable request (mid %s) was abandoned but the application got no "
                       "response, error or NACK" % ",".join(abandoned[:3]))
    # O7
    if fin:
        rel_c, rel_s = int(fin[1]), int(fin[2])
        if case.dir == "b1" and rel_c != 1:
            bad.append("O7 client release callback ran %d times" % rel_c)
        if case.dir == "b2":
            adl_s = sum(1 for f in ev if f[0] == "ADL")
            if rel_s != adl_s:
                bad.append("O7 server release callback ran %d times for %d coap_add_data_large_response calls"
                           % (rel_s, adl_s))
    return bad


def oracle_b11(case, out):
    """two uploads A and B (own byte streams) to one resource on one session, told apart by
    token / Request-Tag; single-body mode at the server; schedules without duplication"""
    bad = []
    if out.startswith("CRASH") or "END:" not in out:
        return ["driver crashed or did not finish: " + out[:80]]
    ev = parse(out)
    got = {"=": 0, "+": 0}
    resp = {"T": [0, 0, 0], "U": [0, 0, 0]}      # success, error, nack per application token
    concluded = False
    for f in ev:
        k = f[0]
        if k == "HS":
            off, total, ln, eq = int(f[3]), int(f[4]), int(f[5]), f[7]
            want = case.len if eq == "=" else case.len2 if eq == "+" else -1
            if eq not in got or off != 0 or ln != want or total != want:
                bad.append("O1 the server application got a body that is neither upload A nor upload B "
                           "(off=%d total=%d len=%d eq=%s): blocks of the two transfers were mixed" %
                           (off, total, ln, eq))
            else:
                got[eq] += 1
        elif k == "HC":
            who = f[3]
            code = int(f[1])
            if who == "F":
                late = concluded and not case.lossless()
                bad.append("%s response handler saw token %s, not one of the application's" %
                           ("O3STALE" if late else "O3", f[2]))
                continue
            resp[who][0 if code >> 5 == 2 else 1] += 1
            concluded = True
        elif k == "NK":
            if f[3] in resp:
                resp[f[3]][2] += 1
                concluded = True
            elif f[3] == "F":
                bad.append("O3 nack handler saw token %s, not one of the application's" % f[2])
        elif k == "END" and f[1] == "steps":
            bad.append("LIVELOCK the exchange does not terminate")
        elif k == "FIN":
            if int(f[1]) != 2:
                bad.append("O7 client release callback ran %d times for 2 uploads" % int(f[1]))
    # which uploads are block-wise at all (a body that fits one message is an ordinary request:
    # its re-delivery after a lost ACK is the message layer's business, C07/C10)
    tok2 = ""
    for tok in out.split():
        if tok.startswith("TOK2:"):
            tok2 = tok[5:]
            break
    first = {}
    for f in ev:
        if f[0] == "TXc" and f[2] != "UNPARSEABLE" and int(f[10]) > 0 and f[5] not in first:
            first[f[5]] = f[6] != "-"
    blockwise = {"=": first.get(case.tok, False), "+": first.get(tok2, False)}
    for eq, name in (("=", "A"), ("+", "B")):
        if got[eq] > 1 and blockwise[eq]:
            bad.append("O2 upload %s was delivered %d times" % (name, got[eq]))
    if case.lossless():
        if got["="] != 1 or got["+"] != 1:
            bad.append("O4 no datagram lost or duplicated but deliveries A=%d B=%d" % (got["="], got["+"]))
        for who in ("T", "U"):
            if resp[who] != [1, 0, 0]:
                bad.append("O4 no datagram lost or duplicated but upload %s saw success/error/nack = %s" %
                           (who, resp[who]))
    if case.type == 0 and (sum(resp["T"]) == 0 or sum(resp["U"]) == 0):
        # as in O5 of the single transfer: only an abandoned Confirmable (MAX_RETRANSMIT+1
        # transmissions, no reply reached the client) obliges the library to tell the application
        sent_n, answered, txs = {}, set(), {}
        for f in ev:
            if f[0] == "TXc" and f[2] == "0":
                sent_n[f[4]] = sent_n.get(f[4], 0) + 1
            elif f[0] == "TXs" and f[2] in ("2", "3"):
                txs[f[1]] = f[4]
            elif f[0] == "RX" and f[1] in txs:
                answered.add(txs[f[1]])
        abandoned = [m for m, n in sent_n.items() if n >= 5 and m not in answered]
        if abandoned or case.lossless():
            bad.append("O5 a confirmable request (mid %s) was abandoned but an upload ended without "
                       "response, error or NACK" % ",".join(abandoned[:3]))
    return bad


def oracle_b22(case, out):
    """two downloads on one session from ONE resource that differ only in the Uri-Query (?v=1 is
    body A; no query / ?v=2 is body B, another byte stream), overlapping in time: every byte given
    to the requester of A is A's, of B is B's; without loss both complete exactly once"""
    bad = []
    if out.startswith("CRASH") or "END:" not in out:
        return ["driver crashed or did not finish: " + out[:80]]
    ev = parse(out)
    want = {"T": ("=", case.len), "U": ("+", case.len2)}
    pieces = {"T": [], "U": []}
    resp = {"T": [0, 0, 0], "U": [0, 0, 0]}
    adl = rel = 0
    for f in ev:
        k = f[0]
        if k == "HC":
            who, code = f[3], int(f[1])
            if who == "F":
                late = sum(resp["T"]) + sum(resp["U"]) > 0 and not case.lossless()
                bad.append("%s response handler saw token %s, not one of the application's" %
                           ("O3STALE" if late else "O3", f[2]))
                continue
            if code != 69:
                resp[who][1 if code >> 5 != 2 else 0] += 0 if code == 95 else 1
                continue
            off, total, ln, eq = int(f[4]), int(f[5]), int(f[6]), f[8]
            ch, wlen = want[who]
            if ln > 0 and (eq != ch or off + ln > wlen):
                bad.append("O1 the requester of body %s was given bytes that are not that body's "
                           "(off=%d total=%d len=%d eq=%s): two downloads that differ in the query were mixed"
                           % ("A" if who == "T" else "B", off, total, ln, eq))
            pieces[who].append((off, ln))
            if off + ln >= wlen:
                resp[who][0] += 1
        elif k == "NK" and f[3] in resp:
            resp[f[3]][2] += 1
        elif k == "EV" and f[2] == "3001" and not case.single_cli:
            pieces = {"T": [], "U": []}
        elif k == "END" and f[1] == "steps":
            bad.append("LIVELOCK the exchange does not terminate")
        elif k == "ADL":
            adl += 1
        elif k == "FIN":
            rel = int(f[2])
    complete = {}
    for who in ("T", "U"):
        wlen = want[who][1]
        if case.single_cli:
            complete[who] = sum(1 for (o, l) in pieces[who] if o == 0 and l == wlen)
        else:
            pos, n = 0, 0
            for (o, l) in pieces[who]:
                if o == pos:
                    pos += l
                if pos == wlen and wlen > 0:
                    n += 1
                    pos = 0
            complete[who] = n
    if case.lossless():
        if complete["T"] != 1 or complete["U"] != 1:
            bad.append("O4 no datagram lost or duplicated but complete downloads A=%d B=%d" %
                       (complete["T"], complete["U"]))
        for who in ("T", "U"):
            if resp[who][1] or resp[who][2]:
                bad.append("O4 no datagram lost or duplicated but download %s saw errors/nacks %s" % (who, resp[who]))
        if rel != adl:
            bad.append("O7 server release callback ran %d times for %d coap_add_data_large_response calls" % (rel, adl))
    return bad


def run_oracle(line, out):
    c = Case(line)
    c.tok = ""
    for tok in out.split()[:2]:
        if tok.startswith("TOK:"):
            c.tok = tok[4:]
    if c.dir == "b11":
        return c, oracle_b11(c, out)
    if c.dir == "b22":
        return c, oracle_b22(c, out)
    return c, oracle(c, out)


# ------------------------------------------------------------------ correspondence with the model
def tie_lines(case, out):
    """From one trace build the two model cases:
      blkwire : every body-carrying block message the sender put on the wire (must be the slice
                the model cuts: Slices.v vs coap_add_data_large_internal and the send paths)
      blkrecv : the block messages that reached the receiver, in order, with R where the real
                receiver dropped its state; the model's outcome per message must equal what
                the real receiver did (RecBlocks.v reassembly cores vs put_block / get_block)
    -> (wire_line or None, recv_line or None, observed outcome string)"""
    if "END:" not in out or case.dir in ("b11", "b22"):
        return None, None, ""
    ev = parse(out)
    data_sender = "TXc" if case.dir == "b1" else "TXs"
    bopt = 6 if case.dir == "b1" else 7
    sopt = 8 if case.dir == "b1" else 9
    single_rx = case.single_srv if case.dir == "b1" else case.single_cli
    blk = {}          # idx -> block token
    wire = []
    plain = False     # a body-carrying message without Block option: not a block-wise transfer
    for f in ev:
        if f[0] == data_sender and f[2] != "UNPARSEABLE" and int(f[10]) > 0 and \
           (case.dir == "b1" or int(f[3]) == 69):
            if f[bopt] == "-":
                plain = True
                continue
            tok = "%s/%s/%s/%s/%s" % (f[bopt], f[sopt], f[10], f[11], f[13] if len(f) > 13 else "-")
            blk[f[1]] = tok
            wire.append(tok)
    if plain or not wire:
        return None, None, ""
    wire_line = "blkwire %d %d %s" % (case.len, case.seed, " ".join(wire))
    if not single_rx:
        return wire_line, None, ""
    # receiver side
    rcv_idx = 0 if case.dir == "b1" else 2       # field of ST: lg_srcv count / lg_crcv count
    toks = []
    obs = []
    cur = None         # events of the arrival being handled
    state_n, initial = 0, 0

    cur_before = 0

    def close():
        nonlocal cur
        if cur is None:
            return
        letter = "C"
        for g in cur:
            if case.dir == "b1":
                if g[0] == "HS":
                    letter = "D"
                elif g[0] == "TXs" and g[3] == "136" and letter != "D":
                    letter = "F"
                elif g[0] == "TXs" and g[3] == "128" and letter != "D":
                    letter = "J"
            else:
                if g[0] == "HC" and g[1] == "69":
                    letter = "D"
                elif g[0] == "HC" and g[1] == "130":
                    letter = "J"
                elif g[0] == "HC" and g[1] == "136":
                    letter = "F"
        if letter == "D" and case.dir == "b1" and toks and toks[-1].startswith("0/0/"):
            letter = "P"      # NUM 0 without More: handed to the application as it is
        if case.dir == "b2" and letter == "C" and cur_before == 0 and state_n == 0 and \
           not any(g[0] == "TXc" and g[3] == "1" for g in cur):
            # no lg_crcv before or after and nothing requested: the block never reached the
            # reassembly code ("large body receive internal issue": no lg_crcv, no request in
            # the send queue to make one from)
            toks.pop()
            cur = None
            return
        obs.append(letter)
        cur = None

    txinfo = {}        # idx -> (sender, type, mid)
    for f in ev:
        if f[0] in ("TXc", "TXs") and f[2] != "UNPARSEABLE":
            txinfo[f[1]] = (f[0], f[2], f[4])
    last_ack_mid = last_con_mid = None
    pending = None     # (token, n_before) of a Block2 arrival that may turn out to be ignored
    for f in ev:
        k = f[0]
        if k == "RX":
            close()
            who, typ, mid = txinfo.get(f[1], ("?", "?", "?"))
            if case.dir == "b2" and who == "TXs":
                # message layer of the client (handle_response): a repeated ACK / CON Message-ID
                # is not processed again
                if typ == "2":
                    if mid == last_ack_mid:
                        continue
                    last_ack_mid = mid
                elif typ == "0":
                    if mid == last_con_mid:
                        continue
                    last_con_mid = mid
            if f[1] in blk:
                toks.append(blk[f[1]])
                cur = []
                cur_before = state_n
            continue
        if k in ("T", "END"):
            close()
        if k == "ST":
            n = int(f[1 + rcv_idx])
            ini = int(f[5]) if len(f) > 5 else 0
            dropped = n < state_n
            restarted = case.dir == "b2" and ini == 1 and initial == 0 and n >= 1 and state_n >= 1
            if dropped or restarted:
                # a drop that goes with a delivery / failure / rejection of the current arrival is
                # the model's own transition; anything else is a timeout or a restart
                natural = False
                if cur is not None:
                    for g in cur:
                        if (g[0] == "HS") or (g[0] == "HC" and g[1] in ("69", "130")) or \
                           (g[0] == "TXs" and g[3] in ("136",)):
                            natural = True
                if not natural:
                    close()
                    toks.append("R")
            state_n, initial = n, ini
            continue
        if cur is not None:
            cur.append(f)
    close()
    if case.dir == "b2" and "D" in obs:
        # after the delivery the lg_crcv is gone; whether a later block finds or makes a new
        # one is decided by tokens and the send queue, which the reassembly model leaves out
        cut = obs.index("D") + 1
        nblk = 0
        for i, t in enumerate(toks):
            if t != "R":
                nblk += 1
                if nblk == cut:
                    toks = toks[:i + 1]
                    break
        obs = obs[:cut]
    mx = case.srv_szx if case.srv_szx != 7 else 0
    recv_line = "blkrecv %s %d %d %d %s" % (case.dir, case.len, case.seed, mx, " ".join(toks))
    return wire_line, recv_line, "".join(obs)


MAX_TRANSMIT_WAIT_MS = 93000      # ACK_TIMEOUT 2 s, ACK_RANDOM_FACTOR 1.5, MAX_RETRANSMIT 4


def timer_line(case, out):
    """client-side transfer state (lg_xmit of an upload / lg_crcv of a download) against the timed
    model: progress events = a new block sent (b1) / a new block accepted (b2), checks = every
    point where the library's timeout functions ran; -> (model line, observed) or (None, None).
    Only for schedules that lose datagrams (no duplication / reordering), where "new block" is
    unambiguous."""
    if case.dir not in ("b1", "b2") or any(c not in ".x" for c in case.sched) or "END:" not in out:
        return None, None
    ev = parse(out)
    fld = 4 if case.dir == "b1" else 3            # ST: client lg_xmit / lg_crcv count
    now = 1000
    t0 = None
    evs = []
    seen = set()
    txinfo = {}
    observed = "alive"
    alive_seen = False
    for f in ev:
        k = f[0]
        if k == "T":
            now = int(f[1])
            if t0 is not None:
                evs.append("C%d" % now)
        elif k == "TXc" and f[2] != "UNPARSEABLE":
            if case.dir == "b1" and f[6] != "-" and int(f[10]) > 0:
                num = f[6].split("/")[0] + "/" + f[6].split("/")[2]
                if num not in seen:
                    seen.add(num)
                    if t0 is None:
                        t0 = now
                    else:
                        evs.append("P%d" % now)
        elif k == "TXs" and f[2] != "UNPARSEABLE":
            txinfo[f[1]] = f
        elif k == "RX":
            if t0 is not None:
                evs.append("C%d" % now)
            g = txinfo.get(f[1])
            if case.dir == "b2" and g is not None and g[7] != "-" and g[3] == "69":
                key = g[7].split("/")[0] + "/" + g[7].split("/")[2] + "/" + (g[13] if len(g) > 13 else "-")
                if key not in seen:
                    seen.add(key)
                    if t0 is None:
                        t0 = now
                    else:
                        evs.append("P%d" % now)
        elif k == "ST":
            n = int(f[fld])
            if n >= 1:
                alive_seen = True
            elif alive_seen and observed == "alive":
                observed = "gone@%d" % now
        elif k in ("HC", "NK"):
            break                                   # concluded: the state goes with the transfer
    if t0 is None or not alive_seen:
        return None, None
    return "blktimed %d %d %s" % (MAX_TRANSMIT_WAIT_MS, t0, " ".join(evs)), observed

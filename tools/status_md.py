#!/usr/bin/env python3
"""Prints the 'as built' tables of DESIGN.md section 10 from MANIFEST.json, evidence/*.json,
known_findings*.json and seeded/*/meta.json (so the document is regenerated, not retyped)."""
import glob, json, os, re
R = os.path.dirname(os.path.dirname(os.path.abspath(__file__)))
man = json.load(open(os.path.join(R, "MANIFEST.json")))
props = {json.loads(l)["id"]: json.loads(l)["title"] for l in open(os.path.join(R, "properties.jsonl")) if l.strip()}
find = {}
for p in [os.path.join(R, "known_findings.json")] + sorted(glob.glob(os.path.join(R, "known_findings.d", "*.json"))):
    for f in json.load(open(p)).get("findings", []):
        find.setdefault(f["property"], []).append(f)
seeds = {}
for p in sorted(glob.glob(os.path.join(R, "seeded", "*", "meta.json"))):
    m = json.load(open(p))
    seeds.setdefault(m["property"], []).append(m)
claimed = {c["property_id"]: c for c in man["checks"]}
print("| id | property | level | theorems (obligations = discharged) | quick wall | tie evaluations / distinct non-trivial | defects fixed in /repo | known findings | seeded changes caught |")
print("|---|---|---|---|---|---|---|---|---|")
for pid in sorted(props):
    if pid not in claimed:
        print("| %s | %s | not claimed | | | | | | |" % (pid, props[pid]))
        continue
    ev = {}
    ep = os.path.join(R, "evidence", pid + ".json")
    if os.path.exists(ep):
        ev = json.load(open(ep))
    c = ev.get("coverage", {})
    fx = [f for f in find.get(pid, []) if f.get("status") == "fixed"]
    kn = [f for f in find.get(pid, []) if f.get("status") == "known"]
    ss = seeds.get(pid, [])
    caught = [s for s in ss if s.get("caught_by")]
    print("| %s | %s | %s | %s = %s | %s s | %s / %s | %d | %d | %d of %d |" % (
        pid, props[pid], ev.get("level", "?"), c.get("obligations", "?"), c.get("discharged", "?"),
        ev.get("wall_s", "?"), c.get("evaluations", "?"), c.get("distinct_nontrivial", "?"),
        len(fx), len(kn), len(caught), len(ss)))
print()
print("Seeded changes (independent agents, given only the property text):")
print()
print("| seed | needs to manifest | caught by |")
print("|---|---|---|")
for pid in sorted(seeds):
    for s in seeds[pid]:
        cb = "; ".join(s.get("caught_by") or []) or "**missed** (" + s.get("checks_run", "")[-120:] + ")"
        print("| %s | %s | %s |" % (s["id"], s["needs_to_manifest"].replace("|", "/")[:230], cb.replace("|", "/")[:260]))
print()
print("Known findings (genuine defects recorded, not repaired):")
print()
for pid in sorted(find):
    for f in find[pid]:
        if f.get("status") == "known":
            print("* %s %s: %s" % (pid, f["id"], re.sub(r"^known: property=C\d+ ", "", f["what"])[:420]))
print()
print("Defects repaired in /repo (`fix:` commits), by property:")
print()
for pid in sorted(find):
    fx = [f for f in find[pid] if f.get("status") == "fixed"]
    if fx:
        print("* %s: %s" % (pid, "; ".join("%s %s" % (f.get("commit", "?"), re.sub(r"^fixed: property=C\d+ \w+ ", "", f["what"])[:110]) for f in fx)))

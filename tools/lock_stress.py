"""C13 stress step: real threads on the real public API (harness/h_lock_stress.c), ThreadSanitizer
build of the library.  A data race reported by TSan or a thread that stops making progress is a
concrete failing schedule."""
import os
import re
import subprocess
import time

import vlib

TSAN_OPTS = "halt_on_error=0 exitcode=0 second_deadlock_stack=1 report_signal_unsafe=0"


def split_reports(err):
    """-> list of (kind, text) of ThreadSanitizer reports"""
    out = []
    for blk in err.split("=================="):
        m = re.search(r"WARNING: ThreadSanitizer: ([^\n(]+)", blk)
        if m:
            out.append((m.group(1).strip(), blk.strip()))
    return out


def access_stacks(blk):
    """function names of frame #0 of every access / stack section of a report"""
    tops = []
    for m in re.finditer(r"^\s+(?:Write|Read|Previous write|Previous read|Atomic write|Atomic read|"
                         r"Previous atomic write|Previous atomic read)[^\n]*\n\s+#0 (\S+)", blk, re.M):
        tops.append(m.group(1))
    return tops


def is_lockword_race(kind, blk):
    """known finding C13-F3: coap_lock_lock_func reads global_lock.in_callback / .pid before it
    takes the mutex, racing with the holder's writes of exactly these words"""
    if kind != "data race":
        return False
    if "Location is global 'global_lock'" not in blk:
        return False
    tops = access_stacks(blk)
    return len(tops) >= 2 and "coap_lock_lock_func" in tops


def one_run(exe, secs, workers, seed, variant, profile=0):
    env = dict(os.environ)
    env["TSAN_OPTIONS"] = TSAN_OPTS
    t0 = time.time()
    try:
        p = subprocess.run([exe, str(secs), str(workers), str(seed), str(profile)], stdout=subprocess.PIPE,
                           stderr=subprocess.PIPE, timeout=secs + 60, env=env)
        out, err, rc = p.stdout.decode("latin-1"), p.stderr.decode("latin-1"), p.returncode
    except subprocess.TimeoutExpired as e:
        out = (e.stdout or b"").decode("latin-1")
        err = (e.stderr or b"").decode("latin-1")
        rc = -999
    return {"out": out, "err": err, "rc": rc, "secs": round(time.time() - t0, 1), "workers": workers,
            "seed": seed, "variant": variant, "asked": secs, "profile": profile}


def stress(run, plan=None, errpaths=True):
    if plan is None:
        # (variant, seconds, workers[, profile]); profile 1 = mostly short-lived client sessions
        # with traffic in flight when they are released (corpus/C13/sessions.stress, C13-F5)
        if run.tier == "quick":
            plan = [("tsan", 3, 3, 1), ("tsan", 3, 2, 0), ("tsan", 4, 8, 0)]
        else:
            plan = [("tsan", 30, 4, 1), ("tsan", 40, 2, 0), ("tsan", 60, 4, 0), ("tsan", 60, 8, 0),
                    ("tsan", 30, 8, 1), ("base", 40, 8, 0), ("base", 20, 3, 1)]
    exes = {}
    for v in sorted(set(p[0] for p in plan) | ({"base"} if errpaths else set())):
        exes[v] = vlib.build_driver("h_lock_stress", ["h_lock_stress.c"], v)
    f3 = None
    for f in run.kf:
        if f.get("id") == "C13-F3":
            f3 = f
    summary = []
    nviol = 0
    # corpus first: scenario modes of the driver
    #  errpaths: error paths of API functions that take the lock themselves (C13-F4)
    #  wakeup  : a call from another thread must wake the thread blocked in coap_io_process(COAP_IO_WAIT),
    #            also after a timer has been pending once and expired (seeded change C13-s10)
    scen = [("errpaths", "a failing API call leaves the global lock held: every other thread blocks for ever",
             "failed_call_released_lock=1", 60),
            ("wakeup", "a call from another thread does not wake the I/O thread blocked in "
                       "coap_io_process(COAP_IO_WAIT): the call has no effect, the thread stays blocked",
             "notifications=3", 90)] if errpaths else []
    for mode, what, marker, tmo in scen:
        v0 = "base" if "base" in exes else sorted(exes)[0]
        try:
            p = subprocess.run([exes[v0], mode], stdout=subprocess.PIPE, stderr=subprocess.PIPE, timeout=tmo)
            out, rc = p.stdout.decode("latin-1"), p.returncode
        except subprocess.TimeoutExpired as e:
            out, rc = (e.stdout or b"").decode("latin-1"), -999
        ok = rc == 0 and (mode + " ok") in out
        run.count("stress " + mode, ok and marker in out)
        run.hist("kind", "stress-" + mode)
        summary.append({"variant": v0, "mode": mode, "ok": ok, "output": out.strip()[-300:]})
        if not ok:
            nviol += 1
            run.violation(what, "command: %s %s   (variant %s; see corpus/C13/%s.stress)\n\n%s\n" %
                          (exes[v0], mode, v0, mode, out[-3000:]), tag=mode)
    for k, item in enumerate(plan):
        variant, secs, workers = item[:3]
        profile = item[3] if len(item) > 3 else 0
        seed = run.seed * 100 + k
        r = one_run(exes[variant], secs, workers, seed, variant, profile)
        line = [l for l in r["out"].split("\n") if l.startswith("stress ")]
        stats = dict(re.findall(r"(\w+)=(\d+)", line[-1])) if line else {}
        ok = bool(line) and line[-1].startswith("stress ok") and r["rc"] == 0
        reports = split_reports(r["err"])
        known = [b for kd, b in reports if is_lockword_race(kd, b)]
        other = [(kd, b) for kd, b in reports if not is_lockword_race(kd, b)]
        key = "stress %s workers=%d seed=%d profile=%d" % (variant, workers, seed, profile)
        nontriv = ok and int(stats.get("reentries", 0)) > 0 and int(stats.get("responses", 0)) > 0 \
            and int(stats.get("events", 0)) > 0
        run.count(key, nontriv)
        run.hist("kind", "stress-" + variant)
        summary.append({"variant": variant, "workers": workers, "seed": seed, "profile": profile, "seconds": r["secs"],
                        "ok": ok, "tsan_reports": len(reports), "tsan_known_lockword": len(known),
                        "tsan_other": len(other), **{k2: int(v) for k2, v in stats.items()}})
        if known:
            if f3 and f3.get("status") == "known":
                run.known(f3, "%d report(s), %s" % (len(known), key))
            else:
                other = [("data race", b) for b in known] + other
        if not ok:
            nviol += 1
            if nviol <= 2:
                stuck = "\n".join(l for l in r["out"].split("\n") if l.startswith("STUCK"))
                what = "a thread stopped making progress (hang)" if stuck else \
                    ("stress driver died rc=%d" % r["rc"])
                run.violation("stress on the real API with %d worker threads + I/O thread: %s" % (workers, what),
                              "command: %s %d %d %d %d   (variant %s)\n\n%s\n\nstdout:\n%s\n\nstderr (tail):\n%s\n"
                              % (exes[variant], secs, workers, seed, profile, variant, stuck, r["out"][-3000:],
                                 r["err"][-6000:]), tag="hang%d" % nviol)
        for kd, b in other[:3]:
            nviol += 1
            if nviol <= 4:
                tops = access_stacks(b)
                run.violation("ThreadSanitizer: %s between %s (stress, %d workers, profile %d)" %
                              (kd, " / ".join(tops[:2]), workers, profile),
                              "command: TSAN_OPTIONS='%s' %s %d %d %d %d   (variant %s)\n\n%s\n" %
                              (TSAN_OPTS, exes[variant], secs, workers, seed, profile, variant, b[:12000]),
                              tag="race%d" % nviol)
    run.cov["stress"] = summary
    run.sample({"stress": summary[-1]})
    return summary

"""C05 helper: run case lines through a driver in batches, a few batches in parallel, and survive a
driver that hangs (a reader that no longer terminates is a result, not a reason to wait for ever)
or crashes.  Results stay aligned with the input lines; a case that hangs yields "HANG", one that
kills the driver "CRASH rc=<n>"."""
import concurrent.futures
import subprocess

import vlib


BUDGET = {"bad": 0}      # hangs/crashes seen in this process; beyond 12 nothing more is probed


def _one_by_one(exe, chunk, per_case_timeout, env):
    outs = []
    bad = 0
    for ln in chunk:
        if bad >= 4 or BUDGET["bad"] >= 12:
            outs.append("<not run>")
            continue
        try:
            rc, out, err = vlib.run_lines(exe, [], [ln], timeout=per_case_timeout, env=env)
            if rc == 0 and out and out[0] != "":
                outs.append(out[0])
            else:
                outs.append("CRASH rc=%d" % rc)
                bad += 1
                BUDGET["bad"] += 1
        except subprocess.TimeoutExpired:
            outs.append("HANG")
            bad += 1
            BUDGET["bad"] += 1
    return outs


def _run_chunk(exe, chunk, timeout, per_case_timeout, env):
    try:
        rc, out, err = vlib.run_lines(exe, [], chunk, timeout=timeout, env=env)
        if out and out[-1] == "":
            out = out[:-1]
        if rc == 0 and len(out) == len(chunk):
            return out
    except subprocess.TimeoutExpired:
        pass
    return _one_by_one(exe, chunk, per_case_timeout, env)


def run_cases(exe, lines, batch=300, timeout=40, per_case_timeout=8, workers=4, env=None):
    chunks = [lines[i:i + batch] for i in range(0, len(lines), batch)]
    with concurrent.futures.ThreadPoolExecutor(max_workers=workers) as ex:
        res = list(ex.map(lambda c: _run_chunk(exe, c, timeout, per_case_timeout, env), chunks))
    out = []
    for r in res:
        out.extend(r)
    return out


def cleanup_sockets():
    """unix-domain socket files of driver processes that were killed (hang/timeout) stay behind;
    remove those whose process no longer exists"""
    import glob
    import os
    for p in glob.glob("/var/tmp/verif.5.*"):
        try:
            pid = int(p.rsplit(".", 1)[1].rstrip("b"))
        except ValueError:
            continue
        if not os.path.exists("/proc/%d" % pid):
            try:
                os.unlink(p)
            except OSError:
                pass

(* C14 handlers: the extracted OSCORE reference (coq/Oscore/Protect.v) on the case lines of
   tools/gen_oscore.py; harness/h_oscore.c prints the same formats from libcoap. *)
open Model
open Util

let fullhex (l : z list) : string =
  match l with
  | [] -> "-"
  | _ ->
      let b = Buffer.create 64 in
      List.iter (fun x -> Buffer.add_string b (Printf.sprintf "%02x" (int_of_z x land 0xff))) l;
      Buffer.contents b

let opt_tok s = if s = "-" then None else Some (bytes_of_tok s)

(* <secret> <salt|-> <idctx|-> <sid> <rid> -> context of the endpoint whose sender id is sid *)
(* derived contexts are memoised (glue only: the same context is used by thousands of tamper
   deliveries) *)
let ctx_cache : (string, osc_sec) Hashtbl.t = Hashtbl.create 64
let ctx_of secret salt idctx sid rid =
  let key = String.concat " " [secret; salt; idctx; sid; rid] in
  match Hashtbl.find_opt ctx_cache key with
  | Some c -> c
  | None ->
      let c = osc_derive (bytes_of_tok secret) (opt_tok salt) (opt_tok idctx) (bytes_of_tok sid)
                (bytes_of_tok rid) in
      if Hashtbl.length ctx_cache > 4096 then Hashtbl.reset ctx_cache;
      Hashtbl.replace ctx_cache key c; c

(* <type> <code> <mid> <token> <nopts> {<num> <bytes>}* <payload> ; returns (msg, rest) *)
let msg_of toks =
  match toks with
  | ty :: code :: mid :: tok :: n :: tl ->
      let n = int_of_string n in
      let rec opts k tl acc =
        if k = 0 then (List.rev acc, tl)
        else match tl with
          | num :: v :: tl' -> opts (k - 1) tl' ((zi num, bytes_of_tok v) :: acc)
          | _ -> failwith "msg opts" in
      let os, tl = opts n tl [] in
      (match tl with
       | pl :: rest ->
           ({ m_type = zi ty; m_code = zi code; m_mid = zi mid; m_token = bytes_of_tok tok;
              m_opts = os; m_payload = bytes_of_tok pl }, rest)
       | _ -> failwith "msg payload")
  | _ -> failwith "msg"

let dump_res r = match r with None -> "REJECT" | Some m -> "OK [" ^ dump_msg m ^ "]"

(* a received datagram at an endpoint *)
let receive c assoc (dg : z list) : string =
  match parse UDP dg with
  | None -> "PARSE-REJECT"
  | Some o ->
      (match osc_find_opt (z_of_int 9) o.m_opts with
       | None -> "PLAIN [" ^ dump_msg o ^ "]"
       | Some _ -> dump_res (osc_unprotect c assoc o))

(* oscderive <secret> <salt> <idctx> <sid> <rid> *)
let oscderive toks =
  match toks with
  | [secret; salt; idctx; sid; rid] ->
      let c = ctx_of secret salt idctx sid rid in
      Printf.sprintf "skey=%s rkey=%s iv=%s" (fullhex c.sc_skey) (fullhex c.sc_rkey) (fullhex c.sc_iv)
  | _ -> failwith "oscderive args"

(* oscx <secret> <salt> <idctx> <cid> <sid> <reqmsg> <cseq> <respmsg> <sendpiv> <sseq>
   full exchange: client protects the request, server verifies it, server protects the
   response, client verifies it *)
let oscx toks =
  match toks with
  | secret :: salt :: idctx :: cid :: sid :: tl ->
      let cc = ctx_of secret salt idctx cid sid in
      let sc = ctx_of secret salt idctx sid cid in
      let req, tl = msg_of tl in
      (match tl with
       | cseq :: tl ->
           let resp, tl = msg_of tl in
           (match tl with
            | [sendpiv; sseq] ->
                let b = Buffer.create 256 in
                Buffer.add_string b (Printf.sprintf "ck=%s/%s/%s" (fullhex cc.sc_skey)
                                       (fullhex cc.sc_rkey) (fullhex cc.sc_iv));
                (match osc_protect_req cc req (zi cseq) with
                 | None -> Buffer.add_string b " p1=NONE"
                 | Some o1 ->
                     let dg1 = serialize UDP o1 in
                     Buffer.add_string b (" p1=" ^ fullhex dg1);
                     Buffer.add_string b (" d1=" ^ receive sc None dg1);
                     let rpiv = osc_piv_bytes (zi cseq) in
                     (match osc_protect_resp sc resp rpiv (sendpiv = "1") (zi sseq) with
                      | None -> Buffer.add_string b " p2=NONE"
                      | Some o2 ->
                          let dg2 = serialize UDP o2 in
                          Buffer.add_string b (" p2=" ^ fullhex dg2);
                          Buffer.add_string b
                            (" d2=" ^ receive cc (Some (req.m_token, rpiv)) dg2)));
                Buffer.contents b
            | _ -> failwith "oscx tail")
       | _ -> failwith "oscx cseq")
  | _ -> failwith "oscx args"

(* oscun <secret> <salt> <idctx> <sid> <rid> req <datagram>
   oscun <secret> <salt> <idctx> <sid> <rid> resp <reqtoken> <reqseq> <datagram> *)
let oscun toks =
  match toks with
  | [secret; salt; idctx; sid; rid; "req"; dg] ->
      receive (ctx_of secret salt idctx sid rid) None (bytes_of_tok dg)
  | [secret; salt; idctx; sid; rid; "resp"; tok; seq; dg] ->
      receive (ctx_of secret salt idctx sid rid)
        (Some (bytes_of_tok tok, osc_piv_bytes (zi seq))) (bytes_of_tok dg)
  | _ -> failwith "oscun args"

let () =
  register "oscderive" oscderive; register "oscx" oscx; register "oscun" oscun

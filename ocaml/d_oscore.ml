(* C14 handlers: the extracted OSCORE reference (coq/Oscore/Protect.v) on the case lines of
   tools/gen_oscore.py; harness/h_oscore.c prints the same formats from libcoap. *)
open Model
open Util

let fullhex (l : z list) : string =
  match l with
  | [] -> "-"
  | _ ->
      let b = Buffer.create 64 in
      List.iter (fun x -> Buffer.add_string b (Printf.sprintf "%02x" (int_of_z x land 0xff))) l;
      Buffer.contents b

let opt_tok s = if s = "-" then None else Some (bytes_of_tok s)

(* <secret> <salt|-> <idctx|-> <sid> <rid> -> context of the endpoint whose sender id is sid *)
(* derived contexts are memoised (glue only: the same context is used by thousands of tamper
   deliveries) *)
let ctx_cache : (string, osc_sec) Hashtbl.t = Hashtbl.create 64
let ctx_of secret salt idctx sid rid =
  let key = String.concat " " [secret; salt; idctx; sid; rid] in
  match Hashtbl.find_opt ctx_cache key with
  | Some c -> c
  | None ->
      let c = osc_derive (bytes_of_tok secret) (opt_tok salt) (opt_tok idctx) (bytes_of_tok sid)
                (bytes_of_tok rid) in
      if Hashtbl.length ctx_cache > 4096 then Hashtbl.reset ctx_cache;
      Hashtbl.replace ctx_cache key c; c

(* <type> <code> <mid> <token> <nopts> {<num> <bytes>}* <payload> ; returns (msg, rest) *)
let msg_of toks =
  match toks with
  | ty :: code :: mid :: tok :: n :: tl ->
      let n = int_of_string n in
      let rec opts k tl acc =
        if k = 0 then (List.rev acc, tl)
        else match tl with
          | num :: v :: tl' -> opts (k - 1) tl' ((zi num, bytes_of_tok v) :: acc)
          | _ -> failwith "msg opts" in
      let os, tl = opts n tl [] in
      (match tl with
       | pl :: rest ->
           ({ m_type = zi ty; m_code = zi code; m_mid = zi mid; m_token = bytes_of_tok tok;
              m_opts = os; m_payload = bytes_of_tok pl }, rest)
       | _ -> failwith "msg payload")
  | _ -> failwith "msg"

let dump_res r = match r with None -> "REJECT" | Some m -> "OK [" ^ dump_msg m ^ "]"

(* a received datagram at an endpoint *)
let receive c assoc (dg : z list) : string =
  match parse UDP dg with
  | None -> "PARSE-REJECT"
  | Some o ->
      (match osc_find_opt (z_of_int 9) o.m_opts with
       | None -> "PLAIN [" ^ dump_msg o ^ "]"
       | Some _ -> dump_res (osc_unprotect c assoc o))

(* oscderive <secret> <salt> <idctx> <sid> <rid> *)
let oscderive toks =
  match toks with
  | [secret; salt; idctx; sid; rid] ->
      let c = ctx_of secret salt idctx sid rid in
      Printf.sprintf "skey=%s rkey=%s iv=%s" (fullhex c.sc_skey) (fullhex c.sc_rkey) (fullhex c.sc_iv)
  | _ -> failwith "oscderive args"

(* oscx <secret> <salt> <idctx> <cid> <sid> <reqmsg> <cseq> <respmsg> <sendpiv> <sseq>
   full exchange: client protects the request, server verifies it, server protects the
   response, client verifies it *)
let oscx toks =
  match toks with
  | secret :: salt :: idctx :: cid :: sid :: tl ->
      let cc = ctx_of secret salt idctx cid sid in
      let sc = ctx_of secret salt idctx sid cid in
      let req, tl = msg_of tl in
      (match tl with
       | cseq :: tl ->
           let resp, tl = msg_of tl in
           (match tl with
            | [sendpiv; sseq] ->
                let b = Buffer.create 256 in
                Buffer.add_string b (Printf.sprintf "ck=%s/%s/%s" (fullhex cc.sc_skey)
                                       (fullhex cc.sc_rkey) (fullhex cc.sc_iv));
                (match osc_protect_req cc req (zi cseq) with
                 | None -> Buffer.add_string b " p1=NONE"
                 | Some o1 ->
                     let dg1 = serialize UDP o1 in
                     Buffer.add_string b (" p1=" ^ fullhex dg1);
                     Buffer.add_string b (" d1=" ^ receive sc None dg1);
                     let rpiv = osc_piv_bytes (zi cseq) in
                     (match osc_protect_resp sc resp rpiv (sendpiv = "1") (zi sseq) with
                      | None -> Buffer.add_string b " p2=NONE"
                      | Some o2 ->
                          let dg2 = serialize UDP o2 in
                          Buffer.add_string b (" p2=" ^ fullhex dg2);
                          Buffer.add_string b
                            (" d2=" ^ receive cc (Some (req.m_token, rpiv)) dg2)));
                Buffer.contents b
            | _ -> failwith "oscx tail")
       | _ -> failwith "oscx cseq")
  | _ -> failwith "oscx args"

(* oscun <secret> <salt> <idctx> <sid> <rid> req <datagram>
   oscun <secret> <salt> <idctx> <sid> <rid> resp <reqtoken> <reqseq> <datagram> *)
let oscun toks =
  match toks with
  | [secret; salt; idctx; sid; rid; "req"; dg] ->
      receive (ctx_of secret salt idctx sid rid) None (bytes_of_tok dg)
  | [secret; salt; idctx; sid; rid; "resp"; tok; seq; dg] ->
      receive (ctx_of secret salt idctx sid rid)
        (Some (bytes_of_tok tok, osc_piv_bytes (zi seq))) (bytes_of_tok dg)
  | _ -> failwith "oscun args"

(* oscseq <secret> <salt> <idctx> <cid> <sid> <token> <type> <cseq> <sseq> <step>*
   several requests and responses on ONE token between the same two endpoints (Observe
   registration, re-registration / cancellation with the same token, responses with and without
   Partial IV).  Steps: Q- | Q0 | Q1 (request without Observe / Observe 0 / Observe 1),
   R<o><p> (response; o = 1 carries Observe, p = 1 forces a Partial IV).  The state is what
   RFC 8613 prescribes: sender sequence numbers, and the request binding (Partial IV of the
   latest request on the token) that responses are protected and verified with. *)
let oscseq toks =
  match toks with
  | secret :: salt :: idctx :: cid :: sid :: tok :: ty :: cseq :: sseq :: steps ->
      let cc = ctx_of secret salt idctx cid sid in
      let sc = ctx_of secret salt idctx sid cid in
      let token = bytes_of_tok tok in
      let cs = ref (int_of_string cseq) and ss = ref (int_of_string sseq) in
      let rpiv = ref [] and k = ref 0 in
      let b = Buffer.create 256 in
      let zb n = zbyte.(n land 255) in
      List.iter (fun st ->
        incr k;
        if st.[0] = 'Q' then begin
          let obs = match st.[1] with '0' -> [(z_of_int 6, [])] | '1' -> [(z_of_int 6, [zb 1])] | _ -> [] in
          let m = { m_type = zi ty; m_code = z_of_int 1; m_mid = z_of_int (100 + !k); m_token = token;
                    m_opts = obs @ [(z_of_int 11, [zb 115])]; m_payload = [] } in
          (match osc_protect_req cc m (z_of_int !cs) with
           | None -> Buffer.add_string b " q=NONE"
           | Some o ->
               let dg = serialize UDP o in
               rpiv := osc_piv_bytes (z_of_int !cs);
               cs := !cs + 1;
               Buffer.add_string b (" q=" ^ fullhex dg ^ " dq=" ^ receive sc None dg))
        end else begin
          let obs = st.[1] = '1' and sp = st.[2] = '1' in
          let m = { m_type = z_of_int 1; m_code = z_of_int 69; m_mid = z_of_int (200 + !k); m_token = token;
                    m_opts = (if obs then [(z_of_int 6, [zb !k])] else []);
                    m_payload = [zb 114; zb (48 + !k mod 10)] } in
          (match osc_protect_resp sc m !rpiv sp (z_of_int !ss) with
           | None -> Buffer.add_string b " r=NONE"
           | Some o ->
               let dg = serialize UDP o in
               if obs || sp then ss := !ss + 1;
               Buffer.add_string b (" r=" ^ fullhex dg ^ " dr=" ^ receive cc (Some (token, !rpiv)) dg))
        end) steps;
      Buffer.contents b
  | _ -> failwith "oscseq args"

(* oscmulti <secret> <salt> <idctx> <cid> <sid> <cseq> <sseq> <token>  (peer A)
            <secret> <salt> <idctx> <cid> <sid> <cseq> <sseq> <token>  (peer B)  <step>*
   TWO security contexts at one server, both peers on the SAME server session, requests
   interleaved and responses delayed / out of order.  Steps: Q<p><o> (request of peer p = A|B,
   o = - | 0 | 1 Observe), R<p><o><v> (response to peer p's token; o = 1 Observe, v = 1 forced
   Partial IV).  Each response is protected with the context of ITS request. *)
let oscmulti toks =
  let peer l = match l with
    | secret :: salt :: idctx :: cid :: sid :: cseq :: sseq :: tok :: rest ->
        ((ctx_of secret salt idctx cid sid, ctx_of secret salt idctx sid cid,
          ref (int_of_string cseq), ref (int_of_string sseq), ref [], bytes_of_tok tok), rest)
    | _ -> failwith "oscmulti peer" in
  let pa, rest = peer toks in
  let pb, steps = peer rest in
  let b = Buffer.create 256 and k = ref 0 in
  let zb n = zbyte.(n land 255) in
  List.iter (fun st ->
    incr k;
    let (cc, sc, cs, ss, rpiv, token) = if st.[1] = 'A' then pa else pb in
    if st.[0] = 'Q' then begin
      let obs = match st.[2] with '0' -> [(z_of_int 6, [])] | '1' -> [(z_of_int 6, [zb 1])] | _ -> [] in
      let m = { m_type = z_of_int 1; m_code = z_of_int 1; m_mid = z_of_int (100 + !k); m_token = token;
                m_opts = obs @ [(z_of_int 11, [zb 115])]; m_payload = [] } in
      (match osc_protect_req cc m (z_of_int !cs) with
       | None -> Buffer.add_string b " q=NONE"
       | Some o ->
           let dg = serialize UDP o in
           rpiv := osc_piv_bytes (z_of_int !cs);
           cs := !cs + 1;
           Buffer.add_string b (" q=" ^ fullhex dg ^ " dq=" ^ receive sc None dg))
    end else begin
      let obs = st.[2] = '1' and sp = st.[3] = '1' in
      let m = { m_type = z_of_int 1; m_code = z_of_int 69; m_mid = z_of_int (200 + !k); m_token = token;
                m_opts = (if obs then [(z_of_int 6, [zb !k])] else []);
                m_payload = [zb 114; zb (48 + !k mod 10)] } in
      (match osc_protect_resp sc m !rpiv sp (z_of_int !ss) with
       | None -> Buffer.add_string b " r=NONE"
       | Some o ->
           let dg = serialize UDP o in
           if obs || sp then ss := !ss + 1;
           Buffer.add_string b (" r=" ^ fullhex dg ^ " dr=" ^ receive cc (Some (token, !rpiv)) dg))
    end) steps;
  Buffer.contents b

(* oscproxy <secret> <salt> <idctx> <cid> <sid> <proxy-uri bytes> <msgspec> <cseq>
   <msgspec> = the request after the Proxy-Uri has been split as RFC 7252 6.4 / RFC 8613 4.1.3.3
   prescribe (computed by the generator from the URI's components, not by libcoap) *)
let oscproxy toks =
  match toks with
  | secret :: salt :: idctx :: cid :: sid :: _uri :: tl ->
      let cc = ctx_of secret salt idctx cid sid in
      let sc = ctx_of secret salt idctx sid cid in
      let m, tl = msg_of tl in
      (match tl with
       | [cseq] ->
           (match osc_protect_req cc m (zi cseq) with
            | None -> "p1=NONE"
            | Some o ->
                let dg = serialize UDP o in
                Printf.sprintf "split=[%s] p1=%s d1=%s" (dump_msg m) (fullhex dg) (receive sc None dg))
       | _ -> failwith "oscproxy tail")
  | _ -> failwith "oscproxy args"

let () =
  register "oscproxy" oscproxy;
  register "oscmulti" oscmulti;
  register "oscseq" oscseq;
  register "oscderive" oscderive; register "oscx" oscx; register "oscun" oscun

(* C16 handlers: URI text <-> options (model: coq/Uri/Uri.v, Split.v; spec: Spec.v) *)
open Model
open Util

let full_hex (l : z list) : string =
  match l with
  | [] -> "-"
  | _ ->
      let b = Buffer.create 64 in
      List.iter (fun x -> Buffer.add_string b (Printf.sprintf "%02x" (int_of_z x land 0xff))) l;
      Buffer.contents b

let show_split r =
  match r with
  | UOob -> "OOB"
  | UOk (opts, used) ->
      Printf.sprintf "n=%d used=%d buf=%s" (List.length opts) (int_of_z used)
        (full_hex (List.concat opts))

(* upath <buflen> <bytes> | uquery <buflen> <bytes> *)
let upath toks =
  match toks with
  | [bl; b] -> show_split (uri_split_path (bytes_of_tok b) (zi bl))
  | _ -> failwith "upath args"
let uquery toks =
  match toks with
  | [bl; b] -> show_split (uri_split_query (bytes_of_tok b) (zi bl))
  | _ -> failwith "uquery args"

let pre_opts = [ (z_of_int 3, [z_of_int 104]); (z_of_int 7, [z_of_int 112]); (z_of_int 11, [z_of_int 120]) ]
let rec firstn n l = if n <= 0 then [] else match l with [] -> [] | x :: t -> x :: firstn (n - 1) t

let show_chain r =
  match r with
  | UOob -> "OOB"
  | UOk chain ->
      "rc=1 chain=" ^
      (match chain with
       | [] -> "-"
       | _ -> String.concat "," (List.map (fun (n, v) -> Printf.sprintf "%d:%s" (int_of_z n) (full_hex v)) chain))

(* upol <npre> <optnum> <bytes> | uqol ... *)
let upol toks =
  match toks with
  | [np; num; b] ->
      show_chain (uri_path_into_optlist (bytes_of_tok b) (zi num) (firstn (int_of_string np) pre_opts))
  | _ -> failwith "upol args"
let uqol toks =
  match toks with
  | [np; num; b] ->
      show_chain (uri_query_into_optlist (bytes_of_tok b) (zi num) (firstn (int_of_string np) pre_opts))
  | _ -> failwith "uqol args"

(* ugetp <seg>* | ugetq <seg>* *)
let uget query toks =
  let segs = List.map bytes_of_tok toks in
  let str = if query then uri_get_query segs else uri_get_path segs in
  match str with
  | [] -> "str=- back=n=0 used=0 buf=-"
  | _ ->
      let blen = z_of_int (4 * List.length str + 16) in
      Printf.sprintf "str=%s back=%s" (full_hex str)
        (show_split (if query then uri_split_query str blen else uri_split_path str blen))

let b01 c = (c = '1')

(* uspl <proxy> <caps> <bytes> *)
let uspl toks =
  match toks with
  | [px; caps; b] ->
      let caps = { ucap_dtls = b01 caps.[0]; ucap_tcp = b01 caps.[1]; ucap_tls = b01 caps.[2];
                   ucap_ws = b01 caps.[3]; ucap_wss = b01 caps.[4] } in
      (match uri_split caps (px = "1") (bytes_of_tok b) with
       | UOob -> "OOB"
       | UOk (UErr rc) -> Printf.sprintf "rc=%d" (int_of_z rc)
       | UOk (USplit p) ->
           Printf.sprintf "rc=0 sch=%d host=%s port=%d path=%s query=%s" (int_of_z p.up_scheme)
             (full_hex p.up_host) (int_of_z p.up_port) (full_hex p.up_path) (full_hex p.up_query))
  | _ -> failwith "uspl args"

(* uinto <create> <dst text | -> <bytes> : coap_split_uri + coap_uri_into_optlist; the build
   capabilities are those of the C driver (all supported in the harness configuration) *)
let bytes_of_string s = List.init (String.length s) (fun i -> zbyte.(Char.code s.[i]))
let uinto toks =
  match toks with
  | [cr; dst; b] ->
      let caps = { ucap_dtls = true; ucap_tcp = true; ucap_tls = true; ucap_ws = true;
                   ucap_wss = true } in
      (match uri_split caps false (bytes_of_tok b) with
       | UOob -> "OOB"
       | UOk (UErr rc) -> Printf.sprintf "rc=%d" (int_of_z rc)
       | UOk (USplit p) ->
           let d = if dst = "-" then None else Some (bytes_of_string dst) in
           (match uri_into_optlist p d (cr = "1") [] with
            | UOob -> "OOB"
            | UOk chain ->
                let s = show_chain (UOk chain) in
                "rc=0 into=1" ^ String.sub s 4 (String.length s - 4)))
  | _ -> failwith "uinto args"

(* unew <caps> <bytes> : coap_new_uri + coap_clone_uri *)
let unew toks =
  match toks with
  | [caps; b] ->
      let caps = { ucap_dtls = b01 caps.[0]; ucap_tcp = b01 caps.[1]; ucap_tls = b01 caps.[2];
                   ucap_ws = b01 caps.[3]; ucap_wss = b01 caps.[4] } in
      (match uri_split caps false (bytes_of_tok b) with
       | UOob -> "OOB"
       | UOk (UErr _) -> "rc=-1"
       | UOk (USplit p) ->
           Printf.sprintf "rc=0 sch=%d host=%s port=%d path=%s query=%s clone=%s:%d/%s?%s"
             (int_of_z p.up_scheme) (full_hex p.up_host) (int_of_z p.up_port) (full_hex p.up_path)
             (full_hex p.up_query) (full_hex p.up_host) (int_of_z p.up_port) (full_hex p.up_path)
             (full_hex p.up_query))
  | _ -> failwith "unew args"

(* uhostunix <bytes> : coap_host_is_unix_domain *)
let uhostunix toks =
  match toks with
  | [b] ->
      (match uri_host_is_unix_chk uri_UNIX_K (bytes_of_tok b) with
       | UOob -> "OOB"
       | UOk r -> if r then "unix=1" else "unix=0")
  | _ -> failwith "uhostunix args"

(* uunix <pmax> <bytes> : coap_address_set_unix_domain *)
let uunix toks =
  match toks with
  | [pm; b] ->
      (match uri_unix_path (zi pm) (bytes_of_tok b) with
       | UOob -> "OOB"
       | UOk p -> Printf.sprintf "max=%s rc=1 path=%s" pm (full_hex p))
  | _ -> failwith "uunix args"

(* ugetproxy <bytes> : coap_get_uri_path with a Proxy-Uri option = path of coap_split_proxy_uri *)
let ugetproxy toks =
  match toks with
  | [b] ->
      let caps = { ucap_dtls = true; ucap_tcp = true; ucap_tls = true; ucap_ws = true;
                   ucap_wss = true } in
      (match uri_split caps true (bytes_of_tok b) with
       | UOob -> "OOB"
       | UOk (UErr _) -> "null"
       | UOk (USplit p) -> "path=" ^ full_hex p.up_path)
  | _ -> failwith "ugetproxy args"

(* ---- specification side (oracle): what RFC 3986 / RFC 7252 6.4 say the options are ---- *)
let show_optl l = match l with [] -> "-" | _ -> String.concat "," (List.map full_hex l)
let show_spec r = match r with None -> "MALFORMED" | Some l -> show_optl l

(* in a list, "-" alone would be ambiguous with an empty element: an empty value prints as "" *)
let show_optl l =
  match l with
  | [] -> "NONE"
  | _ -> String.concat "," (List.map (fun v -> match v with [] -> "" | _ -> full_hex v) l)
let show_spec r = match r with None -> "MALFORMED" | Some l -> show_optl l

let spec_path toks =
  match toks with
  | [b] ->
      let s = bytes_of_tok b in
      Printf.sprintf "spec=%s rfc=%s need=%d" (show_spec (uri_spec_path s)) (show_spec (uri_rfc_path s))
        (int_of_z (uri_path_need s))
  | _ -> failwith "spec_path args"
let spec_query toks =
  match toks with
  | [b] ->
      let s = bytes_of_tok b in
      Printf.sprintf "spec=%s need=%d" (show_spec (uri_spec_query s)) (int_of_z (uri_query_need s))
  | _ -> failwith "spec_query args"
(* spec_pq <path> <query> : Uri-Path / Uri-Query values of a split URI (none for an empty part) *)
let spec_pq toks =
  match toks with
  | [p; q] ->
      Printf.sprintf "path=%s query=%s" (show_spec (uri_spec_path_opts (bytes_of_tok p)))
        (show_spec (uri_spec_query_opts (bytes_of_tok q)))
  | _ -> failwith "spec_pq args"
let spec_norm toks = show_optl (uri_norm (List.map bytes_of_tok toks))

let () =
  register "upath" upath; register "uquery" uquery; register "upol" upol; register "uqol" uqol;
  register "ugetp" (uget false); register "ugetq" (uget true); register "uspl" uspl; register "uinto" uinto; register "unew" unew; register "uhostunix" uhostunix; register "uunix" uunix; register "ugetproxy" ugetproxy;
  register "spec_path" spec_path; register "spec_query" spec_query; register "spec_norm" spec_norm; register "spec_pq" spec_pq

(* C20 handlers: same case lines and result format as harness/h_link.c (without the
   " oracle=..." suffix, which is the C driver's implementation-only check).

   lfwk      { R <path> <flags> <nattr> { <name> <val> }* | D <path> }*  F <filter>  W all
   lfwk      ...                                                         F <filter>  W list { <off> <len> }*
   lflk <idx> ...                                                         F ~         W all | list ...
   lfget     ...                                                         F <filter>
   lfconst *)
open Model
open Util

let full_hex (l : z list) : string =
  match l with
  | [] -> "-"
  | _ ->
      let b = Buffer.create 64 in
      List.iter (fun x -> Buffer.add_string b (Printf.sprintf "%02x" (int_of_z x land 0xff))) l;
      Buffer.contents b

(* table ops -> (table, remaining tokens) *)
let rec build_table (tbl : lf_res list) (toks : string list) : lf_res list * string list =
  match toks with
  | "R" :: path :: fl :: na :: tl ->
      let fl = int_of_string fl and na = int_of_string na in
      let r = ref (lf_res_init (bytes_of_tok path) (fl land 2 <> 0)) in
      let rest = ref tl in
      for _ = 1 to na do
        match !rest with
        | name :: v :: tl' ->
            r := lf_add_attr !r (bytes_of_tok name) (if v = "~" then None else Some (bytes_of_tok v));
            rest := tl'
        | _ -> failwith "bad attribute"
      done;
      if fl land 1 <> 0 then r := lf_set_obs !r true;
      build_table (lf_register tbl !r) !rest
  | "D" :: path :: tl -> build_table (lf_unregister tbl (bytes_of_tok path)) tl
  | "M" :: n :: tl ->
      let n = int_of_string n in
      let t = ref tbl in
      let bytes_of_string s = List.init (String.length s) (fun i -> zbyte.(Char.code s.[i])) in
      for k = 0 to n - 1 do
        let r = ref (lf_res_init (bytes_of_string (Printf.sprintf "r/%d" ((k * 7919) mod 10007)))
                       ((k mod 4) land 2 <> 0)) in
        if k mod 3 <> 0 then
          r := lf_add_attr !r (bytes_of_string "rt") (Some (bytes_of_string (Printf.sprintf "\"t%d s\"" (k mod 5))));
        if (k mod 4) land 1 <> 0 then r := lf_set_obs !r true;
        t := lf_register !t !r;
        if k mod 17 = 5 then
          t := lf_unregister !t (bytes_of_string (Printf.sprintf "r/%d" (((k - 3) * 7919) mod 10007)))
      done;
      build_table !t tl
  | ("U" | "P" | "UG" | "UW") :: tl -> build_table tbl tl     (* unknown / proxy-URI resource: not in the table *)
  | _ -> (tbl, toks)

let filter_of_tok t = if t = "~" then None else Some (bytes_of_tok t)

(* FNV-1a fold shared with the C driver *)
let dig = ref 0x811c9dc5
let dig_byte b = dig := ((!dig lxor (b land 0xff)) * 0x01000193) land 0xffffffff
let dig_num v = dig_byte v; dig_byte (v lsr 8); dig_byte (v lsr 16); dig_byte (v lsr 24)

type win = { bytes : z list; count : int; total : int; newoff : int; flag : char; fault : string }

let uint_max = int_of_z lf_uint_max

(* one call of the function under test *)
let one_window (tbl : lf_res list) (lk : int) (filter : z list option) (off : int) (blen : int) : win =
  if lk < 0 then
    match lf_print_wellknown tbl filter (z_of_int off) (z_of_int blen) with
    | LfOob -> { bytes = []; count = 0; total = 0; newoff = 0; flag = 'E'; fault = "OOB" }
    | LfFuel -> { bytes = []; count = 0; total = 0; newoff = 0; flag = 'E'; fault = "FUEL" }
    | LfVal r ->
        (match r.lf_rstatus with
         | LfError -> { bytes = []; count = 0; total = 0; newoff = 0; flag = 'E'; fault = "" }
         | LfDone (c, t) ->
             { bytes = r.lf_rbytes; count = int_of_z c; total = int_of_z r.lf_rtotal; newoff = 0;
               flag = (if t then 'T' else '0'); fault = "" })
  else
    let r = List.nth tbl lk in
    let (((st, stored), total), noff) = lf_print_link r (z_of_int blen) (z_of_int off) in
    match st with
    | LfError -> { bytes = []; count = 0; total = 0; newoff = int_of_z noff; flag = 'E'; fault = "" }
    | LfDone (c, t) ->
        { bytes = stored; count = int_of_z c; total = int_of_z total; newoff = int_of_z noff;
          flag = (if t then 'T' else '0'); fault = "" }

let run_case (lk : int) (toks : string list) : string =
  let (tbl, rest) = build_table [] toks in
  if lk >= List.length tbl then "ERROR link index" else
  let (filter, rest) =
    match rest with "F" :: f :: tl -> (filter_of_tok f, tl) | _ -> (None, rest) in
  match rest with
  | "W" :: mode :: wl ->
      let w0 = one_window tbl lk filter uint_max 0 in
      if w0.fault <> "" then "n=" ^ w0.fault
      else if w0.flag = 'E' then "n=ERR"
      else begin
        let l = w0.total in
        let b = Buffer.create 256 in
        Buffer.add_string b (Printf.sprintf "n=%d" l);
        if mode = "list" then begin
          let rec go = function
            | o :: n :: tl ->
                let o = int_of_string o and n = int_of_string n in
                let w = one_window tbl lk filter o n in
                Buffer.add_string b (Printf.sprintf " w=%d,%d:%s,%d,%c" o n
                                       (full_hex (List.filteri (fun i _ -> i < w.count) w.bytes))
                                       w.total w.flag);
                if lk >= 0 then Buffer.add_string b (Printf.sprintf ",%d" w.newoff);
                go tl
            | _ -> () in
          go wl;
          Buffer.contents b
        end else begin
          let wf = one_window tbl lk filter 0 (l + 64) in
          Buffer.add_string b (" full=" ^ full_hex wf.bytes);
          dig := 0x811c9dc5;
          let cnt = ref 0 in
          for off = 0 to l + 2 do
            for bl = 0 to l + 2 do
              let w = one_window tbl lk filter off bl in
              incr cnt;
              List.iter (fun x -> dig_byte (int_of_z x)) w.bytes;
              dig_num w.count; dig_num w.total; dig_byte (Char.code w.flag);
              if lk >= 0 then dig_num w.newoff
            done
          done;
          Buffer.add_string b (Printf.sprintf " dig=%08x cnt=%d" !dig !cnt);
          Buffer.contents b
        end
      end
  | _ -> "ERROR no W"

let () =
  register "lfwk" (fun toks -> run_case (-1) toks);
  register "lflk" (fun toks ->
      match toks with
      | i :: tl -> run_case (int_of_string i) tl
      | _ -> failwith "lflk args");
  (* lfget <mode> { table } { F <query> }* { B <szx> }* : the handler's body (one Uri-Query option per
     F with these bytes; F ~ = none), then its Block2 reassembly for each szx *)
  register "lfget" (fun toks ->
      let toks = (match toks with _mode :: tl -> tl | [] -> []) in
      let (tbl, rest) = build_table [] toks in
      let rec take_opts acc = function
        | "F" :: "~" :: tl -> take_opts acc tl
        | "F" :: f :: tl -> take_opts (bytes_of_tok f :: acc) tl
        | rest -> (List.rev acc, rest) in
      let (opts, rest) = take_opts [] rest in
      (* the last unknown-resource op decides whether that handler has GET and the flag *)
      let last_u = List.fold_left (fun a t -> if t = "U" || t = "UG" || t = "UW" then t else a) "" toks in
      match lf_wk_target false (last_u = "UG" || last_u = "UW") (last_u = "UW") with
      | LfToUnknown -> "203"
      | LfToApp -> "APP"
      | LfToBuiltin ->
      match lf_handle_get tbl opts with
      | Lf503 -> "503"
      | LfFault -> "FAULT"
      | Lf205 body ->
          let b = Buffer.create 256 in
          Buffer.add_string b ("205 " ^ full_hex body);
          let rec nat_of n = if n <= 0 then O else S (nat_of (n - 1)) in
          let rec go = function
            | "B" :: szx :: tl ->
                let szx = int_of_string szx in
                (match lf_reassemble (nat_of (List.length body + 1)) body (z_of_int szx) Z0 with
                 | None -> Buffer.add_string b (Printf.sprintf " b%d=NONE" szx)
                 | Some r -> Buffer.add_string b (Printf.sprintf " b%d=%s" szx (full_hex r)));
                go tl
            | _ -> () in
          go rest;
          Buffer.contents b);
  (* lfparse <hex> : the proved link-format reader on a listing -> canonical dump of the links *)
  register "lfparse" (fun toks ->
      match toks with
      | [h] ->
          (match lf_parse (bytes_of_tok h) with
           | None -> "unparsable"
           | Some links ->
               String.concat " " (List.map (fun (path, attrs) ->
                 full_hex path ^ "|" ^
                 String.concat ";" (List.map (fun a ->
                   full_hex a.lf_aname ^ (match a.lf_avalue with None -> "" | Some v -> "=" ^ full_hex v)) attrs))
                 links) ^ (if links = [] then "none" else ""))
      | _ -> failwith "lfparse args");
  register "lfconst" (fun _ ->
      Printf.sprintf "max=%d uint=%d wk=%s" (int_of_z lf_status_max) (int_of_z lf_uint_max)
        (full_hex lf_wk_path))

(* C04 handlers: in-place edits of a PDU.

   c04 <proto> <amode> <max> B <type> <code> <mid> { T <bytes> | O <num> <bytes> | D <bytes> }*
                             E { I <num> <bytes> | U <num> <bytes> | R <num> | K <bytes> }*
   c04 <proto> <amode> <max> W <bytes>+
                             E { ... }*
   B: the starting message is built through the API with max_size = <max>;
   W: it is the concatenation of the byte tokens, parsed with coap_pdu_parse, then max_size := <max>.
   <amode> (allocation regime of the C driver) means nothing to the model.

   result: start=<rets|P> [dump] { | <0/1> [dump] }* || wire=<bytes> reparse=[dump]          *)
open Model
open Util

let rec split_at_e acc toks =
  match toks with
  | [] -> (List.rev acc, [])
  | "E" :: tl -> (List.rev acc, tl)
  | x :: tl -> split_at_e (x :: acc) tl

let rec build_ops toks =
  match toks with
  | [] -> []
  | "T" :: b :: tl -> OpToken (bytes_of_tok b) :: build_ops tl
  | "O" :: n :: b :: tl -> OpOpt (zi n, bytes_of_tok b) :: build_ops tl
  | "D" :: b :: tl -> OpData (bytes_of_tok b) :: build_ops tl
  | _ -> failwith "bad build op"

let rec edit_ops toks =
  match toks with
  | [] -> []
  | "I" :: n :: b :: tl -> EdInsert (zi n, bytes_of_tok b) :: edit_ops tl
  | "U" :: n :: b :: tl -> EdUpdate (zi n, bytes_of_tok b) :: edit_ops tl
  | "R" :: n :: tl -> EdRemove (zi n) :: edit_ops tl
  | "K" :: b :: tl -> EdToken (bytes_of_tok b) :: edit_ops tl
  | _ -> failwith "bad edit op"

let area_size (m : msg) : int =
  List.length (token_area m.m_token) + List.length (content_area m)

let c04 toks =
  match toks with
  | pr :: _amode :: mx :: kind :: rest ->
      let pr = proto_of_string pr in
      let mxi = int_of_string mx in
      let start_toks, edit_toks = split_at_e [] rest in
      let start =
        match kind, start_toks with
        | "B", ty :: code :: mid :: ops ->
            let p0 = pdu_init (zi ty) (zi code) (zi mid) (zi mx) in
            let rets, p = run_ops p0 (build_ops ops) in
            let rs = String.concat "" (List.map (fun b -> if b then "1" else "0") rets) in
            Ok ((if rs = "" then "-" else rs), p)
        | "W", parts ->
            let bs = List.concat (List.map bytes_of_tok parts) in
            (match ed_start_wire pr bs (zi mx) with
             | None -> Error "REJECT"
             | Some p -> if mxi <> 0 && area_size p.p_msg > mxi then Error "TOOSMALL" else Ok ("P", p))
        | _ -> failwith "c04 start" in
      (match start with
       | Error s -> "start=" ^ s
       | Ok (tag, p0) ->
           let b = Buffer.create 1024 in
           Buffer.add_string b (Printf.sprintf "start=%s [%s]" tag (dump_msg p0.p_msg));
           let p = ref p0 in
           List.iter (fun e ->
               let r, p1 = ed_apply !p e in
               p := p1;
               Buffer.add_string b (Printf.sprintf " | %d [%s]" (if r then 1 else 0) (dump_msg p1.p_msg)))
             (edit_ops edit_toks);
           let wire = serialize pr !p.p_msg in
           Buffer.add_string b (Printf.sprintf " || wire=%s reparse=[%s]" (hex_of_bytes wire)
                                  (dump_parse (parse pr wire)));
           Buffer.contents b)
  | _ -> failwith "c04 args"

let () = register "c04" c04

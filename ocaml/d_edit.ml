(* C04 handlers: in-place edits of a PDU, byte-level model (Edit/EdBytes.v) with the spec-level
   model (Edit/EdSpec.v) run alongside.

   c04 <proto> <amode> <max> B <type> <code> <mid> { T <bytes> | O <num> <bytes> | D <bytes> }*
                             E { I <num> <bytes> | U <num> <bytes> | R <num> | K <bytes> }*
                             [ X <mid'> <smax> <bytes> <filter> ]
   c04 <proto> <amode> <max> W <bytes>+
                             E { ... }* [ X ... ]
   B: the starting message is built through the API with max_size = <max>;
   W: it is the concatenation of the byte tokens, parsed with coap_pdu_parse, then max_size := <max>.
   <amode> (allocation regime of the C driver) means nothing to the model.
   X: finally coap_pdu_duplicate with message id <mid'>, a session that allows <smax> bytes,
      token <bytes> and drop filter <filter> = N (NULL) | - (empty) | n1,n2,...
   c04x: the same with coap_update_token as pinned (8-bit cast of e_token_length).

   result: start=<rets|P> [dump] b=<buffer> <rp> { | <0/1> [dump] b=<buffer> <rp> }*
           [ || dup=NULL | dup=[dump] b=<buffer> <rp> ] || wire=<bytes> reparse=[dump]
   <rp> = "rp==" when header + buffer parse back to the message just dumped (type / message id
   aside on the reliable framings), else rp=[what they parse to | REJECT]
   The spec-level model runs on the same edits; " SPECDIFF@<i>" is appended to a step whose
   byte-level result is not the spec-level one (the refinement theorem says: never). *)
open Model
open Util

let rec split_at acc key toks =
  match toks with
  | [] -> (List.rev acc, [])
  | x :: tl when x = key -> (List.rev acc, tl)
  | x :: tl -> split_at (x :: acc) key tl

let rec build_ops toks =
  match toks with
  | [] -> []
  | "T" :: b :: tl -> OpToken (bytes_of_tok b) :: build_ops tl
  | "O" :: n :: b :: tl -> OpOpt (zi n, bytes_of_tok b) :: build_ops tl
  | "D" :: b :: tl -> OpData (bytes_of_tok b) :: build_ops tl
  | _ -> failwith "bad build op"

let rec edit_ops toks =
  match toks with
  | [] -> []
  | "I" :: n :: b :: tl -> EdInsert (zi n, bytes_of_tok b) :: edit_ops tl
  | "U" :: n :: b :: tl -> EdUpdate (zi n, bytes_of_tok b) :: edit_ops tl
  | "R" :: n :: tl -> EdRemove (zi n) :: edit_ops tl
  | "K" :: b :: tl -> EdToken (bytes_of_tok b) :: edit_ops tl
  | _ -> failwith "bad edit op"

let cur_proto = ref UDP

(* type and message id are not carried by the reliable framings *)
let from_code (d : string) : string =
  if !cur_proto = UDP then d
  else
    let rec find i = if i + 3 > String.length d then 0
      else if String.sub d i 3 = " k=" then i else find (i + 1) in
    let i = find 0 in String.sub d i (String.length d - i)

(* accessor dump, buffer, and whether header + buffer parse back to the same message *)
let dump_b (p : ed_bpdu) : string =
  match ed_abs p with
  | None -> "[STUCK] b=" ^ hex_of_bytes p.eb_buf
  | Some m ->
      let mine = dump_msg m in
      let rp =
        match parse !cur_proto (header !cur_proto m @ p.eb_buf) with
        | None -> "rp=[REJECT]"
        | Some m' ->
            let theirs = dump_msg m' in
            if m'.m_code = m.m_code && from_code mine = from_code theirs then "rp=="
            else Printf.sprintf "rp=[%s]" theirs in
      Printf.sprintf "[%s] b=%s %s" mine (hex_of_bytes p.eb_buf) rp

let same_as_spec (p : ed_bpdu) (q : pdu) : bool =
  match ed_abs p with
  | None -> false
  | Some m -> m = q.p_msg && p.eb_max = q.p_max

let filter_of s =
  if s = "N" then None
  else if s = "-" then Some []
  else Some (List.map zi (String.split_on_char ',' s))

let c04_gen cast8 toks =
  match toks with
  | pr :: _amode :: mx :: kind :: rest ->
      let pr = proto_of_string pr in
      cur_proto := pr;
      let mxi = int_of_string mx in
      let start_toks, rest2 = split_at [] "E" rest in
      let edit_toks, dup_toks = split_at [] "X" rest2 in
      let start =
        match kind, start_toks with
        | "B", ty :: code :: mid :: ops ->
            let p0 = pdu_init (zi ty) (zi code) (zi mid) (zi mx) in
            let rets, q = run_ops p0 (build_ops ops) in
            let rs = String.concat "" (List.map (fun b -> if b then "1" else "0") rets) in
            Ok ((if rs = "" then "-" else rs), ed_of_pdu q, q)
        | "W", parts ->
            let bs = List.concat (List.map bytes_of_tok parts) in
            (match ed_b_start_wire pr bs (zi mx), ed_start_wire pr bs (zi mx) with
             | Some p, Some q ->
                 if mxi <> 0 && List.length p.eb_buf > mxi then Error "TOOSMALL" else Ok ("P", p, q)
             | None, None -> Error "REJECT"
             | _ -> Error "MODEL-INCONSISTENT")
        | _ -> failwith "c04 start" in
      (match start with
       | Error s -> "start=" ^ s
       | Ok (tag, p0, q0) ->
           let b = Buffer.create 1024 in
           Buffer.add_string b (Printf.sprintf "start=%s %s" tag (dump_b p0));
           if not (same_as_spec p0 q0) then Buffer.add_string b " SPECDIFF@start";
           let p = ref p0 and q = ref q0 and stuck = ref false and i = ref 0 in
           List.iter (fun e ->
               incr i;
               if not !stuck then begin
                 let rb =
                   match e with
                   | EdToken t when cast8 -> ed_b_token_cast8 !p t
                   | _ -> ed_b_apply !p e in
                 match rb with
                 | None -> stuck := true; Buffer.add_string b " | STUCK"
                 | Some (r, p1) ->
                     let rq, q1 = ed_apply !q e in
                     p := p1; q := q1;
                     Buffer.add_string b (Printf.sprintf " | %d %s" (if r then 1 else 0) (dump_b p1));
                     if r <> rq || not (same_as_spec p1 q1) then
                       Buffer.add_string b (Printf.sprintf " SPECDIFF@%d" !i)
               end)
             (edit_ops edit_toks);
           (match dup_toks with
            | [mid'; smax; tok; flt] when not !stuck ->
                let t = bytes_of_tok tok and f = filter_of flt in
                (match ed_b_dup !p (zi mid') (zi smax) t f with
                 | None -> Buffer.add_string b " || dup=STUCK"
                 | Some None ->
                     Buffer.add_string b " || dup=NULL";
                     if ed_dup !q (zi mid') (zi smax) t f <> None then
                       Buffer.add_string b " SPECDIFF@dup"
                 | Some (Some d) ->
                     Buffer.add_string b (" || dup=" ^ dump_b d);
                     (match ed_dup !q (zi mid') (zi smax) t f with
                      | Some dq when same_as_spec d dq -> ()
                      | _ -> Buffer.add_string b " SPECDIFF@dup"))
            | [] -> ()
            | _ -> if not !stuck then failwith "c04 dup args");
           (match ed_abs !p with
            | None -> Buffer.add_string b " || wire=STUCK reparse=[]"
            | Some m ->
                let wire = header pr m @ !p.eb_buf in
                Buffer.add_string b (Printf.sprintf " || wire=%s reparse=[%s]" (hex_of_bytes wire)
                                       (dump_parse (parse pr wire))));
           Buffer.contents b)
  | _ -> failwith "c04 args"

(* resize <alloc_size> <max_size> <size> : coap_pdu_check_resize -> <0/1> <new alloc_size> *)
let resize toks =
  match toks with
  | [a; m; sz] ->
      (match ed_check_resize (zi a) (zi m) (zi sz) with
       | None -> "STUCK"
       | Some (r, a') -> Printf.sprintf "%d %d" (if r then 1 else 0) (int_of_z a'))
  | _ -> failwith "resize args"

let () = register "c04" (c04_gen false); register "c04x" (c04_gen true); register "resize" resize

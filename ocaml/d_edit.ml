(* C04 handlers: in-place edits of a PDU, byte-level model (Edit/EdBytes.v) with the spec-level
   model (Edit/EdSpec.v) run alongside.

   c04 <proto> <amode> <max> B <type> <code> <mid> { T <bytes> | O <num> <bytes> | D <bytes> }*
                             E { I <num> <bytes> | U <num> <bytes> | R <num> | K <bytes>
                               | A <num> <bytes> | D <bytes> }*        (A, D: coap_add_option, coap_add_data)
                             [ X <mid'> <smax> <bytes> <filter> ]
   c04 <proto> <amode> <max> W <bytes>+
                             E { ... }* [ X ... ]
   B: the starting message is built through the API with max_size = <max>;
   W: it is the concatenation of the byte tokens, parsed with coap_pdu_parse, then max_size := <max>.
   <amode> (allocation regime of the C driver) means nothing to the model.
   X: finally coap_pdu_duplicate with message id <mid'>, a session that allows <smax> bytes,
      token <bytes> and drop filter <filter> = N (NULL) | - (empty) | n1,n2,...
   c04x: the same with coap_update_token as pinned (8-bit cast of e_token_length).

   result: start=<rets|P> [dump] b=<buffer> <rp> { | <0/1> [dump] b=<buffer> <rp> }*
           [ || dup=NULL | dup=[dump] b=<buffer> <rp> ] || wire=<bytes> reparse=[dump]
   <rp> = "rp==" when header + buffer parse back to the message just dumped (type / message id
   aside on the reliable framings), else rp=[what they parse to | REJECT]
   The spec-level model runs on the same edits; " SPECDIFF@<i>" is appended to a step whose
   byte-level result is not the spec-level one (the refinement theorem says: never). *)
open Model
open Util

let rec split_at acc key toks =
  match toks with
  | [] -> (List.rev acc, [])
  | x :: tl when x = key -> (List.rev acc, tl)
  | x :: tl -> split_at (x :: acc) key tl

let rec build_ops toks =
  match toks with
  | [] -> []
  | "T" :: b :: tl -> OpToken (bytes_of_tok b) :: build_ops tl
  | "O" :: n :: b :: tl -> OpOpt (zi n, bytes_of_tok b) :: build_ops tl
  | "D" :: b :: tl -> OpData (bytes_of_tok b) :: build_ops tl
  | _ -> failwith "bad build op"

(* an item of the edit list: an edit proper, or a builder call made in between
   (A <num> <bytes> = coap_add_option, D <bytes> = coap_add_data) *)
type item = Ed of ed_op | Bo of bop

let rec edit_ops toks =
  match toks with
  | [] -> []
  | "I" :: n :: b :: tl -> Ed (EdInsert (zi n, bytes_of_tok b)) :: edit_ops tl
  | "U" :: n :: b :: tl -> Ed (EdUpdate (zi n, bytes_of_tok b)) :: edit_ops tl
  | "R" :: n :: tl -> Ed (EdRemove (zi n)) :: edit_ops tl
  | "K" :: b :: tl -> Ed (EdToken (bytes_of_tok b)) :: edit_ops tl
  | "A" :: n :: b :: tl -> Bo (OpOpt (zi n, bytes_of_tok b)) :: edit_ops tl
  | "D" :: b :: tl -> Bo (OpData (bytes_of_tok b)) :: edit_ops tl
  | _ -> failwith "bad edit op"

let cur_proto = ref UDP
let show_hdr = ref false     (* allocation regime 2 on UDP: the header in memory is shown *)
let cur_hdr : z list ref = ref []   (* that header, as the model's coap_update_token leaves it *)

(* type and message id are not carried by the reliable framings *)
let from_code (d : string) : string =
  if !cur_proto = UDP then d
  else
    let rec find i = if i + 3 > String.length d then 0
      else if String.sub d i 3 = " k=" then i else find (i + 1) in
    let i = find 0 in String.sub d i (String.length d - i)

(* accessor dump, buffer, and whether header + buffer parse back to the same message *)
let dump_b (p : ed_bpdu) : string =
  match ed_abs p with
  | None -> "[STUCK] b=" ^ hex_of_bytes p.eb_buf ^ " h=-"
  | Some m ->
      let mine = dump_msg m in
      let rp =
        match parse !cur_proto (header !cur_proto m @ p.eb_buf) with
        | None -> "rp=[REJECT]"
        | Some m' ->
            let theirs = dump_msg m' in
            if m'.m_code = m.m_code && from_code mine = from_code theirs then "rp=="
            else Printf.sprintf "rp=[%s]" theirs in
      let h = if !show_hdr then hex_of_bytes !cur_hdr else "-" in
      Printf.sprintf "[%s] b=%s h=%s %s" mine (hex_of_bytes p.eb_buf) h rp

let same_as_spec (p : ed_bpdu) (q : pdu) : bool =
  match ed_abs p with
  | None -> false
  | Some m -> m = q.p_msg && p.eb_max = q.p_max

let filter_of s =
  if s = "N" then None
  else if s = "-" then Some []
  else Some (List.map zi (String.split_on_char ',' s))

let c04_gen cast8 toks =
  match toks with
  | pr :: amode :: mx :: kind :: rest ->
      let pr = proto_of_string pr in
      cur_proto := pr;
      show_hdr := false;
      let mxi = int_of_string mx in
      let start_toks, rest2 = split_at [] "E" rest in
      let edit_toks, dup_toks = split_at [] "X" rest2 in
      let start =
        match kind, start_toks with
        | "B", ty :: code :: mid :: ops ->
            (* byte-level builder (coap_add_token / coap_add_option / coap_add_data transcribed);
               the abstract builder of C01 runs alongside *)
            let p0 = pdu_init (zi ty) (zi code) (zi mid) (zi mx) in
            let _, q = run_ops p0 (build_ops ops) in
            (match ed_b_build (ed_b_init (zi ty) (zi code) (zi mid) (zi mx)) (build_ops ops) with
             | None -> Error "STUCK"
             | Some (rets, p) ->
                 let rs = String.concat "" (List.map (fun b -> if b then "1" else "0") rets) in
                 Ok ((if rs = "" then "-" else rs), p, q))
        | "W", parts ->
            let bs = List.concat (List.map bytes_of_tok parts) in
            (match ed_b_start_wire pr bs (zi mx), ed_start_wire pr bs (zi mx) with
             | Some p, Some q ->
                 if mxi <> 0 && List.length p.eb_buf > mxi then Error "TOOSMALL" else Ok ("P", p, q)
             | None, None -> Error "REJECT"
             | _ -> Error "MODEL-INCONSISTENT")
        | _ -> failwith "c04 start" in
      (match start with
       | Error s -> "start=" ^ s
       | Ok (tag, p0, q0) ->
           let b = Buffer.create 1024 in
           Buffer.add_string b (Printf.sprintf "start=%s %s" tag (dump_b p0));
           if not (same_as_spec p0 q0) then Buffer.add_string b " SPECDIFF@start";
           show_hdr := (amode = "2" && pr = UDP);
           (* coap_pdu_encode_header before the first edit *)
           (match ed_abs p0 with Some m0 -> cur_hdr := header UDP m0 | None -> ());
           let p = ref p0 and q = ref q0 and stuck = ref false and i = ref 0 in
           List.iter (fun e ->
               incr i;
               if not !stuck then begin
                 let rb =
                   match e with
                   | Ed (EdToken t) when cast8 -> ed_b_token_cast8 !p t
                   | Ed (EdToken t) when !show_hdr ->
                       (match ed_b_token_hdr UDP !cur_hdr !p t with
                        | None -> None
                        | Some (r, h') -> cur_hdr := h'; Some r)
                   | Ed e -> ed_b_apply !p e
                   | Bo o -> ed_b_build_op !p o in
                 match rb with
                 | None -> stuck := true; Buffer.add_string b " | STUCK"
                 | Some (r, p1) ->
                     let rq, q1 = (match e with Ed e -> ed_apply !q e | Bo o -> apply_op !q o) in
                     p := p1; q := q1;
                     Buffer.add_string b (Printf.sprintf " | %d %s" (if r then 1 else 0) (dump_b p1));
                     if r <> rq || not (same_as_spec p1 q1) then
                       Buffer.add_string b (Printf.sprintf " SPECDIFF@%d" !i)
               end)
             (edit_ops edit_toks);
           (match dup_toks with
            | [mid'; smax; tok; flt] when not !stuck ->
                let t = bytes_of_tok tok and f = filter_of flt in
                (match ed_b_dup !p (zi mid') (zi smax) t f with
                 | None -> Buffer.add_string b " || dup=STUCK"
                 | Some None ->
                     Buffer.add_string b " || dup=NULL";
                     if ed_dup !q (zi mid') (zi smax) t f <> None then
                       Buffer.add_string b " SPECDIFF@dup"
                 | Some (Some d) ->
                     show_hdr := false;      (* the copy has no header yet *)
                     Buffer.add_string b (" || dup=" ^ dump_b d);
                     (match ed_dup !q (zi mid') (zi smax) t f with
                      | Some dq when same_as_spec d dq -> ()
                      | _ -> Buffer.add_string b " SPECDIFF@dup"))
            | [] -> ()
            | _ -> if not !stuck then failwith "c04 dup args");
           (match ed_abs !p with
            | None -> Buffer.add_string b " || wire=STUCK reparse=[]"
            | Some m ->
                let wire = header pr m @ !p.eb_buf in
                Buffer.add_string b (Printf.sprintf " || wire=%s reparse=[%s]" (hex_of_bytes wire)
                                       (dump_parse (parse pr wire))));
           Buffer.contents b)
  | _ -> failwith "c04 args"

(* c04o <max> t=<n> c=<n> m=<n> k=<hex|-> o=<n:hex,...|-> p=<hex|-> <one edit item>
   The extracted specification as an oracle on a printed accessor dump (all values printed in
   full): -> <0/1> [dump after].  Used on the implementation's own dumps. *)
let c04o toks =
  match toks with
  | mx :: t :: c :: m :: k :: o :: pl :: item ->
      let fld s = String.sub s 2 (String.length s - 2) in
      let opts =
        if fld o = "-" then []
        else List.map (fun it ->
            match String.split_on_char ':' it with
            | [n; v] -> (zi n, bytes_of_tok v)
            | _ -> failwith "c04o option") (String.split_on_char ',' (fld o)) in
      let msg = { m_type = zi (fld t); m_code = zi (fld c); m_mid = zi (fld m);
                  m_token = bytes_of_tok (fld k); m_opts = opts; m_payload = bytes_of_tok (fld pl) } in
      let q = { p_msg = msg; p_max = zi mx } in
      (match edit_ops item with
       | [Ed e] -> let r, q1 = ed_apply q e in
           Printf.sprintf "%d [%s]" (if r then 1 else 0) (dump_msg q1.p_msg)
       | [Bo b] -> let r, q1 = apply_op q b in
           Printf.sprintf "%d [%s]" (if r then 1 else 0) (dump_msg q1.p_msg)
       | _ -> failwith "c04o item")
  | _ -> failwith "c04o args"

(* resize <alloc_size> <max_size> <size> : coap_pdu_check_resize -> <0/1> <new alloc_size> *)
let resize toks =
  match toks with
  | [a; m; sz] ->
      (match ed_check_resize (zi a) (zi m) (zi sz) with
       | None -> "STUCK"
       | Some (r, a') -> Printf.sprintf "%d %d" (if r then 1 else 0) (int_of_z a'))
  | _ -> failwith "resize args"

let () = register "c04" (c04_gen false); register "c04x" (c04_gen true); register "resize" resize;
  register "c04o" c04o

(* C11 handlers: the Observe model (coq/Observe/Observe.v) and the trace acceptor
   (coq/Observe/Accept.v).

   c11m <nstart> <maxnon> <maxfail> <modes> <op>*
   c11a <nstart> <maxnon> <maxfail> <strict> <modes> { <op> { <out> }* }*
     modes: comma list, one per resource: <mode>[/<initial observe value>]
            (mode 0 default, 1 NOTIFY_CON, 2 NOTIFY_NON_ALWAYS)
     op:  R:<r>:<s>:<tok>:<opts>   register          C:<r>:<s>:<tok>:<opts>   cancel
          H:<r>                    change            I:<ca>                   I/O step
          A:<s>:<k>  ack           T:<s>:<k>  rst    F:<s>:<k>  give-up
          E:<r>:<0|1> handler error mode             L:<s>      session lost
          D:<r>:<ca>               delete resource (and create it again)
          opts: '-' or n=hex,n=hex (hex '_' = empty value)     ca: '-' or s=n,s=n
     out: N<k>:<r>:<s>:<tok>:<v>:<C|N>  E<k>:<r>:<s>:<tok>:<C|N>  G<r>:<s>:<tok>  Q<r>:<s>:<tok>:<v|->
   c11m prints  { [ <out>* }* | <state dump>     (same text tools/checks/c11.py derives from the
   implementation's trace);  c11a prints  ACCEPT  or  REJECT <index of the op> <reason number> *)
open Model
open Util

let split c s = String.split_on_char c s

let tok_of s = if s = "-" || s = "_" then [] else bytes_of_tok s

let opts_of s : (z * z list) list =
  if s = "-" then []
  else List.map (fun kv ->
      match split '=' kv with
      | [n; v] -> (zi n, tok_of v)
      | _ -> failwith "bad option") (split ',' s)

let ca_of s : (z * z) list =
  if s = "-" then []
  else List.map (fun kv ->
      match split '=' kv with
      | [a; b] -> (zi a, zi b)
      | _ -> failwith "bad ca") (split ',' s)

let op_of (s : string) : ob_op =
  match split ':' s with
  | ["R"; r; c; t; o] -> ObOpRegister (zi r, zi c, tok_of t, opts_of o)
  | ["C"; r; c; t; o] -> ObOpCancel (zi r, zi c, tok_of t, opts_of o)
  | ["H"; r] -> ObOpChange (zi r)
  | ["I"; ca] -> ObOpIoStep (ca_of ca)
  | ["A"; c; k] -> ObOpAck (zi c, zi k)
  | ["T"; c; k] -> ObOpRst (zi c, zi k)
  | ["F"; c; k] -> ObOpConFailed (zi c, zi k)
  | ["E"; r; b] -> ObOpSetErr (zi r, b <> "0")
  | ["L"; c] -> ObOpSessionLost (zi c)
  | ["D"; r; ca] -> ObOpDeleteResource (zi r, ca_of ca)
  | _ -> failwith ("bad op " ^ s)

let hex l = if l = [] then "-" else hex_of_bytes l
let cn b = if b then "C" else "N"
let i = int_of_z

let out_str (o : ob_out) : string =
  match o with
  | ObNotify (k, r, s, t, v, con) ->
      Printf.sprintf "N%d:%d:%d:%s:%d:%s" (i k) (i r) (i s) (hex t) (i v) (cn con)
  | ObErr (k, r, s, t, con) -> Printf.sprintf "E%d:%d:%d:%s:%s" (i k) (i r) (i s) (hex t) (cn con)
  | ObGone (r, s, t) -> Printf.sprintf "G%d:%d:%s" (i r) (i s) (hex t)
  | ObRegResp (r, s, t, v) ->
      Printf.sprintf "Q%d:%d:%s:%s" (i r) (i s) (hex t)
        (match v with Some v -> string_of_int (i v) | None -> "-")

let out_of (s : string) : ob_out =
  let body = String.sub s 1 (String.length s - 1) in
  let con x = x = "C" in
  match s.[0], split ':' body with
  | 'N', [k; r; c; t; v; x] -> ObNotify (zi k, zi r, zi c, tok_of t, zi v, con x)
  | 'E', [k; r; c; t; x] -> ObErr (zi k, zi r, zi c, tok_of t, con x)
  | 'G', [r; c; t] -> ObGone (zi r, zi c, tok_of t)
  | 'Q', [r; c; t; v] -> ObRegResp (zi r, zi c, tok_of t, (if v = "-" then None else Some (zi v)))
  | _ -> failwith ("bad out " ^ s)

let b01 b = if b then "1" else "0"

let dump_state (st : ob_state) : string =
  let res r =
    let subs =
      match r.obrs_subs with
      | [] -> "-"
      | l -> String.concat "," (List.map (fun x ->
               Printf.sprintf "%d.%s.%d.%d.%s" (i x.obsb_sess) (hex x.obsb_tok) (i x.obsb_non)
                 (i x.obsb_fail) (b01 x.obsb_dirty)) l) in
    Printf.sprintf "R%d=%d/%s/%s:%s" (i r.obrs_id) (i r.obrs_obs) (b01 r.obrs_dirty) (b01 r.obrs_pdirty) subs in
  let refs = String.concat "," (List.map (fun c -> string_of_int (i (ob_ca_get st.obst_ref (z_of_int c))))
                                  [0; 1; 2; 3]) in
  let fl = match st.obst_fl with
    | [] -> "-"
    | l -> String.concat "," (List.map (fun f -> Printf.sprintf "%d.%d" (i f.obfl_sess) (i f.obfl_k)) l) in
  Printf.sprintf "%s P%s ref=%s q=%s" (String.concat " " (List.map res st.obst_res))
    (b01 st.obst_pending) refs fl

let params a b c = { obpr_nstart = zi a; obpr_max_non = zi b; obpr_max_fail = zi c }

let () = register "c11m" (fun args ->
  match args with
  | ns :: mn :: mf :: modes :: ops ->
      let p = params ns mn mf in
      let st0 = ob_init (List.map (fun m -> match split '/' m with
                                           | [a; b] -> (zi a, zi b)
                                           | [a] -> (zi a, z_of_int 2)
                                           | _ -> failwith "bad mode") (split ',' modes)) in
      let (st, tr) = ob_run p st0 (List.map op_of ops) in
      let groups = List.map (fun (_, outs) ->
          String.concat " " ("[" :: List.map out_str outs)) tr in
      String.concat " " groups ^ " | " ^ dump_state st
  | _ -> failwith "c11m args")

(* c11a: feed a history (ops with the outputs observed at the implementation) to the acceptor *)
let is_out s = String.length s > 1 && (match s.[0] with 'N' | 'G' | 'Q' -> true
                                         | 'E' -> s.[1] >= '0' && s.[1] <= '9' | _ -> false)
               && not (String.length s > 1 && s.[1] = ':')

let () = register "c11a" (fun args ->
  match args with
  | ns :: mn :: _mf :: strict :: modes :: items ->
      let c = { accf_modes = List.map (fun m -> zi (List.hd (split '/' m))) (split ',' modes); accf_nstart = zi ns; accf_max_non = zi mn;
                accf_strict = (strict <> "0") } in
      let rec groups acc cur items =
        match items with
        | [] -> List.rev (match cur with None -> acc | Some (op, outs) -> (op, List.rev outs) :: acc)
        | x :: tl ->
            if is_out x then
              (match cur with
               | Some (op, outs) -> groups acc (Some (op, out_of x :: outs)) tl
               | None -> failwith "output before any op")
            else
              let acc = match cur with None -> acc | Some (op, outs) -> (op, List.rev outs) :: acc in
              groups acc (Some (op_of x, [])) tl in
      let tr = groups [] None items in
      (match ac_run c (ac_init c) Z0 tr with
       | Inl _ -> "ACCEPT"
       | Inr (i, code) -> Printf.sprintf "REJECT %d %d" (int_of_z i) (int_of_z code))
  | _ -> failwith "c11a args")

(* C08 handlers: NSTART accounting.
   case:  ns <fixed 0|1> <nsess> {<nstart>,<maxrt>,<est0 0|1>,<udp 0|1>[,<c|s>]}*nsess <op>*
          (c = client session sending requests - the default; s = server-side session of an
           endpoint sending responses)
   ops :  S<sid>,<c|n>,<mid>,<tok>   coap_send of a CON/NON
          A<sid>,<mid>  R<sid>,<mid>  ACK / RST arrives        T<sid>,<mid>  timer of that node fires
          P<sid>,<tok>[,<peer mid>]  separate NON response with the token (the peer's own message
                        id is irrelevant to the model)                   U<sid>  session connected
          F<sid>,<reason>  coap_session_disconnected
   result: one group per op "<i>:<items>", items joined by ',':
          A | X (coap_send returned mid | COAP_INVALID_MID), T<c|n><mid>.<tok> (datagram),
          N<reason>.<mid>.<1|0> (nack handler, pdu given or NULL)
   nsmon <nsess> <cfg>*nsess { <op> <items|-> }*  : the history checker on an observed trace *)
open Model
open Util

let split_commas s = String.split_on_char ',' s
let rest s = String.sub s 1 (String.length s - 1)

let parse_cfg fixed s =
  match split_commas s with
  | [n; r; e; u] ->
      ({ ns_nstart = zi n; ns_maxrt = zi r; ns_udp = (u = "1"); ns_fixed = fixed; ns_client = true },
       e = "1")
  | [n; r; e; u; k] ->      (* k: c = client session, s = server-side session *)
      ({ ns_nstart = zi n; ns_maxrt = zi r; ns_udp = (u = "1"); ns_fixed = fixed;
         ns_client = (k <> "s") }, e = "1")
  | _ -> failwith "ns cfg"

let is_err_op s = (s = "E")

let parse_op s : int * ns_ev =
  let a = split_commas (rest s) in
  match s.[0], a with
  | 'S', [sid; ty; mid; tok] ->
      (int_of_string sid, NsSubmit { ns_con = (ty <> "n"); ns_mid = zi mid; ns_tok = zi tok })
  | 'A', [sid; mid] -> (int_of_string sid, NsAck (zi mid))
  | 'R', [sid; mid] -> (int_of_string sid, NsRst (zi mid))
  | 'T', [sid; mid] -> (int_of_string sid, NsTick (zi mid))
  | 'P', [sid; tok] | 'P', [sid; tok; _] -> (int_of_string sid, NsSep (zi tok))
  | 'U', [sid] -> (int_of_string sid, NsUp)
  (* B: a malformed answer with the id <mid>.  An ACK whose code has an invalid class (kind 1) or is
     a request code (kind 2) ends the exchange like a Reset does (node off the queue, slot released,
     flush; the application hears NACK BAD_RESPONSE instead of NACK RST; nothing for an unknown id).
     A NON with an invalid class (kind 4) carries an id of the PEER's id space: nothing happens. *)
  | 'B', [sid; mid; ("1" | "2")] -> (int_of_string sid, NsRst (zi mid))
  | 'B', [sid; _; _] -> (int_of_string sid, NsSep (zi "-1"))
  (* M: a multicast request arrives, its response waits in the send queue: nothing observable,
     nothing of the accounting changes (= cancel by a token nobody uses).
     Y: that delayed response is sent and coap_session_connected() is called: for the
     accounting this is the flush of an established session (the response itself, item Wm, is
     not a message of the session's application) *)
  | 'M', [sid] -> (int_of_string sid, NsSep (zi "-1"))
  | 'Y', [sid] -> (int_of_string sid, NsUp)
  | 'F', [sid; r] -> (int_of_string sid, NsFail (zi r))
  | _ -> failwith ("ns op " ^ s)

let show_msg m =
  Printf.sprintf "T%s%d.%d" (if m.ns_con then "c" else "n") (int_of_z m.ns_mid) (int_of_z m.ns_tok)

let show_out o =
  match o with
  | NsTx m | NsRe m -> Some (show_msg m)
  | NsErrW m -> Some ("E" ^ String.sub (show_msg m) 1 (String.length (show_msg m) - 1))
  | NsAcc -> Some "A"
  | NsRef -> Some "X"
  | NsNack (r, mid, hp) ->
      Some (Printf.sprintf "N%d.%d.%d" (int_of_z r) (int_of_z mid) (if hp then 1 else 0))
  | NsDrop _ -> None

let rec take_n n l = if n = 0 then ([], l) else
  match l with [] -> failwith "ns: too few tokens" | x :: r -> let (a, b) = take_n (n - 1) r in (x :: a, b)

(* ops that are not events of the session machine by themselves:
   K<secs>  keepalive period of a natural-time case (driver only)
   H<sid>,<mid>,<newmid>,<newtok>  the application's nack handler, when called for <mid> after a
            give-up or a Reset, submits CON <newmid> from inside the callback.  In the code the
            handler is called at the very end of the event, so this is the event followed at once
            by NsSubmit (its outputs are printed in the same group, a / x for NsAcc / NsRef)
   G<sid>   the keepalive period is over: the library submits its own empty CON (ping), id
            50001 + 1000*sid onwards, iff the session is open, established and con_active = 0 *)
let is_plain_op op = op <> "" && (op.[0] = 'K' || op.[0] = 'H')

let parse_hook op =
  match split_commas (rest op) with
  | [sid; mid; nm; nt] -> (int_of_string sid, int_of_string mid, int_of_string nm, int_of_string nt)
  | _ -> failwith ("ns hook " ^ op)

let hook_for hooks sid outs =
  (* the message resubmitted by the nack handler for this event's NACK, if any *)
  List.fold_left (fun acc o ->
    match acc, o with
    | None, NsNack (r, mid, true) when (int_of_z r = 0 || int_of_z r = 2) ->
        (match List.find_opt (fun (s, m, _, _, used) -> s = sid && m = int_of_z mid && not !used) !hooks with
         | Some (_, _, nm, nt, used) -> used := true;
             Some { ns_con = true; ns_mid = z_of_int nm; ns_tok = z_of_int nt }
         | None -> None)
    | _ -> acc) None outs

let ping_can_go (s : ns_st) = s.ns_open && s.ns_est && int_of_z s.ns_act = 0

let ns toks =
  match toks with
  | fx :: nsess :: tl ->
      let n = int_of_string nsess in
      let (cfgs, ops) = take_n n tl in
      let cfgs = Array.of_list (List.map (parse_cfg (fx = "1")) cfgs) in
      let st = Array.init n (fun k -> ns_init (snd cfgs.(k))) in
      let wfail = ref false in        (* the next socket write of the context fails *)
      let hooks = ref [] in
      let pings = Array.make n 0 in
      let observed = Array.make n false in
      let b = Buffer.create 256 in
      let step sid ev =
        let (x', outs) = nsf_step (fst cfgs.(sid)) { nsf_s = st.(sid); nsf_wfail = !wfail } (NsfEv ev) in
        st.(sid) <- x'.nsf_s;
        wfail := x'.nsf_wfail;
        outs in
      List.iteri (fun i op ->
        let items =
          if is_err_op op then (wfail := true; [])
          else if op.[0] = 'K' then []
          else if op.[0] = 'H' then begin
            let (sid, mid, nm, nt) = parse_hook op in
            hooks := !hooks @ [(sid, mid, nm, nt, ref false)]; []
          end
          else if op.[0] = 'O' || op.[0] = 'N' then begin
            (* the peer observes /r on a server-side session (O: registration, answered at once;
               N: the resource changes -> NON notification): these NONs are not messages of the
               session machine and are never delayed by NSTART - one datagram (item Wo) each, as
               long as the session is alive and established *)
            let sid = int_of_string (rest op) in
            let alive = not (fst cfgs.(sid)).ns_client && st.(sid).ns_open && st.(sid).ns_est in
            if op.[0] = 'O' then (observed.(sid) <- alive; if alive then ["Wo"] else [])
            else if not alive then []
            else
              (* the resource belongs to the context: every observing session gets its notification *)
              List.concat (List.init n (fun k ->
                let ok = not (fst cfgs.(k)).ns_client && st.(k).ns_open && st.(k).ns_est && observed.(k) in
                if not ok then [] else if k = sid then ["Wo"] else [Printf.sprintf "Wo@%d" k]))
          end
          else if op.[0] = 'G' then begin
            let sid = int_of_string (rest op) in
            if (fst cfgs.(sid)).ns_client && ping_can_go st.(sid) then begin
              pings.(sid) <- pings.(sid) + 1;
              let m = { ns_con = true; ns_mid = z_of_int (50000 + 1000 * sid + pings.(sid)); ns_tok = Z0 } in
              List.filter_map (fun o -> match o with NsAcc | NsRef -> None | _ -> show_out o)
                (step sid (NsSubmit m))
            end else []
          end
          else begin
            let (sid, ev) = parse_op op in
            let outs = step sid ev in
            (match ev with NsFail r when int_of_z r <> 4 -> observed.(sid) <- false | _ -> ());
            let is_b = op.[0] = 'B' in
            let outs = if not is_b then outs else
              List.filter_map (fun o -> match o with
                | NsNack (_, mid, true) -> Some (NsNack (z_of_int 5, mid, true))
                | NsNack (_, _, false) -> None
                | _ -> Some o) outs in
            let nested =
              match (match ev with NsFail _ -> None | _ -> hook_for hooks sid outs) with
              | None -> []
              | Some m ->
                  let o2 = step sid (NsSubmit m) in
                  ["("] @ List.filter_map (fun o -> match o with NsAcc | NsRef -> None | _ -> show_out o) o2
                  @ [if List.mem NsRef o2 then "x" else "a"] in
            List.filter_map show_out outs @ nested
          end in
        if i > 0 then Buffer.add_char b ' ';
        Buffer.add_string b (Printf.sprintf "%d:%s" i (String.concat "," items))) ops;
      Buffer.contents b
  | _ -> failwith "ns args"

(* observed items -> ns_out; the first datagram with a message id is the first transmission *)
let parse_items seen s : ns_out list =
  if s = "-" || s = "" then [] else
  List.filter_map (fun it ->
    if it = "Wm" || it = "Wo" || it = "a" || it = "x" || it = "(" then None
    else if it = "A" then Some NsAcc
    else if it = "X" then Some NsRef
    else if it.[0] = 'T' then begin
      let con = it.[1] = 'c' in
      match String.split_on_char '.' (String.sub it 2 (String.length it - 2)) with
      | [mid; tok] ->
          let m = { ns_con = con; ns_mid = zi mid; ns_tok = zi tok } in
          let key = int_of_string mid in
          if Hashtbl.mem seen key then Some (NsRe m) else (Hashtbl.replace seen key (); Some (NsTx m))
      | _ -> failwith "ns item T"
    end
    else if it.[0] = 'N' then begin
      match String.split_on_char '.' (rest it) with
      | [r; mid; hp] -> Some (NsNack (zi r, zi mid, hp = "1"))
      | _ -> failwith "ns item N"
    end
    else if it.[0] = 'E' then begin
      let con = it.[1] = 'c' in
      match String.split_on_char '.' (String.sub it 2 (String.length it - 2)) with
      | [mid; tok] -> Some (NsErrW { ns_con = con; ns_mid = zi mid; ns_tok = zi tok })
      | _ -> failwith "ns item E"
    end
    else failwith ("ns item " ^ it)) (split_commas s)

(* the implementation's trace per session as (event, outputs) lists.
   - G with a datagram = the library's own submission (NsSubmit with NsAcc); G without = nothing
   - a group with a nested submission (marker a / x, hook H known): the event itself, followed by
     NsSubmit of the hooked message with the marker as its result and its own datagram, if any *)
let build_traces n (toks : string list) wrap =
  let traces = Array.make n [] in
  let seen = Array.init n (fun _ -> Hashtbl.create 16) in
  let idx = Array.make n [] in
  let hooks = ref [] in
  let push sid i ev outs =
    traces.(sid) <- (wrap ev, outs) :: traces.(sid);
    idx.(sid) <- i :: idx.(sid) in
  let rec go i l =
    match l with
    | [] -> ()
    | op :: items :: r ->
        if is_err_op op || op.[0] = 'K' || op.[0] = 'O' || op.[0] = 'N' then ()
        else if op.[0] = 'H' then begin
          let (sid, mid, nm, nt) = parse_hook op in
          hooks := !hooks @ [(sid, mid, nm, nt, ref false)]
        end
        else if op.[0] = 'G' then begin
          let sid = int_of_string (rest op) in
          match parse_items seen.(sid) items with
          | [] -> ()
          | (NsTx m :: _) as outs -> push sid i (NsSubmit m) (NsAcc :: outs)
          | outs -> push sid i NsUp outs          (* anything else is unexpected: let it be judged *)
        end
        else begin
          let (sid, ev) = parse_op op in
          let its = if items = "-" || items = "" then [] else split_commas items in
          (* scan the items in order; "(" closes the event so far, what follows up to the marker
             a / x is the nested submission of the message hooked to the NACK seen last; what comes
             after that belongs to a continuation of the same library call (judged as a timer event) *)
          let cur = ref [] and cur_ev = ref ev and pending = ref its in
          let flush () = push sid i !cur_ev (List.rev !cur); cur := []; cur_ev := NsTick Z0 in
          while !pending <> [] do
            (match !pending with
             | "(" :: tl ->
                 let hooked = (match ev with NsFail _ -> None | _ -> hook_for hooks sid (List.rev !cur)) in
                 let rec upto acc l = match l with
                   | ("a" | "x" as mk) :: r -> (List.rev acc, mk, r)
                   | y :: r -> upto (y :: acc) r
                   | [] -> (List.rev acc, "a", []) in
                 let (inner, mk, tl') = upto [] tl in
                 flush ();
                 let outs = List.concat_map (fun y -> parse_items seen.(sid) y) inner in
                 (match hooked with
                  | Some m -> push sid i (NsSubmit m) ((if mk = "a" then NsAcc else NsRef) :: outs)
                  | None -> push sid i NsUp outs);       (* unexpected: let it be judged *)
                 pending := tl'
             | it :: tl -> cur := List.rev_append (parse_items seen.(sid) it) !cur; pending := tl
             | [] -> ())
          done;
          if !cur <> [] || !cur_ev == ev then push sid i !cur_ev (List.rev !cur)
        end;
        go (i + 1) r
    | _ -> failwith "nsmon: odd tokens" in
  go 0 toks;
  (Array.map List.rev traces, Array.map List.rev idx)

let nsmon toks =
  match toks with
  | nsess :: tl ->
      let n = int_of_string nsess in
      let (cfgs, rest_) = take_n n tl in
      let cfgs = Array.of_list (List.map (parse_cfg true) cfgs) in
      let (traces, idx) = build_traces n rest_ (fun e -> e) in
      let bad = ref [] in
      for k = n - 1 downto 0 do
        let (c, est0) = cfgs.(k) in
        match ns_mon_first_bad c { ns_mopen = true; ns_mest = est0; ns_minfl = []; ns_mpend = [] }
                traces.(k) Z0 with
        | None -> ()
        | Some j -> bad := Printf.sprintf "bad sid=%d op=%d" k (List.nth idx.(k) (int_of_z j)) :: !bad
      done;
      if !bad = [] then "ok" else String.concat " " !bad
  | _ -> failwith "nsmon args"

(* nsbound <nsess> <cfg>*nsess { <op> <items|-> }* : bound-only checker for histories with
   failing socket writes (op E = the next write fails) *)
let nsbound toks =
  match toks with
  | nsess :: tl ->
      let n = int_of_string nsess in
      let (cfgs, rest_) = take_n n tl in
      let cfgs = Array.of_list (List.map (parse_cfg true) cfgs) in
      let (traces, idx) = build_traces n rest_ (fun e -> e) in
      let bad = ref [] in
      for k = n - 1 downto 0 do
        let t = List.map (fun (e, o) -> (NsfEv e, o)) traces.(k) in
        match nsb_run (fst cfgs.(k)) { nsb_open = true; nsb_est = snd cfgs.(k); nsb_infl = [] } t Z0 with
        | None -> ()
        | Some j -> bad := Printf.sprintf "bad sid=%d op=%d" k (List.nth idx.(k) (int_of_z j)) :: !bad
      done;
      if !bad = [] then "ok" else String.concat " " !bad
  | _ -> failwith "nsbound args"

let () = register "ns" ns; register "nsmon" nsmon; register "nsbound" nsbound

(* C17 handlers: the extracted persistence model run on the case lines of harness/h_persist.c.
   Only glue lives here: parsing of the case line, classification of an injected datagram into
   the abstract server event (through the extracted wire parser), printing in the driver's
   format.  The semantics (stdio model, updaters, loaders, call-outs, startup) is the extracted
   Coq code. *)
open Model
open Util

let hex_full (l : z list) : string =
  match l with
  | [] -> "-"
  | _ ->
      let b = Buffer.create 64 in
      List.iter (fun x -> Buffer.add_string b (Printf.sprintf "%02x" (int_of_z x land 0xff))) l;
      Buffer.contents b

let bytes_of_string (s : string) : z list =
  List.init (String.length s) (fun i -> zbyte.(Char.code s.[i]))

let rec ps_nat_of_int n acc = if n <= 0 then acc else ps_nat_of_int (n - 1) (S acc)

(* ---- printing of operations (format of harness/common/ps_stdio.h) ---- *)
let code_of_name = function
  | PsBase i -> (match int_of_z i with 0 -> 'd' | 1 -> 'o' | _ -> 'c')
  | PsTmp i -> (match int_of_z i with 0 -> 'D' | 1 -> 'O' | _ -> 'C')

let mode_str = function PsR -> "r" | PsWp -> "w+" | PsA -> "a"

let show_op (op, r) : string =
  let ri = match r with PrInt n -> int_of_z n | _ -> -99 in
  match op with
  | PoOpen (n, m) ->
      Printf.sprintf "o%c%s=%s" (code_of_name n) (mode_str m)
        (match r with PrH h -> string_of_int (int_of_z h) | _ -> "N")
  | PoRead (h, sz) ->
      (match r with
       | PrData (true, d) -> Printf.sprintf "r%d,%d=1:%s" (int_of_z h) (int_of_z sz) (hex_full d)
       | _ -> Printf.sprintf "r%d,%d=0" (int_of_z h) (int_of_z sz))
  | PoGets (h, cap) ->
      (match r with
       | PrData (true, d) -> Printf.sprintf "g%d,%d=%s" (int_of_z h) (int_of_z cap) (hex_full d)
       | _ -> Printf.sprintf "g%d,%d=N" (int_of_z h) (int_of_z cap))
  | PoWrite (h, d) -> Printf.sprintf "w%d:%s=%d" (int_of_z h) (hex_full d) ri
  | PoPrintf (h, d) -> Printf.sprintf "p%d:%s=%d" (int_of_z h) (hex_full d) ri
  | PoFlush h -> Printf.sprintf "f%d=%d" (int_of_z h) ri
  | PoClose h -> Printf.sprintf "c%d=%d" (int_of_z h) ri
  | PoRename (a, b) -> Printf.sprintf "m%c%c=%d" (code_of_name a) (code_of_name b) ri
  | PoRemove n -> Printf.sprintf "u%c=%d" (code_of_name n) ri

let all_names = [PsBase (z_of_int 0); PsBase (z_of_int 1); PsBase (z_of_int 2);
                 PsTmp (z_of_int 0); PsTmp (z_of_int 1); PsTmp (z_of_int 2)]

let files_text (fs : ps_files) (n : int) : string =
  String.concat "," (List.mapi (fun _ nm ->
      Printf.sprintf "%c=%s" (code_of_name nm)
        (match ps_get nm fs with Some b -> hex_full b | None -> "~"))
    (List.filteri (fun i _ -> i < n) all_names))

(* ---- datagram -> what the request handlers see ---- *)
let unescaped c =
  (c >= 65 && c <= 90) || (c >= 97 && c <= 122) || (c >= 48 && c <= 57) ||
  List.mem c [45; 46; 95; 126; 33; 36; 39; 40; 41; 42; 43; 44; 59; 61; 58; 64; 38]

let hexd = "0123456789ABCDEF"

(* coap_get_uri_path *)
let uri_path (m : msg) : z list =
  let segs = List.filter (fun (n, _) -> int_of_z n = 11) m.m_opts in
  let esc (seg : z list) =
    List.concat_map (fun b ->
        let c = int_of_z b in
        if unescaped c then [b]
        else [zbyte.(37); zbyte.(Char.code hexd.[c lsr 4]); zbyte.(Char.code hexd.[c land 15])]) seg in
  let rec join = function
    | [] -> []
    | [s] -> esc s
    | s :: tl -> esc s @ (zbyte.(47) :: join tl) in
  join (List.map snd segs)

let observe_opt (m : msg) : int option =
  match List.filter (fun (n, _) -> int_of_z n = 6) m.m_opts with
  | (_, v) :: _ -> Some (List.fold_left (fun a b -> a * 256 + int_of_z b) 0 v)
  | [] -> None

(* preimage of the cache key: every option that is part of it, and the FETCH payload *)
let cache_key (m : msg) : z list =
  let keep (n, _) =
    let n = int_of_z n in
    not (n land 0x1e = 0x1c) && n <> 6 && n <> 4 && n <> 9 in
  let enc (n, v) =
    let n = int_of_z n and l = List.length v in
    [zbyte.(n lsr 8); zbyte.(n land 255); zbyte.(l lsr 8); zbyte.(l land 255)] @ v in
  List.concat_map enc (List.filter keep m.m_opts) @
  (if int_of_z m.m_code = 5 then zbyte.(255) :: m.m_payload else [])

let app_fn (pkt : z list) : (z list * bool) option =
  match parse UDP pkt with
  | Some m when int_of_z m.m_code = 3 ->
      let name = uri_path m in
      Some (name, not (match name with b :: _ -> int_of_z b = 120 | [] -> false))
  | _ -> None

let req_fn (pkt : z list) : ((z list * z list) * z list) option =
  match parse UDP pkt with
  | Some m when (int_of_z m.m_code = 1 || int_of_z m.m_code = 5) && observe_opt m = Some 0 ->
      Some ((uri_path m, m.m_token), cache_key m)
  | _ -> None

(* ---- case ---- *)
type seg_event = Ev of ps_event | Crash of int | WriteFile of ps_name * z list

let classify (has_unknown : bool) (tuple : z list) (pkt : z list) : ps_event option =
  match parse UDP pkt with
  | None -> None
  | Some m ->
      let name = uri_path m in
      (match int_of_z m.m_code with
       | 3 -> if has_unknown then
                (match app_fn pkt with Some (n, o) -> Some (PsEvPut (n, o, pkt)) | None -> None)
              else None
       | 4 -> Some (PsEvDel name)
       | 1 | 5 ->
           (match observe_opt m with
            | Some 0 -> Some (PsEvReg (name, tuple, m.m_token, cache_key m, pkt))
            | Some 1 -> Some (PsEvCancel (name, tuple, m.m_token, cache_key m))
            | _ -> None)
       | _ -> None)

let proc_prefix (pol : z -> z -> z) (p : 'a ps_prog) (s : ps_sys) =
  (* all (op, result) pairs, the final system, and the system before every op + at the end *)
  let rec go p s ops states =
    match p with
    | PsRet a -> (Some a, s, List.rev ops, List.rev (s :: states))
    | PsDo (op, k) ->
        let (r, s') = ps_step pol op s in
        go (k r) s' ((op, r) :: ops) (s :: states) in
  go p s [] []

let c17 toks =
  match toks with
  | mode :: buf :: freq :: cfg :: _port :: la :: lt :: listen :: proto :: ntup :: rest ->
      let ntup = int_of_string ntup in
      let tuples = Array.of_list (List.filteri (fun i _ -> i < ntup) rest) in
      let tuples = Array.map bytes_of_tok tuples in
      let evtoks = List.filteri (fun i _ -> i >= ntup) rest in
      let pol = if buf = "E" then ps_pol_eager else ps_pol_lazy in
      let nfiles = if buf = "D" then 3 else 6 in
      let has c i = String.length cfg > i && cfg.[i] = c in
      let c = { psc_dyn = has 'd' 0; psc_obs = has 'o' 1; psc_cnt = has 'c' 2;
                psc_freq = (let f = int_of_string freq in zi (string_of_int (if f = 0 then 1 else f)));
                psc_la = zi la; psc_lt = zi lt; psc_listen = bytes_of_tok listen;
                psc_proto = bytes_of_tok proto; psc_unknown = not (has 'u' 3);
                psc_fuel = ps_nat_of_int 200000 O } in
      let alloc = ps_alloc_lowest (z_of_int 0x7e0000000000) (z_of_int 512) in
      let client_of tuple =
        let r = ref (-1) in
        Array.iteri (fun i t -> if !r < 0 && t = tuple then r := i) tuples; !r in
      let m0 = [ { psr_name = bytes_of_string "s0"; psr_observable = true; psr_observe = pS_OBSERVE0; psr_subs = [] };
                 { psr_name = bytes_of_string "s1"; psr_observable = true; psr_observe = pS_OBSERVE0; psr_subs = [] } ] in
      let fuel = c.psc_fuel in
      let fidx ch = match ch with 'd' -> 0 | 'o' -> 1 | _ -> 2 in
      (* the memory image of a coap_proto_t value (little endian, as wide as the one of the run) *)
      let proto_bytes (tok : string) : z list =
        let n = int_of_string tok in
        List.mapi (fun i _ -> z_of_int ((n lsr (8 * i)) land 255)) c.psc_proto in
      let rec parse_ev toks =
        match toks with
        | [] -> []
        | "I" :: cl :: pkt :: tl ->
            let t = tuples.(int_of_string cl land 7) in
            (match classify c.psc_unknown t (bytes_of_tok pkt) with
             | Some e -> Ev e :: parse_ev tl
             | None -> parse_ev tl)
        | "N" :: nm :: tl -> Ev (PsEvNotify (bytes_of_tok nm)) :: parse_ev tl
        | "X" :: k :: tl -> Crash (int_of_string k) :: parse_ev tl
        | "W" :: f :: b :: tl -> WriteFile (PsBase (z_of_int (fidx f.[0])), bytes_of_tok b) :: parse_ev tl
        | "UO" :: pr :: tl -> parse_ev_proto (proto_bytes pr) ("UA" :: tl)
        | "UP" :: pr :: tl -> parse_ev_proto (proto_bytes pr) ("UR" :: tl)
        | l -> parse_ev_proto c.psc_proto l
      and parse_ev_proto (pr : z list) = function
        | "UA" :: key :: tup :: pkt :: osc :: tl ->
            let o = { pso_key = bytes_of_tok key; pso_proto = pr; pso_listen = c.psc_listen;
                      pso_tuple = bytes_of_tok tup; pso_pkt = bytes_of_tok pkt;
                      pso_osc = (if osc = "~" then None else Some (bytes_of_tok osc)) } in
            Ev (PsEvRaw (ps_obs_added c.psc_la c.psc_lt fuel o)) :: parse_ev tl
        | "UD" :: key :: tl ->
            Ev (PsEvRaw (ps_obs_deleted c.psc_la c.psc_lt fuel (bytes_of_tok key))) :: parse_ev tl
        | "UT" :: nm :: v :: tl -> Ev (PsEvRaw (ps_cnt_track fuel (bytes_of_tok nm) (zi v))) :: parse_ev tl
        | "UC" :: nm :: tl -> Ev (PsEvRaw (ps_cnt_deleted fuel (bytes_of_tok nm))) :: parse_ev tl
        | "UR" :: nm :: pkt :: tl ->
            Ev (PsEvRaw (ps_dyn_added fuel { psd_proto = pr; psd_name = bytes_of_tok nm;
                                           psd_pkt = bytes_of_tok pkt })) :: parse_ev tl
        | "UX" :: nm :: tl ->
            Ev (PsEvRaw (ps_res_deleted fuel c.psc_dyn c.psc_cnt (bytes_of_tok nm))) :: parse_ev tl
        | _ -> failwith "bad event" in
      let events = parse_ev evtoks in
      let show_sends (l : (((z list * z list) * z list) * z) list) (stamp : int) (ev : int) =
        List.map (fun (((_, tu), tok), v) ->
            (stamp, Printf.sprintf "%d/%s/%d@%d#%d" (client_of tu) (hex_full tok) (int_of_z v) stamp ev)) l in
      (* one process: startup, then events one at a time (to stamp the sends) *)
      let res_line (r : ps_rsrc) =
        Printf.sprintf "%s:%d:%d:%s" (hex_full r.psr_name) (if r.psr_observable then 1 else 0)
          (int_of_z r.psr_observe)
          (if r.psr_subs = [] then "-" else
             String.concat "+" (List.map (fun (su : ps_sub) ->
                 Printf.sprintf "%d/%s/%x" (client_of su.pss_tuple) (hex_full su.pss_token)
                   (List.fold_right (fun b a -> a * 256 + int_of_z b) su.pss_key 0)) r.psr_subs)) in
      let dump_mem (m : ps_mem) =
        let lines = List.sort compare (List.map res_line m) in
        if lines = [] then "-" else String.concat "|" lines in
      (* -> (system, ops, sends, event bounds, dump after startup) *)
      let run_process (fs : ps_files) (evs : ps_event list) =
        let s0 = ps_boot fs in
        let (r, s1, ops0, _) = proc_prefix pol (ps_startup app_fn req_fn alloc c m0) s0 in
        match r with
        | Some (Some m) ->
            let rec go evs m s ops sends bounds ei =
              match evs with
              | [] -> (s, ops, sends, List.rev bounds)
              | e :: tl ->
                  let (r, s', o, _) = proc_prefix pol (ps_ev alloc c e m) s in
                  let ops = ops @ o in
                  (match r with
                   | Some (Some (m', sn)) ->
                       go tl m' s' ops (sends @ show_sends sn (List.length ops) ei)
                         (List.length ops :: bounds) (ei + 1)
                   | _ -> (s', ops, sends, List.rev bounds)) in
            let (s, ops, sends, bounds) = go evs m s1 ops0 [] [List.length ops0] 0 in
            (s, ops, sends, bounds, dump_mem m)
        | _ -> (s1, ops0, [], [], "MODEL-FUEL") in
      let seg_text n ops sends bounds dump =
        Printf.sprintf "%d|%s|%s|%s|%s" n
          (if ops = [] then "-" else String.concat " " (List.map show_op ops))
          (if sends = [] then "-" else String.concat "," (List.map snd sends))
          (if bounds = [] then "-" else String.concat "," (List.map string_of_int bounds))
          dump in
      let take n l = List.filteri (fun i _ -> i < n) l in
      (* restart dump from a set of files *)
      let restart_dump (fs : ps_files) : string =
        let s0 = ps_boot fs in
        let (r, s1, ops0, _) = proc_prefix pol (ps_startup app_fn req_fn alloc c m0) s0 in
        match r with
        | Some (Some m) ->
            let lines = List.sort compare (List.map res_line m) in
            let names = List.sort compare
                (List.map (fun (r : ps_rsrc) -> hex_full r.psr_name)
                   (List.filter (fun (r : ps_rsrc) -> r.psr_subs <> []) m)) in
            let files = files_text s1.ps_fs 3 in
            let rec notify names m s nops sends i =
              match names with
              | [] -> sends
              | nm :: tl ->
                  let (r, s', o, _) = proc_prefix pol (ps_ev_notify c (bytes_of_tok nm) m) s in
                  let nops = nops + List.length o in
                  (match r with
                   | Some (Some (m', sn)) -> notify tl m' s' nops (sends @ show_sends sn nops i) (i + 1)
                   | _ -> sends) in
            let sends = notify names m s1 (List.length ops0) [] 0 in
            Printf.sprintf "%d;%s;%s;%s;%s" (List.length ops0)
              (if ops0 = [] then "-" else String.concat " " (List.map show_op ops0))
              (if lines = [] then "-" else String.concat "|" lines) files
              (if sends = [] then "-" else String.concat "," (List.map snd sends))
        | _ -> "MODEL-FUEL" in
      (* split into processes *)
      let out = Buffer.create 4096 in
      let rec segs (fs : ps_files) (cur : ps_event list) (evs : seg_event list) (i : int) =
        match evs with
        | WriteFile (n, b) :: tl -> segs ((n, b) :: List.filter (fun (m, _) -> m <> n) fs) [] tl i
        | Ev e :: tl -> segs fs (cur @ [e]) tl i
        | Crash k :: tl ->
            let (s, ops, sends, bounds, dump) = run_process fs cur in
            let n = List.length ops in
            if i > 0 then Buffer.add_char out ' ';
            if k < 0 || k >= n then begin
              Buffer.add_string out (Printf.sprintf "seg%d=%s" i (seg_text n ops sends bounds dump));
              segs (ps_crash s).ps_fs [] tl (i + 1)
            end else begin
              (* dies after k calls *)
              let p = ps_process app_fn req_fn alloc c m0 cur in
              let sk = ps_runk pol p (ps_nat_of_int k O) (ps_boot fs) in
              Buffer.add_string out
                (Printf.sprintf "seg%d=%s" i
                   (seg_text k (take k ops) (List.filter (fun (st, _) -> st <= k) sends)
                      (List.filter (fun b -> b <= k) bounds)
                      (match bounds with b0 :: _ when b0 <= k -> dump | _ -> "-")));
              segs (ps_crash sk).ps_fs [] tl (i + 1)
            end
        | [] ->
            let (_, ops, sends, bounds, dump) = run_process fs cur in
            let n = List.length ops in
            if i > 0 then Buffer.add_char out ' ';
            Buffer.add_string out (Printf.sprintf "seg%d=%s" i (seg_text n ops sends bounds dump));
            if mode = "E" then begin
              let p = ps_process app_fn req_fn alloc c m0 cur in
              let (_, _, _, states) = proc_prefix pol p (ps_boot fs) in
              let texts = ref [] and crash = ref [] and extra = Buffer.create 1024 in
              List.iteri (fun k (sk : ps_sys) ->
                  (* cross-check the incremental walk against ps_runk on a sample of k *)
                  let sk = if k mod 7 = 3 then ps_runk pol p (ps_nat_of_int k O) (ps_boot fs) else sk in
                  let t = files_text sk.ps_fs nfiles in
                  let sid =
                    match List.assoc_opt t !texts with
                    | Some id -> id
                    | None ->
                        let id = List.length !texts in
                        texts := (t, id) :: !texts;
                        Buffer.add_string extra
                          (Printf.sprintf " st%d=%s rs%d=%s" id t id (restart_dump (ps_crash sk).ps_fs));
                        id in
                  crash := string_of_int sid :: !crash) states;
              Buffer.add_string out
                (Printf.sprintf " crash=%s%s" (String.concat "," (List.rev !crash)) (Buffer.contents extra))
            end in
      segs [] [] events 0;
      Buffer.contents out
  | _ -> failwith "c17 args"

let () = register "c17" c17

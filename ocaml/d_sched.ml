(* C06 handlers: retransmission machine, timeout computation, send-queue primitives.
   Formats: see harness/h_sched.c. *)
open Model
open Util

let zs (x : z) : string = string_of_int (int_of_z x)

(* datagram bytes: hex up to 48 bytes, else the 4 header bytes in hex + "#len:fnv1a32" *)
let dgram_bytes (b : z list) : string =
  if List.length b > 48 then
    (match b with
     | a :: b1 :: c :: d :: _ -> hex_of_bytes [a; b1; c; d] ^ hex_of_bytes b
     | _ -> hex_of_bytes b)
  else hex_of_bytes b

let show_out (o : rt_out) : string option =
  match o with
  | RoTx (t, _, s, b, _, _) -> Some (Printf.sprintf "tx:%s:%s:%s" (zs t) (zs s) (dgram_bytes b))
  | RoSent m -> Some ("s:" ^ zs m)
  | RoNack (t, _, s, r, m, _, _) -> Some (Printf.sprintf "nk:%s:%s:%s:%s:1" (zs t) (zs s) (zs r) (zs m))
  | RoNackNoPdu (t, s, r, m) -> Some (Printf.sprintf "nk:%s:%s:%s:%s:0" (zs t) (zs s) (zs r) (zs m))
  | RoAcked (_, _) -> None
  | RoWait (t, w, hd) -> Some (Printf.sprintf "w:%s:%s:%s" (zs t) (zs w) (zs hd))
  | RoEpoll (t, et) -> Some (Printf.sprintf "ep:%s:%s" (zs t) (zs et))
  | RoIoRet (t, r) -> Some (Printf.sprintf "io:%s:%s" (zs t) (zs r))
  | RoDump (t, l) ->
      let items = List.map (fun (d, n) ->
        Printf.sprintf "%s/%s/%s/%s" (zs d) (zs n.qn_sess) (zs n.qn_mid) (zs n.qn_cnt)) l in
      Some (Printf.sprintf "q:%s:%s" (zs t) (if items = [] then "-" else String.concat "," items))
  | RoFuel -> Some "FUEL"

let c06 toks =
  match toks with
  | ns :: rest ->
      let ns = int_of_string ns in
      let cfgs = Array.make ns { rc_at_ip = Z0; rc_at_fp = Z0; rc_arf_ip = Z0; rc_arf_fp = Z0; rc_max = Z0 } in
      let nst = ref [] in
      let rec take_cfg k toks =
        if k = ns then toks
        else match toks with
          | a :: b :: c :: d :: m :: nstart :: tl ->
              cfgs.(k) <- { rc_at_ip = zi a; rc_at_fp = zi b; rc_arf_ip = zi c; rc_arf_fp = zi d; rc_max = zi m };
              nst := (z_of_int k, zi nstart) :: !nst;
              take_cfg (k + 1) tl
          | _ -> failwith "c06 cfg" in
      let evtoks = take_cfg 0 rest in
      let st = ref (rt_init Z0 (List.rev !nst)) in
      let outs = ref [] in
      Array.iteri (fun k c ->
        outs := Printf.sprintf "0.cfg:%d:%s:%s:%s:%s:%s" k (zs c.rc_at_ip) (zs c.rc_at_fp)
                  (zs c.rc_arf_ip) (zs c.rc_arf_fp) (zs c.rc_max) :: !outs) cfgs;
      let last_tick = ref (-1) and last_wait = ref 0 in
      let evi = ref (-1) in
      let step ev =
        let (st', o) = rt_step !st ev in
        st := st';
        List.iter (fun x ->
          (match x with
           | RoWait (t, w, _) -> last_tick := int_of_z t; last_wait := int_of_z w
           | _ -> ());
          match show_out x with
          | Some s -> outs := (string_of_int !evi ^ "." ^ s) :: !outs
          | None -> ()) o in
      let sess s = z_of_int (int_of_string s mod ns) in
      let dead = Array.make ns false in
      let is_dead s = dead.(int_of_string s mod ns) in
      let rec go toks =
        incr evi;
        match toks with
        | [] -> ()
        | "S" :: s :: _ :: _ :: _ :: _ :: _ :: tl when is_dead s -> go tl
        | ("K" | "R" | "X") :: s :: _ :: tl when is_dead s -> go tl
        | "P" :: s :: _ :: _ :: tl when is_dead s -> go tl
        | "N" :: s :: _ :: _ :: _ :: tl when is_dead s -> go tl
        | "A" :: dt :: tl -> step (RtAdvance (zi dt)); go tl
        | "W" :: k :: tl ->
            (if !last_tick >= 0 then begin
               let target = !last_tick + !last_wait + int_of_string k in
               let now = int_of_z (!st).rs_now in
               if target > now then step (RtAdvance (z_of_int (target - now)))
             end);
            go tl
        | "S" :: s :: mid :: code :: tok :: pay :: r :: tl ->
            let si = int_of_string s mod ns in
            step (RtSend (z_of_int si, zi mid,
                          rt_con_bytes (zi code) (zi mid) (bytes_of_tok tok) (bytes_of_tok pay),
                          cfgs.(si), zi r));
            go tl
        | "T" :: tl -> step RtTick; go tl
        | "K" :: s :: mid :: tl -> step (RtAck (sess s, zi mid)); go tl
        | "P" :: s :: mid :: _tok :: tl -> step (RtAck (sess s, zi mid)); go tl
        | "R" :: s :: mid :: tl -> step (RtRst (sess s, zi mid)); go tl
        | "N" :: s :: mid :: _code :: tok :: tl -> step (RtNon (sess s, zi mid, bytes_of_tok tok)); go tl
        | "D" :: s :: reason :: tl ->
            let si = int_of_string s mod ns in
            if not dead.(si) then begin
              step (RtDisconnect (z_of_int si, zi reason)); dead.(si) <- true
            end;
            go tl
        | "X" :: s :: mid :: tl -> step (RtDelete (sess s, zi mid)); go tl
        | "G" :: _s :: _tok :: tl -> go tl
        | ("B" | "E" | "M") :: _v :: tl -> go tl
        | "Y" :: s :: _ :: _ :: _ :: tl when is_dead s -> go tl
        | "Y" :: s :: mid :: bytes :: r :: tl ->
            (* coap_send of a Confirmable whose bytes the library built (first block of a large transmit) *)
            let si = int_of_string s mod ns in
            step (RtSend (z_of_int si, zi mid, bytes_of_tok bytes, cfgs.(si), zi r));
            go tl
        | "Z" :: r :: n :: tl ->
            (* a prepare call from inside which the library sends keep-alive pings: loop, then the
               pings are accepted, then the wait over the queue that holds them *)
            let emit keep o =
              List.iter (fun x -> if keep x then
                match show_out x with
                | Some t -> outs := (string_of_int !evi ^ "." ^ t) :: !outs
                | None -> ()) o in
            let n = int_of_string n in
            let (st1, o1) = rt_step !st RtTick in
            st := st1;
            if n = 0 then begin
              List.iter (fun x -> match x with
                | RoWait (t, w, _) -> last_tick := int_of_z t; last_wait := int_of_z w | _ -> ()) o1;
              emit (fun _ -> true) o1; go tl
            end else begin
              emit (fun x -> match x with RoWait _ -> false | _ -> true) o1;
              let rec pings k toks acc =
                if k = 0 then (List.rev acc, toks)
                else match toks with
                  | s :: mid :: tl2 -> pings (k - 1) tl2 ((int_of_string s mod ns, mid) :: acc)
                  | _ -> failwith "c06 Z" in
              let (pl, tl2) = pings n tl [] in
              List.iter (fun (si, mid) ->
                let (st2, o2) = rt_step !st (RtSend (z_of_int si, zi mid, rt_con_bytes Z0 (zi mid) [] [],
                                                     cfgs.(si), zi r)) in
                st := st2;
                emit (fun x -> match x with RoSent _ -> false | _ -> true) o2) pl;
              List.iter (fun (si, mid) ->
                outs := Printf.sprintf "%d.pg:%d:%s" !evi si mid :: !outs)
                (List.sort compare pl);
              step RtTick; go tl2
            end
        | "O" :: s :: mid :: bytes :: r :: tl ->
            (* a notification generated inside a prepare call: accepted for sending at the start of
               the call (no coap_send result to report), then the call's loop and wait *)
            let si = int_of_string s mod ns in
            let (st', o) = rt_step !st (RtSend (z_of_int si, zi mid, bytes_of_tok bytes, cfgs.(si), zi r)) in
            st := st';
            List.iter (fun x ->
              match x with
              | RoSent _ -> ()
              | _ -> (match show_out x with
                      | Some t -> outs := (string_of_int !evi ^ "." ^ t) :: !outs
                      | None -> ())) o;
            step RtTick; go tl
        | "I" :: tmo :: tl -> step (RtIoProcess (zi tmo)); go tl
        | "Q" :: tl -> step RtDump; go tl
        | _ -> failwith "c06 event" in
      go evtoks;
      let items = List.rev !outs in
      if items = [] then "-" else String.concat " " items
  | _ -> failwith "c06 args"

let calc toks =
  match toks with
  | [a; b; c; d; r] -> zs (fp_calc_timeout (zi a) (zi b) (zi c) (zi d) (zi r))
  | _ -> failwith "calc args"

let calcrow toks =
  match toks with
  | [a; b; c; d] -> String.concat "," (List.map zs (fp_calc_row (zi a) (zi b) (zi c) (zi d)))
  | _ -> failwith "calcrow args"

(* queue primitives on hand-made nodes *)
let qops toks =
  let buf = Buffer.create 256 in
  let show base q =
    Buffer.add_string buf (Printf.sprintf "[b=%s" (zs base));
    List.iter (fun (t, n) ->
      Buffer.add_string buf (Printf.sprintf " %s/%s/%s" (zs t) (zs n.qn_sess) (zs n.qn_mid))) q;
    Buffer.add_string buf "] " in
  let node s id = { qn_uid = Z0; qn_sess = z_of_int (int_of_string s land 3); qn_mid = zi id;
                    qn_cnt = Z0; qn_timeout = Z0; qn_max = Z0; qn_bytes = [] } in
  let rec go base q toks =
    match toks with
    | [] -> ()
    | "i" :: t :: s :: id :: tl ->
        let q' = sq_insert q (zi t) (node s id) in
        Buffer.add_string buf "i1"; show base q'; go base q' tl
    | "p" :: tl ->
        (match sq_pop q with
         | None -> Buffer.add_string buf "p-"; show base q; go base q tl
         | Some ((t, n), q') ->
             Buffer.add_string buf (Printf.sprintf "p%s/%s/%s" (zs t) (zs n.qn_sess) (zs n.qn_mid));
             show base q'; go base q' tl)
    | "r" :: s :: id :: tl ->
        (match sq_remove q (z_of_int (int_of_string s land 3)) (zi id) with
         | None -> Buffer.add_string buf "r-"; show base q; go base q tl
         | Some ((t, n), q') ->
             Buffer.add_string buf (Printf.sprintf "r%s/%s/%s" (zs t) (zs n.qn_sess) (zs n.qn_mid));
             show base q'; go base q' tl)
    | "b" :: now :: tl ->
        let ((c, b'), q') = sq_adjust_basetime base q (zi now) in
        Buffer.add_string buf ("b" ^ zs c); show b' q'; go b' q' tl
    | _ -> Buffer.add_string buf "ERROR-op" in
  go Z0 [] toks;
  Buffer.contents buf

let () =
  register "c06" c06; register "calc" calc; register "calcrow" calcrow; register "qops" qops

(* C07 handlers: the client side of an exchange and the acceptor.

   exc <maxr> <mid0> <tok0> <input>*      run the client model (Exchange.ex_cli_run)
   exj <step> { | <step> }*               judge an observed trace (Accept.ex_judge)

   <input> : S<sty> | T | R:<kind>:<mid>:<tok>:<ok>
             kind = ae (empty ACK) | ar (piggybacked response) | cr (CON response)
                  | nr (NON response) | rs (Reset);  ok = 1 (handler returns OK) | 0 (FAIL)
             <mid>, <tok> : a number, or m<j> / k<j> = mid / token of the j-th most recent
             request the client sent (0 = the latest), resolved against the client's own output
   <step>  : <input> > <out>{,<out>}*     (" > -" when nothing was caused)
   <out>   : tx:req:<mid>:<tok>:<sty> | tx:ack:<mid> | tx:rst:<mid>
           | resp:<kind>:<mid>:<tok>:<stok> | nack:<tok>:<reason>:<mid> | nackn:<reason>:<mid>
           | skip
   result of exc: the steps joined by " | ";  result of exj: judge=<code> pos=<index>        *)
open Model
open Util

let split_on c s = String.split_on_char c s

let show_dg d =
  match d with
  | ExReq (m, k, s) -> Printf.sprintf "req:%d:%d:%d" (int_of_z m) (int_of_z k) (int_of_z s)
  | ExAckE m -> Printf.sprintf "ack:%d" (int_of_z m)
  | ExRst m -> Printf.sprintf "rst:%d" (int_of_z m)
  | ExAckR (m, k) -> Printf.sprintf "ackr:%d:%d" (int_of_z m) (int_of_z k)
  | ExConR (m, k) -> Printf.sprintf "conr:%d:%d" (int_of_z m) (int_of_z k)
  | ExNonR (m, k) -> Printf.sprintf "nonr:%d:%d" (int_of_z m) (int_of_z k)

let show_out o =
  match o with
  | ExTx d -> "tx:" ^ show_dg d
  | ExResp (kd, m, k, st) ->
      Printf.sprintf "resp:%d:%d:%d:%d" (int_of_z kd) (int_of_z m) (int_of_z k) (int_of_z st)
  | ExNack (k, r, m) -> Printf.sprintf "nack:%d:%d:%d" (int_of_z k) (int_of_z r) (int_of_z m)
  | ExNackNull (r, m) -> Printf.sprintf "nackn:%d:%d" (int_of_z r) (int_of_z m)
  | ExSkip -> "skip"

let show_in i =
  match i with
  | ExSend s -> Printf.sprintf "S%d" (int_of_z s)
  | ExTimer -> "T"
  | ExRx (d, ok) ->
      let kd, m, k =
        match d with
        | ExAckE m -> "ae", m, Z0
        | ExAckR (m, k) -> "ar", m, k
        | ExConR (m, k) -> "cr", m, k
        | ExNonR (m, k) -> "nr", m, k
        | ExRst m -> "rs", m, Z0
        | ExReq (m, k, _) -> "rq", m, k in
      Printf.sprintf "R:%s:%d:%d:%d" kd (int_of_z m) (int_of_z k) (if ok then 1 else 0)

let show_step (i, outs) =
  show_in i ^ " > " ^ (match outs with [] -> "-" | _ -> String.concat "," (List.map show_out outs))

(* requests sent so far, latest first: (mid, tok) *)
let resolve (hist : (int * int) list) (s : string) : int =
  if String.length s > 1 && (s.[0] = 'm' || s.[0] = 'k') then begin
    let j = int_of_string (String.sub s 1 (String.length s - 1)) in
    match List.nth_opt hist j with
    | Some (m, k) -> if s.[0] = 'm' then m else k
    | None -> raise Not_found   (* no such request: the input is skipped *)
  end else int_of_string s

let parse_in hist (s : string) : ex_cin =
  if s = "T" then ExTimer
  else if s.[0] = 'S' then ExSend (zi (String.sub s 1 (String.length s - 1)))
  else match split_on ':' s with
    | ["R"; kd; m; k; ok] ->
        let m = z_of_int (resolve hist m) and k = z_of_int (resolve hist k) in
        let d = match kd with
          | "ae" -> ExAckE m | "ar" -> ExAckR (m, k) | "cr" -> ExConR (m, k)
          | "nr" -> ExNonR (m, k) | "rs" -> ExRst m | "rq" -> ExReq (m, k, Z0)
          | _ -> failwith "bad datagram kind" in
        ExRx (d, ok <> "0")
    | _ -> failwith ("bad input " ^ s)

let exc toks =
  match toks with
  | maxr :: mid0 :: tok0 :: ins ->
      let maxr = zi maxr in
      let c = ref (ex_cli_init (zi mid0) (zi tok0)) in
      let hist = ref [] in
      let ins = List.filter (fun s -> s = "" || s.[0] <> 'H') ins in   (* H<n>: request method, not modelled *)
      let steps = List.filter_map (fun s ->
          match (try Some (parse_in !hist s) with Not_found -> None) with
          | None -> None
          | Some i ->
          let (c1, outs) = ex_cli_step maxr !c i in
          c := c1;
          (match i, outs with
           | ExSend _, [ExTx (ExReq (m, k, _))] -> hist := (int_of_z m, int_of_z k) :: !hist
           | _ -> ());
          Some (show_step (i, outs))) ins in
      String.concat " | " steps
  | _ -> failwith "exc: arguments"

let parse_out (s : string) : ex_out =
  match split_on ':' s with
  | ["tx"; "req"; m; k; st] -> ExTx (ExReq (zi m, zi k, zi st))
  | ["tx"; "ack"; m] -> ExTx (ExAckE (zi m))
  | ["tx"; "rst"; m] -> ExTx (ExRst (zi m))
  | ["tx"; "ackr"; m; k] -> ExTx (ExAckR (zi m, zi k))
  | ["tx"; "conr"; m; k] -> ExTx (ExConR (zi m, zi k))
  | ["tx"; "nonr"; m; k] -> ExTx (ExNonR (zi m, zi k))
  | ["resp"; kd; m; k; st] -> ExResp (zi kd, zi m, zi k, zi st)
  | ["nack"; k; r; m] -> ExNack (zi k, zi r, zi m)
  | ["nackn"; r; m] -> ExNackNull (zi r, zi m)
  | ["skip"] -> ExSkip
  | _ -> failwith ("bad output " ^ s)

(* split a token list at "|" *)
let rec split_steps acc cur toks =
  match toks with
  | [] -> List.rev (if cur = [] then acc else List.rev cur :: acc)
  | "|" :: tl -> split_steps (List.rev cur :: acc) [] tl
  | x :: tl -> split_steps acc (x :: cur) tl

let parse_step toks : ex_cin * ex_out list =
  match toks with
  | [i; ">"; outs] ->
      (parse_in [] i, if outs = "-" then [] else List.map parse_out (split_on ',' outs))
  | _ -> failwith "bad step"

let exj toks =
  let t = List.map parse_step (split_steps [] [] toks) in
  Printf.sprintf "judge=%d pos=%d" (int_of_z (ex_judge t))
    (int_of_z (ex_judge_pos true ex_mon_init t Z0))

(* exjl: the judge without clause 2 (double conclusion) *)
let exjl toks =
  let t = List.map parse_step (split_steps [] [] toks) in
  Printf.sprintf "judge=%d pos=%d" (int_of_z (ex_judge_lenient t))
    (int_of_z (ex_judge_pos false ex_mon_init t Z0))

(* exw <n> <mid0>: the message-id wrap experiment of harness/h_exchange.c on the model *)
let exw toks =
  match toks with
  | n :: mid0 :: rest ->
      let n = int_of_string n in
      let mode = (match rest with m :: _ -> int_of_string m | [] -> 0) in
      let maxr = z_of_int 4 in
      let c = ref (ex_cli_init (zi mid0) Z0) in
      let step i = let (c1, outs) = ex_cli_step maxr !c i in c := c1; outs in
      let total = ref 0 and first = ref (-1) and last = ref (-1) and lresp = ref 0 and lnack = ref 0 in
      (try
        for e = 0 to n + 1 do
          let edge = (e = 0 || e = n + 1) in
          let piggy = edge && mode = 0 in
          let (mid, tok) =
            match step (ExSend (z_of_int (if piggy then 0 else 1))) with
            | [ExTx (ExReq (m, k, _))] -> (m, k)
            | _ -> raise Exit in
          if e = 0 then first := int_of_z mid;
          let outs =
            if piggy then step (ExRx (ExAckR (mid, tok), true))
            else begin
              let o1 = step (ExRx (ExAckE mid, true)) in
              let sm = z_of_int ((7000 + e) land 0xffff) in
              let o2 = step (ExRx ((if mode = 0 || edge then ExConR (sm, tok) else ExNonR (sm, tok)), true)) in
              o1 @ o2
            end in
          let nresp = List.length (List.filter (fun o -> match o with ExResp (_, _, k, _) -> k = tok | _ -> false) outs) in
          let nnack = List.length (List.filter (fun o -> match o with ExNack (k, _, _) -> k = tok | _ -> false) outs) in
          total := !total + nresp;
          if e = n + 1 then begin last := int_of_z mid; lresp := nresp; lnack := nnack end
        done
      with Exit -> ());
      Printf.sprintf "first=%d last=%d resp_last=%d nack_last=%d queued=%d total_resp=%d" !first !last
        !lresp !lnack (match !c.ex_c_q with Some _ -> 1 | None -> 0) !total
  | _ -> failwith "exw: arguments"

(* exs <maxr> <smid0> <dedup> <step> { | <step> }*
   replay of the steps observed at the real server on the abstract server of System.v:
     X:<datagram received> > <datagrams sent>     Exchange.System.ex_srv_rx
     TS > <datagrams sent by timers>              each one is the response of a pending async entry
                                                  (ex_srv_fire) or a retransmission (ex_srv_timer)
   result: ok <steps> | MISMATCH step <i>: model=<..> impl=<..>                              *)
let parse_dg (s : string) : ex_dg =
  match split_on ':' s with
  | ["req"; m; k; st] -> ExReq (zi m, zi k, zi st)
  | ["ack"; m] -> ExAckE (zi m)
  | ["rst"; m] -> ExRst (zi m)
  | ["ackr"; m; k] -> ExAckR (zi m, zi k)
  | ["conr"; m; k] -> ExConR (zi m, zi k)
  | ["nonr"; m; k] -> ExNonR (zi m, zi k)
  | _ -> failwith ("bad datagram " ^ s)

let rec index_of p l i = match l with [] -> None | x :: tl -> if p x then Some i else index_of p tl (i + 1)

let exs toks =
  match toks with
  | maxr :: smid0 :: dedup :: rest ->
      let cf = { ex_cf_maxr = zi maxr; ex_cf_dedup = (dedup <> "0"); ex_cf_quiet = false;
                 ex_cf_patient = false } in
      let s = ref (ex_srv_init (zi smid0)) in
      let steps = split_steps [] [] rest in
      let show l = if l = [] then "-" else String.concat "," (List.map show_dg l) in
      let result = ref "" in
      (try
        List.iteri (fun i st ->
          match st with
          | [inp; ">"; outs] ->
              let outs_l = if outs = "-" then [] else List.map parse_dg (split_on ',' outs) in
              if String.length inp > 2 && String.sub inp 0 2 = "X:" then begin
                let d = parse_dg (String.sub inp 2 (String.length inp - 2)) in
                let (s1, ds) = ex_srv_rx cf !s d in
                s := s1;
                if show ds <> show outs_l then begin
                  result := Printf.sprintf "MISMATCH step %d (%s): model=%s impl=%s" i inp (show ds) (show outs_l);
                  raise Exit end
              end else begin
                (* timers: explain every datagram *)
                List.iter (fun d ->
                  let mid = match d with ExConR (m, _) | ExNonR (m, _) -> int_of_z m | _ -> -1 in
                  let ds =
                    match index_of (fun p -> int_of_z p.ex_p_mid = mid) !s.ex_s_pend 0 with
                    | Some j -> let (s1, ds) = ex_srv_fire !s (nat_of_int j) in s := s1; ds
                    | None ->
                      (match index_of (fun r -> int_of_z r.ex_r_mid = mid) !s.ex_s_con 0 with
                       | Some j -> let (s1, ds) = ex_srv_timer cf.ex_cf_maxr !s (nat_of_int j) in s := s1; ds
                       | None -> []) in
                  if show ds <> show [d] then begin
                    result := Printf.sprintf "MISMATCH step %d (timer): model=%s impl=%s" i (show ds) (show [d]);
                    raise Exit end) outs_l
              end
          | _ -> failwith "bad server step") steps;
        result := Printf.sprintf "ok %d" (List.length steps)
      with Exit -> ());
      !result
  | _ -> failwith "exs: arguments"

let () =
  register "exs" exs;
  register "exw" exw;
  register "exc" exc;
  register "exj" exj;
  register "exjl" exjl

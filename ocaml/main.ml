(* main loop: one case per line on stdin, one result per line on stdout *)
let () =
  try
    while true do
      let line = input_line stdin in
      let toks = List.filter (fun s -> s <> "") (String.split_on_char ' ' (String.trim line)) in
      match toks with
      | [] -> print_string "\n"
      | cmd :: args ->
          let out =
            try (Hashtbl.find Util.handlers cmd) args
            with
            | Not_found -> "ERROR unknown command or missing key: " ^ cmd
            | Failure m -> "ERROR " ^ m
            | Stack_overflow -> "ERROR stack overflow" in
          print_string out; print_char '\n'
    done
  with End_of_file -> ()

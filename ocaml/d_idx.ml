(* C02 handler: the index-level parser model with checked reads (Wire/ParseIdx.v)
   c02 <proto> <bytes>   -> same dump as c03 | REJECT | OOB | FUEL     (repaired code)
   c02f <proto> <bytes>  -> the code as found (no guard before the extended-token bytes) *)
open Model
open Util

let show r =
  match r with
  | IxOk m -> dump_msg m
  | IxRej -> "REJECT"
  | IxOob -> "OOB"
  | IxFuel -> "FUEL"

let () =
  register "c02" (fun toks ->
    match toks with
    | [pr; b] -> show (ix_parse true (proto_of_string pr) (bytes_of_tok b))
    | _ -> failwith "c02 args");
  register "c02f" (fun toks ->
    match toks with
    | [pr; b] -> show (ix_parse false (proto_of_string pr) (bytes_of_tok b))
    | _ -> failwith "c02f args")

(* C18 handlers *)
open Model
open Util

(* trace tokens (harness/common/fa_alloc.h): a<id> x f<id> n r<old>:<new> y<old> *)
let ev_of_tok (s : string) : fa_ev =
  let rest = String.sub s 1 (String.length s - 1) in
  match s.[0] with
  | 'a' -> FaAlloc (zi rest)
  | 'x' -> FaAllocFail
  | 'f' -> FaFree (zi rest)
  | 'n' -> FaFreeNull
  | 'r' ->
      (match String.split_on_char ':' rest with
       | [o; n] -> FaRealloc (zi o, zi n)
       | _ -> failwith "bad realloc token")
  | 'y' -> FaReallocFail (zi rest)
  | _ -> failwith "bad trace token"

let show_ids l = String.concat "," (List.map (fun z -> string_of_int (int_of_z z)) l)

(* faverdict <tok,tok,...|-> *)
let faverdict toks =
  match toks with
  | [t] ->
      let evs = if t = "-" then [] else List.map ev_of_tok (String.split_on_char ',' t) in
      (match fa_verdict evs with
       | FaClean -> "Clean"
       | FaLeak ids -> "Leak " ^ show_ids ids
       | FaDoubleFree i -> Printf.sprintf "DoubleFree %d" (int_of_z i)
       | FaBadFree i -> Printf.sprintf "BadFree %d" (int_of_z i)
       | FaBadRealloc i -> Printf.sprintf "BadRealloc %d" (int_of_z i)
       | FaIllFormed i -> Printf.sprintf "IllFormed %d" (int_of_z i))
  | _ -> failwith "faverdict args"

let () = register "faverdict" faverdict

(* ---- PDU builder under a failure pattern (coq/Fault/PduAtomic.v)
   fapdu <type> <code> <mid> <max> F <k,k,..|-> { T b | O n b | D b }*   (k = 1-based attempt) *)
let rec int_of_nat (n : nat) : int = match n with O -> 0 | S m -> 1 + int_of_nat m

let rec fa_parse_ops toks =
  match toks with
  | [] -> []
  | "T" :: b :: tl -> OpToken (bytes_of_tok b) :: fa_parse_ops tl
  | "O" :: n :: b :: tl -> OpOpt (zi n, bytes_of_tok b) :: fa_parse_ops tl
  | "D" :: b :: tl -> OpData (bytes_of_tok b) :: fa_parse_ops tl
  | _ -> failwith "bad op"

let fapdu toks =
  match toks with
  | ty :: code :: mid :: mx :: "F" :: ks :: ops ->
      let ks = if ks = "-" then [] else
          List.map (fun s -> nat_of_int (int_of_string s - 1)) (String.split_on_char ',' ks) in
      let fails = fa_fails_of ks in
      (match fa_pdu_init fails O (zi ty) (zi code) (zi mid) (zi mx) with
       | (None, n) -> Printf.sprintf "rets=N attempts=%d atomic=1 built=[-]" (int_of_nat n)
       | (Some p0, n0) ->
           let atomic = ref true in
           let rec go p n ops acc =
             match ops with
             | [] -> (List.rev acc, p, n)
             | o :: tl ->
                 let ((r, p1), n1) = fa_apply_op fails n p o in
                 let proxy = (match o with OpOpt (num, _) -> let k = int_of_z num in k = 35 || k = 39 | _ -> false) in
                 if (not r) && (not proxy) && dump_msg p1.fp_pdu.p_msg <> dump_msg p.fp_pdu.p_msg
                 then atomic := false;
                 go p1 n1 tl (r :: acc) in
           let (rets, p, n) = go p0 n0 (fa_parse_ops ops) [] in
           let rs = String.concat "" (List.map (fun b -> if b then "1" else "0") rets) in
           Printf.sprintf "rets=%s attempts=%d atomic=%d built=[%s]" (if rs = "" then "-" else rs)
             (int_of_nat n) (if !atomic then 1 else 0) (dump_msg p.fp_pdu.p_msg))
  | _ -> failwith "fapdu args"

let () = register "fapdu" fapdu

(* ---- ownership acceptor (coq/Fault/SendOwner.v): fasend <flags,flags,..|->, flags = 4 chars
   0/1: mid valid, PDU still allocated, in sendqueue, in delayqueue -> one 0/1 per tuple *)
let fasend toks =
  match toks with
  | [t] ->
      if t = "-" then "-" else
        String.concat "" (List.map (fun s ->
            let b i = s.[i] = '1' in
            if fa_obs_ok (((b 0, b 1), b 2), b 3) then "1" else "0")
          (String.split_on_char ',' t))
  | _ -> failwith "fasend args"

let () = register "fasend" fasend

(* C18 handlers *)
open Model
open Util

(* trace tokens (harness/common/fa_alloc.h): a<id> x f<id> n r<old>:<new> y<old> *)
let ev_of_tok (s : string) : fa_ev =
  let rest = String.sub s 1 (String.length s - 1) in
  match s.[0] with
  | 'a' -> FaAlloc (zi rest)
  | 'x' -> FaAllocFail
  | 'f' -> FaFree (zi rest)
  | 'n' -> FaFreeNull
  | 'r' ->
      (match String.split_on_char ':' rest with
       | [o; n] -> FaRealloc (zi o, zi n)
       | _ -> failwith "bad realloc token")
  | 'y' -> FaReallocFail (zi rest)
  | _ -> failwith "bad trace token"

let show_ids l = String.concat "," (List.map (fun z -> string_of_int (int_of_z z)) l)

(* faverdict <tok,tok,...|-> *)
let faverdict toks =
  match toks with
  | [t] ->
      let evs = if t = "-" then [] else List.map ev_of_tok (String.split_on_char ',' t) in
      (match fa_verdict evs with
       | FaClean -> "Clean"
       | FaLeak ids -> "Leak " ^ show_ids ids
       | FaDoubleFree i -> Printf.sprintf "DoubleFree %d" (int_of_z i)
       | FaBadFree i -> Printf.sprintf "BadFree %d" (int_of_z i)
       | FaBadRealloc i -> Printf.sprintf "BadRealloc %d" (int_of_z i)
       | FaIllFormed i -> Printf.sprintf "IllFormed %d" (int_of_z i))
  | _ -> failwith "faverdict args"

let () = register "faverdict" faverdict

(* C13 handlers: the lock model run on a schedule.
   program token:  calls  := "-" | { "C(" items ")" }+
                   items  := { "w" | k "(" calls' ")" }*      k in k K r R i   (calls' may be empty)
   lk  <n> <prog_1> .. <prog_n> <sched>      -> step trace under the canonical macros
   lkv <cfg> <n> <prog_1> .. <prog_n> <sched> -> final verdict under cfg in gen|canon|dinc|cmon *)
open Model
open Util

let parse_prog (s : string) : lk_calls =
  let n = String.length s in
  let pos = ref 0 in
  let peek () = if !pos < n then s.[!pos] else '\000' in
  let eat c = if peek () = c then incr pos else failwith ("lock prog: expected " ^ String.make 1 c) in
  let rec calls () : lk_calls =
    if peek () = 'C' then begin
      incr pos; eat '(';
      let b = items () in
      eat ')';
      let rest = calls () in
      LkCall (b, rest)
    end else if peek () = 'E' then begin
      (* the real coap_handle_event(): wrapper + coap_lock_callback_ret + event handler *)
      incr pos; eat '(';
      let a = calls () in
      eat ')';
      let rest = calls () in
      LkCall (LkCb (LkKeepRet, a, LkRet), rest)
    end else LkDone
  and items () : lk_items =
    match peek () with
    | 'w' -> incr pos; let r = items () in LkWork r
    | 'k' | 'K' | 'r' | 'R' | 'i' as c ->
        incr pos; eat '(';
        let a = calls () in
        eat ')';
        let r = items () in
        let k = (match c with 'k' -> LkKeep | 'K' -> LkKeepRet | 'r' -> LkRel | 'R' -> LkRelRet
                            | _ -> LkWait) in
        LkCb (k, a, r)
    | _ -> LkRet in
  if s = "-" then LkDone
  else begin
    let p = calls () in
    if !pos <> n then failwith "lock prog: trailing characters";
    p
  end

let parse_sched (s : string) : int list =
  if s = "-" then [] else List.map int_of_string (String.split_on_char ',' s)

let cfg_of = function
  | "gen" -> lk_gen_cfg | "canon" -> lk_canon | "dinc" -> lk_cfg_double_inc
  | "cmon" -> lk_cfg_cmake_on | _ -> failwith "cfg"

let rec take k l = if k = 0 then [] else match l with [] -> [] | x :: t -> x :: take (k - 1) t
let rec drop k l = if k = 0 then l else match l with [] -> [] | _ :: t -> drop (k - 1) t

let show_state (s : lk_state) : string =
  let n = List.length s.lk_thr in
  let acc = ref 0 in
  for i = 0 to n - 1 do
    if lk_accessingb s (nat_of_int i) then acc := !acc lor (1 lsl i)
  done;
  let l = s.lk_l in
  Printf.sprintf "%d.%d.%d.%d.%d" (if l.lk_held then 1 else 0) (int_of_z l.lk_pid)
    (int_of_z l.lk_incb) (int_of_z l.lk_cnt) !acc

(* schedule, then drain: always the lowest thread that can move, until none can *)
let run_trace (c : lk_cfg) (progs : lk_calls list) (sched : int list) : string * lk_state =
  let s = ref (lk_init (List.map (lk_flat c) progs)) in
  let n = List.length progs in
  let b = Buffer.create 256 in
  let worst = ref 0 in
  let note () = if int_of_z (lk_verdict !s) = 1 then worst := 1 in
  List.iter (fun i ->
    let st =
      if i < 0 || i >= n then 'x'
      else match List.nth !s.lk_thr i with
        | [] -> 'x'
        | _ -> (match lk_step (nat_of_int i) !s with
                | Some s' -> s := s'; '+'
                | None -> 'b') in
    note ();
    Buffer.add_string b (Printf.sprintf "%d%c%s," i st (show_state !s))) sched;
  Buffer.add_string b "|,";
  let continue = ref true in
  while !continue do
    let rec first i =
      if i >= n then None
      else match lk_step (nat_of_int i) !s with Some s' -> Some (i, s') | None -> first (i + 1) in
    match first 0 with
    | Some (i, s') -> s := s'; note ();
        Buffer.add_string b (Printf.sprintf "%d+%s," i (show_state !s))
    | None -> continue := false
  done;
  let v = int_of_z (lk_verdict !s) in
  let v = if !worst = 1 then 1 else v in
  let donebits = String.concat "" (List.map (fun p -> if p = [] then "1" else "0") !s.lk_thr) in
  (Printf.sprintf "%s end=%d done=%s" (Buffer.contents b) v donebits, !s)

let split_case toks =
  match toks with
  | n :: rest ->
      let n = int_of_string n in
      let progs = List.map parse_prog (take n rest) in
      let sched = (match drop n rest with [s] -> parse_sched s | _ -> failwith "lock case") in
      (progs, sched)
  | _ -> failwith "lock case"

let lk toks =
  let progs, sched = split_case toks in
  fst (run_trace lk_canon progs sched)

let lkv toks =
  match toks with
  | c :: rest ->
      let progs, sched = split_case rest in
      let out, _ = run_trace (cfg_of c) progs sched in
      (* only the summary *)
      let pat = " end=" in
      let m = String.length pat and n = String.length out in
      let rec find i = if i + m > n then 0 else if String.sub out i m = pat then i else find (i + 1) in
      let k = find 0 in
      String.sub out (k + 1) (n - k - 1)
  | _ -> failwith "lkv"

let lkcfg _ =
  Printf.sprintf "gen_wf=%b canon_wf=%b dinc_wf=%b cmon_wf=%b" (lk_cfg_wf lk_gen_cfg)
    (lk_cfg_wf lk_canon) (lk_cfg_wf lk_cfg_double_inc) (lk_cfg_wf lk_cfg_cmake_on)

let () =
  register "lk" lk;
  register "lkv" lkv;
  register "lkcfg" lkcfg

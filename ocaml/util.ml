(* Line-oriented driver for the extracted Gallina models (coq/Extract.v -> model.ml).
   One case per input line, one result line per case; the C drivers under harness/ print the
   same format for the same cases, tools/ compares.  Only glue lives here: parsing of case
   lines, int <-> Z conversion, hex printing. *)
open Model

(* ---- conversions ---- *)
let rec pos_of_int (n : int) : positive =
  if n = 1 then XH
  else if n land 1 = 0 then XO (pos_of_int (n lsr 1))
  else XI (pos_of_int (n lsr 1))

let z_of_int (n : int) : z =
  if n = 0 then Z0 else if n > 0 then Zpos (pos_of_int n) else Zneg (pos_of_int (-n))

let rec int_of_pos (p : positive) : int =
  match p with XH -> 1 | XO q -> 2 * int_of_pos q | XI q -> 2 * int_of_pos q + 1

let int_of_z (x : z) : int =
  match x with Z0 -> 0 | Zpos p -> int_of_pos p | Zneg p -> - (int_of_pos p)

let rec nat_of_int (n : int) : nat = if n <= 0 then O else S (nat_of_int (n - 1))

(* small cache so that byte values share structure *)
let zbyte = Array.init 256 z_of_int

let hexval c =
  match c with
  | '0' .. '9' -> Char.code c - 48
  | 'a' .. 'f' -> Char.code c - 87
  | 'A' .. 'F' -> Char.code c - 55
  | _ -> failwith "bad hex"

(* pseudo-random filler shared with harness/common/util.h and tools/gen.py *)
let fill_byte seed i = (seed * 31 + i * 7 + (i lsr 8) * 13 + 5) land 0xff

(* bytes token: "-" (empty) | hex | "@len,seed" *)
let bytes_of_tok (s : string) : z list =
  if s = "-" then []
  else if String.length s > 0 && s.[0] = '@' then begin
    match String.split_on_char ',' (String.sub s 1 (String.length s - 1)) with
    | [l; sd] ->
        let l = int_of_string l and sd = int_of_string sd in
        List.init l (fun i -> zbyte.(fill_byte sd i))
    | _ -> failwith "bad @ token"
  end else begin
    let n = String.length s / 2 in
    List.init n (fun i -> zbyte.(hexval s.[2 * i] * 16 + hexval s.[2 * i + 1]))
  end

(* printed form of a byte string: "-" | hex (up to 48 bytes) | "#len:fnv1a32" *)
let hex_of_bytes (l : z list) : string =
  match l with
  | [] -> "-"
  | _ ->
      let n = List.length l in
      if n <= 48 then begin
        let b = Buffer.create 64 in
        List.iter (fun x -> Buffer.add_string b (Printf.sprintf "%02x" (int_of_z x land 0xff))) l;
        Buffer.contents b
      end else begin
        let h = ref 0x811c9dc5 in
        List.iter (fun x -> h := ((!h lxor (int_of_z x land 0xff)) * 0x01000193) land 0xffffffff) l;
        Printf.sprintf "#%d:%08x" n !h
      end

let proto_of_string s =
  match s with "udp" -> UDP | "tcp" -> TCP | "ws" -> WS | _ -> failwith "proto"

let dump_msg (m : msg) : string =
  let os =
    match m.m_opts with
    | [] -> "-"
    | l -> String.concat "," (List.map (fun (n, v) ->
             Printf.sprintf "%d:%s" (int_of_z n) (hex_of_bytes v)) l) in
  Printf.sprintf "t=%d c=%d m=%d k=%s o=%s p=%s" (int_of_z m.m_type) (int_of_z m.m_code)
    (int_of_z m.m_mid) (hex_of_bytes m.m_token) os (hex_of_bytes m.m_payload)

let dump_parse (r : msg option) : string =
  match r with None -> "REJECT" | Some m -> dump_msg m


let zi s = z_of_int (int_of_string s)

(* registry of line handlers: command word -> (argument words -> result line) *)
let handlers : (string, string list -> string) Hashtbl.t = Hashtbl.create 64
let register (name : string) (f : string list -> string) = Hashtbl.replace handlers name f

(* C09 handlers: block option codec, block size selection, slicing, received ranges *)
open Model
open Util

let zs z = string_of_int (int_of_z z)

(* blkopt <num> <m> <szx> *)
let blkopt toks =
  match toks with
  | [n; m; s] ->
      let v = blk_opt_value (zi n) (zi m) (zi s) in
      let dec =
        match blk_get_block v with
        | Some ((n', m'), s') ->
            Printf.sprintf "r=1 n=%s m=%s s=%s c=%s" (zs n') (zs m') (zs s') (zs (blk_chunk s'))
        | None -> "r=0" in
      Printf.sprintf "w=1 v=%s %s N=%s" (hex_of_bytes v) dec (zs (blk_opt_num v))
  | _ -> failwith "blkopt args"

(* blkdec <hex> *)
let blkdec toks =
  match toks with
  | [b] ->
      let v = bytes_of_tok b in
      let dec =
        match blk_get_block v with
        | Some ((n', m'), s') -> Printf.sprintf "r=1 n=%s m=%s s=%s" (zs n') (zs m') (zs s')
        | None -> "r=0" in
      Printf.sprintf "%s N=%s M=%s S=%s" dec (zs (blk_opt_num v)) (zs (blk_opt_more v))
        (zs (blk_opt_szx v))
  | _ -> failwith "blkdec args"

(* blksetup <num> <szx> <avail> <total> *)
let blksetup toks =
  match toks with
  | [n; s; a; t] ->
      (match blk_setup (zi n) (zi s) (zi a) (zi t) with
       | Some ((n', s'), m') -> Printf.sprintf "r=1 n=%s s=%s m=%s" (zs n') (zs s') (zs m')
       | None -> "r=0")
  | _ -> failwith "blksetup args"

let blkfls toks =
  match toks with
  | [a] -> zs (blk_szx_for_avail (zi a))
  | _ -> failwith "blkfls args"

(* blkslice <body> <szx> <k> *)
let blkslice toks =
  match toks with
  | [b; s; k] ->
      let body = bytes_of_tok b in
      let sl = blk_slice body (zi s) (zi k) in
      let ok = if sl = [] then "00" else "11" in
      let h = hex_of_bytes sl in
      Printf.sprintf "r=%s %s %s m=%d" ok h h (if blk_more body (zi s) (zi k) then 1 else 0)
  | _ -> failwith "blkslice args"

let show_ranges r =
  "[" ^ String.concat "," (List.map (fun (b, e) -> zs b ^ "-" ^ zs e) r) ^ "]"

(* blkrb <n1> <n2> ... *)
let blkrb toks =
  let buf = Buffer.create 256 in
  let r = ref [] and mx = ref 0 in
  List.iter (fun t ->
      let n = int_of_string t in
      if n > !mx then mx := n;
      let zn = z_of_int n in
      let c = blk_check_received !r zn and x = blk_check_next !r zn in
      let u = match blk_update !r zn with Some r' -> r := r'; true | None -> false in
      let b v = if v then "1" else "0" in
      Buffer.add_string buf (Printf.sprintf "%d:%s%s%s%s " n (b c) (b x) (b u) (show_ranges !r)))
    toks;
  Buffer.add_string buf "A=";
  for t = 0 to !mx + 3 do
    Buffer.add_string buf (if blk_check_all_in !r (z_of_int t) then "1" else "0")
  done;
  Buffer.contents buf

let () =
  register "blkopt" blkopt; register "blkdec" blkdec; register "blksetup" blksetup;
  register "blkfls" blkfls; register "blkslice" blkslice; register "blkrb" blkrb

(* C09 handlers: block option codec, block size selection, slicing, received ranges *)
open Model
open Util

let zs z = string_of_int (int_of_z z)

(* blkopt <num> <m> <szx> *)
let blkopt toks =
  match toks with
  | [n; m; s] ->
      let v = blk_opt_value (zi n) (zi m) (zi s) in
      let dec =
        match blk_get_block v with
        | Some ((n', m'), s') ->
            Printf.sprintf "r=1 n=%s m=%s s=%s c=%s" (zs n') (zs m') (zs s') (zs (blk_chunk s'))
        | None -> "r=0" in
      Printf.sprintf "w=1 v=%s %s N=%s" (hex_of_bytes v) dec (zs (blk_opt_num v))
  | _ -> failwith "blkopt args"

(* blkdec <hex> *)
let blkdec toks =
  match toks with
  | [b] ->
      let v = bytes_of_tok b in
      let dec =
        match blk_get_block v with
        | Some ((n', m'), s') -> Printf.sprintf "r=1 n=%s m=%s s=%s" (zs n') (zs m') (zs s')
        | None -> "r=0" in
      Printf.sprintf "%s N=%s M=%s S=%s" dec (zs (blk_opt_num v)) (zs (blk_opt_more v))
        (zs (blk_opt_szx v))
  | _ -> failwith "blkdec args"

(* blksetup <num> <szx> <avail> <total> *)
let blksetup toks =
  match toks with
  | [n; s; a; t] ->
      (match blk_setup (zi n) (zi s) (zi a) (zi t) with
       | Some ((n', s'), m') -> Printf.sprintf "r=1 n=%s s=%s m=%s" (zs n') (zs s') (zs m')
       | None -> "r=0")
  | _ -> failwith "blksetup args"

let blkfls toks =
  match toks with
  | [a] -> zs (blk_szx_for_avail (zi a))
  | _ -> failwith "blkfls args"

(* blkslice <body> <szx> <k> *)
let blkslice toks =
  match toks with
  | [b; s; k] ->
      let body = bytes_of_tok b in
      let sl = blk_slice body (zi s) (zi k) in
      let ok = if sl = [] then "00" else "11" in
      let h = hex_of_bytes sl in
      Printf.sprintf "r=%s %s %s m=%d" ok h h (if blk_more body (zi s) (zi k) then 1 else 0)
  | _ -> failwith "blkslice args"

let show_ranges r =
  "[" ^ String.concat "," (List.map (fun (b, e) -> zs b ^ "-" ^ zs e) r) ^ "]"

(* blkrb <n1> <n2> ... *)
let blkrb toks =
  let buf = Buffer.create 256 in
  let r = ref [] and mx = ref 0 in
  List.iter (fun t ->
      let n = int_of_string t in
      if n > !mx then mx := n;
      let zn = z_of_int n in
      let c = blk_check_received !r zn and x = blk_check_next !r zn in
      let u = match blk_update !r zn with Some r' -> r := r'; true | None -> false in
      let b v = if v then "1" else "0" in
      Buffer.add_string buf (Printf.sprintf "%d:%s%s%s%s " n (b c) (b x) (b u) (show_ranges !r)))
    toks;
  Buffer.add_string buf "A=";
  for t = 0 to min (!mx + 3) 40 do
    Buffer.add_string buf (if blk_check_all_in !r (z_of_int t) then "1" else "0")
  done;
  if !mx + 3 > 40 then
    for t = !mx - 1 to !mx + 3 do
      Buffer.add_string buf (if blk_check_all_in !r (z_of_int t) then "1" else "0")
    done;
  Buffer.contents buf

let () =
  register "blkopt" blkopt; register "blkdec" blkdec; register "blksetup" blksetup;
  register "blkfls" blkfls; register "blkslice" blkslice; register "blkrb" blkrb

(* ---- end-to-end traces (harness/h_block_e2e.c) ---- *)
let fnv (l : z list) : int =
  let h = ref 0x811c9dc5 in
  List.iter (fun x -> h := ((!h lxor (int_of_z x land 0xff)) * 0x01000193) land 0xffffffff) l;
  !h

let body_of len seed = List.init len (fun i -> zbyte.(fill_byte seed i))

(* num/m/szx/size/plen/phash/etag *)
let parse_blk_e tok =
  match String.split_on_char '/' tok with
  | [n; m; s; sz; pl; ph; et] ->
      ((int_of_string n, int_of_string m, int_of_string s,
        (if sz = "-" then None else Some (int_of_string sz)), int_of_string pl,
        int_of_string ("0x" ^ ph)),
       (if et = "-" then None else Some (z_of_int (int_of_string et land 0x3fffffffffffffff))))
  | _ -> failwith ("bad block token " ^ tok)
let parse_blk tok = fst (parse_blk_e tok)

(* is the observed block message the slice the model cuts?  (Slices.v vs the sender code) *)
let consistent body blen (n, m, s, sz, pl, ph) =
  let a = blk_arr_of body (z_of_int s) None (z_of_int n) in
  let d = a.ba_data in
  List.length d = pl && fnv d = ph && int_of_z a.ba_m = m && pl > 0
  && (match sz with None -> true | Some x -> x = blen)

(* blkwire <len> <seed> <blk>... : one letter per datagram, k = consistent, X = not *)
let blkwire toks =
  match toks with
  | len :: seed :: blks ->
      let blen = int_of_string len in
      let body = body_of blen (int_of_string seed) in
      String.concat "" (List.map (fun t -> if consistent body blen (parse_blk t) then "k" else "X") blks)
  | _ -> failwith "blkwire args"

let out_letter o =
  match o with
  | BoContinue -> "C" | BoReject -> "J" | BoFail -> "F" | BoDeliver _ -> "D" | BoPass -> "P"

(* blkrecv <b1|b2> <len> <seed> <maxszx> { R | <blk> }... : the receiver model (blk_srv_step /
   blk_cli_step) run over the blocks that reached the real receiver; R = the receiver dropped
   its state (timeout / restart).  Output: one letter per block; a delivered body that is not
   the submitted one is flagged '!'. *)
let blkrecv toks =
  match toks with
  | dir :: len :: seed :: mx :: evs ->
      let blen = int_of_string len in
      let body = body_of blen (int_of_string seed) in
      let junk _ = z_of_int (-1) in
      (* b1: the reassembly core of the server; b2: the client's ETag check around its core *)
      let st = ref None and cst = ref { cr_etag = None; cr_st = None; cr_restart = false } in
      let step a etag =
        if dir = "b1" then begin
          let (st', o) = blk_srv_step junk (zi mx) !st a in st := st'; o
        end else begin
          let ((c', o), _) = blk_cli_recv junk !cst { rs_etag = etag; rs_arr = a } in cst := c'; o
        end in
      let buf = Buffer.create 64 in
      List.iter (fun t ->
          if t = "R" then begin st := None; cst := { cr_etag = None; cr_st = None; cr_restart = false } end
          else begin
            let ((n, m, s, sz, pl, ph), etag) = parse_blk_e t in
            if not (consistent body blen (n, m, s, sz, pl, ph)) then Buffer.add_string buf "X"
            else begin
              let size = match sz with None -> None | Some x -> Some (z_of_int x) in
              let a = blk_arr_of body (z_of_int s) size (z_of_int n) in
              let o = step a etag in
              (match o with
               | BoDeliver d when d <> body -> Buffer.add_string buf "!"
               | _ -> Buffer.add_string buf (out_letter o))
            end
          end) evs;
      Buffer.contents buf
  | _ -> failwith "blkrecv args"

let () = register "blkwire" blkwire; register "blkrecv" blkrecv

(* ---- scripted peer (harness/h_block_e2e.c, command "peer") ----
   blkpeer <b1|b2> <len> <seed> <maxszx> <item>...  item = num/m/szx/size/off/len/tag
   b1: the lg_srcv table model (blk_srv_recv, Request-Tags); b2: blk_cli_recv (ETags) *)
let sub l off len =
  let rec drop n l = if n <= 0 then l else match l with [] -> [] | _ :: t -> drop (n - 1) t in
  let rec take n l = if n <= 0 then [] else match l with [] -> [] | x :: t -> x :: take (n - 1) t in
  take len (drop off l)

let blkpeer toks =
  match toks with
  | dir :: len :: seed :: mx :: items ->
      let blen = int_of_string len in
      let bodies = Hashtbl.create 8 in
      let body_t t =
        match Hashtbl.find_opt bodies t with
        | Some b -> b
        | None -> let b = body_of blen (int_of_string seed + t) in Hashtbl.add bodies t b; b in
      let junk _ = z_of_int (-1) in
      let tab = ref [] and cst = ref { cr_etag = None; cr_st = None; cr_restart = false } in
      let show t o =
        match o with
        | BoDeliver d ->
            if List.exists (fun x -> int_of_z x < 0) d then "D?"
            else Printf.sprintf "D:%d:%08x:%s" (List.length d) (fnv d) (if d = body_t t then "=" else "!")
        | BoPass -> "P"
        | o -> out_letter o in
      let res = List.map (fun it ->
          let fields = String.split_on_char '/' it in
          let (fields, bidx) =
            match fields with
            | [a; b; c; d; e; f; g; h] -> ([a; b; c; d; e; f; g], Some (int_of_string h))
            | l -> (l, None) in
          match fields with
          | [n; m; s; sz; off; ln; tag] ->
              let off = max 0 (min blen (int_of_string off)) in
              let ln = max 0 (min (blen - off) (int_of_string ln)) in
              (* tag = "-" | "<n>" | "<n>u" : Request-Tag / ETag; suffix u = the second resource *)
              let res_u = String.length tag > 0 && tag.[String.length tag - 1] = 'u' in
              let tag = if res_u then String.sub tag 0 (String.length tag - 1) else tag in
              let tag = if tag = "" then "-" else tag in
              let ti = (if tag = "-" then 0 else int_of_string tag) + (if res_u then 50 else 0) in
              let ti = match bidx with Some b -> b | None -> ti in
              let a = { ba_num = zi n; ba_m = zi m; ba_szx = zi s;
                        ba_size = (if sz = "-" then None else Some (zi sz));
                        ba_data = sub (body_t ti) off ln } in
              let tg = if tag = "-" then None else Some (zi tag) in
              if dir = "b1" then begin
                let (t', o) = blk_srv_recv junk (zi mx) !tab { rq_res = z_of_int (if res_u then 2 else 1); rq_rtag = tg; rq_arr = a } in
                tab := t';
                (match o with
                 | BoPass -> Printf.sprintf "P:%d:%08x" ln (fnv a.ba_data)
                 | o -> show ti o)
              end else begin
                let ((c', o), _) = blk_cli_recv junk !cst { rs_etag = tg; rs_arr = a } in
                cst := c';
                (match o with
                 | BoPass -> Printf.sprintf "P:%d:%08x" ln (fnv a.ba_data)
                 | o -> show ti o)
              end
          | _ -> "BADITEM") items in
      String.concat " " res ^ " END"
  | _ -> failwith "blkpeer args"

let () = register "blkpeer" blkpeer

(* blktimed <wait> <t0> { P<t> | C<t> }... : the client-side expiry timer; prints the time of
   the check that deletes the state, or "alive" *)
let blktimed toks =
  match toks with
  | wait :: t0 :: evs ->
      let w = zi wait in
      let rec go alive last l =
        match l with
        | [] -> "alive"
        | e :: tl ->
            let t = String.sub e 1 (String.length e - 1) in
            let ev = if e.[0] = 'P' then TvProgress (zi t) else TvCheck (zi t) in
            let (alive', last') = blk_timed_run w alive last [ev] in
            if alive && not alive' then "expired@" ^ t else go alive' last' tl in
      go true (zi t0) evs
  | _ -> failwith "blktimed args"

let () = register "blktimed" blktimed

(* blkpeerg2 <len> <seed> <maxszx> <item>... item = num/szx/q : the Block2 server table model *)
let blkpeerg2 toks =
  match toks with
  | len :: seed :: mx :: items ->
      let blen = int_of_string len in
      let cache = Hashtbl.create 8 in
      let body_t t =
        match Hashtbl.find_opt cache t with
        | Some b -> b
        | None -> let b = List.init blen (fun i -> zbyte.(fill_byte (int_of_string seed + t) i)) in
                  Hashtbl.add cache t b; b in
      let bodies k = body_t (int_of_z k) in
      let tab = ref [] in
      let res = List.map (fun it ->
          match String.split_on_char '/' it with
          | [n; s; q] ->
              let t = if q = "-" then 0 else int_of_string q in
              let g = { gq_key = z_of_int t; gq_num = zi n; gq_szx = zi s } in
              let (t', r) = blk_srv2_recv bodies (zi mx) !tab g in
              tab := t';
              (match r with
               | GrError c -> Printf.sprintf "R:%d:-:0:-" (int_of_z c)
               | GrBlock (num, m, szx, data) ->
                   let off = int_of_z num lsl (int_of_z szx + 4) in
                   let ln = List.length data in
                   let eq = off + ln <= blen && sub (body_t t) off ln = data in
                   Printf.sprintf "R:69:%s/%s/%s:%d:%s" (zs num) (zs m) (zs szx) ln
                     (if ln = 0 then "-" else if eq then "=" else "!"))
          | _ -> "BADITEM") items in
      String.concat " " res ^ " END"
  | _ -> failwith "blkpeerg2 args"

let () = register "blkpeerg2" blkpeerg2

(* C01 / C03 handlers *)
open Model
open Util

(* ---- C01: build ops, serialise, re-parse ----
   c01 <proto> <type> <code> <mid> <max> { T <bytes> | O <num> <bytes> | D <bytes> }* *)
let rec parse_ops toks =
  match toks with
  | [] -> []
  | "T" :: b :: tl -> OpToken (bytes_of_tok b) :: parse_ops tl
  | "O" :: n :: b :: tl -> OpOpt (z_of_int (int_of_string n), bytes_of_tok b) :: parse_ops tl
  | "D" :: b :: tl -> OpData (bytes_of_tok b) :: parse_ops tl
  | _ -> failwith "bad op"

let c01 toks =
  match toks with
  | pr :: ty :: code :: mid :: mx :: ops ->
      let zi s = z_of_int (int_of_string s) in
      let p0 = pdu_init (zi ty) (zi code) (zi mid) (zi mx) in
      let rets, p = run_ops p0 (parse_ops ops) in
      let pr = proto_of_string pr in
      let wire = serialize pr p.p_msg in
      let rs = String.concat "" (List.map (fun b -> if b then "1" else "0") rets) in
      Printf.sprintf "rets=%s built=[%s] wire=%s reparse=[%s]" (if rs = "" then "-" else rs)
        (dump_msg p.p_msg) (hex_of_bytes wire) (dump_parse (parse pr wire))
  | _ -> failwith "c01 args"

(* ---- C03: parse <proto> <bytes> ---- *)
let c03 toks =
  match toks with
  | [pr; b] -> dump_parse (parse (proto_of_string pr) (bytes_of_tok b))
  | _ -> failwith "c03 args"

(* optparse <bytes> : coap_opt_parse *)
let optparse toks =
  match toks with
  | [b] ->
      (match opt_parse (bytes_of_tok b) with
       | None -> "0"
       | Some ((d, v), rest) ->
           Printf.sprintf "%d %d %s" (List.length (bytes_of_tok b) - List.length rest)
             (int_of_z d) (hex_of_bytes v))
  | _ -> failwith "optparse args"

(* optenc <delta> <len> : coap_opt_setheader + coap_opt_encode_size *)
let optenc toks =
  match toks with
  | [d; l] ->
      let d = z_of_int (int_of_string d) and l = z_of_int (int_of_string l) in
      Printf.sprintf "%s %d" (hex_of_bytes (opt_hdr d l)) (int_of_z (opt_encode_size d l))
  | _ -> failwith "optenc args"


(* optrt <delta> <len> : coap_opt_encode into an exact-size buffer, then coap_opt_parse *)
let optrt toks =
  match toks with
  | [d; l] ->
      let li = int_of_string l in
      let v = List.init li (fun i -> zbyte.(fill_byte 1 i)) in
      let dz = zi d in
      let enc = opt_enc dz v in
      let hdr = opt_hdr dz (z_of_int li) in
      (match opt_parse enc with
       | None -> Printf.sprintf "%s %d 0" (hex_of_bytes hdr) (List.length enc)
       | Some ((d', v'), rest) ->
           Printf.sprintf "%s %d %d %d %s" (hex_of_bytes hdr) (List.length enc)
             (List.length enc - List.length rest) (int_of_z d') (hex_of_bytes v'))
  | _ -> failwith "optrt args"

(* psize <proto> <bytes> : coap_pdu_parse_size *)
let psize toks =
  match toks with
  | [pr; b] ->
      let bs = bytes_of_tok b in
      let p = proto_of_string pr in
      (match bs with
       | [] -> "short"
       | b0 :: _ ->
           if int_of_z (header_size p b0) > List.length bs then "short"
           else string_of_int (int_of_z (fr_parse_size p bs)))
  | _ -> failwith "psize args"

(* bins <udp datagram> <number> <value> : the byte-level coap_insert_option (InsertBytes.bi_insert)
   on the option+payload area of a datagram the parser accepts *)
let bins toks =
  match toks with
  | [b; n; v] ->
      let bs = bytes_of_tok b in
      let num = zi n in
      let vb = bytes_of_tok v in
      (match parse UDP bs with
       | None -> "REJECT"
       | Some m ->
           if int_of_z num >= int_of_z (last_num m.m_opts) then "append"
           else
             let b0 = List.hd bs in
             let area = drop (z_of_int 4) bs in
             (match parse_token (z_of_int ((int_of_z b0) land 15)) area with
              | None -> "REJECT"
              | Some (_, rest) ->
                  (match bi_insert rest num vb with
                   | None -> "r=0 area=" ^ hex_of_bytes rest
                   | Some a ->
                       Printf.sprintf "r=%d area=%s" (List.length a - List.length rest + 0) (hex_of_bytes a))))
  | _ -> failwith "bins args"

let () =
  register "bins" bins;
  register "psize" psize;
  register "optrt" optrt;
  register "c01" c01; register "c03" c03; register "optparse" optparse; register "optenc" optenc

(* Allocation-trace oracle (coq/Mem/AllocTrace.v), used by C12 and C18.
   attrace <tok>*   tokens as printed by harness/common/valloc.h va_dump():
                    a:<id>:<type>:<size> | r:<old>:<new>:<size> | f:<id> | "-" (empty trace)
   result: clean | doublefree <id> | unalloc <id> | badlog <id> | leak <id>,<id>,... *)
open Model
open Util

let at_event_of_tok (s : string) : at_ev option =
  match String.split_on_char ':' s with
  | ["a"; id; ty; sz] -> Some (AtAlloc (zi id, zi ty, zi sz))
  | ["r"; o; n; sz] -> Some (AtRealloc (zi o, zi n, zi sz))
  | ["f"; id] -> Some (AtFree (zi id))
  | ["-"] -> None
  | _ -> failwith ("bad trace token " ^ s)

let at_trace_of_toks toks = List.filter_map at_event_of_tok toks

let at_show (r : at_result) : string =
  match r with
  | AtClean -> "clean"
  | AtDoubleFree i -> Printf.sprintf "doublefree %d" (int_of_z i)
  | AtFreeUnalloc i -> Printf.sprintf "unalloc %d" (int_of_z i)
  | AtBadLog i -> Printf.sprintf "badlog %d" (int_of_z i)
  | AtLeak l -> "leak " ^ String.concat "," (List.map (fun i -> string_of_int (int_of_z i)) l)

let () =
  register "attrace" (fun toks -> at_show (at_verdict (at_trace_of_toks toks)));
  register "atbalanced" (fun toks -> if at_balanced (at_trace_of_toks toks) then "1" else "0")

(* C10 handlers: the extracted dispatch model on the case lines of harness/h_dispatch.c
   c10  <mpr> <kopts> <res> <unk> <prx> <hact> <loc> <dgram>   -> events of dp_serve
   c10a <same>                                                  -> all outputs of dp_allowed_outs,
                                                                  separated by " || "
   c10nr <noresp|-> <mc> <mpr> <rflags|-> <req_ty> <rtype> <code> <has_data>  -> fate code/spec *)
open Model
open Util

(* the escape tables of coap_get_uri_path / coap_get_query, set by "c10esc" from what the
   library does on this run; default: the tables of the source as read into the model *)
let esc_path : (z -> bool) ref = ref dp_unescaped_path
let esc_query : (z -> bool) ref = ref dp_unescaped_query

let table_of_hex (h : string) : z -> bool =
  let b = Array.init 256 (fun i ->
      let byte = hexval h.[2 * (i / 8)] * 16 + hexval h.[2 * (i / 8) + 1] in
      (byte lsr (i mod 8)) land 1 = 1) in
  fun c -> let i = int_of_z c in i >= 0 && i < 256 && b.(i)

let hex_of_table (f : z -> bool) : string =
  String.concat "" (List.init 32 (fun j ->
      let v = ref 0 in
      for k = 0 to 7 do if f (z_of_int (8 * j + k)) then v := !v lor (1 lsl k) done;
      Printf.sprintf "%02x" !v))

let c10esc toks =
  match toks with
  | [p; q] -> esc_path := table_of_hex p; esc_query := table_of_hex q; "ok"
  | [] -> hex_of_table dp_unescaped_path ^ " " ^ hex_of_table dp_unescaped_query
  | _ -> failwith "c10esc args"

let split_on c s = if s = "-" || s = "" then [] else String.split_on_char c s

let parse_cfg mpr kopts res unk prx =
  let known = List.map zi (split_on ',' kopts) in
  let rs = List.map (fun it ->
      match String.split_on_char '/' it with
      | [p; m; f] -> { r_path = bytes_of_tok p; r_mask = zi m; r_flags = z_of_int ((int_of_string f) land (lnot 1)); r_obs = false }
      | [p; m; f; o] -> { r_path = bytes_of_tok p; r_mask = zi m; r_flags = z_of_int ((int_of_string f) land (lnot 1)); r_obs = (o <> "0") }
      | _ -> failwith "bad res") (split_on ',' res) in
  let u = if unk = "-" then None else
      (match String.split_on_char '/' unk with
       | [m; f] -> Some (zi m, z_of_int ((int_of_string f) land (lnot 1)))
       | _ -> failwith "bad unk") in
  let p = if prx = "-" then None else
      (match String.split_on_char '/' prx with
       | [m; f; hs] -> Some ((zi m, z_of_int ((int_of_string f) land (lnot 1))), List.map bytes_of_tok (String.split_on_char '+' hs))
       | _ -> failwith "bad prx") in
  { c_mpr = (mpr <> "0"); c_known = known; c_res = rs; c_unk = u; c_prx = p;
    c_wk = (fun _ -> [zbyte.(87); zbyte.(75)]);
    c_unesc_path = !esc_path; c_unesc_query = !esc_query; c_async = [] }

let hact_async s =
  match String.split_on_char '/' s with [_; _; _; a] -> a <> "" && a.[0] = 'A' | _ -> false

let parse_hact s =
  match String.split_on_char '/' s with
  | [_; _; _; a] when a <> "" && a.[0] = 'A' -> { hr_code = Z0; hr_opts = []; hr_payload = [] }
  | [c; o; p] | [c; o; p; _] ->
      let opts = List.map (fun it ->
          match String.split_on_char '=' it with
          | [n; v] -> (zi n, bytes_of_tok v)
          | _ -> failwith "bad hopt") (split_on '+' o) in
      { hr_code = zi c; hr_opts = opts; hr_payload = bytes_of_tok p }
  | _ -> failwith "bad hact"

let show_opts l =
  match l with
  | [] -> "-"
  | _ -> String.concat "," (List.map (fun (n, v) -> Printf.sprintf "%d:%s" (int_of_z n) (hex_of_bytes v)) l)

let ascii s = List.init (String.length s) (fun i -> zbyte.(Char.code s.[i]))

let show_rid r =
  match r with
  | RRes p -> hex_of_bytes p
  | RUnknown -> hex_of_bytes (ascii "- Unknown -")
  | RProxy -> hex_of_bytes (ascii "- Proxy URI -")

let show_payload diag p =
  if diag then "*" else
    match p with
    | [a; b] when int_of_z a = 87 && int_of_z b = 75 -> "WK"
    | _ -> hex_of_bytes p

let cur_cfg : dp_cfg ref = ref { c_mpr = false; c_known = []; c_res = []; c_unk = None; c_prx = None;
                                c_wk = (fun _ -> []); c_unesc_path = dp_unescaped_path;
                                c_unesc_query = dp_unescaped_query; c_async = [] }

let show_ev e =
  match e with
  | EvH i ->
      let m = i.hq_msg in
      Printf.sprintf "H[r=%s s=%d c=%d k=%s q=%s u=%s o=%s p=%s]" (show_rid i.hq_rid)
        (int_of_z i.hq_slot) (int_of_z m.m_code) (hex_of_bytes m.m_token) (hex_of_bytes i.hq_query)
        (hex_of_bytes (dp_uri_path !cur_cfg m.m_opts)) (show_opts m.m_opts) (hex_of_bytes m.m_payload)
  | EvTx (diag, m) ->
      Printf.sprintf "TX[t=%d c=%d m=%d k=%s o=%s p=%s]" (int_of_z m.m_type) (int_of_z m.m_code)
        (int_of_z m.m_mid) (hex_of_bytes m.m_token) (show_opts m.m_opts) (show_payload diag m.m_payload)
  | EvSkip -> "SKIP"

let show_out l = match l with [] -> "-" | _ -> String.concat " " (List.map show_ev l)

(* several datagrams from the same peer ("hex+hex"): the session state carried from one to the
   next is the set of tokens with a pending async entry (handler action /A) *)
let with_case toks k =
  match toks with
  | [mpr; kopts; res; unk; prx; hact; loc; dg] ->
      let cfg0 = parse_cfg mpr kopts res unk prx in
      let hr = parse_hact hact in
      let mc = (loc = "m") in
      let asy = hact_async hact in
      let rec steps cfg parts =
        match parts with
        | [] -> []
        | part :: tl ->
            (match parse UDP (bytes_of_tok part) with
             | None -> "MALFORMED" :: steps cfg tl
             | Some req ->
                 cur_cfg := cfg;
                 let shown = k cfg (fun _ -> hr) mc req in
                 let ran = List.exists (fun e -> match e with EvH _ -> true | _ -> false)
                     (dp_serve cfg (fun _ -> hr) mc req) in
                 let cfg' = if asy && ran && not (List.mem req.m_token cfg.c_async)
                   then { cfg with c_async = req.m_token :: cfg.c_async } else cfg in
                 shown :: steps cfg' tl) in
      String.concat " | " (steps cfg0 (String.split_on_char '+' dg))
  | _ -> failwith "c10 args"

let c10 toks = with_case toks (fun cfg h mc req -> show_out (dp_serve cfg h mc req))

let c10a toks = with_case toks (fun cfg h mc req ->
    String.concat " || " (List.map show_out (dp_allowed_outs cfg h mc req)))

let () =
  register "c10a" c10a;
  register "c10esc" c10esc;
  register "c10" c10

(* C15 handlers: OSCORE recipient replay window and sender sequence number.
   Case formats and result formats: see harness/h_replay.c (the C driver prints the same).
   64-bit values travel as hex tokens (OCaml ints are 63 bits). *)
open Model
open Util

let z_of_hex (s : string) : z =
  let r = ref Z0 in
  String.iter (fun c ->
      let v = hexval c in
      for k = 3 downto 0 do
        let bit = (v lsr k) land 1 = 1 in
        r := (match !r with
              | Z0 -> if bit then Zpos XH else Z0
              | Zpos p -> Zpos (if bit then XI p else XO p)
              | Zneg _ -> failwith "neg")
      done) s;
  !r

let hex_of_pos (p : positive) : string =
  (* bits, least significant first *)
  let rec bits p acc = match p with
    | XH -> List.rev (1 :: acc)
    | XO q -> bits q (0 :: acc)
    | XI q -> bits q (1 :: acc) in
  let bl = Array.of_list (bits p []) in
  let n = Array.length bl in
  let nd = (n + 3) / 4 in
  let b = Buffer.create 16 in
  for d = nd - 1 downto 0 do
    let v = ref 0 in
    for k = 3 downto 0 do
      let i = d * 4 + k in
      v := (!v lsl 1) lor (if i < n then bl.(i) else 0)
    done;
    Buffer.add_char b "0123456789abcdef".[!v]
  done;
  Buffer.contents b

let hex_of_z (x : z) : string =
  match x with Z0 -> "0" | Zpos p -> hex_of_pos p | Zneg p -> "-" ^ hex_of_pos p

let rp_variant_of (s : string) : rp_variant =
  match s with
  | "fixed" -> rp_fixed
  | "orig" -> rp_orig
  | _ ->
      (* eight letters y/n: bitidx shguard nooverwrite rbflag arm resp_rb resp_nowrite abort_rb *)
      if String.length s = 8 then
        let b i = s.[i] = 'y' in
        { rp_v_bitidx = b 0; rp_v_shguard = b 1; rp_v_nooverwrite = b 2; rp_v_rbflag = b 3;
          rp_v_arm = b 4; rp_v_resp_rb = b 5; rp_v_resp_nowrite = b 6; rp_v_abort_rb = b 7 }
      else failwith "variant"

let b01 b = if b then "1" else "0"

(* replay_window of the configuration text ("-": line absent -> the parser's default) *)
let window_of (wcfg : string) : z =
  if wcfg = "-" then rp_default_window else rp_cfg_window (zi wcfg)

let rpc _ =
  Printf.sprintf "seqmax=%s defwin=%d" (hex_of_z rp_seq_max) (int_of_z rp_default_window)

let rpu toks =
  match toks with
  | var :: wcfg :: ops ->
      let v = rp_variant_of var in
      let w = window_of wcfg in
      let s = ref rp_init in
      let outs = List.map (fun op ->
          let ret =
            if op.[0] = 'v' then begin
              let seq = z_of_hex (String.sub op 1 (String.length op - 1)) in
              let ok, s1 = rp_validate v w !s seq in
              s := s1; b01 ok
            end else begin
              s := rp_rollback v !s; "-"
            end in
          Printf.sprintf "%s,%s,%s,%s,%s,%s" ret (hex_of_z !s.rp_last) (hex_of_z !s.rp_win)
            (hex_of_z !s.rp_rb_last) (hex_of_z !s.rp_rb_win) (b01 !s.rp_initial)) ops in
      if outs = [] then "-" else String.concat " " outs
  | _ -> failwith "rpu args"

let rp_msg_of (tok : string) : rp_msg =
  (* "<kind><hexseq>[.<len>]" *)
  let body = String.sub tok 1 (String.length tok - 1) in
  let hex, suffix =
    match String.index_opt body '.' with
    | Some i -> String.sub body 0 i, String.sub body (i + 1) (String.length body - i - 1)
    | None -> body, "" in
  let seq = z_of_hex hex in
  let mk a e k = { rp_m_seq = seq; rp_m_auth = a; rp_m_echo = e; rp_m_kind = k } in
  match tok.[0] with
  | 'g' -> mk RpGenuine RpEchoNone RpRequest
  | 'e' -> mk RpGenuine RpEchoOk RpRequest
  | 'x' -> mk RpGenuine RpEchoBad RpRequest
  | 'f' | 'F' | 'P' -> mk RpForged RpEchoNone RpRequest
  | 'K' | 'O' | 'M' -> mk RpUnroutable RpEchoNone RpRequest
  (* ciphertext cut to <len> bytes: still a message that fails authentication; without any
     payload it is dropped before a security context is looked up *)
  | 'S' -> mk (if suffix = "0" then RpUnroutable else RpForged) RpEchoNone RpRequest
  (* not authentic, and its processing is stopped somewhere by an allocation failure: wherever
     that is, it has to be as if the message had never arrived (verdict printed as "*") *)
  | 'A' -> mk RpAbort RpEchoNone RpRequest
  (* responses with a Partial IV of their own: q = answer to an Observe registration,
     N = notification, T = tampered notification, R = made-up response, Z = unknown token *)
  | 'q' | 'N' -> mk RpGenuine RpEchoNone RpResponse
  | 'T' | 'R' -> mk RpForged RpEchoNone RpResponse
  (* Z: unknown token.  W: made-up response without a Partial IV - it is decrypted with the
     request's nonce and never gets near the replay window: the same (no) effect *)
  | 'Z' | 'W' -> mk RpUnroutable RpEchoNone RpResponse
  | _ -> failwith "msg kind"

let verdict_letter (r : rp_verdict) : string =
  match r with
  | RpAccept -> "A" | RpRejReplay -> "R" | RpRejDecrypt -> "D" | RpRejChallenge -> "C"
  | RpRejEchoBad -> "E" | RpRejUnroutable -> "N" | RpAcceptUnchecked -> "U" | RpRejAbort -> "*"

let rpd toks =
  match toks with
  | var :: wcfg :: b12 :: _con :: msgs ->
      let v = rp_variant_of var in
      let w = window_of wcfg in
      let b12 = b12 <> "0" in
      (* the recipient chain (Recipients.rl_step): the configuration adds ids 02 and 03; a
         leading '2' addresses 03; +<id> / -<id> are management calls *)
      let id2 = z_of_int 2 and id3 = z_of_int 3 in
      let chain = ref [] in
      let step o = let r, c1 = rl_step v w b12 !chain o in chain := c1; r in
      ignore (step (RlAdd id2)); ignore (step (RlAdd id3));
      let own = ref 0 in      (* the server's sender sequence number: one for all contexts *)
      let st id =
        match rl_find !chain id with
        | Some x -> Printf.sprintf "%s,%s,%s" (hex_of_z x.rp_last) (hex_of_z x.rp_win) (b01 x.rp_initial)
        | None -> "-,-,-" in
      let outs = List.map (fun tok ->
          if tok.[0] = '+' || tok.[0] = '-' then begin
            let id = z_of_hex (String.sub tok 1 (String.length tok - 1)) in
            let r = step (if tok.[0] = '+' then RlAdd id else RlDel id) in
            let ret = match r with RlRet true -> "1" | RlRet false -> "0" | RlVerdict _ -> "?" in
            Printf.sprintf "%s,%s/%s" ret (st id2) (st id3)
          end else begin
          let second = tok.[0] = '2' in
          let tok' = if second then String.sub tok 1 (String.length tok - 1) else tok in
          let r = match step (RlDeliver ((if second then id3 else id2), rp_msg_of tok')) with
            | RlVerdict r -> r | RlRet _ -> failwith "deliver" in
          let letter = if tok'.[0] = 'A' then (if r = RpAccept then "A" else "*") else verdict_letter r in
          (* which nonce protects the reply (Replay.rp_reply_own_piv, the code's choice) *)
          let tag =
            if tok'.[0] = 'A' then ""
            else match rp_reply_own_piv true r with
              | Some true -> let t = Printf.sprintf "~o%x" !own in incr own; t
              | Some false -> "~r"
              | None -> "" in
          Printf.sprintf "%s,%s/%s%s" letter (st id2) (st id3) tag end) msgs in
      if outs = [] then "-" else String.concat " " outs
  | _ -> failwith "rpd args"

(* the specification alone (RFC 8613 7.4 window over the accepted set): verdict letters *)
let rps toks =
  match toks with
  | wcfg :: b12 :: msgs ->
      let w = window_of wcfg in
      let b12 = b12 <> "0" in
      let a = ref rp_abs_init and a2 = ref rp_abs_init in
      let outs = List.map (fun tok ->
          let second = tok.[0] = '2' in
          let tok' = if second then String.sub tok 1 (String.length tok - 1) else tok in
          let cur = if second then a2 else a in
          let r, a1 = rp_abs_recv w b12 !cur (rp_msg_of tok') in
          cur := a1; verdict_letter r) msgs in
      if outs = [] then "-" else String.concat " " outs
  | _ -> failwith "rps args"

(* endpoint that is client and server towards the same peer: requests and responses against
   one recipient context; for a response only "handler ran" (A) / "did not" (X) is observable *)
let rpx toks =
  match toks with
  | var :: wcfg :: b12 :: ops ->
      let v = rp_variant_of var in
      let w = window_of wcfg in
      let b12 = b12 <> "0" in
      let s = ref rp_init in
      let own = ref 0 in
      let outs = List.map (fun tok ->
          let m = rp_msg_of tok in
          let r, s1 = rp_recv v w b12 !s m in
          s := s1;
          let letter =
            match m.rp_m_kind with
            | RpRequest -> verdict_letter r
            | RpResponse -> (match r with RpAccept | RpAcceptUnchecked -> "A" | _ -> "X") in
          let tag =
            if tok.[0] = 'q' then begin
              (* the endpoint's own request: protected under the next Partial IV of the same
                 sender sequence number the challenges use *)
              let t = Printf.sprintf "~o%x" !own in incr own; t
            end else
            match m.rp_m_kind, rp_reply_own_piv true r with
            | RpRequest, Some true -> let t = Printf.sprintf "~o%x" !own in incr own; t
            | RpRequest, Some false -> "~r"
            | _, _ -> "" in
          Printf.sprintf "%s,%s,%s,%s%s" letter (hex_of_z s1.rp_last) (hex_of_z s1.rp_win)
            (b01 s1.rp_initial) tag) ops in
      if outs = [] then "-" else String.concat " " outs
  | _ -> failwith "rpx args"

let sst toks =
  match toks with
  | freq :: start :: ops ->
      let y = ref (ss_boot (zi freq) (z_of_hex start)) in
      let o2s o = match o with None -> "-" | Some x -> hex_of_z x in
      let outs = List.map (fun op ->
          let o =
            if op.[0] = 'p' then SsProtect
            else SsCrash (zi (String.sub op 1 (String.length op - 1))) in
          let (piv, sv), y1 = ss_step !y o in
          y := y1;
          Printf.sprintf "%s/%s" (o2s piv) (o2s sv)) ops in
      if outs = [] then "-" else String.concat " " outs
  | _ -> failwith "sst args"

let () =
  register "rpc" rpc;
  register "rpu" rpu;
  register "rpd" rpd;
  register "rps" rps;
  register "rpx" rpx;
  register "sst" sst

(* C12: session table model (coq/Sessions/Sessions.v).
   se <timeout_s> <max_idle> <tok>*
     x:<key>:<now>  xv:<key>:<now>:<victim>  a:<key>:<now> (accept)  +:<sid>:<h>  -:<sid>:<h>  q:<sid>:<0|1>  t:<sid>:<now>  s:<sid>:<state>
     p:<now>  F (coap_free_context)  B (print the table)
   output: the events each operation appends to the log (R:<key>:<sid> N:<sid>:<key> D:<sid>
   F:<sid>), B[<sid>:<key>:<ref>:<last>:<dq>;...] at every B, "!<tok>" and stop when an
   operation violates its precondition; then " | logok=<b> closed=<b> leaked=<sids> holders=<b>"
   selog <tok>*   tokens N:<sid>:<key> D:<sid> F:<sid> R:<key>:<sid>  -> "<ok> <closed>"
                  (the extracted event-log monitor se_log_ok / se_log_closed) *)
open Model
open Util

let se_op_of_tok (s : string) : se_op option =
  match String.split_on_char ':' s with
  | ["x"; k; n] -> Some (OpRx (zi k, zi n))
  | ["xv"; k; n; v] -> Some (OpRxV (zi k, zi n, zi v))
  | ["a"; k; n] -> Some (OpAccept (zi k, zi n))
  | ["+"; i; h] -> Some (OpAdd (zi i, zi h))
  | ["-"; i; h] -> Some (OpRem (zi i, zi h))
  | ["q"; i; b] -> Some (OpDq (zi i, b = "1"))
  | ["t"; i; n] -> Some (OpTouch (zi i, zi n))
  | ["s"; i; x] -> Some (OpState (zi i, zi x))
  | ["p"; n] -> Some (OpPrepare (zi n))
  | ["F"] -> Some OpFreeContext
  | _ -> None

let se_show_ev (e : se_ev) : string =
  match e with
  | SeNew (s, k) -> Printf.sprintf "N:%d:%d" (int_of_z s) (int_of_z k)
  | SeDel s -> Printf.sprintf "D:%d" (int_of_z s)
  | SeFree s -> Printf.sprintf "F:%d" (int_of_z s)
  | SeRx (k, s) -> Printf.sprintf "R:%d:%d" (int_of_z k) (int_of_z s)

let se_show_tbl (st : se_st) : string =
  "B[" ^ String.concat ";" (List.map (fun s ->
    Printf.sprintf "%d:%d:%d:%d:%d" (int_of_z s.ss_id) (int_of_z s.ss_key) (int_of_z s.ss_ref)
      (int_of_z s.ss_last) (if s.ss_dq then 1 else 0)) st.st_tbl) ^ "]"

let rec drop n l = if n <= 0 then l else match l with [] -> [] | _ :: r -> drop (n - 1) r

let se_cmd toks =
  match toks with
  | tmo :: mi :: ops ->
      let cfg = { cf_timeout = zi tmo; cf_max_idle = zi mi } in
      let buf = Buffer.create 4096 in
      let add s = if Buffer.length buf > 0 then Buffer.add_char buf ' '; Buffer.add_string buf s in
      let st = ref se_init and printed = ref 0 and stop = ref false in
      List.iter (fun tok ->
        if not !stop then begin
          if tok = "B" then add (se_show_tbl !st)
          else match se_op_of_tok tok with
            | None -> add ("!syntax:" ^ tok); stop := true
            | Some op ->
                if se_op_ok cfg !st op then begin
                  st := se_step cfg !st op;
                  let fresh = drop !printed (!st).st_log in
                  List.iter (fun e -> add (se_show_ev e)) fresh;
                  printed := !printed + List.length fresh
                end else begin add ("!" ^ tok); stop := true end
        end) ops;
      let s = !st in
      let holders_ok = List.for_all (fun x -> int_of_z x.ss_ref = List.length x.ss_holders) s.st_tbl in
      Printf.sprintf "%s | logok=%d closed=%d leaked=%s holders=%d" (Buffer.contents buf)
        (if se_log_ok s.st_log then 1 else 0) (if se_log_closed s.st_log then 1 else 0)
        (match s.st_leaked with [] -> "-" | l ->
           String.concat "," (List.map (fun x -> string_of_int (int_of_z x.ss_id)) l))
        (if holders_ok then 1 else 0)
  | _ -> failwith "se args"

let se_ev_of_tok (s : string) : se_ev option =
  match String.split_on_char ':' s with
  | ["N"; i; k] -> Some (SeNew (zi i, zi k))
  | ["D"; i] -> Some (SeDel (zi i))
  | ["F"; i] -> Some (SeFree (zi i))
  | ["R"; k; i] -> Some (SeRx (zi k, zi i))
  | _ -> None

let selog toks =
  let log = List.filter_map se_ev_of_tok toks in
  Printf.sprintf "%d %d" (if se_log_ok log then 1 else 0) (if se_log_closed log then 1 else 0)

let () =
  register "se" se_cmd;
  register "selog" selog

(* client sessions (coq/Sessions/Client.v)
   sc <tok>*   n (coap_new_client_session)  +:<sid>:<h>  -:<sid>:<h>  F (coap_free_context)  B
   output: CN:<sid> CF:<sid> B[<sid>:<ref>;...], "!<tok>" on a violated precondition;
   then " | left=<sids>" *)
let sc_cmd toks =
  let buf = Buffer.create 1024 in
  let add s = if Buffer.length buf > 0 then Buffer.add_char buf ' '; Buffer.add_string buf s in
  let st = ref sec_init and printed = ref 0 and stop = ref false in
  let show e = match e with
    | CNew s -> Printf.sprintf "CN:%d" (int_of_z s)
    | CFree s -> Printf.sprintf "CF:%d" (int_of_z s) in
  List.iter (fun tok ->
    if not !stop then begin
      if tok = "B" then
        add ("B[" ^ String.concat ";" (List.map (fun s ->
               Printf.sprintf "%d:%d" (int_of_z s.cs_id) (int_of_z s.cs_ref)) (!st).ct_tbl) ^ "]")
      else begin
        let op = match String.split_on_char ':' tok with
          | ["n"] -> Some COpNew
          | ["+"; i; h] -> Some (COpAdd (zi i, zi h))
          | ["-"; i; h] -> Some (COpRem (zi i, zi h))
          | ["F"] -> Some COpFreeContext
          | _ -> None in
        match op with
        | None -> add ("!syntax:" ^ tok); stop := true
        | Some op ->
            if sec_op_ok !st op then begin
              st := sec_step !st op;
              let fresh = drop !printed (!st).ct_log in
              List.iter (fun e -> add (show e)) fresh;
              printed := !printed + List.length fresh
            end else begin add ("!" ^ tok); stop := true end
      end
    end) toks;
  Printf.sprintf "%s | left=%s" (Buffer.contents buf)
    (match (!st).ct_left with [] -> "-" | l ->
       String.concat "," (List.map (fun x -> string_of_int (int_of_z x.cs_id)) l))

let () = register "sc" sc_cmd

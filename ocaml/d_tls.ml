(* C19: handlers for the extracted (D)TLS gate model (coq/Tls/Gate.v).
   tgs    : acceptor on an observed session trace
   tgcred : credential selection (what libcoap hands to GnuTLS) and the match predicate
   tgpre  : ClientHello pre-filter
   tgmap  : do_gnutls_handshake mapping for a GnuTLS code
   tgconst: the constants the model assumes (compared with the headers by the check) *)
open Model
open Util

let zi = int_of_z
let iz = z_of_int

let split c s = if s = "" || s = "-" then [] else String.split_on_char c s
let ints s = List.map (fun x -> iz (int_of_string x)) (split ',' s)
let field s = if s = "." then [] else bytes_of_tok s

let hexs (l : z list) =
  if l = [] then "." else String.concat "" (List.map (fun x -> Printf.sprintf "%02x" (zi x land 255)) l)

let out_to_string (o : tg_out) : string =
  match o with
  | OHs c -> Printf.sprintf "hs:%d" (zi c)
  | OCk c -> Printf.sprintf "ck:%d" (zi c)
  | OTlsTx (i, c) -> Printf.sprintf "tx:%d:%d" (zi i) (zi c)
  | OTlsRx c -> Printf.sprintf "rx:%d" (zi c)
  | OWireClear _ -> "wc"
  | ODeliver (t, m) -> Printf.sprintf "dl:%d:%d" (zi t) (zi m)
  | ODelayed (i, c) -> Printf.sprintf "dq:%d:%d" (zi i) (if c then 1 else 0)
  | ODropSend i -> Printf.sprintf "ds:%d" (zi i)
  | ONack (i, r) -> Printf.sprintf "nk:%d:%d" (zi i) (zi r)
  | ONackAnon r -> Printf.sprintf "na:%d" (zi r)
  | OEvent e -> Printf.sprintf "ev:%d" (zi e)

let out_of_string (s : string) : tg_out =
  match String.split_on_char ':' s with
  | ["hs"; c] -> OHs (iz (int_of_string c))
  | ["ck"; c] -> OCk (iz (int_of_string c))
  | ["tx"; i; c] -> OTlsTx (iz (int_of_string i), iz (int_of_string c))
  | ["rx"; c] -> OTlsRx (iz (int_of_string c))
  | ["wc"] -> OWireClear []
  | ["dl"; t; m] -> ODeliver (iz (int_of_string t), iz (int_of_string m))
  | ["dq"; i; c] -> ODelayed (iz (int_of_string i), c = "1")
  | ["ds"; i] -> ODropSend (iz (int_of_string i))
  | ["nk"; i; r] -> ONack (iz (int_of_string i), iz (int_of_string r))
  | ["na"; r] -> ONackAnon (iz (int_of_string r))
  | ["ev"; e] -> OEvent (iz (int_of_string e))
  | _ -> failwith ("bad output token " ^ s)

let ev_of_string (s : string) : tg_ev =
  let rest = String.sub s 1 (String.length s - 1) in
  match s.[0] with
  | 'C' -> EConnect
  | 'S' -> (match String.split_on_char ':' rest with
            | [i; c] -> ESend ({ tm_id = iz (int_of_string i); tm_con = (c = "1"); tm_bytes = [] }, true)
            | _ -> failwith "bad S")
  | 's' -> (match String.split_on_char ':' rest with
            | [i; c] -> ESend ({ tm_id = iz (int_of_string i); tm_con = (c = "1"); tm_bytes = [] }, false)
            | _ -> failwith "bad s")
  | 'R' -> (match String.split_on_char ':' rest with
            | [t; m] -> ERecv (iz (int_of_string t), iz (int_of_string m))
            | _ -> failwith "bad R")
  | 'T' -> ETimeout
  | 'X' -> (match String.split_on_char ':' rest with
            | [i; g] -> ERetransmit (iz (int_of_string i), g = "1")
            | _ -> failwith "bad X")
  | 'L' -> ERelease
  | 'F' -> EFree
  | _ -> failwith ("bad event " ^ s)

(* tgs <udp|dtls> <c|h> <nstart> <hs> <more> <tx> <rx> <ck> step step ...
   step = <event>=<out>,<out>,...   ("=" alone after the event: no output) *)
let () = register "tgs" (fun args ->
  match args with
  | proto :: ty :: nstart :: hs :: more :: tx :: rx :: ck :: steps ->
      let o = tg_oracle_of (ints hs) (List.map (fun x -> x = "1") (split ',' more))
                (ints tx) (ints rx) (ints ck) in
      let p = if proto = "udp" then TgUdp else TgDtls in
      let t = if ty = "c" then TgClient else TgHello in
      let s0 = tg_new_session p t (iz (int_of_string nstart)) in
      (* step = <event>=<outs>[@<state>/<type>/<dq>/<sq>/<con_active>/<tls>]  (ids joined by '.') *)
      let idl x = if x = "-" then [] else List.map (fun y -> iz (int_of_string y)) (String.split_on_char '.' x) in
      let parse_snap x =
        match String.split_on_char '/' x with
        | [st; ty; dq; sq; ca; tl] ->
            { sn_state = iz (int_of_string st); sn_type = iz (int_of_string ty); sn_dq = idl dq;
              sn_sq = idl sq; sn_ca = iz (int_of_string ca); sn_tls = (tl = "1") }
        | _ -> failwith ("bad snapshot " ^ x) in
      let parse st =
        let (st, snap) =
          match String.index_opt st '@' with
          | None -> (st, None)
          | Some j -> (String.sub st 0 j, Some (parse_snap (String.sub st (j + 1) (String.length st - j - 1)))) in
        match String.index_opt st '=' with
        | None -> failwith ("bad step " ^ st)
        | Some i ->
            let e = String.sub st 0 i and r = String.sub st (i + 1) (String.length st - i - 1) in
            ((ev_of_string e, List.map out_of_string (split ',' r)), snap) in
      let trs = List.map parse steps in
      let tr = List.map fst trs in
      if tg_accepts_snap o s0 trs then "ACCEPT"
      else if tg_accepts o s0 tr then begin
        (* outputs agree, a snapshot does not: locate it *)
        let rec go s k l =
          match l with
          | [] -> "REJECT snapshot ?"
          | ((e, _), n) :: r ->
              let (s1, _) = tg_step o s e in
              (match n with
               | Some x when not (tg_snap_ok s1 x) ->
                   Printf.sprintf "REJECT snapshot step=%d ev=%s model=%d/%d/%s/%s/%d/%d" k (List.nth steps k)
                     (zi (tg_state_num s1.ts_state)) (zi (tg_type_num s1.ts_type))
                     (String.concat "." (List.map (fun m -> string_of_int (zi m.tm_id)) s1.ts_delayq))
                     (String.concat "." (List.map (fun m -> string_of_int (zi m.tm_id)) s1.ts_sendq))
                     (zi s1.ts_con_active) (if s1.ts_tls then 1 else 0)
               | _ -> go s1 (k + 1) r) in
        go s0 0 trs
      end
      else begin
        (* locate the first step whose outputs differ (diagnostics only) *)
        let rec go s k tr =
          match tr with
          | [] -> "REJECT ?"
          | (e, outs) :: r ->
              let (s1, o1) = tg_step o s e in
              if tg_outs_eqb o1 outs then go s1 (k + 1) r
              else Printf.sprintf "REJECT step=%d ev=%s model=%s impl=%s" k (List.nth steps k)
                     (String.concat "," (List.map out_to_string o1))
                     (String.concat "," (List.map out_to_string outs)) in
        go s0 0 tr
      end
  | _ -> "ERROR tgs args")

let table2 s = (* "none" | "T" ^ "a:b,..." *)
  if s = "none" then None
  else Some (List.map (fun e -> match String.split_on_char ':' e with
                                | [a; b] -> (field a, field b)
                                | _ -> failwith "bad table2")
               (split ',' (String.sub s 1 (String.length s - 1))))
let table3 s =
  if s = "none" then None
  else Some (List.map (fun e -> match String.split_on_char ':' e with
                                | [a; b; c] -> (field a, (field b, field c))
                                | _ -> failwith "bad table3")
               (split ',' (String.sub s 1 (String.length s - 1))))

(* tgcred <cid> <ckey> <csni hex|-> <cih> <shint> <skey> <sids> <ssni>
   -> match=<0|1> sni=<hint|reject> c=<identity:key|reject|-> s=<key|reject|-> *)
let () = register "tgcred" (fun args ->
  match args with
  | [cid; ckey; csni; cih; shint; skey; sids; ssni] ->
      let c = { cc_id = field cid; cc_key = field ckey;
                cc_sni = (if csni = "-" then None else Some (field csni)); cc_ih = table3 cih } in
      let s = { sc_hint = field shint; sc_key = field skey; sc_ids = table2 sids; sc_snis = table3 ssni } in
      let m = tg_creds_match c s in
      let (sni, cc, sk) =
        match tg_server_sni s (tg_sni_sent c.cc_sni) with
        | None -> ("reject", "-", "-")
        | Some (h, k0) ->
            let hs = tg_hint_seen h in
            (match tg_client_choice c hs with
             | None -> (hexs hs, "reject", "-")
             | Some (i, k) ->
                 (hexs hs, hexs i ^ ":" ^ hexs k,
                  match tg_server_key s k0 i with None -> "reject" | Some k -> hexs k)) in
      Printf.sprintf "match=%d sni=%s c=%s s=%s" (if m then 1 else 0) sni cc sk
  | _ -> "ERROR tgcred args")

let () = register "tgpre" (fun args ->
  match args with
  | [d] -> (match tg_prefilter (bytes_of_tok d) with PreDrop -> "pre new=0" | PreNewHello -> "pre new=1")
  | _ -> "ERROR tgpre args")

(* tgmap <sent_alert> <code> -> ret=<r> ev=<e|-> sa=<0|1> *)
let () = register "tgmap" (fun args ->
  match args with
  | [sa; code] ->
      let ((r, e), a) = tg_do_handshake (sa = "1") (iz (int_of_string code)) in
      Printf.sprintf "ret=%d ev=%s sa=%d" (zi r) (match e with None -> "-" | Some x -> string_of_int (zi x))
        (if a then 1 else 0)
  | _ -> "ERROR tgmap args")

let () = register "tgconst" (fun _ ->
  String.concat " " (List.map (fun (n, v) -> Printf.sprintf "%s=%d" n (zi v))
    [ "AGAIN", tg_E_AGAIN; "INTERRUPTED", tg_E_INTERRUPTED;
      "INSUFFICIENT_CREDENTIALS", tg_E_INSUFFICIENT_CREDENTIALS;
      "FATAL_ALERT_RECEIVED", tg_E_FATAL_ALERT_RECEIVED;
      "UNEXPECTED_HANDSHAKE_PACKET", tg_E_UNEXPECTED_HANDSHAKE_PACKET;
      "UNEXPECTED_PACKET", tg_E_UNEXPECTED_PACKET;
      "WARNING_ALERT_RECEIVED", tg_E_WARNING_ALERT_RECEIVED;
      "NO_CERTIFICATE_FOUND", tg_E_NO_CERTIFICATE_FOUND;
      "CERTIFICATE_REQUIRED", tg_E_CERTIFICATE_REQUIRED;
      "DECRYPTION_FAILED", tg_E_DECRYPTION_FAILED; "CERTIFICATE_ERROR", tg_E_CERTIFICATE_ERROR;
      "UNKNOWN_CIPHER_SUITE", tg_E_UNKNOWN_CIPHER_SUITE; "NO_CIPHER_SUITES", tg_E_NO_CIPHER_SUITES;
      "INVALID_SESSION", tg_E_INVALID_SESSION; "SESSION_EOF", tg_E_SESSION_EOF;
      "PREMATURE_TERMINATION", tg_E_PREMATURE_TERMINATION; "TIMEDOUT", tg_E_TIMEDOUT;
      "PULL_ERROR", tg_E_PULL_ERROR; "PUSH_ERROR", tg_E_PUSH_ERROR;
      "EV_DTLS_CLOSED", tg_EV_DTLS_CLOSED; "EV_DTLS_CONNECTED", tg_EV_DTLS_CONNECTED;
      "EV_DTLS_ERROR", tg_EV_DTLS_ERROR; "EV_SESSION_CONNECTED", tg_EV_SESSION_CONNECTED;
      "NACK_TOO_MANY_RETRIES", tg_NACK_TOO_MANY_RETRIES; "NACK_NOT_DELIVERABLE", tg_NACK_NOT_DELIVERABLE;
      "NACK_TLS_FAILED", tg_NACK_TLS_FAILED; "NACK_TLS_LAYER_FAILED", tg_NACK_TLS_LAYER_FAILED ]))


(* ---- TLS over TCP session machine (coq/Tls/GateTcp.v)
   tgt <c|s> <hs> <tx> <rx> step ...     step = <event>=<outs>[@<state>/<dq>/<tls>/<first>/<sock>] *)
let tev_of_string (s : string) : tgt_ev =
  let rest = String.sub s 1 (String.length s - 1) in
  let msg r app =
    match String.split_on_char ':' r with
    | [i; c] -> TSend ({ tm_id = iz (int_of_string i); tm_con = (c = "1"); tm_bytes = [] }, app)
    | _ -> failwith "bad send" in
  match s.[0] with
  | 'C' -> TConnect
  | 'K' -> TConnected (rest = "1")
  | 'A' -> TAccept
  | 'R' -> TRead
  | 'D' -> TDispatch (iz (int_of_string rest))
  | 'S' -> msg rest true
  | 's' -> msg rest false
  | 'W' -> TFirstTimeout
  | 'F' -> TFree
  | _ -> failwith ("bad tcp event " ^ s)

let () = register "tgt" (fun args ->
  match args with
  | side :: hs :: tx :: rx :: steps ->
      let o = tg_oracle_of (ints hs) [] (ints tx) (ints rx) [] in
      let s0 = tgt_new_session (side = "c") in
      let idl x = if x = "-" then [] else List.map (fun y -> iz (int_of_string y)) (String.split_on_char '.' x) in
      let parse_snap x =
        match String.split_on_char '/' x with
        | [st; dq; tl; fi; so] ->
            { tn_state = iz (int_of_string st); tn_dq = idl dq; tn_tls = (tl = "1");
              tn_first = (fi = "1"); tn_sock = (so = "1") }
        | _ -> failwith ("bad snapshot " ^ x) in
      let parse st =
        let (st, snap) =
          match String.index_opt st '@' with
          | None -> (st, None)
          | Some j -> (String.sub st 0 j, Some (parse_snap (String.sub st (j + 1) (String.length st - j - 1)))) in
        match String.index_opt st '=' with
        | None -> failwith ("bad step " ^ st)
        | Some i ->
            let e = String.sub st 0 i and r = String.sub st (i + 1) (String.length st - i - 1) in
            ((tev_of_string e, List.map out_of_string (split ',' r)), snap) in
      let trs = List.map parse steps in
      if tgt_accepts o s0 trs then "ACCEPT"
      else begin
        let rec go s k l =
          match l with
          | [] -> "REJECT ?"
          | ((e, outs), n) :: r ->
              let (s1, o1) = tgt_step o s e in
              let snap_bad = (match n with Some x -> not (tgt_snap_ok s1 x) | None -> false) in
              if tg_outs_eqb o1 outs && not snap_bad then go s1 (k + 1) r
              else Printf.sprintf "REJECT step=%d ev=%s model=%s state=%d/%s/%d/%d/%d" k (List.nth steps k)
                     (String.concat "," (List.map out_to_string o1))
                     (zi (tg_state_num s1.tt_state))
                     (String.concat "." (List.map (fun m -> string_of_int (zi m.tm_id)) s1.tt_delayq))
                     (if s1.tt_tls then 1 else 0) (if s1.tt_first then 1 else 0) (if s1.tt_sock then 1 else 0) in
        go s0 0 trs
      end
  | _ -> "ERROR tgt args")


(* tgsni <ssni table> name name ...   (names hex, "." = no SNI): the per-context SNI cache of
   post_client_hello_gnutls_psk over a history of handshakes -> per name "miss" (callback asked)
   or "hit", and ":1"/":0" whether credentials were found *)
let () = register "tgsni" (fun args ->
  match args with
  | tb :: names ->
      let table = match table3 tb with Some t -> t | None -> [] in
      let cache = ref [] in
      String.concat " " (List.map (fun n ->
        let name = (match tg_sni_sent (if n = "." then None else Some (field n)) with Some x -> x | None -> []) in
        let hit = (tg_lookup_ci name !cache <> None) in
        let (r, c') = tg_sni_cached !cache table name in
        cache := c';
        Printf.sprintf "%s:%d" (if hit then "hit" else "miss") (if r = None then 0 else 1)) names)
  | _ -> "ERROR tgsni args")

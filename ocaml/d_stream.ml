(* C05 handlers: stream readers.
   tcp  <mtu> <stream> <cuts>   repaired reader (the model the theorems are about)
   tcp0 <mtu> <stream> <cuts>   reader as found ("partial_read += bytes_read" after the decrement)
   tcpconsts                    constants the model was instantiated with
   <mtu>    0 = library default (csm_max_message_size = COAP_DEFAULT_MAX_PDU_RX_SIZE)
   <stream> bytes token
   <cuts>   "-" one arrival | "x<k>" arrivals of k bytes | "a,b,c" lengths, remainder last
   Result:  obs=<items> closed=<0|1>      items ';'-separated: M:<dump> per frame that parses,
            X for the close; "-" when empty.  (The C driver appends " | ..." details.) *)
open Model
open Util

let rec take_n n l = if n <= 0 then [] else match l with [] -> [] | x :: t -> x :: take_n (n - 1) t
let rec drop_n n l = if n <= 0 then l else match l with [] -> [] | _ :: t -> drop_n (n - 1) t

let cut_stream (bs : z list) (cuts : string) : z list list =
  if cuts = "-" then [bs]
  else if String.length cuts > 0 && cuts.[0] = 'x' then begin
    let k = max 1 (int_of_string (String.sub cuts 1 (String.length cuts - 1))) in
    let rec go l = match l with [] -> [] | _ -> take_n k l :: go (drop_n k l) in
    go bs
  end else begin
    let ls = List.map int_of_string (String.split_on_char ',' cuts) in
    let rec go l ls =
      match ls with
      | [] -> (match l with [] -> [] | _ -> [l])
      | k :: tl -> (match l with [] -> [] | _ -> take_n k l :: go (drop_n k l) tl) in
    go bs ls
  end

let show_obs (evs : tcp_ev list) : string =
  let items = List.filter_map (fun o ->
    match o with
    | TDeliver m -> Some ("M:" ^ dump_msg m)
    | TDropped _ -> None
    | TClosedObs -> Some "X"
    | TBroken -> Some "BROKEN") (tcp_observe evs) in
  if items = [] then "-" else String.concat ";" items

let tcp_gen fx toks =
  match toks with
  | [mtu; stream; cuts] ->
      let mtu = int_of_string mtu in
      let c = tcp_cfg_of_mtu (if mtu = 0 then tcp_hard_cap_default else z_of_int mtu) in
      let arr = cut_stream (bytes_of_tok stream) cuts in
      let s, evs = tcp_arrivals fx c TIdle arr in
      Printf.sprintf "obs=%s closed=%d" (show_obs evs) (match s with TClosed -> 1 | _ -> 0)
  | _ -> failwith "tcp args"

let tcpconsts _ =
  Printf.sprintf "hard=%d rxbuf=%d hdrbuf=%d" (int_of_z tcp_hard_cap_default)
    (int_of_z tcp_rxbuf_default) (int_of_z tcp_hdr_buf)

(* psize <hdr bytes> : coap_pdu_parse_header_size, token extension bytes, coap_pdu_parse_size
   on the first hdr_size + tok_ext bytes *)
let psize toks =
  match toks with
  | [h] ->
      let b = bytes_of_tok h in
      (match b with
       | [] -> "ERROR empty"
       | b0 :: _ ->
           let hs = int_of_z (tcp_hdr_size b0) and te = int_of_z (tcp_tok_ext b0) in
           (match tcp_parse_size (take_n (hs + te) b) with
            | None -> Printf.sprintf "%d %d OOB" hs te
            | Some s -> Printf.sprintf "%d %d %d" hs te (int_of_z s)))
  | _ -> failwith "psize args"

(* maxrcv <mtu> : coap_session_max_pdu_rcv_size of a TCP session whose csm_rcv_mtu is mtu *)
let maxrcv toks =
  match toks with
  | [m] -> string_of_int (int_of_z (tcp_max_rcv (zi m)))
  | _ -> failwith "maxrcv args"

(* ws|ws0 <opt> <stream> <cuts> : WebSocket server session (ws = repaired code, ws0 = as found).
   items: C handshake done, M:<dump> frame of more than 2 bytes that parses, X close, S stuck,
   OOB write outside a buffer *)
let show_ws (evs : ws_ev list) : string * bool =
  let closed = ref false in
  let items = List.filter_map (fun e ->
    match e with
    | WConnected -> Some "C"
    | WMsg p ->
        if List.length p >= 2 && List.for_all (fun b -> int_of_z b >= 0) p then
          (match parse WS p with Some m -> Some ("M:" ^ dump_msg m) | None -> None)
        else if List.exists (fun b -> int_of_z b < 0) p then Some "M:UNDEF"
        else None
    | WClose _ -> if !closed then None else (closed := true; Some "X")
    | WFail -> if !closed then None else (closed := true; Some "X")
    | WZero -> None
    | WOob -> Some "OOB"
    | WStuck -> Some "S"
    | WFuel -> Some "FUEL") evs in
  ((if items = [] then "-" else String.concat ";" items), !closed)

let ws_gen mk fx toks =
  match toks with
  | [_opt; stream; cuts] ->
      let c = mk fx in
      let arr = cut_stream (bytes_of_tok stream) cuts in
      let _, evs = ws_arrivals c ws_init arr in
      let o, cl = show_ws evs in
      Printf.sprintf "obs=%s closed=%d" o (if cl then 1 else 0)
  | _ -> failwith "ws args"

(* wsdec <s|c> <write>,<write>,... : every write of a server (s) / client (c) session after the
   handshake must be exactly one well-formed WebSocket frame for the peer's reader: decoded with
   the reader model that the theorems show equivalent to the specification automaton (buffer size
   lifted), payload parsed as a CoAP message *)
let wsdec toks =
  match toks with
  | [role; ws] ->
      let base = if role = "s" then ws_client_cfg ws_fixed else ws_server_cfg ws_fixed in
      let c = { base with wsc_rxbuf = z_of_int 100000000 } in
      let hs = if role = "s" then ws_response else ws_request in
      let one w =
        let bs = bytes_of_tok w in
        (* the reader model (proved equivalent to the automaton, linear in the frame size) behind the
           canonical handshake *)
        match snd (ws_arrivals c ws_init [hs @ bs]) with
        | [WConnected; WMsg p] ->
            (match parse WS p with
             | Some m -> Printf.sprintf "ok:%d:%d" (int_of_z m.m_code) (List.length p)
             | None -> Printf.sprintf "BAD-PDU:%d" (List.length p))
        | [WConnected; WClose _] when (match bs with b0 :: _ -> (int_of_z b0) land 15 = 8 | [] -> false) ->
            "close"              (* a Close frame; any other frame that makes the peer close is ill-formed *)
        | evs -> Printf.sprintf "BAD-FRAME:%d" (List.length evs) in
      if ws = "-" then "-" else String.concat "," (List.map one (String.split_on_char ',' ws))
  | _ -> failwith "wsdec args"

let wsconsts _ =
  Printf.sprintf "httpbuf=%d maxfs=%d rxbuf=%d" (int_of_z ws_http_buf) (int_of_z ws_max_fs)
    (int_of_z (ws_server_cfg ws_fixed).wsc_rxbuf)

let () =
  register "ws" (ws_gen ws_server_cfg ws_fixed); register "ws0" (ws_gen ws_server_cfg ws_orig);
  register "wsc" (ws_gen ws_client_cfg ws_fixed); register "wsc0" (ws_gen ws_client_cfg ws_orig);
  register "wsconsts" wsconsts; register "wsdec" wsdec;
  register "tcpsize" psize; register "tcpmaxrcv" maxrcv;
  register "tcp" (tcp_gen true); register "tcp0" (tcp_gen false); register "tcpconsts" tcpconsts

/* C19 driver: a libcoap client context and a libcoap server context in one process, joined by the
 * scripted datagram network of common/vnet.h, talking DTLS-PSK through the real GnuTLS.
 *
 * One case per input line, one result line (a trace of tokens) per case.
 *
 *   c19 <seed> <fd0> <proto> <cid> <ckey> <csni> <cih> <shint> <skey> <sids> <ssni> <force> op op ...
 *
 *   seed   PRNG seed (message ids, tokens)
 *   fd0    0: descriptor 0 is /dev/null, 1: an idle pipe (see tg_fd0_mode)
 *   proto  dtls | udp (udp = contrast cases: cleartext is what is expected there)
 *   cid, ckey           client identity / key: hex, "." = empty, "-" = not given (NULL)
 *   csni                client SNI: text or "-"
 *   cih                 "none" = no identity-hint callback; "T" + "hint:identity:key,..." = callback
 *                       with that table (a hint not in the table is rejected)
 *   shint, skey         server default hint / key (hex, "." empty)
 *   sids                "none" | "T" + "identity:key,..."  (validate_id_call_back; unknown -> NULL)
 *   ssni                "none" | "T" + "sni:hint:key,..."  (validate_sni_call_back; sni as hex)
 *   force               "-" | "c.hs.3=-12,s.tx.0=-10,..."   (side.kind.index=code)
 *
 *   ops   C        create the client session (starts the handshake)
 *         qc<k> qn<k>   client sends Confirmable / Non-confirmable request number k (POST /secretpath)
 *         bm       client context in COAP_BLOCK_USE_LIBCOAP mode (before C)
 *         xt       client context with extended tokens: coap_context_set_max_token_size(16) (before C)
 *         ka<s>    client keep-alive every s seconds (before C)
 *         qo<k>    Confirmable FETCH with Observe: 0 (tracked in session->lg_crcv)
 *         ns<k>    set NSTART of the client session
 *         mh<k>    server: coap_context_set_max_handshake_sessions(k)
 *         d x u o  deliver / drop / deliver twice / postpone the oldest pending datagram
 *         a        deliver pending datagrams in order until none is pending
 *         t<ms>    advance the (one) clock by ms and let both contexts fire their timers
 *         ic<b> is<b> in<b>   inject a datagram at the client session (from the server address),
 *                  at the server endpoint from the client address, from a new address;
 *                  <b> = hex | @req<k> | @rsp<k> | @rst<k> | @hello   (cleartext CoAP crafted here)
 *         rel      the application releases the client session
 *         K<sni|->:<keyhex>[:<idhex>]   next client: the current client session is released and a
 *                  new one (new address) with this SNI / key / identity is used from the next C on;
 *                  the server context - and its cache of SNI credentials - stays
 *
 * Trace tokens: see harness/common/tg_net.h and tools/gen_tls.py (the parser).
 */
#include "coap3/coap_libcoap_build.h"
#include "common/util.h"
#include "common/vnet.h"
#include "common/tg_net.h"

#define MARK "PLAINTEXT-MARKER"
#define PATH "secretpath"
#define MAXREQ 64

static coap_context_t *g_cli, *g_srv;
static coap_endpoint_t *g_ep;
static coap_session_t *g_cs;       /* client session (NULL before C / after rel) */
static coap_session_t *g_ss;       /* the server session for the client's address */
static coap_session_t *g_ss_dying; /* ... while it is being freed (events of coap_session_mfree) */
static coap_address_t g_caddr;     /* client local address */
static int g_have_caddr;
static int g_dtls;

static char *g_k_sni;
static struct { int used; coap_mid_t mid; uint8_t tok[8]; size_t tl; int con; } g_req[MAXREQ];

/* ------------------------------------------------------------------ config tables */
typedef struct { uint8_t *a, *b, *c; size_t al, bl, cl; } row_t;
typedef struct { int present; row_t rows[16]; int n; } table_t;
static table_t t_cih, t_sids, t_ssni;
static coap_dtls_cpsk_info_t cb_cinfo;
static coap_bin_const_t cb_skey;
static coap_dtls_spsk_info_t cb_sinfo;

static uint8_t *hexfield(const char *s, size_t n, size_t *len) {
  uint8_t *b = (uint8_t *)malloc(n / 2 + 1);
  size_t o = 0;
  if (n == 1 && s[0] == '.') {
    *len = 0;
    return b;
  }
  for (size_t i = 0; i + 1 < n; i += 2) b[o++] = (uint8_t)(hexval(s[i]) * 16 + hexval(s[i + 1]));
  *len = o;
  return b;
}

static void parse_table(table_t *t, const char *s, int nf) {
  memset(t, 0, sizeof(*t));
  if (s[0] != 'T') return;
  t->present = 1;
  s++;
  while (*s && t->n < 16) {
    const char *e = strchr(s, ',');
    size_t el = e ? (size_t)(e - s) : strlen(s);
    const char *f = s;
    row_t *r = &t->rows[t->n];
    for (int k = 0; k < nf; k++) {
      const char *c = memchr(f, ':', (size_t)(s + el - f));
      size_t fl = c ? (size_t)(c - f) : (size_t)(s + el - f);
      size_t bl;
      uint8_t *b = hexfield(f, fl, &bl);
      if (k == 0) { r->a = b; r->al = bl; }
      else if (k == 1) { r->b = b; r->bl = bl; }
      else { r->c = b; r->cl = bl; }
      f = c ? c + 1 : s + el;
    }
    t->n++;
    s += el;
    if (*s == ',') s++;
  }
}

static void free_table(table_t *t) {
  for (int i = 0; i < t->n; i++) {
    free(t->rows[i].a);
    free(t->rows[i].b);
    free(t->rows[i].c);
  }
  memset(t, 0, sizeof(*t));
}

static const coap_dtls_cpsk_info_t *cb_ih(coap_str_const_t *hint, coap_session_t *s, void *arg) {
  (void)s; (void)arg;
  {
    char hh[600];
    tg_hex(hh, sizeof(hh), hint->s, hint->length);
    tg_emit("c.ih:%s", hh);
  }
  for (int i = 0; i < t_cih.n; i++)
    if (t_cih.rows[i].al == hint->length && memcmp(t_cih.rows[i].a, hint->s, hint->length) == 0) {
      cb_cinfo.identity.s = t_cih.rows[i].b;
      cb_cinfo.identity.length = t_cih.rows[i].bl;
      cb_cinfo.key.s = t_cih.rows[i].c;
      cb_cinfo.key.length = t_cih.rows[i].cl;
      return &cb_cinfo;
    }
  return NULL;
}

static const coap_bin_const_t *cb_id(coap_bin_const_t *id, coap_session_t *s, void *arg) {
  (void)s; (void)arg;
  for (int i = 0; i < t_sids.n; i++)
    if (t_sids.rows[i].al == id->length && memcmp(t_sids.rows[i].a, id->s, id->length) == 0) {
      cb_skey.s = t_sids.rows[i].b;
      cb_skey.length = t_sids.rows[i].bl;
      return &cb_skey;
    }
  return NULL;
}

static const coap_dtls_spsk_info_t *cb_sni(const char *sni, coap_session_t *s, void *arg) {
  (void)s; (void)arg;
  size_t l = strlen(sni);
  char h[600];
  tg_hex(h, sizeof(h), (const uint8_t *)sni, l);
  tg_emit("s.sni:%s", h);
  for (int i = 0; i < t_ssni.n; i++)
    if (t_ssni.rows[i].al == l && strncasecmp((const char *)t_ssni.rows[i].a, sni, l) == 0) {
      cb_sinfo.hint.s = t_ssni.rows[i].b;
      cb_sinfo.hint.length = t_ssni.rows[i].bl;
      cb_sinfo.key.s = t_ssni.rows[i].c;
      cb_sinfo.key.length = t_ssni.rows[i].cl;
      return &cb_sinfo;
    }
  return NULL;
}

/* ------------------------------------------------------------------ client addresses
 * The kernel hands out ephemeral ports; a later client of the same case (op K) could be given the
 * port of an earlier one, and the server would then take its ClientHello for traffic of the old
 * session.  Which port the kernel picks depends on what else runs on the machine, so the driver
 * picks the local address itself: a port that is free now and was not used earlier in this case. */
static uint16_t g_used_port[64];
static int g_nused_port;
static int pick_local(coap_address_t *a) {
  int held[16], nheld = 0, ok = 0;
  for (int tries = 0; tries < 16 && !ok; tries++) {
    int fd = socket(AF_INET, SOCK_DGRAM, 0);
    struct sockaddr_in sa;
    socklen_t sl = sizeof(sa);
    memset(&sa, 0, sizeof(sa));
    sa.sin_family = AF_INET;
    sa.sin_addr.s_addr = htonl(VN_LOOPBACK);
    if (fd < 0 || bind(fd, (struct sockaddr *)&sa, sizeof(sa)) < 0 ||
        getsockname(fd, (struct sockaddr *)&sa, &sl) < 0) {
      if (fd >= 0) close(fd);
      break;
    }
    uint16_t port = ntohs(sa.sin_port);
    int seen = 0;
    for (int i = 0; i < g_nused_port; i++) seen |= g_used_port[i] == port;
    if (seen) {
      held[nheld++] = fd;            /* keep it occupied while looking for another one */
      continue;
    }
    close(fd);
    vn_addr4(a, VN_LOOPBACK, port);
    if (g_nused_port < 64) g_used_port[g_nused_port++] = port;
    ok = 1;
  }
  for (int i = 0; i < nheld; i++) close(held[i]);
  return ok;
}

/* ------------------------------------------------------------------ names */
static const char *sname(const coap_session_t *s) {
  if (s && s->type == COAP_SESSION_TYPE_CLIENT) return "c";
  if (s && (s == g_ss || s == g_ss_dying)) return "s";
  return "o";
}

/* ------------------------------------------------------------------ application callbacks */
static int marker_no(const uint8_t *d, size_t n, char lead) {
  /* payload "<lead><k>:" MARK ... */
  if (n >= 3 && d[0] == (uint8_t)lead) {
    int k = 0;
    size_t i = 1;
    while (i < n && d[i] >= '0' && d[i] <= '9') k = k * 10 + (d[i++] - '0');
    if (i < n && d[i] == ':') return k;
  }
  return -1;
}

static coap_response_t on_resp(coap_session_t *s, const coap_pdu_t *sent, const coap_pdu_t *rcv,
                               const coap_mid_t mid) {
  size_t len = 0;
  const uint8_t *data = NULL;
  char h[200];
  (void)sent; (void)mid;
  coap_get_data(rcv, &len, &data);
  int k = marker_no(data, len, 'A');
  tg_hex(h, sizeof(h), data, len > 40 ? 40 : len);
  tg_emit("%s.rsp:%d:%u:%s", sname(s), k, (unsigned)coap_pdu_get_code(rcv), h);
  return COAP_RESPONSE_OK;
}

static void on_nack(coap_session_t *s, const coap_pdu_t *sent, const coap_nack_reason_t reason,
                    const coap_mid_t mid) {
  if (sent)
    tg_emit("%s.nack:%c%d:%d", sname(s), "CNAR"[coap_pdu_get_type(sent) & 3], (int)mid, (int)reason);
  else
    tg_emit("%s.nack:anon:%d", sname(s), (int)reason);
}

static int on_event_c(coap_session_t *s, coap_event_t e) {
  tg_emit("%s.ev:%04x", sname(s), (unsigned)e);
  return 0;
}

static int on_event_s(coap_session_t *s, coap_event_t e) {
  if (e == COAP_EVENT_SERVER_SESSION_NEW) g_ss_dying = NULL;
  if (e == COAP_EVENT_SERVER_SESSION_NEW && g_have_caddr && !g_ss &&
      coap_address_equals(&s->addr_info.remote, &g_caddr))
    g_ss = s;
  tg_emit("%s.ev:%04x", sname(s), (unsigned)e);
  if (e == COAP_EVENT_SERVER_SESSION_DEL && s == g_ss) {
    g_ss_dying = s;
    g_ss = NULL;
  }
  return 0;
}

static void on_post(coap_resource_t *r, coap_session_t *s, const coap_pdu_t *req,
                    const coap_string_t *q, coap_pdu_t *resp) {
  size_t len = 0;
  const uint8_t *data = NULL;
  char h[200], buf[64];
  (void)r; (void)q;
  coap_get_data(req, &len, &data);
  int k = marker_no(data, len, 'Q');
  tg_hex(h, sizeof(h), data, len > 40 ? 40 : len);
  tg_emit("%s.req:%d:%s", sname(s), k, h);
  coap_pdu_set_code(resp, COAP_RESPONSE_CODE_CONTENT);
  int n = snprintf(buf, sizeof(buf), "A%d:" MARK, k);
  coap_add_data(resp, (size_t)n, (const uint8_t *)buf);
}

/* ------------------------------------------------------------------ wire bookkeeping */
static size_t g_seen = 0;            /* vn_out entries already reported */
static size_t g_pend[4096];
static size_t g_npend = 0;

static void scan_wire(void) {
  for (; g_seen < vn_nout; g_seen++) {
    vn_dgram_t *d = &vn_out[g_seen];
    char fl[8];
    int nf = 0, appclear = 0;
    int framed = tg_dtls_framed(d->data, d->len, &appclear);
    int plain = tg_contains(d->data, d->len, (const uint8_t *)MARK, strlen(MARK)) ||
                tg_contains(d->data, d->len, (const uint8_t *)PATH, strlen(PATH));
    for (int i = 0; i < tg_nplain && !plain; i++)
      if (tg_plain[i].n >= 8 && tg_contains(d->data, d->len, tg_plain[i].b, tg_plain[i].n)) plain = 1;
    if (framed) fl[nf++] = 'f';
    if (plain) fl[nf++] = 'P';
    if (appclear) fl[nf++] = 'A';
    if (!nf) fl[nf++] = '-';
    fl[nf] = 0;
    if (!framed && getenv("TG_DUMP")) {
      char hx[200];
      tg_hex(hx, sizeof(hx), d->data, d->len > 60 ? 60 : d->len);
      tg_emit("n.dump:%s", hx);
    }
    /* the sender by address only: d->session may already be freed */
    const char *from = (g_have_caddr && coap_address_equals(&d->src, &g_caddr)) ? "c"
                       : (g_have_caddr && coap_address_equals(&d->dst, &g_caddr)) ? "s" : "o";
    tg_emit("n.w:%s:%zu:%zu:%u:%s", from, g_seen, d->len, d->len ? d->data[0] : 0, fl);
    if (g_npend < 4096) g_pend[g_npend++] = g_seen;
  }
}

static void pend_pop(void) {
  memmove(g_pend, g_pend + 1, (g_npend - 1) * sizeof(g_pend[0]));
  g_npend--;
}

static void deliver(size_t i) {
  /* who gets it? */
  coap_address_t dst;
  coap_address_copy(&dst, &vn_out[i].dst);
  const char *to = "lost";
  for (int k = 0; k < vn_nnodes; k++)
    if (coap_address_equals(&vn_nodes[k].addr, &dst)) to = vn_nodes[k].kind == 1 ? "s" : "c";
  tg_emit("n.rv:%s:%zu", to, i);
  vn_route(i);
}

/* ------------------------------------------------------------------ the wait inside coap_send
 * With extended tokens (or Q-Block) enabled the first coap_send() of a client session sends a
 * probe and waits for its answer in coap_client_delay_first(), i.e. in a loop around
 * coap_io_process_lkd(client context).  In this one-thread driver that loop is served from the
 * scripted network: every pending datagram is delivered in order; when nothing is pending any
 * more the wait is made to time out. */
static int g_in_send, g_wait_idle;
void __real_coap_io_do_epoll(coap_context_t *ctx, struct epoll_event *events, size_t nevents);
void __wrap_coap_io_do_epoll(coap_context_t *ctx, struct epoll_event *events, size_t nevents) {
  if (g_in_send)
    coap_io_do_epoll_lkd(ctx, events, nevents);     /* the global lock is already ours */
  else
    __real_coap_io_do_epoll(ctx, events, nevents);
}
int __real_coap_io_process_lkd(coap_context_t *ctx, uint32_t timeout_ms);
int __wrap_coap_io_process_lkd(coap_context_t *ctx, uint32_t timeout_ms) {
  if (!(g_in_send && ctx == g_cli))
    return __real_coap_io_process_lkd(ctx, timeout_ms);
  scan_wire();
  if (g_npend) {
    int guard = 0;
    g_wait_idle = 0;
    while (g_npend && guard++ < 400) {
      size_t i = g_pend[0];
      pend_pop();
      deliver(i);
      scan_wire();
    }
    return 1;
  }
  if (++g_wait_idle > 2) {
    tg_emit("c.wt:1");
    return 6000;
  }
  return 1;
}

static void snapshot(void) {
  coap_session_t *ss[2] = {g_cs, g_ss};
  for (int w = 0; w < 2; w++) {
    coap_session_t *s = ss[w];
    const char *nm = w == 0 ? "c" : "s";
    if (!s) {
      tg_emit("%s.st:gone", nm);
      continue;
    }
    char dq[1024];
    size_t o = 0;
    dq[0] = 0;
    for (coap_queue_t *q = s->delayqueue; q && o + 16 < sizeof(dq); q = q->next)
      o += (size_t)snprintf(dq + o, sizeof(dq) - o, "%s%c%d", o ? "," : "", "CNAR"[q->pdu->type & 3], (int)q->id);
    /* in-flight Confirmables of this session (the context's send queue) */
    char sq[1024];
    size_t o2 = 0;
    sq[0] = 0;
    for (coap_queue_t *q = s->context->sendqueue; q && o2 + 16 < sizeof(sq); q = q->next)
      if (q->session == s)
        o2 += (size_t)snprintf(sq + o2, sizeof(sq) - o2, "%s%c%d", o2 ? "," : "", "CNAR"[q->pdu->type & 3], (int)q->id);
    tg_emit("%s.st:%d:%d:%s:%s:%u:%d", nm, (int)s->state, (int)s->type, o ? dq : "-", o2 ? sq : "-",
            (unsigned)s->con_active, s->tls ? 1 : 0);
  }
}

/* ------------------------------------------------------------------ crafted cleartext */
static size_t craft(const char *spec, uint8_t *out) {
  size_t n = 0;
  if (strncmp(spec, "@req", 4) == 0) {
    int k = atoi(spec + 4);
    out[n++] = 0x41;  /* CON, TKL 1 */
    out[n++] = 0x02;  /* POST */
    out[n++] = 0x77;
    out[n++] = (uint8_t)k;
    out[n++] = 0xee;  /* token */
    out[n++] = 0xb0 | (uint8_t)strlen(PATH);   /* Uri-Path, delta 11 */
    memcpy(out + n, PATH, strlen(PATH));
    n += strlen(PATH);
    out[n++] = 0xff;
    n += (size_t)sprintf((char *)out + n, "Q%d:INJECTED-" MARK, k);
  } else if (strncmp(spec, "@rsp", 4) == 0 || strncmp(spec, "@rst", 4) == 0) {
    int k = atoi(spec + 4);
    int rst = spec[2] == 's' && spec[3] == 't';
    coap_mid_t mid = (k >= 0 && k < MAXREQ && g_req[k].used) ? g_req[k].mid : 0x1234;
    size_t tl = (k >= 0 && k < MAXREQ && g_req[k].used) ? g_req[k].tl : 0;
    if (rst) {
      out[n++] = 0x70;
      out[n++] = 0;
      out[n++] = (uint8_t)(mid >> 8);
      out[n++] = (uint8_t)mid;
    } else {
      out[n++] = (uint8_t)(0x60 | tl);   /* ACK */
      out[n++] = 0x45;                   /* 2.05 */
      out[n++] = (uint8_t)(mid >> 8);
      out[n++] = (uint8_t)mid;
      if (tl) memcpy(out + n, g_req[k].tok, tl);
      n += tl;
      out[n++] = 0xff;
      n += (size_t)sprintf((char *)out + n, "A%d:FORGED-" MARK, k);
    }
  } else if (strcmp(spec, "@hello") == 0) {
    /* looks like a DTLS handshake record carrying a ClientHello, body garbage */
    static const uint8_t h[] = {22, 0xfe, 0xfd, 0, 0, 0, 0, 0, 0, 0, 0, 0, 12, 1, 0, 0, 0, 0, 0, 0, 0, 0, 0, 0, 0};
    memcpy(out, h, sizeof(h));
    n = sizeof(h);
  } else {
    size_t l;
    uint8_t *b = bytes_of_tok(spec, &l);
    if (l > 1400) l = 1400;
    memcpy(out, b, l);
    free(b);
    n = l;
  }
  return n;
}

/* ------------------------------------------------------------------ one case */
static void parse_force(const char *s) {
  if (strcmp(s, "-") == 0) return;
  while (*s && tg_nforce < TG_MAXFORCE) {
    char side = s[0];
    char kind[3] = {s[2], s[3], 0};
    long idx = 0;
    int code = 0;
    const char *p = s + 5;
    idx = strtol(p, (char **)&p, 10);
    if (*p == '=') code = (int)strtol(p + 1, (char **)&p, 10);
    tg_force[tg_nforce].side = side == 'c' ? 0 : 1;
    tg_force[tg_nforce].kind = !strcmp(kind, "hs") ? TG_HS : !strcmp(kind, "tx") ? TG_TX : !strcmp(kind, "rx") ? TG_RX : TG_CK;
    tg_force[tg_nforce].idx = idx;
    tg_force[tg_nforce].code = code;
    tg_nforce++;
    if (*p == ',') p++;
    s = p;
  }
}

static void run_case(void) {
  size_t cidl = 0, ckl = 0, shl = 0, skl = 0;
  uint8_t *cid = NULL, *ck = NULL, *sh = NULL, *sk = NULL;
  uint8_t buf[2048];

  tg_trace_reset();
  tg_calls_reset();
  vn_log_reset();
  vn_nnodes = 0;
  vn_now = 1000;
  vn_send_fail = 0;
  g_seen = 0;
  g_npend = 0;
  g_cs = g_ss = g_ss_dying = NULL;
  g_have_caddr = 0;
  g_nused_port = 0;
  memset(g_req, 0, sizeof(g_req));
  if (vntok < 13) {
    printf("ERROR short case\n");
    return;
  }
  vn_prng_seed((uint64_t)atol(vtok[1]));
  tg_fd0_mode(atoi(vtok[2]));
  g_dtls = strcmp(vtok[3], "udp") != 0;
  if (strcmp(vtok[4], "-")) cid = hexfield(vtok[4], strlen(vtok[4]), &cidl);
  if (strcmp(vtok[5], "-")) ck = hexfield(vtok[5], strlen(vtok[5]), &ckl);
  const char *csni = strcmp(vtok[6], "-") ? vtok[6] : NULL;
  parse_table(&t_cih, vtok[7], 3);
  sh = hexfield(vtok[8], strlen(vtok[8]), &shl);
  sk = hexfield(vtok[9], strlen(vtok[9]), &skl);
  parse_table(&t_sids, vtok[10], 2);
  parse_table(&t_ssni, vtok[11], 3);
  parse_force(vtok[12]);

  g_srv = coap_new_context(NULL);
  g_cli = coap_new_context(NULL);
  coap_address_t a;
  vn_addr4(&a, VN_LOOPBACK, 0);
  if (g_dtls) {
    coap_dtls_spsk_t sp;
    memset(&sp, 0, sizeof(sp));
    sp.version = COAP_DTLS_SPSK_SETUP_VERSION;
    sp.psk_info.hint.s = sh;
    sp.psk_info.hint.length = shl;
    sp.psk_info.key.s = sk;
    sp.psk_info.key.length = skl;
    if (t_sids.present) sp.validate_id_call_back = cb_id;
    if (t_ssni.present) sp.validate_sni_call_back = cb_sni;
    tg_emit("a.spsk:%d", coap_context_set_psk2(g_srv, &sp));
  }
  g_ep = coap_new_endpoint(g_srv, &a, g_dtls ? COAP_PROTO_DTLS : COAP_PROTO_UDP);
  if (!g_ep) {
    tg_emit("a.noep");
    goto out;
  }
  vn_register_ep(g_srv, g_ep);
  coap_resource_t *r = coap_resource_init(coap_make_str_const(PATH), 0);
  coap_register_request_handler(r, COAP_REQUEST_POST, on_post);
  coap_register_request_handler(r, COAP_REQUEST_FETCH, on_post);
  coap_add_resource(g_srv, r);
  coap_register_event_handler(g_srv, on_event_s);
  coap_register_response_handler(g_cli, on_resp);
  coap_register_nack_handler(g_cli, on_nack);
  coap_register_nack_handler(g_srv, on_nack);
  coap_register_event_handler(g_cli, on_event_c);

  for (int i = 13; i < vntok; i++) {
    const char *op = vtok[i];
    g_ss_dying = NULL;
    tg_emit("|%s", op);
    if (strcmp(op, "C") == 0) {
      if (g_cs) continue;
      if (g_dtls) {
        coap_dtls_cpsk_t cp;
        memset(&cp, 0, sizeof(cp));
        cp.version = COAP_DTLS_CPSK_SETUP_VERSION;
        cp.psk_info.identity.s = cid;
        cp.psk_info.identity.length = cidl;
        cp.psk_info.key.s = ck;
        cp.psk_info.key.length = ckl;
        cp.client_sni = (char *)csni;
        if (t_cih.present) cp.validate_ih_call_back = cb_ih;
        coap_address_t la;
        int have_la = pick_local(&la);
        g_cs = coap_new_client_session_psk2(g_cli, have_la ? &la : NULL, &g_ep->bind_addr, COAP_PROTO_DTLS, &cp);
      } else
        g_cs = coap_new_client_session(g_cli, NULL, &g_ep->bind_addr, COAP_PROTO_UDP);
      if (!g_cs) {
        tg_emit("a.nocs");
      } else {
        vn_register_client(g_cli, g_cs);
        /* equal retransmission timeouts: the context's send queue keeps submission order */
        coap_session_set_ack_random_factor(g_cs, (coap_fixed_point_t){1, 0});
        coap_address_copy(&g_caddr, &g_cs->addr_info.local);
        g_have_caddr = 1;
      }
    } else if (strcmp(op, "xt") == 0) {
      /* client: RFC 8974 extended tokens (the first request is preceded by a probe) */
      coap_context_set_max_token_size(g_cli, 16);
    } else if (op[0] == 'k' && op[1] == 'a') {
      coap_context_set_keepalive(g_cli, (unsigned)atoi(op + 2));
    } else if (strcmp(op, "bm") == 0) {
      /* client: let libcoap do block-wise transfers (requests are then tracked in lg_crcv) */
      coap_context_set_block_mode(g_cli, COAP_BLOCK_USE_LIBCOAP);
    } else if (op[0] == 'q' && (op[1] == 'c' || op[1] == 'n' || op[1] == 'o')) {
      int k = atoi(op + 2);
      if (g_cs && k >= 0 && k < MAXREQ) {
        /* qo: Confirmable FETCH with Observe (register) */
        coap_pdu_t *p = coap_new_pdu(op[1] != 'n' ? COAP_MESSAGE_CON : COAP_MESSAGE_NON,
                                     op[1] == 'o' ? COAP_REQUEST_CODE_FETCH : COAP_REQUEST_CODE_POST, g_cs);
        uint8_t tok[8];
        size_t tl;
        coap_session_new_token(g_cs, &tl, tok);
        coap_add_token(p, tl, tok);
        if (op[1] == 'o')
          coap_add_option(p, COAP_OPTION_OBSERVE, 0, NULL);
        coap_add_option(p, COAP_OPTION_URI_PATH, strlen(PATH), (const uint8_t *)PATH);
        if (op[1] == 'o')
          coap_add_option(p, COAP_OPTION_CONTENT_FORMAT, 0, NULL);   /* text/plain */
        int n = snprintf((char *)buf, sizeof(buf), "Q%d:" MARK, k);
        coap_add_data(p, (size_t)n, buf);
        g_req[k].used = 1;
        g_req[k].mid = coap_pdu_get_mid(p);
        g_req[k].con = op[1] != 'n';
        memcpy(g_req[k].tok, tok, tl);
        g_req[k].tl = tl;
        g_in_send = 1;
        g_wait_idle = 0;
        coap_mid_t m = coap_send(g_cs, p);
        g_in_send = 0;
        tg_emit("a.q:%d:%c%d:%d", k, op[1] != 'n' ? 'C' : 'N', (int)g_req[k].mid, (int)m);
      } else
        tg_emit("a.q:%d:skip", k);
    } else if (op[0] == 'm' && op[1] == 'h') {
      coap_context_set_max_handshake_sessions(g_srv, (unsigned)atoi(op + 2));
    } else if (op[0] == 'n' && op[1] == 's') {
      if (g_cs) coap_session_set_nstart(g_cs, (uint16_t)atoi(op + 2));
    } else if (strcmp(op, "d") == 0 || strcmp(op, "u") == 0) {
      if (g_npend) {
        size_t i = g_pend[0];
        pend_pop();
        deliver(i);
        if (op[0] == 'u') {
          scan_wire();
          deliver(i);
        }
      }
    } else if (strcmp(op, "x") == 0) {
      if (g_npend) {
        tg_emit("n.drop:%zu", g_pend[0]);
        pend_pop();
      }
    } else if (strcmp(op, "o") == 0) {
      if (g_npend > 1) {
        size_t i = g_pend[0];
        pend_pop();
        g_pend[g_npend++] = i;
      }
    } else if (strcmp(op, "a") == 0) {
      int guard = 0;
      while (g_npend && guard++ < 400) {
        size_t i = g_pend[0];
        pend_pop();
        deliver(i);
        scan_wire();
      }
    } else if (op[0] == 't') {
      vn_advance((coap_tick_t)atol(op + 1));
      tg_emit("c.tmo");
      vn_prepare(g_cli);
      tg_emit("s.tmo");
      vn_prepare(g_srv);
    } else if (op[0] == 'i' && (op[1] == 'c' || op[1] == 's' || op[1] == 'n')) {
      size_t n = craft(op + 2, buf);
      if (op[1] == 'c') {
        if (g_cs) {
          tg_emit("n.inj:c:%zu", n);
          vn_inject_session(g_cli, g_cs, buf, n);
        }
      } else {
        coap_address_t from;
        if (op[1] == 's' && g_have_caddr)
          coap_address_copy(&from, &g_caddr);
        else
          vn_addr4(&from, 0x0a000001u, 40000);
        tg_emit("n.inj:%s:%zu", op[1] == 's' && g_have_caddr ? "s" : "o", n);
        vn_inject_ep(g_srv, g_ep, &from, NULL, buf, n);
      }
    } else if (op[0] == 'K') {
      /* history on one server context: retire this client, switch credentials */
      if (g_cs) {
        vn_unregister_client(g_cs);
        coap_session_release(g_cs);
        g_cs = NULL;
        tg_emit("a.rel:1");
      }
      /* a fresh client context: whatever still referenced the old session goes with the old one */
      coap_free_context(g_cli);
      g_cli = coap_new_context(NULL);
      coap_register_response_handler(g_cli, on_resp);
      coap_register_nack_handler(g_cli, on_nack);
      coap_register_event_handler(g_cli, on_event_c);
      tg_emit("a.next");
      g_ss = g_ss_dying = NULL;
      g_have_caddr = 0;
      memset(g_req, 0, sizeof(g_req));
      g_npend = 0;                      /* what is still on the wire is lost */
      {
        char *spec = strdup(op + 1), *f1 = spec, *f2, *f3;
        f2 = strchr(f1, ':');
        if (f2) *f2++ = 0;
        f3 = f2 ? strchr(f2, ':') : NULL;
        if (f3) *f3++ = 0;
        free(g_k_sni);
        g_k_sni = strcmp(f1, "-") ? strdup(f1) : NULL;
        csni = g_k_sni;
        if (f2) { free(ck); ck = hexfield(f2, strlen(f2), &ckl); }
        if (f3) { free(cid); cid = hexfield(f3, strlen(f3), &cidl); }
        free(spec);
      }
    } else if (strcmp(op, "rel") == 0) {
      if (g_cs) {
        coap_session_t *s = g_cs;
        /* while in-flight messages reference the session the library would free it later, at a
         * moment this driver cannot see: release only when ours is the last reference */
        if (s->ref == 1) {
          vn_unregister_client(s);
          coap_session_release(s);
          g_cs = NULL;
          tg_emit("a.rel:1");
        } else
          tg_emit("a.rel:skip");
      }
    } else
      tg_emit("a.badop");
    scan_wire();
    snapshot();
  }
out:
  tg_emit("|end");
  if (g_cs) {
    vn_unregister_client(g_cs);
    g_cs = NULL;   /* freed with the context */
  }
  if (g_cli) coap_free_context(g_cli);
  g_cli = NULL;
  if (g_srv) coap_free_context(g_srv);
  g_srv = NULL;
  g_ss = g_ss_dying = NULL;
  scan_wire();
  tg_emit("a.hsok:%d:%d", tg_hs_success[0], tg_hs_success[1]);
  printf("%s\n", tg_tr ? tg_tr : "");
  free(cid);
  free(ck);
  free(sh);
  free(sk);
  free_table(&t_cih);
  free_table(&t_sids);
  free_table(&t_ssni);
}

/* ------------------------------------------------------------------ ClientHello pre-filter sweep
 *   c19pre <hex datagram>   -> "pre new=<0|1>"  (was a server session object created for a
 *   datagram from a fresh address at a DTLS endpoint?) */
static int g_pre_new;
static int on_event_pre(coap_session_t *s, coap_event_t e) {
  (void)s;
  if (e == COAP_EVENT_SERVER_SESSION_NEW) g_pre_new++;
  return 0;
}

static void run_pre(void) {
  static coap_context_t *ctx = NULL;
  static coap_endpoint_t *ep = NULL;
  static unsigned port = 20000;
  if (!ctx) {
    coap_dtls_spsk_t sp;
    coap_address_t a;
    ctx = coap_new_context(NULL);
    memset(&sp, 0, sizeof(sp));
    sp.version = COAP_DTLS_SPSK_SETUP_VERSION;
    sp.psk_info.key.s = (const uint8_t *)"k";
    sp.psk_info.key.length = 1;
    coap_context_set_psk2(ctx, &sp);
    vn_addr4(&a, VN_LOOPBACK, 0);
    ep = coap_new_endpoint(ctx, &a, COAP_PROTO_DTLS);
    coap_register_event_handler(ctx, on_event_pre);
    coap_context_set_max_idle_sessions(ctx, 1);
    coap_context_set_max_handshake_sessions(ctx, 1000000);
  }
  size_t n;
  uint8_t *b = bytes_of_tok(vntok > 1 ? vtok[1] : "-", &n);
  coap_address_t from;
  vn_addr4(&from, 0x0a000002u, (uint16_t)(1024 + (port++ % 60000)));
  g_pre_new = 0;
  tg_trace_reset();
  size_t before = vn_nout;
  vn_inject_ep(ctx, ep, &from, NULL, b, n);
  printf("pre new=%d sent=%zu\n", g_pre_new, vn_nout - before);
  free(b);
  vn_log_reset();
}

/* the constants the Coq model assumes, as the headers define them today */
static void run_const(void) {
#define K(n, v) printf("%s=%d ", n, (int)(v))
  K("AGAIN", GNUTLS_E_AGAIN); K("INTERRUPTED", GNUTLS_E_INTERRUPTED);
  K("INSUFFICIENT_CREDENTIALS", GNUTLS_E_INSUFFICIENT_CREDENTIALS);
  K("FATAL_ALERT_RECEIVED", GNUTLS_E_FATAL_ALERT_RECEIVED);
  K("UNEXPECTED_HANDSHAKE_PACKET", GNUTLS_E_UNEXPECTED_HANDSHAKE_PACKET);
  K("UNEXPECTED_PACKET", GNUTLS_E_UNEXPECTED_PACKET);
  K("WARNING_ALERT_RECEIVED", GNUTLS_E_WARNING_ALERT_RECEIVED);
  K("NO_CERTIFICATE_FOUND", GNUTLS_E_NO_CERTIFICATE_FOUND);
  K("CERTIFICATE_REQUIRED", GNUTLS_E_CERTIFICATE_REQUIRED);
  K("DECRYPTION_FAILED", GNUTLS_E_DECRYPTION_FAILED); K("CERTIFICATE_ERROR", GNUTLS_E_CERTIFICATE_ERROR);
  K("UNKNOWN_CIPHER_SUITE", GNUTLS_E_UNKNOWN_CIPHER_SUITE); K("NO_CIPHER_SUITES", GNUTLS_E_NO_CIPHER_SUITES);
  K("INVALID_SESSION", GNUTLS_E_INVALID_SESSION); K("SESSION_EOF", GNUTLS_E_SESSION_EOF);
  K("PREMATURE_TERMINATION", GNUTLS_E_PREMATURE_TERMINATION); K("TIMEDOUT", GNUTLS_E_TIMEDOUT);
  K("PULL_ERROR", GNUTLS_E_PULL_ERROR); K("PUSH_ERROR", GNUTLS_E_PUSH_ERROR);
  K("EV_DTLS_CLOSED", COAP_EVENT_DTLS_CLOSED); K("EV_DTLS_CONNECTED", COAP_EVENT_DTLS_CONNECTED);
  K("EV_DTLS_ERROR", COAP_EVENT_DTLS_ERROR); K("EV_SESSION_CONNECTED", COAP_EVENT_SESSION_CONNECTED);
  K("NACK_TOO_MANY_RETRIES", COAP_NACK_TOO_MANY_RETRIES); K("NACK_NOT_DELIVERABLE", COAP_NACK_NOT_DELIVERABLE);
  K("NACK_TLS_FAILED", COAP_NACK_TLS_FAILED);
  printf("NACK_TLS_LAYER_FAILED=%d\n", (int)COAP_NACK_TLS_LAYER_FAILED);
  /* further facts the model and the trace parser rely on */
  printf("STATES=%d,%d,%d,%d,%d MAX_RETRANSMIT=%d NSTART=%d HINT_LENGTH=%d\n", COAP_SESSION_STATE_NONE,
         COAP_SESSION_STATE_CONNECTING, COAP_SESSION_STATE_HANDSHAKE, COAP_SESSION_STATE_CSM,
         COAP_SESSION_STATE_ESTABLISHED, (int)COAP_DEFAULT_MAX_RETRANSMIT, (int)COAP_DEFAULT_NSTART,
         (int)COAP_DTLS_HINT_LENGTH);
}

int main(void) {
  FILE *in = tg_stdin_dup();
  coap_startup();
  coap_set_log_level(COAP_LOG_EMERG);
  coap_dtls_set_log_level(COAP_LOG_EMERG);
  tg_virtual_gnutls_time();
  tg_name_of = sname;
  tg_fd0_mode(0);
  while (next_case(in)) {
    if (vntok == 0) {
      printf("\n");
    } else if (strcmp(vtok[0], "c19") == 0) {
      run_case();
    } else if (strcmp(vtok[0], "c19pre") == 0) {
      run_pre();
    } else if (strcmp(vtok[0], "c19const") == 0) {
      run_const();
    } else
      printf("ERROR unknown case\n");
    fflush(stdout);
  }
  coap_cleanup();
  return 0;
}

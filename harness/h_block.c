/* C09 leaf driver: block option codec, block size selection, slicing and the received-ranges
 * array of src/coap_block.c, one case per line (same formats as ocaml/d_block.ml).
 * coap_block.c is included so that its static helpers (setup_block_b, update_received_blocks,
 * check_if_received_block, check_all_blocks_in, check_if_next_block) can be called as they are. */
#include "coap3/coap_libcoap_build.h"
#include "coap_block.c"
#include "common/util.h"

/* blkopt <num> <m> <szx>: the library writes the option (coap_write_block_opt), we read the raw
 * value back and decode it with coap_get_block_b / coap_opt_block_num */
static void blkopt(void) {
  unsigned num = (unsigned)atol(vtok[1]);
  int m = atoi(vtok[2]), szx = atoi(vtok[3]);
  coap_pdu_t *pdu = coap_pdu_init(COAP_MESSAGE_CON, COAP_REQUEST_CODE_PUT, 1, 4096);
  coap_block_t blk;
  coap_block_b_t bb;
  coap_opt_iterator_t oi;
  size_t chunk = (size_t)1 << (szx + 4);
  size_t start = (size_t)num << (szx + 4);
  size_t total = m ? start + chunk + 1 : start + 1;
  blk.num = num; blk.m = 0; blk.szx = szx;
  int w = coap_write_block_opt(&blk, COAP_OPTION_BLOCK1, pdu, total);
  coap_opt_t *o = coap_check_option(pdu, COAP_OPTION_BLOCK1, &oi);
  printf("w=%d v=", w);
  if (o) show_bytes(stdout, coap_opt_value(o), coap_opt_length(o)); else fputs("none", stdout);
  int r = coap_get_block_b(NULL, pdu, COAP_OPTION_BLOCK1, &bb);
  if (r) printf(" r=1 n=%u m=%u s=%u c=%u", bb.num, bb.m, bb.szx, (unsigned)bb.chunk_size);
  else printf(" r=0");
  printf(" N=%u\n", o ? coap_opt_block_num(o) : 0);
  coap_delete_pdu(pdu);
}

/* blkdec <hex>: arbitrary option value */
static void blkdec(void) {
  size_t n;
  uint8_t *b = bytes_of_tok(vtok[1], &n);
  coap_pdu_t *pdu = coap_pdu_init(COAP_MESSAGE_CON, COAP_REQUEST_CODE_PUT, 1, 4096);
  coap_block_b_t bb;
  coap_opt_iterator_t oi;
  coap_add_option(pdu, COAP_OPTION_BLOCK2, n, b);
  coap_opt_t *o = coap_check_option(pdu, COAP_OPTION_BLOCK2, &oi);
  int r = coap_get_block_b(NULL, pdu, COAP_OPTION_BLOCK2, &bb);
  if (r) printf("r=1 n=%u m=%u s=%u", bb.num, bb.m, bb.szx);
  else printf("r=0");
  printf(" N=%u M=%d S=%d\n", coap_opt_block_num(o), COAP_OPT_BLOCK_MORE(o) ? 1 : 0,
         COAP_OPT_BLOCK_SZX(o));
  coap_delete_pdu(pdu);
  free(b);
}

/* blksetup <num> <szx> <avail> <total>: setup_block_b with [avail] bytes left in the PDU */
static void blksetup(void) {
  unsigned num = (unsigned)atol(vtok[1]);
  unsigned szx = (unsigned)atoi(vtok[2]);
  size_t avail = (size_t)atol(vtok[3]), total = (size_t)atol(vtok[4]);
  coap_pdu_t *pdu = coap_pdu_init(COAP_MESSAGE_CON, COAP_REQUEST_CODE_PUT, 1, avail);
  coap_block_b_t bb;
  memset(&bb, 0, sizeof(bb));
  bb.defined = 1;
  int r = setup_block_b(NULL, pdu, &bb, num, szx, total);
  if (r) printf("r=1 n=%u s=%u m=%u\n", bb.num, bb.szx, bb.m);
  else printf("r=0\n");
  coap_delete_pdu(pdu);
}

/* blkfls <avail>: block size from the space left (coap_add_data_large_internal) */
static void blkfls(void) {
  long long avail = atoll(vtok[1]);
  int s = coap_flsll(avail) - 4 - 1;
  if (s > 6) s = 6;
  printf("%d\n", s);
}

/* blkslice <body> <szx> <k>: coap_add_block and coap_add_block_b_data */
static void blkslice(void) {
  size_t n;
  uint8_t *body = bytes_of_tok(vtok[1], &n);
  unsigned szx = (unsigned)atoi(vtok[2]), k = (unsigned)atol(vtok[3]);
  coap_pdu_t *p1 = coap_pdu_init(COAP_MESSAGE_CON, COAP_REQUEST_CODE_PUT, 1, 4096);
  coap_pdu_t *p2 = coap_pdu_init(COAP_MESSAGE_CON, COAP_REQUEST_CODE_PUT, 1, 4096);
  coap_block_b_t bb;
  size_t l;
  const uint8_t *d;
  int r1 = coap_add_block(p1, n, body, k, (unsigned char)szx);
  memset(&bb, 0, sizeof(bb));
  bb.num = k; bb.szx = szx;
  int r2 = coap_add_block_b_data(p2, n, body, &bb);
  printf("r=%d%d ", r1 ? 1 : 0, r2 ? 1 : 0);
  if (coap_get_data(p1, &l, &d)) show_bytes(stdout, d, l); else fputs("-", stdout);
  fputc(' ', stdout);
  if (coap_get_data(p2, &l, &d)) show_bytes(stdout, d, l); else fputs("-", stdout);
  printf(" m=%d\n", ((size_t)k << (szx + 4)) + ((size_t)1 << (szx + 4)) < n);
  coap_delete_pdu(p1);
  coap_delete_pdu(p2);
  free(body);
}

/* blkrb <n1> <n2> ...: the range array under a sequence of block numbers */
static void show_ranges(coap_rblock_t *rb) {
  fputc('[', stdout);
  for (uint32_t i = 0; i < rb->used; i++)
    printf("%s%u-%u", i ? "," : "", rb->range[i].begin, rb->range[i].end);
  fputc(']', stdout);
}

static void blkrb(void) {
  coap_rblock_t rb;
  unsigned mx = 0;
  memset(&rb, 0, sizeof(rb));
  for (int i = 1; i < vntok; i++) {
    unsigned n = (unsigned)atol(vtok[i]);
    if (n > mx) mx = n;
    int c = check_if_received_block(&rb, n);
    int x = check_if_next_block(&rb, n);
    int u = update_received_blocks(&rb, n);
    printf("%u:%d%d%d", n, c, x, u);
    show_ranges(&rb);
    fputc(' ', stdout);
  }
  fputs("A=", stdout);
  /* totals 0..min(mx+3, 40) and, for large block numbers, mx-1..mx+3 */
  for (unsigned t = 0; t <= mx + 3 && t <= 40; t++) fputc(check_all_blocks_in(&rb, t) ? '1' : '0', stdout);
  if (mx + 3 > 40)
    for (unsigned t = mx - 1; t <= mx + 3; t++) fputc(check_all_blocks_in(&rb, t) ? '1' : '0', stdout);
  fputc('\n', stdout);
}

int main(void) {
  coap_startup();
  coap_set_log_level(COAP_LOG_EMERG);
  while (next_case(stdin)) {
    if (vntok == 0) { puts(""); continue; }
    if (!strcmp(vtok[0], "blkopt")) blkopt();
    else if (!strcmp(vtok[0], "blkdec")) blkdec();
    else if (!strcmp(vtok[0], "blksetup")) blksetup();
    else if (!strcmp(vtok[0], "blkfls")) blkfls();
    else if (!strcmp(vtok[0], "blkslice")) blkslice();
    else if (!strcmp(vtok[0], "blkrb")) blkrb();
    else puts("ERROR unknown command");
    fflush(stdout);
  }
  return 0;
}

/* C16 driver: URI text <-> options through libcoap's public functions, one case per line
 * (format: see ocaml/d_uri.ml).  Every input is an exact-size heap copy WITHOUT terminator and
 * every output buffer has exactly the stated size, so that the asan variant traps any access
 * outside them. */
#include "coap3/coap_libcoap_build.h"
#include "common/util.h"

/* exact-size copy (malloc(0) for an empty string: asan then traps any access) */
static uint8_t *exact_tok(const char *tok, size_t *n) {
  uint8_t *t = bytes_of_tok(tok, n);
  uint8_t *e = (uint8_t *)malloc(*n);
  if (*n) memcpy(e, t, *n);
  free(t);
  return e;
}

static void full_hex(FILE *o, const uint8_t *b, size_t n) {
  if (n == 0) { fputs("-", o); return; }
  for (size_t i = 0; i < n; i++) fprintf(o, "%02x", b[i]);
}

/* upath <buflen> <bytes> | uquery <buflen> <bytes> */
static void usplit(int query) {
  size_t buflen = (size_t)atol(vtok[1]), n, out;
  uint8_t *s = exact_tok(vtok[2], &n);
  uint8_t *buf = (uint8_t *)malloc(buflen);
  int r;
  out = buflen;
  r = query ? coap_split_query(s, n, buf, &out) : coap_split_path(s, n, buf, &out);
  printf("n=%d used=%zu buf=", r, out);
  if (out <= buflen) full_hex(stdout, buf, out);
  else fputs("OVERFLOW", stdout);
  fputc('\n', stdout);
  free(buf);
  free(s);
}

static const struct { uint16_t num; const char *v; } pre_opts[3] = {
  { 3, "h" }, { 7, "p" }, { 11, "x" }
};

static void show_chain(coap_optlist_t *c) {
  int first = 1;
  fputs(" chain=", stdout);
  for (; c; c = c->next) {
    if (!first) fputc(',', stdout);
    first = 0;
    printf("%u:", (unsigned)c->number);
    full_hex(stdout, c->data, c->length);
  }
  if (first) fputc('-', stdout);
}

/* upol <npre> <optnum> <bytes> | uqol <npre> <optnum> <bytes> */
static void uoptlist(int query) {
  int npre = atoi(vtok[1]);
  uint16_t num = (uint16_t)atoi(vtok[2]);
  size_t n;
  uint8_t *s = exact_tok(vtok[3], &n);
  coap_optlist_t *chain = NULL;
  int r;
  for (int i = 0; i < npre && i < 3; i++)
    coap_insert_optlist(&chain, coap_new_optlist(pre_opts[i].num, 1, (const uint8_t *)pre_opts[i].v));
  r = query ? coap_query_into_optlist(s, n, num, &chain) : coap_path_into_optlist(s, n, num, &chain);
  printf("rc=%d", r);
  show_chain(chain);
  fputc('\n', stdout);
  coap_delete_optlist(chain);
  free(s);
}

/* ugetp <seg>* | ugetq <seg>* : options -> string -> options */
static void uget(int query) {
  coap_pdu_t *pdu = coap_pdu_init(COAP_MESSAGE_CON, COAP_REQUEST_CODE_GET, 1, 60000);
  coap_string_t *str;
  int ok = 1;
  if (!pdu) { puts("NOPDU"); return; }
  for (int i = 1; i < vntok; i++) {
    size_t n;
    uint8_t *b = bytes_of_tok(vtok[i], &n);
    if (!coap_add_option(pdu, query ? COAP_OPTION_URI_QUERY : COAP_OPTION_URI_PATH, n, b)) ok = 0;
    free(b);
  }
  if (!ok) { puts("NOADD"); coap_delete_pdu(pdu); return; }
  str = query ? coap_get_query(pdu) : coap_get_uri_path(pdu);
  fputs("str=", stdout);
  if (!str || str->length == 0) {
    fputs("- back=n=0 used=0 buf=-", stdout);
  } else {
    size_t blen = 4 * str->length + 16, out = blen;
    uint8_t *copy = (uint8_t *)malloc(str->length);
    uint8_t *buf = (uint8_t *)malloc(blen);
    int r;
    memcpy(copy, str->s, str->length);
    full_hex(stdout, copy, str->length);
    r = query ? coap_split_query(copy, str->length, buf, &out)
              : coap_split_path(copy, str->length, buf, &out);
    printf(" back=n=%d used=%zu buf=", r, out);
    full_hex(stdout, buf, out <= blen ? out : 0);
    free(copy);
    free(buf);
  }
  fputc('\n', stdout);
  if (str) coap_delete_string(str);
  coap_delete_pdu(pdu);
}

/* ugetproxy <bytes> : coap_get_uri_path on a request that carries a Proxy-Uri option */
static void ugetproxy(void) {
  coap_pdu_t *pdu = coap_pdu_init(COAP_MESSAGE_CON, COAP_REQUEST_CODE_GET, 1, 60000);
  size_t n;
  uint8_t *b = exact_tok(vtok[1], &n);
  coap_string_t *str;
  if (!pdu || !coap_add_option(pdu, COAP_OPTION_PROXY_URI, n, b)) { puts("NOADD"); free(b); coap_delete_pdu(pdu); return; }
  str = coap_get_uri_path(pdu);
  if (!str) puts("null");
  else {
    fputs("path=", stdout);
    full_hex(stdout, str->s, str->length);
    fputc('\n', stdout);
    coap_delete_string(str);
  }
  free(b);
  coap_delete_pdu(pdu);
}

/* ucaps : which schemes this build supports */
static void ucaps(void) {
  printf("caps=%d%d%d%d%d\n", coap_dtls_is_supported(), coap_tcp_is_supported(),
         coap_tls_is_supported(), coap_ws_is_supported(), coap_wss_is_supported());
}

/* uspl <proxy> <caps> <bytes> */
static void uspl(void) {
  int proxy = atoi(vtok[1]);
  size_t n;
  uint8_t *s = exact_tok(vtok[3], &n);
  coap_uri_t uri;
  int r;
  memset(&uri, 0x5a, sizeof(uri));
  r = proxy ? coap_split_proxy_uri(s, n, &uri) : coap_split_uri(s, n, &uri);
  printf("rc=%d", r);
  if (r == 0) {
    printf(" sch=%d host=", (int)uri.scheme);
    full_hex(stdout, uri.host.s, uri.host.length);
    printf(" port=%u path=", (unsigned)uri.port);
    full_hex(stdout, uri.path.s, uri.path.length);
    fputs(" query=", stdout);
    full_hex(stdout, uri.query.s, uri.query.length);
  }
  fputc('\n', stdout);
  free(s);
}

/* unew <caps> <bytes> : coap_new_uri (copy + coap_split_uri) and coap_clone_uri of the result */
static void unew(void) {
  size_t n;
  uint8_t *s = exact_tok(vtok[2], &n);
  coap_uri_t *u = coap_new_uri(s, (unsigned int)n);
  free(s);          /* the copy must not depend on the caller's buffer */
  if (!u) { puts("rc=-1"); return; }
  coap_uri_t *c = coap_clone_uri(u);
  printf("rc=0 sch=%d host=", (int)u->scheme);
  full_hex(stdout, u->host.s, u->host.length);
  printf(" port=%u path=", (unsigned)u->port);
  full_hex(stdout, u->path.s, u->path.length);
  fputs(" query=", stdout);
  full_hex(stdout, u->query.s, u->query.length);
  coap_delete_uri(u);
  if (c) {
    fputs(" clone=", stdout);
    full_hex(stdout, c->host.s, c->host.length);
    printf(":%u/", (unsigned)c->port);
    full_hex(stdout, c->path.s, c->path.length);
    fputs("?", stdout);
    full_hex(stdout, c->query.s, c->query.length);
    coap_delete_uri(c);
  }
  fputc('\n', stdout);
}

/* uhostunix <bytes> : coap_host_is_unix_domain on an exact-size host */
static void uhostunix(void) {
  size_t n;
  uint8_t *s = exact_tok(vtok[1], &n);
  coap_str_const_t h = { n, s };
  printf("unix=%d\n", coap_host_is_unix_domain(&h));
  free(s);
}

/* uunix <pmax> <bytes> : coap_address_set_unix_domain on an exact-size host; sun_path as C string */
static void uunix(void) {
  size_t n;
  uint8_t *s = exact_tok(vtok[2], &n);
  coap_address_t a;
  int r = coap_address_set_unix_domain(&a, s, n);
  printf("max=%zu rc=%d path=", (size_t)COAP_UNIX_PATH_MAX, r);
  if (r) full_hex(stdout, (const uint8_t *)a.addr.cun.sun_path,
                  strnlen(a.addr.cun.sun_path, COAP_UNIX_PATH_MAX));
  else fputs("-", stdout);
  fputc('\n', stdout);
  free(s);
}

/* uinto <create_port_host> <dst address text | -> <bytes> : coap_split_uri + coap_uri_into_optlist */
static void uinto(void) {
  int create = atoi(vtok[1]);
  size_t n;
  uint8_t *s = exact_tok(vtok[3], &n);
  coap_uri_t uri;
  coap_address_t dst, *pdst = NULL;
  coap_optlist_t *chain = NULL;
  int r;
  if (strcmp(vtok[2], "-") != 0) {
    coap_address_init(&dst);
    if (strchr(vtok[2], ':')) {
      dst.addr.sin6.sin6_family = AF_INET6;
      dst.size = sizeof(struct sockaddr_in6);
      inet_pton(AF_INET6, vtok[2], &dst.addr.sin6.sin6_addr);
    } else {
      dst.addr.sin.sin_family = AF_INET;
      dst.size = sizeof(struct sockaddr_in);
      inet_pton(AF_INET, vtok[2], &dst.addr.sin.sin_addr);
    }
    pdst = &dst;
  }
  r = coap_split_uri(s, n, &uri);
  printf("rc=%d", r);
  if (r == 0) {
    int r2 = coap_uri_into_optlist(&uri, pdst, &chain, create);
    printf(" into=%d", r2);
    show_chain(chain);
    coap_delete_optlist(chain);
  }
  fputc('\n', stdout);
  free(s);
}

int main(void) {
  coap_startup();
  coap_set_log_level(COAP_LOG_EMERG);
  while (next_case(stdin)) {
    if (vntok == 0) { puts(""); continue; }
    if (!strcmp(vtok[0], "upath") && vntok == 3) usplit(0);
    else if (!strcmp(vtok[0], "uquery") && vntok == 3) usplit(1);
    else if (!strcmp(vtok[0], "upol") && vntok == 4) uoptlist(0);
    else if (!strcmp(vtok[0], "uqol") && vntok == 4) uoptlist(1);
    else if (!strcmp(vtok[0], "ugetp")) uget(0);
    else if (!strcmp(vtok[0], "ugetq")) uget(1);
    else if (!strcmp(vtok[0], "ugetproxy") && vntok == 2) ugetproxy();
    else if (!strcmp(vtok[0], "ucaps")) ucaps();
    else if (!strcmp(vtok[0], "uspl") && vntok == 4) uspl();
    else if (!strcmp(vtok[0], "uinto") && vntok == 4) uinto();
    else if (!strcmp(vtok[0], "unew") && vntok == 3) unew();
    else if (!strcmp(vtok[0], "uhostunix") && vntok == 2) uhostunix();
    else if (!strcmp(vtok[0], "uunix") && vntok == 3) uunix();
    else if (!strcmp(vtok[0], "uunixmax")) printf("%zu\n", (size_t)COAP_UNIX_PATH_MAX);
    else puts("ERROR unknown command");
    fflush(stdout);
  }
  return 0;
}

/* Smoke test and template for harness/common/vnet.h (not a property check).
 * Build: vlib.build_driver("h_vnet_demo", ["h_vnet_demo.c"],
 *                          wraps=["coap_ticks", "coap_socket_send", "coap_socket_recv"])
 * Prints a deterministic trace:
 *   part 1: a CON GET that is never delivered: transmissions at t0, +T, +3T, +7T, +15T and one
 *           NACK TOO_MANY_RETRIES at +31T (T in [2000,3000] ms chosen by the scripted PRNG byte);
 *   part 2: a CON GET delivered to a real server context in the same process, the piggybacked
 *           response routed back, the response handler runs once;
 *   part 3: a raw datagram from a scripted peer address -> server session created, reply logged.
 */
#include "coap3/coap_libcoap_build.h"
#include "common/util.h"
#include "common/vnet.h"

static int n_resp = 0, n_nack = 0, n_get = 0;

static coap_response_t on_resp(coap_session_t *s, const coap_pdu_t *sent, const coap_pdu_t *rcv,
                               const coap_mid_t mid) {
  size_t len;
  const uint8_t *data;
  (void)s; (void)sent; (void)mid;
  n_resp++;
  coap_get_data(rcv, &len, &data);
  printf("  response code=%u.%02u payload=", coap_pdu_get_code(rcv) >> 5,
         coap_pdu_get_code(rcv) & 31);
  show_bytes(stdout, data, len);
  printf("\n");
  return COAP_RESPONSE_OK;
}

static void on_nack(coap_session_t *s, const coap_pdu_t *sent, const coap_nack_reason_t reason,
                    const coap_mid_t mid) {
  (void)s; (void)sent;
  n_nack++;
  printf("  nack reason=%d mid=%d t=%llu\n", (int)reason, mid, (unsigned long long)vn_now);
}

static void on_get(coap_resource_t *r, coap_session_t *s, const coap_pdu_t *req,
                   const coap_string_t *q, coap_pdu_t *resp) {
  (void)r; (void)s; (void)req; (void)q;
  n_get++;
  coap_pdu_set_code(resp, COAP_RESPONSE_CODE_CONTENT);
  coap_add_data(resp, 5, (const uint8_t *)"hello");
}

static coap_pdu_t *mk_get(coap_session_t *s, const char *path) {
  coap_pdu_t *p = coap_new_pdu(COAP_MESSAGE_CON, COAP_REQUEST_CODE_GET, s);
  uint8_t tok[8];
  size_t tl;
  coap_session_new_token(s, &tl, tok);
  coap_add_token(p, tl, tok);
  coap_add_option(p, COAP_OPTION_URI_PATH, strlen(path), (const uint8_t *)path);
  return p;
}

int main(void) {
  coap_startup();
  coap_set_log_level(COAP_LOG_EMERG);
  vn_prng_seed(7);

  coap_context_t *srv = coap_new_context(NULL);
  coap_context_t *cli = coap_new_context(NULL);
  coap_endpoint_t *ep = vn_new_server_ep(srv);
  coap_resource_t *r = coap_resource_init(coap_make_str_const("r"), 0);
  coap_register_request_handler(r, COAP_REQUEST_GET, on_get);
  coap_add_resource(srv, r);
  coap_register_response_handler(cli, on_resp);
  coap_register_nack_handler(cli, on_nack);
  coap_session_t *cs = vn_new_client(cli, &ep->bind_addr);
  if (!ep || !cs) {
    printf("setup failed\n");
    return 1;
  }

  printf("part1\n");
  coap_tick_t t0 = vn_now;
  coap_send(cs, mk_get(cs, "r"));
  for (int guard = 0; guard < 100; guard++) {
    unsigned w = vn_prepare(cli);
    if (w == 0) break;
    vn_advance(w);
  }
  vn_prepare(cli);
  for (size_t i = 0; i < vn_nout; i++) {
    printf("  tx +%llu ", (unsigned long long)(vn_out[i].t - t0));
    vn_dgram_t d = vn_out[i];
    d.t = 0;
    vn_show_dgram(stdout, &d);
    printf("\n");
  }
  printf("  nacks=%d responses=%d\n", n_nack, n_resp);

  printf("part2\n");
  vn_log_reset();
  coap_send(cs, mk_get(cs, "r"));
  size_t req = vn_nout - 1;
  vn_route(req);                /* server handles it, reply is logged */
  printf("  server handler calls=%d log=%zu\n", n_get, vn_nout);
  if (vn_nout > req + 1) vn_route(req + 1);
  printf("  responses=%d pending wait=%u\n", n_resp, vn_prepare(cli));

  printf("part3\n");
  vn_log_reset();
  coap_address_t peer;
  vn_addr4(&peer, 0x0a000001u, 40000);
  static const uint8_t raw[] = {0x40, 0x01, 0x12, 0x34, 0xb1, 'r'};
  vn_inject_ep(srv, ep, &peer, NULL, raw, sizeof(raw));
  for (size_t i = 0; i < vn_nout; i++) {
    printf("  reply ");
    vn_dgram_t d = vn_out[i];
    d.t = 0;
    vn_show_dgram(stdout, &d);
    printf(" to_port=%u\n", ntohs(d.dst.addr.sin.sin_port));
  }
  printf("  server handler calls=%d\n", n_get);

  coap_session_release(cs);
  coap_free_context(cli);
  coap_free_context(srv);
  coap_cleanup();
  printf("done\n");
  return 0;
}

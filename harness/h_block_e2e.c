/* C09 end-to-end driver: a real libcoap client and a real libcoap server in one process, joined
 * by the scripted network of common/vnet.h (virtual clock, no byte travels through a socket).
 *
 * case line:
 *   e2e <dir> <len> <seed> <type> <cli_szx> <srv_szx> <app_szx> <single_cli> <single_srv>
 *       <cli_mtu> <srv_mtu> <sched>
 *     dir       b1 = PUT with a large request body, b2 = GET with a large response body
 *     len/seed  the body: byte i = fill_byte(seed, i)   (any slip < 64 KiB is visible)
 *     type      0 = CON, 1 = NON
 *     *_szx     7 = not set; else coap_context_set_max_block_size(16 << szx) on that context;
 *               app_szx: Block1 (b1) / Block2 (b2) option preset by the client application
 *     single_*  COAP_BLOCK_SINGLE_BODY on that context
 *     *_mtu     coap_session_set_mtu (0 = default 1152)
 *     sched     one action per datagram in sending order, '.' beyond the end:
 *               . deliver   x drop   2 deliver twice   r deliver now and again 3 datagrams later
 *               h hold back until the next datagram has been handled (reorder)
 * result: a trace, one token per event (see tools/checks/c09.py).
 */
#include "coap3/coap_libcoap_build.h"
#include "common/util.h"
#include "common/vnet.h"

static uint8_t *body;
static size_t body_len;
static uint8_t *body2;          /* second transfer of "e2e b11": its own byte stream */
static size_t body2_len;
static uint8_t app_tok2[40];
static int opt_tok, opt_meth, opt_rq, opt_q2, opt_nort;   /* key=value options of the e2e line */
static size_t app_tok2_len;
static coap_context_t *srv, *cli;
static coap_endpoint_t *ep;
static coap_session_t *cs;
static unsigned srv_mtu;
static int dir_b2;
static uint8_t app_tok[40];
static size_t app_tok_len;
static int n_rel_c, n_rel_s;

static uint32_t fnv(const uint8_t *b, size_t n) {
  uint32_t h = 0x811c9dc5u;
  for (size_t i = 0; i < n; i++) h = (h ^ b[i]) * 0x01000193u;
  return h;
}

static void show_tok(const coap_pdu_t *p) {
  coap_bin_const_t t = coap_pdu_get_token(p);
  if (t.length == 0) fputs("-", stdout);
  for (size_t i = 0; i < t.length; i++) printf("%02x", t.s[i]);
}

/* what a handler got through coap_get_data_large: off:total:len:hash:eq  (eq: bytes equal the
 * submitted body at that offset '=', differ '!', nothing to compare '?') */
static void show_large(const coap_pdu_t *p) {
  size_t len = 0, off = 0, total = 0;
  const uint8_t *d = NULL;
  int r = coap_get_data_large(p, &len, &d, &off, &total);
  char eq = '?';
  if (r && d) {
    eq = (off + len <= body_len && memcmp(d, body + off, len) == 0) ? '=' : '!';
    if (body2 && total == body2_len && off + len <= body2_len && memcmp(d, body2 + off, len) == 0 &&
        !(eq == '=' && total == body_len))
      eq = '+';                /* equals the second transfer's body at that offset */
  }
  printf("%zu:%zu:%zu:%08x:%c", off, total, len, d ? fnv(d, len) : 0, eq);
}

static void show_blk(const coap_pdu_t *p, coap_option_num_t n) {
  coap_block_b_t b;
  if (coap_get_block_b(NULL, p, n, &b)) printf("%u/%u/%u", b.num, b.m, b.szx);
  else fputs("-", stdout);
}

static void rel_c(coap_session_t *s, void *p) { (void)s; (void)p; n_rel_c++; printf("REL:c "); }
static void rel_s(coap_session_t *s, void *p) { (void)s; (void)p; n_rel_s++; printf("REL:s "); }

static void hnd_put(coap_resource_t *r, coap_session_t *s, const coap_pdu_t *req,
                    const coap_string_t *q, coap_pdu_t *resp) {
  (void)r; (void)s; (void)q;
  printf("HS:%u:", coap_pdu_get_code(req));
  show_tok(req); fputc(':', stdout);
  show_large(req); fputc(':', stdout);
  show_blk(req, COAP_OPTION_BLOCK1);
  fputc(' ', stdout);
  coap_pdu_set_code(resp, COAP_RESPONSE_CODE_CHANGED);
}

static void hnd_get(coap_resource_t *r, coap_session_t *s, const coap_pdu_t *req,
                    const coap_string_t *q, coap_pdu_t *resp) {
  printf("HS:%u:", coap_pdu_get_code(req));
  show_tok(req); fputc(':', stdout);
  show_blk(req, COAP_OPTION_BLOCK2);
  fputc(' ', stdout);
  coap_pdu_set_code(resp, COAP_RESPONSE_CODE_CONTENT);
  /* "e2e b22": the representation depends on the query: ?v=1 is body A, anything else body B */
  int second = body2 && !(q && q->length == 3 && memcmp(q->s, "v=1", 3) == 0);
  int ok = coap_add_data_large_response(r, s, req, resp, q, COAP_MEDIATYPE_APPLICATION_OCTET_STREAM,
                                        -1, 0, second ? body2_len : body_len, second ? body2 : body,
                                        rel_s, NULL);
  printf("ADL:%d ", ok);
}

static coap_response_t hnd_resp(coap_session_t *s, const coap_pdu_t *sent, const coap_pdu_t *rcv,
                                const coap_mid_t mid) {
  (void)s; (void)sent; (void)mid;
  coap_bin_const_t t = coap_pdu_get_token(rcv);
  printf("HC:%u:", coap_pdu_get_code(rcv));
  show_tok(rcv);
  printf(":%c:", (t.length == app_tok_len && memcmp(t.s, app_tok, app_tok_len) == 0) ? 'T' :
         (body2 && t.length == app_tok2_len && memcmp(t.s, app_tok2, app_tok2_len) == 0) ? 'U' : 'F');
  show_large(rcv); fputc(':', stdout);
  show_blk(rcv, COAP_OPTION_BLOCK1); fputc(':', stdout);
  show_blk(rcv, COAP_OPTION_BLOCK2);
  fputc(' ', stdout);
  return COAP_RESPONSE_OK;
}

static void hnd_nack(coap_session_t *s, const coap_pdu_t *sent, const coap_nack_reason_t reason,
                     const coap_mid_t mid) {
  (void)s; (void)mid;
  printf("NK:%d:", (int)reason);
  if (!sent) { printf("-:N "); return; }     /* e.g. a Reset for a message no longer queued */
  coap_bin_const_t t = coap_pdu_get_token(sent);
  show_tok(sent);
  printf(":%c ", (t.length == app_tok_len && memcmp(t.s, app_tok, app_tok_len) == 0) ? 'T' :
         (body2 && t.length == app_tok2_len && memcmp(t.s, app_tok2, app_tok2_len) == 0) ? 'U' : 'F');
}

static int ev_srv(coap_session_t *s, coap_event_t e) {
  if (e == COAP_EVENT_SERVER_SESSION_NEW && srv_mtu) coap_session_set_mtu(s, srv_mtu);
  printf("EV:s:%x ", (unsigned)e);
  return 0;
}
static int ev_cli(coap_session_t *s, coap_event_t e) {
  (void)s;
  printf("EV:c:%x ", (unsigned)e);
  return 0;
}

/* TX<c|s>:idx:type:code:mid:tok:b1:b2:size1:size2:plen:phash:dlen:etag */
static void show_tx(size_t i) {
  vn_dgram_t *d = &vn_out[i];
  coap_pdu_t *p = coap_pdu_init(0, 0, 0, d->len + 8);
  char who = d->ctx == cli ? 'c' : 's';
  if (!p || !coap_pdu_parse(COAP_PROTO_UDP, d->data, d->len, p)) {
    printf("TX%c:%zu:UNPARSEABLE:%zu ", who, i, d->len);
    if (p) coap_delete_pdu(p);
    return;
  }
  size_t len = 0;
  const uint8_t *data = NULL;
  coap_opt_iterator_t oi;
  coap_opt_t *o;
  printf("TX%c:%zu:%d:%u:%u:", who, i, p->type, p->code, (unsigned)p->mid);
  show_tok(p); fputc(':', stdout);
  show_blk(p, COAP_OPTION_BLOCK1); fputc(':', stdout);
  show_blk(p, COAP_OPTION_BLOCK2); fputc(':', stdout);
  o = coap_check_option(p, COAP_OPTION_SIZE1, &oi);
  if (o) printf("%u:", coap_decode_var_bytes(coap_opt_value(o), coap_opt_length(o)));
  else printf("-:");
  o = coap_check_option(p, COAP_OPTION_SIZE2, &oi);
  if (o) printf("%u:", coap_decode_var_bytes(coap_opt_value(o), coap_opt_length(o)));
  else printf("-:");
  coap_get_data(p, &len, &data);
  printf("%zu:%08x:%zu:", len, data ? fnv(data, len) : 0, d->len);
  o = coap_check_option(p, COAP_OPTION_ETAG, &oi);
  if (o) printf("%llu ", (unsigned long long)coap_decode_var_bytes8(coap_opt_value(o), coap_opt_length(o)));
  else printf("- ");
  coap_delete_pdu(p);
}

static int count_ll(void *head, size_t next_off) {
  int n = 0;
  while (head) { n++; head = *(void **)((char *)head + next_off); }
  return n;
}

static void show_state(void) {
  static char last[64];
  char cur[64];
  int ls = 0, xs = 0;
  coap_session_t *s, *tmp;
  SESSIONS_ITER(ep->sessions, s, tmp) {
    ls += count_ll(s->lg_srcv, offsetof(coap_lg_srcv_t, next));
    xs += count_ll(s->lg_xmit, offsetof(coap_lg_xmit_t, next));
  }
  snprintf(cur, sizeof(cur), "ST:%d:%d:%d:%d:%d ", ls, xs,
           count_ll(cs->lg_crcv, offsetof(coap_lg_crcv_t, next)),
           count_ll(cs->lg_xmit, offsetof(coap_lg_xmit_t, next)),
           cs->lg_crcv ? cs->lg_crcv->initial : 0);
  if (strcmp(cur, last)) { fputs(cur, stdout); strcpy(last, cur); }
}

#define MAXHELD 64
static struct { size_t idx; int after; } held[MAXHELD];
static int nheld;

static void deliver(size_t i) {
  printf("RX:%zu ", i);
  vn_route(i);
  show_state();
}

static void e2e(void) {
  dir_b2 = !strncmp(vtok[1], "b2", 2);       /* "b1s"/"b2s": the same transfer, slow-success class */
  body2 = NULL;
  body2_len = 0;
  body_len = (size_t)atol(vtok[2]);
  long seed = atol(vtok[3]);
  int type = atoi(vtok[4]);
  int cli_szx = atoi(vtok[5]), srv_szx = atoi(vtok[6]), app_szx = atoi(vtok[7]);
  int single_cli = atoi(vtok[8]), single_srv = atoi(vtok[9]);
  unsigned cli_mtu = (unsigned)atoi(vtok[10]);
  srv_mtu = (unsigned)atoi(vtok[11]);
  const char *sched = vntok > 12 && !strchr(vtok[12], '=') ? vtok[12] : "";
  size_t nsched = strlen(sched);
  /* trailing key=value options: tok=<n> application token of n bytes (RFC 8974 extended tokens
   * above 8, max_token_size 32 on both ends); meth=fetch|post + rq=<n>: the download is asked for
   * with a request that carries n bytes of payload; q2=<0|2>: query of the second GET of "b22" */
  opt_tok = opt_meth = opt_rq = opt_q2 = opt_nort = 0;
  int npos = vntok;
  for (int i = 12; i < vntok; i++) {
    if (!strchr(vtok[i], '=')) continue;
    if (i < npos) npos = i;
    if (!strncmp(vtok[i], "tok=", 4)) opt_tok = atoi(vtok[i] + 4);
    else if (!strcmp(vtok[i], "meth=fetch")) opt_meth = 1;
    else if (!strcmp(vtok[i], "meth=post")) opt_meth = 2;
    else if (!strncmp(vtok[i], "rq=", 3)) opt_rq = atoi(vtok[i] + 3);
    else if (!strncmp(vtok[i], "q2=", 3)) opt_q2 = atoi(vtok[i] + 3);
    else if (!strncmp(vtok[i], "nort=", 5)) opt_nort = atoi(vtok[i] + 5);   /* COAP_BLOCK_NO_PREEMPTIVE_RTAG */
  }
  if (opt_tok > 32) opt_tok = 32;

  body = (uint8_t *)malloc(body_len ? body_len : 1);
  for (size_t i = 0; i < body_len; i++) body[i] = (uint8_t)fill_byte(seed, (long)i);
  n_rel_c = n_rel_s = 0;
  nheld = 0;
  vn_now = 1000;
  vn_log_reset();
  vn_nnodes = 0;
  vn_prng_seed((uint64_t)seed * 1000003u + body_len);

  srv = coap_new_context(NULL);
  cli = coap_new_context(NULL);
  coap_context_set_block_mode(srv, COAP_BLOCK_USE_LIBCOAP | (single_srv ? COAP_BLOCK_SINGLE_BODY : 0));
  coap_context_set_block_mode(cli, COAP_BLOCK_USE_LIBCOAP | (single_cli ? COAP_BLOCK_SINGLE_BODY : 0) |
                              (opt_nort ? COAP_BLOCK_NO_PREEMPTIVE_RTAG : 0));
  if (srv_szx != 7) coap_context_set_max_block_size(srv, (size_t)16 << srv_szx);
  if (cli_szx != 7) coap_context_set_max_block_size(cli, (size_t)16 << cli_szx);
  coap_register_event_handler(srv, ev_srv);
  coap_register_event_handler(cli, ev_cli);
  ep = vn_new_server_ep(srv);
  coap_resource_t *r = coap_resource_init(coap_make_str_const("t"), 0);
  coap_register_request_handler(r, COAP_REQUEST_PUT, hnd_put);
  coap_register_request_handler(r, COAP_REQUEST_GET, hnd_get);
  if (dir_b2) {
    coap_register_request_handler(r, COAP_REQUEST_FETCH, hnd_get);
    coap_register_request_handler(r, COAP_REQUEST_POST, hnd_get);
  }
  coap_add_resource(srv, r);
  coap_register_response_handler(cli, hnd_resp);
  coap_register_nack_handler(cli, hnd_nack);
  if (opt_tok > 8) {
    coap_context_set_max_token_size(srv, 32);
    coap_context_set_max_token_size(cli, 32);
  }
  cs = vn_new_client(cli, &ep->bind_addr);
  if (opt_tok > 8)
    /* the RFC 8974 probe request of the library waits in real time (coap_client_delay_first);
     * the harness declares the peer's support known instead */
    cs->max_token_checked = COAP_EXT_T_CHECKED;
  if (cli_mtu) coap_session_set_mtu(cs, cli_mtu);
  int b22 = !strcmp(vtok[1], "b22");

  coap_pdu_t *p = coap_new_pdu(type ? COAP_MESSAGE_NON : COAP_MESSAGE_CON,
                               !dir_b2 ? COAP_REQUEST_CODE_PUT :
                               opt_meth == 1 ? COAP_REQUEST_CODE_FETCH :
                               opt_meth == 2 ? COAP_REQUEST_CODE_POST : COAP_REQUEST_CODE_GET, cs);
  if (opt_tok > 0) {
    app_tok_len = (size_t)opt_tok;
    for (size_t i = 0; i < app_tok_len; i++) app_tok[i] = (uint8_t)(0xA0 + i);
  } else {
    coap_session_new_token(cs, &app_tok_len, app_tok);
  }
  coap_add_token(p, app_tok_len, app_tok);
  coap_add_option(p, COAP_OPTION_URI_PATH, 1, (const uint8_t *)"t");
  if (dir_b2 && opt_rq > 0) {
    uint8_t cf = COAP_MEDIATYPE_APPLICATION_OCTET_STREAM;
    coap_add_option(p, COAP_OPTION_CONTENT_FORMAT, 1, &cf);
  }
  if (b22) coap_add_option(p, COAP_OPTION_URI_QUERY, 3, (const uint8_t *)"v=1");
  if (app_szx != 7) {
    uint8_t buf[4];
    coap_add_option(p, dir_b2 ? COAP_OPTION_BLOCK2 : COAP_OPTION_BLOCK1,
                    coap_encode_var_safe(buf, sizeof(buf), (unsigned)app_szx), buf);
  }
  printf("TOK:");
  for (size_t i = 0; i < app_tok_len; i++) printf("%02x", app_tok[i]);
  fputc(' ', stdout);
  int adl_ok = 1;
  if (!dir_b2) {
    adl_ok = coap_add_data_large_request(cs, p, body_len, body, rel_c, NULL);
    printf("ADL:%d ", adl_ok);
  }
  if (dir_b2 && opt_rq > 0) {
    uint8_t rq[64];
    for (int i = 0; i < opt_rq && i < 64; i++) rq[i] = (uint8_t)(0x30 + i);
    coap_add_data(p, (size_t)(opt_rq > 64 ? 64 : opt_rq), rq);
  }
  if (adl_ok) {
    coap_mid_t mid = coap_send(cs, p);
    printf("SEND:%d ", mid);
  } else {
    coap_delete_pdu(p);      /* the API refused: the application has nothing to send */
    printf("NOSEND ");
  }
  show_state();

  /* "e2e b11 ... <sched> <len2> <startB>": a second PUT to the same resource on the same session,
   * sent when the datagram log has reached startB entries (0 = at once) */
  int two = (!strcmp(vtok[1], "b11") || b22) && npos >= 15;
  size_t start_b = 0;
  int sent_b = 1;
  body2 = NULL;
  if (two) {
    body2_len = (size_t)atol(vtok[13]);
    start_b = (size_t)atol(vtok[14]);
    body2 = (uint8_t *)malloc(body2_len ? body2_len : 1);
    for (size_t i = 0; i < body2_len; i++) body2[i] = (uint8_t)fill_byte(seed + 1, (long)i);
    sent_b = 0;
  }
  size_t next = 0;
  coap_tick_t last_activity = vn_now;
  const char *why = "idle";
  for (long steps = 0;; steps++) {
    if (steps > 400000 || vn_nout > 4 * ((body_len + body2_len) / 16) + 600) { why = "steps"; break; }
    if (!sent_b && (vn_nout >= start_b || (next >= vn_nout && nheld == 0))) {
      coap_pdu_t *p2 = coap_new_pdu(type ? COAP_MESSAGE_NON : COAP_MESSAGE_CON,
                                    b22 ? COAP_REQUEST_CODE_GET : COAP_REQUEST_CODE_PUT, cs);
      if (opt_tok > 0) {
        app_tok2_len = (size_t)opt_tok;
        for (size_t i = 0; i < app_tok2_len; i++) app_tok2[i] = (uint8_t)(0xB0 + i);
      } else {
        coap_session_new_token(cs, &app_tok2_len, app_tok2);
      }
      coap_add_token(p2, app_tok2_len, app_tok2);
      coap_add_option(p2, COAP_OPTION_URI_PATH, 1, (const uint8_t *)"t");
      if (b22 && opt_q2 == 2) coap_add_option(p2, COAP_OPTION_URI_QUERY, 3, (const uint8_t *)"v=2");
      if (b22 && app_szx != 7) {
        uint8_t buf2[4];
        coap_add_option(p2, COAP_OPTION_BLOCK2, coap_encode_var_safe(buf2, sizeof(buf2), (unsigned)app_szx), buf2);
      }
      printf("TOK2:");
      for (size_t i = 0; i < app_tok2_len; i++) printf("%02x", app_tok2[i]);
      fputc(' ', stdout);
      int ok2 = b22 ? 1 : coap_add_data_large_request(cs, p2, body2_len, body2, rel_c, NULL);
      if (!b22) printf("ADL:%d ", ok2);
      if (ok2) printf("SEND:%d ", coap_send(cs, p2));
      else coap_delete_pdu(p2);
      sent_b = 1;
      continue;
    }
    if (next < vn_nout) {
      size_t i = next++;
      char act = i < nsched ? sched[i] : '.';
      last_activity = vn_now;
      show_tx(i);
      switch (act) {
      case 'x': printf("DROP:%zu ", i); break;
      case '2': deliver(i); deliver(i); break;
      case 'r':
        deliver(i);
        if (nheld < MAXHELD) { held[nheld].idx = i; held[nheld].after = 3; nheld++; }
        break;
      case 'h':
        if (nheld < MAXHELD) { held[nheld].idx = i; held[nheld].after = 1; nheld++; }
        break;
      default: deliver(i); break;
      }
      if (act != 'h' && act != 'r') {
        for (int k = 0; k < nheld;) {
          if (--held[k].after <= 0) {
            size_t idx = held[k].idx;
            held[k] = held[--nheld];
            deliver(idx);
          } else k++;
        }
      }
      continue;
    }
    if (nheld > 0) {          /* nothing else moves: release the oldest held datagram */
      size_t idx = held[0].idx;
      memmove(&held[0], &held[1], (size_t)(--nheld) * sizeof(held[0]));
      deliver(idx);
      continue;
    }
    unsigned w1 = vn_prepare(cli), w2 = vn_prepare(srv);
    show_state();
    if (next < vn_nout) continue;
    unsigned w = w1 && (!w2 || w1 < w2) ? w1 : w2;
    if (w == 0) { why = "idle"; break; }
    if (vn_now + w > last_activity + 400000) { why = "quiet"; break; }
    vn_advance(w);
    printf("T:%llu ", (unsigned long long)vn_now);
  }
  printf("END:%s:%llu ", why, (unsigned long long)vn_now);
  vn_unregister_client(cs);
  coap_session_release(cs);
  coap_free_context(cli);
  coap_free_context(srv);
  printf("FIN:%d:%d:%zu\n", n_rel_c, n_rel_s, vn_nout);
  free(body);
  body = NULL;
  free(body2);
  body2 = NULL;
  body2_len = 0;
}


/* ------------------------------------------------------------------ scripted peer
 * peer b1 <len> <seed> <srv_szx> <single_srv> <item>...   raw Block1 PUTs into the real server
 * peer b2 <len> <seed> <cli_szx> <single_cli> <item>...   raw Block2 2.05s into the real client
 *   item = num/m/szx/size/off/len/tag : Block option, Size1|Size2 ('-' = absent), payload =
 *          body[off, off+len), tag = Request-Tag (b1) | ETag (b2), '-' = absent
 * one result token per item:  D:<len>:<fnv> delivered body | C | F (4.08) | J (4.00/4.02) |
 *                             P:<len>:<fnv> handed on as it is | E<code> other error
 */
static int peer_hs, peer_hc;
static long peer_cur_body = -1;   /* body index of the item being injected (-1: by tag) */
static int peer_reject;           /* 0 accept; 1: 4.01, 2: 4.01 + Echo, 3: 4.03 for the first delivery */
static char peer_res[128];
static long peer_seed;

/* the body that goes with Request-Tag / ETag t: its own byte stream, so that mixing shows */
static uint8_t peer_byte(unsigned long t, size_t i) { return (uint8_t)fill_byte(peer_seed + (long)t, (long)i); }

static char peer_eq(unsigned long t, const uint8_t *d, size_t len) {
  if (len != body_len) return '!';
  for (size_t i = 0; i < len; i++) if (d[i] != peer_byte(t, i)) return '!';
  return '=';
}

static void hnd_put_peer(coap_resource_t *r, coap_session_t *s, const coap_pdu_t *req,
                         const coap_string_t *q, coap_pdu_t *resp) {
  size_t len = 0, off = 0, total = 0;
  const uint8_t *d = NULL;
  coap_block_b_t b;
  (void)s; (void)q;
  coap_get_data_large(req, &len, &d, &off, &total);
  peer_hs++;
  coap_opt_iterator_t oi;
  coap_opt_t *o = coap_check_option(req, COAP_OPTION_RTAG, &oi);
  unsigned long t = o ? coap_decode_var_bytes(coap_opt_value(o), coap_opt_length(o)) : 0;
  coap_str_const_t *up = coap_resource_get_uri_path(r);
  if (up && up->length == 1 && up->s[0] == 'u') t += 50;      /* bodies of resource u */
  if (peer_cur_body >= 0) t = (unsigned long)peer_cur_body;
  if (coap_get_block_b(NULL, req, COAP_OPTION_BLOCK1, &b))
    snprintf(peer_res, sizeof(peer_res), "P:%zu:%08x", len, fnv(d, d ? len : 0));
  else
    snprintf(peer_res, sizeof(peer_res), "D:%zu:%08x:%c", len, fnv(d, d ? len : 0), peer_eq(t, d, d ? len : 0));
  coap_pdu_set_code(resp, COAP_RESPONSE_CODE_CHANGED);
  if (peer_reject && peer_hs == 1) {
    /* the application turns the first upload down */
    coap_pdu_set_code(resp, peer_reject == 3 ? COAP_RESPONSE_CODE_FORBIDDEN : COAP_RESPONSE_CODE_UNAUTHORIZED);
    if (peer_reject == 2) coap_add_option(resp, COAP_OPTION_ECHO, 4, (const uint8_t *)"echo");
  }
}

static coap_response_t hnd_resp_peer(coap_session_t *s, const coap_pdu_t *sent, const coap_pdu_t *rcv,
                                     const coap_mid_t mid) {
  size_t len = 0, off = 0, total = 0;
  const uint8_t *d = NULL;
  coap_block_b_t b;
  unsigned code = coap_pdu_get_code(rcv);
  (void)s; (void)sent; (void)mid;
  coap_get_data_large(rcv, &len, &d, &off, &total);
  peer_hc++;
  coap_opt_iterator_t oi;
  coap_opt_t *o = coap_check_option(rcv, COAP_OPTION_ETAG, &oi);
  unsigned long t = o ? (unsigned long)coap_decode_var_bytes8(coap_opt_value(o), coap_opt_length(o)) : 0;
  if (code == 69 && coap_get_block_b(NULL, rcv, COAP_OPTION_BLOCK2, &b))
    snprintf(peer_res, sizeof(peer_res), "P:%zu:%08x", len, fnv(d, d ? len : 0));
  else if (code == 69)
    snprintf(peer_res, sizeof(peer_res), "D:%zu:%08x:%c", len, fnv(d, d ? len : 0), peer_eq(t, d, d ? len : 0));
  else if (code == 130) snprintf(peer_res, sizeof(peer_res), "J");
  else if (code == 136) snprintf(peer_res, sizeof(peer_res), "F");
  else snprintf(peer_res, sizeof(peer_res), "E%u", code);
  return COAP_RESPONSE_OK;
}

static void peer(void) {
  int b2 = !strcmp(vtok[1], "b2");
  body_len = (size_t)atol(vtok[2]);
  long seed = atol(vtok[3]);
  int szx_cfg = atoi(vtok[4]), single = atoi(vtok[5]);
  /* vtok[5]: 1 single-body; 3/5/7 single-body and the handler answers the first delivered body
   * with 4.01 / 4.01 + Echo / 4.03 */
  peer_reject = single >= 3 ? (single - 1) / 2 : 0;
  single = single ? 1 : 0;
  peer_hs = peer_hc = 0;
  peer_seed = seed;
  body = (uint8_t *)malloc(body_len ? body_len : 1);
  vn_now = 1000;
  vn_log_reset();
  vn_nnodes = 0;
  vn_prng_seed((uint64_t)seed * 7919u + body_len);
  srv = coap_new_context(NULL);
  cli = coap_new_context(NULL);
  coap_context_t *me = b2 ? cli : srv;
  coap_context_set_block_mode(me, COAP_BLOCK_USE_LIBCOAP | (single ? COAP_BLOCK_SINGLE_BODY : 0));
  if (szx_cfg != 7) coap_context_set_max_block_size(me, (size_t)16 << szx_cfg);
  ep = vn_new_server_ep(srv);
  coap_resource_t *r = coap_resource_init(coap_make_str_const("t"), 0);
  coap_register_request_handler(r, COAP_REQUEST_PUT, hnd_put_peer);
  coap_add_resource(srv, r);
  coap_resource_t *ru = coap_resource_init(coap_make_str_const("u"), 0);
  coap_register_request_handler(ru, COAP_REQUEST_PUT, hnd_put_peer);
  coap_add_resource(srv, ru);
  coap_register_response_handler(cli, hnd_resp_peer);
  coap_address_t peer_addr;
  vn_addr4(&peer_addr, 0x0a000001u, 40000);
  uint8_t tok[8] = {0x77};
  size_t toklen = 1;
  if (b2) {
    /* the real client asks (NON, so that nothing is retransmitted); we play the server */
    cs = vn_new_client(cli, &ep->bind_addr);
    coap_pdu_t *p = coap_new_pdu(COAP_MESSAGE_NON, COAP_REQUEST_CODE_GET, cs);
    coap_add_token(p, toklen, tok);
    coap_add_option(p, COAP_OPTION_URI_PATH, 1, (const uint8_t *)"t");
    coap_send(cs, p);
  }
  unsigned mid = 100;
  for (int i = 6; i < vntok; i++) {
    if (b2 && cs->lg_crcv == NULL) {
      /* the previous block ended the transfer (delivered / refused): the application asks again */
      coap_pdu_t *g = coap_new_pdu(COAP_MESSAGE_NON, COAP_REQUEST_CODE_GET, cs);
      coap_add_token(g, toklen, tok);
      coap_add_option(g, COAP_OPTION_URI_PATH, 1, (const uint8_t *)"t");
      coap_send(cs, g);
    }
    unsigned num, m, szx;
    long off, len;
    char size_s[32], tag_s[32];
    long bidx = -1;
    /* optional 8th field: body index (a second transfer under the same Request-Tag / ETag) */
    if (sscanf(vtok[i], "%u/%u/%u/%31[^/]/%ld/%ld/%31[^/]/%ld", &num, &m, &szx, size_s, &off, &len, tag_s, &bidx) < 7) {
      printf("BADITEM ");
      continue;
    }
    peer_cur_body = bidx;
    int res_u = 0;
    size_t tl = strlen(tag_s);
    if (tl > 0 && tag_s[tl - 1] == 'u') {          /* "<n>u": the request goes to resource u */
      res_u = 1;
      tag_s[tl - 1] = 0;
      if (tl == 1) strcpy(tag_s, "-");
    }
    if (off < 0) off = 0;
    if ((size_t)off > body_len) off = (long)body_len;
    if (len < 0) len = 0;
    if ((size_t)(off + len) > body_len) len = (long)(body_len - (size_t)off);
    coap_pdu_t *p = coap_pdu_init(COAP_MESSAGE_NON, b2 ? COAP_RESPONSE_CODE_CONTENT : COAP_REQUEST_CODE_PUT,
                                  (coap_mid_t)(mid++), 2048);
    uint8_t buf[8];
    coap_add_token(p, toklen, tok);
    if (b2) {
      if (strcmp(tag_s, "-")) {
        unsigned long long e = strtoull(tag_s, NULL, 10);
        coap_add_option(p, COAP_OPTION_ETAG, coap_encode_var_safe8(buf, sizeof(buf), e), buf);
      }
      coap_add_option(p, COAP_OPTION_BLOCK2,
                      coap_encode_var_safe(buf, sizeof(buf), (num << 4) | (m << 3) | szx), buf);
      if (strcmp(size_s, "-"))
        coap_add_option(p, COAP_OPTION_SIZE2,
                        coap_encode_var_safe(buf, sizeof(buf), (unsigned)atol(size_s)), buf);
    } else {
      coap_add_option(p, COAP_OPTION_URI_PATH, 1, (const uint8_t *)(res_u ? "u" : "t"));
      coap_add_option(p, COAP_OPTION_BLOCK1,
                      coap_encode_var_safe(buf, sizeof(buf), (num << 4) | (m << 3) | szx), buf);
      if (strcmp(size_s, "-"))
        coap_add_option(p, COAP_OPTION_SIZE1,
                        coap_encode_var_safe(buf, sizeof(buf), (unsigned)atol(size_s)), buf);
      if (strcmp(tag_s, "-")) {
        unsigned long t = strtoul(tag_s, NULL, 10);
        coap_add_option(p, COAP_OPTION_RTAG, coap_encode_var_safe(buf, sizeof(buf), (unsigned)t), buf);
      }
    }
    {
      unsigned long t = (strcmp(tag_s, "-") ? strtoul(tag_s, NULL, 10) : 0) + (res_u ? 50 : 0);
      if (bidx >= 0) t = (unsigned long)bidx;
      for (long q = 0; q < len; q++) body[q] = peer_byte(t, (size_t)(off + q));
      if (len > 0) coap_add_data(p, (size_t)len, body);
    }
    size_t hs = coap_pdu_encode_header(p, COAP_PROTO_UDP);
    size_t first = vn_nout;
    peer_res[0] = 0;
    if (b2) vn_inject_session(cli, cs, p->token - hs, hs + p->used_size);
    else vn_inject_ep(srv, ep, &peer_addr, NULL, p->token - hs, hs + p->used_size);
    coap_delete_pdu(p);
    if (peer_res[0]) {
      printf("%s ", peer_res);
    } else if (b2) {
      printf("C ");
    } else {
      /* the server's reply decides */
      unsigned code = 0;
      for (size_t k = first; k < vn_nout; k++)
        if (vn_out[k].ctx == srv && vn_out[k].len >= 4) code = vn_out[k].data[1];
      if (code == 136) printf("F ");
      else if (code == 128) printf("J ");
      else if (code == 95 || code == 0) printf("C ");
      else printf("E%u ", code);
    }
  }
  printf("END\n");
  if (b2) { vn_unregister_client(cs); coap_session_release(cs); }
  coap_free_context(cli);
  coap_free_context(srv);
  free(body);
  body = NULL;
  free(body2);
  body2 = NULL;
  body2_len = 0;
}

/* peer g2 <len> <seed> <srv_szx> <item>...   raw GETs with Block2 into the real server
 *   item = num/szx/q : Block2 NUM, SZX; q = '-' (no Uri-Query) | <n> (Uri-Query "v=<n>")
 * the resource answers ?v=<n> with body n (own byte stream), no query with body 0, through
 * coap_add_data_large_response().  Result per item: R:<code>:<num/m/szx>:<plen>:<eq>, eq '=' when
 * the payload is body_q at the offset of the returned block, '!' when it is not, '-' no payload */
static int g2_adl, g2_rel;
static void rel_free(coap_session_t *s, void *p) { (void)s; g2_rel++; free(p); }

static void hnd_get_peer(coap_resource_t *r, coap_session_t *s, const coap_pdu_t *req,
                         const coap_string_t *q, coap_pdu_t *resp) {
  unsigned long t = 0;
  if (q && q->length >= 3 && q->s[0] == 'v' && q->s[1] == '=') t = strtoul((const char *)q->s + 2, NULL, 10);
  uint8_t *b = (uint8_t *)malloc(body_len ? body_len : 1);
  for (size_t i = 0; i < body_len; i++) b[i] = peer_byte(t, i);
  coap_pdu_set_code(resp, COAP_RESPONSE_CODE_CONTENT);
  /* libcoap copies nothing: the buffer lives as long as the lg_xmit and is freed by the release */
  g2_adl++;
  coap_add_data_large_response(r, s, req, resp, q, COAP_MEDIATYPE_APPLICATION_OCTET_STREAM, -1, 0,
                               body_len, b, rel_free, b);
}

static void peer_g2(void) {
  body_len = (size_t)atol(vtok[2]);
  peer_seed = atol(vtok[3]);
  int szx_cfg = atoi(vtok[4]);
  g2_adl = g2_rel = 0;
  vn_now = 1000;
  vn_log_reset();
  vn_nnodes = 0;
  vn_prng_seed((uint64_t)peer_seed * 104729u + body_len);
  srv = coap_new_context(NULL);
  cli = NULL;
  coap_context_set_block_mode(srv, COAP_BLOCK_USE_LIBCOAP | COAP_BLOCK_SINGLE_BODY);
  if (szx_cfg != 7) coap_context_set_max_block_size(srv, (size_t)16 << szx_cfg);
  ep = vn_new_server_ep(srv);
  coap_resource_t *r = coap_resource_init(coap_make_str_const("t"), 0);
  coap_register_request_handler(r, COAP_REQUEST_GET, hnd_get_peer);
  coap_add_resource(srv, r);
  coap_address_t peer_addr;
  vn_addr4(&peer_addr, 0x0a000001u, 40000);
  unsigned mid = 300;
  for (int i = 5; i < vntok; i++) {
    unsigned num, szx;
    char qs[32];
    if (sscanf(vtok[i], "%u/%u/%31s", &num, &szx, qs) != 3) { printf("BADITEM "); continue; }
    coap_pdu_t *p = coap_pdu_init(COAP_MESSAGE_NON, COAP_REQUEST_CODE_GET, (coap_mid_t)(mid++), 256);
    uint8_t tok[2] = {0x55, (uint8_t)i}, buf[8];
    char qopt[40];
    coap_add_token(p, 2, tok);
    coap_add_option(p, COAP_OPTION_URI_PATH, 1, (const uint8_t *)"t");
    unsigned long t = 0;
    if (strcmp(qs, "-")) {
      t = strtoul(qs, NULL, 10);
      int n = snprintf(qopt, sizeof(qopt), "v=%lu", t);
      coap_add_option(p, COAP_OPTION_URI_QUERY, (size_t)n, (const uint8_t *)qopt);
    }
    coap_add_option(p, COAP_OPTION_BLOCK2, coap_encode_var_safe(buf, sizeof(buf), (num << 4) | szx), buf);
    size_t hs = coap_pdu_encode_header(p, COAP_PROTO_UDP);
    size_t first = vn_nout;
    vn_inject_ep(srv, ep, &peer_addr, NULL, p->token - hs, hs + p->used_size);
    coap_delete_pdu(p);
    int shown = 0;
    for (size_t k = vn_nout; k > first && !shown; k--) {
      vn_dgram_t *d = &vn_out[k - 1];
      coap_pdu_t *rp = coap_pdu_init(0, 0, 0, d->len + 8);
      if (rp && coap_pdu_parse(COAP_PROTO_UDP, d->data, d->len, rp)) {
        coap_block_b_t b;
        size_t len = 0;
        const uint8_t *data = NULL;
        coap_get_data(rp, &len, &data);
        printf("R:%u:", rp->code);
        char eq = '-';
        if (rp->code != 69) {
          fputs("-", stdout);       /* error: the diagnostic payload is not compared */
          len = 0;
        } else if (coap_get_block_b(NULL, rp, COAP_OPTION_BLOCK2, &b)) {
          printf("%u/%u/%u", b.num, b.m, b.szx);
          if (rp->code == 69 && data) {
            size_t off = (size_t)b.num << (b.szx + 4);
            eq = '=';
            if (off + len > body_len) eq = '!';
            else for (size_t q = 0; q < len; q++) if (data[q] != peer_byte(t, off + q)) { eq = '!'; break; }
          }
        } else {
          fputs("-", stdout);
          if (rp->code == 69 && data) {
            eq = len == body_len ? '=' : '!';
            for (size_t q = 0; q < len && eq == '='; q++) if (data[q] != peer_byte(t, q)) eq = '!';
          }
        }
        printf(":%zu:%c ", len, eq);
        shown = 1;
      }
      if (rp) coap_delete_pdu(rp);
    }
    if (!shown) printf("NONE ");
  }
  coap_free_context(srv);
  /* every coap_add_data_large_response() call must have had its release callback run by now */
  printf("END ADL:%d REL:%d\n", g2_adl, g2_rel);
}

int main(void) {
  coap_startup();
  coap_set_log_level(COAP_LOG_EMERG);
  setvbuf(stdout, NULL, _IOFBF, 1 << 16);
  while (next_case(stdin)) {
    if (vntok == 0) { puts(""); continue; }
    if (!strcmp(vtok[0], "e2e") && vntok >= 12) e2e();
    else if (!strcmp(vtok[0], "peer") && vntok >= 5 && !strcmp(vtok[1], "g2")) peer_g2();
    else if (!strcmp(vtok[0], "peer") && vntok >= 6) peer();
    else puts("ERROR unknown command");
    fflush(stdout);
  }
  coap_cleanup();
  return 0;
}

/* C04 driver: in-place edits of a PDU (coap_insert_option, coap_update_option,
 * coap_remove_option, coap_update_token) applied to a message that was built through the API or
 * parsed from wire bytes; one case per line, format and result: see ocaml/d_edit.ml.
 *
 * Allocation regime <amode>:
 *   0  whatever the library does (coap_pdu_init allocates min(max_size,256), growth by doubling)
 *   2  as 1, and (UDP only) the PDU is attached to a session and its header is encoded before the
 *      first edit, so that coap_update_token takes its "fix up the header" branch; every dump then
 *      shows the header bytes as they are in memory (h=)
 *   1  before EVERY edit the buffer is moved into a fresh allocation of exactly
 *      max_hdr_size + used_size bytes and alloc_size := used_size, so that every edit that needs
 *      even one more byte goes through coap_pdu_check_resize -> coap_pdu_resize -> realloc and
 *      every stale pointer / over-long memmove lands outside a live allocation.
 * The PDUs have no session (coap_update_token then leaves the header alone); the header is
 * written once at the end by coap_pdu_encode_header.
 * After every step the accessor dump is followed by b=<token[0..used_size)>.
 * X <mid'> <smax> <bytes> <filter>: coap_pdu_duplicate on a UDP client session whose next
 * message id is <mid'> and whose coap_session_max_pdu_size is <smax>.  */
#include "coap3/coap_libcoap_build.h"
#include "common/util.h"
#include "common/dump.h"

#include <malloc.h>

/* Every realloc of the library (coap_pdu_resize) moves the block and poisons the old one, so that a
 * pointer the code kept across the call reads garbage at once (linked with --wrap=coap_realloc_type). */
void *__real_coap_realloc_type(coap_memory_tag_t type, void *p, size_t size);
void *__wrap_coap_realloc_type(coap_memory_tag_t type, void *p, size_t size) {
  void *n;
  size_t old;
  if (!p) return coap_malloc_type(type, size);
  n = coap_malloc_type(type, size);
  if (!n) return NULL;
  old = malloc_usable_size(p);
  memcpy(n, p, old < size ? old : size);
  memset(p, 0xA5, old);
  coap_free_type(type, p);
  return n;
}

static coap_proto_t proto_of(const char *s) {
  if (!strcmp(s, "udp")) return COAP_PROTO_UDP;
  if (!strcmp(s, "tcp")) return COAP_PROTO_TCP;
  return COAP_PROTO_WS;
}

static void parse_and_dump(FILE *o, coap_proto_t proto, const uint8_t *b, size_t n) {
  coap_pdu_t *pdu = coap_pdu_init(0, 0, 0, n > 4 ? n : 4);
  if (!pdu) { fputs("NOPDU", o); return; }
  if (coap_pdu_parse(proto, b, n, pdu)) dump_pdu(o, pdu);
  else fputs("REJECT", o);
  coap_delete_pdu(pdu);
}

/* move the PDU into an allocation that has not one spare byte */
static void exact_fit(coap_pdu_t *pdu) {
  size_t need = pdu->used_size;
  size_t doff = pdu->data ? (size_t)(pdu->data - pdu->token) : 0;
  uint8_t *old = pdu->token - pdu->max_hdr_size;
  uint8_t *nw = (uint8_t *)coap_malloc_type(COAP_PDU_BUF, need + pdu->max_hdr_size);
  if (!nw) return;
  memcpy(nw, old, need + pdu->max_hdr_size);
  memset(old, 0xA5, malloc_usable_size(old));
  coap_free_type(COAP_PDU_BUF, old);
  pdu->token = nw + pdu->max_hdr_size;
  pdu->data = doff ? pdu->token + doff : NULL;
  if (pdu->actual_token.length < COAP_TOKEN_EXT_1B_BIAS) pdu->actual_token.s = &pdu->token[0];
  else if (pdu->actual_token.length < COAP_TOKEN_EXT_2B_BIAS) pdu->actual_token.s = &pdu->token[1];
  else pdu->actual_token.s = &pdu->token[2];
  pdu->alloc_size = need;
}

static coap_context_t *g_ctx;
static coap_session_t *g_sess;

static coap_proto_t g_proto;
static int g_amode;

static char *dump_str(const coap_pdu_t *pdu) {
  char *buf = NULL;
  size_t sz = 0;
  FILE *m = open_memstream(&buf, &sz);
  dump_pdu(m, pdu);
  fclose(m);
  return buf;
}

/* type and message id are not carried by the reliable framings */
static const char *from_code(const char *d, coap_proto_t proto) {
  const char *c;
  if (proto == COAP_PROTO_UDP) return d;
  c = strstr(d, " k=");
  return c ? c : d;
}

/* serialise the PDU as it is now and parse the bytes into a fresh PDU; "rp==" when the fresh PDU
 * shows the same message, otherwise what it shows (or REJECT).  Type and header size are put
 * back (coap_pdu_encode_header forces CON on reliable transports). */
static void step_reparse(FILE *o, coap_pdu_t *pdu) {
  coap_pdu_type_t ty = pdu->type;
  uint8_t hsz = pdu->hdr_size;
  char *mine = dump_str(pdu);
  size_t hs = coap_pdu_encode_header(pdu, g_proto);
  if (!hs) {
    fputs(" rp=NOHDR", o);
  } else {
    size_t total = hs + pdu->used_size;
    uint8_t *copy = (uint8_t *)malloc(total);
    coap_pdu_t *f = coap_pdu_init(0, 0, 0, total > 4 ? total : 4);
    memcpy(copy, pdu->token - hs, total);
    if (f && coap_pdu_parse(g_proto, copy, total, f)) {
      char *theirs = dump_str(f);
      int codes_equal = coap_pdu_get_code(f) == coap_pdu_get_code(pdu);
      if (codes_equal && !strcmp(from_code(mine, g_proto), from_code(theirs, g_proto))) fputs(" rp==", o);
      else fprintf(o, " rp=[%s]", theirs);
      free(theirs);
    } else {
      fputs(" rp=[REJECT]", o);
    }
    if (f) coap_delete_pdu(f);
    free(copy);
  }
  pdu->type = ty;
  pdu->hdr_size = hsz;
  free(mine);
}

static void dump_b(FILE *o, coap_pdu_t *pdu) {
  fputc('[', o);
  dump_pdu(o, pdu);
  fputs("] b=", o);
  show_bytes(o, pdu->token, pdu->used_size);
  /* regime 2: the PDU belongs to a session and its header has been written; coap_update_token then
   * has to keep the header in step with the token length - show the header as it is in memory */
  /* what the model takes for granted about the allocation: the used bytes lie inside it, and it
   * never exceeds max_size */
  if (pdu->used_size > pdu->alloc_size || (pdu->max_size && pdu->alloc_size > pdu->max_size))
    fprintf(o, " ALLOC-INVARIANT-BROKEN(used=%zu alloc=%zu max=%zu)", pdu->used_size,
            pdu->alloc_size, pdu->max_size);
  fputs(" h=", o);
  if (g_amode == 2 && pdu->hdr_size) show_bytes(o, pdu->token - pdu->hdr_size, pdu->hdr_size);
  else fputc('-', o);
  step_reparse(o, pdu);
}

static void do_dup(coap_pdu_t *pdu, int i) {
  coap_opt_filter_t f;
  coap_opt_filter_t *fp = NULL;
  coap_pdu_t *d;
  size_t n;
  uint8_t *b;
  unsigned mid = (unsigned)atoi(vtok[i]);
  size_t smax = (size_t)atol(vtok[i + 1]);
  if (!g_sess) { fputs(" || dup=NOSESSION", stdout); return; }
  coap_session_set_mtu(g_sess, (unsigned)(smax + 4));
  if (coap_session_max_pdu_size(g_sess) != smax) { fputs(" || dup=BADSMAX", stdout); return; }
  g_sess->tx_mid = (uint16_t)(mid - 1);
  b = bytes_of_tok(vtok[i + 2], &n);
  if (strcmp(vtok[i + 3], "N")) {
    char *q = vtok[i + 3];
    coap_option_filter_clear(&f);
    fp = &f;
    if (strcmp(q, "-")) {
      while (*q) {
        if (!coap_option_filter_set(&f, (coap_option_num_t)strtol(q, &q, 10))) {
          fputs(" || dup=FILTERFULL", stdout);
          free(b);
          return;
        }
        if (*q == ',') q++;
      }
    }
  }
  d = coap_pdu_duplicate(pdu, g_sess, n, b, fp);
  free(b);
  if (!d) { fputs(" || dup=NULL", stdout); return; }
  fputs(" || dup=", stdout);
  dump_b(stdout, d);
  coap_delete_pdu(d);
}

static void c04(void) {
  coap_proto_t proto;
  int amode, i;
  size_t mx;
  coap_pdu_t *pdu = NULL;
  if (vntok < 6) { puts("ERROR c04 args"); return; }
  proto = proto_of(vtok[1]);
  g_proto = proto;
  amode = atoi(vtok[2]);
  g_amode = 0;      /* the starting dump shows no header */
  mx = (size_t)atol(vtok[3]);
  i = 5;
  if (vtok[4][0] == 'B') {
    char rets[MAXTOK];
    int nr = 0;
    if (vntok < 8) { puts("ERROR c04 args"); return; }
    pdu = coap_pdu_init(atoi(vtok[5]), atoi(vtok[6]), atoi(vtok[7]), mx);
    if (!pdu) { puts("start=NOPDU"); return; }
    i = 8;
    while (i < vntok && vtok[i][0] != 'E') {
      size_t n;
      uint8_t *b;
      int r;
      if (vtok[i][0] == 'T') {
        b = bytes_of_tok(vtok[i + 1], &n);
        r = coap_add_token(pdu, n, b);
        i += 2;
      } else if (vtok[i][0] == 'O') {
        b = bytes_of_tok(vtok[i + 2], &n);
        r = coap_add_option(pdu, (coap_option_num_t)atoi(vtok[i + 1]), n, b) != 0;
        i += 3;
      } else {
        b = bytes_of_tok(vtok[i + 1], &n);
        r = coap_add_data(pdu, n, b);
        i += 2;
      }
      free(b);
      rets[nr++] = r ? '1' : '0';
    }
    rets[nr] = 0;
    printf("start=%s ", nr ? rets : "-");
  } else {
    /* W: concatenate the byte tokens, parse */
    size_t total = 0, cap = 64;
    uint8_t *wire = (uint8_t *)malloc(cap);
    int ok;
    while (i < vntok && vtok[i][0] != 'E') {
      size_t n;
      uint8_t *b = bytes_of_tok(vtok[i], &n);
      if (total + n > cap) {
        while (total + n > cap) cap *= 2;
        wire = (uint8_t *)realloc(wire, cap);
      }
      memcpy(wire + total, b, n);
      total += n;
      free(b);
      i++;
    }
    {
      /* exact-size copy so that a read past the datagram is out of bounds */
      uint8_t *copy = (uint8_t *)malloc(total ? total : 1);
      memcpy(copy, wire, total);
      free(wire);
      wire = copy;
    }
    pdu = coap_pdu_init(0, 0, 0, total > 4 ? total : 4);
    if (!pdu) { free(wire); puts("start=NOPDU"); return; }
    ok = coap_pdu_parse(proto, wire, total, pdu);
    free(wire);
    if (!ok) {
      puts("start=REJECT");
      coap_delete_pdu(pdu);
      return;
    }
    if (mx && pdu->used_size > mx) {
      puts("start=TOOSMALL");
      coap_delete_pdu(pdu);
      return;
    }
    /* alloc_size = used_size after coap_pdu_parse, so alloc_size <= max_size holds */
    pdu->max_size = mx;
    fputs("start=P ", stdout);
  }
  dump_b(stdout, pdu);
  if (amode == 2 && proto == COAP_PROTO_UDP && g_sess) {
    pdu->session = g_sess;
    coap_pdu_encode_header(pdu, proto);
    g_amode = 2;
  }
  if (i < vntok && vtok[i][0] == 'E') i++;
  while (i < vntok && vtok[i][0] != 'X') {
    size_t n = 0;
    uint8_t *b = NULL;
    int r = 0;
    char k = vtok[i][0];
    if (amode >= 1) exact_fit(pdu);
    if (k == 'I' && i + 2 < vntok) {
      b = bytes_of_tok(vtok[i + 2], &n);
      r = coap_insert_option(pdu, (coap_option_num_t)atoi(vtok[i + 1]), n, b) != 0;
      i += 3;
    } else if (k == 'U' && i + 2 < vntok) {
      b = bytes_of_tok(vtok[i + 2], &n);
      r = coap_update_option(pdu, (coap_option_num_t)atoi(vtok[i + 1]), n, b) != 0;
      i += 3;
    } else if (k == 'R' && i + 1 < vntok) {
      r = coap_remove_option(pdu, (coap_option_num_t)atoi(vtok[i + 1])) != 0;
      i += 2;
    } else if (k == 'K' && i + 1 < vntok) {
      b = bytes_of_tok(vtok[i + 1], &n);
      r = coap_update_token(pdu, n, b) != 0;
      i += 2;
    } else if (k == 'A' && i + 2 < vntok) {
      b = bytes_of_tok(vtok[i + 2], &n);
      r = coap_add_option(pdu, (coap_option_num_t)atoi(vtok[i + 1]), n, b) != 0;
      i += 3;
    } else if (k == 'D' && i + 1 < vntok) {
      b = bytes_of_tok(vtok[i + 1], &n);
      r = coap_add_data(pdu, n, b) != 0;
      i += 2;
    } else {
      fputs(" ERROR bad edit op", stdout);
      break;
    }
    if (b) free(b);
    printf(" | %d ", r);
    dump_b(stdout, pdu);
  }
  /* the duplicate first: coap_pdu_encode_header below forces the type to CON on reliable
   * transports */
  if (i < vntok && vtok[i][0] == 'X') {
    if (i + 4 < vntok) do_dup(pdu, i + 1);
    else fputs(" ERROR bad dup args", stdout);
  }
  fputs(" || wire=", stdout);
  {
    size_t hs = coap_pdu_encode_header(pdu, proto);
    if (!hs) {
      fputs("NOHDR reparse=[]", stdout);
    } else {
      size_t total = hs + pdu->used_size;
      uint8_t *copy = (uint8_t *)malloc(total);
      memcpy(copy, pdu->token - hs, total);
      show_bytes(stdout, copy, total);
      fputs(" reparse=[", stdout);
      parse_and_dump(stdout, proto, copy, total);
      fputs("]", stdout);
      free(copy);
    }
  }
  fputc('\n', stdout);
  coap_delete_pdu(pdu);
}

/* resize <alloc_size> <max_size> <size>: a PDU with that alloc_size (<= max_size unless unlimited),
 * then coap_pdu_check_resize(size) */
static void resize_cmd(void) {
  size_t alloc, mx, sz;
  coap_pdu_t *pdu;
  int r;
  if (vntok < 4) { puts("ERROR resize args"); return; }
  alloc = (size_t)atol(vtok[1]);
  mx = (size_t)atol(vtok[2]);
  sz = (size_t)atol(vtok[3]);
  pdu = coap_pdu_init(0, 0, 0, mx);
  if (!pdu) { puts("NOPDU"); return; }
  if (!coap_pdu_resize(pdu, alloc) || pdu->alloc_size != alloc) {
    puts("NOALLOC");
    coap_delete_pdu(pdu);
    return;
  }
  r = coap_pdu_check_resize(pdu, sz);
  printf("%d %zu\n", r ? 1 : 0, pdu->alloc_size);
  coap_delete_pdu(pdu);
}

int main(void) {
  coap_address_t dst;
  coap_startup();
  coap_set_log_level(COAP_LOG_EMERG);
  g_ctx = coap_new_context(NULL);
  coap_address_init(&dst);
  dst.addr.sin.sin_family = AF_INET;
  dst.addr.sin.sin_port = htons(5683);
  dst.addr.sin.sin_addr.s_addr = htonl(0x7f000001);
  if (g_ctx) g_sess = coap_new_client_session(g_ctx, NULL, &dst, COAP_PROTO_UDP);
  while (next_case(stdin)) {
    if (vntok == 0) { puts(""); continue; }
    if (!strcmp(vtok[0], "c04") || !strcmp(vtok[0], "c04x")) c04();
    else if (!strcmp(vtok[0], "resize")) resize_cmd();
    else puts("ERROR unknown command");
    fflush(stdout);
  }
  return 0;
}

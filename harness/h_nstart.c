/* C08 driver: NSTART accounting of datagram client sessions, observed on the wire + callbacks.
 *
 * Build: vlib.build_driver("h_nstart", ["h_nstart.c"],
 *                          wraps=["coap_ticks", "coap_socket_send", "coap_socket_recv",
 *                                 "coap_netif_dgrm_write"])
 * Case format and result format: see ocaml/d_nstart.ml ("ns ..." lines; the first argument, the
 * model variant, is ignored here: this is the real code).
 *
 * What the driver does per op (one library call each):
 *   S  coap_pdu_init(type c|n|o, GET.. (client session) | 2.05.. (server-side session), mid) + 2-byte
 *      token (o = CON with Observe: 0, context in COAP_BLOCK_USE_LIBCOAP mode),
 *      public coap_send()
 *   A/R  a 4-byte empty ACK / RST datagram through the real receive path (vn_inject_session)
 *   P  a NON 2.05 response carrying the token (separate response -> cancel by token); an optional
 *      third field is the peer's own message id (default: a counter from 0x8001) - it may collide
 *      with the id of one of our in-flight CONs, which must not matter
 *   T  the retransmission timer of the send-queue node (session, mid) fires: the node is taken
 *      off the queue (coap_remove_from_queue, what coap_pop_next does for the head) and handed
 *      to coap_retransmit() - exactly what coap_io_prepare_io() does for a due node; the clock
 *      is frozen during a case, so no other timer fires by itself
 *   U  coap_session_connected() (a session created with est0=0 has its state set to
 *      COAP_SESSION_STATE_HANDSHAKE by the driver: a datagram session whose handshake is pending,
 *      without the crypto)
 *   F  public coap_session_disconnected(session, reason)
 * Observed: datagrams handed to coap_socket_send (type, mid, token), nack handler calls, the
 * return value of coap_send.  session->con_active is never read for the result line (it is
 * printed to stderr with NS_DEBUG=1 for debugging the tie only).
 *   M  (server-side session) a multicast NON GET /r from the peer: the response is delayed through
 *      the send queue;  Y  the leisure timer of that delayed response fires (coap_retransmit on
 *      the is_mcast node) - the response datagram is reported as item Wm
 *   G  (client session) the keepalive period is over: coap_io_prepare_io() sends the library's own
 *      empty-CON ping if the session is established and has no CON in flight (ids 50001+1000*sid..);
 *      K<secs> at the start of a natural-time case enables keepalive there
 *   H<sid>,<mid>,<newmid>,<newtok>  the nack handler, called for (sid, mid) after a give-up or a Reset,
 *      submits a new CON from inside the callback (items "(" .. a / x bracket what that nested coap_send produced and its result)
 *   O  (server-side session) the peer registers as an observer of /r;  N  the resource changes:
 *      the library sends a NON notification (item Wo) - never delayed by NSTART
 *   E  the next socket write fails with ENOBUFS (reported as item E<c|n><mid>.<tok>)
 * "W" mode (natural time): W<ms> advances the virtual clock and lets coap_io_prepare_epoll fire
 * whatever is due.
 */
#include <stdarg.h>
#include "coap3/coap_libcoap_build.h"
#include "common/util.h"
#include "common/vnet.h"

#define MAXS 8
static coap_context_t *ctx;
static coap_session_t *sess[MAXS];
static int nsess, dead[MAXS], is_server[MAXS];
static coap_endpoint_t *srv_ep;
static coap_resource_t *srv_res;
static coap_address_t peer_addr[MAXS];
static int recording;
static char items[1 << 16];
static size_t ilen;
static int cur_sid;
static int dbg;

static void item(int sid, const char *fmt, ...) {
  va_list ap;
  if (!recording) return;
  if (ilen && ilen < sizeof(items) - 1) items[ilen++] = ',';
  va_start(ap, fmt);
  ilen += vsnprintf(items + ilen, sizeof(items) - ilen, fmt, ap);
  va_end(ap);
  if (sid != cur_sid) ilen += snprintf(items + ilen, sizeof(items) - ilen, "@%d", sid);
  if (ilen >= sizeof(items)) ilen = sizeof(items) - 1;
}

static int sid_of(const coap_session_t *s) {
  for (int i = 0; i < nsess; i++)
    if (sess[i] == s) return i;
  return -1;
}

static void show_dgram_item(int sid, char tag, const uint8_t *data, size_t len);
static void on_send(size_t idx) {
  vn_dgram_t *d = &vn_out[idx];
  show_dgram_item(sid_of(d->session), 'T', d->data, d->len);
}

/* "the next socket write fails": own shim one level above coap_socket_send (vnet's vn_send_fail
 * does not tell which datagram was refused); link with --wrap=coap_netif_dgrm_write */
static int fail_next_write;
static void show_dgram_item(int sid, char tag, const uint8_t *data, size_t len) {
  if (len < 4) {
    item(sid, "%crunt%zu", tag == 'T' ? 'W' : tag, len);
    return;
  }
  unsigned ty = (data[0] >> 4) & 3, tkl = data[0] & 15;
  unsigned mid = (data[2] << 8) | data[3];
  unsigned tok = 0;
  if (tkl <= 8 && 4 + tkl <= len)
    for (unsigned i = 0; i < tkl; i++) tok = (tok << 8) | data[4 + i];
  if (ty == 1 && tok == 0xee01)
    item(sid, "Wm");              /* the (delayed) response to the driver's multicast request */
  else if (ty == 1 && tok == 0xee02)
    item(sid, "Wo");              /* response to the peer's Observe registration / a NON notification */
  else if (ty == 0 || ty == 1)
    item(sid, "%c%c%u.%u", tag, ty == 0 ? 'c' : 'n', mid, tok);
  else
    item(sid, "%c%c%u", tag == 'T' ? 'W' : tag, ty == 2 ? 'a' : 'r', mid);
}
ssize_t __real_coap_netif_dgrm_write(coap_session_t *session, const uint8_t *data, size_t datalen);
ssize_t __wrap_coap_netif_dgrm_write(coap_session_t *session, const uint8_t *data, size_t datalen) {
  if (fail_next_write) {
    fail_next_write = 0;
    show_dgram_item(sid_of(session), 'E', data, datalen);
    errno = ENOBUFS;
    return -1;
  }
  return __real_coap_netif_dgrm_write(session, data, datalen);
}

/* H<sid>,<mid>,<newmid>,<newtok>: when the nack handler is called for (sid, mid) because the message
 * was given up or reset, the application submits a new CON from inside the handler (the usual
 * "retry"); reported as item a / x (result of that nested coap_send) + its datagram if any */
#define MAXHOOK 64
static struct { int sid, mid, newmid, newtok, used; } hooks[MAXHOOK];
static int nhooks, in_disconnect;
static coap_pdu_t *mk_pdu(int sid, char ty, int mid, int tok);

static void on_nack(coap_session_t *s, const coap_pdu_t *sent, const coap_nack_reason_t reason,
                    const coap_mid_t mid) {
  int sid = sid_of(s);
  item(sid, "N%d.%d.%d", (int)reason, (int)mid, sent ? 1 : 0);
  /* not from inside a disconnect (whatever is submitted there is thrown away with the queues) */
  if (in_disconnect || !sent || (reason != COAP_NACK_TOO_MANY_RETRIES && reason != COAP_NACK_RST)) return;
  for (int h = 0; h < nhooks; h++)
    if (!hooks[h].used && hooks[h].sid == sid && hooks[h].mid == (int)mid) {
      hooks[h].used = 1;
      coap_pdu_t *p = mk_pdu(sid, 'c', hooks[h].newmid, hooks[h].newtok);
      /* "(" .. "a" | "x" bracket what the nested call produces and its result */
      item(sid, "(");
      if (coap_send(s, p) == COAP_INVALID_MID) item(sid, "x");
      else item(sid, "a");
      break;
    }
}

static coap_response_t on_resp(coap_session_t *s, const coap_pdu_t *sent, const coap_pdu_t *rcv,
                               const coap_mid_t mid) {
  (void)s; (void)sent; (void)rcv; (void)mid;
  return COAP_RESPONSE_OK;
}

/* forced-timer mode: the k-th one-byte draw (the retransmission jitter of the k-th CON) is 8*(k+1),
 * so that no two send-queue nodes are due at the same instant (coap_calc_timeout has 32 steps);
 * with the clock frozen nothing then fires by itself.  Everything else comes from vn_prng_fn. */
static unsigned jitter_ctr;
static int ns_prng(void *buf, size_t len) {
  if (len == 1) {
    *(uint8_t *)buf = (uint8_t)(8 * (jitter_ctr++ % 31) + 8);   /* 8, 16, .. 248: never 0 (a zero
                                        leisure would send a delayed multicast response at once) */
    return 1;
  }
  return vn_prng_fn(buf, len);
}

static void on_get(coap_resource_t *r, coap_session_t *s, const coap_pdu_t *req,
                   const coap_string_t *q, coap_pdu_t *resp) {
  (void)r; (void)s; (void)req; (void)q;
  coap_pdu_set_code(resp, COAP_RESPONSE_CODE_CONTENT);
}

/* deliver a datagram from the session's peer: client session -> its own socket, server-side
 * session -> the endpoint's socket with the peer's source address */
static void inject(int sid, const uint8_t *d, size_t n) {
  if (is_server[sid]) vn_inject_ep(ctx, srv_ep, &peer_addr[sid], NULL, d, n);
  else vn_inject_session(ctx, sess[sid], d, n);
}

/* some variety that must not matter to the accounting: method / response code, a Uri-Path option,
 * a payload (all derived from the message id); a client session sends requests, a server-side
 * session responses / notifications */
static coap_pdu_t *mk_pdu(int sid, char ty, int a, int b) {
  static const coap_pdu_code_t req_code[3] = {COAP_REQUEST_CODE_GET, COAP_REQUEST_CODE_POST,
                                              COAP_REQUEST_CODE_PUT};
  static const coap_pdu_code_t rsp_code[3] = {COAP_RESPONSE_CODE_CONTENT, COAP_RESPONSE_CODE_CHANGED,
                                              COAP_RESPONSE_CODE_NOT_FOUND};
  coap_pdu_t *p = coap_pdu_init(ty != 'n' ? COAP_MESSAGE_CON : COAP_MESSAGE_NON,
                                is_server[sid] ? rsp_code[a % 3] : req_code[a % 3],
                                (coap_mid_t)a, 64);
  uint8_t tk[2] = {(uint8_t)(b >> 8), (uint8_t)b};
  coap_add_token(p, 2, tk);
  /* type o: a CON Observe registration; the context is then in COAP_BLOCK_USE_LIBCOAP mode, so
   * the request gets a lg_crcv entry inside coap_send() already (also while it is held) */
  if (ty == 'o' && !is_server[sid]) coap_add_option(p, COAP_OPTION_OBSERVE, 0, NULL);
  if (!is_server[sid] && (a & 2)) coap_add_option(p, COAP_OPTION_URI_PATH, 1, (const uint8_t *)"r");
  if (a & 1) coap_add_data(p, 3, (const uint8_t *)"abc");
  return p;
}

static void fire_timer(coap_session_t *s, int mid) {
  coap_queue_t *node = NULL;
  coap_lock_lock(ctx, return);
  coap_remove_from_queue(&ctx->sendqueue, s, (coap_mid_t)mid, &node);
  if (node) coap_retransmit(ctx, node);
  coap_lock_unlock(ctx);
}

static void do_case(void) {
  /* vtok[0]="ns" vtok[1]=variant vtok[2]=nsess vtok[3..]=cfgs, then ops */
  static unsigned long caseno = 0;
  unsigned peer_mid = 0xf000;   /* the peer's own ids: above everything the generator submits */
  nsess = atoi(vtok[2]);
  if (nsess < 1 || nsess > MAXS || vntok < 3 + nsess) { puts("ERROR bad case"); return; }
  vn_now = 1000;
  vn_prng_seed(++caseno);
  {
    int natural = 0;
    for (int i = 3 + nsess; i < vntok; i++) natural |= vtok[i][0] == 'W';
    jitter_ctr = 0;
    if (!natural) coap_set_prng(ns_prng);
  }
  vn_on_send = on_send;
  fail_next_write = 0;
  nhooks = 0;
  recording = 0;
  ctx = coap_new_context(NULL);
  if (!ctx) { puts("ERROR no context"); return; }
  coap_register_nack_handler(ctx, on_nack);
  coap_register_response_handler(ctx, on_resp);
  /* keepalive: the library's own empty-CON ping.  Forced-timer mode: 1 s - with the clock frozen
   * at 1000 and last_rx_tx = 1000 no ping is ever due by itself; op G makes one due.  Natural
   * time: only when the case starts with K<seconds>. */
  {
    int natural = 0, ka = 0;
    for (int i = 3 + nsess; i < vntok; i++) {
      natural |= vtok[i][0] == 'W';
      if (vtok[i][0] == 'K') ka = atoi(vtok[i] + 1);
    }
    for (int i = 3 + nsess; i < vntok; i++)
      if (vtok[i][0] == 'S' && strstr(vtok[i], ",o,")) {
        coap_context_set_block_mode(ctx, COAP_BLOCK_USE_LIBCOAP);
        break;
      }
    if (!natural) coap_context_set_keepalive(ctx, 1);
    else if (ka > 0) coap_context_set_keepalive(ctx, (unsigned)ka);
  }
  srv_ep = NULL;
  for (int k = 0; k < nsess; k++) {
    int nstart = 1, maxrt = 4, est0 = 1, udp = 1;
    char kind = 'c';
    coap_address_t a;
    sscanf(vtok[3 + k], "%d,%d,%d,%d,%c", &nstart, &maxrt, &est0, &udp, &kind);
    dead[k] = 0;
    is_server[k] = kind == 's';
    if (!is_server[k]) {
      vn_addr4(&a, VN_LOOPBACK, (uint16_t)(6000 + k));
      sess[k] = vn_new_client(ctx, &a);
    } else {
      /* server-side session: created by the library for a first datagram from a new peer (an
       * empty ACK nobody waits for: no reply); the context gets an endpoint and a resource */
      static const uint8_t hello[4] = {0x60, 0x00, 0xff, 0xfe};
      if (!srv_ep) {
        coap_resource_t *r = coap_resource_init(coap_make_str_const("r"), 0);
        coap_register_request_handler(r, COAP_REQUEST_GET, on_get);
        coap_resource_set_get_observable(r, 1);      /* NON notifications (flags 0) */
        srv_res = r;
        coap_add_resource(ctx, r);
        srv_ep = vn_new_server_ep(ctx);
        if (!srv_ep) { puts("ERROR no endpoint"); return; }
      }
      vn_addr4(&peer_addr[k], 0x0a000001u + (uint32_t)k, (uint16_t)(40000 + k));
      vn_inject_ep(ctx, srv_ep, &peer_addr[k], NULL, hello, sizeof(hello));
      sess[k] = coap_session_get_by_peer(ctx, &peer_addr[k], 0);
      if (sess[k]) coap_session_reference(sess[k]);
    }
    if (!sess[k]) { puts("ERROR no session"); return; }
    coap_session_set_nstart(sess[k], (uint16_t)nstart);
    coap_session_set_max_retransmit(sess[k], (uint16_t)maxrt);
    if (!est0) sess[k]->state = COAP_SESSION_STATE_HANDSHAKE;
    /* ids of the messages the library creates itself (pings): 50001 + 1000 k, 50002 + .. (the
     * generator's own ids stay below 45000) */
    sess[k]->tx_mid = (uint16_t)(50000 + 1000 * k);
  }
  recording = 1;
  for (int i = 3 + nsess; i < vntok; i++) {
    const char *op = vtok[i];
    int sid = 0, a = 0, b = 0;
    char ty = 'c';
    const char *ret = "";
    ilen = 0;
    items[0] = 0;
    if (op[0] == 'K') {                       /* keepalive period of a natural-time case: see above */
      cur_sid = -1;
    } else if (op[0] == 'E') {                /* the next n socket writes fail (ENOBUFS) */
      cur_sid = -1;
      fail_next_write = 1;
    } else if (op[0] == 'W') {                /* natural time: advance, fire what is due */
      cur_sid = -1;
      vn_advance((coap_tick_t)atol(op + 1));
      vn_prepare(ctx);
    } else {
      sid = atoi(op + 1);
      if (sid < 0 || sid >= nsess) { printf("ERROR bad sid"); break; }
      cur_sid = sid;
      coap_session_t *s = sess[sid];
      const char *comma = strchr(op, ',');
      switch (op[0]) {
      case 'S': {
        sscanf(comma + 1, "%c,%d,%d", &ty, &a, &b);
        /* a client session sends requests, a server-side session responses / notifications */
        coap_pdu_t *p = mk_pdu(sid, ty, a, b);
        ret = coap_send(s, p) == COAP_INVALID_MID ? "X" : "A";
        break;
      }
      case 'A':
      case 'R': {
        a = atoi(comma + 1);
        uint8_t d[4] = {(uint8_t)(op[0] == 'A' ? 0x60 : 0x70), 0, (uint8_t)(a >> 8), (uint8_t)a};
        if (!dead[sid]) inject(sid, d, 4);
        break;
      }
      case 'B': {          /* a malformed answer with the id of one of our messages:
                              B<sid>,<mid>,<kind>  1 = ACK with a code of an invalid class (1.00),
                              2 = ACK carrying a request code (0.01), 3 = ACK with code 0.00 but a
                              token, 4 = NON with an invalid class (the peer's own id space) */
        int kind = 1;
        sscanf(comma + 1, "%d,%d", &a, &kind);
        uint8_t d1[4] = {0x60, 0x20, (uint8_t)(a >> 8), (uint8_t)a};
        uint8_t d2[4] = {0x60, 0x01, (uint8_t)(a >> 8), (uint8_t)a};
        uint8_t d3[6] = {0x62, 0x00, (uint8_t)(a >> 8), (uint8_t)a, 0x12, 0x34};
        uint8_t d4[4] = {0x50, 0x20, (uint8_t)(a >> 8), (uint8_t)a};
        if (!dead[sid]) {
          if (kind == 1) inject(sid, d1, 4);
          else if (kind == 2) inject(sid, d2, 4);
          else if (kind == 3) inject(sid, d3, 6);
          else inject(sid, d4, 4);
        }
        break;
      }
      case 'P': {
        unsigned pm = 0;
        a = 0;
        if (sscanf(comma + 1, "%d,%u", &a, &pm) != 2) pm = ++peer_mid;   /* peer's own message id */
        uint8_t d[8] = {0x52, 0x45, (uint8_t)(pm >> 8), (uint8_t)pm,
                        (uint8_t)(a >> 8), (uint8_t)a, 0xff, 'x'};
        /* token 0 = the empty token (what the library's own ping carries) */
        uint8_t d0[6] = {0x50, 0x45, (uint8_t)(pm >> 8), (uint8_t)pm, 0xff, 'x'};
        if (!dead[sid]) {
          if (a == 0) inject(sid, d0, 6);
          else inject(sid, d, 8);
        }
        break;
      }
      case 'T':
        a = atoi(comma + 1);
        if (!dead[sid]) fire_timer(s, a);
        break;
      case 'H':            /* declare a resubmitting nack handler, see on_nack */
        if (nhooks < MAXHOOK) {
          int nm = 0, nt = 0;
          sscanf(comma + 1, "%d,%d,%d", &a, &nm, &nt);
          hooks[nhooks].sid = sid; hooks[nhooks].mid = a; hooks[nhooks].newmid = nm;
          hooks[nhooks].newtok = nt; hooks[nhooks].used = 0;
          nhooks++;
        }
        break;
      case 'G':            /* the keepalive period of this (client) session is over: the library's
                              timer code sends its ping if it wants to (coap_io_prepare_io) */
        if (!is_server[sid] && !dead[sid]) {
          s->last_rx_tx = 0;
          vn_prepare(ctx);
          if (s->last_rx_tx == 0) s->last_rx_tx = vn_now;   /* no ping wanted now: not later either */
        }
        break;
      case 'O': {          /* (server-side session) the peer registers as an observer of /r:
                              NON GET, Observe 0, token ee02 -> NON 2.05 (item Wo) */
        peer_mid++;
        uint8_t d[9] = {0x52, 0x01, (uint8_t)(peer_mid >> 8), (uint8_t)peer_mid, 0xee, 0x02,
                        0x60, 0x51, 'r'};
        if (is_server[sid] && !dead[sid]) inject(sid, d, 9);
        break;
      }
      case 'N':            /* the application changes /r: coap_resource_notify_observers(), then the
                              library's own loop sends the notifications (NON, item Wo) */
        if (is_server[sid] && !dead[sid] && srv_res) {
          coap_resource_notify_observers(srv_res, NULL);
          vn_prepare(ctx);
        }
        break;
      case 'M': {          /* a multicast NON GET /r from the session's peer (server-side sessions):
                              the response is delayed through the send queue (leisure) */
        coap_address_t grp;
        peer_mid++;
        uint8_t d[8] = {0x52, 0x01, (uint8_t)(peer_mid >> 8), (uint8_t)peer_mid, 0xee, 0x01, 0xb1, 'r'};
        if (is_server[sid] && !dead[sid]) {
          vn_addr4(&grp, 0xe00001bbu, ntohs(srv_ep->bind_addr.addr.sin.sin_port));
          vn_inject_ep(ctx, srv_ep, &peer_addr[sid], &grp, d, 8);
        }
        break;
      }
      case 'Y':            /* the leisure timer of the session's delayed multicast response fires */
        if (is_server[sid] && !dead[sid]) {
          coap_queue_t *n = NULL, *it;
          coap_lock_lock(ctx, break);
          for (it = ctx->sendqueue; it; it = it->next)
            if (it->session == s && it->is_mcast) break;
          if (it) coap_remove_from_queue(&ctx->sendqueue, s, it->id, &n);
          if (n) coap_retransmit(ctx, n);
          coap_lock_unlock(ctx);
        }
        break;
      case 'U':
        if (!dead[sid]) {
          coap_lock_lock(ctx, break);
          coap_session_connected(s);
          coap_lock_unlock(ctx);
        }
        break;
      case 'F':
        a = atoi(comma + 1);
        if (!dead[sid]) {
          in_disconnect = 1;
          coap_session_disconnected(s, (coap_nack_reason_t)a);
          in_disconnect = 0;
          /* the disconnect closes a client session's socket; a server-side session goes on */
          if (a != COAP_NACK_ICMP_ISSUE && !is_server[sid]) dead[sid] = 1;
        }
        break;
      default:
        printf("ERROR bad op");
        break;
      }
    }
    items[ilen] = 0;
    printf("%s%d:%s%s%s", i > 3 + nsess ? " " : "", i - 3 - nsess, ret,
           (*ret && ilen) ? "," : "", items);
    if (dbg) {
      fprintf(stderr, "  after %s:", op);
      for (int k = 0; k < nsess; k++) fprintf(stderr, " s%d.con_active=%u", k, sess[k]->con_active);
      fprintf(stderr, " | sendqueue(base=%llu):", (unsigned long long)ctx->sendqueue_basetime);
      for (coap_queue_t *q = ctx->sendqueue; q; q = q->next)
        fprintf(stderr, " [mid=%d t=+%llu cnt=%u]", q->id, (unsigned long long)q->t, q->retransmit_cnt);
      fprintf(stderr, "\n");
    }
  }
  printf("\n");
  recording = 0;
  for (int k = 0; k < nsess; k++) {
    if (!is_server[k]) vn_unregister_client(sess[k]);
    coap_session_release(sess[k]);
    sess[k] = NULL;
  }
  coap_free_context(ctx);
  ctx = NULL;
  vn_log_reset();
  vn_nnodes = 0;
}

int main(void) {
  coap_startup();
  coap_set_log_level(COAP_LOG_EMERG);
  dbg = getenv("NS_DEBUG") != NULL;
  while (next_case(stdin)) {
    if (vntok == 0) { puts(""); continue; }
    if (!strcmp(vtok[0], "ns")) do_case();
    else puts("ERROR unknown command");
    fflush(stdout);
  }
  coap_cleanup();
  return 0;
}

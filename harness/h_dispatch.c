/* C10 driver: one request datagram -> a UDP server endpoint of a freshly configured context,
 * through the library's real receive path (harness/common/vnet.h); prints, in order of
 * occurrence, every request-handler invocation and every datagram the server emitted.
 * Build: wraps = coap_ticks coap_socket_send coap_socket_recv.
 *
 * case line (blank separated):
 *   c10 <mpr> <kopts> <res> <unk> <prx> <hact> <loc> <dgram>
 *     mpr    0|1                      coap_mcast_per_resource()
 *     kopts  - | n,n,...              coap_register_option()
 *     res    - | path/mask/flags/obs,...  path = bytes token (hex or -), mask bit (m-1) = method m,
 *                                      obs = 1: observable
 *     unk    - | mask/flags           coap_resource_unknown_init2
 *     prx    - | mask/flags/h+h+...   coap_resource_proxy_uri_init2, h = host name bytes token
 *     hact   code/opts/payload[/A]    what every handler does: opts = - | num=hex+num=hex;
 *                                     /A: it calls coap_register_async(session, request, 0) and sets nothing
 *     loc    u|m (one letter per datagram, the last repeats)   destination: the bind address | 224.0.1.187
 *     dgram  hex
 * result line: events separated by blanks, "-" if none
 *   H[r=<res path hex> s=<slot> c=<code> k=<token> q=<query> u=<path> o=<opts> p=<payload>]
 *   TX[t= c= m= k= o= p=]     (p=574b "WK" when the payload equals the .well-known/core listing)
 * The same format is printed by ocaml/d_dispatch.ml from the extracted model.
 */
#include "coap3/coap_libcoap_build.h"
#include "common/util.h"
#include "common/vnet.h"
#include "common/dump.h"

/* ------------------------------------------------------------------ event buffer */
static char *ev = NULL;
static size_t ev_len = 0, ev_cap = 0;
static FILE *evf = NULL;

static void ev_open(void) {
  ev_len = 0;
  evf = open_memstream(&ev, &ev_len);
}

/* ------------------------------------------------------------------ handler behaviour */
static int h_code = 0;
static int h_async = 0;      /* the handler defers its answer: coap_register_async(.., 0) */
static struct { unsigned num; uint8_t *v; size_t n; } h_opts[64];
static int h_nopts = 0;
static uint8_t *h_payload = NULL;
static size_t h_paylen = 0;

static void parse_hact(char *s) {
  char *c = strtok(s, "/");
  char *o = strtok(NULL, "/");
  char *p = strtok(NULL, "/");
  char *a = strtok(NULL, "/");
  h_async = a && a[0] == 'A';
  for (int i = 0; i < h_nopts; i++) free(h_opts[i].v);
  h_nopts = 0;
  free(h_payload);
  h_code = atoi(c);
  if (o && strcmp(o, "-")) {
    char *save = NULL;
    for (char *it = strtok_r(o, "+", &save); it && h_nopts < 64; it = strtok_r(NULL, "+", &save)) {
      char *eq = strchr(it, '=');
      if (!eq) continue;
      *eq = 0;
      h_opts[h_nopts].num = (unsigned)atoi(it);
      h_opts[h_nopts].v = bytes_of_tok(eq + 1, &h_opts[h_nopts].n);
      h_nopts++;
    }
  }
  h_payload = bytes_of_tok(p ? p : "-", &h_paylen);
}

static void show_opts(FILE *o, const coap_pdu_t *pdu) {
  coap_opt_iterator_t oi;
  coap_opt_t *opt;
  int first = 1;
  coap_option_iterator_init(pdu, &oi, COAP_OPT_ALL);
  while ((opt = coap_option_next(&oi))) {
    if (!first) fputc(',', o);
    first = 0;
    fprintf(o, "%u:", (unsigned)oi.number);
    show_bytes(o, coap_opt_value(opt), coap_opt_length(opt));
  }
  if (first) fputc('-', o);
}

static void on_request(int slot, coap_resource_t *r, coap_session_t *s, const coap_pdu_t *req,
                       const coap_string_t *q, coap_pdu_t *resp) {
  coap_str_const_t *rp = coap_resource_get_uri_path(r);
  coap_bin_const_t tok = coap_pdu_get_token(req);
  coap_string_t *up = coap_get_uri_path(req);
  size_t len = 0;
  const uint8_t *data = NULL;
  if (!evf) return;          /* outside a case (never expected) */
  fputs("H[r=", evf);
  show_bytes(evf, rp->s, rp->length);
  fprintf(evf, " s=%d c=%d k=", slot, (int)coap_pdu_get_code(req));
  show_bytes(evf, tok.s, tok.length);
  fputs(" q=", evf);
  if (q) show_bytes(evf, q->s, q->length); else fputc('-', evf);
  fputs(" u=", evf);
  if (up) show_bytes(evf, up->s, up->length); else fputs("NULL", evf);
  coap_delete_string(up);
  fputs(" o=", evf);
  show_opts(evf, req);
  fputs(" p=", evf);
  if (coap_get_data(req, &len, &data) && len) show_bytes(evf, data, len); else fputc('-', evf);
  fputs("] ", evf);
  if (h_async) {
    /* separate response later: nothing is set now (Empty ACK for a CON) */
    coap_register_async(s, req, 0);
    return;
  }
  /* what the handler sets */
  if (h_code) coap_pdu_set_code(resp, (coap_pdu_code_t)h_code);
  for (int i = 0; i < h_nopts; i++)
    coap_add_option(resp, (coap_option_num_t)h_opts[i].num, h_opts[i].n, h_opts[i].v);
  if (h_paylen) coap_add_data(resp, h_paylen, h_payload);
}

#define HND(n) static void hnd_##n(coap_resource_t *r, coap_session_t *s, const coap_pdu_t *req, \
                                   const coap_string_t *q, coap_pdu_t *resp) { on_request(n, r, s, req, q, resp); }
HND(1) HND(2) HND(3) HND(4) HND(5) HND(6) HND(7)
static void hnd_proxy(coap_resource_t *r, coap_session_t *s, const coap_pdu_t *req,
                      const coap_string_t *q, coap_pdu_t *resp) {
  on_request((int)coap_pdu_get_code(req), r, s, req, q, resp);
}
static coap_method_handler_t hnds[7] = {hnd_1, hnd_2, hnd_3, hnd_4, hnd_5, hnd_6, hnd_7};

static void reg_methods(coap_resource_t *r, unsigned mask) {
  for (int m = 1; m <= 7; m++)
    coap_register_request_handler(r, (coap_request_t)m, (mask >> (m - 1)) & 1 ? hnds[m - 1] : NULL);
}

/* ------------------------------------------------------------------ server set-up */
static coap_context_t *ctx = NULL;
static coap_endpoint_t *ep = NULL;
static char *cur_cfg = NULL;
static int cfg_uses = 0;

static void teardown(void) {
  if (ctx) coap_free_context(ctx);
  ctx = NULL;
  ep = NULL;
  vn_nnodes = 0;
  free(cur_cfg);
  cur_cfg = NULL;
}

static int setup(const char *mpr, const char *kopts, const char *res, const char *unk,
                 const char *prx) {
  char key[8192];
  snprintf(key, sizeof(key), "%s %s %s %s %s", mpr, kopts, res, unk, prx);
  if (ctx && cur_cfg && !strcmp(key, cur_cfg) && cfg_uses < 500) {
    cfg_uses++;
    return 1;
  }
  teardown();
  cfg_uses = 0;
  cur_cfg = strdup(key);
  ctx = coap_new_context(NULL);
  if (!ctx) return 0;
  coap_context_set_block_mode(ctx, 0);
  ep = vn_new_server_ep(ctx);
  if (!ep) return 0;
  if (atoi(mpr)) coap_mcast_per_resource(ctx);
  char *tmp, *save = NULL;
  if (strcmp(kopts, "-")) {
    tmp = strdup(kopts);
    for (char *it = strtok_r(tmp, ",", &save); it; it = strtok_r(NULL, ",", &save))
      coap_register_option(ctx, (uint16_t)atoi(it));
    free(tmp);
  }
  if (strcmp(res, "-")) {
    tmp = strdup(res);
    for (char *it = strtok_r(tmp, ",", &save); it; it = strtok_r(NULL, ",", &save)) {
      char *s2 = NULL;
      char *p = strtok_r(it, "/", &s2), *m = strtok_r(NULL, "/", &s2), *f = strtok_r(NULL, "/", &s2);
      char *ob = strtok_r(NULL, "/", &s2);
      size_t n;
      uint8_t *pb = bytes_of_tok(p, &n);
      coap_str_const_t sc = {n, pb};
      coap_resource_t *r = coap_resource_init(&sc, atoi(f) & ~COAP_RESOURCE_FLAGS_RELEASE_URI);
      reg_methods(r, (unsigned)atoi(m));
      if (ob && atoi(ob)) coap_resource_set_get_observable(r, 1);
      coap_add_resource(ctx, r);
      free(pb);
    }
    free(tmp);
  }
  if (strcmp(unk, "-")) {
    tmp = strdup(unk);
    char *s2 = NULL;
    char *m = strtok_r(tmp, "/", &s2), *f = strtok_r(NULL, "/", &s2);
    coap_resource_t *r = coap_resource_unknown_init2(NULL, atoi(f));
    reg_methods(r, (unsigned)atoi(m));
    coap_add_resource(ctx, r);
    free(tmp);
  }
  if (strcmp(prx, "-")) {
    tmp = strdup(prx);
    char *s2 = NULL;
    char *m = strtok_r(tmp, "/", &s2), *f = strtok_r(NULL, "/", &s2), *hs = strtok_r(NULL, "/", &s2);
    const char *names[16];
    int nn = 0;
    char *s3 = NULL;
    for (char *h = strtok_r(hs, "+", &s3); h && nn < 16; h = strtok_r(NULL, "+", &s3)) {
      size_t n;
      uint8_t *hb = bytes_of_tok(h, &n);
      char *z = (char *)malloc(n + 1);
      memcpy(z, hb, n);
      z[n] = 0;
      free(hb);
      names[nn++] = z;
    }
    /* the proxy resource keeps the handlers coap_resource_proxy_uri_init2() presets for all
     * methods (hnd_proxy logs the request's method as its slot); only the methods outside the
     * mask are taken away again */
    coap_resource_t *r = coap_resource_proxy_uri_init2(hnd_proxy, (size_t)nn, names, atoi(f));
    if (r) {
      unsigned mask = (unsigned)atoi(m);
      for (int mm = 1; mm <= 7; mm++)
        if (!((mask >> (mm - 1)) & 1)) coap_register_request_handler(r, (coap_request_t)mm, NULL);
      coap_add_resource(ctx, r);
    }
    for (int i = 0; i < nn; i++) free((void *)names[i]);
    free(tmp);
  }
  return 1;
}

/* ------------------------------------------------------------------ one case */
static unsigned long case_no = 0;
static coap_string_t *last_query = NULL;

static void show_tx(const vn_dgram_t *d, const coap_address_t *peer) {
  coap_pdu_t *pdu = coap_pdu_init(0, 0, 0, d->len > 4 ? d->len : 4);
  fputs("TX[", evf);
  if (pdu && coap_pdu_parse(COAP_PROTO_UDP, d->data, d->len, pdu)) {
    coap_bin_const_t tok = coap_pdu_get_token(pdu);
    size_t len = 0;
    const uint8_t *data = NULL;
    fprintf(evf, "t=%d c=%d m=%d k=", (int)coap_pdu_get_type(pdu), (int)coap_pdu_get_code(pdu),
            (int)coap_pdu_get_mid(pdu));
    show_bytes(evf, tok.s, tok.length);
    fputs(" o=", evf);
    show_opts(evf, pdu);
    fputs(" p=", evf);
    if (coap_get_data(pdu, &len, &data) && len) {
      /* the built-in .well-known/core listing is C20's subject: print the marker "WK" when the
       * payload is exactly what coap_print_wellknown() yields for the request's query */
      static uint8_t wk[4096];
      size_t wl = sizeof(wk);
      int is_wk = 0;
      if (coap_pdu_get_code(pdu) == COAP_RESPONSE_CODE(205) && last_query != (coap_string_t *)-1) {
        coap_print_status_t st = coap_print_wellknown(ctx, wk, &wl, 0, last_query);
        if (!(st & COAP_PRINT_STATUS_ERROR) && wl == len && !memcmp(wk, data, len)) is_wk = 1;
      }
      if (is_wk) fputs("WK", evf); else show_bytes(evf, data, len);
    } else fputc('-', evf);
  } else {
    fputs("UNPARSEABLE ", evf);
    show_bytes(evf, d->data, d->len);
  }
  if (!coap_address_equals(&d->dst, peer)) fputs(" WRONGDST", evf);
  fputs("] ", evf);
  coap_delete_pdu(pdu);
}

/* the send hook runs with the library lock held: it only leaves a marker in the event stream;
 * the datagram is decoded after the injection has returned */
static coap_address_t cur_peer;
static void on_send(size_t idx) {
  fprintf(evf, "\001%zu\002", idx);
}

/* one datagram: inject, let multicast delays pass, return the events as text ("-" if none) */
static char *run_step(const uint8_t *dg, size_t n, int mcast, const coap_address_t *local) {
  vn_log_reset();
  ev_open();
  /* the query string the built-in .well-known/core handler will see */
  {
    coap_pdu_t *pdu = coap_pdu_init(0, 0, 0, n > 4 ? n : 4);
    last_query = (coap_string_t *)-1;
    if (pdu && coap_pdu_parse(COAP_PROTO_UDP, dg, n, pdu)) last_query = coap_get_query(pdu);
    coap_delete_pdu(pdu);
  }
  vn_on_send = on_send;
  vn_inject_ep(ctx, ep, &cur_peer, mcast ? local : NULL, dg, n);
  if (mcast) {
    /* multicast responses are delayed by up to DEFAULT_LEISURE: let the timers fire */
    coap_tick_t waited = 0;
    for (int guard = 0; guard < 20 && waited < 10000; guard++) {
      unsigned w = vn_prepare(ctx);
      if (w == 0) break;
      if (waited + w > 10000) w = (unsigned)(10000 - waited) + 1;
      vn_advance(w);
      waited += w;
    }
    vn_prepare(ctx);
  }
  vn_on_send = NULL;
  fclose(evf);
  {
    char *raw = ev;
    size_t rawlen = ev_len;
    ev = NULL;
    ev_open();
    for (size_t i = 0; i < rawlen; i++) {
      if (raw[i] == 1) {
        size_t idx = (size_t)strtoul(raw + i + 1, NULL, 10);
        while (i < rawlen && raw[i] != 2) i++;
        if (idx < vn_nout) show_tx(&vn_out[idx], &cur_peer);
      } else fputc(raw[i], evf);
    }
    fclose(evf);
    evf = NULL;
    free(raw);
  }
  if (last_query && last_query != (coap_string_t *)-1) coap_delete_string(last_query);
  last_query = NULL;
  while (ev_len && ev[ev_len - 1] == ' ') ev[--ev_len] = 0;
  char *res = strdup(ev_len ? ev : "-");
  free(ev);
  ev = NULL;
  return res;
}

/* dgram = hex | hex+hex+...: several datagrams from the same peer, one after the other (no
 * time passes in between); the result line joins the per-datagram events with " | " */
static void c10(void) {
  if (vntok < 9) { puts("ERROR args"); return; }
  if (!setup(vtok[1], vtok[2], vtok[3], vtok[4], vtok[5])) { puts("ERROR setup"); return; }
  parse_hact(vtok[6]);
  const char *dests = vtok[7];       /* one letter per datagram, the last one repeats */
  size_t ndests = strlen(dests);
  int step = 0;
  coap_address_t local;
  case_no++;
  vn_addr4(&cur_peer, 0x0a000000u + (uint32_t)(case_no / 40000) + 1, (uint16_t)(20000 + case_no % 40000));
  vn_addr4(&local, 0xe00001bbu, ntohs(ep->bind_addr.addr.sin.sin_port));
  vn_prng_seed(1);
  char *save = NULL;
  int first = 1;
  for (char *part = strtok_r(vtok[8], "+", &save); part; part = strtok_r(NULL, "+", &save)) {
    size_t n;
    uint8_t *dg = bytes_of_tok(part, &n);
    int mcast = dests[(size_t)step < ndests ? (size_t)step : ndests - 1] == 'm';
    step++;
    char *r = run_step(dg, n, mcast, &local);
    if (!first) fputs(" | ", stdout);
    first = 0;
    fputs(r, stdout);
    free(r);
    free(dg);
  }
  putchar('\n');
  /* let the session of this case expire so that no state leaks into the next case */
  for (int guard = 0; guard < 64; guard++) {
    unsigned w = vn_prepare(ctx);   /* retransmissions of a separate CON response, then idle expiry */
    if (w == 0) break;
    vn_advance(w);
  }
  vn_advance(400 * 1000);
  vn_prepare(ctx);
}

/* c10esc: which byte values coap_get_uri_path() / coap_get_query() copy unescaped, asked of the
 * library itself (a one-byte Uri-Path / Uri-Query option for each value); two 256-bit tables,
 * bit i of byte i/8 (LSB first), printed as hex */
static void c10esc(void) {
  uint8_t tp[32], tq[32];
  memset(tp, 0, sizeof(tp));
  memset(tq, 0, sizeof(tq));
  for (int b = 0; b < 256; b++) {
    uint8_t v = (uint8_t)b;
    coap_pdu_t *pdu = coap_pdu_init(COAP_MESSAGE_CON, COAP_REQUEST_CODE_GET, 1, 64);
    coap_add_option(pdu, COAP_OPTION_URI_PATH, 1, &v);
    coap_add_option(pdu, COAP_OPTION_URI_QUERY, 1, &v);
    coap_string_t *p = coap_get_uri_path(pdu);
    coap_string_t *q = coap_get_query(pdu);
    if (p && p->length == 1 && p->s[0] == v) tp[b / 8] |= (uint8_t)(1u << (b % 8));
    if (q && q->length == 1 && q->s[0] == v) tq[b / 8] |= (uint8_t)(1u << (b % 8));
    coap_delete_string(p);
    coap_delete_string(q);
    coap_delete_pdu(pdu);
  }
  for (int i = 0; i < 32; i++) printf("%02x", tp[i]);
  putchar(' ');
  for (int i = 0; i < 32; i++) printf("%02x", tq[i]);
  putchar('\n');
}

int main(void) {
  coap_startup();
  coap_set_log_level(COAP_LOG_EMERG);
  while (next_case(stdin)) {
    if (vntok == 0) { puts(""); continue; }
    if (!strcmp(vtok[0], "c10")) c10();
    else if (!strcmp(vtok[0], "c10esc")) c10esc();
    else puts("ERROR unknown command");
    fflush(stdout);
  }
  teardown();
  coap_cleanup();
  return 0;
}

/* Smoke test and template for harness/common/valloc.h (not a property check).
 * Build: vlib.build_driver("h_valloc_demo", ["h_valloc_demo.c"],
 *          wraps=["coap_ticks", "coap_socket_send", "coap_socket_recv",
 *                 "coap_malloc_type", "coap_realloc_type", "coap_free_type"])
 * Prints, for three small histories, the allocation trace in the token format that the model
 * driver's "attrace" command (ocaml/d_mem.ml -> Mem/AllocTrace.v at_verdict) judges:
 *   line 1: server context, one request from a scripted peer, context freed   -> clean
 *   line 2: same, but the 3rd allocation fails (va_arm_fail)                   -> clean expected
 *   line 3: same as 1 with a block deliberately leaked and one freed twice by the driver
 */
#include "coap3/coap_libcoap_build.h"
#include "common/util.h"
#include "common/vnet.h"
#include "common/valloc.h"

static void on_get(coap_resource_t *r, coap_session_t *s, const coap_pdu_t *req,
                   const coap_string_t *q, coap_pdu_t *resp) {
  (void)r; (void)s; (void)req; (void)q;
  coap_pdu_set_code(resp, COAP_RESPONSE_CODE_CONTENT);
  coap_add_data(resp, 5, (const uint8_t *)"hello");
}

static void history(int fail_at, int misuse) {
  va_reset();
  vn_nnodes = 0;
  if (fail_at) va_arm_fail(fail_at);
  coap_context_t *srv = coap_new_context(NULL);
  if (srv) {
    coap_endpoint_t *ep = vn_new_server_ep(srv);
    coap_resource_t *r = coap_resource_init(coap_make_str_const("r"), 0);
    if (r) {
      coap_register_request_handler(r, COAP_REQUEST_GET, on_get);
      coap_add_resource(srv, r);
    }
    if (ep) {
      coap_address_t peer;
      vn_addr4(&peer, 0x0a000001u, 40000);
      static const uint8_t raw[] = {0x40, 0x01, 0x12, 0x34, 0xb1, 'r'};
      vn_inject_ep(srv, ep, &peer, NULL, raw, sizeof(raw));
    }
    coap_free_context(srv);
  }
  if (misuse) {
    void *a = coap_malloc_type(COAP_STRING, 10);   /* leaked */
    void *b = coap_malloc_type(COAP_STRING, 20);
    (void)a;
    coap_free_type(COAP_STRING, b);
    coap_free_type(COAP_STRING, b);                /* logged as a double free, not executed */
  }
  vn_log_reset();
  printf("attrace ");
  va_dump(stdout);
  printf("\n");
  fprintf(stderr, "history fail_at=%d: events=%zu alloc_calls=%lu failed=%lu live=%zu(", fail_at,
          va_nlog, va_alloc_calls, va_failed, va_live_count());
  va_dump_live_types(stderr);
  fprintf(stderr, ") uaf_writes=%lu\n", va_flush());
}

int main(void) {
  coap_startup();
  coap_set_log_level(COAP_LOG_EMERG);
  vn_prng_seed(7);
  history(0, 0);
  history(3, 0);
  history(0, 1);
  coap_cleanup();
  return 0;
}

# Builds libcoap objects from /repo's *working tree* into $(OUT)/ (one directory per variant).
# Invoked by tools/vlib.py:  make -f harness/lib.mk OUT=... CFG=... SRCS="..." VARIANT=base|asan|tsan
REPO ?= /repo
VARIANT ?= base
GUARD ?= LIBCOAP_VERIF_HOOKS

COMMON := -g -DNDEBUG -D$(GUARD) -I$(CFG) -I$(CFG)/include -I$(REPO)/include \
          -DLIBCOAP_PACKAGE_BUILD='"verif"' -w
ifeq ($(VARIANT),base)
  CC := gcc
  CFLAGS := -O1 $(COMMON)
endif
ifeq ($(VARIANT),asan)
  CC := clang
  CFLAGS := -O1 -fno-omit-frame-pointer -fsanitize=address,undefined -fno-sanitize-recover=undefined $(COMMON)
endif
ifeq ($(VARIANT),asana)
  # as asan, with assert() live - the configuration a plain cmake build (no build type) produces:
  # an assertion a peer can trigger is an abort of the endpoint
  CC := clang
  CFLAGS := -O1 -fno-omit-frame-pointer -fsanitize=address,undefined -fno-sanitize-recover=undefined $(COMMON) -UNDEBUG
endif
ifeq ($(VARIANT),tsan)
  CC := clang
  CFLAGS := -O1 -fno-omit-frame-pointer -fsanitize=thread $(COMMON)
endif
ifeq ($(VARIANT),tsafe)
  # thread-safe locking forced on (what the build *would* be if COAP_THREAD_SAFE were 1)
  CC := clang
  CFLAGS := -O1 -fno-omit-frame-pointer -fsanitize=thread $(COMMON) -UCOAP_THREAD_SAFE -DCOAP_THREAD_SAFE=1
endif

OBJS := $(patsubst %.c,$(OUT)/%.o,$(SRCS))

all: $(OUT)/libcoap.a

$(OUT)/libcoap.a: $(OBJS)
	@rm -f $@
	@ar rcs $@ $(OBJS)

$(OUT)/%.o: $(REPO)/%.c
	@mkdir -p $(dir $@)
	@$(CC) $(CFLAGS) -MMD -MP -c $< -o $@

-include $(OBJS:.o=.d)

/* C18: allocator interposition (no source change to libcoap).
 *
 * The driver is linked with
 *     wraps = ["coap_malloc_type", "coap_realloc_type", "coap_free_type"]
 * All 19 translation units of libcoap that allocate reach the allocator only through these three
 * symbols (checked with nm on the built objects: coap_malloc_type/realloc_type/free_type are
 * undefined in every object except coap_mem.o, and coap_mem.c never calls them itself), so
 * ld --wrap sees every libcoap allocation.  NOT covered: uthash's direct malloc() (hash table
 * head + buckets in coap_session.o, coap_resource.o, coap_cache.o, oscore_context.o), GnuTLS and
 * libc internal allocations.
 *
 * What it gives:
 *   - a typed event trace  a<id> | x | f<id> | n | r<old>:<new> | y<old>   (ids = sequence
 *     numbers of successful allocations; f0 = free of a pointer that never was allocated);
 *   - "fail exactly the k-th allocation attempt" (up to FA_MAXFAIL indices) while armed;
 *   - for every allocation attempt: type, size and the return address of the caller; for an
 *     injected failure a backtrace (resolved to function names by tools/checks/c18.py);
 *   - base variant: every block lives between two guard zones (checked at free / at the end),
 *     fresh blocks are filled with 0xA5, freed blocks are filled with 0xDD and never handed
 *     back (quarantine: no address reuse, stale reads see 0xDD.., stale writes are detected),
 *     realloc always moves;
 *   - asan variant (FA_PASSTHROUGH): the block is libcoap's own malloc'ed block, so ASan sees
 *     every access; the trace and the injection work the same.
 */
#ifndef VERIF_FA_ALLOC_H
#define VERIF_FA_ALLOC_H
#include <execinfo.h>
#include <stdint.h>
#include <stdio.h>
#include <stdlib.h>
#include <string.h>
#include <unistd.h>

void *__real_coap_malloc_type(coap_memory_tag_t type, size_t size);
void *__real_coap_realloc_type(coap_memory_tag_t type, void *p, size_t size);
void __real_coap_free_type(coap_memory_tag_t type, void *p);

#if defined(__has_feature)
#if __has_feature(address_sanitizer)
#define FA_PASSTHROUGH 1
#endif
#endif
#ifdef __SANITIZE_ADDRESS__
#define FA_PASSTHROUGH 1
#endif

#define FA_GZ 32                  /* guard zone on each side (keeps 16-byte alignment) */
#define FA_MAXFAIL 4
#define FA_BT 10

/* ---- switches */
static int fa_armed = 0;          /* count attempts and inject */
static long fa_attempts = 0;      /* allocation attempts while armed (malloc + realloc) */
static long fa_fail_at[FA_MAXFAIL];
static int fa_nfail = 0;
static int fa_injected = 0;       /* how many failures were actually injected */
static int fa_fail_all = 0;       /* fail every attempt while set (used by the PDU tie) */
static int fa_notice_fd = -1;     /* injected-site notices are written here immediately */

/* ---- block table (open addressing on the user pointer; entries are never removed) */
typedef struct {
  void *p;
  long id;          /* id of the most recent allocation at this address */
  size_t size;
  int type;
  int live;
  void *caller[4];  /* return address of the allocating call; with FA_BT=1 in the environment
                       three more frames (naming a leak) */
} fa_blk_t;
#define FA_TAB (1u << 16)
static fa_blk_t fa_tab[FA_TAB];
static long fa_next_id = 1;
static long fa_live = 0;
static long fa_guard_bad = 0;     /* guard zone damaged */
static long fa_poison_bad = 0;    /* write after free (base variant) */
static long fa_type_mismatch = 0; /* freed with another type than allocated (informational) */

static fa_blk_t *fa_slot(void *p, int create) {
  uintptr_t h = ((uintptr_t)p >> 4) * 0x9e3779b97f4a7c15ull;
  for (unsigned i = 0; i < FA_TAB; i++) {
    fa_blk_t *b = &fa_tab[(h + i) & (FA_TAB - 1)];
    if (b->p == p) return b;
    if (b->p == NULL) {
      if (!create) return NULL;
      b->p = p;
      return b;
    }
  }
  return NULL;
}

/* ---- event trace (text tokens separated by ',') */
static char *fa_trace = NULL;
static size_t fa_trace_len = 0, fa_trace_cap = 0;
static long fa_events = 0;

static void fa_ev(const char *fmt, long a, long b) {
  if (fa_trace_len + 48 > fa_trace_cap) {
    fa_trace_cap = fa_trace_cap ? fa_trace_cap * 2 : 1 << 16;
    fa_trace = (char *)realloc(fa_trace, fa_trace_cap);
  }
  if (fa_trace_len) fa_trace[fa_trace_len++] = ',';
  fa_trace_len += (size_t)sprintf(fa_trace + fa_trace_len, fmt, a, b);
  fa_events++;
}

/* ---- per-attempt site list (armed attempts only) */
typedef struct {
  int type;
  size_t size;
  void *caller;
  int is_realloc;
} fa_site_t;
static fa_site_t *fa_sites = NULL;
static long fa_nsites = 0, fa_sites_cap = 0;

/* distinct call sites attempted while armed (coverage of the allocation sites of the library) */
#define FA_MAXCS 1024
static void *fa_cs[FA_MAXCS];
static int fa_ncs = 0;
static void fa_note_caller(void *caller) {
  for (int i = 0; i < fa_ncs; i++)
    if (fa_cs[i] == caller) return;
  if (fa_ncs < FA_MAXCS) fa_cs[fa_ncs++] = caller;
}

static void fa_note_site(int type, size_t size, void *caller, int is_realloc) {
  fa_note_caller(caller);
  {
    /* the three frames behind the call site as well: allocation helpers (coap_new_string,
     * coap_pdu_init, coap_new_node, ...) have call sites of their own that count */
    void *bt[FA_BT];
    int n = backtrace(bt, FA_BT);
    for (int i = 0; i < n; i++)
      if (bt[i] == caller) {
        for (int j = i + 1; j < n && j <= i + 3; j++) fa_note_caller(bt[j]);
        break;
      }
  }
  if (fa_nsites == fa_sites_cap) {
    fa_sites_cap = fa_sites_cap ? fa_sites_cap * 2 : 1024;
    fa_sites = (fa_site_t *)realloc(fa_sites, (size_t)fa_sites_cap * sizeof(fa_site_t));
  }
  fa_sites[fa_nsites].type = type;
  fa_sites[fa_nsites].size = size;
  fa_sites[fa_nsites].caller = caller;
  fa_sites[fa_nsites].is_realloc = is_realloc;
  fa_nsites++;
}

/* decide whether this attempt fails; writes the notice (with backtrace) at once, so that the
 * parent knows the site even if the process dies right afterwards */
static int fa_should_fail(int type, size_t size, int is_realloc, void *caller) {
  if (!fa_armed) return 0;
  fa_attempts++;
  int hit = fa_fail_all;
  for (int i = 0; i < fa_nfail; i++)
    if (fa_fail_at[i] == fa_attempts) hit = 1;
  if (!hit) return 0;
  fa_injected++;
  if (fa_notice_fd >= 0 && !fa_fail_all) {
    void *bt[FA_BT];
    char line[512];
    int n = backtrace(bt, FA_BT);
    int o = snprintf(line, sizeof(line), "I %ld %s %d %zu", fa_attempts, is_realloc ? "R" : "M",
                     type, size);
    /* the first address is the return address of the wrapper (= the allocation site in
     * libcoap); the frames behind it in the backtrace follow (how many frames of the shim and
     * of a sanitizer run-time come first depends on the compiler) */
    int start = n;
    for (int i = 0; i < n; i++)
      if (bt[i] == caller) {
        start = i + 1;
        break;
      }
    o += snprintf(line + o, sizeof(line) - (size_t)o, " %p", caller);
    for (int i = start; i < n && o < (int)sizeof(line) - 24; i++)
      o += snprintf(line + o, sizeof(line) - (size_t)o, " %p", bt[i]);
    line[o++] = '\n';
    if (write(fa_notice_fd, line, (size_t)o) < 0) { /* ignore */ }
  }
  return 1;
}

#ifndef FA_PASSTHROUGH
static void fa_check_guards(fa_blk_t *b) {
  uint8_t *u = (uint8_t *)b->p;
  for (int i = 0; i < FA_GZ; i++)
    if (u[-1 - i] != 0xFA || u[b->size + (size_t)i] != 0xFB) {
      fa_guard_bad++;
      return;
    }
}
#endif

static int fa_in_real = 0;        /* inside libcoap's own allocator (coap_mem.c) */

static void *fa_raw_alloc(int type, size_t size) {
#ifdef FA_PASSTHROUGH
  fa_in_real++;
  void *q = __real_coap_malloc_type((coap_memory_tag_t)type, size);
  fa_in_real--;
  return q;
#else
  fa_in_real++;
  uint8_t *raw = (uint8_t *)__real_coap_malloc_type((coap_memory_tag_t)type, size + 2 * FA_GZ);
  fa_in_real--;
  if (!raw) return NULL;
  memset(raw, 0xFA, FA_GZ);
  memset(raw + FA_GZ, 0xA5, size);
  memset(raw + FA_GZ + size, 0xFB, FA_GZ);
  return raw + FA_GZ;
#endif
}

static void *fa_cur_caller = NULL;
static int fa_deep_bt = -1;
static void *fa_register(void *p, int type, size_t size) {
  fa_blk_t *b = fa_slot(p, 1);
  if (!b) abort();
  memset(b->caller, 0, sizeof(b->caller));
  b->caller[0] = fa_cur_caller;
  if (fa_deep_bt < 0) fa_deep_bt = getenv("FA_BT") != NULL;
  if (fa_deep_bt) {
    void *bt[FA_BT];
    int n = backtrace(bt, FA_BT), k = 1;
    for (int i = 0; i < n; i++)
      if (bt[i] == fa_cur_caller) {
        for (int j = i + 1; j < n && k < 4; j++) b->caller[k++] = bt[j];
        break;
      }
  }
  b->id = fa_next_id++;
  b->size = size;
  b->type = type;
  b->live = 1;
  fa_live++;
  return p;
}

void *__wrap_coap_malloc_type(coap_memory_tag_t type, size_t size) {
  fa_cur_caller = __builtin_return_address(0);
  if (fa_armed) fa_note_site((int)type, size, __builtin_return_address(0), 0);
  if (fa_should_fail((int)type, size, 0, __builtin_return_address(0))) {
    fa_ev("x", 0, 0);
    return NULL;
  }
  void *p = fa_raw_alloc((int)type, size);
  if (!p) {           /* the real allocator failed: not expected */
    fa_ev("x", 0, 0);
    return NULL;
  }
  fa_register(p, (int)type, size);
  fa_ev("a%ld", fa_next_id - 1, 0);
  return p;
}

/* release: returns the id (0 = unknown pointer); the block is only given back in the asan
 * variant and only when it was live (a double free would otherwise abort before the verdict) */
static long fa_release(coap_memory_tag_t type, void *p) {
  fa_blk_t *b = fa_slot(p, 0);
  if (!b) return 0;
  if (!b->live) return b->id;     /* double free: reported by the verdict */
  if (b->type != (int)type) fa_type_mismatch++;
  b->live = 0;
  fa_live--;
#ifdef FA_PASSTHROUGH
  __real_coap_free_type(type, p);
#else
  fa_check_guards(b);
  memset(p, 0xDD, b->size);
#endif
  return b->id;
}

void __wrap_coap_free_type(coap_memory_tag_t type, void *p) {
  if (!p) {
    fa_ev("n", 0, 0);
    return;
  }
  fa_ev("f%ld", fa_release(type, p), 0);
}

void *__wrap_coap_realloc_type(coap_memory_tag_t type, void *p, size_t size) {
  fa_cur_caller = __builtin_return_address(0);
  if (fa_armed) fa_note_site((int)type, size, __builtin_return_address(0), 1);
  fa_blk_t *ob = p ? fa_slot(p, 0) : NULL;
  long oid = p ? (ob ? ob->id : -1) : 0;
  if (fa_should_fail((int)type, size, 1, __builtin_return_address(0))) {
    fa_ev("y%ld", oid, 0);
    return NULL;
  }
  if (p && (!ob || !ob->live)) {
    /* realloc of a dead / unknown block: record it, do not touch memory */
    fa_ev("r%ld:%ld", oid, 0);
    return NULL;
  }
#ifdef FA_PASSTHROUGH
  /* let ASan see a real realloc; ids still change */
  fa_in_real++;
  void *np = __real_coap_realloc_type(type, p, size);
  fa_in_real--;
  if (!np) {
    fa_ev("y%ld", oid, 0);
    return NULL;
  }
  if (ob) {
    ob->live = 0;
    fa_live--;
  }
  fa_register(np, (int)type, size);
#else
  void *np = fa_raw_alloc((int)type, size);
  if (!np) {
    fa_ev("y%ld", oid, 0);
    return NULL;
  }
  if (ob) {
    memcpy(np, p, ob->size < size ? ob->size : size);
    fa_check_guards(ob);
    memset(p, 0xDD, ob->size);
    ob->live = 0;
    fa_live--;
  }
  fa_register(np, (int)type, size);
#endif
  fa_ev("r%ld:%ld", oid, fa_next_id - 1);
  return np;
}

#ifdef FA_WRAP_MALLOC
/* ---- direct malloc() calls of libcoap objects: uthash (hash head, bucket array, bucket
 * expansion in coap_session.c, coap_resource.c, coap_cache.c, oscore_context.c).  The driver is
 * linked with --wrap=malloc and calls __real_malloc itself, so what arrives here while
 * fa_in_real == 0 is a malloc made by libcoap outside coap_mem.c.  Only a counter and a
 * "fail the j-th" switch: these blocks are not part of the trace (they are released with the
 * libc free()). */
void *__real_malloc(size_t n);
static long fa_u_attempts = 0, fa_u_fail_at = 0;
static int fa_u_injected = 0;

void *__wrap_malloc(size_t n) {
  if (fa_in_real || !fa_armed) return __real_malloc(n);
  fa_u_attempts++;
  if (fa_u_fail_at && fa_u_attempts == fa_u_fail_at) {
    fa_u_injected++;
    if (fa_notice_fd >= 0) {
      void *bt[FA_BT];
      char line[512];
      void *caller = __builtin_return_address(0);
      int nb = backtrace(bt, FA_BT), start = nb;
      int o = snprintf(line, sizeof(line), "I %ld U 0 %zu %p", fa_u_attempts, n, caller);
      for (int i = 0; i < nb; i++)
        if (bt[i] == caller) {
          start = i + 1;
          break;
        }
      for (int i = start; i < nb && o < (int)sizeof(line) - 24; i++)
        o += snprintf(line + o, sizeof(line) - (size_t)o, " %p", bt[i]);
      line[o++] = '\n';
      if (write(fa_notice_fd, line, (size_t)o) < 0) { /* ignore */ }
    }
    return NULL;
  }
  return __real_malloc(n);
}
#endif

/* end-of-run sweep: guards of live blocks, poison of freed ones (base variant) */
static void fa_final_sweep(void) {
#ifndef FA_PASSTHROUGH
  for (unsigned i = 0; i < FA_TAB; i++) {
    fa_blk_t *b = &fa_tab[i];
    if (!b->p) continue;
    if (b->live) {
      fa_check_guards(b);
    } else {
      const uint8_t *u = (const uint8_t *)b->p;
      for (size_t k = 0; k < b->size; k++)
        if (u[k] != 0xDD) {
          fa_poison_bad++;
          break;
        }
    }
  }
#endif
}

/* forget everything (in-process drivers call this between cases): the quarantined blocks of
 * the base variant are handed back to the real allocator, the table and the trace are cleared */
static void fa_reset(void) {
  for (unsigned i = 0; i < FA_TAB; i++) {
    fa_blk_t *b = &fa_tab[i];
    if (!b->p) continue;
#ifndef FA_PASSTHROUGH
    __real_coap_free_type((coap_memory_tag_t)b->type, (uint8_t *)b->p - FA_GZ);
#else
    if (b->live) __real_coap_free_type((coap_memory_tag_t)b->type, b->p);
#endif
  }
  memset(fa_tab, 0, sizeof(fa_tab));
  fa_next_id = 1;
  fa_live = 0;
  fa_guard_bad = fa_poison_bad = fa_type_mismatch = 0;
  fa_trace_len = 0;
  fa_events = 0;
  fa_nsites = 0;
  fa_ncs = 0;
  fa_attempts = 0;
  fa_injected = 0;
}

/* id of a live block (0 if not live / unknown) - used for the ownership check of PDUs */
static long fa_id_of(const void *p) {
  fa_blk_t *b = fa_slot((void *)p, 0);
  return b ? b->id : 0;
}
static int fa_is_live(const void *p) {
  fa_blk_t *b = fa_slot((void *)p, 0);
  return b && b->live;
}
#endif

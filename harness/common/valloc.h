/* Typed allocation trace + allocation-failure injection for the C drivers (C12, C18).
 *
 * No source change to libcoap: every allocation of the library goes through
 * coap_malloc_type / coap_realloc_type / coap_free_type (src/coap_mem.c; all callers are in
 * other translation units, so the linker can redirect them).  Link the driver with
 *     wraps = ["coap_malloc_type", "coap_realloc_type", "coap_free_type"]
 * and include this header in exactly one .c file, after "coap3/coap_libcoap_build.h".
 * (uthash tables and GnuTLS use plain malloc and are not seen here; the asan variant's
 * LeakSanitizer covers those.)
 *
 * Event log (judged by the extracted coq/Mem/AllocTrace.v: at_verdict / at_balanced):
 *     a:<id>:<type>:<size>      successful allocation; ids are serial numbers 1,2,3,...
 *     r:<old>:<new>:<size>      successful realloc of a live block (a realloc of NULL is an 'a';
 *                               a realloc of a pointer that is not live is logged as the bad
 *                               free it implies, followed by an 'a')
 *     f:<id>                    coap_free_type of a live block; a free of a pointer that is not
 *                               live is logged with the id the pointer had last (double free) or
 *                               0 (never allocated) and is NOT passed on to free()
 * Failed allocations and free(NULL) are not events (counted in va_failed / va_free_null).
 *
 * Switches
 *   va_arm_fail(k)    the k-th allocation call from now (malloc or realloc, k >= 1) returns NULL
 *   va_quarantine     (default 1, 0 under AddressSanitizer) freed blocks are filled with 0xDD and
 *                     kept until va_flush(): pointers are never reused inside one history, reads
 *                     through dangling pointers see poison, and va_flush() counts blocks whose
 *                     poison was overwritten (va_uaf_writes) - a cheap use-after-free detector
 *   va_on_alloc/va_on_free  optional hooks (va_on_free runs before the block is released)
 *   va_reset()        start a new history: flush the quarantine, forget the log; blocks still
 *                     live become "foreign" (their later free is passed through, not logged)
 */
#ifndef VERIF_VALLOC_H
#define VERIF_VALLOC_H
#include <stdint.h>
#include <stdio.h>
#include <stdlib.h>
#include <string.h>

#define VALLOC_WRAPS_DOC "coap_malloc_type coap_realloc_type coap_free_type"

void *__real_coap_malloc_type(coap_memory_tag_t type, size_t size);
void *__real_coap_realloc_type(coap_memory_tag_t type, void *p, size_t size);
void __real_coap_free_type(coap_memory_tag_t type, void *p);

#if defined(__SANITIZE_ADDRESS__)
#define VA_ASAN 1
#elif defined(__has_feature)
#if __has_feature(address_sanitizer)
#define VA_ASAN 1
#endif
#endif
#ifndef VA_ASAN
#define VA_ASAN 0
#endif

/* ------------------------------------------------------------------ event log */
typedef struct {
  char kind;          /* 'a' 'r' 'f' */
  uint32_t id, id2;   /* a: id; r: id = old, id2 = new; f: id */
  int type;
  size_t size;
} va_ev_t;

static va_ev_t *va_log = NULL;
static size_t va_nlog = 0, va_log_cap = 0;
static uint32_t va_next_id = 1;
static int va_enabled = 1;                 /* 0: pass-through, nothing tracked or logged */
static int va_quarantine = VA_ASAN ? 0 : 1;
static int va_junk_fill = 0;               /* 1: fresh blocks are filled with 0xA5 */
static long va_fail_countdown = 0;         /* >0: counts allocation calls down; at 1 -> fail */
static unsigned long va_alloc_calls = 0;   /* allocation calls (malloc + realloc) seen */
static unsigned long va_failed = 0, va_free_null = 0, va_bad_frees = 0, va_uaf_writes = 0;
static void (*va_on_alloc)(int type, void *p, uint32_t id, size_t size) = NULL;
static void (*va_on_free)(int type, void *p, uint32_t id) = NULL;

static void va_push(char kind, uint32_t id, uint32_t id2, int type, size_t size) {
  if (va_nlog == va_log_cap) {
    va_log_cap = va_log_cap ? va_log_cap * 2 : 4096;
    va_log = (va_ev_t *)realloc(va_log, va_log_cap * sizeof(va_ev_t));
  }
  va_ev_t *e = &va_log[va_nlog++];
  e->kind = kind;
  e->id = id;
  e->id2 = id2;
  e->type = type;
  e->size = size;
}

/* ------------------------------------------------------------------ pointer table */
enum { VA_EMPTY = 0, VA_LIVE = 1, VA_FREED = 2, VA_FOREIGN = 3, VA_TOMB = 4 };
typedef struct {
  uintptr_t hp;   /* the pointer, xor-ed with VA_HIDE so that LeakSanitizer does not take this
                     table for a live reference to a leaked block */
  uint32_t id;
  int state;
  int type;
  size_t size;
} va_ent_t;
#define VA_HIDE ((uintptr_t)0x5a5a5a5a5a5a5a5aull)
#define VA_HP(p) (((uintptr_t)(p)) ^ VA_HIDE)
#define VA_PTR(e) ((void *)((e)->hp ^ VA_HIDE))

static va_ent_t *va_tab = NULL;
static size_t va_tab_cap = 0, va_tab_used = 0;   /* used = non-empty slots (incl. tombstones) */

static size_t va_hash(const void *p) {
  uint64_t x = (uint64_t)(uintptr_t)p;
  x ^= x >> 33;
  x *= 0xff51afd7ed558ccdull;
  x ^= x >> 33;
  return (size_t)x;
}

static va_ent_t *va_find(const void *p) {
  if (!va_tab_cap) return NULL;
  size_t m = va_tab_cap - 1, i = va_hash(p) & m;
  for (size_t n = 0; n < va_tab_cap; n++, i = (i + 1) & m) {
    if (va_tab[i].state == VA_EMPTY) return NULL;
    if (va_tab[i].state != VA_TOMB && va_tab[i].hp == VA_HP(p)) return &va_tab[i];
  }
  return NULL;
}

static void va_grow(void);

static va_ent_t *va_slot(void *p) {
  va_ent_t *e = va_find(p);
  if (e) return e;
  if ((va_tab_used + 1) * 10 >= va_tab_cap * 7) va_grow();
  size_t m = va_tab_cap - 1, i = va_hash(p) & m;
  while (va_tab[i].state != VA_EMPTY && va_tab[i].state != VA_TOMB) i = (i + 1) & m;
  if (va_tab[i].state == VA_EMPTY) va_tab_used++;
  va_tab[i].hp = VA_HP(p);
  va_tab[i].state = VA_TOMB;   /* caller sets the real state */
  return &va_tab[i];
}

static void va_grow(void) {
  va_ent_t *old = va_tab;
  size_t oc = va_tab_cap;
  va_tab_cap = oc ? oc * 2 : 4096;
  va_tab = (va_ent_t *)calloc(va_tab_cap, sizeof(va_ent_t));
  va_tab_used = 0;
  for (size_t i = 0; i < oc; i++) {
    if (old[i].state == VA_EMPTY || old[i].state == VA_TOMB) continue;
    size_t m = va_tab_cap - 1, j = va_hash(VA_PTR(&old[i])) & m;
    while (va_tab[j].state != VA_EMPTY) j = (j + 1) & m;
    va_tab[j] = old[i];
    va_tab_used++;
  }
  free(old);
}

/* ------------------------------------------------------------------ quarantine */
typedef struct {
  void *p;
  size_t size;
  int type;
} va_q_t;
static va_q_t *va_q = NULL;
static size_t va_nq = 0, va_q_cap = 0;
#define VA_POISON 0xDD

static void va_release(int type, void *p, size_t size) {
  if (va_quarantine) {
    memset(p, VA_POISON, size);
    if (va_nq == va_q_cap) {
      va_q_cap = va_q_cap ? va_q_cap * 2 : 1024;
      va_q = (va_q_t *)realloc(va_q, va_q_cap * sizeof(va_q_t));
    }
    va_q[va_nq].p = p;
    va_q[va_nq].size = size;
    va_q[va_nq].type = type;
    va_nq++;
  } else {
    __real_coap_free_type((coap_memory_tag_t)type, p);
  }
}

/* really free what is in quarantine; returns the number of blocks written to after release */
static unsigned long va_flush(void) {
  unsigned long bad = 0;
  for (size_t i = 0; i < va_nq; i++) {
    const uint8_t *b = (const uint8_t *)va_q[i].p;
    for (size_t k = 0; k < va_q[i].size; k++)
      if (b[k] != VA_POISON) {
        bad++;
        break;
      }
    va_ent_t *e = va_find(va_q[i].p);
    if (e && e->state == VA_FREED) e->state = VA_TOMB;
    __real_coap_free_type((coap_memory_tag_t)va_q[i].type, va_q[i].p);
  }
  va_nq = 0;
  va_uaf_writes += bad;
  return bad;
}

/* ------------------------------------------------------------------ the interposed functions */
static int va_should_fail(void) {
  va_alloc_calls++;
  if (va_fail_countdown > 0 && --va_fail_countdown == 0) {
    va_failed++;
    return 1;
  }
  return 0;
}

static void va_arm_fail(long k) {
  va_fail_countdown = k;
}

static void va_note_alloc(int type, void *p, size_t size, uint32_t id) {
  va_ent_t *e = va_slot(p);
  e->state = VA_LIVE;
  e->id = id;
  e->type = type;
  e->size = size;
  if (va_junk_fill) memset(p, 0xA5, size);
}

void *__wrap_coap_malloc_type(coap_memory_tag_t type, size_t size) {
  if (!va_enabled) return __real_coap_malloc_type(type, size);
  if (va_should_fail()) return NULL;
  void *p = __real_coap_malloc_type(type, size ? size : 1);
  if (!p) {
    va_failed++;
    return NULL;
  }
  uint32_t id = va_next_id++;
  va_note_alloc((int)type, p, size, id);
  va_push('a', id, 0, (int)type, size);
  if (va_on_alloc) va_on_alloc((int)type, p, id, size);
  return p;
}

/* handles a release request for p; returns 1 if p was live (and is now released) */
static int va_do_free(int type, void *p) {
  va_ent_t *e = va_find(p);
  if (e && e->state == VA_FOREIGN) {
    e->state = VA_TOMB;
    __real_coap_free_type((coap_memory_tag_t)type, p);
    return 1;
  }
  if (!e || e->state != VA_LIVE) {
    /* double free (the pointer had an id) or a pointer we never handed out: log, do not free */
    va_bad_frees++;
    va_push('f', (e && e->state == VA_FREED) ? e->id : 0, 0, type, 0);
    return 0;
  }
  if (va_on_free) va_on_free(type, p, e->id);
  va_push('f', e->id, 0, type, e->size);
  e->state = VA_FREED;
  va_release(type, p, e->size);
  return 1;
}

void __wrap_coap_free_type(coap_memory_tag_t type, void *p) {
  if (!va_enabled) {
    __real_coap_free_type(type, p);
    return;
  }
  if (!p) {
    va_free_null++;
    return;
  }
  va_do_free((int)type, p);
}

void *__wrap_coap_realloc_type(coap_memory_tag_t type, void *p, size_t size) {
  if (!va_enabled) return __real_coap_realloc_type(type, p, size);
  if (!p) return __wrap_coap_malloc_type(type, size);
  if (va_should_fail()) return NULL;      /* the old block stays valid, as with realloc() */
  va_ent_t *e = va_find(p);
  if (e && e->state == VA_FOREIGN) {
    void *q = __real_coap_realloc_type(type, p, size ? size : 1);
    if (q && q != p) {
      e->state = VA_TOMB;
      e = va_slot(q);
      e->state = VA_FOREIGN;
    }
    return q;
  }
  if (!e || e->state != VA_LIVE) {
    /* realloc of something that is not live: log the bad release, then behave like malloc */
    va_bad_frees++;
    va_push('f', (e && e->state == VA_FREED) ? e->id : 0, 0, (int)type, 0);
    va_fail_countdown += (va_fail_countdown > 0);   /* the nested call must not count twice */
    va_alloc_calls--;
    return __wrap_coap_malloc_type(type, size);
  }
  size_t osz = e->size;
  uint32_t oid = e->id;
  void *q = __real_coap_malloc_type(type, size ? size : 1);
  if (!q) {
    va_failed++;
    return NULL;
  }
  memcpy(q, p, osz < size ? osz : size);
  uint32_t id = va_next_id++;
  if (va_on_free) va_on_free((int)type, p, oid);
  e->state = VA_FREED;
  va_release((int)type, p, osz);
  va_note_alloc((int)type, q, size, id);
  va_push('r', oid, id, (int)type, size);
  if (va_on_alloc) va_on_alloc((int)type, q, id, size);
  return q;
}

/* ------------------------------------------------------------------ driver interface */
/* number of blocks live right now (allocated in this history, not yet released) */
static size_t va_live_count(void) {
  size_t n = 0;
  for (size_t i = 0; i < va_tab_cap; i++)
    if (va_tab[i].state == VA_LIVE) n++;
  return n;
}

/* id of a live block, 0 if p is not live */
static uint32_t va_id_of(const void *p) {
  va_ent_t *e = va_find(p);
  return (e && e->state == VA_LIVE) ? e->id : 0;
}

/* 1 if p is a block handed out in this history and still live */
static int va_is_live(const void *p) {
  return va_id_of(p) != 0;
}

/* start a new history */
static void va_reset(void) {
  va_flush();
  for (size_t i = 0; i < va_tab_cap; i++) {
    if (va_tab[i].state == VA_LIVE) va_tab[i].state = VA_FOREIGN;
    else if (va_tab[i].state == VA_FREED) va_tab[i].state = VA_TOMB;
  }
  va_nlog = 0;
  va_next_id = 1;
  va_fail_countdown = 0;
  va_alloc_calls = 0;
  va_failed = va_free_null = va_bad_frees = va_uaf_writes = 0;
}

/* print the trace as blank-separated tokens (no newline); "-" if empty */
static void va_dump(FILE *o) {
  if (!va_nlog) {
    fputs("-", o);
    return;
  }
  for (size_t i = 0; i < va_nlog; i++) {
    const va_ev_t *e = &va_log[i];
    if (i) fputc(' ', o);
    if (e->kind == 'a') fprintf(o, "a:%u:%d:%zu", e->id, e->type, e->size);
    else if (e->kind == 'r') fprintf(o, "r:%u:%u:%zu", e->id, e->id2, e->size);
    else fprintf(o, "f:%u", e->id);
  }
}

/* "<type>x<count>,..." of the blocks still live (for messages); "-" if none */
static void va_dump_live_types(FILE *o) {
  int cnt[64];
  memset(cnt, 0, sizeof(cnt));
  int any = 0;
  for (size_t i = 0; i < va_tab_cap; i++)
    if (va_tab[i].state == VA_LIVE && va_tab[i].type >= 0 && va_tab[i].type < 64) {
      cnt[va_tab[i].type]++;
      any = 1;
    }
  if (!any) {
    fputs("-", o);
    return;
  }
  int first = 1;
  for (int t = 0; t < 64; t++)
    if (cnt[t]) {
      fprintf(o, "%s%dx%d", first ? "" : ",", t, cnt[t]);
      first = 0;
    }
}
#endif

/* stdio interposition for the persistence check (C17).  Link the driver with
 *   wraps = fopen fread fwrite fprintf fgets fflush fclose rename remove
 * Only calls that touch one of the six persistence files of the current scratch directory
 * (dyn, obs, cnt and their ".tmp") are counted and logged; everything else passes through.
 *
 *   - every such call is one "operation": it is appended to a textual log in the format that
 *     ocaml/d_persist.ml prints for the model's ps_trace;
 *   - ps_die_at = k: the process dies (_exit, nothing flushed, no handler runs) immediately
 *     before its k-th operation (0-based), i.e. after exactly k operations;
 *   - ps_bufmode 'L': write streams are fully buffered with a 2 MiB buffer, larger than any file the
 *     check produces (nothing reaches the kernel before fflush/fclose: the model's ps_pol_lazy);
 *     'E': write streams are unbuffered (every fwrite/fprintf is written through at once: the
 *     model's ps_pol_eager); 'D': the C library's default (the check then compares only the
 *     three persistent files, not the temporaries).
 */
#ifndef VERIF_PS_STDIO_H
#define VERIF_PS_STDIO_H
#include <stdio.h>
#include <stdlib.h>
#include <string.h>
#include <stdarg.h>
#include <unistd.h>

FILE *__real_fopen(const char *path, const char *mode);
size_t __real_fread(void *p, size_t sz, size_t n, FILE *f);
size_t __real_fwrite(const void *p, size_t sz, size_t n, FILE *f);
char *__real_fgets(char *s, int n, FILE *f);
int __real_fflush(FILE *f);
int __real_fclose(FILE *f);
int __real_rename(const char *a, const char *b);
int __real_remove(const char *a);

static char ps_dir[600] = "";
static long ps_opcount = 0;
static long ps_die_at = -1;
static int ps_bufmode = 'L';
static int ps_log_on = 0;
static int ps_log_fd = -1;          /* where the log goes when the process dies / ends */
static char *ps_log = NULL;
static size_t ps_log_len = 0, ps_log_cap = 0;
static void (*ps_before_death)(void) = NULL;

#define PS_MAXH 4096
static FILE *ps_hs[PS_MAXH];
static char *ps_bufs[PS_MAXH];
static int ps_nh = 0;
static const char *ps_fnames[6] = {"dyn", "obs", "cnt", "dyn.tmp", "obs.tmp", "cnt.tmp"};
static const char ps_fcodes[6] = {'d', 'o', 'c', 'D', 'O', 'C'};

static void ps_logf(const char *fmt, ...) {
  if (!ps_log_on) return;
  va_list ap;
  if (!ps_log) { ps_log_cap = 1 << 16; ps_log = (char *)malloc(ps_log_cap); ps_log[0] = 0; }
  for (;;) {
    va_start(ap, fmt);
    int n = vsnprintf(ps_log + ps_log_len, ps_log_cap - ps_log_len, fmt, ap);
    va_end(ap);
    if (n >= 0 && (size_t)n < ps_log_cap - ps_log_len) {
      ps_log_len += (size_t)n;
      return;
    }
    ps_log_cap = ps_log_cap ? ps_log_cap * 2 : 1 << 16;
    ps_log = (char *)realloc(ps_log, ps_log_cap);
  }
}

static void ps_loghex(const void *p, size_t n) {
  static const char hx[] = "0123456789abcdef";
  if (!ps_log_on) return;
  if (n == 0) { ps_logf("-"); return; }
  if (!ps_log) { ps_log_cap = 1 << 16; ps_log = (char *)malloc(ps_log_cap); ps_log[0] = 0; }
  while (ps_log_cap - ps_log_len < 2 * n + 2) {
    ps_log_cap = ps_log_cap ? ps_log_cap * 2 : 1 << 16;
    ps_log = (char *)realloc(ps_log, ps_log_cap);
  }
  const unsigned char *b = (const unsigned char *)p;
  for (size_t i = 0; i < n; i++) {
    ps_log[ps_log_len++] = hx[b[i] >> 4];
    ps_log[ps_log_len++] = hx[b[i] & 15];
  }
  ps_log[ps_log_len] = 0;
}

static void ps_emit_log(void) {
  if (ps_log_fd >= 0 && ps_log_len) {
    size_t off = 0;
    while (off < ps_log_len) {
      ssize_t w = write(ps_log_fd, ps_log + off, ps_log_len - off);
      if (w <= 0) break;
      off += (size_t)w;
    }
  }
}

/* 0..5 for the six files of ps_dir, -1 otherwise */
static int ps_path_code(const char *path) {
  size_t dl = strlen(ps_dir);
  if (!dl || !path || strncmp(path, ps_dir, dl) != 0 || path[dl] != '/') return -1;
  for (int i = 0; i < 6; i++)
    if (strcmp(path + dl + 1, ps_fnames[i]) == 0) return i;
  return -1;
}

static int ps_handle_of(FILE *f) {
  for (int i = ps_nh - 1; i >= 0; i--)
    if (ps_hs[i] == f) return i;
  return -1;
}

static void ps_tick(void) {
  if (ps_die_at >= 0 && ps_opcount == ps_die_at) {
    if (ps_before_death) ps_before_death();
    ps_emit_log();
    _exit(77);
  }
  ps_opcount++;
  if (ps_log_on && ps_log_len) ps_logf(" ");
}

static void ps_reset(const char *dir, int bufmode, long die_at, int log_on, int log_fd) {
  snprintf(ps_dir, sizeof(ps_dir), "%s", dir);
  ps_opcount = 0;
  ps_die_at = die_at;
  ps_bufmode = bufmode;
  ps_log_on = log_on;
  ps_log_fd = log_fd;
  ps_log_len = 0;
  ps_nh = 0;
}

FILE *__wrap_fopen(const char *path, const char *mode) {
  int c = ps_path_code(path);
  if (c < 0) return __real_fopen(path, mode);
  ps_tick();
  FILE *f = __real_fopen(path, mode);
  int id = -1;
  if (f && ps_nh < PS_MAXH) {
    id = ps_nh;
    ps_bufs[ps_nh] = NULL;
    ps_hs[ps_nh++] = f;
    if (mode[0] != 'r') {
      if (ps_bufmode == 'L') {
        /* glibc ignores the size when no buffer is given: hand it a real one */
        ps_bufs[id] = (char *)malloc(1 << 21);
        setvbuf(f, ps_bufs[id], _IOFBF, 1 << 21);
      } else if (ps_bufmode == 'E') setvbuf(f, NULL, _IONBF, 0);
    }
  }
  if (f) ps_logf("o%c%s=%d", ps_fcodes[c], mode, id);
  else ps_logf("o%c%s=N", ps_fcodes[c], mode);
  return f;
}

size_t __wrap_fread(void *p, size_t sz, size_t n, FILE *f) {
  int h = ps_handle_of(f);
  if (h < 0) return __real_fread(p, sz, n, f);
  ps_tick();
  size_t r = __real_fread(p, sz, n, f);
  ps_logf("r%d,%zu", h, sz);
  if (n != 1) ps_logf("x%zu", n);
  ps_logf("=%zu", r);
  if (r == 1 && n == 1) { ps_logf(":"); ps_loghex(p, sz); }
  return r;
}

char *__wrap_fgets(char *s, int n, FILE *f) {
  int h = ps_handle_of(f);
  if (h < 0) return __real_fgets(s, n, f);
  ps_tick();
  long before = ftell(f);
  char *r = __real_fgets(s, n, f);
  ps_logf("g%d,%d=", h, n);
  if (!r) ps_logf("N");
  else {
    long after = ftell(f);
    /* the bytes consumed (a line may contain NUL bytes, so strlen is not enough) */
    size_t got = (before >= 0 && after >= before) ? (size_t)(after - before) : strlen(s);
    ps_loghex(s, got);
  }
  return r;
}

size_t __wrap_fwrite(const void *p, size_t sz, size_t n, FILE *f) {
  int h = ps_handle_of(f);
  if (h < 0) return __real_fwrite(p, sz, n, f);
  ps_tick();
  size_t r = __real_fwrite(p, sz, n, f);
  ps_logf("w%d", h);
  if (n != 1) ps_logf("x%zu", n);
  ps_logf(":");
  ps_loghex(p, sz * n);
  ps_logf("=%zu", r);
  return r;
}

int __wrap_fprintf(FILE *f, const char *fmt, ...) {
  va_list ap, ap2;
  int h = ps_handle_of(f);
  va_start(ap, fmt);
  if (h < 0) {
    int r = vfprintf(f, fmt, ap);
    va_end(ap);
    return r;
  }
  ps_tick();
  va_copy(ap2, ap);
  int need = vsnprintf(NULL, 0, fmt, ap2);
  va_end(ap2);
  char *tmp = (char *)malloc((size_t)(need > 0 ? need : 0) + 1);
  va_copy(ap2, ap);
  vsnprintf(tmp, (size_t)(need > 0 ? need : 0) + 1, fmt, ap2);
  va_end(ap2);
  int r = vfprintf(f, fmt, ap);
  va_end(ap);
  ps_logf("p%d:", h);
  ps_loghex(tmp, need > 0 ? (size_t)need : 0);
  ps_logf("=%d", r);
  free(tmp);
  return r;
}

int __wrap_fflush(FILE *f) {
  int h = f ? ps_handle_of(f) : -1;
  if (h < 0) return __real_fflush(f);
  ps_tick();
  int r = __real_fflush(f);
  ps_logf("f%d=%d", h, r);
  return r;
}

int __wrap_fclose(FILE *f) {
  int h = ps_handle_of(f);
  if (h < 0) return __real_fclose(f);
  ps_tick();
  int r = __real_fclose(f);
  ps_hs[h] = NULL;
  free(ps_bufs[h]);
  ps_bufs[h] = NULL;
  ps_logf("c%d=%d", h, r);
  return r;
}

int __wrap_rename(const char *a, const char *b) {
  int ca = ps_path_code(a), cb = ps_path_code(b);
  if (ca < 0 && cb < 0) return __real_rename(a, b);
  ps_tick();
  int r = __real_rename(a, b);
  ps_logf("m%c%c=%d", ca >= 0 ? ps_fcodes[ca] : '?', cb >= 0 ? ps_fcodes[cb] : '?', r);
  return r;
}

int __wrap_remove(const char *a) {
  int c = ps_path_code(a);
  if (c < 0) return __real_remove(a);
  ps_tick();
  int r = __real_remove(a);
  ps_logf("u%c=%d", ps_fcodes[c], r);
  return r;
}
#endif

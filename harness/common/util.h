/* Shared helpers for the C drivers: case-line tokeniser, byte tokens, canonical dumps.
 * The printed formats are the same as in ocaml/util.ml. */
#ifndef VERIF_UTIL_H
#define VERIF_UTIL_H
#include <stdio.h>
#include <stdlib.h>
#include <string.h>
#include <stdint.h>

#define MAXTOK 4096
static char *vline = NULL;
static size_t vline_cap = 0;
static char *vtok[MAXTOK];
static int vntok;

/* read one line, split on blanks; returns 0 at EOF */
static int next_case(FILE *f) {
  ssize_t n = getline(&vline, &vline_cap, f);
  if (n < 0) return 0;
  vntok = 0;
  char *p = vline;
  while (*p) {
    while (*p == ' ' || *p == '\n' || *p == '\r' || *p == '\t') p++;
    if (!*p) break;
    if (vntok < MAXTOK) vtok[vntok++] = p;
    while (*p && *p != ' ' && *p != '\n' && *p != '\r' && *p != '\t') p++;
    if (*p) *p++ = 0;
  }
  return 1;
}

static int hexval(char c) {
  if (c >= '0' && c <= '9') return c - '0';
  if (c >= 'a' && c <= 'f') return c - 'a' + 10;
  if (c >= 'A' && c <= 'F') return c - 'A' + 10;
  return 0;
}

static unsigned fill_byte(long seed, long i) {
  return (unsigned)((seed * 31 + i * 7 + (i >> 8) * 13 + 5) & 0xff);
}

/* bytes token: "-" | hex | "@len,seed"; returns an exact-size malloc'ed copy (never NULL) */
static uint8_t *bytes_of_tok(const char *s, size_t *len) {
  uint8_t *b;
  if (strcmp(s, "-") == 0) {
    *len = 0;
    return (uint8_t *)malloc(1);
  }
  if (s[0] == '@') {
    long l = 0, sd = 0;
    sscanf(s + 1, "%ld,%ld", &l, &sd);
    b = (uint8_t *)malloc(l ? l : 1);
    for (long i = 0; i < l; i++) b[i] = (uint8_t)fill_byte(sd, i);
    *len = (size_t)l;
    return b;
  }
  size_t n = strlen(s) / 2;
  b = (uint8_t *)malloc(n ? n : 1);
  for (size_t i = 0; i < n; i++) b[i] = (uint8_t)(hexval(s[2 * i]) * 16 + hexval(s[2 * i + 1]));
  *len = n;
  return b;
}

/* "-" | hex (<= 48 bytes) | "#len:fnv1a32" */
static void show_bytes(FILE *o, const uint8_t *b, size_t n) {
  if (n == 0) { fputs("-", o); return; }
  if (n <= 48) {
    for (size_t i = 0; i < n; i++) fprintf(o, "%02x", b[i]);
  } else {
    uint32_t h = 0x811c9dc5u;
    for (size_t i = 0; i < n; i++) h = (h ^ b[i]) * 0x01000193u;
    fprintf(o, "#%zu:%08x", n, h);
  }
}
#endif

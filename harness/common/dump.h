/* Canonical accessor dump of a PDU through public accessors only. */
#ifndef VERIF_DUMP_H
#define VERIF_DUMP_H
#include <coap3/coap.h>
#include "common/util.h"

static void dump_pdu(FILE *o, const coap_pdu_t *pdu) {
  coap_opt_iterator_t oi;
  coap_opt_t *opt;
  coap_bin_const_t tok = coap_pdu_get_token(pdu);
  size_t len = 0;
  const uint8_t *data = NULL;
  int first = 1;
  fprintf(o, "t=%d c=%d m=%d k=", (int)coap_pdu_get_type(pdu), (int)coap_pdu_get_code(pdu),
          (int)coap_pdu_get_mid(pdu));
  show_bytes(o, tok.s, tok.length);
  fputs(" o=", o);
  coap_option_iterator_init(pdu, &oi, COAP_OPT_ALL);
  while ((opt = coap_option_next(&oi))) {
    if (!first) fputc(',', o);
    first = 0;
    fprintf(o, "%u:", (unsigned)oi.number);
    show_bytes(o, coap_opt_value(opt), coap_opt_length(opt));
  }
  if (first) fputc('-', o);
  fputs(" p=", o);
  if (coap_get_data(pdu, &len, &data) && len) show_bytes(o, data, len);
  else fputc('-', o);
}
#endif

/* Shared scripted datagram network + virtual clock + deterministic PRNG for the C drivers.
 *
 * No source change to libcoap: the driver is linked with
 *     wraps = ["coap_ticks", "coap_socket_send", "coap_socket_recv"]
 * (vlib.build_driver(..., wraps=VNET_WRAPS)).  Include this header in exactly one .c file,
 * after "coap3/coap_libcoap_build.h".
 *
 * Model of the world
 *   - time is vn_now (ticks = milliseconds, COAP_TICKS_PER_SECOND = 1000); nothing else moves it;
 *   - every datagram the library hands to coap_socket_send() is appended to the log vn_out[]
 *     with its virtual time, source (session local address), destination (session remote
 *     address) and bytes, and is NOT delivered anywhere: the driver's schedule decides
 *     (vn_route(i) delivers log entry i to the endpoint / client session registered for its
 *     destination address; vn_inject_ep / vn_inject_session deliver arbitrary bytes);
 *   - delivery goes through the library's real receive path: the socket is marked readable and
 *     the public coap_io_do_epoll() is called with a fabricated epoll_event, so
 *     coap_read_endpoint -> coap_endpoint_get_session -> coap_handle_dgram -> coap_dispatch (or
 *     coap_read_session for a client) run unmodified; coap_io_do_epoll() ends with
 *     coap_io_prepare_epoll(), so timers that are due at vn_now fire too (as in the real loop);
 *   - timers: vn_prepare(ctx) = coap_io_prepare_epoll(ctx, vn_now) fires what is due and returns
 *     the wait in ms the library asks for (0 = nothing pending); the driver advances vn_now.
 *   - sockets are real loopback UDP sockets (bind to port 0 / connect), but no byte ever
 *     travels through them.
 *   - randomness: vn_prng_seed(s) installs a counter-mode generator via coap_set_prng(), so
 *     message ids, tokens and the retransmission jitter byte are functions of the case.
 */
#ifndef VERIF_VNET_H
#define VERIF_VNET_H
#include <sys/epoll.h>
#include <errno.h>
#include <stdint.h>
#include <stdlib.h>
#include <string.h>
#include <stdio.h>

#define VNET_WRAPS_DOC "coap_ticks coap_socket_send coap_socket_recv"

/* ------------------------------------------------------------------ virtual clock */
static coap_tick_t vn_now = 1000;   /* start at 1 s so that "now - x" never underflows */

void __wrap_coap_ticks(coap_tick_t *t) {
  if (t) *t = vn_now;
}

/* ------------------------------------------------------------------ deterministic PRNG */
static uint64_t vn_prng_state = 0x9e3779b97f4a7c15ull;
static unsigned long vn_prng_calls = 0;
/* optional script: if vn_prng_script_len > 0 the bytes are taken from the script first */
static const uint8_t *vn_prng_script = NULL;
static size_t vn_prng_script_len = 0, vn_prng_script_pos = 0;

static uint64_t vn_splitmix(void) {
  uint64_t z = (vn_prng_state += 0x9e3779b97f4a7c15ull);
  z = (z ^ (z >> 30)) * 0xbf58476d1ce4e5b9ull;
  z = (z ^ (z >> 27)) * 0x94d049bb133111ebull;
  return z ^ (z >> 31);
}

static int vn_prng_fn(void *buf, size_t len) {
  uint8_t *b = (uint8_t *)buf;
  vn_prng_calls++;
  for (size_t i = 0; i < len; i++) {
    if (vn_prng_script_pos < vn_prng_script_len)
      b[i] = vn_prng_script[vn_prng_script_pos++];
    else
      b[i] = (uint8_t)(vn_splitmix() >> 24);
  }
  return 1;
}

static void vn_prng_seed(uint64_t seed) {
  vn_prng_state = seed * 0x2545f4914f6cdd1dull + 0x9e3779b97f4a7c15ull;
  vn_prng_calls = 0;
  vn_prng_script = NULL;
  vn_prng_script_len = vn_prng_script_pos = 0;
  coap_set_prng(vn_prng_fn);
}

/* ------------------------------------------------------------------ outgoing log */
typedef struct {
  coap_tick_t t;            /* virtual time of the send call */
  coap_address_t src, dst;  /* session local / remote address at the time of sending */
  coap_session_t *session;  /* may be dangling later: identity only */
  coap_context_t *ctx;
  uint8_t *data;
  size_t len;
  int delivered;            /* how many times the driver routed it */
} vn_dgram_t;

static vn_dgram_t *vn_out = NULL;
static size_t vn_nout = 0, vn_out_cap = 0;
static int vn_send_fail = 0;        /* >0: the next n sends fail with -1 (errno ENOBUFS) */
static void (*vn_on_send)(size_t idx) = NULL;   /* optional hook, called after logging */

ssize_t __wrap_coap_socket_send(coap_socket_t *sock, coap_session_t *session,
                                const uint8_t *data, size_t datalen) {
  (void)sock;
  if (vn_send_fail > 0) {
    vn_send_fail--;
    errno = ENOBUFS;
    return -1;
  }
  if (vn_nout == vn_out_cap) {
    vn_out_cap = vn_out_cap ? vn_out_cap * 2 : 256;
    vn_out = (vn_dgram_t *)realloc(vn_out, vn_out_cap * sizeof(vn_dgram_t));
  }
  vn_dgram_t *d = &vn_out[vn_nout];
  memset(d, 0, sizeof(*d));
  d->t = vn_now;
  if (session) {
    coap_address_copy(&d->src, &session->addr_info.local);
    coap_address_copy(&d->dst, &session->addr_info.remote);
    d->ctx = session->context;
  }
  d->session = session;
  d->data = (uint8_t *)malloc(datalen ? datalen : 1);
  memcpy(d->data, data, datalen);
  d->len = datalen;
  vn_nout++;
  if (vn_on_send) vn_on_send(vn_nout - 1);
  return (ssize_t)datalen;
}

static void vn_log_reset(void) {
  for (size_t i = 0; i < vn_nout; i++) free(vn_out[i].data);
  vn_nout = 0;
}

/* ------------------------------------------------------------------ incoming side */
static struct {
  int valid;
  coap_address_t src, local;
  int have_local;
  const uint8_t *data;
  size_t len;
} vn_pending;

ssize_t __wrap_coap_socket_recv(coap_socket_t *sock, coap_packet_t *packet) {
  if ((sock->flags & COAP_SOCKET_CAN_READ) == 0)
    return -1;
  sock->flags &= ~COAP_SOCKET_CAN_READ;
  if (!vn_pending.valid) {
    errno = EAGAIN;
    return -1;
  }
  vn_pending.valid = 0;
  size_t n = vn_pending.len;
  if (n > COAP_RXBUFFER_SIZE) n = COAP_RXBUFFER_SIZE;   /* what recv() would do: truncate */
  memcpy(packet->payload, vn_pending.data, n);
  packet->length = n;
  packet->ifindex = 0;
  if (!(sock->flags & COAP_SOCKET_CONNECTED)) {
    coap_address_copy(&packet->addr_info.remote, &vn_pending.src);
    if (vn_pending.have_local)
      coap_address_copy(&packet->addr_info.local, &vn_pending.local);
    /* else: coap_read_endpoint preset local = bind address, as recvmsg's pktinfo would */
  }
  return (ssize_t)n;
}

/* deliver bytes to a server endpoint as a datagram from src (local = NULL: the bind address;
 * give a multicast address to make it a multicast request) */
static void vn_inject_ep(coap_context_t *ctx, coap_endpoint_t *ep, const coap_address_t *src,
                         const coap_address_t *local, const uint8_t *data, size_t len) {
  struct epoll_event ev;
  memset(&ev, 0, sizeof(ev));
  vn_pending.valid = 1;
  coap_address_copy(&vn_pending.src, src);
  vn_pending.have_local = local != NULL;
  if (local) coap_address_copy(&vn_pending.local, local);
  vn_pending.data = data;
  vn_pending.len = len;
  ev.events = EPOLLIN;
  ev.data.ptr = &ep->sock;
  coap_io_do_epoll(ctx, &ev, 1);
  vn_pending.valid = 0;
}

/* deliver bytes to a (client) session's connected socket */
static void vn_inject_session(coap_context_t *ctx, coap_session_t *s, const uint8_t *data,
                              size_t len) {
  struct epoll_event ev;
  memset(&ev, 0, sizeof(ev));
  vn_pending.valid = 1;
  vn_pending.have_local = 0;
  coap_address_copy(&vn_pending.src, &s->addr_info.remote);
  vn_pending.data = data;
  vn_pending.len = len;
  ev.events = EPOLLIN;
  ev.data.ptr = &s->sock;
  coap_io_do_epoll(ctx, &ev, 1);
  vn_pending.valid = 0;
}

/* ------------------------------------------------------------------ routing table */
#define VN_MAXNODES 64
static struct {
  int kind;                 /* 1 = server endpoint, 2 = client session */
  coap_context_t *ctx;
  coap_endpoint_t *ep;
  coap_session_t *sess;
  coap_address_t addr;      /* endpoint bind address / client session local address */
} vn_nodes[VN_MAXNODES];
static int vn_nnodes = 0;

static void vn_register_ep(coap_context_t *ctx, coap_endpoint_t *ep) {
  vn_nodes[vn_nnodes].kind = 1;
  vn_nodes[vn_nnodes].ctx = ctx;
  vn_nodes[vn_nnodes].ep = ep;
  coap_address_copy(&vn_nodes[vn_nnodes].addr, &ep->bind_addr);
  vn_nnodes++;
}

static void vn_register_client(coap_context_t *ctx, coap_session_t *s) {
  vn_nodes[vn_nnodes].kind = 2;
  vn_nodes[vn_nnodes].ctx = ctx;
  vn_nodes[vn_nnodes].sess = s;
  coap_address_copy(&vn_nodes[vn_nnodes].addr, &s->addr_info.local);
  vn_nnodes++;
}

static void vn_unregister_client(coap_session_t *s) {
  for (int i = 0; i < vn_nnodes; i++)
    if (vn_nodes[i].kind == 2 && vn_nodes[i].sess == s) {
      vn_nodes[i] = vn_nodes[--vn_nnodes];
      return;
    }
}

/* deliver log entry i to whoever is registered for its destination; returns 1 if delivered.
 * The bytes are copied first: the log may be re-allocated by sends made during delivery. */
static int vn_route(size_t i) {
  if (i >= vn_nout) return 0;
  size_t len = vn_out[i].len;
  uint8_t *copy = (uint8_t *)malloc(len ? len : 1);
  memcpy(copy, vn_out[i].data, len);
  coap_address_t src, dst;
  coap_address_copy(&src, &vn_out[i].src);
  coap_address_copy(&dst, &vn_out[i].dst);
  int ok = 0;
  for (int k = 0; k < vn_nnodes; k++) {
    if (!coap_address_equals(&vn_nodes[k].addr, &dst)) continue;
    vn_out[i].delivered++;
    if (vn_nodes[k].kind == 1)
      vn_inject_ep(vn_nodes[k].ctx, vn_nodes[k].ep, &src, NULL, copy, len);
    else
      vn_inject_session(vn_nodes[k].ctx, vn_nodes[k].sess, copy, len);
    ok = 1;
    break;
  }
  free(copy);
  return ok;
}

/* ------------------------------------------------------------------ timers */
/* fire everything due at vn_now; returns the wait (ms) the library asks for, 0 = idle */
static unsigned int vn_prepare(coap_context_t *ctx) {
  return coap_io_prepare_epoll(ctx, vn_now);
}

static void vn_advance(coap_tick_t dt) {
  vn_now += dt;
}

/* ------------------------------------------------------------------ helpers */
/* 127.0.0.1:port (port in host order) */
static void vn_addr4(coap_address_t *a, uint32_t ip_host_order, uint16_t port) {
  coap_address_init(a);
  a->size = sizeof(struct sockaddr_in);
  a->addr.sin.sin_family = AF_INET;
  a->addr.sin.sin_addr.s_addr = htonl(ip_host_order);
  a->addr.sin.sin_port = htons(port);
}
#define VN_LOOPBACK 0x7f000001u

/* UDP server endpoint on 127.0.0.1, ephemeral port; registered for routing */
static coap_endpoint_t *vn_new_server_ep(coap_context_t *ctx) {
  coap_address_t a;
  vn_addr4(&a, VN_LOOPBACK, 0);
  coap_endpoint_t *ep = coap_new_endpoint(ctx, &a, COAP_PROTO_UDP);
  if (ep) vn_register_ep(ctx, ep);
  return ep;
}

/* UDP client session towards an endpoint made by vn_new_server_ep (or any address) */
static coap_session_t *vn_new_client(coap_context_t *ctx, const coap_address_t *server) {
  coap_session_t *s = coap_new_client_session(ctx, NULL, server, COAP_PROTO_UDP);
  if (s) vn_register_client(ctx, s);
  return s;
}

/* one-line summary of a datagram: "t=<ms> <type> <code> mid=<n> tok=<hex> len=<n>" */
static void vn_show_dgram(FILE *o, const vn_dgram_t *d) {
  static const char *tn[] = {"CON", "NON", "ACK", "RST"};
  if (d->len < 4) {
    fprintf(o, "t=%llu RUNT len=%zu", (unsigned long long)d->t, d->len);
    return;
  }
  unsigned tkl = d->data[0] & 15;
  fprintf(o, "t=%llu %s %u.%02u mid=%u tok=", (unsigned long long)d->t,
          tn[(d->data[0] >> 4) & 3], d->data[1] >> 5, d->data[1] & 31,
          (d->data[2] << 8) | d->data[3]);
  if (tkl == 0 || tkl > 8 || 4 + tkl > d->len) fputs("-", o);
  else for (unsigned i = 0; i < tkl; i++) fprintf(o, "%02x", d->data[4 + i]);
  fprintf(o, " len=%zu", d->len);
}
#endif

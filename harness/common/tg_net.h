/* C19: additions to vnet.h for (D)TLS sessions with GnuTLS inside one process.
 *
 * Include after "common/vnet.h" in exactly one .c file.  Extra link-time wraps (no source change
 * to libcoap): see TG_WRAPS in tools/checks/c19.py.
 *
 *  - GnuTLS gets the same virtual clock as libcoap (vn_now) through the testing entry points
 *    _gnutls_global_set_gettime_function / gnutls_global_set_time_function, so DTLS handshake
 *    retransmission timers are functions of the script and lossy handshakes cost no real time.
 *  - every gnutls_handshake / gnutls_record_send / gnutls_record_recv / gnutls_dtls_cookie_verify
 *    call made by libcoap is logged with the value GnuTLS returned (this is the "TLS oracle" of
 *    the Coq model: the model is replayed on exactly these values); a script can force the n-th
 *    call of a kind on a side to return a given error code instead (fault injection).
 *  - the PSK callbacks libcoap registers with GnuTLS are interposed: what libcoap hands to
 *    GnuTLS for (hint) / (identity) is logged (tie of the credential-selection model).
 *  - coap_handle_dgram as called from coap_gnutls.o (plaintext leaving the TLS layer towards
 *    CoAP dispatch) is logged.
 *  - a trace buffer of tokens, printed as the one result line of a case.
 */
#ifndef VERIF_TG_NET_H
#define VERIF_TG_NET_H
#include <gnutls/gnutls.h>
#include <gnutls/dtls.h>
#include <stdarg.h>
#include <stddef.h>
#include <time.h>
#include <unistd.h>
#include <fcntl.h>

/* ------------------------------------------------------------------ trace buffer */
static char *tg_tr = NULL;
static size_t tg_tr_len = 0, tg_tr_cap = 0;

static void tg_emit(const char *fmt, ...) {
  va_list ap;
  char tmp[8192];
  va_start(ap, fmt);
  int n = vsnprintf(tmp, sizeof(tmp), fmt, ap);
  va_end(ap);
  if (n < 0) return;
  if ((size_t)n >= sizeof(tmp)) n = sizeof(tmp) - 1;
  if (tg_tr_len + (size_t)n + 2 > tg_tr_cap) {
    tg_tr_cap = (tg_tr_cap ? tg_tr_cap * 2 : 65536) + (size_t)n + 2;
    tg_tr = (char *)realloc(tg_tr, tg_tr_cap);
  }
  if (tg_tr_len) tg_tr[tg_tr_len++] = ' ';
  memcpy(tg_tr + tg_tr_len, tmp, (size_t)n);
  tg_tr_len += (size_t)n;
  tg_tr[tg_tr_len] = 0;
}

static void tg_trace_reset(void) {
  tg_tr_len = 0;
  if (tg_tr) tg_tr[0] = 0;
}

static void tg_hex(char *out, size_t outsz, const uint8_t *b, size_t n) {
  size_t o = 0;
  if (n == 0) {
    snprintf(out, outsz, "-");
    return;
  }
  for (size_t i = 0; i < n && o + 3 < outsz; i++) o += (size_t)snprintf(out + o, outsz - o, "%02x", b[i]);
}

/* ------------------------------------------------------------------ GnuTLS on the virtual clock */
extern void _gnutls_global_set_gettime_function(void (*f)(struct timespec *));
static void tg_gettime(struct timespec *ts) {
  ts->tv_sec = (time_t)(vn_now / 1000) + 1700000000;
  ts->tv_nsec = (long)(vn_now % 1000) * 1000000L;
}
static time_t tg_time(time_t *t) {
  time_t r = (time_t)(vn_now / 1000) + 1700000000;
  if (t) *t = r;
  return r;
}
static void tg_virtual_gnutls_time(void) {
  _gnutls_global_set_gettime_function(tg_gettime);
  gnutls_global_set_time_function(tg_time);
}

/* libcoap's receive_timeout() select()s on c_session->sock.fd; for a server-side DTLS session
 * that field is 0 (stdin).  Make descriptor 0 something fixed: mode 0 = /dev/null (always
 * readable: GnuTLS is told "data is there"), mode 1 = the read end of a pipe nobody writes to
 * (never readable: GnuTLS sees a timeout and retransmits its flight).  Case lines are read from
 * a duplicate of the original stdin. */
static int tg_pipe_w = -1;
static FILE *tg_stdin_dup(void) {
  int fd = dup(0);
  return fdopen(fd, "r");
}
static void tg_fd0_mode(int mode) {
  static int cur = -1;
  if (cur == mode) return;
  cur = mode;
  if (tg_pipe_w >= 0) {
    close(tg_pipe_w);
    tg_pipe_w = -1;
  }
  close(0);
  if (mode == 0) {
    int fd = open("/dev/null", O_RDONLY);
    if (fd != 0) { dup2(fd, 0); close(fd); }
  } else {
    int p[2];
    if (pipe(p) == 0) {
      if (p[0] != 0) { dup2(p[0], 0); close(p[0]); }
      tg_pipe_w = p[1];
    }
  }
}

/* ------------------------------------------------------------------ TLS call log + fault injection */
enum { TG_HS = 0, TG_TX = 1, TG_RX = 2, TG_CK = 3, TG_NKIND = 4 };
static long tg_calls[2][TG_NKIND];            /* [side: 0 client, 1 server][kind] */
#define TG_MAXFORCE 32
static struct { int side, kind; long idx; int code; } tg_force[TG_MAXFORCE];
static int tg_nforce = 0;
static int tg_hs_success[2];                  /* number of times gnutls_handshake returned 0 */

static int tg_side_of(gnutls_session_t g) {
  coap_session_t *s = (coap_session_t *)gnutls_transport_get_ptr(g);
  return (s && s->type == COAP_SESSION_TYPE_CLIENT) ? 0 : 1;
}
/* the driver may install a finer naming ("c" client, "s" the server session of interest, "o" other) */
static const char *(*tg_name_of)(const coap_session_t *) = NULL;
static const char *tg_gn(gnutls_session_t g) {
  coap_session_t *s = (coap_session_t *)gnutls_transport_get_ptr(g);
  if (tg_name_of) return tg_name_of(s);
  return (s && s->type == COAP_SESSION_TYPE_CLIENT) ? "c" : "s";
}

static int tg_forced(int side, int kind, int *code) {
  long k = tg_calls[side][kind]++;
  for (int i = 0; i < tg_nforce; i++)
    if (tg_force[i].side == side && tg_force[i].kind == kind && tg_force[i].idx == k) {
      *code = tg_force[i].code;
      return 1;
    }
  return 0;
}

/* "<T><mid>" of a CoAP-over-UDP PDU: T in C N A R */
static void tg_pdu_tag(char *out, size_t outsz, const uint8_t *b, size_t n) {
  if (n < 4 || (b[0] >> 6) != 1) {
    snprintf(out, outsz, "?%zu", n);
    return;
  }
  snprintf(out, outsz, "%c%u.%u", "CNAR"[(b[0] >> 4) & 3], (unsigned)((b[2] << 8) | b[3]), (unsigned)b[1]);
}

/* every cleartext PDU that libcoap handed to the TLS layer (needles for the wire oracle) */
#define TG_MAXPLAIN 256
static struct { uint8_t *b; size_t n; } tg_plain[TG_MAXPLAIN];
static int tg_nplain = 0;
static void tg_remember_plain(const uint8_t *b, size_t n) {
  if (tg_nplain < TG_MAXPLAIN && n >= 6) {
    tg_plain[tg_nplain].b = (uint8_t *)malloc(n);
    memcpy(tg_plain[tg_nplain].b, b, n);
    tg_plain[tg_nplain].n = n;
    tg_nplain++;
  }
}

int __real_gnutls_handshake(gnutls_session_t s);
int __wrap_gnutls_handshake(gnutls_session_t s) {
  int side = tg_side_of(s), code, r;
  if (tg_forced(side, TG_HS, &code))
    r = code;
  else
    r = __real_gnutls_handshake(s);
  if (r == 0) tg_hs_success[side]++;
  tg_emit("%s.hs:%d", tg_gn(s), r);
  return r;
}

ssize_t __real_gnutls_record_send(gnutls_session_t s, const void *data, size_t n);
ssize_t __wrap_gnutls_record_send(gnutls_session_t s, const void *data, size_t n) {
  int side = tg_side_of(s), code;
  ssize_t r;
  char tag[48];
  tg_pdu_tag(tag, sizeof(tag), (const uint8_t *)data, n);
  tg_remember_plain((const uint8_t *)data, n);
  if (tg_forced(side, TG_TX, &code))
    r = code;
  else
    r = __real_gnutls_record_send(s, data, n);
  if (r > 0)
    tg_emit("%s.tx:%s:ok", tg_gn(s), tag);
  else
    tg_emit("%s.tx:%s:%zd", tg_gn(s), tag, r);
  return r;
}

ssize_t __real_gnutls_record_recv(gnutls_session_t s, void *data, size_t n);
ssize_t __wrap_gnutls_record_recv(gnutls_session_t s, void *data, size_t n) {
  int side = tg_side_of(s), code;
  ssize_t r;
  if (tg_forced(side, TG_RX, &code))
    r = code < 0 ? code : 0;
  else
    r = __real_gnutls_record_recv(s, data, n);
  if (r > 0) {
    char tag[48];
    tg_pdu_tag(tag, sizeof(tag), (const uint8_t *)data, (size_t)r);
    tg_emit("%s.rx:ok:%s", tg_gn(s), tag);
  } else
    tg_emit("%s.rx:%zd", tg_gn(s), r);
  return r;
}

int __real_gnutls_dtls_cookie_verify(gnutls_datum_t *key, void *client_data, size_t client_data_size,
                                     void *msg, size_t msg_size, gnutls_dtls_prestate_st *prestate);
int __wrap_gnutls_dtls_cookie_verify(gnutls_datum_t *key, void *client_data, size_t client_data_size,
                                     void *msg, size_t msg_size, gnutls_dtls_prestate_st *prestate) {
  int code, r;
  if (tg_forced(1, TG_CK, &code))
    r = code;
  else
    r = __real_gnutls_dtls_cookie_verify(key, client_data, client_data_size, msg, msg_size, prestate);
  {
    /* client_data is &c_session->addr_info (coap_dtls_hello) */
    coap_session_t *cs = (coap_session_t *)((char *)client_data - offsetof(coap_session_t, addr_info));
    tg_emit("%s.ck:%d", tg_name_of ? tg_name_of(cs) : "s", r);
  }
  return r;
}

/* plaintext leaving the TLS layer towards CoAP dispatch (calls from coap_gnutls.o only) */
int __real_coap_handle_dgram(coap_context_t *ctx, coap_session_t *session, uint8_t *data, size_t n);
int __wrap_coap_handle_dgram(coap_context_t *ctx, coap_session_t *session, uint8_t *data, size_t n) {
  char tag[48];
  tg_pdu_tag(tag, sizeof(tag), data, n);
  tg_emit("%s.dl:%s", tg_name_of ? tg_name_of(session) : (session->type == COAP_SESSION_TYPE_CLIENT ? "c" : "s"), tag);
  return __real_coap_handle_dgram(ctx, session, data, n);
}

/* one DTLS handshake-timer expiry handled by libcoap (called from coap_io.o) */
int __real_coap_dtls_handle_timeout(coap_session_t *session);
int __wrap_coap_dtls_handle_timeout(coap_session_t *session) {
  tg_emit("%s.to", tg_name_of ? tg_name_of(session) : (session->type == COAP_SESSION_TYPE_CLIENT ? "c" : "s"));
  return __real_coap_dtls_handle_timeout(session);
}

/* one CoAP retransmission-timer expiry (called from coap_io.o) */
coap_mid_t __real_coap_retransmit(coap_context_t *context, coap_queue_t *node);
coap_mid_t __wrap_coap_retransmit(coap_context_t *context, coap_queue_t *node) {
  coap_session_t *session = node->session;
  tg_emit("%s.rt:%c%d:%u", tg_name_of ? tg_name_of(session) : (session->type == COAP_SESSION_TYPE_CLIENT ? "c" : "s"),
          "CNAR"[node->pdu->type & 3], (int)node->id, (unsigned)node->retransmit_cnt);
  return __real_coap_retransmit(context, node);
}

/* ------------------------------------------------------------------ interposed PSK callbacks */
static gnutls_psk_server_credentials_function *tg_real_scb = NULL;
static gnutls_psk_client_credentials_function *tg_real_ccb = NULL;

static int tg_scb(gnutls_session_t g, const char *username, gnutls_datum_t *key) {
  char a[600], b[600];
  int r = tg_real_scb(g, username, key);
  tg_hex(a, sizeof(a), (const uint8_t *)username, username ? strlen(username) : 0);
  if (r == 0) {
    tg_hex(b, sizeof(b), key->data, key->size);
    tg_emit("%s.cb:%s:%s", tg_gn(g), a, b);
  } else
    tg_emit("%s.cb:%s:fail", tg_gn(g), a);
  return r;
}

static int tg_ccb(gnutls_session_t g, char **username, gnutls_datum_t *key) {
  char h[600], a[600], b[600];
  const char *hint = gnutls_psk_client_get_hint(g);
  int r = tg_real_ccb(g, username, key);
  tg_hex(h, sizeof(h), (const uint8_t *)hint, hint ? strlen(hint) : 0);
  if (r == 0) {
    tg_hex(a, sizeof(a), (const uint8_t *)*username, strlen(*username));
    tg_hex(b, sizeof(b), key->data, key->size);
    tg_emit("c.cb:%s:%s:%s", h, a, b);
  } else
    tg_emit("c.cb:%s:fail", h);
  return r;
}

void __real_gnutls_psk_set_server_credentials_function(gnutls_psk_server_credentials_t cred,
                                                       gnutls_psk_server_credentials_function *f);
void __wrap_gnutls_psk_set_server_credentials_function(gnutls_psk_server_credentials_t cred,
                                                       gnutls_psk_server_credentials_function *f) {
  tg_real_scb = f;
  __real_gnutls_psk_set_server_credentials_function(cred, tg_scb);
}
void __real_gnutls_psk_set_client_credentials_function(gnutls_psk_client_credentials_t cred,
                                                       gnutls_psk_client_credentials_function *f);
void __wrap_gnutls_psk_set_client_credentials_function(gnutls_psk_client_credentials_t cred,
                                                       gnutls_psk_client_credentials_function *f) {
  tg_real_ccb = f;
  __real_gnutls_psk_set_client_credentials_function(cred, tg_ccb);
}

static void tg_calls_reset(void) {
  memset(tg_calls, 0, sizeof(tg_calls));
  tg_nforce = 0;
  tg_hs_success[0] = tg_hs_success[1] = 0;
  for (int i = 0; i < tg_nplain; i++) free(tg_plain[i].b);
  tg_nplain = 0;
}

/* ------------------------------------------------------------------ wire oracle helpers */
static int tg_contains(const uint8_t *h, size_t hn, const uint8_t *n, size_t nn) {
  if (nn == 0 || hn < nn) return 0;
  for (size_t i = 0; i + nn <= hn; i++)
    if (h[i] == n[0] && memcmp(h + i, n, nn) == 0) return 1;
  return 0;
}

/* Is the datagram a concatenation of DTLS 1.x records (13-byte header: type 20..25, version
 * fe ff/fe fd, epoch, seq, length) that covers it exactly?  Returns 1 if so; *appclear is set
 * when an application-data record (23) travels in epoch 0 (= unprotected). */
static int tg_dtls_framed(const uint8_t *b, size_t n, int *appclear) {
  size_t o = 0;
  *appclear = 0;
  if (n == 0) return 0;
  while (o < n) {
    if (n - o < 13) return 0;
    if (b[o] < 20 || b[o] > 25) return 0;
    /* version: DTLS 1.0 / 1.2; GnuTLS labels the close alert of a session that never
     * negotiated a version 03 03, in the same 13-byte DTLS header */
    if (!((b[o + 1] == 0xfe && (b[o + 2] == 0xff || b[o + 2] == 0xfd)) || (b[o + 1] == 3 && b[o + 2] == 3 && b[o] == 21)))
      return 0;
    unsigned epoch = (unsigned)((b[o + 3] << 8) | b[o + 4]);
    size_t len = (size_t)((b[o + 11] << 8) | b[o + 12]);
    if (b[o] == 23 && epoch == 0) *appclear = 1;
    if (len > n - o - 13) return 0;
    o += 13 + len;
  }
  return 1;
}
#endif

/* C20 driver: /.well-known/core listing and single links through libcoap's public API
 * (coap_resource_init, coap_add_attr, coap_resource_set_get_observable, coap_add_resource,
 * coap_print_wellknown, coap_print_link).  One case per line; same format as ocaml/d_link.ml.
 *
 *   table ops: R <path> <flags> <nattr> { <name> <val> }*  (init, add_attr.., add_resource)
 *              D <path>                                     (coap_delete_resource)
 *              U | P                                        (unknown-resource / proxy-URI resource: never listed)
 *              UG | UW                                      (unknown resource with a GET handler answering 2.03; UW: with
 *                                                           COAP_RESOURCE_HANDLE_WELLKNOWN_CORE, so it takes GET /.well-known/core)
 *   lfwk      { R <path> <flags> <nattr> { <name> <val> }* }*  F <filter>  W all
 *   lfwk      { R ... }*                                        F <filter>  W list { <off> <len> }*
 *   lflk <idx> { R ... }*                                        F ~         W all | list ...
 *
 *   <path> <name> : "-" (empty) | hex          <val> : "~" (no value) | "-" (empty) | hex
 *   <flags>       : 1 = observable, 2 = OSCORE only, 4 = exact-size strings (RELEASE flags)        <filter> : "~" (none) | "-" | hex
 *
 * Every call writes into an exact-size heap buffer (sanitizer build: overruns trap; plain
 * build: a guard zone behind the buffer is checked); the filter is an exact-size heap copy
 * without terminator, so reads behind it trap as well.
 *
 * "W all" = every (offset, buflen) in [0, L+2] x [0, L+2], L = reported total length;
 * the per-window results are folded into an FNV-1a digest (same fold in the OCaml driver).
 * The driver also evaluates the implementation-only oracle (suffix " oracle=..."):
 * window = slice of the full listing printed into a large buffer, total constant,
 * TRUNC rule, bytes written <= buflen.
 */
#include "coap3/coap_libcoap_build.h"
#include "common/util.h"
#include <sys/socket.h>
#include <netinet/in.h>
#include <arpa/inet.h>
#include <poll.h>
#include <unistd.h>

#if defined(__has_feature)
#if __has_feature(address_sanitizer)
#define LF_ASAN 1
#endif
#endif
#if defined(__SANITIZE_ADDRESS__)
#define LF_ASAN 1
#endif

/* ---- no dependence on other processes or on real time (link-time interposition, --wrap):
 * libcoap sets SO_REUSEADDR on its UDP sockets; on Linux two UDP sockets that both have it may be
 * bound to the SAME port, also by the kernel's port selection for port 0 - a server endpoint of
 * another check process running in parallel could share our port and receive our requests (its
 * answers then reach our client: bodies of another table, 4.00, 4.08 ...).  Without the option
 * every port the kernel hands out is exclusive.
 * The library clock is frozen: no retransmission, session or block-transfer timer can fire however
 * long the process is descheduled. */
#include <sys/socket.h>
int __real_setsockopt(int fd, int level, int optname, const void *optval, socklen_t optlen);
int __wrap_setsockopt(int fd, int level, int optname, const void *optval, socklen_t optlen) {
  if (level == SOL_SOCKET && (optname == SO_REUSEADDR
#ifdef SO_REUSEPORT
                              || optname == SO_REUSEPORT
#endif
                             ))
    return 0;
  return __real_setsockopt(fd, level, optname, optval, optlen);
}
void __wrap_coap_ticks(coap_tick_t *t) {
  if (t) *t = (coap_tick_t)1000 * COAP_TICKS_PER_SECOND;
}

#define GUARD 32
#define MAXRES 64

static coap_context_t *ctx;
static coap_resource_t *res[MAXRES];
static int nres;

static uint32_t dig;
static void dig_byte(unsigned b) { dig = (dig ^ (b & 0xff)) * 0x01000193u; }
static void dig_num(unsigned long v) {
  dig_byte(v); dig_byte(v >> 8); dig_byte(v >> 16); dig_byte(v >> 24);
}

static void hex_full(FILE *o, const uint8_t *b, size_t n) {
  if (!n) { fputc('-', o); return; }
  for (size_t i = 0; i < n; i++) fprintf(o, "%02x", b[i]);
}

/* exact-size heap string (no terminator); "~" -> NULL */
static coap_string_t *filter_of_tok(const char *t) {
  coap_string_t *f;
  size_t n;
  uint8_t *b;
  if (!strcmp(t, "~")) return NULL;
  b = bytes_of_tok(t, &n);
  f = (coap_string_t *)malloc(sizeof(*f));
  f->length = n;
  f->s = (uint8_t *)malloc(n);        /* exact size; malloc(0) is a valid zero-size object */
  if (n) memcpy(f->s, b, n);
  free(b);
  return f;
}

static void hnd_unknown_get(coap_resource_t *r, coap_session_t *s, const coap_pdu_t *req,
                            const coap_string_t *q, coap_pdu_t *resp) {
  (void)r; (void)s; (void)req; (void)q;
  coap_pdu_set_code(resp, COAP_RESPONSE_CODE(203));
}

/* a coap_str_const_t whose object ends with the last byte of the string */
static coap_str_const_t *exact_str(const uint8_t *b, size_t n) {
  coap_str_const_t *s = (coap_str_const_t *)coap_malloc_type(COAP_STRING, sizeof(coap_str_const_t) + n);
  s->length = n;
  s->s = (const uint8_t *)s + sizeof(coap_str_const_t);
  if (n) memcpy((uint8_t *)s + sizeof(coap_str_const_t), b, n);
  return s;
}

static void hnd_dummy(coap_resource_t *r, coap_session_t *s, const coap_pdu_t *req,
                      const coap_string_t *q, coap_pdu_t *resp) {
  (void)r; (void)s; (void)req; (void)q;
  coap_pdu_set_code(resp, COAP_RESPONSE_CODE_CONTENT);
}

/* parse the table starting at vtok[i]; returns the index of the token after it */
static int build_table(int i) {
  nres = 0;
  ctx = coap_new_context(NULL);
  if (!ctx) return -1;
  while (i < vntok && (!strcmp(vtok[i], "R") || !strcmp(vtok[i], "D") || !strcmp(vtok[i], "U") || !strcmp(vtok[i], "UG") ||
                       !strcmp(vtok[i], "UW") || !strcmp(vtok[i], "P") || !strcmp(vtok[i], "M"))) {
    size_t n;
    if (!strcmp(vtok[i], "M")) {       /* M <n>: n resources by formula (see tools/gen_link.py many_ops) */
      int cnt = atoi(vtok[i + 1]);
      for (int k = 0; k < cnt; k++) {
        char pb[32], vb[32];
        coap_str_const_t path, name = { 2, (const uint8_t *)"rt" }, val;
        coap_resource_t *r;
        path.length = (size_t)snprintf(pb, sizeof(pb), "r/%d", (k * 7919) % 10007);
        path.s = (const uint8_t *)pb;
        r = coap_resource_init(&path, (k % 4 & 2) ? COAP_RESOURCE_FLAGS_OSCORE_ONLY : 0);
        if (k % 3) {
          val.length = (size_t)snprintf(vb, sizeof(vb), "\"t%d s\"", k % 5);
          val.s = (const uint8_t *)vb;
          coap_add_attr(r, &name, &val, 0);
        }
        if (k % 4 & 1) coap_resource_set_get_observable(r, 1);
        coap_add_resource(ctx, r);
        if (k % 17 == 5) {
          coap_resource_t *dr;
          path.length = (size_t)snprintf(pb, sizeof(pb), "r/%d", ((k - 3) * 7919) % 10007);
          dr = coap_get_resource_from_uri_path(ctx, &path);
          if (dr) coap_delete_resource(ctx, dr);
        }
      }
      nres = 0;                        /* lk is not used with M */
      i += 2;
      continue;
    }
    if (!strcmp(vtok[i], "UG") || !strcmp(vtok[i], "UW")) {
      /* unknown-resource handler that also has a GET handler (answers 2.03); UW: it asked for
       * .well-known/core with COAP_RESOURCE_HANDLE_WELLKNOWN_CORE, UG: it did not */
      coap_resource_t *ur = coap_resource_unknown_init2(hnd_dummy,
                              !strcmp(vtok[i], "UW") ? COAP_RESOURCE_HANDLE_WELLKNOWN_CORE : 0);
      coap_register_request_handler(ur, COAP_REQUEST_GET, hnd_unknown_get);
      coap_add_resource(ctx, ur);
      i += 1;
      continue;
    }
    if (!strcmp(vtok[i], "U")) {       /* the unknown-resource handler: registered, not listed */
      coap_add_resource(ctx, coap_resource_unknown_init(hnd_dummy));
      i += 1;
      continue;
    }
    if (!strcmp(vtok[i], "P")) {       /* a proxy-URI resource: registered, not listed */
      const char *names[] = { "proxy.example" };
      coap_add_resource(ctx, coap_resource_proxy_uri_init(hnd_dummy, 1, names));
      i += 1;
      continue;
    }
    if (!strcmp(vtok[i], "D")) {       /* D <path> : coap_delete_resource of the resource with that path */
      uint8_t *db = bytes_of_tok(vtok[i + 1], &n);
      coap_str_const_t dp = { n, db };
      coap_resource_t *dr = coap_get_resource_from_uri_path(ctx, &dp);
      if (dr) {
        for (int k = 0; k < nres; k++)
          if (res[k] == dr) {
            memmove(&res[k], &res[k + 1], sizeof(res[0]) * (size_t)(nres - k - 1));
            nres--;
            break;
          }
        coap_delete_resource(ctx, dr);
      }
      free(db);
      i += 2;
      continue;
    }
    uint8_t *b = bytes_of_tok(vtok[i + 1], &n);
    int fl = atoi(vtok[i + 2]);
    int na = atoi(vtok[i + 3]);
    coap_str_const_t path = { n, b };
    /* flags bit 2 (value 4): the path, names and values are handed over as exact-size objects
     * (RELEASE flags: libcoap keeps the caller's object, nothing - no terminator - follows the
     * bytes), so that a read behind a string traps in the sanitizer build */
    coap_resource_t *r = (fl & 4)
      ? coap_resource_init(exact_str(b, n), ((fl & 2) ? COAP_RESOURCE_FLAGS_OSCORE_ONLY : 0) |
                                             COAP_RESOURCE_FLAGS_RELEASE_URI)
      : coap_resource_init(&path, (fl & 2) ? COAP_RESOURCE_FLAGS_OSCORE_ONLY : 0);
    free(b);
    i += 4;
    for (int a = 0; a < na; a++, i += 2) {
      size_t nn, vn = 0;
      uint8_t *nb = bytes_of_tok(vtok[i], &nn);
      uint8_t *vb = NULL;
      coap_str_const_t name = { nn, nb }, val;
      if (strcmp(vtok[i + 1], "~")) {
        vb = bytes_of_tok(vtok[i + 1], &vn);
        val.length = vn;
        val.s = vb;
      }
      if (fl & 4)
        coap_add_attr(r, exact_str(nb, nn), vb ? exact_str(vb, vn) : NULL,
                      COAP_ATTR_FLAGS_RELEASE_NAME | COAP_ATTR_FLAGS_RELEASE_VALUE);
      else
        coap_add_attr(r, &name, vb ? &val : NULL, 0);
      free(nb);
      free(vb);
    }
    if (fl & 1) coap_resource_set_get_observable(r, 1);
    /* coap_add_resource replaces (deletes) a resource with the same path: keep res[] = the
     * live resources in registration order */
    for (int k = 0; k < nres; k++) {
      coap_str_const_t *pk = coap_resource_get_uri_path(res[k]);
      if (pk->length == n && (n == 0 || !memcmp(pk->s, coap_resource_get_uri_path(r)->s, n))) {
        memmove(&res[k], &res[k + 1], sizeof(res[0]) * (size_t)(nres - k - 1));
        nres--;
        break;
      }
    }
    coap_add_resource(ctx, r);
    if (nres < MAXRES) res[nres++] = r;
  }
  return i;
}

typedef struct {
  uint8_t *bytes;      /* what was stored in the buffer (count bytes) */
  size_t count;        /* COAP_PRINT_OUTPUT_LENGTH(result) */
  size_t total;        /* *buflen / *len after the call */
  size_t newoff;       /* lk only */
  char flag;           /* '0' | 'T' | 'E' */
  int overrun;
} win_t;

static uint8_t *wbuf;
static size_t wbuf_cap;

/* one call of the API under test; lkidx < 0: coap_print_wellknown, else coap_print_link */
static void one_window(int lkidx, const coap_string_t *filter, size_t off, size_t blen, win_t *w) {
  coap_print_status_t st;
  size_t l = blen, o = off;
  uint8_t *buf;
#ifdef LF_ASAN
  buf = (uint8_t *)malloc(blen);
  if (!buf) buf = (uint8_t *)malloc(1);
#else
  buf = (uint8_t *)malloc(blen + GUARD);
  memset(buf, 0xA5, blen + GUARD);
#endif
  if (lkidx < 0) st = coap_print_wellknown(ctx, buf, &l, off, filter);
  else st = coap_print_link(res[lkidx], buf, &l, &o);
  w->overrun = 0;
#ifndef LF_ASAN
  for (size_t k = 0; k < GUARD; k++)
    if (buf[blen + k] != 0xA5) w->overrun = 1;
#endif
  w->flag = (st & COAP_PRINT_STATUS_ERROR) ? 'E' : (st & COAP_PRINT_STATUS_TRUNC) ? 'T' : '0';
  w->count = (st & COAP_PRINT_STATUS_ERROR) ? 0 : COAP_PRINT_OUTPUT_LENGTH(st);
  w->total = (st & COAP_PRINT_STATUS_ERROR) ? 0 : l;
  w->newoff = o;
  if (w->count > blen) { w->overrun = 1; w->count = blen; }
  if (!wbuf || w->count > wbuf_cap) {
    wbuf_cap = w->count * 2 + 64;
    wbuf = (uint8_t *)realloc(wbuf, wbuf_cap);
  }
  if (w->count) memcpy(wbuf, buf, w->count);
  w->bytes = wbuf;
  free(buf);
}

static void run_case(int lkidx, int i) {
  coap_string_t *filter = NULL;
  win_t w;
  size_t L, fulln;
  uint8_t *full;
  if (lkidx >= nres) { puts("ERROR link index"); return; }
  if (i < vntok && !strcmp(vtok[i], "F")) { filter = filter_of_tok(vtok[i + 1]); i += 2; }
  if (i >= vntok || strcmp(vtok[i], "W")) { puts("ERROR no W"); goto out; }
  /* what the GET handler does first: size probe with an empty buffer at offset UINT_MAX */
  one_window(lkidx, filter, (size_t)UINT_MAX, 0, &w);
  if (w.flag == 'E') { puts("n=ERR"); goto out; }
  L = w.total;
  printf("n=%zu", L);
  if (!strcmp(vtok[i + 1], "list")) {
    for (i += 2; i + 1 < vntok; i += 2) {
      size_t off = (size_t)strtoul(vtok[i], NULL, 10), bl = (size_t)strtoul(vtok[i + 1], NULL, 10);
      one_window(lkidx, filter, off, bl, &w);
      printf(" w=%zu,%zu:", off, bl);
      hex_full(stdout, w.bytes, w.count);
      printf(",%zu,%c", w.total, w.flag);
      if (lkidx >= 0) printf(",%zu", w.newoff);
      if (w.overrun) fputs(",OVERRUN", stdout);
    }
    fputc('\n', stdout);
    goto out;
  }
  /* full text with a large buffer */
  one_window(lkidx, filter, 0, L + 64, &w);
  fulln = w.count;
  full = (uint8_t *)malloc(fulln + 1);
  if (fulln) memcpy(full, w.bytes, fulln);
  fputs(" full=", stdout);
  hex_full(stdout, full, fulln);
  {
    char bad[160];
    unsigned long cnt = 0;
    bad[0] = 0;
    if (fulln != L || w.flag != '0')
      snprintf(bad, sizeof(bad), "FAIL:full(count=%zu,total=%zu,flag=%c)", fulln, w.total, w.flag);
    dig = 0x811c9dc5u;
    for (size_t off = 0; off <= L + 2; off++) {
      for (size_t bl = 0; bl <= L + 2; bl++) {
        one_window(lkidx, filter, off, bl, &w);
        cnt++;
        for (size_t k = 0; k < w.count; k++) dig_byte(w.bytes[k]);
        dig_num(w.count);
        dig_num(w.total);
        dig_byte((unsigned)w.flag);
        if (lkidx >= 0) dig_num(w.newoff);
        if (!bad[0]) {
          /* oracle on the implementation's own output */
          size_t avail = off < fulln ? fulln - off : 0;
          size_t want = avail < bl ? avail : bl;
          const char *why = NULL;
          if (w.overrun) why = "overrun";
          else if (w.flag == 'E') why = "error";
          else if (w.count != want) why = "count";
          else if (want && memcmp(w.bytes, full + off, want)) why = "bytes";
          else if (w.total != L) why = "total";
          else if (bl > 0 && (w.flag == 'T') != (off + bl < L)) why = "trunc";
          else if (lkidx >= 0 && bl > 0 && w.newoff != (off < L ? 0 : off - L)) why = "newoff";
          if (why) snprintf(bad, sizeof(bad), "FAIL:%s@%zu,%zu", why, off, bl);
        }
      }
    }
    printf(" dig=%08x cnt=%lu oracle=%s\n", dig, cnt, bad[0] ? bad : "ok");
  }
  free(full);
out:
  if (filter) { free(filter->s); free(filter); }
}


/* ------------------------------------------------------------------ GET through the server
 *   lfget <mode> { table ops }  { F <query> }*  { B <szx> }*
 * <mode> bit 0: COAP_BLOCK_USE_LIBCOAP (else block mode 0, the default); bit 1: the server's
 * block size is capped at 64 (coap_context_set_max_block_size); bit 2: the client is a libcoap
 * client session with COAP_BLOCK_USE_LIBCOAP | COAP_BLOCK_SINGLE_BODY instead of the raw client.  <query>: "~" no
 * Uri-Query option, else one Uri-Query option with these bytes (several F: several options).
 * A server endpoint is bound to 127.0.0.1:0; the harness is the client and speaks raw CoAP over a
 * connected UDP socket: one GET without Block2, then for each B <szx> a block-wise GET starting
 * with Block2 = 0/0/szx and continuing (with the size the server answers with) until More is
 * clear.  Output: "205 <body> b<szx>=<reassembled body>.. oracle=..".  The oracle checks per
 * block: code 2.05, Content-Format 40, block number echoed, every block but the last full. */
static size_t put_opt(uint8_t *o, unsigned delta, const uint8_t *v, size_t n) {
  size_t k = 1;
  unsigned dn = delta < 13 ? delta : delta < 269 ? 13 : 14;
  unsigned ln = n < 13 ? (unsigned)n : n < 269 ? 13 : 14;
  o[0] = (uint8_t)(dn << 4 | ln);
  if (dn == 13) o[k++] = (uint8_t)(delta - 13);
  else if (dn == 14) { o[k++] = (uint8_t)((delta - 269) >> 8); o[k++] = (uint8_t)(delta - 269); }
  if (ln == 13) o[k++] = (uint8_t)(n - 13);
  else if (ln == 14) { o[k++] = (uint8_t)((n - 269) >> 8); o[k++] = (uint8_t)(n - 269); }
  if (n) memcpy(o + k, v, n);
  return k + n;
}

static uint16_t g_mid = 0x1000;
static uint16_t g_tok = 1;

/* one request/response; with_block < 0: no Block2 option. returns response length or -1 */
#define MAXQ 8
static uint8_t *g_q[MAXQ];
static size_t g_qn[MAXQ];
static int g_nq;
static int g_skip_q;     /* send the next request without the Uri-Query options */

static ssize_t exchange(int fd, const uint8_t *q, size_t qn, int has_q, int with_block,
                        unsigned num, unsigned szx, uint8_t *resp, size_t cap) {
  uint8_t req[2048];
  size_t n = 0;
  struct pollfd pf;
  req[n++] = 0x42;                       /* ver 1, CON, TKL 2 */
  req[n++] = 0x01;                       /* GET */
  g_mid++;
  req[n++] = (uint8_t)(g_mid >> 8); req[n++] = (uint8_t)g_mid;
  req[n++] = (uint8_t)(g_tok >> 8); req[n++] = (uint8_t)g_tok;
  n += put_opt(req + n, 11, (const uint8_t *)".well-known", 11);
  n += put_opt(req + n, 0, (const uint8_t *)"core", 4);
  (void)q; (void)qn;
  for (int k = 0; k < (g_skip_q ? 0 : g_nq); k++) n += put_opt(req + n, k ? 0 : 4, g_q[k], g_qn[k]);
  if (with_block >= 0) {
    uint8_t bv[3];
    unsigned long v = ((unsigned long)num << 4) | szx;
    size_t bl = v == 0 ? 0 : v < 256 ? 1 : v < 65536 ? 2 : 3;
    for (size_t i = 0; i < bl; i++) bv[i] = (uint8_t)(v >> (8 * (bl - 1 - i)));
    n += put_opt(req + n, (has_q && !g_skip_q) ? 8 : 12, bv, bl);
  }
  if (send(fd, req, n, 0) != (ssize_t)n) return -1;
  for (int tries = 0; tries < 3000; tries++) {     /* waits for the answer (60 s), not for a time budget */
    coap_io_process(ctx, COAP_IO_NO_WAIT);
    pf.fd = fd; pf.events = POLLIN; pf.revents = 0;
    if (poll(&pf, 1, tries ? 20 : 0) > 0) {
      ssize_t r = recv(fd, resp, cap, 0);
      if (r >= 4 && resp[2] == (uint8_t)(g_mid >> 8) && resp[3] == (uint8_t)g_mid) return r;
    }
  }
  return -1;
}

/* a whole (possibly block-wise) GET; first request carries Block2 0/0/szx when szx >= 0 */
static int g_rounds;
static int fetch(int fd, const uint8_t *q, size_t qn, int has_q, int szx,
                 uint8_t **body, size_t *blen, char *bad, size_t badn) {
  uint8_t resp[4096];
  size_t got = 0, cap = 256;
  uint8_t *b = (uint8_t *)malloc(cap);
  unsigned num = 0;
  int with_block = szx >= 0 ? 1 : -1;
  unsigned cur_szx = szx >= 0 ? (unsigned)szx : 6;
  g_tok++;
  g_rounds = 0;
  for (int round = 0; round < 100000; round++) {
    coap_pdu_t *p;
    coap_block_t blk;
    coap_opt_iterator_t oi;
    coap_opt_t *cf;
    size_t dl = 0;
    const uint8_t *data = NULL;
    int hasb;
    ssize_t r = exchange(fd, q, qn, has_q, with_block, num, cur_szx, resp, sizeof(resp));
    if (r < 0) { snprintf(bad, badn, "FAIL:no-response(num=%u)", num); free(b); return -1; }
    g_rounds++;
    p = coap_pdu_init(0, 0, 0, (size_t)r);
    if (!p || !coap_pdu_parse(COAP_PROTO_UDP, resp, (size_t)r, p)) {
      snprintf(bad, badn, "FAIL:unparsable-response"); free(b); return -1;
    }
    if (coap_pdu_get_code(p) != COAP_RESPONSE_CODE(205)) {
      int c = coap_pdu_get_code(p);
      coap_delete_pdu(p); free(b);
      return (c >> 5) * 100 + (c & 31);
    }
    cf = coap_check_option(p, COAP_OPTION_CONTENT_FORMAT, &oi);
    if (!bad[0] && (!cf || coap_decode_var_bytes(coap_opt_value(cf), coap_opt_length(cf)) != 40))
      snprintf(bad, badn, "FAIL:content-format");
    coap_get_data(p, &dl, &data);
    hasb = coap_get_block(p, COAP_OPTION_BLOCK2, &blk);
    if (got + dl + 1 > cap) { cap = (got + dl) * 2 + 64; b = (uint8_t *)realloc(b, cap); }
    if (dl) memcpy(b + got, data, dl);
    if (hasb) {
      size_t sz = (size_t)1 << (blk.szx + 4);
      if (!bad[0] && got != (size_t)blk.num * sz)
        snprintf(bad, badn, "FAIL:block-num(%u*%zu!=%zu)", blk.num, sz, got);
      if (!bad[0] && blk.m && dl != sz) snprintf(bad, badn, "FAIL:short-block(num=%u,len=%zu)", blk.num, dl);
      if (!bad[0] && dl > sz) snprintf(bad, badn, "FAIL:long-block(num=%u,len=%zu)", blk.num, dl);
      if (!bad[0] && szx >= 0 && blk.szx > (unsigned)szx) snprintf(bad, badn, "FAIL:bigger-block-than-asked");
      if (!bad[0] && round > 0 && blk.szx != cur_szx) snprintf(bad, badn, "FAIL:block-size-changed(num=%u)", blk.num);
      got += dl;
      if (!blk.m) { coap_delete_pdu(p); break; }
      cur_szx = blk.szx;
      num = (unsigned)(got / sz);
      with_block = 1;
    } else {
      got += dl;
      coap_delete_pdu(p);
      break;
    }
    coap_delete_pdu(p);
  }
  *body = b;
  *blen = got;
  return 205;
}


/* ---- the same GET issued by a libcoap client (mode bit 2^2): second context with
 * COAP_BLOCK_USE_LIBCOAP | COAP_BLOCK_SINGLE_BODY, a client session to the server endpoint;
 * the response handler receives the reassembled body. */
static uint8_t *cl_body;
static size_t cl_len, cl_cap;
static int cl_done, cl_code;

static coap_response_t cl_handler(coap_session_t *s, const coap_pdu_t *sent, const coap_pdu_t *rcv,
                                  const coap_mid_t mid) {
  size_t len = 0, off = 0, total = 0;
  const uint8_t *data = NULL;
  (void)s; (void)sent; (void)mid;
  cl_code = coap_pdu_get_code(rcv);
  if (coap_get_data_large(rcv, &len, &data, &off, &total)) {
    if (off + len > cl_cap) { cl_cap = (off + len) * 2 + 64; cl_body = (uint8_t *)realloc(cl_body, cl_cap); }
    memcpy(cl_body + off, data, len);
    if (off + len > cl_len) cl_len = off + len;
    if (off + len >= total) cl_done = 1;
  } else {
    cl_done = 1;
  }
  return COAP_RESPONSE_OK;
}

/* returns the response code as decimal (205), body in cl_body/cl_len */
static int client_fetch(coap_context_t *cctx, coap_session_t *sess, int szx) {
  coap_pdu_t *pdu = coap_new_pdu(COAP_MESSAGE_CON, COAP_REQUEST_CODE_GET, sess);
  uint8_t tok[8], bv[1];
  size_t tl = 0;
  if (!pdu) return -1;
  coap_session_new_token(sess, &tl, tok);
  coap_add_token(pdu, tl, tok);
  coap_add_option(pdu, COAP_OPTION_URI_PATH, 11, (const uint8_t *)".well-known");
  coap_add_option(pdu, COAP_OPTION_URI_PATH, 4, (const uint8_t *)"core");
  for (int k = 0; k < g_nq; k++) coap_add_option(pdu, COAP_OPTION_URI_QUERY, g_qn[k], g_q[k]);
  if (szx >= 0) {
    bv[0] = (uint8_t)szx;
    coap_add_option(pdu, COAP_OPTION_BLOCK2, szx ? 1 : 0, bv);
  }
  cl_len = 0; cl_done = 0; cl_code = 0;
  if (coap_send(sess, pdu) == COAP_INVALID_MID) return -1;
  for (int it = 0; it < 400000 && !cl_done; it++) {
    coap_io_process(ctx, COAP_IO_NO_WAIT);
    coap_io_process(cctx, it % 8 == 7 ? 2 : COAP_IO_NO_WAIT);
  }
  if (!cl_done) return -1;
  return (cl_code >> 5) * 100 + (cl_code & 31);
}

static void run_get(int i) {
  int mode = atoi(vtok[1]);
  coap_address_t addr;
  coap_endpoint_t *ep;
  struct sockaddr_in sa;
  socklen_t sl = sizeof(sa);
  int fd, has_q = 0, code;
  uint8_t *q = NULL, *body = NULL;
  size_t qn = 0, bn = 0;
  char bad[160], blocks[400];
  size_t bo = 0;
  bad[0] = 0;
  blocks[0] = 0;
  if (mode & 1) coap_context_set_block_mode(ctx, COAP_BLOCK_USE_LIBCOAP);
  if (mode & 2) coap_context_set_max_block_size(ctx, 64);   /* the server caps the block size */
  coap_address_init(&addr);
  addr.addr.sin.sin_family = AF_INET;
  addr.addr.sin.sin_addr.s_addr = htonl(INADDR_LOOPBACK);
  addr.addr.sin.sin_port = 0;
  addr.size = sizeof(struct sockaddr_in);
  ep = coap_new_endpoint(ctx, &addr, COAP_PROTO_UDP);
  if (!ep) { puts("ERROR endpoint"); return; }
  if (getsockname(ep->sock.fd, (struct sockaddr *)&sa, &sl) < 0) { puts("ERROR getsockname"); return; }
  fd = socket(AF_INET, SOCK_DGRAM, 0);
  if (fd < 0 || connect(fd, (struct sockaddr *)&sa, sizeof(sa)) < 0) { puts("ERROR client socket"); return; }
  g_nq = 0;
  while (i + 1 < vntok && !strcmp(vtok[i], "F")) {
    if (strcmp(vtok[i + 1], "~") && g_nq < MAXQ) {
      g_q[g_nq] = bytes_of_tok(vtok[i + 1], &g_qn[g_nq]);
      g_nq++;
      has_q = 1;
    }
    i += 2;
  }
  if (mode & 4) {
    coap_context_t *cctx = coap_new_context(NULL);
    coap_address_t dst;
    coap_session_t *sess;
    coap_address_init(&dst);
    dst.addr.sin = sa;
    dst.size = sizeof(struct sockaddr_in);
    coap_context_set_block_mode(cctx, COAP_BLOCK_USE_LIBCOAP | COAP_BLOCK_SINGLE_BODY);
    coap_register_response_handler(cctx, cl_handler);
    sess = coap_new_client_session(cctx, NULL, &dst, COAP_PROTO_UDP);
    if (!sess) { puts("ERROR client session"); coap_free_context(cctx); goto out; }
    code = client_fetch(cctx, sess, -1);
    if (code != 205) {
      if (code < 0) printf("NORESPONSE oracle=FAIL:client\n"); else printf("%d\n", code);
    } else {
      fputs("205 ", stdout);
      hex_full(stdout, cl_body, cl_len);
      bo += (size_t)snprintf(blocks + bo, sizeof(blocks) - bo, "0");
      for (; i + 1 < vntok && !strcmp(vtok[i], "B"); i += 2) {
        int szx = atoi(vtok[i + 1]);
        code = client_fetch(cctx, sess, szx);
        if (code != 205) { printf(" b%d=CODE%d", szx, code); continue; }
        printf(" b%d=", szx);
        hex_full(stdout, cl_body, cl_len);
        if (bo + 16 < sizeof(blocks)) bo += (size_t)snprintf(blocks + bo, sizeof(blocks) - bo, ",0");
      }
      printf(" blocks=%s oracle=ok\n", blocks);
    }
    coap_session_release(sess);
    coap_free_context(cctx);
    goto out;
  }
  if (has_q) {
    /* an unfinished block-wise GET of the UNFILTERED listing on the same session first (first
     * 16-byte block only, answer discarded): the filtered transfers that follow must not be
     * served from that transfer's state */
    uint8_t tmp[2048];
    g_skip_q = 1;
    g_tok++;
    (void)exchange(fd, q, qn, has_q, 1, 0, 0, tmp, sizeof(tmp));
    g_skip_q = 0;
  }
  code = fetch(fd, q, qn, has_q, -1, &body, &bn, bad, sizeof(bad));
  if (code != 205) {
    if (code < 0) printf("NORESPONSE oracle=%s\n", bad); else printf("%d\n", code);
    goto out;
  }
  fputs("205 ", stdout);
  hex_full(stdout, body, bn);
  free(body);
  bo += (size_t)snprintf(blocks + bo, sizeof(blocks) - bo, "%d", g_rounds);
  for (; i + 1 < vntok && !strcmp(vtok[i], "B"); i += 2) {
    int szx = atoi(vtok[i + 1]);
    code = fetch(fd, q, qn, has_q, szx, &body, &bn, bad, sizeof(bad));
    if (code != 205) { printf(" b%d=CODE%d", szx, code); continue; }
    printf(" b%d=", szx);
    hex_full(stdout, body, bn);
    free(body);
    if (bo + 16 < sizeof(blocks)) bo += (size_t)snprintf(blocks + bo, sizeof(blocks) - bo, ",%d", g_rounds);
  }
  printf(" blocks=%s oracle=%s\n", blocks, bad[0] ? bad : "ok");
out:
  close(fd);
  free(q);
  for (int k = 0; k < g_nq; k++) free(g_q[k]);
  g_nq = 0;
}

int main(void) {
  coap_startup();
  coap_set_log_level(COAP_LOG_EMERG);
  while (next_case(stdin)) {
    int lk = -1, i = 1;
    if (vntok == 0) { puts(""); continue; }
    if (!strcmp(vtok[0], "lfconst")) {
      printf("max=%lu uint=%lu wk=", (unsigned long)COAP_PRINT_STATUS_MAX, (unsigned long)UINT_MAX);
      hex_full(stdout, (const uint8_t *)COAP_DEFAULT_URI_WELLKNOWN, sizeof(COAP_DEFAULT_URI_WELLKNOWN) - 1);
      fputc('\n', stdout);
      fflush(stdout);
      continue;
    }
    if (!strcmp(vtok[0], "lfget")) {
      i = build_table(2);
      if (i < 0) { puts("ERROR no context"); continue; }
      run_get(i);
      coap_free_context(ctx);
      ctx = NULL;
      fflush(stdout);
      continue;
    }
    if (!strcmp(vtok[0], "lflk")) { lk = atoi(vtok[1]); i = 2; }
    else if (strcmp(vtok[0], "lfwk")) { puts("ERROR unknown command"); continue; }
    i = build_table(i);
    if (i < 0) { puts("ERROR no context"); continue; }
    run_case(lk, i);
    coap_free_context(ctx);
    ctx = NULL;
    fflush(stdout);
  }
  coap_cleanup();
  return 0;
}

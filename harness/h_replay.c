/* C15 driver: OSCORE anti-replay state of a recipient context and the sender sequence number,
 * on the real code.  One case per line; same output format as ocaml/d_replay.ml.
 *
 *   rpc
 *        -> seqmax=<hex> defwin=<dec>            compiled OSCORE_SEQ_MAX, default replay window
 *
 *   rpu <variant> <Wcfg> { v<hexseq> | r }*
 *        unit level: a server context is created from a text configuration with
 *        replay_window = Wcfg (coap_new_oscore_conf + coap_context_oscore_server); the ops call
 *        oscore_validate_sender_seq / oscore_roll_back_seq on its recipient context.
 *        -> per op  <ret|->,<last_seq>,<window>,<rollback_last_seq>,<rollback_window>,<initial>
 *
 *   rpd <variant> <Wcfg> <b12> <con> { <kind><hexseq> }*
 *        request level: every message is a datagram delivered to a server (context + UDP
 *        endpoint + session + resource) through coap_handle_dgram, i.e. coap_pdu_parse,
 *        coap_dispatch, coap_oscore_decrypt_pdu and the request handler run unmodified.
 *        Genuine messages are produced by a client context of the same security context with
 *        coap_oscore_new_pdu_encrypted after setting its sender sequence number.
 *        kinds: g genuine | e genuine with Echo = the server's current echo_value |
 *               x genuine with a wrong Echo | f genuine with the last tag byte flipped |
 *               F protected under another master secret | P Partial IV bytes of a genuine
 *               message overwritten with <hexseq> | S<hexseq>.<len> genuine with the ciphertext
 *               cut to <len> bytes (shorter than, equal to, longer than the tag; 0: no payload)
 *               | M payload marker with nothing behind it | A<hexseq>.<k> tag flipped and the
 *               k-th memory allocation during its processing fails (verdict printed as *)
 *               | K genuine with the kid changed (no security
 *               context) | O genuine with a reserved flag bit set in the OSCORE option
 *        A token that occurred earlier in the same case re-delivers the very same datagram (a
 *        replay on the wire).
 *        A token with a leading '2' comes from a second client (sender id 03); the server has
 *        two recipient contexts (ids 02 and 03).  +<hexid> / -<hexid>: the application calls
 *        coap_new_oscore_recipient / coap_delete_oscore_recipient for that one byte id between
 *        the deliveries (result: <return value>,<fields of 02>/<fields of 03>, "-,-,-" = no
 *        such recipient).
 *        -> per message  <A|R|D|C|E|N|?code>,<last_seq>,<window>,<initial>/<the same three
 *           fields of the second recipient context>[~o<hexpiv>#<hash> | ~r#<hash>]
 *           the suffix: the server sent a protected datagram; it used a Partial IV of its own
 *           (~o) or the nonce of the request (~r); hash of the ciphertext
 *           A handler ran; R 4.01 unprotected; D 4.00; C protected reply, handler did not run;
 *           N 4.02, or 4.01 "Security context not found";
 *           E nothing (or an empty ACK) sent
 *
 *   sst <freq> <hexstart> { p | c<freq> }*
 *        sender: p = protect one request (Partial IV read from the OSCORE option of the result,
 *        value given to the save callback); c<freq> = drop the context and create a new one
 *        with start_seq_num = the value last given to the callback (else the configured start)
 *        -> per op  <hexpiv|->/<hexsaved|->
 *
 *   rpe <Wcfg> <b12> <con> <nreq> <replay> [<ssn_freq> <restart_every> [<hexjump>]]
 *        whole exchange through the public client API: <nreq> times coap_send() of GET /r on an
 *        OSCORE client session; every datagram either side hands to coap_socket_send is carried
 *        to the other side's coap_handle_dgram until nothing is in flight (Appendix B.1.2: the
 *        4.01 + Echo challenge and the client's automatic retransmission included).
 *        -> per client datagram  <g|e><hexpiv>:<verdict>,<last_seq>,<window>,<initial>
 *           (e = sent by the client while it was processing a datagram from the server;
 *           restart_every = k > 0: before request k, 2k, .. the client context is destroyed and
 *           a new one created with start_seq_num = the value last given to save_seq_num_func;
 *           hexjump: before the third request the client's sender sequence number is raised by
 *           that much; replay & 1: after every request all client datagrams recorded so far are delivered
 *           again, tag r; replay & 2: before that, each with its last byte changed, tag f), then
 *           " | handler=<n> responses=<n> ok=<number of 2.05> spivdup=<server Partial IVs seen twice on the wire> codes=<list, may be cut>"
 *
 * <variant> names the model variant; it means nothing to the C code.
 */
#include "coap3/coap_libcoap_build.h"
#ifdef RP_INCLUDE_OSCORE_C
/* second build of this driver: src/oscore/oscore.c is compiled as part of this translation
 * unit with -fsanitize=shift, so that a shift by >= 64 in oscore_validate_sender_seq aborts
 * (the archive member is then not linked: every symbol of it is defined here) */
#include "oscore/oscore.c"
#endif
#include "oscore/oscore.h"
#include "oscore/oscore_context.h"
#include "oscore/oscore_cose.h"
#include "common/util.h"
#include <arpa/inet.h>
#include <inttypes.h>

/* ------------------------------------------------------------------ captured output */
#define MAXCAP 64
static uint8_t cap_buf[MAXCAP][2048];
static size_t cap_len[MAXCAP];
static coap_session_t *cap_sess[MAXCAP];
static int ncap;

ssize_t __wrap_coap_socket_send(coap_socket_t *sock, coap_session_t *session,
                                const uint8_t *data, size_t datalen) {
  (void)sock;
  if (ncap < MAXCAP && datalen <= sizeof(cap_buf[0])) {
    memcpy(cap_buf[ncap], data, datalen);
    cap_len[ncap] = datalen;
    cap_sess[ncap] = session;
    ncap++;
  }
  return (ssize_t)datalen;
}

/* ------------------------------------------------------------------ allocation failures */
/* fail_alloc_at = k > 0: the k-th coap_malloc_type() from now on returns NULL (once) */
static int fail_alloc_at, alloc_count;
void *__real_coap_malloc_type(coap_memory_tag_t type, size_t size);
void *__wrap_coap_malloc_type(coap_memory_tag_t type, size_t size) {
  if (fail_alloc_at > 0 && ++alloc_count == fail_alloc_at) return NULL;
  return __real_coap_malloc_type(type, size);
}

/* ------------------------------------------------------------------ contexts */
static const char *SECRET_A = "0102030405060708090a0b0c0d0e0f10";
static const char *SECRET_B = "1102030405060708090a0b0c0d0e0f10";

static void loop_addr(coap_address_t *a, uint16_t port) {
  coap_address_init(a);
  a->size = sizeof(struct sockaddr_in);
  a->addr.sin.sin_family = AF_INET;
  a->addr.sin.sin_addr.s_addr = htonl(INADDR_LOOPBACK);
  a->addr.sin.sin_port = htons(port);
}

static coap_oscore_conf_t *make_conf(const char *secret, const char *sid, const char *rid,
                                     const char *extra, coap_oscore_save_seq_num_t cb,
                                     void *param, uint64_t start) {
  char txt[512];
  coap_str_const_t mem;
  snprintf(txt, sizeof(txt),
           "master_secret,hex,\"%s\"\nmaster_salt,hex,\"9e7ca92223786340\"\n"
           "id_context,hex,\"37cbf3210017a2d3\"\nsender_id,hex,\"%s\"\nrecipient_id,hex,\"%s\"\n%s",
           secret, sid, rid, extra);
  mem.s = (const uint8_t *)txt;
  mem.length = strlen(txt);
  return coap_new_oscore_conf(mem, cb, param, start);
}

/* server side */
static coap_context_t *sctx;
static coap_endpoint_t *sep;
static coap_session_t *ssess;
static oscore_recipient_ctx_t *rcp, *rcp2;   /* recipient ids 02 and 03 */

/* the recipient context a request with this (one byte) kid is checked against: the first entry
 * of the chain with that id, as oscore_find_context does it */
static oscore_recipient_ctx_t *find_rcp(uint8_t id) {
  if (!sctx || !sctx->p_osc_ctx) return NULL;
  for (oscore_recipient_ctx_t *r = sctx->p_osc_ctx->recipient_chain; r; r = r->next_recipient)
    if (r->recipient_id->length == 1 && r->recipient_id->s[0] == id) return r;
  return NULL;
}

static void print_rcp3(oscore_recipient_ctx_t *r) {
  if (r) printf("%" PRIx64 ",%" PRIx64 ",%d", r->last_seq, r->sliding_window, r->initial_state);
  else printf("-,-,-");
}
static int handler_calls;

static void hnd_get(coap_resource_t *r, coap_session_t *s, const coap_pdu_t *req,
                    const coap_string_t *q, coap_pdu_t *resp) {
  (void)r; (void)s; (void)req; (void)q;
  handler_calls++;
  coap_pdu_set_code(resp, COAP_RESPONSE_CODE_CONTENT);
}

static int server_up(const char *wcfg, int b12, int with_net) {
  char extra[128];
  coap_oscore_conf_t *conf;
  /* Wcfg "-" / b12 2: the line is left out of the configuration (library defaults) */
  snprintf(extra, sizeof(extra), "recipient_id,hex,\"03\"\n%s%s%s%s%s%s",
           strcmp(wcfg, "-") ? "replay_window,integer," : "", strcmp(wcfg, "-") ? wcfg : "",
           strcmp(wcfg, "-") ? "\n" : "",
           b12 == 2 ? "" : "rfc8613_b_1_2,bool,", b12 == 2 ? "" : (b12 ? "true" : "false"),
           b12 == 2 ? "" : "\n");
  sctx = coap_new_context(NULL);
  if (!sctx) return 0;
  conf = make_conf(SECRET_A, "01", "02", extra, NULL, NULL, 0);
  if (!conf || !coap_context_oscore_server(sctx, conf)) return 0;
  if (!sctx->p_osc_ctx || !sctx->p_osc_ctx->recipient_chain) return 0;
  rcp = rcp2 = NULL;
  for (oscore_recipient_ctx_t *r = sctx->p_osc_ctx->recipient_chain; r; r = r->next_recipient) {
    if (r->recipient_id->length == 1 && r->recipient_id->s[0] == 0x02) rcp = r;
    if (r->recipient_id->length == 1 && r->recipient_id->s[0] == 0x03) rcp2 = r;
  }
  if (!rcp || !rcp2) return 0;
  handler_calls = 0;
  ssess = NULL;
  sep = NULL;
  if (with_net) {
    coap_address_t a, peer;
    coap_packet_t pkt;
    coap_tick_t now;
    coap_resource_t *res = coap_resource_init(coap_make_str_const("r"), 0);
    coap_register_request_handler(res, COAP_REQUEST_GET, hnd_get);
    coap_add_resource(sctx, res);
    loop_addr(&a, 0);
    sep = coap_new_endpoint(sctx, &a, COAP_PROTO_UDP);
    if (!sep) return 0;
    loop_addr(&peer, 40001);
    memset(&pkt, 0, sizeof(pkt));
    coap_address_copy(&pkt.addr_info.remote, &peer);
    coap_address_copy(&pkt.addr_info.local, &sep->bind_addr);
    coap_ticks(&now);
    coap_lock_lock(sctx, return 0);
    ssess = coap_endpoint_get_session(sep, &pkt, now);
    if (ssess) coap_session_reference_lkd(ssess);
    coap_lock_unlock(sctx);
    if (!ssess) return 0;
  }
  return 1;
}

static void server_down(void) {
  if (ssess) coap_session_release(ssess);
  ssess = NULL;
  if (sctx) coap_free_context(sctx);
  sctx = NULL;
  rcp = NULL;
}

/* client side (two of them: the genuine one and one with another master secret) */
typedef struct {
  coap_context_t *ctx;
  coap_session_t *sess;
} client_t;

static uint64_t saved_val;
static int saved_flag;
static int save_cb(uint64_t v, void *param) {
  (void)param;
  saved_val = v;
  saved_flag = 1;
  return 1;
}

static const char *client_sid = "02";
static int client_up(client_t *c, const char *secret, const char *extra,
                     coap_oscore_save_seq_num_t cb, uint64_t start) {
  coap_address_t srv;
  coap_oscore_conf_t *conf;
  c->ctx = coap_new_context(NULL);
  if (!c->ctx) return 0;
  /* needed for the automatic retransmission with Echo (Appendix B.1.2, RFC 9175) */
  coap_context_set_block_mode(c->ctx, COAP_BLOCK_USE_LIBCOAP);
  conf = make_conf(secret, client_sid, "01", extra, cb, NULL, start);
  if (!conf) return 0;
  loop_addr(&srv, 5683);
  c->sess = coap_new_client_session_oscore(c->ctx, NULL, &srv, COAP_PROTO_UDP, conf);
  return c->sess != NULL;
}

static void client_down(client_t *c) {
  if (c->sess) coap_session_release(c->sess);
  if (c->ctx) coap_free_context(c->ctx);
  c->ctx = NULL;
  c->sess = NULL;
}

static oscore_sender_ctx_t *client_sender(client_t *c) {
  return c->sess->recipient_ctx->osc_ctx->sender_context;
}

/* protect GET /r with the current sender sequence number; returns the datagram */
static size_t client_protect(client_t *c, int con, unsigned tok, const uint8_t *echo,
                             size_t echo_len, uint8_t *out, size_t outcap) {
  coap_pdu_t *pdu, *osc;
  uint8_t t[2];
  size_t n = 0;
  pdu = coap_pdu_init(con ? COAP_MESSAGE_CON : COAP_MESSAGE_NON, COAP_REQUEST_CODE_GET,
                      (coap_mid_t)(tok & 0xffff), 256);
  if (!pdu) return 0;
  t[0] = (uint8_t)(tok >> 8);
  t[1] = (uint8_t)tok;
  coap_add_token(pdu, 2, t);
  coap_add_option(pdu, COAP_OPTION_URI_PATH, 1, (const uint8_t *)"r");
  if (echo) coap_add_option(pdu, COAP_OPTION_ECHO, echo_len, echo);
  osc = coap_oscore_new_pdu_encrypted(c->sess, pdu, NULL, 0);
  coap_delete_pdu(pdu);
  if (!osc) return 0;
  if (coap_pdu_encode_header(osc, COAP_PROTO_UDP)) {
    n = osc->hdr_size + osc->used_size;
    if (n <= outcap) memcpy(out, osc->token - osc->hdr_size, n);
    else n = 0;
  }
  coap_delete_pdu(osc);
  return n;
}

/* locate the OSCORE option value inside a serialised datagram */
static uint8_t *find_oscore_opt(uint8_t *dg, size_t n, size_t *vlen) {
  size_t i = 4 + (dg[0] & 0x0f);
  unsigned num = 0;
  while (i < n && dg[i] != 0xff) {
    unsigned d = dg[i] >> 4, l = dg[i] & 0x0f;
    i++;
    if (d == 13) d = 13 + dg[i++];
    else if (d == 14) { d = 269 + (dg[i] << 8) + dg[i + 1]; i += 2; }
    if (l == 13) l = 13 + dg[i++];
    else if (l == 14) { l = 269 + (dg[i] << 8) + dg[i + 1]; i += 2; }
    num += d;
    if (num == COAP_OPTION_OSCORE) { *vlen = l; return dg + i; }
    i += l;
  }
  return NULL;
}

/* "<kind><hexseq>[.<len>]" -> the number after the dot (dflt when absent) */
static int tok_len_suffix(const char *t, int dflt) {
  const char *d = strchr(t, '.');
  return d ? atoi(d + 1) : dflt;
}

/* S: cut the protected payload of a genuine datagram down to slen bytes (slen 0: no payload and
 * no marker); M: payload marker with nothing behind it.  OSCORE is the only outer option here,
 * so the marker follows its value. */
static size_t cut_payload(uint8_t *dg, size_t n, char kind, int slen) {
  size_t vl, idx;
  uint8_t *ov = find_oscore_opt(dg, n, &vl);
  if (!ov) return 0;
  idx = (size_t)(ov - dg) + vl;
  if (idx >= n || dg[idx] != 0xff) return 0;
  if (kind == 'M') return idx + 1;
  if (slen <= 0) return idx;
  if (idx + 1 + (size_t)slen > n) return 0;
  return idx + 1 + (size_t)slen;
}

/* Which AEAD nonce protected a datagram this node sent in reply (RFC 8613 5.2): its own Partial
 * IV when the OSCORE option carries one ("~o<piv>"), else the nonce of the request it answers
 * ("~r").  "#<hash>" = FNV-1a of the ciphertext: two different ciphertexts under one nonce are a
 * nonce reuse.  Writes "" when the datagram is not OSCORE protected. */
static void nonce_tag(const uint8_t *dg, size_t n, char *out, size_t outn) {
  size_t vl, idx;
  uint8_t *ov = find_oscore_opt((uint8_t *)dg, n, &vl);
  uint32_t h = 0x811c9dc5u;
  out[0] = 0;
  if (!ov || n < 4 || dg[1] == 0) return;
  idx = (size_t)(ov - dg) + vl;
  for (size_t i = idx; i < n; i++) h = (h ^ dg[i]) * 0x01000193u;
  if (vl > 0 && (ov[0] & 7)) {
    uint64_t piv = 0;
    for (int k = 0; k < (ov[0] & 7); k++) piv = (piv << 8) | ov[1 + k];
    snprintf(out, outn, "~o%" PRIx64 "#%08x", piv, h);
  } else {
    snprintf(out, outn, "~r#%08x", h);
  }
}

/* the protected datagrams captured from context ctx since capture index from */
static void nonce_tags_of_captures(coap_context_t *ctx, int from, char *out, size_t outn) {
  out[0] = 0;
  for (int k = from; k < ncap; k++) {
    char one[48];
    if (cap_sess[k]->context != ctx) continue;
    nonce_tag(cap_buf[k], cap_len[k], one, sizeof(one));
    if (strlen(out) + strlen(one) + 1 < outn) strcat(out, one);
  }
}

/* table for the drivers that check on their own (rpe): ident -> ciphertext hash */
#define MAXNONCE 512
static char nonce_ident[MAXNONCE][40];
static uint32_t nonce_hash[MAXNONCE];
static int n_nonce, nonce_dup;
static void nonce_note(const char *ident, uint32_t h) {
  for (int k = 0; k < n_nonce; k++)
    if (!strcmp(nonce_ident[k], ident)) {
      if (nonce_hash[k] != h) nonce_dup++;
      return;
    }
  if (n_nonce < MAXNONCE) {
    snprintf(nonce_ident[n_nonce], sizeof(nonce_ident[0]), "%s", ident);
    nonce_hash[n_nonce++] = h;
  }
}

static int seq_len(uint64_t v) {
  int n = 1;
  while (v >>= 8) n++;
  return n;
}

/* ------------------------------------------------------------------ rpu */
static void cmd_rpu(void) {
  if (vntok < 3 || !server_up(vtok[2], 1, 0)) { printf("SETUP-FAILED\n"); server_down(); return; }
  for (int i = 3; i < vntok; i++) {
    int ret = -1;
    if (vtok[i][0] == 'v') {
      uint64_t seq = strtoull(vtok[i] + 1, NULL, 16);
      uint8_t buf[8];
      cose_encrypt0_t cose[1];
      coap_bin_const_t piv;
      cose_encrypt0_init(cose);
      piv.length = coap_encode_var_safe8(buf, sizeof(buf), seq);
      piv.s = buf;
      cose_encrypt0_set_partial_iv(cose, &piv);
      ret = oscore_validate_sender_seq(rcp, cose);
    } else {
      oscore_roll_back_seq(rcp);
    }
    if (i > 3) putchar(' ');
    if (ret < 0) putchar('-'); else printf("%d", ret);
    printf(",%" PRIx64 ",%" PRIx64 ",%" PRIx64 ",%" PRIx64 ",%d", rcp->last_seq,
           rcp->sliding_window, rcp->rollback_last_seq, rcp->rollback_sliding_window,
           rcp->initial_state);
  }
  if (vntok == 3) printf("-");
  putchar('\n');
  server_down();
}

/* ------------------------------------------------------------------ rpd */
static int has_text(const uint8_t *b, size_t n, const char *t) {
  size_t l = strlen(t);
  for (size_t i = 0; i + l <= n; i++)
    if (!memcmp(b + i, t, l)) return 1;
  return 0;
}

static void classify(char *out, size_t outn, int calls_before) {
  if (handler_calls > calls_before) { snprintf(out, outn, "A"); return; }
  for (int k = 0; k < ncap; k++) {
    size_t vl;
    uint8_t *dg = cap_buf[k];
    if (cap_len[k] < 4) continue;
    if (dg[1] == 0) continue;                      /* empty ACK / RST */
    if (find_oscore_opt(dg, cap_len[k], &vl)) { snprintf(out, outn, "C"); return; }
    if (dg[1] == COAP_RESPONSE_CODE(402) || has_text(dg, cap_len[k], "Security context not found")) {
      snprintf(out, outn, "N");
      return;
    }
    if (dg[1] == COAP_RESPONSE_CODE(401)) { snprintf(out, outn, "R"); return; }
    if (dg[1] == COAP_RESPONSE_CODE(400)) { snprintf(out, outn, "D"); return; }
    snprintf(out, outn, "?%u%02u", dg[1] >> 5, dg[1] & 31);
    return;
  }
  snprintf(out, outn, "E");
}

#define MAXMSG 256
static uint8_t msg_buf[MAXMSG][160];
static size_t msg_len[MAXMSG];

static void cmd_rpd(void) {
  client_t good = {0}, bad = {0}, second = {0};
  int b12, con, ok;
  if (vntok < 5) { printf("BAD-CASE\n"); return; }
  b12 = atoi(vtok[3]);
  con = atoi(vtok[4]);
  ok = server_up(vtok[2], b12, 1) && client_up(&good, SECRET_A, "", NULL, 0) &&
       client_up(&bad, SECRET_B, "", NULL, 0);
  client_sid = "03";
  ok = ok && client_up(&second, SECRET_A, "", NULL, 0);
  client_sid = "02";
  if (!ok) {
    printf("SETUP-FAILED\n");
    goto done;
  }
  for (int i = 5; i < vntok; i++) {
    /* a leading '2' = the message comes from the second client (sender id 03) */
    int who = vtok[i][0] == '2';
    const char *mt = vtok[i] + who;
    oscore_recipient_ctx_t *rc;
    char kind = mt[0];
    static const uint8_t zero8[8];
    /* recipient management between the deliveries: +<id> coap_new_oscore_recipient,
     * -<id> coap_delete_oscore_recipient (one byte ids) */
    if (vtok[i][0] == '+' || vtok[i][0] == '-') {
      uint8_t idb = (uint8_t)strtoul(vtok[i] + 1, NULL, 16);
      int ret;
      if (vtok[i][0] == '+') {
        coap_bin_const_t *rid = coap_new_bin_const(&idb, 1);     /* owned by the library */
        ret = coap_new_oscore_recipient(sctx, rid);
      } else {
        coap_bin_const_t rid = { 1, &idb };
        ssess->recipient_ctx = NULL;          /* (the session may still point at the entry) */
        ret = coap_delete_oscore_recipient(sctx, &rid);
        /* datagrams made for the deleted context (their Echo is its echo_value) are not
         * re-used: the same token is generated anew for the next context */
        for (int j = 0; j < MAXMSG; j++) msg_len[j] = 0;
      }
      if (i > 5) putchar(' ');
      printf("%d,", ret);
      print_rcp3(find_rcp(0x02));
      putchar('/');
      print_rcp3(find_rcp(0x03));
      continue;
    }
    rc = find_rcp(who ? 0x03 : 0x02);
    uint64_t seq = strtoull(mt + 1, NULL, 16);
    uint8_t dg[512], echo[8];
    size_t n = 0, el = 0;
    const uint8_t *ep = NULL;
    client_t *c = (kind == 'F') ? &bad : (who ? &second : &good);
    uint64_t gen_seq = seq;
    char verdict[16];
    int before, prev = -1;
    for (int j = 5; j < i && j - 5 < MAXMSG; j++)
      if (!strcmp(vtok[j], vtok[i]) && msg_len[j - 5]) { prev = j - 5; break; }
    if (i - 5 < MAXMSG) msg_len[i - 5] = 0;
    /* e / x mean "Echo equal to / different from the context's current echo_value": while that
     * still matters (no context, or context in its initial state) the datagram is made anew */
    if ((kind == 'e' || kind == 'x') && (!rc || rc->initial_state)) prev = -1;
    if (prev >= 0) {
      n = msg_len[prev];
      memcpy(dg, msg_buf[prev], n);
      goto deliver;
    }
    if (kind == 'e') { memcpy(echo, rc ? rc->echo_value : zero8, 8); ep = echo; el = 8; }
    if (kind == 'x') { memcpy(echo, rc ? rc->echo_value : zero8, 8); echo[0] ^= 0x5a; ep = echo; el = 8; }
    if (kind == 'P') gen_seq = (seq >= OSCORE_SEQ_MAX - 2) ? seq - 2 : (seq ^ 1);
    client_sender(c)->seq = gen_seq;
    n = client_protect(c, con, (unsigned)(i * 7 + 1), ep, el, dg, sizeof(dg));
    if (!n) {
      if (i > 5) putchar(' ');
      printf("NOGEN");
      continue;
    }
    if (kind == 'f' || kind == 'A') dg[n - 1] ^= 0x01;
    if (kind == 'S' || kind == 'M') {
      n = cut_payload(dg, n, kind, tok_len_suffix(mt, 1));
      if (!n) {
        if (i > 5) putchar(' ');
        printf("NOGEN");
        continue;
      }
    }
    if (kind == 'K' || kind == 'O') {
      size_t vl;
      uint8_t *ov = find_oscore_opt(dg, n, &vl);
      if (!ov || vl < 2) {
        if (i > 5) putchar(' ');
        printf("NOGEN");
        continue;
      }
      if (kind == 'K') ov[vl - 1] ^= 0x55;
      else ov[0] |= 0x40;
    }
    if (kind == 'P') {
      size_t vl;
      uint8_t *ov = find_oscore_opt(dg, n, &vl);
      int pl = seq_len(seq);
      if (!ov || (ov[0] & 7) != pl) {
        if (i > 5) putchar(' ');
        printf("NOGEN");
        continue;
      }
      for (int k = 0; k < pl; k++) ov[1 + k] = (uint8_t)(seq >> (8 * (pl - 1 - k)));
    }
    if (i - 5 < MAXMSG && n <= sizeof(msg_buf[0])) {
      memcpy(msg_buf[i - 5], dg, n);
      msg_len[i - 5] = n;
    }
deliver:
    ncap = 0;
    before = handler_calls;
    /* A<seq>.<k>: a message that fails authentication, and the k-th allocation made while it
     * is processed fails */
    alloc_count = 0;
    fail_alloc_at = kind == 'A' ? tok_len_suffix(mt, 1) : 0;
    coap_lock_lock(sctx, goto done);
    coap_handle_dgram(sctx, ssess, dg, n);
    coap_lock_unlock(sctx);
    fail_alloc_at = 0;
    /* acknowledge the server's Confirmable messages (separate responses), else NSTART holds
     * its later ones back */
    for (int k = 0, nc = ncap; k < nc; k++)
      if (cap_sess[k]->context == sctx && cap_len[k] >= 4 && ((cap_buf[k][0] >> 4) & 3) == 0) {
        uint8_t ack[4] = { 0x60, 0x00, cap_buf[k][2], cap_buf[k][3] };
        coap_lock_lock(sctx, goto done);
        coap_handle_dgram(sctx, ssess, ack, 4);
        coap_lock_unlock(sctx);
      }
    classify(verdict, sizeof(verdict), before);
    if (kind == 'A') strcpy(verdict, handler_calls > before ? "A" : "*");
    /* no payload / marker only: dropped before any security context is looked at, no reply */
    if ((kind == 'M' || (kind == 'S' && tok_len_suffix(mt, 1) == 0)) && !strcmp(verdict, "E"))
      strcpy(verdict, "N");
    if (i > 5) putchar(' ');
    {
      char tags[128];
      nonce_tags_of_captures(sctx, 0, tags, sizeof(tags));
      if (kind == 'A') tags[0] = 0;       /* whether a reply gets out depends on k */
      printf("%s,", verdict);
      print_rcp3(find_rcp(0x02));
      putchar('/');
      print_rcp3(find_rcp(0x03));
      printf("%s", tags);
    }
  }
  if (vntok == 5) printf("-");
  putchar('\n');
done:
  client_down(&good);
  client_down(&bad);
  client_down(&second);
  server_down();
}

/* ------------------------------------------------------------------ sst */
static void cmd_sst(void) {
  client_t c = {0};
  char extra[64];
  uint64_t start, stored;
  if (vntok < 3) { printf("BAD-CASE\n"); return; }
  start = strtoull(vtok[2], NULL, 16);
  stored = start;
  snprintf(extra, sizeof(extra), "ssn_freq,integer,%s\n", vtok[1]);
  if (!client_up(&c, SECRET_A, extra, save_cb, start)) { printf("SETUP-FAILED\n"); client_down(&c); return; }
  for (int i = 3; i < vntok; i++) {
    if (i > 3) putchar(' ');
    if (vtok[i][0] == 'p') {
      uint8_t dg[512];
      size_t n, vl;
      saved_flag = 0;
      n = client_protect(&c, 0, (unsigned)i, NULL, 0, dg, sizeof(dg));
      if (n) {
        uint8_t *ov = find_oscore_opt(dg, n, &vl);
        uint64_t piv = 0;
        if (ov && vl > 0) for (int k = 0; k < (ov[0] & 7); k++) piv = (piv << 8) | ov[1 + k];
        if (ov && vl > 0 && (ov[0] & 7)) printf("%" PRIx64, piv); else printf("nopiv");
      } else {
        printf("-");
      }
      if (saved_flag) { printf("/%" PRIx64, saved_val); stored = saved_val; }
      else printf("/-");
    } else {
      client_down(&c);
      snprintf(extra, sizeof(extra), "ssn_freq,integer,%s\n", vtok[i] + 1);
      if (!client_up(&c, SECRET_A, extra, save_cb, stored)) { printf("SETUP-FAILED"); break; }
      printf("-/-");
    }
  }
  if (vntok == 3) printf("-");
  putchar('\n');
  client_down(&c);
}

/* ------------------------------------------------------------------ rpe */
static int resp_count, resp_205;
static char resp_codes[256];
static coap_response_t hnd_resp(coap_session_t *s, const coap_pdu_t *sent, const coap_pdu_t *rcv,
                                const coap_mid_t mid) {
  (void)s; (void)sent; (void)mid;
  size_t l = strlen(resp_codes);
  coap_pdu_code_t c = coap_pdu_get_code(rcv);
  resp_count++;
  if (c == COAP_RESPONSE_CODE(205)) resp_205++;
  if (l + 8 < sizeof(resp_codes)) snprintf(resp_codes + l, sizeof(resp_codes) - l, "%s%u.%02u", l ? "," : "", c >> 5, c & 31);
  return COAP_RESPONSE_OK;
}

static client_t *pump_client;
static int pump_first;
static char spiv_list[1024];      /* Partial IVs the server put on the wire */
static int spiv_dup;
static uint8_t rec_buf[MAXMSG][160];
static size_t rec_len[MAXMSG];
static int nrec;

/* carry every captured datagram to the other side until nothing is in flight; client
 * datagrams are recorded (record != 0) and reported with the tag character */
static int pump(int record, char tag) {
  static int reaction[MAXCAP];
  int head = 0;
  client_t *c = pump_client;
  memset(reaction, 0, sizeof(reaction));
  while (head < ncap) {
    uint8_t dg[2048];
    size_t n = cap_len[head];
    coap_session_t *from = cap_sess[head];
    int was_reaction = reaction[head];
    int mark;
    memcpy(dg, cap_buf[head], n);
    head++;
    mark = ncap;
    if (from->context == c->ctx) {
      /* client -> server */
      size_t vl;
      uint8_t *ov = find_oscore_opt(dg, n, &vl);
      uint64_t piv = 0;
      char verdict[16];
      int before = handler_calls;
      if (ov && vl > 0) for (int k = 0; k < (ov[0] & 7); k++) piv = (piv << 8) | ov[1 + k];
      if (record && ov && nrec < MAXMSG && n <= sizeof(rec_buf[0])) {
        memcpy(rec_buf[nrec], dg, n);
        rec_len[nrec++] = n;
      }
      coap_lock_lock(sctx, return 0);
      coap_handle_dgram(sctx, ssess, dg, n);
      coap_lock_unlock(sctx);
      /* every protected datagram the server sends: (Sender Key, nonce) must not repeat */
      for (int k = mark; k < ncap; k++) {
        char one[48], ident[40];
        char *hp;
        if (cap_sess[k]->context != sctx) continue;
        nonce_tag(cap_buf[k], cap_len[k], one, sizeof(one));
        if (!one[0]) continue;
        hp = strchr(one, '#');
        *hp = 0;
        if (one[1] == 'o') snprintf(ident, sizeof(ident), "%s", one);
        else snprintf(ident, sizeof(ident), "~r%" PRIx64, piv);
        nonce_note(ident, (uint32_t)strtoul(hp + 1, NULL, 16));
      }
      snprintf(verdict, sizeof(verdict), handler_calls > before ? "A" : "E");
      for (int k = mark; k < ncap && handler_calls == before; k++) {
        size_t v2;
        uint8_t *d2 = cap_buf[k];
        if (cap_len[k] < 4 || d2[1] == 0) continue;
        if (find_oscore_opt(d2, cap_len[k], &v2)) snprintf(verdict, sizeof(verdict), "C");
        else if (d2[1] == COAP_RESPONSE_CODE(401)) snprintf(verdict, sizeof(verdict), "R");
        else if (d2[1] == COAP_RESPONSE_CODE(400)) snprintf(verdict, sizeof(verdict), "D");
        else snprintf(verdict, sizeof(verdict), "?%u%02u", d2[1] >> 5, d2[1] & 31);
        break;
      }
      if (ov) {
        printf("%s%c%" PRIx64 ":%s,%" PRIx64 ",%" PRIx64 ",%d", pump_first ? "" : " ",
               tag ? tag : (was_reaction ? 'e' : 'g'), piv, verdict, rcp->last_seq,
               rcp->sliding_window, rcp->initial_state);
        pump_first = 0;
      }
    } else {
      /* server -> client; what the client sends while handling it is a reaction */
      {
        size_t vl;
        uint8_t *ov = find_oscore_opt(dg, n, &vl);
        if (ov && vl > 0 && (ov[0] & 7)) {
          uint64_t piv = 0;
          char item[24];
          size_t l = strlen(spiv_list);
          for (int k = 0; k < (ov[0] & 7); k++) piv = (piv << 8) | ov[1 + k];
          snprintf(item, sizeof(item), ",%" PRIx64 ",", piv);
          if (l == 0) { strcpy(spiv_list, ","); l = 1; }
          if (strstr(spiv_list, item)) spiv_dup++;
          if (l + strlen(item) < sizeof(spiv_list)) strcpy(spiv_list + l, item + 1);
        }
      }
      coap_lock_lock(c->ctx, return 0);
      coap_handle_dgram(c->ctx, c->sess, dg, n);
      coap_lock_unlock(c->ctx);
      for (int k = mark; k < ncap && k < MAXCAP; k++) reaction[k] = 1;
    }
  }
  return 1;
}

static void cmd_rpe(void) {
  client_t c = {0};
  int b12, con, nreq, replay, restart_every = 0;
  char extra[64];
  uint64_t stored = 0, jump = 0;
  if (vntok < 6) { printf("BAD-CASE\n"); return; }
  b12 = atoi(vtok[2]);
  con = atoi(vtok[3]);
  nreq = atoi(vtok[4]);
  replay = atoi(vtok[5]);
  snprintf(extra, sizeof(extra), "ssn_freq,integer,%s\n", vntok > 6 ? vtok[6] : "1");
  if (vntok > 7) restart_every = atoi(vtok[7]);
  if (vntok > 8) jump = strtoull(vtok[8], NULL, 16);
  resp_count = resp_205 = 0;
  resp_codes[0] = 0;
  spiv_list[0] = 0;
  spiv_dup = 0;
  n_nonce = nonce_dup = 0;
  nrec = 0;
  pump_client = &c;
  pump_first = 1;
  saved_flag = 0;
  if (!server_up(vtok[1], b12, 1) || !client_up(&c, SECRET_A, extra, save_cb, 0)) {
    printf("SETUP-FAILED\n");
    goto done;
  }
  coap_register_response_handler(c.ctx, hnd_resp);
  for (int q = 0; q < nreq; q++) {
    coap_pdu_t *pdu;
    uint8_t t[2] = { 0x70, (uint8_t)q };
    if (restart_every && q && q % restart_every == 0) {
      /* the client process dies and comes back with what it had put on stable storage */
      if (saved_flag) stored = saved_val;
      client_down(&c);
      ncap = 0;
      if (!client_up(&c, SECRET_A, extra, save_cb, stored)) { printf(" SETUP-FAILED\n"); goto done; }
      coap_register_response_handler(c.ctx, hnd_resp);
    }
    /* the sender resumed from a much later persisted number */
    if (jump && q == 2) client_sender(&c)->seq += jump;
    pdu = coap_new_pdu(con ? COAP_MESSAGE_CON : COAP_MESSAGE_NON, COAP_REQUEST_CODE_GET, c.sess);
    if (!pdu) break;
    coap_add_token(pdu, 2, t);
    coap_add_option(pdu, COAP_OPTION_URI_PATH, 1, (const uint8_t *)"r");
    ncap = 0;
    if (coap_send(c.sess, pdu) == COAP_INVALID_MID) {
      printf("%sSENDFAIL", pump_first ? "" : " ");
      pump_first = 0;
      continue;
    }
    if (!pump(1, 0)) goto done;
    /* an attacker puts recorded datagrams on the wire again (replay & 1: all of them after
     * every request; replay & 2: each of them with the last byte of the tag flipped first) */
    for (int k = 0; k < nrec && replay; k++) {
      for (int pass = 0; pass < 3; pass++) {
        /* pass 0: last byte changed (f); pass 1: ciphertext cut to 1..10 bytes (t); pass 2: as is (r) */
        if (!(replay & (pass == 0 ? 2 : pass == 1 ? 4 : 1))) continue;
        ncap = 1;
        memcpy(cap_buf[0], rec_buf[k], rec_len[k]);
        cap_len[0] = rec_len[k];
        cap_sess[0] = c.sess;
        if (pass == 0) cap_buf[0][cap_len[0] - 1] ^= 0x80;
        if (pass == 1) {
          size_t nn = cut_payload(cap_buf[0], cap_len[0], 'S', 1 + (k + q) % 10), vl;
          uint8_t *ov = find_oscore_opt(cap_buf[0], cap_len[0], &vl);
          uint64_t claim = rcp->last_seq + 2 + (uint64_t)k;       /* a number not seen yet */
          if (!nn || !ov) continue;
          cap_len[0] = nn;
          if ((ov[0] & 7) == seq_len(claim))
            for (int b = 0; b < (ov[0] & 7); b++)
              ov[1 + b] = (uint8_t)(claim >> (8 * ((ov[0] & 7) - 1 - b)));
        }
        if (!pump(0, pass == 0 ? 'f' : pass == 1 ? 't' : 'r')) goto done;
      }
    }
  }
  printf("%s| handler=%d responses=%d ok=%d spivdup=%d noncedup=%d codes=%s\n", pump_first ? "" : " ",
         handler_calls, resp_count, resp_205, spiv_dup, nonce_dup, resp_codes[0] ? resp_codes : "-");
done:
  client_down(&c);
  server_down();
}

/* ------------------------------------------------------------------ rpx */
/* Endpoint A is client and server towards the same peer B under one security context: A's
 * recipient context is armed by B's requests and is also the one B's responses (Observe
 * notifications carry a Partial IV of their own) are checked against.
 *
 *   rpx <variant> <Wcfg> <b12> { <op> }*
 *     g|e|x|f|P|K|O<hexseq>  request from B to A (as in rpd)
 *     q<hexseq>   A sends GET /o with Observe:0 through coap_send(); B (a server with an observable
 *                 resource) answers; its answer carries the Partial IV <hexseq> and is delivered
 *     N<hexseq>   B notifies its observers (coap_resource_notify_observers + coap_check_notify),
 *                 Partial IV <hexseq>; a repeated token re-delivers the same datagram
 *     T<hexseq>   such a notification with the last byte changed
 *     R<hexseq>[.<len>]  made-up response: A's outstanding token, claimed Partial IV, random
 *                 ciphertext of <len> bytes (default 13)
 *     Z<hexseq>   made-up response with a token A never used
 *     W<hexseq>   made-up response with A's outstanding token and no Partial IV (it is bound to
 *                 the request's nonce; <hexseq> only varies the bytes)
 *   -> per op  <verdict>,<last_seq>,<window>,<initial>   verdict for requests as in rpd; for
 *      responses A = A's response handler ran, X = it did not
 */
static int a_resp_calls;
static coap_response_t hnd_resp_a(coap_session_t *s, const coap_pdu_t *sent, const coap_pdu_t *rcv,
                                  const coap_mid_t mid) {
  (void)s; (void)sent; (void)rcv; (void)mid;
  a_resp_calls++;
  return COAP_RESPONSE_OK;
}

static void hnd_obs(coap_resource_t *r, coap_session_t *s, const coap_pdu_t *req,
                    const coap_string_t *q, coap_pdu_t *resp) {
  (void)r; (void)s; (void)req; (void)q;
  coap_pdu_set_code(resp, COAP_RESPONSE_CODE_CONTENT);
  coap_add_data(resp, 1, (const uint8_t *)"x");
}

static coap_session_t *make_in_session(coap_context_t *ctx, coap_endpoint_t **epp, uint16_t peer_port) {
  coap_address_t addr, peer;
  coap_packet_t pkt;
  coap_tick_t now;
  coap_session_t *sess;
  loop_addr(&addr, 0);
  *epp = coap_new_endpoint(ctx, &addr, COAP_PROTO_UDP);
  if (!*epp) return NULL;
  loop_addr(&peer, peer_port);
  memset(&pkt, 0, sizeof(pkt));
  coap_address_copy(&pkt.addr_info.remote, &peer);
  coap_address_copy(&pkt.addr_info.local, &(*epp)->bind_addr);
  coap_ticks(&now);
  coap_lock_lock(ctx, return NULL);
  sess = coap_endpoint_get_session(*epp, &pkt, now);
  if (sess) coap_session_reference_lkd(sess);
  coap_lock_unlock(ctx);
  return sess;
}

static void cmd_rpx(void) {
  client_t a = {0}, b = {0};
  coap_context_t *bsrv = NULL;
  coap_session_t *a_in = NULL, *b_in = NULL;
  coap_endpoint_t *epa = NULL, *epb = NULL;
  coap_resource_t *res, *res_o = NULL;
  oscore_recipient_ctx_t *rc;
  char extra[128];
  uint8_t tok[8];
  size_t tok_len = 0;
  int b12, nq = 0;
  if (vntok < 4) { printf("BAD-CASE\n"); return; }
  b12 = atoi(vtok[3]);
  snprintf(extra, sizeof(extra), "replay_window,integer,%s\nrfc8613_b_1_2,bool,%s\n", vtok[2],
           b12 ? "true" : "false");
  /* A: sender 01, recipient 02 (client session) + endpoint + resource r */
  {
    coap_oscore_conf_t *conf;
    coap_address_t srv;
    a.ctx = coap_new_context(NULL);
    if (!a.ctx) { printf("SETUP-FAILED\n"); goto done; }
    coap_context_set_block_mode(a.ctx, COAP_BLOCK_USE_LIBCOAP);
    conf = make_conf(SECRET_A, "01", "02", extra, NULL, NULL, 0);
    loop_addr(&srv, 5683);
    a.sess = conf ? coap_new_client_session_oscore(a.ctx, NULL, &srv, COAP_PROTO_UDP, conf) : NULL;
  }
  if (!a.sess || !client_up(&b, SECRET_A, "", NULL, 0)) { printf("SETUP-FAILED\n"); goto done; }
  rc = a.sess->recipient_ctx;
  coap_register_response_handler(a.ctx, hnd_resp_a);
  res = coap_resource_init(coap_make_str_const("r"), 0);
  coap_register_request_handler(res, COAP_REQUEST_GET, hnd_get);
  coap_add_resource(a.ctx, res);
  a_in = make_in_session(a.ctx, &epa, 40001);
  /* B as a server: sender 02, recipient 01, observable resource o, no B.1.2 */
  bsrv = coap_new_context(NULL);
  if (bsrv) {
    coap_oscore_conf_t *conf = make_conf(SECRET_A, "02", "01", "rfc8613_b_1_2,bool,false\n", NULL, NULL, 0);
    if (!conf || !coap_context_oscore_server(bsrv, conf)) { printf("SETUP-FAILED\n"); goto done; }
    res_o = coap_resource_init(coap_make_str_const("o"), COAP_RESOURCE_FLAGS_NOTIFY_NON_ALWAYS);   /* no CON notifications: a repeated CON is dropped by the message layer (same MID) before the application sees it */
    coap_register_request_handler(res_o, COAP_REQUEST_GET, hnd_obs);
    coap_resource_set_get_observable(res_o, 1);
    coap_add_resource(bsrv, res_o);
    b_in = make_in_session(bsrv, &epb, 40002);
  }
  if (!a_in || !b_in) { printf("SETUP-FAILED\n"); goto done; }
  handler_calls = 0;
  a_resp_calls = 0;
  for (int i = 4; i < vntok; i++) {
    char kind = vtok[i][0];
    uint64_t seq = strtoull(vtok[i] + 1, NULL, 16);
    uint8_t dg[512];
    size_t n = 0;
    char verdict[16] = "-";
    int before = handler_calls, rbefore = a_resp_calls, prev = -1, is_resp = 0;
    char qtags[64] = "";
    for (int j = 4; j < i && j - 4 < MAXMSG; j++)
      if (!strcmp(vtok[j], vtok[i]) && msg_len[j - 4] && kind == 'N') { prev = j - 4; break; }
    if (i - 4 < MAXMSG) msg_len[i - 4] = 0;
    ncap = 0;
    if (strchr("gexfPKOSM", kind)) {
      uint8_t echo[8];
      uint64_t gen_seq = seq;
      memcpy(echo, rc->echo_value, 8);
      if (kind == 'x') echo[0] ^= 0x5a;
      if (kind == 'P') gen_seq = (seq >= OSCORE_SEQ_MAX - 2) ? seq - 2 : (seq ^ 1);
      client_sender(&b)->seq = gen_seq;
      n = client_protect(&b, 0, (unsigned)(i * 7 + 1), (kind == 'e' || kind == 'x') ? echo : NULL, 8,
                         dg, sizeof(dg));
      if (n && kind != 'g' && kind != 'e' && kind != 'x') {
        size_t vl;
        uint8_t *ov = find_oscore_opt(dg, n, &vl);
        int pl = seq_len(seq);
        if (kind == 'f') dg[n - 1] ^= 0x01;
        else if (kind == 'S' || kind == 'M') n = cut_payload(dg, n, kind, tok_len_suffix(vtok[i], 1));
        else if (!ov || vl < 2) n = 0;
        else if (kind == 'K') ov[vl - 1] ^= 0x55;
        else if (kind == 'O') ov[0] |= 0x40;
        else if ((ov[0] & 7) != pl) n = 0;
        else for (int k = 0; k < pl; k++) ov[1 + k] = (uint8_t)(seq >> (8 * (pl - 1 - k)));
      }
      if (!n) { printf("%sNOGEN", i > 4 ? " " : ""); continue; }
      coap_lock_lock(a.ctx, goto done);
      coap_handle_dgram(a.ctx, a_in, dg, n);
      coap_lock_unlock(a.ctx);
      classify(verdict, sizeof(verdict), before);
      if ((kind == 'M' || (kind == 'S' && tok_len_suffix(vtok[i], 1) == 0)) && !strcmp(verdict, "E"))
        strcpy(verdict, "N");
    } else if (kind == 'q') {
      /* A registers as an observer of B's /o; B's answer carries the Partial IV <seq> */
      coap_pdu_t *pdu = coap_new_pdu(COAP_MESSAGE_NON, COAP_REQUEST_CODE_GET, a.sess);
      uint8_t t[2] = { 0x51, (uint8_t)i }, obs = 0;
      is_resp = 1;
      if (!pdu || ++nq > 4) { printf("%sNOGEN", i > 4 ? " " : ""); continue; }
      coap_add_token(pdu, 2, t);
      coap_add_option(pdu, COAP_OPTION_OBSERVE, 0, &obs);
      coap_add_option(pdu, COAP_OPTION_URI_PATH, 1, (const uint8_t *)"o");
      a.sess->doing_first = 0;
      if (coap_send(a.sess, pdu) == COAP_INVALID_MID || ncap < 1) { printf("%sNOGEN", i > 4 ? " " : ""); continue; }
      a.sess->doing_first = 0;
      n = cap_len[0];
      memcpy(dg, cap_buf[0], n);
      tok_len = dg[0] & 0x0f;
      memcpy(tok, dg + 4, tok_len);
      nonce_tags_of_captures(a.ctx, 0, qtags, sizeof(qtags));   /* A's request: its own Partial IV */
      ncap = 0;
      bsrv->p_osc_ctx->sender_context->seq = seq;
      coap_lock_lock(bsrv, goto done);
      coap_handle_dgram(bsrv, b_in, dg, n);
      coap_lock_unlock(bsrv);
      n = 0;
      for (int k = 0; k < ncap; k++)
        if (cap_sess[k]->context == bsrv && cap_len[k] > 4 && cap_buf[k][1] != 0) {
          n = cap_len[k];
          memcpy(dg, cap_buf[k], n);
        }
      if (!n) { printf("%sNOGEN", i > 4 ? " " : ""); continue; }
    } else if (kind == 'N' || kind == 'T') {
      is_resp = 1;
      if (prev >= 0) {
        n = msg_len[prev];
        memcpy(dg, msg_buf[prev], n);
      } else {
        bsrv->p_osc_ctx->sender_context->seq = seq;
        coap_resource_notify_observers(res_o, NULL);
        coap_check_notify(bsrv);
        /* with several registrations there is one notification per observer: take the first
         * (it carries the Partial IV <seq>) */
        for (int k = 0; k < ncap && !n; k++)
          if (cap_sess[k]->context == bsrv && cap_len[k] > 4 && cap_buf[k][1] != 0) {
            n = cap_len[k];
            memcpy(dg, cap_buf[k], n);
          }
        if (!n) { printf("%sNOGEN", i > 4 ? " " : ""); continue; }
        if (kind == 'T') dg[n - 1] ^= 0x01;
        else if (i - 4 < MAXMSG && n <= sizeof(msg_buf[0])) {
          memcpy(msg_buf[i - 4], dg, n);
          msg_len[i - 4] = n;
        }
      }
    } else if (kind == 'R' || kind == 'Z' || kind == 'W') {
      int pl = kind == 'W' ? 0 : seq_len(seq);
      is_resp = 1;
      dg[n++] = 0x50 | (uint8_t)(kind == 'Z' ? 3 : tok_len);          /* NON */
      dg[n++] = COAP_RESPONSE_CODE(204);
      dg[n++] = 0x77; dg[n++] = (uint8_t)i;
      if (kind == 'Z') { dg[n++] = 0xee; dg[n++] = 0xee; dg[n++] = (uint8_t)i; }
      else { memcpy(dg + n, tok, tok_len); n += tok_len; }
      if (kind == 'W') {
        dg[n++] = 0x90;                                  /* empty OSCORE option */
      } else {
        dg[n++] = 0x90 | (uint8_t)(1 + pl);              /* option 9 (OSCORE) */
        dg[n++] = (uint8_t)pl;
        for (int k = 0; k < pl; k++) dg[n++] = (uint8_t)(seq >> (8 * (pl - 1 - k)));
      }
      dg[n++] = 0xff;
      {
        int cl = tok_len_suffix(vtok[i], 13);           /* R<seq>.<len>: ciphertext length */
        if (cl < 1) cl = 1;
        for (int k = 0; k < cl && n < sizeof(dg); k++) dg[n++] = (uint8_t)(0xa0 + k + i + (int)seq);
      }
    } else {
      printf("%sNOGEN", i > 4 ? " " : "");
      continue;
    }
    if (is_resp) {
      ncap = 0;
      rbefore = a_resp_calls;
      coap_lock_lock(a.ctx, goto done);
      coap_handle_dgram(a.ctx, a.sess, dg, n);
      coap_lock_unlock(a.ctx);
      snprintf(verdict, sizeof(verdict), a_resp_calls > rbefore ? "A" : "X");
    }
    {
      char tags[128];
      tags[0] = 0;
      if (!is_resp) nonce_tags_of_captures(a.ctx, 0, tags, sizeof(tags));
      else if (kind == 'q') snprintf(tags, sizeof(tags), "%s", qtags);
      printf("%s%s,%" PRIx64 ",%" PRIx64 ",%d%s", i > 4 ? " " : "", verdict, rc->last_seq,
             rc->sliding_window, rc->initial_state, tags);
    }
  }
  if (vntok == 4) printf("-");
  putchar('\n');
done:
  if (a_in) coap_session_release(a_in);
  if (b_in) coap_session_release(b_in);
  client_down(&a);
  client_down(&b);
  if (bsrv) coap_free_context(bsrv);
}

int main(void) {
  coap_startup();
  coap_set_log_level(getenv("VERIF_LOG") ? (coap_log_t)atoi(getenv("VERIF_LOG")) : COAP_LOG_EMERG);
  while (next_case(stdin)) {
    if (vntok == 0) { putchar('\n'); continue; }
    if (!strcmp(vtok[0], "rpc"))
      printf("seqmax=%" PRIx64 " defwin=%d\n", (uint64_t)OSCORE_SEQ_MAX,
             (int)COAP_OSCORE_DEFAULT_REPLAY_WINDOW);
    else if (!strcmp(vtok[0], "rpu")) cmd_rpu();
    else if (!strcmp(vtok[0], "rpd")) cmd_rpd();
    else if (!strcmp(vtok[0], "sst")) cmd_sst();
    else if (!strcmp(vtok[0], "rpe")) cmd_rpe();
    else if (!strcmp(vtok[0], "rpx")) cmd_rpx();
    else printf("ERROR unknown command\n");
    fflush(stdout);
  }
  coap_cleanup();
  return 0;
}

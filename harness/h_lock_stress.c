/* C13 - multi-threaded stress driver (real threads, real sockets on loopback, real public API).
 *
 *   h_lock_stress <seconds> <workers 2..8> <seed> [profile: 1 = mostly short-lived sessions]
 *
 * One context acts as server and client.  One thread sits in coap_io_process(); <workers> threads
 * issue, at random: CON/NON requests (send), coap_resource_notify_observers (notify), client
 * session create+release, resource add+delete, cache entry lookups/creation, pings, and - through
 * a dedicated resource - async registration and trigger.  Every callback type is registered
 * (request, response, NACK, event, ping, pong) and every callback re-enters the public API.
 *
 * A watchdog (main thread) reads per-thread progress counters: a thread that does not advance for
 * STALL seconds is reported as STUCK together with the state of global_lock and what every thread
 * was doing (a concrete hang).  Built with -fsanitize=thread, ThreadSanitizer reports data races.
 * Application-side shared data uses atomics so that every report concerns the library.
 *
 *   h_lock_stress errpaths
 * Error paths of API functions that take the lock themselves: a call that FAILS must leave the
 * lock released.  coap_new_context(&addr) with an address that cannot be bound fails; a second
 * thread then makes an ordinary API call and must return (3 s watchdog).
 *
 *   h_lock_stress wakeup
 * A call from another thread must take effect although the I/O thread is blocked in
 * coap_io_process(ctx, COAP_IO_WAIT): the library has to wake it (timerfd) every time, also after a
 * timer was pending once and has expired.  A remote observer (plain UDP socket, this thread)
 * registers on a NOTIFY_CON resource; coap_resource_notify_observers() #1 from this thread -> CON
 * notification, ACKed; 2.5 s of silence (the retransmission deadline, <= 1.5 s, is history);
 * coap_resource_notify_observers() #2 -> the notification must arrive (6 s watchdog).
 *
 * output (stdout): one summary line  "stress ok ops=.. sent=.. responses=.. ..." or
 *                  "STUCK ..." lines followed by "stress FAILED".   exit code 0 / 3.
 */
#define _GNU_SOURCE
#include "coap3/coap_libcoap_build.h"
#include <pthread.h>
#include <stdatomic.h>
#include <stdio.h>
#include <stdlib.h>
#include <string.h>
#include <time.h>
#include <unistd.h>
#include <arpa/inet.h>
#include <signal.h>
#include <poll.h>

#define MAXW 8
#define STALL_S 6.0

static coap_context_t *ctx;
static coap_address_t srv_addr;
static coap_resource_t *res_static, *res_obs, *res_async;
static atomic_int stop_workers, stop_io;
static int nworkers;
static int profile;              /* 1: mostly short-lived sessions with traffic in flight */

typedef struct {
  pthread_t th;
  int id;
  unsigned seed;
  atomic_ulong progress;
  _Atomic(const char *) what;
  coap_session_t *sess;
  coap_session_t *ping_sess;
  coap_session_t *idle_sess;
  atomic_int finished;
} worker_t;
static worker_t W[MAXW + 1];          /* W[nworkers] is the I/O thread */

static atomic_ulong n_restart;
static atomic_ulong n_ops, n_sent, n_resp, n_nack, n_event, n_ping, n_pong, n_req, n_reent,
       n_sess, n_res, n_cache, n_async, n_notify, n_followup;

static double now_s(void) {
  struct timespec ts;
  clock_gettime(CLOCK_MONOTONIC, &ts);
  return ts.tv_sec + ts.tv_nsec / 1e9;
}

static unsigned rnd(unsigned *s) {
  *s = *s * 1103515245u + 12345u;
  return (*s >> 16) & 0x7fff;
}

/* ---- callbacks: each re-enters the public (locking) API ---- */

static void reenter(coap_session_t *session) {
  /* COAP_API functions: take the global lock again from inside a callback */
  (void)coap_session_max_pdu_size(session);
  (void)coap_can_exit(coap_session_get_context(session));
  (void)coap_new_message_id(session);
  atomic_fetch_add(&n_reent, 1);
}

static void hnd_get(coap_resource_t *r, coap_session_t *session, const coap_pdu_t *req,
                    const coap_string_t *q, coap_pdu_t *resp) {
  (void)q;
  (void)req;
  atomic_fetch_add(&n_req, 1);
  reenter(session);
  coap_pdu_set_code(resp, COAP_RESPONSE_CODE_CONTENT);
  coap_add_data_large_response(r, session, req, resp, q, COAP_MEDIATYPE_TEXT_PLAIN, -1, 0, 5,
                               (const uint8_t *)"hello", NULL, NULL);
}

static void hnd_put(coap_resource_t *r, coap_session_t *session, const coap_pdu_t *req,
                    const coap_string_t *q, coap_pdu_t *resp) {
  (void)q;
  (void)req;
  (void)r;
  atomic_fetch_add(&n_req, 1);
  reenter(session);
  /* a request handler that triggers notifications on another resource (re-entry, send path) */
  coap_resource_notify_observers(res_obs, NULL);
  coap_pdu_set_code(resp, COAP_RESPONSE_CODE_CHANGED);
}

/* separate response: first call registers an async, the trigger makes libcoap call us again */
static void hnd_async(coap_resource_t *r, coap_session_t *session, const coap_pdu_t *req,
                      const coap_string_t *q, coap_pdu_t *resp) {
  (void)q;
  (void)r;
  atomic_fetch_add(&n_req, 1);
  coap_async_t *a = coap_find_async(session, coap_pdu_get_token(req));
  if (!a) {
    a = coap_register_async(session, req, 0);   /* 0: wait for coap_async_trigger */
    if (a) {
      atomic_fetch_add(&n_async, 1);
      coap_async_trigger(a);                    /* fire at the next I/O round */
      return;                                   /* empty ACK is sent by the library */
    }
    coap_pdu_set_code(resp, COAP_RESPONSE_CODE_SERVICE_UNAVAILABLE);
    return;
  }
  coap_pdu_set_code(resp, COAP_RESPONSE_CODE_CONTENT);
  coap_add_data(resp, 5, (const uint8_t *)"async");
  /* the library frees the async entry itself after this (second) call returns */
}

static coap_response_t hnd_response(coap_session_t *session, const coap_pdu_t *sent,
                                    const coap_pdu_t *rcvd, const coap_mid_t mid) {
  (void)sent;
  (void)mid;
  (void)rcvd;
  unsigned long k = atomic_fetch_add(&n_resp, 1);
  reenter(session);
  if ((k & 15) == 7 && !atomic_load(&stop_workers)) {
    /* a response handler that sends a follow-up request (NON, no reply storm: 1 in 16) */
    coap_pdu_t *p = coap_new_pdu(COAP_MESSAGE_NON, COAP_REQUEST_CODE_GET, session);
    if (p) {
      uint8_t tok[4];
      uint32_t t = (uint32_t)k;
      memcpy(tok, &t, 4);
      coap_add_token(p, 4, tok);
      coap_add_option(p, COAP_OPTION_URI_PATH, 2, (const uint8_t *)"r0");
      if (coap_send(session, p) != COAP_INVALID_MID) atomic_fetch_add(&n_followup, 1);
    }
  }
  return COAP_RESPONSE_OK;
}

static void hnd_nack(coap_session_t *session, const coap_pdu_t *sent, const coap_nack_reason_t reason,
                     const coap_mid_t mid) {
  (void)sent;
  (void)reason;
  (void)mid;
  atomic_fetch_add(&n_nack, 1);
  reenter(session);
}

static int hnd_event(coap_session_t *session, const coap_event_t event) {
  (void)event;
  atomic_fetch_add(&n_event, 1);
  /* the session may be on its way out: only context-level re-entry */
  (void)coap_can_exit(coap_session_get_context(session));
  (void)coap_io_pending(coap_session_get_context(session));
  atomic_fetch_add(&n_reent, 1);
  return 0;
}

static void hnd_ping(coap_session_t *session, const coap_pdu_t *rcvd, const coap_mid_t mid) {
  (void)rcvd;
  (void)mid;
  atomic_fetch_add(&n_ping, 1);
  reenter(session);
}

static void hnd_pong(coap_session_t *session, const coap_pdu_t *rcvd, const coap_mid_t mid) {
  (void)rcvd;
  (void)mid;
  atomic_fetch_add(&n_pong, 1);
  reenter(session);
}

/* ---- worker operations ---- */

static int backlog_full(void) {
  /* keep the delay queues bounded: do not run further ahead of the I/O thread than this */
  unsigned long out = atomic_load(&n_sent), in = atomic_load(&n_resp) + atomic_load(&n_nack);
  return out > in + 3000;
}

static void op_send(worker_t *w, const char *path, int con, int code) {
  if (backlog_full()) return;
  coap_pdu_t *p = coap_new_pdu(con ? COAP_MESSAGE_CON : COAP_MESSAGE_NON, code, w->sess);
  if (!p) return;
  uint8_t tok[8];
  unsigned long c = atomic_load(&w->progress);
  memcpy(tok, &c, 4);
  memcpy(tok + 4, &w->id, 4);
  coap_add_token(p, 8, tok);
  coap_add_option(p, COAP_OPTION_URI_PATH, strlen(path), (const uint8_t *)path);
  if (coap_send(w->sess, p) != COAP_INVALID_MID) atomic_fetch_add(&n_sent, 1);
}

static void op_observe(worker_t *w) {
  coap_pdu_t *p = coap_new_pdu(COAP_MESSAGE_CON, COAP_REQUEST_CODE_GET, w->sess);
  if (!p) return;
  uint8_t tok[2] = {0xb5, (uint8_t)w->id};
  uint8_t buf[4];
  coap_add_token(p, 2, tok);
  coap_add_option(p, COAP_OPTION_OBSERVE, coap_encode_var_safe(buf, sizeof(buf), COAP_OBSERVE_ESTABLISH), buf);
  coap_add_option(p, COAP_OPTION_URI_PATH, 3, (const uint8_t *)"obs");
  if (coap_send(w->sess, p) != COAP_INVALID_MID) atomic_fetch_add(&n_sent, 1);
}

static void op_session(worker_t *w) {
  (void)w;
  coap_session_t *s = coap_new_client_session(ctx, NULL, &srv_addr, COAP_PROTO_UDP);
  if (!s) return;
  coap_session_reference(s);
  (void)coap_session_max_pdu_size(s);
  coap_session_release(s);
  coap_session_release(s);
  atomic_fetch_add(&n_sess, 1);
}

/* a short-lived client session with traffic in flight when the application drops its reference:
   the reply makes the socket readable around the time the session is freed */
static void op_session_send(worker_t *w) {
  coap_session_t *s = coap_new_client_session(ctx, NULL, &srv_addr, COAP_PROTO_UDP);
  if (!s) return;
  coap_pdu_t *p = coap_new_pdu(COAP_MESSAGE_NON, COAP_REQUEST_CODE_GET, s);
  if (p) {
    uint8_t tok[2] = {0x5e, (uint8_t)w->id};
    coap_add_token(p, 2, tok);
    coap_add_option(p, COAP_OPTION_URI_PATH, 2, (const uint8_t *)"r0");
    if (coap_send(s, p) != COAP_INVALID_MID) atomic_fetch_add(&n_sent, 1);
  }
  usleep(rnd(&w->seed) % 400);
  coap_session_release(s);
  atomic_fetch_add(&n_sess, 1);
}

static void op_resource(worker_t *w, unsigned k) {
  char name[32];
  snprintf(name, sizeof(name), "t%d-%u", w->id, k & 3);
  /* the resource owns a heap copy of its path (coap_make_str_const() hands out static storage
     and is not meant for concurrent use) */
  coap_str_const_t *path = coap_new_str_const((const uint8_t *)name, strlen(name));
  if (!path) return;
  coap_resource_t *r = coap_resource_init(path, COAP_RESOURCE_FLAGS_RELEASE_URI);
  if (!r) { coap_delete_str_const(path); return; }
  coap_register_request_handler(r, COAP_REQUEST_GET, hnd_get);
  coap_add_resource(ctx, r);        /* this thread's names are private to it */
  coap_str_const_t key;
  key.s = (const uint8_t *)name;
  key.length = strlen(name);
  coap_resource_t *f = coap_get_resource_from_uri_path(ctx, &key);
  /* both documented call forms: the context argument is ignored by the library
     (man coap_resource: examples call coap_delete_resource(NULL, r)) */
  if (f) coap_delete_resource((k & 4) ? ctx : NULL, f);
  atomic_fetch_add(&n_res, 1);
}

static void op_cache(worker_t *w) {
  coap_pdu_t *p = coap_new_pdu(COAP_MESSAGE_NON, COAP_REQUEST_CODE_GET, w->sess);
  if (!p) return;
  char path[16];
  snprintf(path, sizeof(path), "c%d", w->id);
  coap_add_option(p, COAP_OPTION_URI_PATH, strlen(path), (const uint8_t *)path);
  coap_cache_entry_t *e = coap_cache_get_by_pdu(w->sess, p, COAP_CACHE_NOT_SESSION_BASED);
  if (!e) e = coap_new_cache_entry(w->sess, p, COAP_CACHE_NOT_RECORD_PDU, COAP_CACHE_NOT_SESSION_BASED, 1);
  if (e) atomic_fetch_add(&n_cache, 1);
  coap_delete_pdu(p);
}

static void *worker_main(void *arg) {
  worker_t *w = (worker_t *)arg;
  atomic_store(&w->what, "new-session");
  w->sess = coap_new_client_session(ctx, NULL, &srv_addr, COAP_PROTO_UDP);
  if (!w->sess) {
    atomic_store(&w->what, "no-session");
    atomic_store(&w->finished, 1);
    return NULL;
  }
  w->ping_sess = coap_new_client_session(ctx, NULL, &srv_addr, COAP_PROTO_UDP);
  w->idle_sess = coap_new_client_session(ctx, NULL, &srv_addr, COAP_PROTO_UDP);
  if (w->idle_sess) {     /* one exchange to establish it, then left idle for the keepalive */
    coap_session_t *keep = w->sess;
    w->sess = w->idle_sess;
    op_send(w, "r0", 1, COAP_REQUEST_CODE_GET);
    w->sess = keep;
  }
  atomic_store(&w->what, "observe");
  op_observe(w);
  unsigned k = 0;
  while (!atomic_load(&stop_workers)) {
    unsigned x = rnd(&w->seed) % 100;
    k++;
    if (x < 30) { atomic_store(&w->what, "send-con"); op_send(w, "r0", 1, COAP_REQUEST_CODE_GET); }
    else if (x < 40) { atomic_store(&w->what, "send-non"); op_send(w, "r0", 0, COAP_REQUEST_CODE_GET); }
    else if (x < 48) { atomic_store(&w->what, "send-put"); op_send(w, "r0", 1, COAP_REQUEST_CODE_PUT); }
    else if (x < 60) { atomic_store(&w->what, "notify"); coap_resource_notify_observers(res_obs, NULL); atomic_fetch_add(&n_notify, 1); }
    else if (x < 64) { atomic_store(&w->what, "session"); op_session(w); }
    else if (x < 70 || profile == 1) { atomic_store(&w->what, "session-send-release"); op_session_send(w); }
    else if (x < 80) { atomic_store(&w->what, "resource"); op_resource(w, k); }
    else if (x < 88) { atomic_store(&w->what, "cache"); op_cache(w); }
    else if (x < 93) { atomic_store(&w->what, "ping"); if (w->ping_sess) coap_session_send_ping(w->ping_sess); }
    else if (x < 97) { atomic_store(&w->what, "async"); op_send(w, "async", 1, COAP_REQUEST_CODE_GET); }
    else if (x < 99) { atomic_store(&w->what, "unknown-path"); op_send(w, "nope", 1, COAP_REQUEST_CODE_GET); }
    /* a repeated coap_startup() is documented to be ignored (libraries and applications both call it) */
    else { atomic_store(&w->what, "coap_startup-again"); coap_startup(); atomic_fetch_add(&n_restart, 1); }
    atomic_fetch_add(&w->progress, 1);
    atomic_fetch_add(&n_ops, 1);
    atomic_store(&w->what, "pause");
    if ((k & 7) == 0) usleep(200 + rnd(&w->seed) % 800);   /* let the I/O thread and others in */
  }
  atomic_store(&w->what, "release");
  coap_session_release(w->sess);
  if (w->ping_sess) coap_session_release(w->ping_sess);
  if (w->idle_sess) coap_session_release(w->idle_sess);
  atomic_store(&w->what, "done");
  atomic_fetch_add(&w->progress, 1);
  atomic_store(&w->finished, 1);
  return NULL;
}

static void *io_main(void *arg) {
  worker_t *w = (worker_t *)arg;
  while (!atomic_load(&stop_io)) {
    atomic_store(&w->what, "coap_io_process");
    coap_io_process(ctx, 50);
    atomic_fetch_add(&w->progress, 1);
  }
  atomic_store(&w->what, "done");
  atomic_store(&w->finished, 1);
  return NULL;
}

__attribute__((no_sanitize("thread")))
static void dump_lock(void) {
#if defined(COAP_THREAD_SAFE) && COAP_THREAD_SAFE
  printf("STUCK global_lock: pid=%lx in_callback=%u lock_count=%u\n",
         (unsigned long)global_lock.pid, (unsigned)global_lock.in_callback,
         (unsigned)global_lock.lock_count);
#else
  printf("STUCK global_lock: locking not compiled in\n");
#endif
}

static void on_sigusr1(int sig) { (void)sig; }
static atomic_ulong n_eintr;

static int watchdog(double until, int need_finished) {
  unsigned long last[MAXW + 1];
  double since[MAXW + 1];
  int n = nworkers + 1;
  for (int i = 0; i < n; i++) {
    last[i] = atomic_load(&W[i].progress);
    since[i] = now_s();
  }
  for (;;) {
    usleep(100 * 1000);
    /* interrupt the I/O thread's epoll_wait()/select(): exercises the EINTR path, which has its
       own re-lock */
    if (!atomic_load(&W[nworkers].finished)) {
      pthread_kill(W[nworkers].th, SIGUSR1);
      atomic_fetch_add(&n_eintr, 1);
    }
    double t = now_s();
    int all_finished = 1;
    for (int i = 0; i < n; i++) {
      if (atomic_load(&W[i].finished)) continue;
      if (need_finished & (1 << i)) all_finished = 0;
      unsigned long p = atomic_load(&W[i].progress);
      if (p != last[i]) {
        last[i] = p;
        since[i] = t;
      } else if (t - since[i] > STALL_S) {
        printf("STUCK thread %d (%s) made no progress for %.1f s while doing: %s\n", i,
               i == nworkers ? "io" : "worker", t - since[i], atomic_load(&W[i].what));
        for (int j = 0; j < n; j++)
          printf("STUCK   thread %d tid=%lx progress=%lu finished=%d doing=%s\n", j,
                 (unsigned long)W[j].th, atomic_load(&W[j].progress), atomic_load(&W[j].finished),
                 atomic_load(&W[j].what));
        dump_lock();
        return 1;
      }
    }
    if (need_finished) {
      if (all_finished) return 0;
    } else if (t >= until) {
      return 0;
    }
  }
}

/* ---- wakeup scenario ---- */
static atomic_ulong wk_io_returns, wk_gets;
static void wk_get(coap_resource_t *r, coap_session_t *session, const coap_pdu_t *req,
                   const coap_string_t *q, coap_pdu_t *resp) {
  static const coap_fixed_point_t one_second = {1, 0};
  (void)r;
  (void)req;
  (void)q;
  coap_session_set_ack_timeout(session, one_second);   /* retransmission deadline <= 1.5 s */
  atomic_fetch_add(&wk_gets, 1);
  coap_pdu_set_code(resp, COAP_RESPONSE_CODE_CONTENT);
  coap_add_data(resp, 2, (const uint8_t *)"hi");
}
static void *wk_io(void *arg) {
  (void)arg;
  for (;;) {
    coap_io_process(ctx, COAP_IO_WAIT);
    atomic_fetch_add(&wk_io_returns, 1);
  }
  return NULL;
}
/* wait up to ms for a 2.05 with token aa bb; ACK it when it is CON; 1 = seen */
static int wk_expect(int sock, int ms) {
  uint8_t buf[256];
  double t_end = now_s() + ms / 1000.0;
  while (now_s() < t_end) {
    struct pollfd pfd = {sock, POLLIN, 0};
    if (poll(&pfd, 1, 100) <= 0) continue;
    int n = (int)recv(sock, buf, sizeof(buf), 0);
    if (n >= 6 && buf[1] == 0x45 && (buf[0] & 0x0f) == 2 && buf[4] == 0xaa && buf[5] == 0xbb) {
      if ((buf[0] & 0x30) == 0x00) {
        uint8_t ack[4] = {0x60, 0x00, buf[2], buf[3]};
        send(sock, ack, sizeof(ack), 0);
      }
      return 1;
    }
  }
  return 0;
}
static int wakeup_fail(const char *what) {
  printf("STUCK %s: I/O thread blocked in coap_io_process(ctx, COAP_IO_WAIT) (returned %lu times, GET handler "
         "ran %lu times) although coap_resource_notify_observers() was called from another thread\n",
         what, atomic_load(&wk_io_returns), atomic_load(&wk_gets));
  dump_lock();
  printf("stress FAILED stuck wakeup\n");
  fflush(stdout);
  _exit(3);
}
static int wakeup(void) {
  static const uint8_t observe_get[] = {0x42, 0x01, 0x12, 0x34, 0xaa, 0xbb, 0x60, 0x53, 'o', 'b', 's'};
  coap_startup();
  coap_set_log_level(COAP_LOG_EMERG);
  ctx = coap_new_context(NULL);
  if (!ctx) { printf("stress FAILED no context\n"); return 2; }
  coap_address_t bind;
  coap_address_init(&bind);
  bind.addr.sin.sin_family = AF_INET;
  bind.addr.sin.sin_addr.s_addr = htonl(INADDR_LOOPBACK);
  bind.addr.sin.sin_port = 0;
  bind.size = sizeof(struct sockaddr_in);
  coap_endpoint_t *ep = coap_new_endpoint(ctx, &bind, COAP_PROTO_UDP);
  if (!ep) { printf("stress FAILED no endpoint\n"); return 2; }
  coap_resource_t *r = coap_resource_init(coap_new_str_const((const uint8_t *)"obs", 3),
                                          COAP_RESOURCE_FLAGS_RELEASE_URI | COAP_RESOURCE_FLAGS_NOTIFY_CON);
  coap_register_request_handler(r, COAP_REQUEST_GET, wk_get);
  coap_resource_set_get_observable(r, 1);
  coap_add_resource(ctx, r);
  int sock = socket(AF_INET, SOCK_DGRAM, 0);
  struct sockaddr_in to = ep->bind_addr.addr.sin;
  if (sock < 0 || connect(sock, (struct sockaddr *)&to, sizeof(to)) < 0) { printf("stress FAILED socket\n"); return 2; }
  pthread_t th;
  pthread_create(&th, NULL, wk_io, NULL);
  usleep(200 * 1000);
  /* 1. register (retry the datagram a few times: setup must not be the flaky part) */
  int reg = 0;
  for (int k = 0; k < 5 && !reg; k++) {
    send(sock, observe_get, sizeof(observe_get), 0);
    reg = wk_expect(sock, 2000);
  }
  if (!reg) { printf("wakeup ok skipped (observation could not be registered)\n"); _exit(0); }
  usleep(300 * 1000);
  /* 2. notification #1 from this (non I/O) thread: a retransmission timer is pending, then ACKed */
  coap_resource_notify_observers(r, NULL);
  if (!wk_expect(sock, 6000)) return wakeup_fail("notify #1 never delivered");
  /* 3. silence until that timer's deadline is in the past */
  usleep(2500 * 1000);
  /* 4. notification #2 */
  coap_resource_notify_observers(r, NULL);
  if (!wk_expect(sock, 6000)) return wakeup_fail("notify #2 never delivered (6 s)");
  /* 5. once more after another expired deadline */
  usleep(2000 * 1000);
  coap_resource_notify_observers(r, NULL);
  if (!wk_expect(sock, 6000)) return wakeup_fail("notify #3 never delivered (6 s)");
  printf("wakeup ok notifications=3 io_returns=%lu gets=%lu\n", atomic_load(&wk_io_returns), atomic_load(&wk_gets));
  fflush(stdout);
  _exit(0);                /* the I/O thread sits in COAP_IO_WAIT: no orderly shutdown needed */
}

static atomic_int ep_done;
static void *errpaths_other(void *arg) {
  (void)arg;
  coap_context_t *c = coap_new_context(NULL);     /* takes the global lock */
  if (c) coap_free_context(c);
  atomic_store(&ep_done, c ? 1 : 2);
  return NULL;
}

static int errpaths(void) {
  coap_address_t bad;
  coap_startup();
  coap_set_log_level(COAP_LOG_EMERG);
  coap_address_init(&bad);
  bad.addr.sin.sin_family = AF_INET;
  bad.addr.sin.sin_addr.s_addr = htonl(0xC0000201u);   /* 192.0.2.1 (TEST-NET-1): not a local address */
  bad.addr.sin.sin_port = htons(5683);
  bad.size = sizeof(struct sockaddr_in);
  coap_context_t *c = coap_new_context(&bad);
  if (c) {                                           /* could be bound after all: nothing to test */
    coap_free_context(c);
    printf("errpaths ok skipped (address was bindable)\n");
    return 0;
  }
  pthread_t th;
  pthread_create(&th, NULL, errpaths_other, NULL);
  double t0 = now_s();
  while (!atomic_load(&ep_done) && now_s() - t0 < 3.0) usleep(20 * 1000);
  if (!atomic_load(&ep_done)) {
    printf("STUCK coap_new_context(&unbindable address) returned NULL and left the global lock held: "
           "coap_new_context(NULL) in a second thread has been waiting for %.1f s\n", now_s() - t0);
    dump_lock();
    printf("stress FAILED stuck errpaths\n");
    fflush(stdout);
    _exit(3);
  }
  pthread_join(th, NULL);
  coap_cleanup();
  printf("errpaths ok failed_call_released_lock=1 second_thread=%d\n", atomic_load(&ep_done));
  return 0;
}

int main(int argc, char **argv) {
  if (argc > 1 && strcmp(argv[1], "errpaths") == 0) return errpaths();
  if (argc > 1 && strcmp(argv[1], "wakeup") == 0) return wakeup();
  double secs = argc > 1 ? atof(argv[1]) : 5.0;
  nworkers = argc > 2 ? atoi(argv[2]) : 4;
  unsigned seed = argc > 3 ? (unsigned)atoi(argv[3]) : 1;
  profile = argc > 4 ? atoi(argv[4]) : 0;
  if (nworkers < 1) nworkers = 1;
  if (nworkers > MAXW) nworkers = MAXW;
  setvbuf(stdout, NULL, _IOLBF, 0);
  coap_startup();
  coap_set_log_level(COAP_LOG_EMERG);
  ctx = coap_new_context(NULL);
  if (!ctx) { printf("stress FAILED no context\n"); return 2; }
  coap_context_set_block_mode(ctx, COAP_BLOCK_USE_LIBCOAP);
  coap_context_set_keepalive(ctx, 1);      /* idle sessions are pinged by the library after 1 s: RST -> pong handler */
  coap_address_t bind;
  coap_address_init(&bind);
  bind.addr.sin.sin_family = AF_INET;
  bind.addr.sin.sin_addr.s_addr = htonl(INADDR_LOOPBACK);
  bind.addr.sin.sin_port = 0;
  bind.size = sizeof(struct sockaddr_in);
  coap_endpoint_t *ep = coap_new_endpoint(ctx, &bind, COAP_PROTO_UDP);
  if (!ep) { printf("stress FAILED no endpoint\n"); return 2; }
  srv_addr = ep->bind_addr;
  if (coap_address_get_port(&srv_addr) == 0) { printf("stress FAILED no port\n"); return 2; }

  res_static = coap_resource_init(coap_new_str_const((const uint8_t *)"r0", 2), COAP_RESOURCE_FLAGS_RELEASE_URI);
  coap_register_request_handler(res_static, COAP_REQUEST_GET, hnd_get);
  coap_register_request_handler(res_static, COAP_REQUEST_PUT, hnd_put);
  coap_add_resource(ctx, res_static);
  res_obs = coap_resource_init(coap_new_str_const((const uint8_t *)"obs", 3), COAP_RESOURCE_FLAGS_RELEASE_URI);
  coap_register_request_handler(res_obs, COAP_REQUEST_GET, hnd_get);
  coap_resource_set_get_observable(res_obs, 1);
  coap_add_resource(ctx, res_obs);
  res_async = coap_resource_init(coap_new_str_const((const uint8_t *)"async", 5), COAP_RESOURCE_FLAGS_RELEASE_URI);
  coap_register_request_handler(res_async, COAP_REQUEST_GET, hnd_async);
  coap_add_resource(ctx, res_async);

  coap_register_response_handler(ctx, hnd_response);
  coap_register_nack_handler(ctx, hnd_nack);
  coap_register_event_handler(ctx, hnd_event);
  coap_register_ping_handler(ctx, hnd_ping);
  coap_register_pong_handler(ctx, hnd_pong);

  struct sigaction sa;
  memset(&sa, 0, sizeof(sa));
  sa.sa_handler = on_sigusr1;            /* no SA_RESTART: the wait returns EINTR */
  sigaction(SIGUSR1, &sa, NULL);
  W[nworkers].id = nworkers;
  pthread_create(&W[nworkers].th, NULL, io_main, &W[nworkers]);
  for (int i = 0; i < nworkers; i++) {
    W[i].id = i;
    W[i].seed = seed * 7919u + (unsigned)i * 104729u + 1u;
    pthread_create(&W[i].th, NULL, worker_main, &W[i]);
  }
  int bad = watchdog(now_s() + secs, 0);
  if (!bad) {
    atomic_store(&stop_workers, 1);
    bad = watchdog(0, (1 << nworkers) - 1);          /* all workers must return */
  }
  if (!bad) {
    /* let outstanding exchanges drain, then stop the I/O thread */
    double t_end = now_s() + 1.0;
    while (now_s() < t_end) usleep(50 * 1000);
    atomic_store(&stop_io, 1);
    bad = watchdog(0, 1 << nworkers);
  }
  if (bad) {
    printf("stress FAILED stuck ops=%lu sent=%lu responses=%lu events=%lu\n", atomic_load(&n_ops),
           atomic_load(&n_sent), atomic_load(&n_resp), atomic_load(&n_event));
    fflush(stdout);
    _exit(3);
  }
  for (int i = 0; i <= nworkers; i++) pthread_join(W[i].th, NULL);
  coap_free_context(ctx);
  coap_cleanup();
  printf("stress ok workers=%d ops=%lu sent=%lu requests=%lu responses=%lu followups=%lu nacks=%lu "
         "events=%lu pings=%lu pongs=%lu reentries=%lu sessions=%lu resources=%lu cache=%lu async=%lu "
         "notifies=%lu eintr=%lu startups=%lu\n", nworkers,
         atomic_load(&n_ops), atomic_load(&n_sent), atomic_load(&n_req), atomic_load(&n_resp),
         atomic_load(&n_followup), atomic_load(&n_nack), atomic_load(&n_event), atomic_load(&n_ping),
         atomic_load(&n_pong), atomic_load(&n_reent), atomic_load(&n_sess), atomic_load(&n_res),
         atomic_load(&n_cache), atomic_load(&n_async), atomic_load(&n_notify), atomic_load(&n_eintr), atomic_load(&n_restart));
  return 0;
}

/* C19, TLS over TCP (implementation-only oracle; the Coq model covers the datagram gate).
 *
 * A libcoap client context and a server context in one process and one thread, real loopback
 * TCP sockets, real clock, real GnuTLS (TLS-PSK).  Link-time wraps (no source change):
 *   coap_socket_write                    every byte of the two stream directions is logged
 *   gnutls_handshake                     result log
 * The two contexts are driven alternately with coap_io_process(ctx, COAP_IO_NO_WAIT).
 * coap_send() on a TCP/TLS client session blocks inside libcoap until the session is
 * established (coap_client_delay_first), so requests are sent only after the driver has seen
 * the session ESTABLISHED - "queued during the handshake" does not exist on this transport.
 *
 *   c19t <seed> <cid> <ckey> <csni> <cih> <shint> <skey> <sids> <ssni> op ...
 *   ops: C            create the client session and run both contexts until the client session is
 *                     ESTABLISHED, back in NONE, or 3000 rounds passed;  C<n>: run n rounds only
 *        qc<k> qn<k>  send request k (if the session is still coming up, libcoap waits inside
 *                     coap_send: both contexts are serviced meanwhile), then run until its response
 *        wc<k> wn<k>  the same, but the wait inside coap_send times out at once (the message is then
 *                     queued if the session is not established, or, in state CSM, the session is
 *                     declared connected without the peer's CSM)
 *        rel          release the client session
 *        ic<hex|@req<k>>  bytes written straight to the client's TCP socket, i.e. cleartext in the
 *                     client->server stream behind whatever TLS has written so far
 *        is<...>      same in the server->client stream
 *        r<n>         run n rounds
 */
#include "coap3/coap_libcoap_build.h"
#include "common/util.h"
#include <gnutls/gnutls.h>
#include <stdarg.h>
#include <unistd.h>

#define MARK "PLAINTEXT-MARKER"
#define PATH "secretpath"

static char *tr = NULL;
static size_t tr_len = 0, tr_cap = 0;
static void emit(const char *fmt, ...) {
  va_list ap;
  char tmp[4096];
  va_start(ap, fmt);
  int n = vsnprintf(tmp, sizeof(tmp), fmt, ap);
  va_end(ap);
  if (n < 0) return;
  if ((size_t)n >= sizeof(tmp)) n = sizeof(tmp) - 1;
  if (tr_len + (size_t)n + 2 > tr_cap) {
    tr_cap = (tr_cap ? tr_cap * 2 : 65536) + (size_t)n + 2;
    tr = (char *)realloc(tr, tr_cap);
  }
  if (tr_len) tr[tr_len++] = ' ';
  memcpy(tr + tr_len, tmp, (size_t)n);
  tr_len += (size_t)n;
  tr[tr_len] = 0;
}

static coap_context_t *g_cli, *g_srv;
static coap_session_t *g_cs, *g_ss;
static int hs_ok[2];

/* ------------------------------------------------------------------ stream capture */
typedef struct { uint8_t *b; size_t n, cap; } buf_t;
static buf_t g_dir[2];        /* 0: client -> server, 1: server -> client */
static void buf_add(buf_t *x, const uint8_t *d, size_t n) {
  if (x->n + n > x->cap) {
    x->cap = (x->cap + n) * 2 + 64;
    x->b = (uint8_t *)realloc(x->b, x->cap);
  }
  memcpy(x->b + x->n, d, n);
  x->n += n;
}

static int is_client_side(const coap_socket_t *sock) {
  return g_cs && sock == &g_cs->sock;
}

ssize_t __real_coap_socket_write(coap_socket_t *sock, const uint8_t *data, size_t len);
ssize_t __wrap_coap_socket_write(coap_socket_t *sock, const uint8_t *data, size_t len) {
  ssize_t r = __real_coap_socket_write(sock, data, len);
  if (r > 0) buf_add(&g_dir[is_client_side(sock) ? 0 : 1], data, (size_t)r);
  return r;
}

static const char *nm(const coap_session_t *cs) {
  return (cs && cs->type == COAP_SESSION_TYPE_CLIENT) ? "c" : "s";
}

/* id of a CoAP-over-TCP PDU for the trace: request k -> k, response to k -> 1000+k, CSM -> -1,
 * anything else 0 */
static int tcp_pdu_id(const uint8_t *b, size_t n) {
  if (n < 2) return 0;
  size_t lenn = b[0] >> 4, tkl = b[0] & 15, o = 1;
  o += lenn == 13 ? 1 : lenn == 14 ? 2 : lenn == 15 ? 4 : 0;
  if (o >= n) return 0;
  unsigned code = b[o];
  if (code == 0xe1) return -1;
  (void)tkl;
  for (size_t i = o; i + 3 < n; i++)
    if (b[i] == 0xff && (b[i + 1] == 'Q' || b[i + 1] == 'A')) {
      int k = 0;
      size_t j = i + 2;
      while (j < n && b[j] >= '0' && b[j] <= '9') k = k * 10 + (b[j++] - '0');
      if (j < n && b[j] == ':') return b[i + 1] == 'Q' ? k : 1000 + k;
    }
  return 0;
}

int __real_gnutls_handshake(gnutls_session_t s);
int __wrap_gnutls_handshake(gnutls_session_t s) {
  coap_session_t *cs = (coap_session_t *)gnutls_transport_get_ptr(s);
  int side = (cs && cs->type == COAP_SESSION_TYPE_CLIENT) ? 0 : 1;
  int r = __real_gnutls_handshake(s);
  if (r == 0) hs_ok[side]++;
  emit("%s.hs:%d", side ? "s" : "c", r);
  return r;
}

ssize_t __real_gnutls_record_send(gnutls_session_t s, const void *data, size_t n);
ssize_t __wrap_gnutls_record_send(gnutls_session_t s, const void *data, size_t n) {
  coap_session_t *cs = (coap_session_t *)gnutls_transport_get_ptr(s);
  ssize_t r = __real_gnutls_record_send(s, data, n);
  if (r == (ssize_t)n) emit("%s.tx:%d:ok", nm(cs), tcp_pdu_id((const uint8_t *)data, n));
  else emit("%s.tx:%d:%zd", nm(cs), tcp_pdu_id((const uint8_t *)data, n), r);
  return r;
}

ssize_t __real_gnutls_record_recv(gnutls_session_t s, void *data, size_t n);
ssize_t __wrap_gnutls_record_recv(gnutls_session_t s, void *data, size_t n) {
  coap_session_t *cs = (coap_session_t *)gnutls_transport_get_ptr(s);
  ssize_t r = __real_gnutls_record_recv(s, data, n);
  if (r > 0) emit("%s.rx:ok", nm(cs));
  else emit("%s.rx:%zd", nm(cs), r);
  return r;
}

static coap_session_t *g_reading;
ssize_t __real_coap_tls_read(coap_session_t *c_session, uint8_t *data, size_t data_len);
ssize_t __wrap_coap_tls_read(coap_session_t *c_session, uint8_t *data, size_t data_len) {
  const char *who = nm(c_session);
  g_reading = c_session;
  emit("%s.rd", who);
  ssize_t r = __real_coap_tls_read(c_session, data, data_len);
  emit("%s.rr:%d", who, r < 0 ? -1 : r > 0 ? 1 : 0);
  return r;
}

int __real_coap_pdu_parse_opt(coap_pdu_t *pdu);
int __wrap_coap_pdu_parse_opt(coap_pdu_t *pdu) {
  int r = __real_coap_pdu_parse_opt(pdu);
  if (r && g_reading) {
    unsigned c = pdu->code;
    int kind = c == 0xe1 ? 3 : (c == 0xe2 || c == 0xe3) ? 4 : (c == 0xe4 || c == 0xe5) ? 5
               : (c >= 1 && c < 32) ? 1 : (c >= 64 && c < 192) ? 2 : 0;
    emit("%s.pdu:%d", nm(g_reading), kind);
  }
  return r;
}

/* the wait loop of coap_client_delay_first (coap_send on a client session that is coming up) */
static int g_in_send, g_wait_timeout, g_wait_iter;
int __real_coap_io_process_lkd(coap_context_t *ctx, uint32_t timeout_ms);
int __wrap_coap_io_process_lkd(coap_context_t *ctx, uint32_t timeout_ms) {
  if (g_in_send && ctx == g_cli) {
    if (g_wait_timeout) {
      emit("c.wt:1");
      return 6000;                 /* "more than the 5 s / CSM time-out went by" */
    }
    if (++g_wait_iter > 1500) {    /* nothing moves any more: let the wait time out */
      emit("c.wt:1");
      return 6000;
    }
    __real_coap_io_process_lkd(g_srv, COAP_IO_NO_WAIT);
    int r = __real_coap_io_process_lkd(ctx, COAP_IO_NO_WAIT);
    usleep(100);
    return r < 0 ? r : 0;
  }
  return __real_coap_io_process_lkd(ctx, timeout_ms);
}

/* ------------------------------------------------------------------ tables / callbacks */
typedef struct { uint8_t *a, *b, *c; size_t al, bl, cl; } row_t;
typedef struct { int present; row_t rows[16]; int n; } table_t;
static table_t t_cih, t_sids, t_ssni;
static coap_dtls_cpsk_info_t cb_cinfo;
static coap_bin_const_t cb_skey;
static coap_dtls_spsk_info_t cb_sinfo;

static uint8_t *hexfield(const char *s, size_t n, size_t *len) {
  uint8_t *b = (uint8_t *)malloc(n / 2 + 1);
  size_t o = 0;
  if (n == 1 && s[0] == '.') { *len = 0; return b; }
  for (size_t i = 0; i + 1 < n; i += 2) b[o++] = (uint8_t)(hexval(s[i]) * 16 + hexval(s[i + 1]));
  *len = o;
  return b;
}
static void parse_table(table_t *t, const char *s, int nf) {
  memset(t, 0, sizeof(*t));
  if (s[0] != 'T') return;
  t->present = 1;
  s++;
  while (*s && t->n < 16) {
    const char *e = strchr(s, ',');
    size_t el = e ? (size_t)(e - s) : strlen(s);
    const char *f = s;
    row_t *r = &t->rows[t->n];
    for (int k = 0; k < nf; k++) {
      const char *c = memchr(f, ':', (size_t)(s + el - f));
      size_t fl = c ? (size_t)(c - f) : (size_t)(s + el - f);
      size_t bl;
      uint8_t *b = hexfield(f, fl, &bl);
      if (k == 0) { r->a = b; r->al = bl; }
      else if (k == 1) { r->b = b; r->bl = bl; }
      else { r->c = b; r->cl = bl; }
      f = c ? c + 1 : s + el;
    }
    t->n++;
    s += el;
    if (*s == ',') s++;
  }
}
static const coap_dtls_cpsk_info_t *cb_ih(coap_str_const_t *hint, coap_session_t *s, void *arg) {
  (void)s; (void)arg;
  {
    char hh[600];
    size_t o = 0;
    hh[0] = 0;
    for (size_t i = 0; i < hint->length && o + 3 < sizeof(hh); i++) o += (size_t)sprintf(hh + o, "%02x", hint->s[i]);
    emit("c.ih:%s", hint->length ? hh : "-");
  }
  for (int i = 0; i < t_cih.n; i++)
    if (t_cih.rows[i].al == hint->length && memcmp(t_cih.rows[i].a, hint->s, hint->length) == 0) {
      cb_cinfo.identity.s = t_cih.rows[i].b; cb_cinfo.identity.length = t_cih.rows[i].bl;
      cb_cinfo.key.s = t_cih.rows[i].c; cb_cinfo.key.length = t_cih.rows[i].cl;
      return &cb_cinfo;
    }
  return NULL;
}
static const coap_bin_const_t *cb_id(coap_bin_const_t *id, coap_session_t *s, void *arg) {
  (void)s; (void)arg;
  for (int i = 0; i < t_sids.n; i++)
    if (t_sids.rows[i].al == id->length && memcmp(t_sids.rows[i].a, id->s, id->length) == 0) {
      cb_skey.s = t_sids.rows[i].b; cb_skey.length = t_sids.rows[i].bl;
      return &cb_skey;
    }
  return NULL;
}
static const coap_dtls_spsk_info_t *cb_sni(const char *sni, coap_session_t *s, void *arg) {
  (void)s; (void)arg;
  size_t l = strlen(sni);
  for (int i = 0; i < t_ssni.n; i++)
    if (t_ssni.rows[i].al == l && memcmp(t_ssni.rows[i].a, sni, l) == 0) {
      cb_sinfo.hint.s = t_ssni.rows[i].b; cb_sinfo.hint.length = t_ssni.rows[i].bl;
      cb_sinfo.key.s = t_ssni.rows[i].c; cb_sinfo.key.length = t_ssni.rows[i].cl;
      return &cb_sinfo;
    }
  return NULL;
}

/* ------------------------------------------------------------------ application */
static int n_rsp;
static int marker_no(const uint8_t *d, size_t n, char lead) {
  if (n >= 3 && d[0] == (uint8_t)lead) {
    int k = 0;
    size_t i = 1;
    while (i < n && d[i] >= '0' && d[i] <= '9') k = k * 10 + (d[i++] - '0');
    if (i < n && d[i] == ':') return k;
  }
  return -1;
}
static coap_response_t on_resp(coap_session_t *s, const coap_pdu_t *sent, const coap_pdu_t *rcv,
                               const coap_mid_t mid) {
  size_t len = 0;
  const uint8_t *data = NULL;
  (void)s; (void)sent; (void)mid;
  coap_get_data(rcv, &len, &data);
  emit("c.rsp:%d:%u", marker_no(data, len, 'A'), (unsigned)coap_pdu_get_code(rcv));
  n_rsp++;
  return COAP_RESPONSE_OK;
}
static void on_nack(coap_session_t *s, const coap_pdu_t *sent, const coap_nack_reason_t reason,
                    const coap_mid_t mid) {
  (void)mid;
  if (sent) {
    size_t len = 0;
    const uint8_t *data = NULL;
    coap_get_data(sent, &len, &data);
    emit("%s.nack:%d:%d", nm(s), marker_no(data, len, 'Q'), (int)reason);
  } else
    emit("%s.nack:anon:%d", nm(s), (int)reason);
}
static int on_event(coap_session_t *s, coap_event_t e) {
  emit("%s.ev:%04x", s->type == COAP_SESSION_TYPE_CLIENT ? "c" : "s", (unsigned)e);
  if (e == COAP_EVENT_SERVER_SESSION_NEW) g_ss = s;
  if (e == COAP_EVENT_SERVER_SESSION_DEL && s == g_ss) g_ss = NULL;
  return 0;
}
static void on_post(coap_resource_t *r, coap_session_t *s, const coap_pdu_t *req,
                    const coap_string_t *q, coap_pdu_t *resp) {
  size_t len = 0;
  const uint8_t *data = NULL;
  char buf[64];
  (void)r; (void)s; (void)q;
  coap_get_data(req, &len, &data);
  int k = marker_no(data, len, 'Q');
  int injected = len > 12 && memmem(data, len, "INJECTED", 8) != NULL;
  emit("s.req:%d:%s", k, injected ? "INJECTED" : "ok");
  coap_pdu_set_code(resp, COAP_RESPONSE_CODE_CONTENT);
  int n = snprintf(buf, sizeof(buf), "A%d:" MARK, k);
  coap_add_data(resp, (size_t)n, (const uint8_t *)buf);
}

static double now_ms(void) {
  struct timespec ts;
  clock_gettime(CLOCK_MONOTONIC, &ts);
  return ts.tv_sec * 1000.0 + ts.tv_nsec / 1e6;
}

/* run both contexts until the response count exceeds until_rsp, the client session is no longer
 * established, or ms milliseconds of real time passed */
static void wait_rsp(int until_rsp, double ms) {
  double end = now_ms() + ms;
  for (int i = 0; now_ms() < end; i++) {
    coap_io_process(g_srv, COAP_IO_NO_WAIT);
    coap_io_process(g_cli, COAP_IO_NO_WAIT);
    if (n_rsp > until_rsp) return;
    if (!g_cs || g_cs->state != COAP_SESSION_STATE_ESTABLISHED) return;
    if ((i & 7) == 7) usleep(200);
  }
}

/* white-box snapshot: state, ids in the delay queue, tls != NULL, doing_first, socket open */
static void snapshot(const char *who, coap_session_t *s) {
  if (!s) {
    emit("%s.st:gone", who);
    return;
  }
  char dq[512];
  size_t o = 0;
  dq[0] = 0;
  for (coap_queue_t *q = s->delayqueue; q && o + 16 < sizeof(dq); q = q->next) {
    size_t len = 0;
    const uint8_t *data = NULL;
    coap_get_data(q->pdu, &len, &data);
    int k = q->pdu->code == 0xe1 ? -1 : marker_no(data, len, 'Q');
    if (k < 0 && q->pdu->code != 0xe1) {
      k = marker_no(data, len, 'A');
      k = k < 0 ? 0 : 1000 + k;
    }
    o += (size_t)snprintf(dq + o, sizeof(dq) - o, "%s%d", o ? "." : "", k);
  }
  emit("%s.st:%d:%s:%d:%d:%d", who, (int)s->state, o ? dq : "-", s->tls ? 1 : 0, (int)s->doing_first,
       coap_netif_available(s) ? 1 : 0);
}

static void rounds(int n, int until_state, int until_rsp) {
  double end = now_ms() + 1200.0;
  for (int i = 0; i < n || (until_state && g_cs && now_ms() < end); i++) {
    coap_io_process(g_srv, COAP_IO_NO_WAIT);
    coap_io_process(g_cli, COAP_IO_NO_WAIT);
    if (until_state && g_cs &&
        (g_cs->state == COAP_SESSION_STATE_ESTABLISHED || (i > 2 && g_cs->state == COAP_SESSION_STATE_NONE)))
      return;
    if (until_rsp >= 0 && n_rsp > until_rsp) return;
    if ((i & 7) == 7) usleep(300);
  }
}

/* TLS record framing of one direction: 5-byte headers, types 20..23, version 03 xx */
static void scan_dir(int d) {
  buf_t *x = &g_dir[d];
  size_t o = 0;
  int framed = 1, nrec = 0, plain;
  while (o < x->n) {
    if (x->n - o < 5) { framed = 0; break; }
    if (x->b[o] < 20 || x->b[o] > 23 || x->b[o + 1] != 3) { framed = 0; break; }
    size_t len = (size_t)((x->b[o + 3] << 8) | x->b[o + 4]);
    if (len > x->n - o - 5) { framed = 0; break; }
    o += 5 + len;
    nrec++;
  }
  plain = (x->n >= strlen(MARK) && memmem(x->b, x->n, MARK, strlen(MARK)) != NULL) ||
          (x->n >= strlen(PATH) && memmem(x->b, x->n, PATH, strlen(PATH)) != NULL);
  emit("n.dir:%s:%zu:%d:%s%s", d == 0 ? "c" : "s", x->n, nrec, framed ? "f" : "-", plain ? "P" : "");
}

static void run_case(void) {
  size_t cidl = 0, ckl = 0, shl = 0, skl = 0;
  uint8_t *cid = NULL, *ck = NULL, *sh, *sk;
  uint8_t buf[2048];
  tr_len = 0;
  if (tr) tr[0] = 0;
  for (int d = 0; d < 2; d++) g_dir[d].n = 0;
  hs_ok[0] = hs_ok[1] = 0;
  n_rsp = 0;
  g_cs = g_ss = NULL;
  g_reading = NULL;
  g_in_send = g_wait_timeout = 0;
  if (vntok < 10) { printf("ERROR short case\n"); return; }
  if (strcmp(vtok[2], "-")) cid = hexfield(vtok[2], strlen(vtok[2]), &cidl);
  if (strcmp(vtok[3], "-")) ck = hexfield(vtok[3], strlen(vtok[3]), &ckl);
  const char *csni = strcmp(vtok[4], "-") ? vtok[4] : NULL;
  parse_table(&t_cih, vtok[5], 3);
  sh = hexfield(vtok[6], strlen(vtok[6]), &shl);
  sk = hexfield(vtok[7], strlen(vtok[7]), &skl);
  parse_table(&t_sids, vtok[8], 2);
  parse_table(&t_ssni, vtok[9], 3);

  g_srv = coap_new_context(NULL);
  g_cli = coap_new_context(NULL);
  coap_dtls_spsk_t sp;
  memset(&sp, 0, sizeof(sp));
  sp.version = COAP_DTLS_SPSK_SETUP_VERSION;
  sp.psk_info.hint.s = sh; sp.psk_info.hint.length = shl;
  sp.psk_info.key.s = sk; sp.psk_info.key.length = skl;
  if (t_sids.present) sp.validate_id_call_back = cb_id;
  if (t_ssni.present) sp.validate_sni_call_back = cb_sni;
  coap_context_set_psk2(g_srv, &sp);
  coap_address_t a;
  coap_address_init(&a);
  a.size = sizeof(struct sockaddr_in);
  a.addr.sin.sin_family = AF_INET;
  a.addr.sin.sin_addr.s_addr = htonl(0x7f000001u);
  a.addr.sin.sin_port = 0;
  coap_endpoint_t *ep = coap_new_endpoint(g_srv, &a, COAP_PROTO_TLS);
  if (!ep) { emit("a.noep"); goto out; }
  coap_resource_t *r = coap_resource_init(coap_make_str_const(PATH), 0);
  coap_register_request_handler(r, COAP_REQUEST_POST, on_post);
  coap_add_resource(g_srv, r);
  coap_register_event_handler(g_srv, on_event);
  coap_register_nack_handler(g_srv, on_nack);
  coap_register_response_handler(g_cli, on_resp);
  coap_register_nack_handler(g_cli, on_nack);
  coap_register_event_handler(g_cli, on_event);
  coap_context_set_csm_timeout_ms(g_cli, 1000);
  coap_context_set_csm_timeout_ms(g_srv, 1000);

  for (int i = 10; i < vntok; i++) {
    const char *op = vtok[i];
    emit("|%s", op);
    if (op[0] == 'C' && !g_cs) {
      coap_dtls_cpsk_t cp;
      memset(&cp, 0, sizeof(cp));
      cp.version = COAP_DTLS_CPSK_SETUP_VERSION;
      cp.psk_info.identity.s = cid; cp.psk_info.identity.length = cidl;
      cp.psk_info.key.s = ck; cp.psk_info.key.length = ckl;
      cp.client_sni = (char *)csni;
      if (t_cih.present) cp.validate_ih_call_back = cb_ih;
      g_cs = coap_new_client_session_psk2(g_cli, NULL, &ep->bind_addr, COAP_PROTO_TLS, &cp);
      if (!g_cs) emit("a.nocs");
      else if (op[1]) rounds(atoi(op + 1), 0, -1);    /* C<n>: only n rounds */
      else rounds(3000, 1, -1);
    } else if ((op[0] == 'q' || op[0] == 'w') && g_cs) {
      int k = atoi(op + 2);
      /* libcoap waits for a session that is coming up (coap_client_delay_first) already in
       * coap_new_pdu (via coap_session_max_pdu_size) and again in coap_send */
      emit("a.send:%d:%d", k, op[1] == 'c');
      g_in_send = 1;
      g_wait_iter = 0;
      g_wait_timeout = op[0] == 'w';
      coap_pdu_t *p = coap_new_pdu(op[1] == 'c' ? COAP_MESSAGE_CON : COAP_MESSAGE_NON,
                                   COAP_REQUEST_CODE_POST, g_cs);
      uint8_t tok[8];
      size_t tl;
      coap_session_new_token(g_cs, &tl, tok);
      coap_add_token(p, tl, tok);
      coap_add_option(p, COAP_OPTION_URI_PATH, strlen(PATH), (const uint8_t *)PATH);
      int n = snprintf((char *)buf, sizeof(buf), "Q%d:" MARK, k);
      coap_add_data(p, (size_t)n, buf);
      int before = n_rsp;
      coap_mid_t m = coap_send(g_cs, p);
      g_in_send = 0;
      emit("a.q:%d:%d", k, (int)m);
      if (g_cs->state == COAP_SESSION_STATE_ESTABLISHED) wait_rsp(before, 1000.0);
    } else if (strcmp(op, "rel") == 0 && g_cs) {
      emit("a.rel");
      coap_session_release(g_cs);
      g_cs = NULL;
    } else if (op[0] == 'i' && (op[1] == 'c' || op[1] == 's')) {
      size_t n = 0;
      if (strncmp(op + 2, "@req", 4) == 0) {
        int k = atoi(op + 6);
        /* CoAP over TCP: Len nibble 13 + 1 extension byte, TKL 1, code POST, token, Uri-Path, payload */
        uint8_t body[200];
        size_t bl = 0;
        body[bl++] = 0xb0 | (uint8_t)strlen(PATH);
        memcpy(body + bl, PATH, strlen(PATH)); bl += strlen(PATH);
        body[bl++] = 0xff;
        bl += (size_t)sprintf((char *)body + bl, "Q%d:INJECTED-" MARK, k);
        buf[n++] = 0xd1;
        buf[n++] = (uint8_t)(bl - 13);
        buf[n++] = 0x02;
        buf[n++] = 0xee;
        memcpy(buf + n, body, bl); n += bl;
      } else {
        uint8_t *b = bytes_of_tok(op + 2, &n);
        if (n > 1000) n = 1000;
        memcpy(buf, b, n);
        free(b);
      }
      /* the bytes really travel: written to the sender's socket behind what TLS wrote so far */
      coap_session_t *from = op[1] == 'c' ? g_cs : g_ss;
      ssize_t w = -1;
      if (from && from->sock.fd >= 0 && (from->sock.flags & COAP_SOCKET_CONNECTED))
        w = send(from->sock.fd, buf, n, MSG_NOSIGNAL | MSG_DONTWAIT);
      emit("n.inj:%s:%zd", op[1] == 'c' ? "s" : "c", w);
      rounds(200, 0, -1);
    } else if (op[0] == 'r') {
      if (op[1]) rounds(atoi(op + 1), 0, -1);
      else rounds(3000, 1, -1);                       /* r: until established / failed */
    }
    snapshot("c", g_cs);
    snapshot("s", g_ss);
  }
out:
  emit("|end");
  if (g_cs) {
    emit("a.rel");
    coap_session_release(g_cs);
  }
  g_cs = NULL;
  rounds(20, 0, -1);
  if (g_cli) coap_free_context(g_cli);
  rounds(0, 0, -1);
  if (g_srv) coap_free_context(g_srv);
  g_cli = g_srv = NULL;
  scan_dir(0);
  scan_dir(1);
  printf("%s\n", tr ? tr : "");
  free(cid); free(ck); free(sh); free(sk);
}

int main(void) {
  coap_startup();
  coap_set_log_level(COAP_LOG_EMERG);
  coap_dtls_set_log_level(COAP_LOG_EMERG);
  while (next_case(stdin)) {
    if (vntok == 0) printf("\n");
    else if (strcmp(vtok[0], "c19t") == 0) run_case();
    else printf("ERROR unknown case\n");
    fflush(stdout);
  }
  coap_cleanup();
  return 0;
}

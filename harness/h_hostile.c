/* C02 driver: hostile datagrams against live libcoap endpoints in several protocol states,
 * delivered through the library's real receive path (harness/common/vnet.h), followed by a
 * canary exchange that must still work.  Built as variant asan (ASan+UBSan: any out-of-bounds,
 * use-after-free or undefined behaviour aborts the process -> the runner reports CRASH for the
 * case) and as variant base for valgrind (uninitialised-value-dependent branches).
 *
 *   hz <state> <hex1> [<hex2> ...]
 *     state: fresh | obs | blk2 | blk1 | osc | qfresh | qb1 | qb2 (Q-Block enabled)  hostile datagrams go to a server endpoint from the
 *                                             peer that owns the ongoing observation / transfer
 *            client                           hostile datagrams go to a client session that has
 *                                             one Confirmable request outstanding
 *   result: one field per datagram  i<k>=<handler calls>:<datagrams emitted>:<first reply>
 *           first reply = "-" or <type>.<code>;  then  canary=ok | canary=BAD(<why>)
 *
 * Logging runs at COAP_LOG_DEBUG into a discarding handler, so every coap_show_pdu / option
 * dump walks the hostile PDU as well.
 */
#include "coap3/coap_libcoap_build.h"
#include "common/util.h"
#include "common/vnet.h"

static int n_handler = 0;       /* application handler invocations (request + response) */
static int canary_hits = 0;
static int resp_hits = 0;
static uint8_t last_resp_tok[8];
static size_t last_resp_tok_len = 0;
static int last_resp_code = 0;
static uint8_t big_body[3000];
static unsigned obs_counter = 0;
static size_t max_body = 0;     /* longest body handed to a request handler in this case */

static void quiet_log(coap_log_t level, const char *message) { (void)level; (void)message; }

static void h_canary(coap_resource_t *r, coap_session_t *s, const coap_pdu_t *req,
                     const coap_string_t *q, coap_pdu_t *resp) {
  (void)r; (void)s; (void)req; (void)q;
  n_handler++; canary_hits++;
  coap_pdu_set_code(resp, COAP_RESPONSE_CODE_CONTENT);
  coap_add_data(resp, 2, (const uint8_t *)"ok");
}

static void h_obs(coap_resource_t *r, coap_session_t *s, const coap_pdu_t *req,
                  const coap_string_t *q, coap_pdu_t *resp) {
  char buf[16];
  (void)r; (void)s; (void)req; (void)q;
  n_handler++;
  coap_pdu_set_code(resp, COAP_RESPONSE_CODE_CONTENT);
  int n = snprintf(buf, sizeof(buf), "v%u", obs_counter);
  coap_add_data(resp, (size_t)n, (const uint8_t *)buf);
}

static void h_big(coap_resource_t *r, coap_session_t *s, const coap_pdu_t *req,
                  const coap_string_t *q, coap_pdu_t *resp) {
  n_handler++;
  coap_pdu_set_code(resp, COAP_RESPONSE_CODE_CONTENT);
  coap_add_data_large_response(r, s, req, resp, q, COAP_MEDIATYPE_TEXT_PLAIN, -1, 0,
                               sizeof(big_body), big_body, NULL, NULL);
}

static void h_put(coap_resource_t *r, coap_session_t *s, const coap_pdu_t *req,
                  const coap_string_t *q, coap_pdu_t *resp) {
  size_t len, off, total;
  const uint8_t *data;
  (void)r; (void)s; (void)q;
  n_handler++;
  if (coap_get_data_large(req, &len, &data, &off, &total) && len > max_body) max_body = len;
  coap_pdu_set_code(resp, COAP_RESPONSE_CODE_CHANGED);
}

static coap_response_t h_resp(coap_session_t *s, const coap_pdu_t *sent, const coap_pdu_t *rcv,
                              const coap_mid_t mid) {
  (void)s; (void)sent; (void)mid;
  n_handler++; resp_hits++;
  coap_bin_const_t t = coap_pdu_get_token(rcv);
  last_resp_tok_len = t.length > 8 ? 8 : t.length;
  memcpy(last_resp_tok, t.s, last_resp_tok_len);
  last_resp_code = coap_pdu_get_code(rcv);
  return COAP_RESPONSE_OK;
}

static void h_nack(coap_session_t *s, const coap_pdu_t *sent, const coap_nack_reason_t reason,
                   const coap_mid_t mid) {
  (void)s; (void)sent; (void)reason; (void)mid;
}

static coap_context_t *mk_server(coap_endpoint_t **ep, int with_oscore, int with_qblock) {
  coap_context_t *ctx = coap_new_context(NULL);
  coap_resource_t *r;
  if (!ctx) return NULL;
  if (with_oscore) {
    /* an OSCORE security context (RFC 8613 C.1 test keys): OSCORE options of hostile datagrams
     * are decoded, contexts looked up, AAD/nonce built and decryption attempted */
    static const char conf_txt[] =
      "master_secret,hex,\"0102030405060708090a0b0c0d0e0f10\"\n"
      "master_salt,hex,\"9e7ca92223786340\"\n"
      "sender_id,hex,\"01\"\nrecipient_id,hex,\"\"\nrecipient_id,hex,\"02\"\n"
      "replay_window,integer,32\n";
    coap_str_const_t mem;
    mem.s = (const uint8_t *)conf_txt;
    mem.length = sizeof(conf_txt) - 1;
    coap_oscore_conf_t *conf = coap_new_oscore_conf(mem, NULL, NULL, 0);
    if (!conf || !coap_context_oscore_server(ctx, conf)) {
      coap_free_context(ctx);
      return NULL;
    }
  }
  coap_context_set_block_mode(ctx, COAP_BLOCK_USE_LIBCOAP | COAP_BLOCK_SINGLE_BODY |
                              (with_qblock ? COAP_BLOCK_TRY_Q_BLOCK : 0));
  *ep = vn_new_server_ep(ctx);
  r = coap_resource_init(coap_make_str_const("canary"), 0);
  coap_register_request_handler(r, COAP_REQUEST_GET, h_canary);
  coap_add_resource(ctx, r);
  r = coap_resource_init(coap_make_str_const("obs"), 0);
  coap_register_request_handler(r, COAP_REQUEST_GET, h_obs);
  coap_resource_set_get_observable(r, 1);
  coap_add_resource(ctx, r);
  r = coap_resource_init(coap_make_str_const("big"), 0);
  coap_register_request_handler(r, COAP_REQUEST_GET, h_big);
  coap_add_resource(ctx, r);
  r = coap_resource_init(coap_make_str_const("put"), 0);
  coap_register_request_handler(r, COAP_REQUEST_PUT, h_put);
  coap_add_resource(ctx, r);
  return ctx;
}

/* fire timers until the library asks for no more, at most span ms of virtual time */
static void run_timers(coap_context_t *ctx, coap_tick_t span) {
  coap_tick_t end = vn_now + span;
  for (int guard = 0; guard < 400; guard++) {
    unsigned w = vn_prepare(ctx);
    if (w == 0 || vn_now + w > end) break;
    vn_advance(w);
  }
  vn_now = end;
  vn_prepare(ctx);
}

static void show_first_reply(size_t from) {
  if (vn_nout <= from) { fputs("-", stdout); return; }
  const vn_dgram_t *d = &vn_out[from];
  if (d->len < 4) { fputs("runt", stdout); return; }
  printf("%u.%u", (d->data[0] >> 4) & 3, d->data[1]);
}

/* canary GET /canary from peer addr with the given mid/token byte; 1 = answered 2.05 "ok" */
static int canary_from(coap_context_t *srv, coap_endpoint_t *ep, const coap_address_t *peer,
                       unsigned mid, uint8_t tok, const char **why) {
  uint8_t req[] = {0x41, 0x01, (uint8_t)(mid >> 8), (uint8_t)mid, tok,
                   0xb6, 'c', 'a', 'n', 'a', 'r', 'y'};
  size_t before = vn_nout;
  int hits = canary_hits;
  vn_inject_ep(srv, ep, peer, NULL, req, sizeof(req));
  if (canary_hits != hits + 1) { *why = "canary handler not invoked once"; return 0; }
  for (size_t i = before; i < vn_nout; i++) {
    const vn_dgram_t *d = &vn_out[i];
    if (!coap_address_equals(&d->dst, peer)) continue;
    if (d->len >= 8 && d->data[0] == 0x61 && d->data[1] == 0x45 &&
        d->data[2] == (uint8_t)(mid >> 8) && d->data[3] == (uint8_t)mid && d->data[4] == tok &&
        d->data[d->len - 3] == 0xff && d->data[d->len - 2] == 'o' && d->data[d->len - 1] == 'k')
      return 1;
  }
  *why = "no ACK 2.05 ok for the canary";
  return 0;
}

static void server_case(const char *state) {
  coap_endpoint_t *ep = NULL;
  coap_context_t *srv = mk_server(&ep, !strcmp(state, "osc"), state[0] == 'q');
  coap_address_t peer, peer2;
  const char *why = "";
  if (!srv || !ep) { puts("SETUPFAIL"); return; }
  vn_addr4(&peer, 0x0a000001u, 40001);
  vn_addr4(&peer2, 0x0a000002u, 40002);
  if (!strcmp(state, "obs")) {
    static const uint8_t reg[] = {0x42, 0x01, 0x10, 0x01, 0xaa, 0xbb, 0x60, 0x53, 'o', 'b', 's'};
    vn_inject_ep(srv, ep, &peer, NULL, reg, sizeof(reg));
    obs_counter++;
    coap_resource_notify_observers(coap_get_resource_from_uri_path(srv,
                                   coap_make_str_const("obs")), NULL);
    vn_prepare(srv);
  } else if (!strcmp(state, "blk2")) {
    static const uint8_t get[] = {0x42, 0x01, 0x10, 0x02, 0xcc, 0xdd, 0xb3, 'b', 'i', 'g',
                                  0xc1, 0x02};
    vn_inject_ep(srv, ep, &peer, NULL, get, sizeof(get));
  } else if (!strcmp(state, "blk1")) {
    uint8_t put[12 + 64] = {0x42, 0x03, 0x10, 0x03, 0xee, 0xff, 0xb3, 'p', 'u', 't',
                            0xd1, 0x03, 0x0a, 0xff};
    /* header 4 + token 2 + Uri-Path 4 + Block1 3 + marker 1 = 14, then 62 payload bytes would
     * not be a full 64-byte block: send exactly 64 */
    uint8_t msg[14 + 64];
    memcpy(msg, put, 14);
    for (int i = 0; i < 64; i++) msg[14 + i] = (uint8_t)i;
    vn_inject_ep(srv, ep, &peer, NULL, msg, sizeof(msg));
  }
  else if (!strcmp(state, "qb1")) {
    /* RFC 9177: NON PUT /put, Q-Block1 (19) NUM 0 M=1 SZX 2, 64 bytes */
    uint8_t msg[13 + 64] = {0x52, 0x03, 0x10, 0x05, 0xe1, 0xe2, 0xb3, 'p', 'u', 't', 0x81, 0x0a,
                            0xff};
    size_t n = 13;
    for (int i = 0; i < 64; i++) msg[n++] = (uint8_t)(i + 1);
    vn_inject_ep(srv, ep, &peer, NULL, msg, n);
  } else if (!strcmp(state, "qb2")) {
    /* NON GET /big with Q-Block2 NUM 0 M=1 SZX 2: the server sends a burst of blocks */
    static const uint8_t get[] = {0x52, 0x01, 0x10, 0x06, 0xd1, 0xd2, 0xb3, 'b', 'i', 'g',
                                  0xd1, 0x07, 0x0a};
    vn_inject_ep(srv, ep, &peer, NULL, get, sizeof(get));
  }
  int setup_handlers = n_handler;
  (void)setup_handlers;
  for (int i = 2; i < vntok; i++) {
    size_t n;
    uint8_t *b = bytes_of_tok(vtok[i], &n);
    int h0 = n_handler;
    size_t o0 = vn_nout;
    vn_inject_ep(srv, ep, &peer, NULL, b, n);
    printf("i%d=%d:%zu:", i - 2, n_handler - h0, vn_nout - o0);
    show_first_reply(o0);
    fputc(' ', stdout);
    free(b);
    vn_advance(10);
    vn_prepare(srv);
  }
  /* canary right away from the same peer and from a fresh one, then again after every timer
   * of the ongoing state machines has fired */
  int ok = canary_from(srv, ep, &peer, 0x7001, 0x71, &why) &&
           canary_from(srv, ep, &peer2, 0x7002, 0x72, &why);
  if (ok) {
    run_timers(srv, 400 * 1000);
    ok = canary_from(srv, ep, &peer, 0x7003, 0x73, &why) &&
         canary_from(srv, ep, &peer2, 0x7004, 0x74, &why);
  }
  printf("maxbody=%zu ", max_body);
  max_body = 0;
  if (ok) puts("canary=ok");
  else printf("canary=BAD(%s)\n", why);
  coap_free_context(srv);
  vn_nnodes = 0;
  vn_log_reset();
}

static void client_case(const char *state) {
  coap_context_t *cli = coap_new_context(NULL);
  coap_address_t server;
  const char *why = "";
  int ok = 1;
  if (!cli) { puts("SETUPFAIL"); return; }
  coap_context_set_block_mode(cli, COAP_BLOCK_USE_LIBCOAP | COAP_BLOCK_SINGLE_BODY);
  coap_register_response_handler(cli, h_resp);
  coap_register_nack_handler(cli, h_nack);
  vn_addr4(&server, VN_LOOPBACK, 5683);
  coap_session_t *s = vn_new_client(cli, &server);
  if (!s) { puts("SETUPFAIL"); coap_free_context(cli); return; }
  /* cq2: as after a successful Q-Block probe (the probe itself makes coap_send() wait in real
   * I/O for its answer, which a scripted network cannot give from inside that call) */
  if (!strcmp(state, "cq2")) s->block_mode |= COAP_BLOCK_HAS_Q_BLOCK;
  /* the outstanding request: CON GET /x with a fixed token */
  coap_pdu_t *p = coap_new_pdu(COAP_MESSAGE_CON, COAP_REQUEST_CODE_GET, s);
  static const uint8_t tok[] = {0x11, 0x22};
  coap_add_token(p, 2, tok);
  if (!strcmp(state, "cobs")) coap_add_option(p, COAP_OPTION_OBSERVE, 0, NULL);
  coap_add_option(p, COAP_OPTION_URI_PATH, 1, (const uint8_t *)"x");
  {
    size_t o_req = vn_nout;
    coap_send(s, p);
    if (strcmp(state, "client") && vn_nout > o_req && vn_out[o_req].len >= 4) {
      const vn_dgram_t *rq = &vn_out[o_req];
      if (!strcmp(state, "cblk2")) {
        /* first block of a block-wise response: ACK 2.05, Block2 (23 = 13 + 10) NUM 0 M=1
         * SZX 2, 64 bytes */
        uint8_t m[10 + 64] = {0x62, 0x45, rq->data[2], rq->data[3], 0x11, 0x22, 0xd1, 0x0a, 0x0a,
                              0xff};
        for (int i = 0; i < 64; i++) m[10 + i] = (uint8_t)(i + 3);
        vn_inject_session(cli, s, m, sizeof(m));
      } else if (!strcmp(state, "cq2")) {
        /* first block of a Q-Block2 burst: NON 2.05, Q-Block2 (31 = 13 + 18) NUM 0 M=1 SZX 2 */
        uint8_t m[10 + 64] = {0x52, 0x45, 0x33, 0x01, 0x11, 0x22, 0xd1, 0x12, 0x0a, 0xff};
        for (int i = 0; i < 64; i++) m[10 + i] = (uint8_t)(i + 5);
        vn_inject_session(cli, s, m, 10 + 64);
      } else if (!strcmp(state, "cobs")) {
        /* registration accepted: ACK 2.05 with Observe 5 */
        uint8_t m[] = {0x62, 0x45, rq->data[2], rq->data[3], 0x11, 0x22, 0x61, 0x05, 0xff, 'v'};
        vn_inject_session(cli, s, m, sizeof(m));
      }
      vn_advance(10);
      vn_prepare(cli);
    }
  }
  for (int i = 2; i < vntok; i++) {
    size_t n;
    uint8_t *b = bytes_of_tok(vtok[i], &n);
    int h0 = n_handler;
    size_t o0 = vn_nout;
    vn_inject_session(cli, s, b, n);
    printf("i%d=%d:%zu:", i - 2, n_handler - h0, vn_nout - o0);
    show_first_reply(o0);
    fputc(' ', stdout);
    free(b);
    vn_advance(10);
    vn_prepare(cli);
  }
  /* let every outstanding exchange time out, then a fresh request must be sent and its
   * piggybacked response must reach the handler */
  run_timers(cli, 400 * 1000);
  size_t o0 = vn_nout;
  p = coap_new_pdu(COAP_MESSAGE_CON, COAP_REQUEST_CODE_GET, s);
  static const uint8_t tok2[] = {0x33, 0x44, 0x55};
  if (!p) { ok = 0; why = "no pdu"; }
  if (ok) {
    coap_add_token(p, 3, tok2);
    coap_add_option(p, COAP_OPTION_URI_PATH, 6, (const uint8_t *)"canary");
    if (coap_send(s, p) == COAP_INVALID_MID) { ok = 0; why = "coap_send failed"; }
  }
  if (ok) {
    const vn_dgram_t *req = NULL;
    for (size_t i = o0; i < vn_nout; i++)
      if (vn_out[i].len >= 7 && (vn_out[i].data[0] & 0x0f) == 3 &&
          !memcmp(vn_out[i].data + 4, tok2, 3))
        req = &vn_out[i];
    if (!req) { ok = 0; why = "canary request not transmitted"; }
    else {
      uint8_t ack[] = {0x63, 0x45, req->data[2], req->data[3], 0x33, 0x44, 0x55, 0xff, 'o', 'k'};
      int r0 = resp_hits;
      vn_inject_session(cli, s, ack, sizeof(ack));
      if (resp_hits != r0 + 1 || last_resp_tok_len != 3 || memcmp(last_resp_tok, tok2, 3) ||
          last_resp_code != 0x45) {
        ok = 0; why = "canary response not delivered once";
      }
    }
  }
  if (ok) puts("canary=ok");
  else printf("canary=BAD(%s)\n", why);
  vn_unregister_client(s);
  coap_session_release(s);
  coap_free_context(cli);
  vn_nnodes = 0;
  vn_log_reset();
}

int main(void) {
  coap_startup();
  coap_set_log_handler(quiet_log);
  coap_set_show_pdu_output(0);
  coap_set_log_level(getenv("VERIF_LOG_QUIET") ? COAP_LOG_EMERG : COAP_LOG_DEBUG);
  for (size_t i = 0; i < sizeof(big_body); i++) big_body[i] = (uint8_t)(i * 7 + 3);
  while (next_case(stdin)) {
    if (vntok < 2 || strcmp(vtok[0], "hz")) { puts("ERROR"); fflush(stdout); continue; }
    vn_prng_seed(11);
    vn_now = 1000;
    if (vtok[1][0] == 'c') client_case(vtok[1]);
    else server_case(vtok[1]);
    fflush(stdout);
  }
  coap_cleanup();
  return 0;
}

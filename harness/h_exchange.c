/* C07 driver: a real libcoap client session under the scripted network of common/vnet.h.
 *
 * Build: vlib.build_driver("h_exchange", ["h_exchange.c"],
 *                          wraps=["coap_ticks", "coap_socket_send", "coap_socket_recv"])
 *
 * Two commands, one case per line, one result line per case.
 *
 * exc <maxr> <mid0> <tok0> <input>*
 *     explicit client inputs, scripted peer (the harness speaks raw CoAP); same case format and
 *     same result format as the model's handler of the same name (ocaml/d_exchange.ml):
 *       S<sty>                       the application sends a CON GET (skipped when a request is
 *                                    still in the send queue)
 *       T                            advance the virtual clock to the client's next timer, fire it
 *       R:<kind>:<mid>:<tok>:<ok>    deliver a datagram from the peer; the response handler
 *                                    returns OK (1) / FAIL (0) if it is called
 *     result: "<input> > <out>,<out>..." joined by " | "
 *
 * exe K <real|rfc> P <prng seed> M <cmid0> <smid0> T <tok0: first token is tok0+1; -1: empty token> A <async delay ms> E <default delay ms> N <server nstart>
 *     Q <sty>:<ok>:<think ms> ...   F <fate> ...
 *     discrete-event run of whole exchanges: the application sends the requests of Q one after
 *     the other (the next one <think> ms after the previous one concluded: handler call or NACK
 *     for its token); every datagram sent by either side gets the next fate of F (x = lost,
 *     d1[+d2...] = delivered after d1 ms (and again after d2 ms ...)), datagrams beyond the table
 *     are delivered once after the default delay; timers of both sides fire punctually.
 *     The server is a real libcoap server context in the same process (K real; resources p, c,
 *     n, a, b answer piggybacked / by a separate CON or NON sent from the handler / by
 *     coap_register_async with a CON or NON response) or a scripted RFC 7252 server that
 *     de-duplicates requests by message id (K rfc).
 *     result: the client's observed steps (as for exc) || times=.. || log=.. || end=..
 *             || srv=<initial tx_mid of the server session> <the real server's steps: X:<datagram
 *             received> > <datagrams sent>, TS > <datagrams sent by its timers>>
 *
 * Observed without any source change: datagrams at coap_socket_send (ld --wrap), the response
 * and nack handlers, the virtual clock.  The harness writes session->tx_mid / tx_token /
 * max_retransmit to make the case deterministic, and reads context->sendqueue to skip a send
 * while a request is outstanding.
 */
#include "coap3/coap_libcoap_build.h"
#include "common/util.h"
#include "common/vnet.h"
#include <stdarg.h>
#include <unistd.h>

/* ------------------------------------------------------------------ string builders */
typedef struct { char *s; size_t n, cap; } sb_t;
static void sb_add(sb_t *b, const char *fmt, ...) {
  va_list ap;
  char tmp[512];
  va_start(ap, fmt);
  int k = vsnprintf(tmp, sizeof(tmp), fmt, ap);
  va_end(ap);
  if (k < 0) return;
  if ((size_t)k >= sizeof(tmp)) k = sizeof(tmp) - 1;
  if (b->n + (size_t)k + 1 > b->cap) {
    b->cap = (b->cap ? b->cap * 2 : 4096) + (size_t)k;
    b->s = (char *)realloc(b->s, b->cap);
  }
  memcpy(b->s + b->n, tmp, (size_t)k + 1);
  b->n += (size_t)k;
}
static void sb_reset(sb_t *b) { b->n = 0; if (b->s) b->s[0] = 0; }

static sb_t steps, outs, times;
static int nsteps = 0, nouts = 0, recording = 0;

static void out_add(const char *fmt, ...) {
  va_list ap;
  char tmp[256];
  if (!recording) return;
  va_start(ap, fmt);
  vsnprintf(tmp, sizeof(tmp), fmt, ap);
  va_end(ap);
  sb_add(&outs, "%s%s", nouts ? "," : "", tmp);
  nouts++;
}
static void step_begin(void) { sb_reset(&outs); nouts = 0; recording = 1; }
static void step_end(const char *input) {
  recording = 0;
  sb_add(&steps, "%s%s > %s", nsteps ? " | " : "", input, nouts ? outs.s : "-");
  sb_add(&times, "%s%llu", nsteps ? "," : "", (unsigned long long)vn_now);
  nsteps++;
}

/* ------------------------------------------------------------------ datagram description */
static unsigned long long tokval(const uint8_t *p, size_t n) {
  unsigned long long v = 0;
  for (size_t i = 0; i < n && i < 8; i++) v = (v << 8) | p[i];
  return v;
}
static size_t tokenc(unsigned long long v, uint8_t *p) {
  size_t n = 0;
  unsigned long long t = v;
  while (t) { n++; t >>= 8; }
  for (size_t i = 0; i < n; i++) p[i] = (uint8_t)(v >> (8 * (n - 1 - i)));
  return n;
}
/* styles 5 (u) and 6 (v) are the untimed forms of 3 and 4: coap_register_async(.., 0) and a
 * later coap_async_trigger() by the application.  On the wire and for the (untimed) model they
 * are the same as 3 and 4, so every description uses the canonical number. */
static int raw_style_of_char(int c) {
  switch (c) { case 'p': return 0; case 'c': return 1; case 'n': return 2; case 'a': return 3;
               case 'b': return 4; case 'u': return 5; case 'v': return 6; default: return 9; }
}
static int canon_style(int s) { return s == 5 ? 3 : s == 6 ? 4 : s; }
static int style_of_char(int c) { return canon_style(raw_style_of_char(c)); }
static const char style_chars[] = "pcnabuv";
#define NSTYLES 7

typedef struct { int ok, type, code, mid, tkl, sty; unsigned long long tok; } dg_t;
static dg_t dg_parse(const uint8_t *d, size_t len) {
  dg_t g;
  memset(&g, 0, sizeof(g));
  if (len < 4 || (d[0] >> 6) != 1) return g;
  g.type = (d[0] >> 4) & 3;
  g.tkl = d[0] & 15;
  g.code = d[1];
  g.mid = (d[2] << 8) | d[3];
  if (g.tkl > 8 || 4 + (size_t)g.tkl > len) return g;
  g.tok = tokval(d + 4, (size_t)g.tkl);
  g.sty = 9;
  size_t o = 4 + (size_t)g.tkl;
  if (o + 1 < len && d[o] == 0xb1) g.sty = style_of_char(d[o + 1]);
  g.ok = 1;
  return g;
}
/* req:m:k:s | ack:m | rst:m | ackr:m:k | conr:m:k | nonr:m:k | other:<hex> */
static void dg_describe(char *buf, size_t n, const uint8_t *d, size_t len) {
  dg_t g = dg_parse(d, len);
  if (g.ok && g.code >= 1 && g.code <= 31 && g.type == 0)
    snprintf(buf, n, "req:%d:%llu:%d", g.mid, g.tok, g.sty);
  else if (g.ok && g.code == 0 && g.type == 2 && len == 4) snprintf(buf, n, "ack:%d", g.mid);
  else if (g.ok && g.code == 0 && g.type == 3 && len == 4) snprintf(buf, n, "rst:%d", g.mid);
  else if (g.ok && g.code >= 64 && g.type == 2) snprintf(buf, n, "ackr:%d:%llu", g.mid, g.tok);
  else if (g.ok && g.code >= 64 && g.type == 0) snprintf(buf, n, "conr:%d:%llu", g.mid, g.tok);
  else if (g.ok && g.code >= 64 && g.type == 1) snprintf(buf, n, "nonr:%d:%llu", g.mid, g.tok);
  else {
    size_t k = (size_t)snprintf(buf, n, "other:");
    for (size_t i = 0; i < len && k + 3 < n; i++) k += (size_t)snprintf(buf + k, n - k, "%02x", d[i]);
  }
}
/* the same datagram as an input of the client: R:<kind>:<mid>:<tok>:<ok> */
static void dg_as_input(char *buf, size_t n, const uint8_t *d, size_t len, int ok) {
  dg_t g = dg_parse(d, len);
  const char *kd = "xx";
  if (g.ok && g.code == 0 && g.type == 2) kd = "ae";
  else if (g.ok && g.code == 0 && g.type == 3) kd = "rs";
  else if (g.ok && g.code >= 64 && g.type == 2) kd = "ar";
  else if (g.ok && g.code >= 64 && g.type == 0) kd = "cr";
  else if (g.ok && g.code >= 64 && g.type == 1) kd = "nr";
  snprintf(buf, n, "R:%s:%d:%llu:%d", kd, g.mid, g.tok, ok);
}

/* ------------------------------------------------------------------ client side */
static coap_context_t *cli = NULL, *srv = NULL;
static coap_session_t *cs = NULL;
static coap_session_t *sb = NULL;      /* exc: shadow session of the same context, see do_exc */
static int sb_nacks = 0;
static coap_endpoint_t *ep = NULL;
static int cur_ok = 1;                 /* verdict of the next handler call (exc) */
#define MAXREQ 64
static struct { int mid; unsigned long long tok; int ok; int nresp, nnack; } reqs[MAXREQ];
static int nreqs = 0;
static int use_tok_verdict = 0;        /* exe: verdict by token */
static long long app_out = -1;         /* exe: index into reqs of the outstanding exchange */
static coap_tick_t app_idle_since = 0;

static int req_by_tok(unsigned long long tok) {
  for (int i = nreqs - 1; i >= 0; i--) if (reqs[i].tok == tok) return i;
  return -1;
}
static int verdict_for(unsigned long long tok) {
  if (!use_tok_verdict) return cur_ok;
  int i = req_by_tok(tok);
  return i < 0 ? 1 : reqs[i].ok;
}

static coap_response_t on_resp(coap_session_t *s, const coap_pdu_t *sent, const coap_pdu_t *rcv,
                               const coap_mid_t mid) {
  if (sb && s == sb) { out_add("!shadow-session-got-a-response"); return COAP_RESPONSE_OK; }
  coap_bin_const_t t = coap_pdu_get_token(rcv);
  unsigned long long tok = tokval(t.s, t.length);
  long long st = -1;
  if (sent) {
    coap_bin_const_t t2 = coap_pdu_get_token(sent);
    st = (long long)tokval(t2.s, t2.length);
  }
  out_add("resp:%d:%d:%llu:%lld", (int)coap_pdu_get_type(rcv), (int)mid, tok, st);
  int i = req_by_tok(tok);
  if (i >= 0) {
    reqs[i].nresp++;
    if (app_out == i) { app_out = -1; app_idle_since = vn_now; }
  }
  return verdict_for(tok) ? COAP_RESPONSE_OK : COAP_RESPONSE_FAIL;
}

static void on_nack(coap_session_t *s, const coap_pdu_t *sent, const coap_nack_reason_t reason,
                    const coap_mid_t mid) {
  if (sb && s == sb) { sb_nacks++; return; }
  if (sent) {
    coap_bin_const_t t = coap_pdu_get_token(sent);
    unsigned long long tok = tokval(t.s, t.length);
    out_add("nack:%llu:%d:%d", tok, (int)reason, (int)mid);
    int i = req_by_tok(tok);
    if (i >= 0) {
      reqs[i].nnack++;
      if (app_out == i) { app_out = -1; app_idle_since = vn_now; }
    }
  } else {
    out_add("nackn:%d:%d", (int)reason, (int)mid);
  }
}

/* a (broken) library that sends without end must not take the machine down: the case is given
 * up, the process exits with status 3 and the check reports the crash */
#define RUNAWAY_DGRAMS 200000
static void hook_send(size_t idx) {
  if (vn_nout > RUNAWAY_DGRAMS) {
    fputs("runaway: more than 200000 datagrams in one case\n", stderr);
    _exit(3);
  }
  if (vn_out[idx].ctx == cli && cli && vn_out[idx].session == cs) {
    char b[160];
    dg_describe(b, sizeof(b), vn_out[idx].data, vn_out[idx].len);
    out_add("tx:%s", b);
  }
}

/* the application sends a CON GET /<style>; returns 0 when skipped */
/* the node of a session in the context's send queue, and when it is due */
static coap_queue_t *queue_node(coap_session_t *s, coap_tick_t *due) {
  coap_tick_t t = cli->sendqueue_basetime;
  for (coap_queue_t *q = cli->sendqueue; q; q = q->next) {
    t += q->t;
    if (q->session == s) { if (due) *due = t; return q; }
  }
  return NULL;
}

static int app_method = COAP_REQUEST_CODE_GET;   /* H<n> in exc, H <n> in exe */
static int app_send(int sty, int ok) {
  if (queue_node(cs, NULL) != NULL || cs->delayqueue != NULL) {
    out_add("skip");
    return 0;
  }
  coap_pdu_t *p = coap_new_pdu(COAP_MESSAGE_CON, (coap_pdu_code_t)app_method, cs);
  uint8_t tok[8];
  size_t tl;
  coap_session_new_token(cs, &tl, tok);
  coap_add_token(p, tl, tok);
  char path = (sty >= 0 && sty < NSTYLES) ? style_chars[sty] : 'z';
  coap_add_option(p, COAP_OPTION_URI_PATH, 1, (const uint8_t *)&path);
  if (nreqs < MAXREQ) {
    reqs[nreqs].mid = coap_pdu_get_mid(p);
    reqs[nreqs].tok = tokval(tok, tl);
    reqs[nreqs].ok = ok;
    reqs[nreqs].nresp = reqs[nreqs].nnack = 0;
    app_out = nreqs;
    nreqs++;
  }
  coap_send(cs, p);
  return 1;
}

static int block_mode_on = 0;   /* env C07_BLOCK_MODE=1: contexts run with COAP_BLOCK_USE_LIBCOAP */
static void client_setup(const coap_address_t *server, int maxr, int mid0, long long tok0) {
  cli = coap_new_context(NULL);
  if (block_mode_on) coap_context_set_block_mode(cli, COAP_BLOCK_USE_LIBCOAP);
  coap_register_response_handler(cli, on_resp);
  coap_register_nack_handler(cli, on_nack);
  cs = vn_new_client(cli, server);
  if (!cs) { puts("ERROR no client session"); exit(2); }
  if (maxr >= 0) coap_session_set_max_retransmit(cs, (uint16_t)maxr);
  if (mid0 >= 0) cs->tx_mid = (uint16_t)mid0;
  if (tok0 >= 0) cs->tx_token = (uint64_t)tok0;
  else if (tok0 == -1) cs->tx_token = UINT64_MAX;   /* the first token is 0: zero length on the wire */
  nreqs = 0;
  app_out = -1;
  vn_on_send = hook_send;
}

static void all_teardown(void) {
  recording = 0;
  vn_on_send = NULL;
  if (sb) { coap_session_release(sb); sb = NULL; }
  if (cs) { vn_unregister_client(cs); coap_session_release(cs); cs = NULL; }
  if (cli) { coap_free_context(cli); cli = NULL; }
  if (srv) { coap_free_context(srv); srv = NULL; ep = NULL; }
  vn_log_reset();
  vn_nnodes = 0;
}

/* resolve "m<j>" / "k<j>" (j-th most recent request sent) or a number */
static long long resolve(const char *s) {
  if ((s[0] == 'm' || s[0] == 'k') && s[1]) {
    int j = atoi(s + 1);
    if (j >= 0 && j < nreqs)
      return s[0] == 'm' ? reqs[nreqs - 1 - j].mid : (long long)reqs[nreqs - 1 - j].tok;
    return -1;      /* no such request: the input is skipped */
  }
  return atoll(s);
}

/* raw datagram of the scripted peer */
static size_t peer_bytes(uint8_t *b, const char *kind, int mid, unsigned long long tok) {
  uint8_t t[8];
  size_t tl = tokenc(tok, t), n = 0;
  int type = 0, code = 0x45, with_tok = 1;
  if (!strcmp(kind, "ae")) { type = 2; code = 0; with_tok = 0; }
  else if (!strcmp(kind, "rs")) { type = 3; code = 0; with_tok = 0; }
  else if (!strcmp(kind, "ar") || !strcmp(kind, "ax")) type = 2;
  else if (!strcmp(kind, "cr")) type = 0;
  else if (!strcmp(kind, "nr")) type = 1;
  if (!with_tok) tl = 0;
  b[n++] = (uint8_t)(0x40 | (type << 4) | tl);
  b[n++] = (uint8_t)code;
  b[n++] = (uint8_t)(mid >> 8);
  b[n++] = (uint8_t)mid;
  memcpy(b + n, t, tl);
  n += tl;
  if (!strcmp(kind, "ax")) b[n++] = 0x90;   /* experiment only (not generated, not modelled): a
                                               piggybacked response with the unassigned critical
                                               option 9 */
  if (code) { b[n++] = 0xff; b[n++] = 'r'; }
  return n;
}

static void do_exc(void) {
  if (vntok < 4) { puts("ERROR exc arguments"); return; }
  int maxr = atoi(vtok[1]), mid0 = atoi(vtok[2]);
  long long tok0 = atoll(vtok[3]);
  coap_address_t peer;
  vn_addr4(&peer, VN_LOOPBACK, 5683);
  vn_now = 1000;
  vn_prng_seed(11);
  client_setup(&peer, maxr, mid0, tok0);
  /* a second session of the same context towards another peer.  Whenever the session under
     test sends a request, the shadow session sends one with the same message id and the same
     token; nothing ever answers it.  Datagrams delivered to the session under test must leave the
     shadow's request alone (the send queue is shared by the sessions of a context). */
  {
    coap_address_t peer2;
    vn_addr4(&peer2, VN_LOOPBACK, 5684);
    sb = coap_new_client_session(cli, NULL, &peer2, COAP_PROTO_UDP);
    if (sb && maxr >= 0) coap_session_set_max_retransmit(sb, (uint16_t)maxr);
    sb_nacks = 0;
  }
  use_tok_verdict = 0;
  app_method = COAP_REQUEST_CODE_GET;
  sb_reset(&steps); sb_reset(&times); nsteps = 0;
  for (int i = 4; i < vntok; i++) {
    const char *a = vtok[i];
    char in[128];
    if (a[0] == 'H') { app_method = atoi(a + 1); continue; }   /* method of the following sends */
    step_begin();
    int sb_before = sb && queue_node(sb, NULL) != NULL, sb_nacks_before = sb_nacks;
    if (a[0] == 'S') {
      int sty = atoi(a + 1);
      cur_ok = 1;
      if (app_send(sty, 1) && sb && !sb_before && sb->delayqueue == NULL && nreqs > 0) {
        sb->tx_mid = (uint16_t)(reqs[nreqs - 1].mid - 1);
        sb->tx_token = reqs[nreqs - 1].tok - 1;
        coap_pdu_t *p = coap_new_pdu(COAP_MESSAGE_CON, (coap_pdu_code_t)app_method, sb);
        uint8_t tk[8];
        size_t tl;
        coap_session_new_token(sb, &tl, tk);
        coap_add_token(p, tl, tk);
        coap_add_option(p, COAP_OPTION_URI_PATH, 1, (const uint8_t *)"p");
        coap_send(sb, p);
        sb_before = queue_node(sb, NULL) != NULL;
      }
      snprintf(in, sizeof(in), "S%d", sty);
    } else if (a[0] == 'T') {
      /* the retransmission timer of the queued request: advance to the due time of this
         session's node in the send queue (other timers of the client - lg_crcv expiry, the
         shadow session's retransmissions - are not inputs of the model); with nothing queued,
         let whatever timer there is pass */
      coap_queue_t *q0 = queue_node(cs, NULL);
      if (q0) {
        /* follow the waits the library reports until this session's node has fired (its
           retransmit count changed or it left the queue); no arithmetic on queue times here */
        unsigned cnt0 = q0->retransmit_cnt;
        for (int g = 0; g < 64; g++) {
          unsigned w = vn_prepare(cli);
          coap_queue_t *q1 = queue_node(cs, NULL);
          if (q1 != q0 || q1->retransmit_cnt != cnt0 || w == 0) break;
          vn_advance(w);
        }
      } else {
        unsigned w = vn_prepare(cli);
        if (w > 0) { vn_advance(w); vn_prepare(cli); }
      }
      snprintf(in, sizeof(in), "T");
    } else if (a[0] == 'R') {
      char kind[8] = "", ms[32] = "", ks[32] = "";
      int ok = 1;
      char tmp[128];
      strncpy(tmp, a, sizeof(tmp) - 1); tmp[sizeof(tmp) - 1] = 0;
      char *f[6]; int nf = 0;
      for (char *p = strtok(tmp, ":"); p && nf < 6; p = strtok(NULL, ":")) f[nf++] = p;
      if (nf == 5) {
        strncpy(kind, f[1], 7); strncpy(ms, f[2], 31); strncpy(ks, f[3], 31);
        ok = atoi(f[4]) != 0;
      }
      long long mid = resolve(ms), tok = resolve(ks);
      if (mid < 0 || tok < 0) { recording = 0; continue; }   /* refers to a request never sent */
      uint8_t b[64];
      size_t n = peer_bytes(b, kind, (int)(mid & 0xffff), (unsigned long long)tok);
      cur_ok = ok;
      vn_inject_session(cli, cs, b, n);
      if (!strcmp(kind, "ae") || !strcmp(kind, "rs")) tok = 0;
      snprintf(in, sizeof(in), "R:%s:%lld:%lld:%d", kind, mid, tok, ok);
    } else {
      snprintf(in, sizeof(in), "?%s", a);
    }
    if (sb_before && queue_node(sb, NULL) == NULL && sb_nacks == sb_nacks_before)
      out_add("!shadow-session-request-removed");
    step_end(in);
  }
  printf("%s\n", steps.s ? steps.s : "");
  all_teardown();
}


/* exw <n> <mid0> <mode>: message-id wrap experiment with a scripted peer.  mode 0: one exchange
 * answered piggybacked, then n exchanges answered by empty ACK + separate CON response, then one
 * more answered piggybacked.  mode 1: first and last answered by a separate CON response, the n in
 * between by a separate NON response (the peer's mids run 7000, 7001, ... mod 65536).  result: first=<mid> last=<mid> resp_last=<handler calls for the last
 * request> nack_last=<n> queued=<0|1> total_resp=<n> */
static void do_exw(void) {
  long n = vntok > 1 ? atol(vtok[1]) : 65535;
  int mid0 = vntok > 2 ? atoi(vtok[2]) : 100;
  int mode = vntok > 3 ? atoi(vtok[3]) : 0;   /* 0: first/last piggybacked, middle separate CON;
                                                 1: first/last separate CON, middle separate NON */
  coap_address_t peer;
  vn_addr4(&peer, VN_LOOPBACK, 5683);
  vn_now = 1000;
  vn_prng_seed(11);
  client_setup(&peer, 4, mid0, 0);
  use_tok_verdict = 0;
  cur_ok = 1;
  recording = 0;
  long total = 0;
  int first_mid = -1, last_mid = -1, last_resp = 0, last_nack = 0;
  uint8_t b[64];
  for (long e = 0; e <= n + 1; e++) {
    int edge = (e == 0 || e == n + 1);
    nreqs = 0;                         /* only the current request is tracked */
    app_send(edge && mode == 0 ? 0 : 1, 1);
    if (nreqs != 1) break;
    int mid = reqs[0].mid;
    unsigned long long tok = reqs[0].tok;
    if (e == 0) first_mid = mid;
    size_t len;
    if (edge && mode == 0) {
      len = peer_bytes(b, "ar", mid, tok);
      vn_inject_session(cli, cs, b, len);
    } else {
      len = peer_bytes(b, "ae", mid, 0);
      vn_inject_session(cli, cs, b, len);
      len = peer_bytes(b, (mode == 0 || edge) ? "cr" : "nr", (int)((7000 + e) & 0xffff), tok);
      vn_inject_session(cli, cs, b, len);
    }
    total += reqs[0].nresp;
    if (e == n + 1) { last_mid = mid; last_resp = reqs[0].nresp; last_nack = reqs[0].nnack; }
    vn_log_reset();
    vn_advance(200000);            /* lets the lg_crcv set up at the empty ACK expire */
    vn_prepare(cli);
  }
  printf("first=%d last=%d resp_last=%d nack_last=%d queued=%d total_resp=%ld\n", first_mid, last_mid,
         last_resp, last_nack, cli->sendqueue != NULL, total);
  all_teardown();
}

/* ------------------------------------------------------------------ exe: servers */
static coap_tick_t adelay = 300;
static int srv_nstart = 0, smid0 = -1, smid_set = 0;
static long long smid_first = -1;   /* tx_mid of the server session before its first draw */

/* untimed asyncs waiting for the application's coap_async_trigger() */
#define MAXTRIG 64
static struct { coap_session_t *sess; unsigned long long tok; uint8_t tb[8]; size_t tl;
                coap_tick_t due; int done; } trig[MAXTRIG];
static int ntrig = 0;
static void app_triggers(void) {
  for (int i = 0; i < ntrig; i++)
    if (!trig[i].done && trig[i].due <= vn_now) {
      coap_bin_const_t t;
      trig[i].done = 1;
      t.s = trig[i].tb;
      t.length = trig[i].tl;
      coap_async_t *a = coap_find_async(trig[i].sess, t);
      if (a) coap_async_trigger(a);
    }
}
static coap_tick_t trig_next_due(void) {
  coap_tick_t best = 0;
  for (int i = 0; i < ntrig; i++)
    if (!trig[i].done && (!best || trig[i].due < best)) best = trig[i].due;
  return best;
}

/* real libcoap server: one handler, the style is the resource name */
static void on_get(coap_resource_t *r, coap_session_t *s, const coap_pdu_t *req,
                   const coap_string_t *q, coap_pdu_t *resp) {
  (void)q;
  coap_str_const_t *name = coap_resource_get_uri_path(r);
  int raw = raw_style_of_char(name->s[0]);
  int sty = canon_style(raw);
  coap_bin_const_t tok = coap_pdu_get_token(req);
  if (!smid_set) {
    smid_set = 1;
    if (smid0 >= 0) s->tx_mid = (uint16_t)smid0;
    smid_first = s->tx_mid;
    if (srv_nstart > 0) coap_session_set_nstart(s, (uint16_t)srv_nstart);
  }
  switch (sty) {
  case 0:
    coap_pdu_set_code(resp, COAP_RESPONSE_CODE_CONTENT);
    coap_add_data(resp, 1, (const uint8_t *)"p");
    break;
  case 1:
  case 2: {
    /* separate response sent from the handler; the library then sends the empty ACK */
    coap_pdu_t *p = coap_new_pdu(sty == 1 ? COAP_MESSAGE_CON : COAP_MESSAGE_NON,
                                 COAP_RESPONSE_CODE_CONTENT, s);
    coap_add_token(p, tok.length, tok.s);
    coap_add_data(p, 1, (const uint8_t *)"s");
    coap_send(s, p);
    break;
  }
  default: {
    coap_async_t *a = coap_find_async(s, tok);
    if (!a) {
      /* timed: the library fires it; untimed: the application triggers it adelay ms later */
      a = coap_register_async(s, req, raw >= 5 ? 0 : adelay);
      if (!a) coap_pdu_set_code(resp, COAP_RESPONSE_CODE_SERVICE_UNAVAILABLE);
      else if (raw >= 5 && ntrig < MAXTRIG) {
        trig[ntrig].sess = s;
        trig[ntrig].tok = tokval(tok.s, tok.length);
        trig[ntrig].tl = tok.length;
        memcpy(trig[ntrig].tb, tok.s, tok.length < 8 ? tok.length : 8);
        trig[ntrig].due = vn_now + adelay;
        trig[ntrig].done = 0;
        ntrig++;
      }
      return;               /* no code: empty ACK */
    }
    if (sty == 4) coap_pdu_set_type(resp, COAP_MESSAGE_NON);
    coap_pdu_set_code(resp, COAP_RESPONSE_CODE_CONTENT);
    coap_add_data(resp, 1, (const uint8_t *)"a");
    break;
  }
  }
}

/* scripted RFC 7252 server: de-duplicates requests by mid, retransmits its CON responses */
static coap_address_t rfc_addr, cli_addr;
#define RFC_MAX 64
static struct { int mid, sty; unsigned long long tok; int answered; } rfc_seen[RFC_MAX];
static int rfc_nseen = 0;
static struct { int mid; unsigned long long tok; int cnt, done; coap_tick_t T, due; } rfc_con[RFC_MAX];
static int rfc_ncon = 0;
static struct { int sty; unsigned long long tok; coap_tick_t due; int fired; } rfc_async[RFC_MAX];
static int rfc_nasync = 0;
static int rfc_mid = 0;

static void peer_emit(const uint8_t *b, size_t len) {
  if (vn_nout == vn_out_cap) {
    vn_out_cap = vn_out_cap ? vn_out_cap * 2 : 256;
    vn_out = (vn_dgram_t *)realloc(vn_out, vn_out_cap * sizeof(vn_dgram_t));
  }
  vn_dgram_t *d = &vn_out[vn_nout];
  memset(d, 0, sizeof(*d));
  d->t = vn_now;
  coap_address_copy(&d->src, &rfc_addr);
  coap_address_copy(&d->dst, &cli_addr);
  d->data = (uint8_t *)malloc(len ? len : 1);
  memcpy(d->data, b, len);
  d->len = len;
  vn_nout++;
}
static void rfc_send(const char *kind, int mid, unsigned long long tok) {
  uint8_t b[64];
  size_t n = peer_bytes(b, kind, mid, tok);
  peer_emit(b, n);
}
static void rfc_separate(int sty, unsigned long long tok) {
  int con = (sty == 1 || sty == 3);
  rfc_mid = (rfc_mid + 1) & 0xffff;
  rfc_send(con ? "cr" : "nr", rfc_mid, tok);
  if (con && rfc_ncon < RFC_MAX) {
    rfc_con[rfc_ncon].mid = rfc_mid;
    rfc_con[rfc_ncon].tok = tok;
    rfc_con[rfc_ncon].cnt = 0;
    rfc_con[rfc_ncon].done = 0;
    rfc_con[rfc_ncon].T = 2000 + (coap_tick_t)((rfc_mid * 37) % 1000);
    rfc_con[rfc_ncon].due = vn_now + rfc_con[rfc_ncon].T;
    rfc_ncon++;
  }
}
static void rfc_rx(const uint8_t *d, size_t len) {
  dg_t g = dg_parse(d, len);
  if (!g.ok) return;
  if (g.code == 0 && (g.type == 2 || g.type == 3)) {
    for (int i = 0; i < rfc_ncon; i++) if (rfc_con[i].mid == g.mid) rfc_con[i].done = 1;
    return;
  }
  if (!(g.type == 0 && g.code >= 1 && g.code <= 31)) return;
  for (int i = 0; i < rfc_nseen; i++)
    if (rfc_seen[i].mid == g.mid) {
      /* duplicate: repeat the acknowledgement, do not process again */
      if (rfc_seen[i].sty == 0) rfc_send("ar", g.mid, rfc_seen[i].tok);
      else rfc_send("ae", g.mid, 0);
      return;
    }
  if (rfc_nseen < RFC_MAX) {
    rfc_seen[rfc_nseen].mid = g.mid; rfc_seen[rfc_nseen].sty = g.sty;
    rfc_seen[rfc_nseen].tok = g.tok; rfc_nseen++;
  }
  switch (g.sty) {
  case 0: rfc_send("ar", g.mid, g.tok); break;
  case 1: case 2: rfc_send("ae", g.mid, 0); rfc_separate(g.sty, g.tok); break;
  default:
    rfc_send("ae", g.mid, 0);
    if (rfc_nasync < RFC_MAX) {
      rfc_async[rfc_nasync].sty = g.sty; rfc_async[rfc_nasync].tok = g.tok;
      rfc_async[rfc_nasync].due = vn_now + adelay; rfc_async[rfc_nasync].fired = 0;
      rfc_nasync++;
    }
  }
}
static void rfc_timers(void) {
  for (int i = 0; i < rfc_nasync; i++)
    if (!rfc_async[i].fired && rfc_async[i].due <= vn_now) {
      rfc_async[i].fired = 1;
      rfc_separate(rfc_async[i].sty, rfc_async[i].tok);
    }
  for (int i = 0; i < rfc_ncon; i++)
    if (!rfc_con[i].done && rfc_con[i].due <= vn_now) {
      if (rfc_con[i].cnt < 4) {
        rfc_con[i].cnt++;
        rfc_send("cr", rfc_con[i].mid, rfc_con[i].tok);
        rfc_con[i].due = vn_now + (rfc_con[i].T << rfc_con[i].cnt);
      } else rfc_con[i].done = 1;
    }
}
static coap_tick_t rfc_next_due(void) {
  coap_tick_t best = 0;
  for (int i = 0; i < rfc_nasync; i++)
    if (!rfc_async[i].fired && (!best || rfc_async[i].due < best)) best = rfc_async[i].due;
  for (int i = 0; i < rfc_ncon; i++)
    if (!rfc_con[i].done && (!best || rfc_con[i].due < best)) best = rfc_con[i].due;
  return best;
}

/* ------------------------------------------------------------------ exe: event loop */
#define MAXPEND 4096
static struct { coap_tick_t t; size_t idx; } pend[MAXPEND];
static int npend = 0;
#define MAXLOG 2048
static sb_t deliv[MAXLOG];     /* delivery times per log entry */
static char **fates = NULL;
static int nfates = 0;
static coap_tick_t dflt_delay = 0;
static size_t fated = 0;       /* log entries that already have their fate */

static void pend_add(coap_tick_t t, size_t idx) {
  if (npend < MAXPEND) { pend[npend].t = t; pend[npend].idx = idx; npend++; }
}
static void assign_fates(void) {
  for (; fated < vn_nout; fated++) {
    if (fated < (size_t)nfates) {
      const char *f = fates[fated];
      if (f[0] == 'x') continue;
      char tmp[128];
      strncpy(tmp, f, sizeof(tmp) - 1); tmp[sizeof(tmp) - 1] = 0;
      for (char *p = strtok(tmp, "+"); p; p = strtok(NULL, "+"))
        pend_add(vn_out[fated].t + (coap_tick_t)atoll(p), fated);
    } else {
      pend_add(vn_out[fated].t + dflt_delay, fated);
    }
  }
}

static int kind_real = 1;

/* the real server's steps, for the replay on the abstract server of System.v */
static sb_t srvsteps;
static int nsrvsteps = 0;
static void srv_record(const char *input, size_t n0) {
  int k = 0;
  for (size_t j = n0; j < vn_nout; j++) if (vn_out[j].ctx == srv && srv) k++;
  if (!input && k == 0) return;
  sb_add(&srvsteps, "%s%s > ", nsrvsteps ? " | " : "", input ? input : "TS");
  if (k == 0) sb_add(&srvsteps, "-");
  int first = 1;
  for (size_t j = n0; j < vn_nout; j++)
    if (vn_out[j].ctx == srv && srv) {
      char b[160];
      dg_describe(b, sizeof(b), vn_out[j].data, vn_out[j].len);
      sb_add(&srvsteps, "%s%s", first ? "" : ",", b);
      first = 0;
    }
  nsrvsteps++;
}

static void deliver(size_t idx) {
  if (idx < MAXLOG) sb_add(&deliv[idx], "%s%llu", deliv[idx].n ? "+" : "", (unsigned long long)vn_now);
  int to_client = coap_address_equals(&vn_out[idx].dst, &cs->addr_info.local);
  size_t len = vn_out[idx].len;
  uint8_t *copy = (uint8_t *)malloc(len ? len : 1);
  memcpy(copy, vn_out[idx].data, len);
  if (to_client) {
    char in[160];
    dg_t g = dg_parse(copy, len);
    dg_as_input(in, sizeof(in), copy, len, verdict_for(g.tok));
    step_begin();
    vn_inject_session(cli, cs, copy, len);
    step_end(in);
  } else if (kind_real) {
    char in[200], b[160];
    size_t n0 = vn_nout;
    dg_describe(b, sizeof(b), copy, len);
    snprintf(in, sizeof(in), "X:%s", b);
    vn_route(idx);
    srv_record(in, n0);
  } else {
    rfc_rx(copy, len);
  }
  free(copy);
}

static void do_exe(void) {
  int cmid0 = 100;
  long long ctok0 = 0;
  uint64_t prng_seed = 12345;
  int nq = 0, qs[MAXREQ], qok[MAXREQ];
  coap_tick_t qthink[MAXREQ];
  kind_real = 1; adelay = 300; dflt_delay = 0; srv_nstart = 0; smid0 = -1; smid_set = 0;
  app_method = COAP_REQUEST_CODE_GET;
  nfates = 0; fates = NULL;
  int i = 1;
  while (i < vntok) {
    const char *a = vtok[i];
    if (!strcmp(a, "K") && i + 1 < vntok) { kind_real = strcmp(vtok[i + 1], "rfc") != 0; i += 2; }
    else if (!strcmp(a, "M") && i + 2 < vntok) { cmid0 = atoi(vtok[i + 1]); smid0 = atoi(vtok[i + 2]); i += 3; }
    else if (!strcmp(a, "P") && i + 1 < vntok) { prng_seed = (uint64_t)atoll(vtok[i + 1]); i += 2; }
    else if (!strcmp(a, "A") && i + 1 < vntok) { adelay = (coap_tick_t)atoll(vtok[i + 1]); i += 2; }
    else if (!strcmp(a, "E") && i + 1 < vntok) { dflt_delay = (coap_tick_t)atoll(vtok[i + 1]); i += 2; }
    else if (!strcmp(a, "N") && i + 1 < vntok) { srv_nstart = atoi(vtok[i + 1]); i += 2; }
    else if (!strcmp(a, "H") && i + 1 < vntok) { app_method = atoi(vtok[i + 1]); i += 2; }
    else if (!strcmp(a, "T") && i + 1 < vntok) { ctok0 = atoll(vtok[i + 1]); i += 2; }
    else if (!strcmp(a, "Q")) {
      i++;
      while (i < vntok && vtok[i][0] >= '0' && vtok[i][0] <= '9' && nq < MAXREQ) {
        int s = 0, ok = 1; long long th = 0;
        sscanf(vtok[i], "%d:%d:%lld", &s, &ok, &th);
        qs[nq] = s; qok[nq] = ok; qthink[nq] = (coap_tick_t)th; nq++; i++;
      }
    } else if (!strcmp(a, "F")) {
      i++;
      fates = &vtok[i];
      nfates = vntok - i;
      i = vntok;
    } else i++;
  }
  vn_now = 1000;
  vn_prng_seed(prng_seed);
  rfc_nseen = rfc_ncon = rfc_nasync = 0;
  ntrig = 0;
  rfc_mid = smid0 >= 0 ? smid0 : 7000;
  coap_address_t server;
  if (kind_real) {
    srv = coap_new_context(NULL);
    if (block_mode_on) coap_context_set_block_mode(srv, COAP_BLOCK_USE_LIBCOAP);
    ep = vn_new_server_ep(srv);
    if (!ep) { puts("ERROR no endpoint"); exit(2); }
    for (int k = 0; k < NSTYLES; k++) {
      char nm[2] = { style_chars[k], 0 };
      coap_resource_t *r = coap_resource_init(coap_new_str_const((const uint8_t *)nm, 1),
                                              COAP_RESOURCE_FLAGS_RELEASE_URI);
      for (int mth = COAP_REQUEST_GET; mth <= COAP_REQUEST_IPATCH; mth++)
        coap_register_request_handler(r, (coap_request_t)mth, on_get);
      coap_add_resource(srv, r);
    }
    coap_address_copy(&server, &ep->bind_addr);
  } else {
    vn_addr4(&server, VN_LOOPBACK, 5683);
    coap_address_copy(&rfc_addr, &server);
  }
  client_setup(&server, -1, cmid0, ctok0);
  coap_address_copy(&cli_addr, &cs->addr_info.local);
  use_tok_verdict = 1;
  sb_reset(&steps); sb_reset(&times); nsteps = 0;
  sb_reset(&srvsteps); nsrvsteps = 0; smid_first = -1;
  npend = 0; fated = 0;
  for (int k = 0; k < MAXLOG; k++) sb_reset(&deliv[k]);

  int qi = 0, guard = 0, quiet = 0;
  coap_tick_t c_due = 0;       /* when the client's next timer is due (0 = none known) */
  app_idle_since = vn_now;
  for (guard = 0; guard < 3000; guard++) {
    /* 1. client timer */
    /* recorded as an input of the client when the head of the send queue is due (read from the
       context before the library runs) or when the call caused something */
    int qdue = cli->sendqueue != NULL &&
               cli->sendqueue_basetime + cli->sendqueue->t <= vn_now;
    step_begin();
    unsigned wc = vn_prepare(cli);
    if (nouts > 0 || qdue) step_end("T"); else recording = 0;
    /* 2. server timers */
    unsigned ws = 0;
    if (kind_real) {
      size_t n0 = vn_nout;
      app_triggers();
      ws = vn_prepare(srv);
      srv_record(NULL, n0);
    } else rfc_timers();
    assign_fates();
    /* 3. deliveries due now, oldest first */
    for (;;) {
      int best = -1;
      for (int k = 0; k < npend; k++)
        if (pend[k].t <= vn_now && (best < 0 || pend[k].t < pend[best].t ||
                                    (pend[k].t == pend[best].t && pend[k].idx < pend[best].idx)))
          best = k;
      if (best < 0) break;
      size_t idx = pend[best].idx;
      pend[best] = pend[--npend];
      deliver(idx);
      assign_fates();
    }
    /* 4. the application sends its next request */
    if (app_out < 0 && qi < nq && app_idle_since + qthink[qi] <= vn_now &&
        cli->sendqueue == NULL && cs->delayqueue == NULL) {
      char in[32];
      step_begin();
      app_send(qs[qi], qok[qi]);
      snprintf(in, sizeof(in), "S%d", canon_style(qs[qi]));
      step_end(in);
      qi++;
      assign_fates();
    }
    /* 5. next event */
    wc = vn_prepare(cli);
    ws = kind_real ? vn_prepare(srv) : 0;
    assign_fates();
    coap_tick_t next = 0;
    c_due = wc ? vn_now + wc : 0;
    if (c_due) next = c_due;
    if (ws && (!next || vn_now + ws < next)) next = vn_now + ws;
    if (!kind_real) {
      coap_tick_t r = rfc_next_due();
      if (r && (!next || r < next)) next = r;
    } else {
      coap_tick_t r = trig_next_due();
      if (r && (!next || r < next)) next = r;
    }
    for (int k = 0; k < npend; k++) if (!next || pend[k].t < next) next = pend[k].t;
    if (app_out < 0 && qi < nq) {
      coap_tick_t t = app_idle_since + qthink[qi];
      if (t < vn_now) t = vn_now;
      if (cli->sendqueue == NULL && (!next || t < next)) next = t;
    }
    if (!next) { quiet = 1; break; }
    if (next < vn_now) next = vn_now;
    if (next > vn_now + 100000) { quiet = 2; break; }   /* only idle-session timeouts remain */
    vn_now = next;
  }
  printf("%s || times=%s || log=", steps.s ? steps.s : "", times.s ? times.s : "");
  for (size_t k = 0; k < vn_nout; k++) {
    char b[160];
    dg_describe(b, sizeof(b), vn_out[k].data, vn_out[k].len);
    int from_client = coap_address_equals(&vn_out[k].src, &cs->addr_info.local);
    printf("%s%zu/%llu/%c/%s/%s", k ? " " : "", k, (unsigned long long)vn_out[k].t,
           from_client ? 'c' : 's', b, (k < MAXLOG && deliv[k].n) ? deliv[k].s : "x");
  }
  printf(" || end=%s now=%llu sent=%d of=%d reqs=", quiet == 1 ? "quiet" : quiet == 2 ? "idle" : "limit",
         (unsigned long long)vn_now, qi, nq);
  for (int k = 0; k < nreqs; k++)
    printf("%s%llu:%d:%d:%d", k ? "," : "", reqs[k].tok, reqs[k].mid, reqs[k].nresp, reqs[k].nnack);
  printf(" || srv=%lld %s", smid_first, (srvsteps.s && nsrvsteps) ? srvsteps.s : "");
  printf("\n");
  all_teardown();
}

int main(void) {
  coap_startup();
  coap_set_log_level(COAP_LOG_EMERG);
  setvbuf(stdout, NULL, _IOLBF, 0);
  block_mode_on = getenv("C07_BLOCK_MODE") && atoi(getenv("C07_BLOCK_MODE")) != 0;
  while (next_case(stdin)) {
    if (vntok == 0) { puts(""); continue; }
    alarm(40);                       /* wall-clock guard per case (SIGALRM ends the process) */
    if (!strcmp(vtok[0], "exc")) do_exc();
    else if (!strcmp(vtok[0], "exe")) do_exe();
    else if (!strcmp(vtok[0], "exw")) do_exw();
    else puts("ERROR unknown command");
  }
  coap_cleanup();
  return 0;
}

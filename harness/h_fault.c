/* C18 driver: fault enumeration over a fixed catalogue of scenarios + PDU-layer tie.
 *
 * Build: vlib.build_driver("h_fault", ["h_fault.c"], variant, extra=["-no-pie"],
 *          wraps=["coap_ticks","coap_socket_send","coap_socket_recv",
 *                 "coap_malloc_type","coap_realloc_type","coap_free_type","coap_io_process_lkd"])
 *
 * Case lines (one result line each):
 *   fa <scenario> <k1> <k2> [S]     run the scenario in a forked child, failing allocation
 *                                    attempts number k1 and k2 (0 = none); S = also print the
 *                                    site list of all attempts
 *   fapdu <type> <code> <mid> <max> F <k,k,..|-> { T b | O n b | D b }*
 *                                    PDU builder ops under a failure pattern (tie with
 *                                    coq/Fault/PduAtomic.v)
 *   fascen                           list the scenario names
 *
 * Result of "fa":
 *   <status> n=<attempts> inj=<injected> site=<M|R>:<type>:<size>:<addr>/<addr>.. res=<..>
 *     canary=<0|1|-> guard=<n> poison=<n> live=<n> sends=<..> trace=<events> [sites=<..>]
 * status = OK | CRASH sig=<n> | EXIT code=<n> | HANG
 */
#include "coap3/coap_libcoap_build.h"
/* the driver is linked with --wrap=malloc to see libcoap's direct malloc() calls (uthash); the
 * driver's own allocations go straight to the C library */
#define FA_WRAP_MALLOC 1
void *__real_malloc(size_t n);
#define malloc(n) __real_malloc(n)
#include "common/util.h"
#include "common/dump.h"
#include "common/vnet.h"
#include "common/fa_alloc.h"
#include <signal.h>
#include <fcntl.h>
#include <stdarg.h>
#include <sys/wait.h>

/* ------------------------------------------------------------------ result builder */
static char resbuf[8192];
static size_t reslen = 0;
static void R(const char *fmt, ...) {
  va_list ap;
  va_start(ap, fmt);
  if (reslen && reslen < sizeof(resbuf) - 1) resbuf[reslen++] = ';';
  int n = vsnprintf(resbuf + reslen, sizeof(resbuf) - reslen, fmt, ap);
  va_end(ap);
  if (n > 0) reslen += (size_t)n;
  if (reslen >= sizeof(resbuf)) reslen = sizeof(resbuf) - 1;
}

static uint32_t fnv(const uint8_t *b, size_t n) {
  uint32_t h = 0x811c9dc5u;
  for (size_t i = 0; i < n; i++) h = (h ^ b[i]) * 0x01000193u;
  return h;
}

/* FA_LOG=<level> in the environment turns libcoap's logging on (debugging a replay) */
static coap_log_t fa_loglevel(void) {
  const char *e = getenv("FA_LOG");
  return e ? (coap_log_t)atoi(e) : COAP_LOG_EMERG;
}

/* ------------------------------------------------------------------ the world */
static struct {
  coap_context_t *srv, *cli;
  coap_endpoint_t *ep;
  coap_session_t *cs;
  coap_resource_t *r_small, *r_big, *r_up, *r_obs, *r_loop;
  int obs_value;
  /* client side observations */
  int n_resp, n_nack, last_code, last_nack, last_obs;
  int n_plain, last_plain_code;   /* responses without Observe option (answer to a cancel) */
  size_t last_len;
  uint32_t last_hash;
  int resp_bad;            /* a delivered payload was not the expected one */
  /* server side observations */
  int n_get, n_put;
  size_t put_len;
  uint32_t put_hash;
  size_t cursor;           /* next log entry to route */
  uint8_t canary_tok[8];
  size_t canary_tl;
  int canary_ok;
} W;

#define BIG_LEN 2500
static uint8_t big_body[BIG_LEN];
#define UP_LEN 2300
static uint8_t up_body[UP_LEN];

/* sends made by the scenario (ownership check) */
#define MAXSENDS 16
static struct {
  long pdu_id;
  int mid_valid;
  int live_after;      /* PDU block still allocated when coap_send returned */
  int in_sendq, in_delayq;
} sends[MAXSENDS];
static int nsends = 0;

static coap_response_t on_resp(coap_session_t *s, const coap_pdu_t *sent, const coap_pdu_t *rcv,
                               const coap_mid_t mid) {
  size_t len, off, tot;
  const uint8_t *data;
  (void)s; (void)sent; (void)mid;
  W.n_resp++;
  W.last_code = coap_pdu_get_code(rcv);
  {
    coap_opt_iterator_t oi;
    W.last_obs = coap_check_option(rcv, COAP_OPTION_OBSERVE, &oi) != NULL;
    if (!W.last_obs) {
      W.n_plain++;
      W.last_plain_code = W.last_code;
    }
  }
  coap_get_data_large(rcv, &len, &data, &off, &tot);
  W.last_len = len;
  W.last_hash = fnv(data, len);
  {
    coap_bin_const_t t = coap_pdu_get_token(rcv);
    if (W.canary_tl && t.length == W.canary_tl && memcmp(t.s, W.canary_tok, t.length) == 0 &&
        W.last_code == COAP_RESPONSE_CODE_CONTENT && len == 5 && memcmp(data, "hello", 5) == 0)
      W.canary_ok++;
  }
  return COAP_RESPONSE_OK;
}

static void on_nack(coap_session_t *s, const coap_pdu_t *sent, const coap_nack_reason_t reason,
                    const coap_mid_t mid) {
  (void)s; (void)sent; (void)mid;
  W.n_nack++;
  W.last_nack = (int)reason;
}

static void h_small(coap_resource_t *r, coap_session_t *s, const coap_pdu_t *req,
                    const coap_string_t *q, coap_pdu_t *resp) {
  (void)r; (void)s; (void)req; (void)q;
  W.n_get++;
  coap_pdu_set_code(resp, COAP_RESPONSE_CODE_CONTENT);
  coap_add_data(resp, 5, (const uint8_t *)"hello");
}

static void h_big(coap_resource_t *r, coap_session_t *s, const coap_pdu_t *req,
                  const coap_string_t *q, coap_pdu_t *resp) {
  W.n_get++;
  coap_pdu_set_code(resp, COAP_RESPONSE_CODE_CONTENT);
  if (!coap_add_data_large_response(r, s, req, resp, q, COAP_MEDIATYPE_APPLICATION_OCTET_STREAM,
                                    -1, 0, BIG_LEN, big_body, NULL, NULL))
    coap_pdu_set_code(resp, COAP_RESPONSE_CODE_INTERNAL_ERROR);
}

static void h_up(coap_resource_t *r, coap_session_t *s, const coap_pdu_t *req,
                 const coap_string_t *q, coap_pdu_t *resp) {
  size_t len, off, tot;
  const uint8_t *data;
  (void)r; (void)s; (void)q;
  W.n_put++;
  if (coap_get_data_large(req, &len, &data, &off, &tot)) {
    W.put_len = len;
    W.put_hash = fnv(data, len);
  }
  coap_pdu_set_code(resp, COAP_RESPONSE_CODE_CHANGED);
}

static void h_obs(coap_resource_t *r, coap_session_t *s, const coap_pdu_t *req,
                  const coap_string_t *q, coap_pdu_t *resp) {
  char buf[16];
  (void)r; (void)s; (void)req; (void)q;
  W.n_get++;
  coap_pdu_set_code(resp, COAP_RESPONSE_CODE_CONTENT);
  int n = snprintf(buf, sizeof(buf), "v%d", W.obs_value);
  coap_add_data(resp, (size_t)n, (const uint8_t *)buf);
}

/* route everything that was sent, fire timers, advance the virtual clock up to `budget` ms */
static void pump(coap_tick_t budget) {
  coap_tick_t deadline = vn_now + budget;
  for (int guard = 0; guard < 4000; guard++) {
    if (W.cursor < vn_nout) {
      vn_route(W.cursor++);
      continue;
    }
    unsigned w1 = W.cli ? vn_prepare(W.cli) : 0;
    unsigned w2 = W.srv ? vn_prepare(W.srv) : 0;
    if (W.cursor < vn_nout) continue;
    unsigned w = w1 && (!w2 || w1 < w2) ? w1 : w2;
    if (w == 0 || vn_now + w > deadline) break;
    vn_advance(w);
  }
}

/* observable resource with a body of BIG_LEN bytes whose first byte is the value */
static void h_obsbig(coap_resource_t *r, coap_session_t *s, const coap_pdu_t *req,
                     const coap_string_t *q, coap_pdu_t *resp) {
  static uint8_t body[BIG_LEN];
  W.n_get++;
  memcpy(body, big_body, BIG_LEN);
  body[0] = (uint8_t)W.obs_value;
  coap_pdu_set_code(resp, COAP_RESPONSE_CODE_CONTENT);
  if (!coap_add_data_large_response(r, s, req, resp, q, COAP_MEDIATYPE_APPLICATION_OCTET_STREAM,
                                    -1, 0, BIG_LEN, body, NULL, NULL))
    coap_pdu_set_code(resp, COAP_RESPONSE_CODE_INTERNAL_ERROR);
}

/* POST: large request body in, large response body (the request body reversed) out */
static void h_echo(coap_resource_t *r, coap_session_t *s, const coap_pdu_t *req,
                   const coap_string_t *q, coap_pdu_t *resp) {
  static uint8_t out[UP_LEN];
  size_t len, off, tot;
  const uint8_t *data;
  W.n_put++;
  if (!coap_get_data_large(req, &len, &data, &off, &tot) || len > UP_LEN) {
    coap_pdu_set_code(resp, COAP_RESPONSE_CODE_BAD_REQUEST);
    return;
  }
  W.put_len = len;
  W.put_hash = fnv(data, len);
  for (size_t i = 0; i < len; i++) out[i] = data[len - 1 - i];
  coap_pdu_set_code(resp, COAP_RESPONSE_CODE_CONTENT);
  if (!coap_add_data_large_response(r, s, req, resp, q, COAP_MEDIATYPE_APPLICATION_OCTET_STREAM,
                                    -1, 0, len, out, NULL, NULL))
    coap_pdu_set_code(resp, COAP_RESPONSE_CODE_INTERNAL_ERROR);
}

/* handler that keeps a per-request cache entry (coap_cache_*): first call creates it with a
 * counter as application data, later calls find it and count */
static int n_cache_new = 0, n_cache_hit = 0, cache_no_pdu = 0;
static void cache_free_cb(void *d) {
  coap_free_type(COAP_STRING, d);
}
static void h_cache(coap_resource_t *r, coap_session_t *s, const coap_pdu_t *req,
                    const coap_string_t *q, coap_pdu_t *resp) {
  (void)r; (void)q;
  W.n_get++;
  coap_cache_entry_t *e = coap_cache_get_by_pdu(s, req, COAP_CACHE_IS_SESSION_BASED);
  if (!e) {
    e = coap_new_cache_entry(s, req, COAP_CACHE_RECORD_PDU, COAP_CACHE_IS_SESSION_BASED, 0);
    if (!e) {
      coap_pdu_set_code(resp, COAP_RESPONSE_CODE_INTERNAL_ERROR);
      return;
    }
    int *cnt = (int *)coap_malloc_type(COAP_STRING, sizeof(int));
    if (!cnt) {
      coap_delete_cache_entry(coap_session_get_context(s), e);
      coap_pdu_set_code(resp, COAP_RESPONSE_CODE_INTERNAL_ERROR);
      return;
    }
    *cnt = 0;
    coap_cache_set_app_data(e, cnt, cache_free_cb);
    n_cache_new++;
  } else {
    n_cache_hit++;
  }
  if (!coap_cache_get_pdu(e)) cache_no_pdu++;     /* asked for with COAP_CACHE_RECORD_PDU */
  int *cnt = (int *)coap_cache_get_app_data(e);
  char buf[16];
  int n = snprintf(buf, sizeof(buf), "c%d", cnt ? ++*cnt : -1);
  coap_pdu_set_code(resp, COAP_RESPONSE_CODE_CONTENT);
  coap_add_data(resp, (size_t)n, (const uint8_t *)buf);
}

/* FETCH handler: answers "f<value>:<length of the request body>"; observable */
static void h_fetch(coap_resource_t *r, coap_session_t *s, const coap_pdu_t *req,
                    const coap_string_t *q, coap_pdu_t *resp) {
  size_t len = 0, off, tot;
  const uint8_t *data;
  char buf[32];
  (void)r; (void)s; (void)q;
  W.n_get++;
  coap_get_data_large(req, &len, &data, &off, &tot);
  W.put_len = len;
  int n = snprintf(buf, sizeof(buf), "f%d:%zu", W.obs_value, len);
  coap_pdu_set_code(resp, COAP_RESPONSE_CODE_CONTENT);
  coap_add_data(resp, (size_t)n, (const uint8_t *)buf);
}

static void h_loop(coap_resource_t *r, coap_session_t *s, const coap_pdu_t *req,
                   const coap_string_t *q, coap_pdu_t *resp) {
  (void)r; (void)s; (void)req; (void)q;
  W.n_get++;
  coap_pdu_set_code(resp, COAP_RESPONSE_CODE_HOP_LIMIT_REACHED);
  coap_add_data(resp, 8, (const uint8_t *)"10.0.0.9");
}

/* separate response: the first call registers an async and leaves the response empty (libcoap
 * sends an empty ACK), the triggered second call answers */
static int n_async_reg = 0;
static void h_sep(coap_resource_t *r, coap_session_t *s, const coap_pdu_t *req,
                  const coap_string_t *q, coap_pdu_t *resp) {
  (void)r; (void)q;
  W.n_get++;
  coap_bin_const_t tok = coap_pdu_get_token(req);
  coap_async_t *a = coap_find_async(s, tok);
  if (!a) {
    a = coap_register_async(s, req, 1000);
    if (a) {
      n_async_reg++;
      return;                       /* no code: empty ACK, response later */
    }
    coap_pdu_set_code(resp, COAP_RESPONSE_CODE_SERVICE_UNAVAILABLE);
    return;
  }
  coap_pdu_set_code(resp, COAP_RESPONSE_CODE_CONTENT);
  coap_add_data(resp, 4, (const uint8_t *)"late");
  /* the async entry is removed by libcoap when this handler returns */
}

/* unknown-resource handler: a PUT creates the resource */
static int n_dyn = 0;
static void h_dyn_get(coap_resource_t *r, coap_session_t *s, const coap_pdu_t *req,
                      const coap_string_t *q, coap_pdu_t *resp) {
  (void)r; (void)s; (void)req; (void)q;
  W.n_get++;
  coap_pdu_set_code(resp, COAP_RESPONSE_CODE_CONTENT);
  coap_add_data(resp, 3, (const uint8_t *)"dyn");
}
static void h_dyn_del(coap_resource_t *r, coap_session_t *s, const coap_pdu_t *req,
                      const coap_string_t *q, coap_pdu_t *resp) {
  (void)req; (void)q;
  coap_pdu_set_code(resp, COAP_RESPONSE_CODE_DELETED);
  coap_delete_resource(coap_session_get_context(s), r);
  n_dyn--;
}
static void h_unknown_put(coap_resource_t *r, coap_session_t *s, const coap_pdu_t *req,
                          const coap_string_t *q, coap_pdu_t *resp) {
  (void)r; (void)q;
  W.n_put++;
  coap_string_t *path = coap_get_uri_path(req);
  if (!path) {
    coap_pdu_set_code(resp, COAP_RESPONSE_CODE_INTERNAL_ERROR);
    return;
  }
  /* ownership of path passes to the resource with RELEASE_URI */
  coap_resource_t *nr = coap_resource_init((coap_str_const_t *)path, COAP_RESOURCE_FLAGS_RELEASE_URI);
  if (!nr) {
    coap_delete_string(path);
    coap_pdu_set_code(resp, COAP_RESPONSE_CODE_INTERNAL_ERROR);
    return;
  }
  coap_register_request_handler(nr, COAP_REQUEST_GET, h_dyn_get);
  coap_register_request_handler(nr, COAP_REQUEST_DELETE, h_dyn_del);
  coap_add_resource(coap_session_get_context(s), nr);
  n_dyn++;
  coap_pdu_set_code(resp, COAP_RESPONSE_CODE_CREATED);
}

/* libcoap runs the event loop itself while a client waits for the answer to its first request
 * (coap_client_delay_first -> coap_io_process_lkd, OSCORE / extended-token probing).  In the
 * scripted world that loop is this function: deliver what is pending through the _lkd entry
 * points (the global lock is held), fire timers, otherwise let virtual time pass.  Returns the
 * virtual milliseconds spent, as the real function returns the real ones. */
static int route_lkd(size_t i) {
  if (i >= vn_nout) return 0;
  size_t len = vn_out[i].len;
  uint8_t *copy = (uint8_t *)malloc(len ? len : 1);
  memcpy(copy, vn_out[i].data, len);
  coap_address_t src, dst;
  coap_address_copy(&src, &vn_out[i].src);
  coap_address_copy(&dst, &vn_out[i].dst);
  int ok = 0;
  for (int k = 0; k < vn_nnodes; k++) {
    if (!coap_address_equals(&vn_nodes[k].addr, &dst)) continue;
    struct epoll_event ev;
    memset(&ev, 0, sizeof(ev));
    vn_pending.valid = 1;
    vn_pending.have_local = 0;
    coap_address_copy(&vn_pending.src, &src);
    vn_pending.data = copy;
    vn_pending.len = len;
    ev.events = EPOLLIN;
    ev.data.ptr = vn_nodes[k].kind == 1 ? (void *)&vn_nodes[k].ep->sock : (void *)&vn_nodes[k].sess->sock;
    vn_out[i].delivered++;
    coap_io_do_epoll_lkd(vn_nodes[k].ctx, &ev, 1);
    vn_pending.valid = 0;
    ok = 1;
    break;
  }
  free(copy);
  return ok;
}

int __wrap_coap_io_process_lkd(coap_context_t *ctx, uint32_t timeout_ms) {
  (void)ctx;
  if (W.cursor < vn_nout) {
    route_lkd(W.cursor++);
    return 0;
  }
  unsigned w1 = W.cli ? coap_io_prepare_epoll_lkd(W.cli, vn_now) : 0;
  unsigned w2 = W.srv ? coap_io_prepare_epoll_lkd(W.srv, vn_now) : 0;
  if (W.cursor < vn_nout) return 0;
  unsigned w = w1 && (!w2 || w1 < w2) ? w1 : w2;
  if (w == 0 || w > timeout_ms) w = timeout_ms ? timeout_ms : 1;
  vn_advance(w);
  return (int)w;
}

/* "long" variants: every resource lives below four 90-character path segments and every
 * request carries them (364 bytes of options: more than the initial 256-byte PDU buffer, so
 * that every copy / re-build of a PDU has to grow); mode 2 adds three 230-character Uri-Query
 * options (about 1070 bytes: more than 1024) */
static int longmode = 0;
#define LSEG 90
#define LQRY 230
static const char *lseg(int i) {
  static char b[4][LSEG + 1];
  memset(b[i], 'a' + i, LSEG);
  b[i][LSEG] = 0;
  return b[i];
}
static const char *full_name(const char *name) {
  static char b[4 * (LSEG + 1) + 64];
  if (!longmode) return name;
  snprintf(b, sizeof(b), "%s/%s/%s/%s/%s", lseg(0), lseg(1), lseg(2), lseg(3), name);
  return b;
}
static int add_path(coap_pdu_t *p, const char *path) {
  if (longmode)
    for (int i = 0; i < 4; i++)
      if (!coap_add_option(p, COAP_OPTION_URI_PATH, LSEG, (const uint8_t *)lseg(i))) return 0;
  if (!coap_add_option(p, COAP_OPTION_URI_PATH, strlen(path), (const uint8_t *)path)) return 0;
  return 1;
}
/* Uri-Query (15) sorts after everything else the scenarios add before sending except RTAG:
 * inserted, so the order of the calls does not matter */
static int add_long_queries(coap_pdu_t *p) {
  if (longmode < 2) return 1;
  char q[LQRY + 1];
  for (int i = 0; i < 3; i++) {
    memset(q, 'q' + i, LQRY);
    q[0] = 'k';
    q[1] = '=';
    if (!coap_insert_option(p, COAP_OPTION_URI_QUERY, LQRY, (const uint8_t *)q)) return 0;
  }
  return 1;
}

static coap_resource_t *mkres(const char *name, coap_method_handler_t get,
                              coap_method_handler_t put) {
  const char *fn = full_name(name);
  coap_resource_t *r = coap_resource_init(coap_make_str_const(fn), 0);
  if (!r) return NULL;
  if (get) coap_register_request_handler(r, COAP_REQUEST_GET, get);
  if (put) coap_register_request_handler(r, COAP_REQUEST_PUT, put);
  return r;
}

/* full set-up; every step tolerates failure of the previous ones. returns 1 if complete */
static int world_up(int block_mode) {
  int ok = 1;
  W.srv = coap_new_context(NULL);
  W.cli = coap_new_context(NULL);
  R("srv=%d", W.srv != NULL);
  R("cli=%d", W.cli != NULL);
  if (W.srv) {
    coap_context_set_block_mode(W.srv, (uint32_t)block_mode);
    W.ep = vn_new_server_ep(W.srv);
    R("ep=%d", W.ep != NULL);
    W.r_small = mkres("r", h_small, NULL);
    W.r_big = mkres("big", h_big, NULL);
    W.r_up = mkres("up", NULL, h_up);
    W.r_obs = mkres("obs", h_obs, NULL);
    W.r_loop = mkres("loop", h_loop, NULL);
    R("res=%d%d%d%d%d", W.r_small != NULL, W.r_big != NULL, W.r_up != NULL, W.r_obs != NULL,
      W.r_loop != NULL);
    if (W.r_obs) coap_resource_set_get_observable(W.r_obs, 1);
    coap_resource_t *all[5] = {W.r_small, W.r_big, W.r_up, W.r_obs, W.r_loop};
    for (int i = 0; i < 5; i++)
      if (all[i]) coap_add_resource(W.srv, all[i]);
      else ok = 0;
    if (W.r_small) {
      coap_attr_t *a = coap_add_attr(W.r_small, coap_make_str_const("ct"),
                                     coap_make_str_const("0"), 0);
      R("attr=%d", a != NULL);
    }
  }
  if (W.cli) {
    coap_context_set_block_mode(W.cli, (uint32_t)block_mode);
    coap_register_response_handler(W.cli, on_resp);
    coap_register_nack_handler(W.cli, on_nack);
    if (W.ep) {
      W.cs = vn_new_client(W.cli, &W.ep->bind_addr);
      R("cs=%d", W.cs != NULL);
    }
  }
  return ok && W.srv && W.cli && W.ep && W.cs;
}

/* release what exists but keep the library started (used to retry a failed set-up) */
static void world_release(void) {
  if (W.cs) {
    vn_unregister_client(W.cs);
    coap_session_release(W.cs);
    W.cs = NULL;
  }
  if (W.cli) coap_free_context(W.cli);
  if (W.srv) coap_free_context(W.srv);
  W.cli = W.srv = NULL;
  W.ep = NULL;
  W.r_small = W.r_big = W.r_up = W.r_obs = W.r_loop = NULL;
  vn_nnodes = 0;
}

static void world_down(void) {
  if (W.cs) {
    vn_unregister_client(W.cs);
    coap_session_release(W.cs);
    W.cs = NULL;
  }
  if (W.cli) coap_free_context(W.cli);
  if (W.srv) coap_free_context(W.srv);
  W.cli = W.srv = NULL;
  coap_cleanup();
}

static int in_queue(coap_queue_t *q, const coap_pdu_t *p) {
  for (; q; q = q->next)
    if (q->pdu == p) return 1;
  return 0;
}

/* coap_send with the ownership bookkeeping */
static coap_mid_t send_tracked(coap_session_t *s, coap_pdu_t *p) {
  int i = nsends < MAXSENDS ? nsends++ : MAXSENDS - 1;
  coap_context_t *ctx = s->context;
  sends[i].pdu_id = fa_id_of(p);
  coap_mid_t mid = coap_send(s, p);
  sends[i].mid_valid = mid != COAP_INVALID_MID;
  sends[i].live_after = fa_is_live(p) && fa_id_of(p) == sends[i].pdu_id;
  sends[i].in_sendq = sends[i].live_after && in_queue(ctx->sendqueue, p);
  sends[i].in_delayq = sends[i].live_after && in_queue(s->delayqueue, p);
  return mid;
}

static coap_pdu_t *mk_req(coap_session_t *s, int type, int code, const char *path,
                          uint8_t *tok_out, size_t *tl_out) {
  coap_pdu_t *p = coap_new_pdu((coap_pdu_type_t)type, (coap_pdu_code_t)code, s);
  uint8_t tok[8];
  size_t tl;
  if (!p) return NULL;
  coap_session_new_token(s, &tl, tok);
  if (tok_out) {
    memcpy(tok_out, tok, tl);
    *tl_out = tl;
  }
  if (!coap_add_token(p, tl, tok) || !add_path(p, path) || !add_long_queries(p)) {
    coap_delete_pdu(p);
    return NULL;
  }
  return p;
}

/* canary: with memory available, a plain CON GET /r must be answered with "hello" */
static int canary(void) {
  int made_cs = 0;
  if (!W.srv || !W.cli || !W.ep) return -1;       /* no world: nothing to exchange with */
  if (!W.cs) {
    W.cs = vn_new_client(W.cli, &W.ep->bind_addr);
    made_cs = 1;
    if (!W.cs) return 0;
  }
  (void)made_cs;
  W.canary_ok = 0;
  coap_pdu_t *p = mk_req(W.cs, COAP_MESSAGE_CON, COAP_REQUEST_CODE_GET, "r", W.canary_tok,
                         &W.canary_tl);
  if (!p) return 0;
  if (coap_send(W.cs, p) == COAP_INVALID_MID) return 0;
  pump(400000);
  /* answered exactly once with the expected payload */
  return W.canary_ok == 1;
}

/* ------------------------------------------------------------------ scenarios
 * Each scenario: [unarmed set-up] fa_armed=1 ... operation ... fa_armed=0, canary, fa_armed=1,
 * tear-down.  R() records API return values and what was observed. */
static int want_canary = 1;
static int canary_result = -1;

static void finish_with_canary(void) {
  int a = fa_armed;
  fa_armed = 0;
  canary_result = want_canary ? canary() : -1;
  fa_armed = a;
}

static void sc_setup(void) {
  /* everything armed: start-up, contexts, endpoint, resources, attribute, client session,
   * tear-down */
  fa_armed = 1;
  coap_startup();
  coap_set_log_level(fa_loglevel());
  vn_prng_seed(11);
  int ok = world_up(COAP_BLOCK_USE_LIBCOAP | COAP_BLOCK_SINGLE_BODY);
  R("up=%d", ok);
  if (!ok) {
    /* "the next operation with memory available succeeds": tear the partial world down
     * (armed: tear-down is part of the scenario) and set it up again without faults */
    world_release();
    fa_armed = 0;
    size_t keep = reslen;
    int ok2 = world_up(COAP_BLOCK_USE_LIBCOAP | COAP_BLOCK_SINGLE_BODY);
    reslen = keep;
    R("retry=%d", ok2);
    fa_armed = 1;
  }
  finish_with_canary();
  world_down();
}

static void simple_exchange(int type) {
  coap_pdu_t *p = mk_req(W.cs, type, COAP_REQUEST_CODE_GET, "r", NULL, NULL);
  R("pdu=%d", p != NULL);
  if (p) {
    coap_mid_t mid = send_tracked(W.cs, p);
    R("send=%d", mid != COAP_INVALID_MID);
  }
  pump(120000);
  R("resp=%d code=%d len=%zu h=%08x nack=%d", W.n_resp, W.last_code, W.last_len, W.last_hash,
    W.n_nack);
  if (W.n_resp && W.last_code == COAP_RESPONSE_CODE_CONTENT &&
      (W.last_len != 5 || W.last_hash != fnv((const uint8_t *)"hello", 5)))
    R("bad=wrong-payload");
}

static void prologue(int block_mode) {
  coap_startup();
  coap_set_log_level(fa_loglevel());
  vn_prng_seed(11);
  if (!world_up(block_mode)) {
    R("bad=setup-failed-without-fault");
  }
  reslen = 0;       /* the set-up part is not interesting here */
  fa_armed = 1;
}

static void sc_get_con(void) {
  prologue(COAP_BLOCK_USE_LIBCOAP | COAP_BLOCK_SINGLE_BODY);
  simple_exchange(COAP_MESSAGE_CON);
  finish_with_canary();
  world_down();
}

static void sc_get_non(void) {
  prologue(COAP_BLOCK_USE_LIBCOAP | COAP_BLOCK_SINGLE_BODY);
  simple_exchange(COAP_MESSAGE_NON);
  finish_with_canary();
  world_down();
}

static void sc_get_noblk(void) {
  /* application does not ask libcoap for block handling */
  prologue(0);
  simple_exchange(COAP_MESSAGE_CON);
  finish_with_canary();
  world_down();
}

static void sc_notfound(void) {
  /* 4.04 for an unknown resource, 4.05 for an unsupported method, .well-known/core listing */
  prologue(COAP_BLOCK_USE_LIBCOAP | COAP_BLOCK_SINGLE_BODY);
  static const struct { int code; const char *path; } q[3] = {
    {COAP_REQUEST_CODE_GET, "nothere"}, {COAP_REQUEST_CODE_DELETE, "r"},
    {COAP_REQUEST_CODE_GET, ".well-known"}};
  for (int i = 0; i < 3; i++) {
    coap_pdu_t *p = mk_req(W.cs, COAP_MESSAGE_CON, q[i].code, q[i].path, NULL, NULL);
    if (p && i == 2 && !coap_add_option(p, COAP_OPTION_URI_PATH, 4, (const uint8_t *)"core")) {
      coap_delete_pdu(p);
      p = NULL;
    }
    R("pdu%d=%d", i, p != NULL);
    W.last_code = 0;
    int before = W.n_resp;
    if (p) R("send%d=%d", i, send_tracked(W.cs, p) != COAP_INVALID_MID);
    pump(120000);
    R("resp%d=%d code=%d len=%zu", i, W.n_resp - before, W.last_code, W.last_len);
  }
  finish_with_canary();
  world_down();
}

static void sc_resp508(void) {
  /* a 5.08 response with diagnostic payload: coap_send_internal prepends its own address
   * (RFC 8768 section 4), which needs the PDU to grow; with and without a Hop-Limit option */
  prologue(COAP_BLOCK_USE_LIBCOAP | COAP_BLOCK_SINGLE_BODY);
  coap_pdu_t *p = mk_req(W.cs, COAP_MESSAGE_CON, COAP_REQUEST_CODE_GET, "loop", NULL, NULL);
  R("pdu=%d", p != NULL);
  if (p) R("send=%d", send_tracked(W.cs, p) != COAP_INVALID_MID);
  pump(120000);
  R("resp=%d code=%d len=%zu nack=%d", W.n_resp, W.last_code, W.last_len, W.n_nack);
  finish_with_canary();
  world_down();
}

static void one_request(const char *tag, int type, int code, const char *path) {
  coap_pdu_t *p = mk_req(W.cs, type, code, path, NULL, NULL);
  int before = W.n_resp;
  W.last_code = 0;
  W.last_len = 0;
  R("%s_pdu=%d", tag, p != NULL);
  if (p) R("%s_send=%d", tag, send_tracked(W.cs, p) != COAP_INVALID_MID);
  pump(120000);
  R("%s_resp=%d code=%d len=%zu", tag, W.n_resp - before, W.last_code, W.last_len);
}

static void sc_obs_big(void) {
  /* observe on a resource whose representation needs Block2: registration, two notifications
   * (each a complete block-wise body), cancel */
  prologue(COAP_BLOCK_USE_LIBCOAP | COAP_BLOCK_SINGLE_BODY);
  coap_resource_t *r = mkres("obig", h_obsbig, NULL);
  if (r) {
    coap_resource_set_get_observable(r, 1);
    coap_add_resource(W.srv, r);
  }
  uint8_t tok[8];
  size_t tl = 0;
  coap_pdu_t *p = mk_req(W.cs, COAP_MESSAGE_CON, COAP_REQUEST_CODE_GET, "obig", tok, &tl);
  if (p && !coap_insert_option(p, COAP_OPTION_OBSERVE, 0, NULL)) {
    coap_delete_pdu(p);
    p = NULL;
  }
  R("pdu=%d", p != NULL);
  if (p) R("send=%d", send_tracked(W.cs, p) != COAP_INVALID_MID);
  pump(200000);
  R("reg resp=%d code=%d len=%zu", W.n_resp, W.last_code, W.last_len);
  for (int i = 1; i <= 2; i++) {
    int before = W.n_resp;
    W.obs_value = i;
    W.last_len = 0;
    int n = r ? coap_resource_notify_observers(r, NULL) : 0;
    pump(200000);
    R("notify%d=%d got=%d len=%zu", i, n, W.n_resp - before, W.last_len);
    if (W.n_resp > before && W.last_code == COAP_RESPONSE_CODE_CONTENT) {
      if (W.last_len < BIG_LEN) R("bad=partial-body-delivered");
      else {
        uint8_t exp[BIG_LEN];
        memcpy(exp, big_body, BIG_LEN);
        exp[0] = (uint8_t)i;
        if (W.last_len != BIG_LEN || W.last_hash != fnv(exp, BIG_LEN)) R("bad=corrupt-or-stale-body");
      }
    }
  }
  coap_binary_t t;
  t.length = tl;
  t.s = tok;
  int plain0 = W.n_plain;
  W.last_plain_code = 0;
  int c = coap_cancel_observe(W.cs, &t, COAP_MESSAGE_CON);
  pump(200000);
  R("cancel=%d got=%d code=%d", c, W.n_plain - plain0, W.last_plain_code);
  finish_with_canary();
  world_down();
}

static void sc_echo(void) {
  /* POST with a Block1 request body and a Block2 response body */
  prologue(COAP_BLOCK_USE_LIBCOAP | COAP_BLOCK_SINGLE_BODY);
  coap_resource_t *r = coap_resource_init(coap_make_str_const(full_name("echo")), 0);
  if (r) {
    coap_register_request_handler(r, COAP_REQUEST_POST, h_echo);
    coap_add_resource(W.srv, r);
  }
  coap_pdu_t *p = mk_req(W.cs, COAP_MESSAGE_CON, COAP_REQUEST_CODE_POST, "echo", NULL, NULL);
  R("pdu=%d", p != NULL);
  if (p) {
    int a = coap_add_data_large_request(W.cs, p, UP_LEN, up_body, NULL, NULL);
    R("large=%d", a);
    if (!a) {
      coap_delete_pdu(p);
      p = NULL;
    }
  }
  if (p) R("send=%d", send_tracked(W.cs, p) != COAP_INVALID_MID);
  pump(300000);
  R("resp=%d code=%d len=%zu nack=%d put=%d", W.n_resp, W.last_code, W.last_len, W.n_nack, W.n_put);
  if (W.n_put && (W.put_len != UP_LEN || W.put_hash != fnv(up_body, UP_LEN)))
    R("bad=wrong-body-at-server");
  if (W.n_resp && W.last_code == COAP_RESPONSE_CODE_CONTENT) {
    uint8_t exp[UP_LEN];
    for (size_t i = 0; i < UP_LEN; i++) exp[i] = up_body[UP_LEN - 1 - i];
    if (W.last_len < UP_LEN) R("bad=partial-body-delivered");
    else if (W.last_len != UP_LEN || W.last_hash != fnv(exp, UP_LEN)) R("bad=corrupt-body");
  }
  if (W.n_resp > 1) R("bad=response-delivered-%d-times", W.n_resp);
  if (W.n_put > 1) R("bad=request-delivered-%d-times", W.n_put);
  finish_with_canary();
  world_down();
}

static void sc_cache(void) {
  /* coap_cache_derive_key / coap_new_cache_entry / lookup / application data with release
   * callback; the entries are released with the context */
  prologue(COAP_BLOCK_USE_LIBCOAP | COAP_BLOCK_SINGLE_BODY);
  coap_resource_t *r = mkres("cache", h_cache, NULL);
  if (r) coap_add_resource(W.srv, r);
  static const uint16_t ign[] = {COAP_OPTION_RTAG};
  R("ignore=%d", coap_cache_ignore_options(W.srv, ign, 1));
  /* a second call replaces the list (the first one is released) */
  static const uint16_t ign2[] = {COAP_OPTION_RTAG, COAP_OPTION_ETAG};
  R("ignore2=%d", coap_cache_ignore_options(W.srv, ign2, 2));
  one_request("c1", COAP_MESSAGE_CON, COAP_REQUEST_CODE_GET, "cache");
  one_request("c2", COAP_MESSAGE_CON, COAP_REQUEST_CODE_GET, "cache");
  if (W.last_code == COAP_RESPONSE_CODE_CONTENT && n_cache_new + n_cache_hit == 2 && n_cache_new == 1 &&
      W.last_hash != fnv((const uint8_t *)"c2", 2))
    R("bad=cache-counter-wrong");
  if (cache_no_pdu) R("bad=cache-entry-without-the-recorded-pdu");
  finish_with_canary();
  world_down();
}

static void sc_multi(void) {
  /* several client sessions, a server that keeps at most two idle sessions, idle time-out and
   * re-creation of a server session */
  prologue(COAP_BLOCK_USE_LIBCOAP | COAP_BLOCK_SINGLE_BODY);
  coap_context_set_max_idle_sessions(W.srv, 2);
  coap_context_set_session_timeout(W.srv, 30);
  coap_session_t *extra[2] = {NULL, NULL};
  one_request("s0", COAP_MESSAGE_CON, COAP_REQUEST_CODE_GET, "r");
  for (int i = 0; i < 2; i++) {
    extra[i] = vn_new_client(W.cli, &W.ep->bind_addr);
    R("sess%d=%d", i, extra[i] != NULL);
    if (!extra[i]) continue;
    coap_session_t *keep = W.cs;
    W.cs = extra[i];
    one_request(i ? "s2" : "s1", COAP_MESSAGE_NON, COAP_REQUEST_CODE_GET, "r");
    W.cs = keep;
  }
  /* let the server's idle sessions expire, then talk again on the first session */
  vn_advance(60000);
  pump(5000);
  one_request("again", COAP_MESSAGE_CON, COAP_REQUEST_CODE_GET, "r");
  finish_with_canary();
  for (int i = 0; i < 2; i++)
    if (extra[i]) {
      vn_unregister_client(extra[i]);
      coap_session_release(extra[i]);
    }
  world_down();
}

static void sc_qblock(void) {
  /* RFC 9177 Q-Block negotiated on both sides: NON upload and NON download of multi-block
   * bodies (the recovery logic is only exercised as far as the scripted loss-free network and
   * the injected failures take it) */
  prologue(COAP_BLOCK_USE_LIBCOAP | COAP_BLOCK_SINGLE_BODY | COAP_BLOCK_TRY_Q_BLOCK);
  coap_pdu_t *p = mk_req(W.cs, COAP_MESSAGE_NON, COAP_REQUEST_CODE_PUT, "up", NULL, NULL);
  R("pdu=%d", p != NULL);
  if (p) {
    int a = coap_add_data_large_request(W.cs, p, UP_LEN, up_body, NULL, NULL);
    R("large=%d", a);
    if (!a) {
      coap_delete_pdu(p);
      p = NULL;
    }
  }
  if (p) R("send=%d", send_tracked(W.cs, p) != COAP_INVALID_MID);
  pump(300000);
  R("resp=%d code=%d put=%d putlen=%zu", W.n_resp, W.last_code, W.n_put, W.put_len);
  if (W.n_put && (W.put_len != UP_LEN || W.put_hash != fnv(up_body, UP_LEN)))
    R("bad=wrong-body-at-server");
  int before = W.n_resp;
  W.last_code = 0;
  W.last_len = 0;
  p = mk_req(W.cs, COAP_MESSAGE_NON, COAP_REQUEST_CODE_GET, "big", NULL, NULL);
  R("pdu2=%d", p != NULL);
  if (p) R("send2=%d", send_tracked(W.cs, p) != COAP_INVALID_MID);
  pump(300000);
  R("resp2=%d code=%d len=%zu", W.n_resp - before, W.last_code, W.last_len);
  if (W.n_resp > before && W.last_code == COAP_RESPONSE_CODE_CONTENT) {
    if (W.last_len < BIG_LEN) R("bad=partial-body-delivered");
    else if (W.last_len != BIG_LEN || W.last_hash != fnv(big_body, BIG_LEN)) R("bad=corrupt-body");
  }
  finish_with_canary();
  world_down();
}

static void sc_persist(void) {
  /* observe persistence (coap_persist_*): phase 1, without faults, leaves the three files of a
   * server with one dynamically created resource and one observer; phase 2, armed, is the
   * restart: coap_persist_startup() on the files, a notification to the restored observer, a
   * GET on the restored resource, coap_persist_stop(), tear-down */
  char f_dyn[96], f_obs[96], f_val[96];
  /* fixed-length names (zero-padded pid): the library copies them, so their length is an
   * allocation size and must not depend on the number of digits of the pid */
  snprintf(f_dyn, sizeof(f_dyn), "/var/tmp/verif.c18.%010d.dyn", (int)getpid());
  snprintf(f_obs, sizeof(f_obs), "/var/tmp/verif.c18.%010d.obs", (int)getpid());
  snprintf(f_val, sizeof(f_val), "/var/tmp/verif.c18.%010d.val", (int)getpid());
  prologue(COAP_BLOCK_USE_LIBCOAP | COAP_BLOCK_SINGLE_BODY);
  fa_armed = 0;
  int ok = coap_persist_startup(W.srv, f_dyn, f_obs, f_val, 1);
  coap_resource_t *u = coap_resource_unknown_init(h_unknown_put);
  if (u) coap_add_resource(W.srv, u);
  one_request("p", COAP_MESSAGE_CON, COAP_REQUEST_CODE_PUT, "made");
  uint8_t tok[8];
  size_t tl = 0;
  coap_pdu_t *p = mk_req(W.cs, COAP_MESSAGE_CON, COAP_REQUEST_CODE_GET, "obs", tok, &tl);
  if (p && coap_insert_option(p, COAP_OPTION_OBSERVE, 0, NULL)) coap_send(W.cs, p);
  pump(120000);
  W.obs_value = 1;
  coap_resource_notify_observers(W.r_obs, NULL);
  pump(120000);
  uint16_t port = ntohs(W.ep->bind_addr.addr.sin.sin_port);
  int phase1 = ok && u && W.n_resp >= 3;
  coap_persist_stop(W.srv);
  coap_free_context(W.srv);
  W.srv = NULL;
  W.ep = NULL;
  W.r_small = W.r_big = W.r_up = W.r_obs = W.r_loop = NULL;
  vn_nnodes = 0;
  vn_register_client(W.cli, W.cs);
  n_dyn = 0;
  reslen = 0;
  R("phase1=%d", phase1);
  /* ---- the restart */
  fa_armed = 1;
  W.srv = coap_new_context(NULL);
  R("srv=%d", W.srv != NULL);
  if (W.srv) {
    coap_context_set_block_mode(W.srv, COAP_BLOCK_USE_LIBCOAP | COAP_BLOCK_SINGLE_BODY);
    coap_address_t a;
    vn_addr4(&a, VN_LOOPBACK, port);
    W.ep = coap_new_endpoint(W.srv, &a, COAP_PROTO_UDP);
    if (W.ep) vn_register_ep(W.srv, W.ep);
    W.r_small = mkres("r", h_small, NULL);
    W.r_obs = mkres("obs", h_obs, NULL);
    u = coap_resource_unknown_init(h_unknown_put);
    R("ep=%d res=%d%d%d", W.ep != NULL, W.r_small != NULL, W.r_obs != NULL, u != NULL);
    if (W.r_small) coap_add_resource(W.srv, W.r_small);
    if (W.r_obs) {
      coap_resource_set_get_observable(W.r_obs, 1);
      coap_add_resource(W.srv, W.r_obs);
    }
    if (u) coap_add_resource(W.srv, u);
    int st = coap_persist_startup(W.srv, f_dyn, f_obs, f_val, 1);
    R("startup=%d dyn=%d", st, n_dyn);
    int before = W.n_resp;
    W.obs_value = 2;
    W.last_len = 0;
    int n = W.r_obs ? coap_resource_notify_observers(W.r_obs, NULL) : 0;
    pump(120000);
    R("notify=%d got=%d len=%zu", n, W.n_resp - before, W.last_len);
    if (W.n_resp > before && W.last_code == COAP_RESPONSE_CODE_CONTENT &&
        W.last_hash != fnv((const uint8_t *)"v2", 2))
      R("bad=stale-or-wrong-notification");
    if (W.ep) one_request("g", COAP_MESSAGE_CON, COAP_REQUEST_CODE_GET, "made");
    if (!W.r_small || !W.ep) {
      /* what could not be created under the fault is created now, with memory available */
      int a = fa_armed;
      fa_armed = 0;
      if (!W.ep) {
        coap_address_t a2;
        vn_addr4(&a2, VN_LOOPBACK, port);
        W.ep = coap_new_endpoint(W.srv, &a2, COAP_PROTO_UDP);
        if (W.ep) vn_register_ep(W.srv, W.ep);
      }
      if (!W.r_small) {
        W.r_small = mkres("r", h_small, NULL);
        if (W.r_small) coap_add_resource(W.srv, W.r_small);
      }
      R("retry=%d%d", W.ep != NULL, W.r_small != NULL);
      fa_armed = a;
    }
    finish_with_canary();
    coap_persist_stop(W.srv);
  }
  world_down();
  if (!getenv("FA_KEEP")) {
    remove(f_dyn);
    remove(f_obs);
    remove(f_val);
  }
}

static void fetch_observe(size_t body_len) {
  /* FETCH with Observe = 0 (the client keeps the tokens of the registration per block:
   * track_fetch_observe), two notifications, cancel; body_len > 1024 makes the request itself
   * block-wise (Block1) */
  prologue(COAP_BLOCK_USE_LIBCOAP | COAP_BLOCK_SINGLE_BODY);
  coap_resource_t *r = coap_resource_init(coap_make_str_const(full_name("fobs")), 0);
  if (r) {
    coap_register_request_handler(r, COAP_REQUEST_FETCH, h_fetch);
    coap_resource_set_get_observable(r, 1);
    coap_add_resource(W.srv, r);
  }
  uint8_t tok[8];
  size_t tl = 0;
  char exp[32];
  coap_pdu_t *p = mk_req(W.cs, COAP_MESSAGE_CON, COAP_REQUEST_CODE_FETCH, "fobs", tok, &tl);
  uint8_t cf[2];
  if (p && (!coap_insert_option(p, COAP_OPTION_OBSERVE, 0, NULL) ||
            !coap_insert_option(p, COAP_OPTION_CONTENT_FORMAT,
                                coap_encode_var_safe(cf, sizeof(cf),
                                                     COAP_MEDIATYPE_APPLICATION_OCTET_STREAM), cf))) {
    coap_delete_pdu(p);
    p = NULL;
  }
  if (p) {
    int a = coap_add_data_large_request(W.cs, p, body_len, up_body, NULL, NULL);
    R("large=%d", a);
    if (!a) {
      coap_delete_pdu(p);
      p = NULL;
    }
  }
  R("pdu=%d", p != NULL);
  int sent_ok = 0;
  if (p) R("send=%d", sent_ok = (send_tracked(W.cs, p) != COAP_INVALID_MID));
  pump(200000);
  R("reg resp=%d code=%d len=%zu", W.n_resp, W.last_code, W.last_len);
  int registered = sent_ok && W.n_resp == 1 && W.last_code == COAP_RESPONSE_CODE_CONTENT && W.last_obs;
  if (W.n_resp && W.last_code == COAP_RESPONSE_CODE_CONTENT) {
    int l = snprintf(exp, sizeof(exp), "f0:%zu", body_len);
    if (W.last_len != (size_t)l || W.last_hash != fnv((uint8_t *)exp, (size_t)l)) R("bad=wrong-payload");
  }
  for (int i = 1; i <= 2; i++) {
    int before = W.n_resp;
    W.obs_value = i;
    int n = r ? coap_resource_notify_observers(r, NULL) : 0;
    pump(200000);
    R("notify%d=%d got=%d", i, n, W.n_resp - before);
    if (W.n_resp > before && W.last_code == COAP_RESPONSE_CODE_CONTENT) {
      int l = snprintf(exp, sizeof(exp), "f%d:%zu", i, body_len);
      if (W.last_len != (size_t)l || W.last_hash != fnv((uint8_t *)exp, (size_t)l))
        R("bad=stale-or-wrong-notification");
    }
  }
  coap_binary_t t;
  t.length = tl;
  t.s = tok;
  int plain0 = W.n_plain;
  W.last_plain_code = 0;
  int c = coap_cancel_observe(W.cs, &t, COAP_MESSAGE_CON);
  pump(200000);
  R("cancel=%d got=%d code=%d", c, W.n_plain - plain0, W.last_plain_code);
  int cancelled = c && W.n_plain > plain0 && W.last_plain_code == COAP_RESPONSE_CODE_CONTENT;
  int before = W.n_resp;
  W.obs_value = 9;
  if (r) coap_resource_notify_observers(r, NULL);
  pump(200000);
  R("after=%d", W.n_resp - before);
  if (cancelled && W.n_resp > before) R("bad=notified-after-successful-cancel");
  (void)registered;
  finish_with_canary();
  world_down();
}

static void sc_fetch_obs(void) {
  fetch_observe(40);
}

static void sc_fetch_obs_big(void) {
  fetch_observe(UP_LEN);
}

/* ---- scripted peers (raw datagrams): what a libcoap peer never does */
#define NS_BLK 64            /* szx = 2 */
#define NS_LEN 300           /* 5 blocks, the last one short */

static void sc_up_nosize(void) {
  /* Block1 upload by a peer that does not announce the size (no Size1): the server's
   * reassembly buffer has to grow with every block (coap_block_build_body -> coap_resize_binary) */
  prologue(COAP_BLOCK_USE_LIBCOAP | COAP_BLOCK_SINGLE_BODY);
  coap_address_t peer;
  vn_addr4(&peer, 0x0a000001u, 40000);
  int nblk = (NS_LEN + NS_BLK - 1) / NS_BLK, acked = 0, last_code = 0;
  for (int i = 0; i < nblk; i++) {
    uint8_t m[16 + NS_BLK];
    size_t o = 0, off = (size_t)i * NS_BLK, n = NS_LEN - off < NS_BLK ? NS_LEN - off : NS_BLK;
    int more = i + 1 < nblk;
    m[o++] = 0x41;                       /* CON, TKL 1 */
    m[o++] = COAP_REQUEST_CODE_PUT;
    m[o++] = 0x10;
    m[o++] = (uint8_t)i;                 /* mid */
    m[o++] = 0x77;                       /* token */
    m[o++] = 0xB2; m[o++] = 'u'; m[o++] = 'p';             /* Uri-Path "up" */
    m[o++] = 0xD1; m[o++] = 27 - 11 - 13;                  /* Block1, 1 byte */
    m[o++] = (uint8_t)((i << 4) | (more << 3) | 2);
    m[o++] = 0xFF;
    memcpy(m + o, up_body + off, n);
    o += n;
    size_t before = vn_nout;
    vn_inject_ep(W.srv, W.ep, &peer, NULL, m, o);
    /* the reply to the peer is in the log (nobody is registered for that address) */
    for (size_t k = before; k < vn_nout; k++)
      if (vn_out[k].len >= 4 && vn_out[k].data[3] == (uint8_t)i && vn_out[k].data[2] == 0x10) {
        last_code = vn_out[k].data[1];
        if (last_code == COAP_RESPONSE_CODE_CONTINUE || last_code == COAP_RESPONSE_CODE_CHANGED) acked++;
      }
    W.cursor = vn_nout;
    if (last_code >= 128) break;         /* error response: the peer gives up */
  }
  R("acked=%d code=%d put=%d putlen=%zu", acked, last_code, W.n_put, W.put_len);
  if (W.n_put && (W.put_len != NS_LEN || W.put_hash != fnv(up_body, NS_LEN)))
    R("bad=wrong-body-at-server");
  if (W.n_put > 1) R("bad=request-delivered-%d-times", W.n_put);
  finish_with_canary();
  world_down();
}

static void sc_down_nosize(void) {
  /* Block2 download from a peer that omits Size2 (and ETag): the client's reassembly buffer has
   * to grow with every block */
  prologue(COAP_BLOCK_USE_LIBCOAP | COAP_BLOCK_SINGLE_BODY);
  coap_address_t fake;
  vn_addr4(&fake, VN_LOOPBACK, 9);
  coap_session_t *fs = vn_new_client(W.cli, &fake);
  R("sess=%d", fs != NULL);
  if (fs) {
    coap_session_t *keep = W.cs;
    W.cs = fs;
    coap_pdu_t *p = mk_req(fs, COAP_MESSAGE_CON, COAP_REQUEST_CODE_GET, "x", NULL, NULL);
    W.cs = keep;
    R("pdu=%d", p != NULL);
    if (p) R("send=%d", send_tracked(fs, p) != COAP_INVALID_MID);
    int nblk = (NS_LEN + NS_BLK - 1) / NS_BLK, served = 0;
    size_t scan = 0;
    for (int guard = 0; guard < 40 && served < nblk; guard++) {
      /* find the next request of the client that was not answered yet */
      int found = 0;
      for (; scan < vn_nout; scan++) {
        vn_dgram_t *d = &vn_out[scan];
        if (d->session != fs || d->len < 4 || (d->data[1] >> 5) != 0 || d->data[1] == 0) continue;
        unsigned tkl = d->data[0] & 15;
        if (4 + tkl > d->len || tkl > 8) continue;
        uint8_t m[32 + NS_BLK];
        size_t o = 0, off = (size_t)served * NS_BLK, n = NS_LEN - off < NS_BLK ? NS_LEN - off : NS_BLK;
        int more = served + 1 < nblk;
        m[o++] = (uint8_t)(0x60 | tkl);                    /* ACK */
        m[o++] = COAP_RESPONSE_CODE_CONTENT;
        m[o++] = d->data[2];
        m[o++] = d->data[3];
        memcpy(m + o, d->data + 4, tkl);
        o += tkl;
        m[o++] = 0xD1; m[o++] = 23 - 13;                   /* Block2, 1 byte */
        m[o++] = (uint8_t)((served << 4) | (more << 3) | 2);
        m[o++] = 0xFF;
        memcpy(m + o, big_body + off, n);
        o += n;
        scan++;
        served++;
        found = 1;
        vn_inject_session(W.cli, fs, m, o);
        break;
      }
      if (!found) {
        /* nothing to answer: let the client's timers run (retransmission of a dropped request) */
        unsigned w = vn_prepare(W.cli);
        if (!w || scan < vn_nout) {
          if (!w) break;
          continue;
        }
        if (w > 100000) break;
        vn_advance(w);
      }
    }
    W.cursor = vn_nout;
    R("served=%d resp=%d code=%d len=%zu", served, W.n_resp, W.last_code, W.last_len);
    if (W.n_resp && W.last_code == COAP_RESPONSE_CODE_CONTENT) {
      if (W.last_len < NS_LEN) R("bad=partial-body-delivered");
      else if (W.last_len != NS_LEN || W.last_hash != fnv(big_body, NS_LEN)) R("bad=corrupt-body");
    }
    if (W.n_resp > 1) R("bad=response-delivered-%d-times", W.n_resp);
  }
  finish_with_canary();
  if (fs) {
    vn_unregister_client(fs);
    coap_session_release(fs);
  }
  world_down();
}

static void wellknown(int nres) {
  /* GET /.well-known/core with a listing that does not fit the initial 256-byte PDU buffer
   * (nres = 4: about 450 bytes) and one that needs Block2 (nres = 14: about 1500 bytes) */
  prologue(COAP_BLOCK_USE_LIBCOAP | COAP_BLOCK_SINGLE_BODY);
  for (int i = 0; i < nres; i++) {
    char name[100];
    memset(name, 'a' + i, 90);
    snprintf(name + 90, sizeof(name) - 90, "%d", i);
    coap_resource_t *r = mkres(name, h_small, NULL);
    coap_attr_t *a = r ? coap_add_attr(r, coap_make_str_const("rt"),
                                       coap_make_str_const("\"sensor\""), 0) : NULL;
    R("r%d=%d%d", i, r != NULL, a != NULL);
    if (r) coap_add_resource(W.srv, r);
  }
  coap_pdu_t *p = mk_req(W.cs, COAP_MESSAGE_CON, COAP_REQUEST_CODE_GET, ".well-known", NULL, NULL);
  if (p && !coap_add_option(p, COAP_OPTION_URI_PATH, 4, (const uint8_t *)"core")) {
    coap_delete_pdu(p);
    p = NULL;
  }
  R("pdu=%d", p != NULL);
  if (p) R("send=%d", send_tracked(W.cs, p) != COAP_INVALID_MID);
  pump(200000);
  R("resp=%d code=%d len=%zu h=%08x", W.n_resp, W.last_code, W.last_len, W.last_hash);
  if (W.n_resp > 1) R("bad=response-delivered-%d-times", W.n_resp);
  finish_with_canary();
  world_down();
}

static void sc_wk_mid(void) {
  wellknown(4);
}

static void sc_wk_big(void) {
  wellknown(14);
}

static void sc_ctx_listen(void) {
  /* coap_new_context() with a listen address (the endpoint is created inside), once under
   * fault and once on an address that is already bound (bind fails without any fault): nothing
   * of the half-built context may stay behind - memory, DTLS context, epoll and timer descriptors */
  coap_startup();
  coap_set_log_level(fa_loglevel());
  vn_prng_seed(11);
  fa_armed = 1;
  coap_address_t a;
  vn_addr4(&a, VN_LOOPBACK, 0);
  coap_context_t *c1 = coap_new_context(&a);
  R("ctx=%d", c1 != NULL);
  if (c1) {
    coap_endpoint_t *ep = c1->endpoint;
    R("ep=%d", ep != NULL);
    /* an address that is not local: bind() fails (EADDRNOTAVAIL) without any fault */
    coap_address_t nl;
    vn_addr4(&nl, 0xc6336401u, 0);                                /* 198.51.100.1 */
    coap_context_t *c2 = coap_new_context(&nl);
    R("ctx_not_local=%d", c2 != NULL);
    if (c2) coap_free_context(c2);
    coap_free_context(c1);
  }
  /* with memory available it works */
  fa_armed = 0;
  coap_context_t *c3 = coap_new_context(&a);
  R("again=%d", c3 != NULL);
  if (!c3) R("bad=context-cannot-be-created-afterwards");
  fa_armed = 1;
  if (c3) coap_free_context(c3);
  want_canary = 0;
  coap_cleanup();
}

static void sc_up_reorder(void) {
  /* Block1 upload by a scripted peer whose blocks arrive out of order: 0, 1, 3 (the last one,
   * M = 0, while block 2 is outstanding), then 2.  The server has to remember the token of the
   * "last" block to answer when the body is complete */
  prologue(COAP_BLOCK_USE_LIBCOAP | COAP_BLOCK_SINGLE_BODY);
  coap_address_t peer;
  vn_addr4(&peer, 0x0a000001u, 40001);
  static const int order[4] = {0, 1, 3, 2};
  const size_t total = 4 * NS_BLK - 10;
  int codes[4] = {0, 0, 0, 0};
  for (int j = 0; j < 4; j++) {
    int i = order[j];
    uint8_t m[24 + NS_BLK];
    size_t o = 0, off = (size_t)i * NS_BLK, n = total - off < NS_BLK ? total - off : NS_BLK;
    int more = i < 3;
    m[o++] = 0x41;
    m[o++] = COAP_REQUEST_CODE_PUT;
    m[o++] = 0x20;
    m[o++] = (uint8_t)j;
    m[o++] = (uint8_t)(0x50 + i);                          /* a token per block */
    m[o++] = 0xB2; m[o++] = 'u'; m[o++] = 'p';
    m[o++] = 0xD1; m[o++] = 27 - 11 - 13;
    m[o++] = (uint8_t)((i << 4) | (more << 3) | 2);
    m[o++] = 0xD2; m[o++] = 60 - 27 - 13;                  /* Size1, 2 bytes */
    m[o++] = (uint8_t)(total >> 8); m[o++] = (uint8_t)total;
    m[o++] = 0xFF;
    memcpy(m + o, up_body + off, n);
    o += n;
    size_t before = vn_nout;
    vn_inject_ep(W.srv, W.ep, &peer, NULL, m, o);
    for (size_t k = before; k < vn_nout; k++)
      if (vn_out[k].len >= 4 && vn_out[k].data[2] == 0x20 && vn_out[k].data[3] == (uint8_t)j)
        codes[j] = vn_out[k].data[1];
    W.cursor = vn_nout;
  }
  R("codes=%d.%d.%d.%d put=%d putlen=%zu", codes[0], codes[1], codes[2], codes[3], W.n_put, W.put_len);
  if (W.n_put && (W.put_len != total || W.put_hash != fnv(up_body, total))) R("bad=wrong-body-at-server");
  if (W.n_put > 1) R("bad=request-delivered-%d-times", W.n_put);
  finish_with_canary();
  world_down();
}

static void sc_async(void) {
  /* separate response through coap_register_async (empty ACK first, CON response later) */
  prologue(COAP_BLOCK_USE_LIBCOAP | COAP_BLOCK_SINGLE_BODY);
  coap_resource_t *r = mkres("sep", h_sep, NULL);
  if (r) coap_add_resource(W.srv, r);
  one_request("a", COAP_MESSAGE_CON, COAP_REQUEST_CODE_GET, "sep");
  if (W.n_resp && W.last_code == COAP_RESPONSE_CODE_CONTENT &&
      (W.last_len != 4 || W.last_hash != fnv((const uint8_t *)"late", 4)))
    R("bad=wrong-payload");
  if (W.n_resp > 1) R("bad=response-delivered-%d-times", W.n_resp);
  finish_with_canary();
  world_down();
}

static void sc_unknown(void) {
  /* resource created by the unknown-resource PUT handler, read, deleted, read again (4.04) */
  prologue(COAP_BLOCK_USE_LIBCOAP | COAP_BLOCK_SINGLE_BODY);
  coap_resource_t *u = coap_resource_unknown_init(h_unknown_put);
  R("unk=%d", u != NULL);
  if (u) coap_add_resource(W.srv, u);
  one_request("put", COAP_MESSAGE_CON, COAP_REQUEST_CODE_PUT, "made");
  one_request("get", COAP_MESSAGE_CON, COAP_REQUEST_CODE_GET, "made");
  if (W.last_code == COAP_RESPONSE_CODE_CONTENT && W.last_hash != fnv((const uint8_t *)"dyn", 3))
    R("bad=wrong-payload");
  one_request("del", COAP_MESSAGE_NON, COAP_REQUEST_CODE_DELETE, "made");
  one_request("get2", COAP_MESSAGE_CON, COAP_REQUEST_CODE_GET, "made");
  R("dyn=%d", n_dyn);
  finish_with_canary();
  world_down();
}

static void sc_ping(void) {
  /* CoAP ping (empty CON -> RST), a NON request answered, a request to a closed port is not
   * modelled (no ICMP in the scripted network) */
  prologue(COAP_BLOCK_USE_LIBCOAP | COAP_BLOCK_SINGLE_BODY);
  coap_mid_t m = coap_session_send_ping(W.cs);
  R("ping=%d", m != COAP_INVALID_MID);
  pump(120000);
  R("nack=%d reason=%d", W.n_nack, W.last_nack);
  one_request("g", COAP_MESSAGE_NON, COAP_REQUEST_CODE_GET, "r");
  finish_with_canary();
  world_down();
}

static const char osc_cli[] =
  "master_secret,hex,\"0102030405060708090a0b0c0d0e0f10\"\n"
  "master_salt,hex,\"9e7ca92223786340\"\n"
  "sender_id,ascii,\"c\"\n"
  "recipient_id,ascii,\"s\"\n";
static const char osc_srv[] =
  "master_secret,hex,\"0102030405060708090a0b0c0d0e0f10\"\n"
  "master_salt,hex,\"9e7ca92223786340\"\n"
  "sender_id,ascii,\"s\"\n"
  "recipient_id,ascii,\"c\"\n";

/* Appendix B.2 variant: both sides with an ID context and rfc8613_b_2 (the client replaces its
 * ID context by a random one when the session is created); the server knows two recipients */
static const char osc_cli_b2[] =
  "master_secret,hex,\"0102030405060708090a0b0c0d0e0f10\"\n"
  "master_salt,hex,\"9e7ca92223786340\"\n"
  "id_context,hex,\"37cbf3210017a2d3\"\n"
  "rfc8613_b_2,bool,true\n"
  "sender_id,ascii,\"c\"\n"
  "recipient_id,ascii,\"s\"\n";
static const char osc_srv_b2[] =
  "master_secret,hex,\"0102030405060708090a0b0c0d0e0f10\"\n"
  "master_salt,hex,\"9e7ca92223786340\"\n"
  "id_context,hex,\"37cbf3210017a2d3\"\n"
  "rfc8613_b_2,bool,true\n"
  "sender_id,ascii,\"s\"\n"
  "recipient_id,ascii,\"c\"\n"
  "recipient_id,ascii,\"d\"\n"
  "recipient_id,ascii,\"e\"\n";
static const char *osc_srv_conf = NULL, *osc_cli_conf = NULL;

static void sc_oscore(void) {
  if (!osc_srv_conf) osc_srv_conf = osc_srv;
  if (!osc_cli_conf) osc_cli_conf = osc_cli;
  /* OSCORE: configuration parsing, security contexts, one protected GET, tear-down.
   * Armed from the start: the set-up is the larger part of the allocations. */
  coap_startup();
  coap_set_log_level(fa_loglevel());
  vn_prng_seed(11);
  fa_armed = 1;
  W.srv = coap_new_context(NULL);
  W.cli = coap_new_context(NULL);
  R("ctx=%d%d", W.srv != NULL, W.cli != NULL);
  int ok = W.srv && W.cli;
  if (ok) {
    coap_str_const_t sc = {strlen(osc_srv_conf), (const uint8_t *)osc_srv_conf};
    coap_oscore_conf_t *conf = coap_new_oscore_conf(sc, NULL, NULL, 0);
    R("sconf=%d", conf != NULL);
    int r = conf ? coap_context_oscore_server(W.srv, conf) : 0;
    R("server=%d", r);
    ok = r;
  }
  if (ok) {
    coap_context_set_block_mode(W.srv, COAP_BLOCK_USE_LIBCOAP | COAP_BLOCK_SINGLE_BODY);
    coap_context_set_block_mode(W.cli, COAP_BLOCK_USE_LIBCOAP | COAP_BLOCK_SINGLE_BODY);
    W.ep = vn_new_server_ep(W.srv);
    W.r_small = mkres("r", h_small, NULL);
    R("ep=%d res=%d", W.ep != NULL, W.r_small != NULL);
    if (W.r_small) coap_add_resource(W.srv, W.r_small);
    coap_register_response_handler(W.cli, on_resp);
    coap_register_nack_handler(W.cli, on_nack);
    ok = W.ep && W.r_small;
  }
  if (ok) {
    coap_str_const_t cc = {strlen(osc_cli_conf), (const uint8_t *)osc_cli_conf};
    coap_oscore_conf_t *conf = coap_new_oscore_conf(cc, NULL, NULL, 0);
    R("cconf=%d", conf != NULL);
    if (conf) {
      W.cs = coap_new_client_session_oscore(W.cli, NULL, &W.ep->bind_addr, COAP_PROTO_UDP, conf);
      if (W.cs) vn_register_client(W.cli, W.cs);
    }
    R("cs=%d", W.cs != NULL);
    ok = W.cs != NULL;
  }
  if (ok) {
    one_request("o", COAP_MESSAGE_CON, COAP_REQUEST_CODE_GET, "r");
    if (W.last_code == COAP_RESPONSE_CODE_CONTENT &&
        (W.last_len != 5 || W.last_hash != fnv((const uint8_t *)"hello", 5)))
      R("bad=wrong-payload");
    /* what went over the wire must not show the plaintext */
    for (size_t i = 0; i < vn_nout; i++)
      for (size_t k = 0; k + 5 <= vn_out[i].len; k++)
        if (memcmp(vn_out[i].data + k, "hello", 5) == 0) R("bad=plaintext-on-the-wire");
    /* the canary is a second protected exchange on the same security context */
    finish_with_canary();
  }
  world_down();
}

static void sc_oscore_b2(void) {
  osc_srv_conf = osc_srv_b2;
  osc_cli_conf = osc_cli_b2;
  sc_oscore();
}

static void sc_block2(void) {
  prologue(COAP_BLOCK_USE_LIBCOAP | COAP_BLOCK_SINGLE_BODY);
  coap_pdu_t *p = mk_req(W.cs, COAP_MESSAGE_CON, COAP_REQUEST_CODE_GET, "big", NULL, NULL);
  R("pdu=%d", p != NULL);
  if (p) R("send=%d", send_tracked(W.cs, p) != COAP_INVALID_MID);
  pump(200000);
  R("resp=%d code=%d len=%zu h=%08x nack=%d", W.n_resp, W.last_code, W.last_len, W.last_hash,
    W.n_nack);
  if (W.n_resp && W.last_code == COAP_RESPONSE_CODE_CONTENT) {
    if (W.last_len < BIG_LEN) R("bad=partial-body-delivered");
    else if (W.last_len != BIG_LEN || W.last_hash != fnv(big_body, BIG_LEN)) R("bad=corrupt-body");
  }
  if (W.n_resp > 1) R("bad=response-delivered-%d-times", W.n_resp);
  finish_with_canary();
  world_down();
}

static void sc_block1(void) {
  prologue(COAP_BLOCK_USE_LIBCOAP | COAP_BLOCK_SINGLE_BODY);
  coap_pdu_t *p = mk_req(W.cs, COAP_MESSAGE_CON, COAP_REQUEST_CODE_PUT, "up", NULL, NULL);
  R("pdu=%d", p != NULL);
  if (p) {
    int a = coap_add_data_large_request(W.cs, p, UP_LEN, up_body, NULL, NULL);
    R("large=%d", a);
    if (!a) {
      coap_delete_pdu(p);
      p = NULL;
    }
  }
  if (p) R("send=%d", send_tracked(W.cs, p) != COAP_INVALID_MID);
  pump(200000);
  R("resp=%d code=%d nack=%d put=%d putlen=%zu", W.n_resp, W.last_code, W.n_nack, W.n_put,
    W.put_len);
  if (W.n_put && (W.put_len != UP_LEN || W.put_hash != fnv(up_body, UP_LEN)))
    R("bad=wrong-body-at-server");
  if (W.n_resp && W.last_code == COAP_RESPONSE_CODE_CHANGED && !W.n_put)
    R("bad=changed-without-handler");
  if (W.n_resp > 1) R("bad=response-delivered-%d-times", W.n_resp);
  if (W.n_put > 1) R("bad=request-delivered-%d-times", W.n_put);
  finish_with_canary();
  world_down();
}

static void sc_observe(void) {
  prologue(COAP_BLOCK_USE_LIBCOAP | COAP_BLOCK_SINGLE_BODY);
  uint8_t tok[8];
  size_t tl = 0;
  coap_pdu_t *p = mk_req(W.cs, COAP_MESSAGE_CON, COAP_REQUEST_CODE_GET, "obs", tok, &tl);
  /* Observe (6) sorts before Uri-Path (11): use the inserting variant */
  if (p && !coap_insert_option(p, COAP_OPTION_OBSERVE, 0, NULL)) {
    coap_delete_pdu(p);
    p = NULL;
  }
  R("pdu=%d", p != NULL);
  int sent_ok = 0;
  if (p) R("send=%d", sent_ok = (send_tracked(W.cs, p) != COAP_INVALID_MID));
  pump(120000);
  R("reg resp=%d code=%d len=%zu", W.n_resp, W.last_code, W.last_len);
  int registered = sent_ok && W.n_resp == 1 && W.last_code == COAP_RESPONSE_CODE_CONTENT && W.last_obs;
  for (int i = 1; i <= 3; i++) {
    int before = W.n_resp;
    W.obs_value = i;
    int n = W.r_obs ? coap_resource_notify_observers(W.r_obs, NULL) : 0;
    pump(120000);
    R("notify%d=%d got=%d len=%zu", i, n, W.n_resp - before, W.last_len);
    if (W.n_resp > before && W.last_code == COAP_RESPONSE_CODE_CONTENT) {
      char buf[16];
      int l = snprintf(buf, sizeof(buf), "v%d", i);
      if (W.last_len != (size_t)l || W.last_hash != fnv((uint8_t *)buf, (size_t)l))
        R("bad=stale-or-wrong-notification");
    }
  }
  coap_binary_t t;
  t.length = tl;
  t.s = tok;
  int before = W.n_resp;
  int plain0 = W.n_plain;
  W.last_plain_code = 0;
  int c = coap_cancel_observe(W.cs, &t, COAP_MESSAGE_CON);
  pump(120000);
  /* the answer to the cancellation is the response without an Observe option */
  R("cancel=%d got=%d code=%d", c, W.n_plain - plain0, W.last_plain_code);
  int cancelled = c && W.n_plain > plain0 && W.last_plain_code == COAP_RESPONSE_CODE_CONTENT;
  if (registered && !cancelled) {
    /* the cancellation failed visibly: repeat it with memory available */
    int a = fa_armed;
    fa_armed = 0;
    plain0 = W.n_plain;
    W.last_plain_code = 0;
    int c2 = coap_cancel_observe(W.cs, &t, COAP_MESSAGE_CON);
    pump(120000);
    fa_armed = a;
    R("recancel=%d", c2);
    cancelled = c2 && W.n_plain > plain0 && W.last_plain_code == COAP_RESPONSE_CODE_CONTENT;
  }
  /* after a successful cancel no further notification must arrive */
  before = W.n_resp;
  W.obs_value = 9;
  if (W.r_obs) coap_resource_notify_observers(W.r_obs, NULL);
  pump(120000);
  R("after=%d", W.n_resp - before);
  if (cancelled && W.n_resp > before) R("bad=notified-after-successful-cancel");
  if (registered && !cancelled && W.n_resp > before) R("bad=observation-cannot-be-cancelled");
  finish_with_canary();
  world_down();
}

static void dump_optlist(coap_optlist_t *l) {
  char tmp[600];
  size_t o = 0;
  for (; l && o < sizeof(tmp) - 80; l = l->next) {
    o += (size_t)snprintf(tmp + o, sizeof(tmp) - o, "%u:", l->number);
    for (size_t i = 0; i < l->length && i < 24; i++)
      o += (size_t)snprintf(tmp + o, sizeof(tmp) - o, "%02x", l->data[i]);
    tmp[o++] = '/';
  }
  tmp[o] = 0;
  R("ol=%s", o ? tmp : "-");
}

static void sc_uri(void) {
  /* no network: URI text -> coap_uri_t -> option list -> PDU -> path/query strings */
  coap_startup();
  coap_set_log_level(fa_loglevel());
  vn_prng_seed(11);
  want_canary = 0;
  fa_armed = 1;
  static const char *u = "coap://Example.ORG:5999/a/%7Eb/../c/d.e?x=1&y=%20z&w";
  coap_uri_t uri;
  coap_address_t dst;
  vn_addr4(&dst, VN_LOOPBACK, 5999);
  int sr = coap_split_uri((const uint8_t *)u, strlen(u), &uri);
  R("split=%d", sr);
  coap_optlist_t *ol = NULL;
  int a = coap_uri_into_optlist(&uri, &dst, &ol, 1);
  R("uri_into=%d", a);
  dump_optlist(ol);
  coap_optlist_t *ol2 = NULL;
  int b = coap_path_into_optlist((const uint8_t *)"p/q/./r", 7, COAP_OPTION_LOCATION_PATH, &ol2);
  R("path_into=%d", b);
  dump_optlist(ol2);
  int c = coap_query_into_optlist((const uint8_t *)"k=v&l", 5, COAP_OPTION_LOCATION_QUERY, &ol2);
  R("query_into=%d", c);
  dump_optlist(ol2);
  coap_pdu_t *p = coap_pdu_init(COAP_MESSAGE_CON, COAP_REQUEST_CODE_GET, 1, 1152);
  R("pdu=%d", p != NULL);
  if (p) {
    int d = coap_add_optlist_pdu(p, &ol);
    R("add_optlist=%d", d);
    coap_string_t *path = coap_get_uri_path(p);
    coap_string_t *query = coap_get_query(p);
    R("get_path=%d", path != NULL);
    R("get_query=%d", query != NULL);
    R("path=%.*s", path ? (int)path->length : 1, path ? (const char *)path->s : "-");
    R("query=%.*s", query ? (int)query->length : 1, query ? (const char *)query->s : "-");
    coap_delete_string(path);
    coap_delete_string(query);
    coap_delete_pdu(p);
  }
  coap_delete_optlist(ol);
  coap_delete_optlist(ol2);
  coap_uri_t *nu = coap_new_uri((const uint8_t *)u, (unsigned)strlen(u));
  R("new_uri=%d", nu != NULL);
  if (nu) {
    coap_uri_t *cu = coap_clone_uri(nu);
    R("clone=%d", cu != NULL);
    if (cu) {
      if (cu->path.length != nu->path.length || cu->query.length != nu->query.length ||
          cu->port != nu->port)
        R("bad=clone-differs");
      coap_delete_uri(cu);
    }
    coap_delete_uri(nu);
  }
  coap_cleanup();
}

static void dump_pdu_short(const char *tag, const coap_pdu_t *p) {
  char tmp[900];
  size_t o = 0;
  coap_opt_iterator_t it;
  coap_opt_t *opt;
  coap_option_iterator_init(p, &it, COAP_OPT_ALL);
  coap_bin_const_t t = coap_pdu_get_token(p);
  o += (size_t)snprintf(tmp + o, sizeof(tmp) - o, "c%d k%zu:%08x o", coap_pdu_get_code(p), t.length,
                        fnv(t.s, t.length));
  while ((opt = coap_option_next(&it)) && o < sizeof(tmp) - 60)
    o += (size_t)snprintf(tmp + o, sizeof(tmp) - o, "%u:%u:%08x,", it.number,
                          coap_opt_length(opt), fnv(coap_opt_value(opt), coap_opt_length(opt)));
  size_t len;
  const uint8_t *data;
  coap_get_data(p, &len, &data);
  snprintf(tmp + o, sizeof(tmp) - o, " d%zu:%08x", len, fnv(data, len));
  R("%s=%s", tag, tmp);
}

static void sc_pdu(void) {
  /* PDU duplication and in-place option edits crossing the 256-byte growth step */
  prologue(COAP_BLOCK_USE_LIBCOAP | COAP_BLOCK_SINGLE_BODY);
  want_canary = 1;
  uint8_t val[200];
  for (int i = 0; i < 200; i++) val[i] = (uint8_t)(i * 7 + 1);
  coap_pdu_t *p = coap_new_pdu(COAP_MESSAGE_CON, COAP_REQUEST_CODE_POST, W.cs);
  R("pdu=%d", p != NULL);
  if (p) {
    int r1 = coap_add_token(p, 8, val);
    size_t r2 = coap_add_option(p, COAP_OPTION_URI_PATH, 100, val);
    size_t r3 = coap_add_option(p, COAP_OPTION_URI_QUERY, 120, val);     /* > 256: grows */
    size_t r4 = coap_insert_option(p, COAP_OPTION_CONTENT_FORMAT, 1, val);
    size_t r5 = coap_update_option(p, COAP_OPTION_URI_PATH, 180, val);   /* grows in place */
    int r6 = coap_add_data(p, 200, val);                                  /* > 512: grows */
    size_t r7 = coap_update_option(p, COAP_OPTION_URI_QUERY, 3, val);    /* shrinks */
    int r8 = coap_remove_option(p, COAP_OPTION_CONTENT_FORMAT);
    R("ops=%d%d%d%d%d%d%d%d", r1, r2 != 0, r3 != 0, r4 != 0, r5 != 0, r6, r7 != 0, r8);
    dump_pdu_short("p", p);
    coap_pdu_t *d1 = coap_pdu_duplicate(p, W.cs, 8, val, NULL);
    R("dup1=%d", d1 != NULL);
    if (d1) {
      dump_pdu_short("d1", d1);
      coap_delete_pdu(d1);
    }
    coap_opt_filter_t f;
    coap_option_filter_clear(&f);
    coap_option_filter_set(&f, COAP_OPTION_URI_QUERY);
    coap_pdu_t *d2 = coap_pdu_duplicate(p, W.cs, 4, val + 9, &f);
    R("dup2=%d", d2 != NULL);
    if (d2) {
      dump_pdu_short("d2", d2);
      coap_delete_pdu(d2);
    }
    coap_delete_pdu(p);
  }
  /* the same with option areas beyond the initial 256-byte buffer and beyond 1024 bytes: every
   * copy has to grow (coap_pdu_duplicate's direct resize, and the option-by-option path) */
  for (int big = 0; big < 2; big++) {
    int nopt = big ? 5 : 2;                 /* 2 x 200 = 400,  5 x 230 = 1150 bytes */
    size_t olen = big ? 230 : 200;
    coap_pdu_t *q = coap_pdu_init(COAP_MESSAGE_CON, COAP_REQUEST_CODE_POST, 77, 4096);
    R("big%d=%d", big, q != NULL);
    if (!q) continue;
    int okq = coap_add_token(q, 8, val);
    for (int i = 0; i < nopt && okq; i++) {
      uint8_t v2[230];
      memset(v2, 'A' + i, sizeof(v2));
      okq = coap_add_option(q, i < 3 ? COAP_OPTION_URI_PATH : COAP_OPTION_URI_QUERY, olen, v2) != 0;
    }
    if (okq) okq = coap_add_data(q, 10, val);
    R("built%d=%d", big, okq);
    if (okq) {
      char tag[8];
      dump_pdu_short(big ? "q1" : "q0", q);
      coap_pdu_t *e1 = coap_pdu_duplicate(q, W.cs, 8, val, NULL);
      R("bdup%d=%d", big, e1 != NULL);
      if (e1) {
        snprintf(tag, sizeof(tag), "e%d", big);
        dump_pdu_short(tag, e1);
        coap_delete_pdu(e1);
      }
      coap_opt_filter_t f2;
      coap_option_filter_clear(&f2);
      coap_option_filter_set(&f2, COAP_OPTION_CONTENT_FORMAT);
      coap_pdu_t *e2 = coap_pdu_duplicate(q, W.cs, 3, val, &f2);
      R("bfdup%d=%d", big, e2 != NULL);
      if (e2) {
        snprintf(tag, sizeof(tag), "f%d", big);
        dump_pdu_short(tag, e2);
        coap_delete_pdu(e2);
      }
    }
    coap_delete_pdu(q);
  }
  finish_with_canary();
  world_down();
}

static void sc_teardown_busy(void) {
  /* tear-down while things are pending: an unanswered CON in the send queue, a delayed CON
   * behind it (NSTART = 1), an observation, a half-done Block2 transfer */
  prologue(COAP_BLOCK_USE_LIBCOAP | COAP_BLOCK_SINGLE_BODY);
  want_canary = 0;
  coap_pdu_t *p1 = mk_req(W.cs, COAP_MESSAGE_CON, COAP_REQUEST_CODE_GET, "obs", NULL, NULL);
  if (p1 && coap_insert_option(p1, COAP_OPTION_OBSERVE, 0, NULL))
    R("s1=%d", send_tracked(W.cs, p1) != COAP_INVALID_MID);
  pump(1000);
  coap_pdu_t *p2 = mk_req(W.cs, COAP_MESSAGE_CON, COAP_REQUEST_CODE_GET, "big", NULL, NULL);
  if (p2) R("s2=%d", send_tracked(W.cs, p2) != COAP_INVALID_MID);
  /* deliver only the request and the first block */
  if (W.cursor < vn_nout) vn_route(W.cursor++);
  if (W.cursor < vn_nout) vn_route(W.cursor++);
  coap_pdu_t *p3 = mk_req(W.cs, COAP_MESSAGE_CON, COAP_REQUEST_CODE_GET, "r", NULL, NULL);
  if (p3) R("s3=%d", send_tracked(W.cs, p3) != COAP_INVALID_MID);
  coap_pdu_t *p4 = mk_req(W.cs, COAP_MESSAGE_CON, COAP_REQUEST_CODE_GET, "r", NULL, NULL);
  if (p4) R("s4=%d", send_tracked(W.cs, p4) != COAP_INVALID_MID);
  finish_with_canary();
  world_down();
}

#define LONGV(name, mode) static void sc_##name##_l##mode(void) { longmode = mode; sc_##name(); }
LONGV(get_con, 1)
LONGV(get_con, 2)
LONGV(get_non, 2)
LONGV(block2, 1)
LONGV(block2, 2)
LONGV(block1, 1)
LONGV(observe, 1)
LONGV(observe, 2)
LONGV(echo, 1)
LONGV(async, 1)
LONGV(cache, 1)
LONGV(oscore, 1)
LONGV(qblock, 1)
LONGV(obs_big, 1)
LONGV(fetch_obs, 1)

typedef struct {
  const char *name;
  void (*fn)(void);
} scen_t;
static const scen_t scens[] = {
  {"setup", sc_setup},       {"get_con", sc_get_con},   {"get_non", sc_get_non},
  {"get_noblk", sc_get_noblk}, {"notfound", sc_notfound}, {"block2", sc_block2},
  {"block1", sc_block1},     {"observe", sc_observe},   {"uri", sc_uri},
  {"pdu", sc_pdu},           {"teardown_busy", sc_teardown_busy}, {"resp508", sc_resp508},
  {"async", sc_async},       {"unknown", sc_unknown},   {"ping", sc_ping},
  {"oscore", sc_oscore},     {"obs_big", sc_obs_big},   {"echo", sc_echo},
  {"cache", sc_cache},       {"multi", sc_multi},       {"qblock", sc_qblock},
  {"persist", sc_persist},
  {"get_con_l1", sc_get_con_l1}, {"get_con_l2", sc_get_con_l2}, {"get_non_l2", sc_get_non_l2},
  {"block2_l1", sc_block2_l1}, {"block2_l2", sc_block2_l2}, {"block1_l1", sc_block1_l1},
  {"observe_l1", sc_observe_l1}, {"observe_l2", sc_observe_l2}, {"echo_l1", sc_echo_l1},
  {"async_l1", sc_async_l1}, {"cache_l1", sc_cache_l1}, {"oscore_l1", sc_oscore_l1},
  {"qblock_l1", sc_qblock_l1}, {"obs_big_l1", sc_obs_big_l1},
  {"up_nosize", sc_up_nosize}, {"down_nosize", sc_down_nosize}, {"wk_mid", sc_wk_mid}, {"wk_big", sc_wk_big},
  {"ctx_listen", sc_ctx_listen}, {"oscore_b2", sc_oscore_b2}, {"up_reorder", sc_up_reorder},
  {"fetch_obs", sc_fetch_obs}, {"fetch_obs_big", sc_fetch_obs_big}, {"fetch_obs_l1", sc_fetch_obs_l1},
  {NULL, NULL}};

/* ------------------------------------------------------------------ child / parent */
static void wr(int fd, const char *s, size_t n) {
  while (n) {
    ssize_t k = write(fd, s, n);
    if (k <= 0) return;
    s += k;
    n -= (size_t)k;
  }
}

/* number of open file descriptors of this process (descriptor leaks: sockets, epoll, timerfd) */
static int count_fds(void) {
  int n = 0;
  for (int i = 0; i < 256; i++)
    if (fcntl(i, F_GETFD) != -1) n++;
  return n;
}

static void child_main(const scen_t *sc, long k1, long k2, int want_sites, long uj, int fd) {
  char tmp[256];
  int fds0 = count_fds();
  fa_notice_fd = fd;
  fa_u_fail_at = uj;
  fa_nfail = 0;
  if (k1 > 0) fa_fail_at[fa_nfail++] = k1;
  if (k2 > 0) fa_fail_at[fa_nfail++] = k2;
  for (size_t i = 0; i < BIG_LEN; i++) big_body[i] = (uint8_t)(i * 13 + (i >> 8));
  for (size_t i = 0; i < UP_LEN; i++) up_body[i] = (uint8_t)(i * 29 + (i >> 7));
  alarm(20);
  sc->fn();
  fa_armed = 0;
  fa_final_sweep();
  int n = snprintf(tmp, sizeof(tmp), "D n=%ld inj=%d canary=%d guard=%ld poison=%ld live=%ld tm=%ld un=%ld fds=%d\n",
                   fa_attempts, fa_injected, canary_result, fa_guard_bad, fa_poison_bad, fa_live,
                   fa_type_mismatch, fa_u_attempts, count_fds() - fds0);
  wr(fd, tmp, (size_t)n);
  /* what is still allocated: id:type:size (naming a leak in the report) */
  wr(fd, "K ", 2);
  {
    int any = 0;
    for (unsigned i = 0; i < FA_TAB && any < 12; i++)
      if (fa_tab[i].p && fa_tab[i].live) {
        n = snprintf(tmp, sizeof(tmp), "%s%ld:%d:%zu:%p/%p/%p/%p", any ? "," : "", fa_tab[i].id,
                     fa_tab[i].type, fa_tab[i].size, fa_tab[i].caller[0], fa_tab[i].caller[1],
                     fa_tab[i].caller[2], fa_tab[i].caller[3]);
        wr(fd, tmp, (size_t)n);
        any++;
      }
    if (!any) wr(fd, "-", 1);
  }
  wr(fd, "\n", 1);
  /* distinct allocation call sites attempted while armed */
  wr(fd, "C ", 2);
  for (int i = 0; i < fa_ncs; i++) {
    n = snprintf(tmp, sizeof(tmp), "%s%p", i ? "," : "", fa_cs[i]);
    wr(fd, tmp, (size_t)n);
  }
  if (!fa_ncs) wr(fd, "-", 1);
  wr(fd, "\n", 1);
  wr(fd, "R ", 2);
  wr(fd, resbuf, reslen);
  wr(fd, "\n", 1);
  wr(fd, "S ", 2);
  for (int i = 0; i < nsends; i++) {
    n = snprintf(tmp, sizeof(tmp), "%s%ld:%d%d%d%d", i ? "," : "", sends[i].pdu_id,
                 sends[i].mid_valid, sends[i].live_after, sends[i].in_sendq, sends[i].in_delayq);
    wr(fd, tmp, (size_t)n);
  }
  if (!nsends) wr(fd, "-", 1);
  wr(fd, "\n", 1);
  wr(fd, "T ", 2);
  if (fa_trace_len) wr(fd, fa_trace, fa_trace_len);
  else wr(fd, "-", 1);
  wr(fd, "\n", 1);
  if (want_sites) {
    wr(fd, "L ", 2);
    for (long i = 0; i < fa_nsites; i++) {
      n = snprintf(tmp, sizeof(tmp), "%s%s:%d:%zu:%p", i ? "," : "", fa_sites[i].is_realloc ? "R" : "M",
                   fa_sites[i].type, fa_sites[i].size, fa_sites[i].caller);
      wr(fd, tmp, (size_t)n);
    }
    if (!fa_nsites) wr(fd, "-", 1);
    wr(fd, "\n", 1);
  }
  wr(fd, "E\n", 2);
  _exit(0);
}

static char *slurp(int fd, size_t *len) {
  size_t cap = 1 << 16, n = 0;
  char *b = (char *)malloc(cap);
  for (;;) {
    if (n + 4096 > cap) {
      cap *= 2;
      b = (char *)realloc(b, cap);
    }
    ssize_t k = read(fd, b + n, cap - n - 1);
    if (k <= 0) break;
    n += (size_t)k;
  }
  b[n] = 0;
  *len = n;
  return b;
}

/* first line starting with the given tag ("X "), NUL-terminated copy of the rest */
static const char *field(char *buf, char tag, char **store) {
  char *p = buf;
  while (p && *p) {
    char *e = strchr(p, '\n');
    if (p[0] == tag && p[1] == ' ') {
      size_t l = e ? (size_t)(e - p - 2) : strlen(p + 2);
      *store = (char *)malloc(l + 1);
      memcpy(*store, p + 2, l);
      (*store)[l] = 0;
      return *store;
    }
    p = e ? e + 1 : NULL;
  }
  *store = NULL;
  return NULL;
}

static void run_fa(void) {
  const scen_t *sc = NULL;
  for (const scen_t *s = scens; s->name; s++)
    if (vntok > 1 && strcmp(s->name, vtok[1]) == 0) sc = s;
  if (!sc || vntok < 4) {
    printf("ERROR unknown scenario\n");
    return;
  }
  long k1 = atol(vtok[2]), k2 = atol(vtok[3]);
  int want_sites = 0;
  long uj = 0;        /* U<j>: fail the j-th direct malloc() of libcoap (uthash) */
  for (int i = 4; i < vntok; i++) {
    if (strcmp(vtok[i], "S") == 0) want_sites = 1;
    else if (vtok[i][0] == 'U') uj = atol(vtok[i] + 1);
  }
  int pfd[2];
  if (pipe(pfd) < 0) {
    printf("ERROR pipe\n");
    return;
  }
  fflush(stdout);
  pid_t pid = fork();
  if (pid == 0) {
    close(pfd[0]);
    child_main(sc, k1, k2, want_sites, uj, pfd[1]);
    _exit(0);
  }
  close(pfd[1]);
  size_t len;
  char *buf = slurp(pfd[0], &len);
  close(pfd[0]);
  int st = 0;
  waitpid(pid, &st, 0);
  {
    /* files of the persist scenario, should the child have died before removing them */
    static const char *ext[] = {"dyn", "obs", "val", "obs.tmp", "dyn.tmp", "val.tmp"};
    char fn[96];
    for (unsigned i = 0; i < sizeof(ext) / sizeof(ext[0]); i++) {
      snprintf(fn, sizeof(fn), "/var/tmp/verif.c18.%010d.%s", (int)pid, ext[i]);
      if (!getenv("FA_KEEP")) remove(fn);
    }
  }
  char *d, *r, *s, *t, *l, *inj, *e, *kk, *cc;
  field(buf, 'D', &d);
  field(buf, 'R', &r);
  field(buf, 'S', &s);
  field(buf, 'T', &t);
  field(buf, 'L', &l);
  field(buf, 'I', &inj);
  field(buf, 'K', &kk);
  field(buf, 'C', &cc);
  int complete = strstr(buf, "\nE\n") != NULL || strncmp(buf, "E\n", 2) == 0;
  (void)e;
  if (WIFSIGNALED(st)) {
    if (WTERMSIG(st) == SIGALRM) printf("HANG");
    else printf("CRASH sig=%d", WTERMSIG(st));
  } else if (WIFEXITED(st) && (WEXITSTATUS(st) != 0 || !complete)) {
    printf("EXIT code=%d", WEXITSTATUS(st));
  } else {
    printf("OK");
  }
  /* all injection notices (there may be two) */
  printf(" site=");
  {
    char *p = buf;
    int first = 1;
    while (p && *p) {
      char *eol = strchr(p, '\n');
      if (p[0] == 'I' && p[1] == ' ') {
        char line[600];
        size_t ll = eol ? (size_t)(eol - p - 2) : strlen(p + 2);
        if (ll >= sizeof(line)) ll = sizeof(line) - 1;
        memcpy(line, p + 2, ll);
        line[ll] = 0;
        for (char *c = line; *c; c++)
          if (*c == ' ') *c = ':';
        printf("%s%s", first ? "" : "|", line);
        first = 0;
      }
      p = eol ? eol + 1 : NULL;
    }
    if (first) printf("-");
  }
  printf(" %s", d ? d : "n=? inj=? canary=? guard=? poison=? live=? tm=? un=? fds=?");
  printf(" leaked=%s", kk ? kk : "?");
  printf(" cs=%s", cc ? cc : "?");
  printf(" sends=%s", s ? s : "?");
  printf(" res=");
  if (r) {
    for (char *c = r; *c; c++)
      if (*c == ' ') *c = '_';
    printf("%s", *r ? r : "-");
  } else printf("?");
  printf(" trace=%s", t ? t : "?");
  if (want_sites) printf(" sites=%s", l ? l : "?");
  printf("\n");
  free(buf);
  free(d); free(r); free(s); free(t); free(l); free(inj); free(kk); free(cc);
}

/* ------------------------------------------------------------------ PDU-layer tie
 * fapdu <type> <code> <mid> <max> F <k,k,..|-> ops...
 * result: rets=<0/1 per op, 'N' if init failed> attempts=<n> atomic=<0|1> built=[dump] */
static void run_fapdu(void) {
  if (vntok < 7) {
    printf("ERROR fapdu args\n");
    return;
  }
  fa_reset();
  fa_nfail = 0;
  fa_notice_fd = -1;
  if (strcmp(vtok[6], "-") != 0) {
    char *c = vtok[6];
    while (*c && fa_nfail < FA_MAXFAIL) {
      fa_fail_at[fa_nfail++] = strtol(c, &c, 10);
      if (*c == ',') c++;
    }
  }
  fa_armed = 1;
  coap_pdu_t *p = coap_pdu_init((coap_pdu_type_t)atoi(vtok[1]), (coap_pdu_code_t)atoi(vtok[2]),
                                atoi(vtok[3]), (size_t)atol(vtok[4]));
  if (!p) {
    fa_armed = 0;
    printf("rets=N attempts=%ld atomic=1 built=[-]\n", fa_attempts);
    return;
  }
  char rets[MAXTOK];
  int nr = 0, atomic = 1;
  char *before = NULL, *after = NULL;
  size_t bl, al;
  for (int i = 7; i < vntok;) {
    FILE *mb = open_memstream(&before, &bl);
    dump_pdu(mb, p);
    fclose(mb);
    int ret = 0, isproxy = 0;
    if (vtok[i][0] == 'T' && i + 1 < vntok) {
      size_t n;
      uint8_t *b = bytes_of_tok(vtok[i + 1], &n);
      ret = coap_add_token(p, n, b);
      free(b);
      i += 2;
    } else if (vtok[i][0] == 'O' && i + 2 < vntok) {
      size_t n;
      uint8_t *b = bytes_of_tok(vtok[i + 2], &n);
      int num = atoi(vtok[i + 1]);
      isproxy = num == 35 || num == 39;
      ret = coap_add_option(p, (coap_option_num_t)num, n, b) != 0;
      free(b);
      i += 3;
    } else if (vtok[i][0] == 'D' && i + 1 < vntok) {
      size_t n;
      uint8_t *b = bytes_of_tok(vtok[i + 1], &n);
      ret = coap_add_data(p, n, b);
      free(b);
      i += 2;
    } else {
      break;
    }
    mb = open_memstream(&after, &al);
    dump_pdu(mb, p);
    fclose(mb);
    if (!ret && strcmp(before, after) != 0 && !isproxy) atomic = 0;
    free(before);
    free(after);
    rets[nr++] = ret ? '1' : '0';
  }
  rets[nr] = 0;
  fa_armed = 0;
  printf("rets=%s attempts=%ld atomic=%d built=[", nr ? rets : "-", fa_attempts, atomic);
  dump_pdu(stdout, p);
  printf("]");
  coap_delete_pdu(p);
  fa_final_sweep();
  if (fa_live || fa_guard_bad || fa_poison_bad)
    printf(" HEAP live=%ld guard=%ld poison=%ld", fa_live, fa_guard_bad, fa_poison_bad);
  printf("\n");
}

int main(void) {
  setvbuf(stdout, NULL, _IOFBF, 1 << 16);
  coap_set_log_level(fa_loglevel());
  signal(SIGPIPE, SIG_IGN);
  while (next_case(stdin)) {
    if (vntok == 0) {
      printf("\n");
      continue;
    }
    if (strcmp(vtok[0], "fa") == 0) run_fa();
    else if (strcmp(vtok[0], "fapdu") == 0) run_fapdu();
    else if (strcmp(vtok[0], "fascen") == 0) {
      for (const scen_t *s = scens; s->name; s++) printf("%s%s", s == scens ? "" : " ", s->name);
      printf("\n");
    } else printf("ERROR unknown command\n");
    fflush(stdout);
  }
  return 0;
}

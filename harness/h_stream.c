/* C05 driver: scripted byte arrivals on a real server stream session.
 *
 *   tcp|tcp0 <mtu> <stream> <cuts>      (format: ocaml/d_stream.ml)
 *   ws|ws0   <opt> <stream> <cuts>      WebSocket server session; opt bit 0: a second (TCP) session
 *                                       of the same context receives a message between any two
 *                                       arrivals (its coap_read_session call uses the same stack)
 *   wsc|wsc0 <opt> <stream> <cuts>      WebSocket CLIENT session (frames from the server are not
 *                                       masked): the driver owns the listening socket, the library
 *                                       connects (connect() is made to report EINPROGRESS so that the
 *                                       WS host can be set before the handshake is sent), the PRNG is
 *                                       deterministic, so the client's key is 00 01 .. 0f
 *   ws/wsc opt bit 1: between any two arrivals the session under script TRANSMITS a message
 *                    (coap_ws_write through the layer table); these writes are not logged
 *   request with Uri-Query "l=<n>": the handler answers with n payload bytes (sizes of written frames)
 *   " wf=" (WS only): the frames the library wrote, hex, one per write - decoded by the check with
 *                    the proved frame automaton (a malformed outgoing frame is a violation)
 *   tcpconsts | wsconsts | tcpsize <hdr> | tcpmaxrcv <mtu>
 *
 * Per case: fresh context, TCP endpoint on a unix-domain stream socket, a raw client socket
 * connects, the accept runs through the public coap_io_do_epoll() with a fabricated
 * epoll_event.  From then on coap_socket_read / coap_socket_write on the session's socket are
 * interposed (ld --wrap): a read hands out at most the requested number of the bytes that have
 * "arrived" (0 = EAGAIN when there are none), writes are captured.  After each arrival the
 * driver behaves like the level-triggered event loop: coap_io_do_epoll(EPOLLIN) on the session
 * socket while unread bytes remain and reads still make progress.
 *
 * What is logged (in order): every PDU that reaches a handler (request handler of the unknown
 * resource, response handler, ping/pong handlers) as M:<accessor dump>; X at the first
 * TCP_CLOSED / SESSION_CLOSED / SESSION_FAILED event.  After " | ": all events, all writes
 * (count and digest), number of reads - used by the implementation-only oracle
 * (chunked run == single-arrival run), not by the model tie.
 */
#include "coap3/coap_libcoap_build.h"
#include "common/util.h"
#include "common/dump.h"
#include <sys/socket.h>
#include <sys/un.h>
#include <sys/epoll.h>
#include <unistd.h>
#include <errno.h>
#include <signal.h>

static coap_context_t *ctx;
static coap_session_t *cur;          /* the session under script */
static coap_socket_t *cur_sock;
static coap_session_t *aux;          /* second session (interleaved traffic), may be NULL */
static coap_socket_t *aux_sock;
static const uint8_t *aux_buf;
static size_t aux_len, aux_pos;
static int want_aux, want_own;
static long n_events;
static const uint8_t *scr_buf;       /* the arrival being consumed */
static size_t scr_len, scr_pos;
static int scr_eof;
static long n_reads;

static FILE *obs;                    /* property-level observations */
static char *obs_mem;
static size_t obs_sz;
static int obs_items;
static FILE *evl;                    /* event list */
static char *evl_mem;
static size_t evl_sz;
static int closed_seen;
static long n_writes;
static uint32_t wr_hash;
static char sock_path[108];

static void obs_sep(void) {
  if (obs_items++) fputc(';', obs);
}

/* ---- interposed socket I/O ---- */
ssize_t __real_coap_socket_read(coap_socket_t *sock, uint8_t *data, size_t data_len);
ssize_t __real_coap_socket_write(coap_socket_t *sock, const uint8_t *data, size_t data_len);

ssize_t __wrap_coap_socket_read(coap_socket_t *sock, uint8_t *data, size_t data_len) {
  size_t avail, n;
  if (aux_sock && sock == aux_sock) {
    avail = aux_len - aux_pos;
    n = avail < data_len ? avail : data_len;
    if (n) memcpy(data, aux_buf + aux_pos, n);
    aux_pos += n;
    if (n < data_len) sock->flags &= ~COAP_SOCKET_CAN_READ;
    if (!n) errno = EAGAIN;
    return (ssize_t)n;
  }
  if (!cur_sock || sock != cur_sock) return __real_coap_socket_read(sock, data, data_len);
  n_reads++;
  avail = scr_len - scr_pos;
  if (avail == 0) {
    sock->flags &= ~COAP_SOCKET_CAN_READ;
    if (scr_eof) {
      errno = ECONNRESET;
      return -1;
    }
    errno = EAGAIN;
    return 0;
  }
  n = avail < data_len ? avail : data_len;
  memcpy(data, scr_buf + scr_pos, n);
  scr_pos += n;
  if (n < data_len) sock->flags &= ~COAP_SOCKET_CAN_READ;
  return (ssize_t)n;
}

/* connect() of the library's client socket: really connect, but report EINPROGRESS */
static int fake_inprogress;
int __real_connect(int fd, const struct sockaddr *a, socklen_t l);
int __wrap_connect(int fd, const struct sockaddr *a, socklen_t l) {
  int r = __real_connect(fd, a, l);
  if (r == 0 && fake_inprogress) {
    errno = EINPROGRESS;
    return -1;
  }
  return r;
}

static int det_prng(void *buf, size_t len) {
  for (size_t i = 0; i < len; i++) ((uint8_t *)buf)[i] = (uint8_t)i;
  return 1;
}

/* coap_ws_close waits for the peer's Close with select() on the session socket: readable iff
 * scripted bytes are waiting */
int __real_select(int nfds, fd_set *r, fd_set *w, fd_set *x, struct timeval *tv);
int __wrap_select(int nfds, fd_set *r, fd_set *w, fd_set *x, struct timeval *tv) {
  if (cur_sock && r && !w && !x && cur_sock->fd >= 0 && nfds == cur_sock->fd + 1 &&
      FD_ISSET(cur_sock->fd, r)) {
    if (scr_pos < scr_len) return 1;
    FD_ZERO(r);
    return 0;
  }
  return __real_select(nfds, r, w, x, tv);
}

static int mute_writes;              /* a transmission injected by the driver itself */
static FILE *wfl;                    /* WS frames written by the library */
static char *wfl_mem;
static size_t wfl_sz;
static int wf_items;

ssize_t __wrap_coap_socket_write(coap_socket_t *sock, const uint8_t *data, size_t data_len) {
  if (aux_sock && sock == aux_sock) return (ssize_t)data_len;
  if (!cur_sock || sock != cur_sock) return __real_coap_socket_write(sock, data, data_len);
  if (mute_writes) return (ssize_t)data_len;
  if (wfl && !(data_len >= 4 && (!memcmp(data, "HTTP", 4) || !memcmp(data, "GET ", 4)))) {
    if (wf_items++) fputc(',', wfl);
    for (size_t i = 0; i < data_len; i++) fprintf(wfl, "%02x", data[i]);
  }
  n_writes++;
  for (size_t i = 0; i < data_len; i++) wr_hash = (wr_hash ^ data[i]) * 0x01000193u;
  wr_hash = (wr_hash ^ 0xa5) * 0x01000193u;     /* write boundary */
  return (ssize_t)data_len;
}

/* ---- handlers ---- */
static void log_pdu(const coap_pdu_t *pdu) {
  obs_sep();
  fputs("M:", obs);
  dump_pdu(obs, pdu);
}

static void h_req(coap_resource_t *r, coap_session_t *s, const coap_pdu_t *req,
                  const coap_string_t *q, coap_pdu_t *rsp) {
  (void)r; (void)q;
  if (s == cur) log_pdu(req);
  coap_pdu_set_code(rsp, COAP_RESPONSE_CODE_CONTENT);
  if (q && q->length > 2 && q->length < 10 && q->s[0] == 'l' && q->s[1] == '=') {
    char num[12];
    size_t n;
    uint8_t *body;
    memcpy(num, q->s + 2, q->length - 2);
    num[q->length - 2] = 0;
    n = (size_t)atol(num);
    if (n > 0 && n <= 70000 && (body = (uint8_t *)malloc(n))) {
      memset(body, 'r', n);
      coap_add_data(rsp, n, body);
      free(body);
      return;
    }
  }
  coap_add_data(rsp, 2, (const uint8_t *)"ok");
}

static coap_response_t h_rsp(coap_session_t *s, const coap_pdu_t *sent, const coap_pdu_t *rcv,
                             const coap_mid_t mid) {
  (void)sent; (void)mid;
  if (s == cur) log_pdu(rcv);
  return COAP_RESPONSE_OK;
}

static void h_ping(coap_session_t *s, const coap_pdu_t *rcv, const coap_mid_t mid) {
  (void)mid;
  if (s == cur) log_pdu(rcv);
}

static void h_pong(coap_session_t *s, const coap_pdu_t *rcv, const coap_mid_t mid) {
  (void)mid;
  if (s == cur) log_pdu(rcv);
}

static void h_nack(coap_session_t *s, const coap_pdu_t *sent, const coap_nack_reason_t reason,
                   const coap_mid_t mid) {
  (void)sent; (void)mid;
  if (s == cur) fprintf(evl, "n%d,", (int)reason);
}

static int h_event(coap_session_t *s, const coap_event_t ev) {
  if (ev == COAP_EVENT_SERVER_SESSION_NEW && !cur) {
    cur = s;
    cur_sock = &s->sock;
  } else if (ev == COAP_EVENT_SERVER_SESSION_NEW && want_aux && !aux) {
    aux = s;
    aux_sock = &s->sock;
  }
  if (ev == COAP_EVENT_SERVER_SESSION_DEL && s == aux) aux_sock = NULL;
  if (s != cur) return 0;
  n_events++;
  fprintf(evl, "%x,", (unsigned)ev);
  if (ev == COAP_EVENT_WS_CONNECTED) {
    obs_sep();
    fputc('C', obs);
  }
  /* the session object is freed right after this event: never touch it again (hostile streams
   * with traffic behind Release/Abort, used by the C02 check) */
  if (ev == COAP_EVENT_SERVER_SESSION_DEL && s == cur) cur_sock = NULL;
  if (s == cur && !closed_seen &&
      (ev == COAP_EVENT_TCP_CLOSED || ev == COAP_EVENT_SESSION_CLOSED ||
       ev == COAP_EVENT_SESSION_FAILED || ev == COAP_EVENT_WS_CLOSED)) {
    closed_seen = 1;
    obs_sep();
    fputc('X', obs);
  }
  return 0;
}

/* ---- arrivals ---- */
static size_t cut_next(const char *cuts, int *state, size_t remaining) {
  /* state: index into the comma list, or -1 for "-" / after the list */
  if (!strcmp(cuts, "-")) return remaining;
  if (cuts[0] == 'x') {
    size_t k = (size_t)atol(cuts + 1);
    if (k < 1) k = 1;
    return k < remaining ? k : remaining;
  }
  {
    const char *p = cuts;
    int i = 0;
    while (i < *state && p) {
      p = strchr(p, ',');
      if (p) p++;
      i++;
    }
    (*state)++;
    if (!p || !*p) return remaining;
    {
      size_t k = (size_t)atol(p);
      return k < remaining ? k : remaining;
    }
  }
}

static void pump(void) {
  /* level-triggered: call the reader while unread bytes remain.  A call that neither consumes a
   * byte nor produces an observation, event or write would be repeated for ever by the real
   * event loop: logged as S (stuck) */
  while (scr_pos < scr_len) {
    struct epoll_event e;
    size_t before = scr_pos;
    long act_before = obs_items + n_events + n_writes;
    if (!cur_sock || cur_sock->session != cur) break;   /* socket closed */
    memset(&e, 0, sizeof(e));
    e.events = EPOLLIN;
    e.data.ptr = cur_sock;
    coap_io_do_epoll(ctx, &e, 1);
    if (scr_pos == before && obs_items + n_events + n_writes == act_before) {
      if (cur_sock && cur_sock->session == cur) {
        obs_sep();
        fputc('S', obs);
      }
      break;
    }
  }
}

/* traffic of another connection between two arrivals: a Ping with a 40-byte token-less body on
 * the auxiliary TCP session, read through coap_io_do_epoll like everything else */
static void aux_traffic(void) {
  static const uint8_t msg[] = { 0xd0, 0x1d, 0x02, 0xb1, 0x7a, 0xff,
    0xa0, 0xa1, 0xa2, 0xa3, 0xa4, 0xa5, 0xa6, 0xa7, 0xa8, 0xa9, 0xaa, 0xab, 0xac, 0xad, 0xae, 0xaf,
    0xb0, 0xb1, 0xb2, 0xb3, 0xb4, 0xb5, 0xb6, 0xb7, 0xb8, 0xb9, 0xba, 0xbb, 0xbc, 0xbd, 0xbe, 0xbf,
    0xc0, 0xc1, 0xc2, 0xc3, 0xc4, 0xc5, 0xc6 };
  struct epoll_event e;
  if (!aux_sock || aux_sock->session != aux) return;
  aux_buf = msg; aux_len = sizeof(msg); aux_pos = 0;
  memset(&e, 0, sizeof(e));
  e.events = EPOLLIN;
  e.data.ptr = aux_sock;
  coap_io_do_epoll(ctx, &e, 1);
  aux_buf = NULL; aux_len = aux_pos = 0;
}

/* the session under script transmits between two arrivals (what any application may do) */
static void own_traffic(void) {
  static const uint8_t ping[] = { 0x00, 0xe2, 0x20 };
  if (!cur_sock || cur_sock->session != cur) return;
  coap_lock_lock(ctx, return);
  mute_writes = 1;
  cur->sock.lfunc[COAP_LAYER_SESSION].l_write(cur, ping, sizeof(ping));
  mute_writes = 0;
  coap_lock_unlock(ctx);
}

static int connect_to(const char *path) {
  struct sockaddr_un sa;
  int fd = socket(AF_UNIX, SOCK_STREAM, 0);
  memset(&sa, 0, sizeof(sa));
  sa.sun_family = AF_UNIX;
  strncpy(sa.sun_path, path, sizeof(sa.sun_path) - 1);
  if (connect(fd, (struct sockaddr *)&sa, sizeof(sa)) < 0) {
    fprintf(stderr, "connect %s: %s\n", path, strerror(errno));
    close(fd);
    return -1;
  }
  return fd;
}

static int aux_fd = -1;
static char aux_path[108];

static int setup_ctx(long mtu) {
  coap_resource_t *r;
  static const coap_request_t methods[] = { COAP_REQUEST_GET, COAP_REQUEST_POST, COAP_REQUEST_PUT,
                                            COAP_REQUEST_DELETE, COAP_REQUEST_FETCH,
                                            COAP_REQUEST_PATCH, COAP_REQUEST_IPATCH };
  ctx = coap_new_context(NULL);
  if (!ctx) return -1;
  coap_context_set_max_token_size(ctx, COAP_TOKEN_EXT_MAX);
  if (mtu) coap_context_set_csm_max_message_size(ctx, (uint32_t)mtu);
  coap_register_event_handler(ctx, h_event);
  coap_register_response_handler(ctx, h_rsp);
  coap_register_ping_handler(ctx, h_ping);
  coap_register_pong_handler(ctx, h_pong);
  coap_register_nack_handler(ctx, h_nack);
  r = coap_resource_unknown_init2(h_req, 0);
  for (size_t i = 0; i < sizeof(methods) / sizeof(methods[0]); i++)
    coap_register_request_handler(r, methods[i], h_req);
  coap_add_resource(ctx, r);
  return 0;
}

/* client session towards a listening socket owned by the driver; returns the accepted fd */
static int listen_fd = -1;
static int setup_client(void) {
  coap_address_t addr;
  struct sockaddr_un sa;
  struct epoll_event e;
  coap_session_t *s;
  coap_str_const_t host = { 9, (const uint8_t *)"localhost" };
  int fd;
  if (setup_ctx(0) < 0) return -1;
  unlink(sock_path);
  listen_fd = socket(AF_UNIX, SOCK_STREAM, 0);
  memset(&sa, 0, sizeof(sa));
  sa.sun_family = AF_UNIX;
  strncpy(sa.sun_path, sock_path, sizeof(sa.sun_path) - 1);
  if (bind(listen_fd, (struct sockaddr *)&sa, sizeof(sa)) < 0 || listen(listen_fd, 2) < 0) return -2;
  coap_address_set_unix_domain(&addr, (const uint8_t *)sock_path, strlen(sock_path));
  fake_inprogress = 1;
  s = coap_new_client_session(ctx, NULL, &addr, COAP_PROTO_WS);
  fake_inprogress = 0;
  if (!s) return -3;
  cur = s;
  cur_sock = &s->sock;
  fd = accept(listen_fd, NULL, NULL);
  if (fd < 0) return -4;
  coap_ws_set_host_request(s, &host);
  memset(&e, 0, sizeof(e));
  e.events = EPOLLOUT;
  e.data.ptr = cur_sock;
  coap_io_do_epoll(ctx, &e, 1);          /* connect completes -> coap_ws_establish -> GET written */
  if (!cur_sock || cur_sock->session != cur) { close(fd); return -5; }
  /* The client has not sent a request: libcoap would hold back (coap_client_delay_first, 5 s of
   * real time) whatever it has to send in answer to a request from the server until "the first
   * exchange" is over.  Not part of the receive path under test. */
  s->doing_first = 0;
  return fd;
}

static int setup(long mtu, coap_proto_t proto) {
  coap_address_t addr;
  coap_endpoint_t *ep;
  struct epoll_event e;
  int fd;
  if (setup_ctx(mtu) < 0) return -1;
  unlink(sock_path);
  coap_address_set_unix_domain(&addr, (const uint8_t *)sock_path, strlen(sock_path));
  ep = coap_new_endpoint(ctx, &addr, proto);
  if (!ep) return -2;
  fd = connect_to(sock_path);
  if (fd < 0) return -3;
  memset(&e, 0, sizeof(e));
  e.events = EPOLLIN;
  e.data.ptr = &ep->sock;
  coap_io_do_epoll(ctx, &e, 1);          /* accept -> new server session (TCP: CSM written) */
  if (!cur) { close(fd); return -4; }
  if (want_aux) {
    coap_endpoint_t *ep2;
    unlink(aux_path);
    coap_address_set_unix_domain(&addr, (const uint8_t *)aux_path, strlen(aux_path));
    ep2 = coap_new_endpoint(ctx, &addr, COAP_PROTO_TCP);
    if (!ep2) return -5;
    aux_fd = connect_to(aux_path);
    if (aux_fd < 0) return -6;
    memset(&e, 0, sizeof(e));
    e.events = EPOLLIN;
    e.data.ptr = &ep2->sock;
    coap_io_do_epoll(ctx, &e, 1);
    if (!aux) return -7;
  }
  return fd;
}

static int client_mode;
static void run_stream(coap_proto_t proto) {
  long mtu = proto == COAP_PROTO_TCP ? atol(vtok[1]) : 0;
  size_t n, pos = 0;
  uint8_t *stream = bytes_of_tok(vtok[2], &n);
  const char *cuts = vtok[3];
  int st = 0, fd;
  cur = NULL; cur_sock = NULL; scr_buf = NULL; scr_len = scr_pos = 0; scr_eof = 0;
  aux = NULL; aux_sock = NULL; aux_fd = -1; n_events = 0;
  want_aux = !client_mode && proto != COAP_PROTO_TCP && (atol(vtok[1]) & 1);
  want_own = proto != COAP_PROTO_TCP && (atol(vtok[1]) & 2);
  wf_items = 0; mute_writes = 0;
  wfl = proto != COAP_PROTO_TCP ? open_memstream(&wfl_mem, &wfl_sz) : NULL;
  n_reads = 0; n_writes = 0; wr_hash = 0x811c9dc5u; closed_seen = 0; obs_items = 0;
  obs = open_memstream(&obs_mem, &obs_sz);
  evl = open_memstream(&evl_mem, &evl_sz);
  fd = client_mode ? setup_client() : setup(mtu, proto);
  if (fd < 0) {
    printf("ERROR setup %d\n", fd);
  } else {
    while (pos < n) {
      size_t k = cut_next(cuts, &st, n - pos);
      /* exact-size heap copy of the arrival: reads past it trap under the sanitizers */
      uint8_t *chunk = (uint8_t *)malloc(k ? k : 1);
      memcpy(chunk, stream + pos, k);
      scr_buf = chunk; scr_len = k; scr_pos = 0;
      pump();
      pos += k;
      if (want_aux && pos < n) aux_traffic();
      if (want_own && pos < n) own_traffic();
      scr_buf = NULL; scr_len = scr_pos = 0;
      free(chunk);
    }
    fflush(obs); fflush(evl);
    if (wfl) fflush(wfl);
    printf("obs=%s closed=%d | ev=%s wr=%ld:%08x%s%s reads=%ld\n", obs_items ? obs_mem : "-",
           closed_seen, evl_sz ? evl_mem : "-", n_writes, wr_hash, wfl ? " wf=" : "",
           wfl ? (wf_items ? wfl_mem : "-") : "", n_reads);
    close(fd);
  }
  if (aux_fd >= 0) close(aux_fd);
  if (listen_fd >= 0) { close(listen_fd); listen_fd = -1; }
  if (ctx) coap_free_context(ctx);
  ctx = NULL; cur = NULL; cur_sock = NULL; aux = NULL; aux_sock = NULL;
  fclose(obs); fclose(evl);
  if (wfl) { fclose(wfl); free(wfl_mem); wfl = NULL; wfl_mem = NULL; }
  free(obs_mem); free(evl_mem);
  obs_mem = evl_mem = NULL;
  free(stream);
  unlink(sock_path);
  unlink(aux_path);
}

int main(void) {
  signal(SIGPIPE, SIG_IGN);
  coap_startup();
  coap_set_prng(det_prng);
  coap_set_log_level(getenv("VERIF_LOG") ? (coap_log_t)atoi(getenv("VERIF_LOG")) : COAP_LOG_EMERG);
  snprintf(sock_path, sizeof(sock_path), "/var/tmp/verif.5.%ld", (long)getpid());
  snprintf(aux_path, sizeof(aux_path), "/var/tmp/verif.5.%ldb", (long)getpid());
  while (next_case(stdin)) {
    if (vntok == 0) { puts(""); continue; }
    if ((!strcmp(vtok[0], "tcp") || !strcmp(vtok[0], "tcp0")) && vntok == 4) run_stream(COAP_PROTO_TCP);
    else if ((!strcmp(vtok[0], "ws") || !strcmp(vtok[0], "ws0")) && vntok == 4) run_stream(COAP_PROTO_WS);
    else if ((!strcmp(vtok[0], "wsc") || !strcmp(vtok[0], "wsc0")) && vntok == 4) {
      client_mode = 1;
      run_stream(COAP_PROTO_WS);
      client_mode = 0;
    }
    else if (!strcmp(vtok[0], "wsconsts"))
      printf("httpbuf=%zu maxfs=%d rxbuf=%d\n", sizeof(((coap_ws_state_t *)0)->http_hdr), (int)COAP_MAX_FS,
             (int)COAP_RXBUFFER_SIZE);
    else if (!strcmp(vtok[0], "tcpconsts"))
      printf("hard=%lu rxbuf=%d hdrbuf=%zu\n", (unsigned long)COAP_DEFAULT_MAX_PDU_RX_SIZE,
             (int)COAP_RXBUFFER_SIZE, sizeof(((coap_session_t *)0)->read_header));
    else if (!strcmp(vtok[0], "tcpsize") && vntok == 2) {
      size_t n;
      uint8_t *b = bytes_of_tok(vtok[1], &n);
      if (!n) puts("ERROR empty");
      else {
        size_t hs = coap_pdu_parse_header_size(COAP_PROTO_TCP, b);
        size_t tkl = b[0] & 0x0f;
        size_t te = tkl == COAP_TOKEN_EXT_1B_TKL ? 1 : tkl == COAP_TOKEN_EXT_2B_TKL ? 2 : 0;
        if (hs + te > n) printf("%zu %zu OOB\n", hs, te);
        else {
          /* exact-size heap copy: a read past hs + te bytes traps under the sanitizers */
          uint8_t *h = (uint8_t *)malloc(hs + te);
          memcpy(h, b, hs + te);
          printf("%zu %zu %zu\n", hs, te, coap_pdu_parse_size(COAP_PROTO_TCP, h, hs + te));
          free(h);
        }
      }
      free(b);
    } else if (!strcmp(vtok[0], "tcpmaxrcv") && vntok == 2) {
      coap_session_t fake;
      memset(&fake, 0, sizeof(fake));
      fake.proto = COAP_PROTO_TCP;
      fake.csm_rcv_mtu = (uint32_t)atol(vtok[1]);
      printf("%zu\n", coap_session_max_pdu_rcv_size(&fake));
    }
    else puts("ERROR unknown command");
    fflush(stdout);
  }
  unlink(sock_path);
  unlink(aux_path);
  return 0;
}

/* C13 - deterministic schedule driver for the global lock of libcoap.
 *
 * Virtual threads (ucontext coroutines, one stack each) run structured programs (see
 * ocaml/d_lock.ml for the syntax) on the REAL lock code of the library built from the tree:
 * coap_lock_lock_func / coap_lock_unlock_func (objects of src/coap_threadsafe.c) and the REAL
 * macros coap_lock_lock, coap_lock_unlock, coap_lock_callback, coap_lock_callback_ret,
 * coap_lock_callback_release, coap_lock_callback_ret_release as expanded under the tree's own
 * configuration.  The scheduler resumes one virtual thread per schedule entry; the thread
 * performs exactly one primitive step (lock call, unlock call, macro entry = in_callback++,
 * macro exit = in_callback--, begin/end of an access to library state) and yields again.
 * The mutex inside global_lock is simulated (ld --wrap of pthread_mutex_lock/unlock on that one
 * address): a lock attempt on a held mutex yields with status "blocked" instead of blocking,
 * pthread_self() is wrapped to return the virtual thread id, so an interleaving is replayed
 * exactly.  After every step the driver prints {held,pid,in_callback,lock_count,accessing set};
 * the extracted model prints the same.
 *
 * 'E(calls)' at call level is a call of the REAL public API function coap_handle_event() on a real
 * context: its COAP_API wrapper takes the lock, coap_handle_event_lkd() invokes the registered
 * event handler through coap_lock_callback_ret, the handler runs <calls>; it corresponds to
 * C(K(calls)) in the model.  The two places inside the library where no driver code runs between
 * two primitives (lock -> in_callback++, in_callback-- -> unlock) get their scheduling points
 * from ld --wrap of coap_lock_lock_func / coap_lock_unlock_func (one-shot flags).
 *
 * case:  lk <n> <prog_1> .. <prog_n> <sched>
 *        probe                     -> supported=<coap_threadsafe_is_supported()> macro=<COAP_THREAD_SAFE as #if>
 */
#define _GNU_SOURCE
#include "coap3/coap_libcoap_build.h"
#include <pthread.h>
#include <ucontext.h>
#include "common/util.h"

#ifndef COAP_THREAD_SAFE
#define LK_ON 0
#elif COAP_THREAD_SAFE
#define LK_ON 1
#else
#define LK_ON 0
#endif

#ifdef LK_STANDALONE_RC
/* The COAP_THREAD_RECURSIVE_CHECK variant of the lock code (what the autoconf build enables by
 * default): built with -DCOAP_THREAD_RECURSIVE_CHECK=1 -DLK_STANDALONE_RC, src/coap_threadsafe.c
 * is compiled into this driver and nothing else of libcoap is needed. */
#include <stdarg.h>
#include "coap_threadsafe.c"
coap_lock_t global_lock;
int coap_started = 1;
coap_log_t coap_get_log_level(void) { return COAP_LOG_EMERG; }
void coap_log_impl(coap_log_t level, const char *format, ...) { (void)level; (void)format; }
#endif

#define MAXT 16
#define STACKSZ (256 * 1024)

enum { Y_READY = 1, Y_BLOCKED = 2, Y_DONE = 3 };

typedef struct {
  ucontext_t ctx;
  char *stack;
  const char *prog;
  int done;
  int status;
  int in_work;
} vthread_t;

static vthread_t thr[MAXT];
static int nthr;
static int cur = -1;           /* running virtual thread, -1 = scheduler */
static ucontext_t sched_ctx;
static int sim_held;           /* the simulated mutex of global_lock */
static coap_context_t *lkctx;  /* only so that the macros' asserts have something non-NULL */

/* ---- interposed primitives ---- */
pthread_t __real_pthread_self(void);
int __real_pthread_mutex_lock(pthread_mutex_t *m);
int __real_pthread_mutex_unlock(pthread_mutex_t *m);
int __real_pthread_mutex_trylock(pthread_mutex_t *m);

pthread_t __wrap_pthread_self(void) {
  if (cur >= 0) return (pthread_t)(uintptr_t)(cur + 1);
  return __real_pthread_self();
}

static void yield_to_sched(int status) {
  int me = cur;
  thr[me].status = status;
  cur = -1;
  swapcontext(&thr[me].ctx, &sched_ctx);
}

static int is_global_mutex(pthread_mutex_t *m) {
#if LK_ON
  return cur >= 0 && (void *)m == (void *)&global_lock.mutex;
#else
  (void)m;
  return 0;
#endif
}

int __wrap_pthread_mutex_lock(pthread_mutex_t *m) {
  if (!is_global_mutex(m)) return __real_pthread_mutex_lock(m);
  while (sim_held) yield_to_sched(Y_BLOCKED);
  sim_held = 1;
  return 0;
}

int __wrap_pthread_mutex_trylock(pthread_mutex_t *m) {
  if (!is_global_mutex(m)) return __real_pthread_mutex_trylock(m);
  /* coap_mutex_trylock() in libcoap is !pthread_mutex_trylock semantics-wise: 0 = got it */
  if (sim_held) return 16 /* EBUSY */;
  sim_held = 1;
  return 0;
}

int __wrap_pthread_mutex_unlock(pthread_mutex_t *m) {
  if (!is_global_mutex(m)) return __real_pthread_mutex_unlock(m);
  sim_held = 0;
  return 0;
}

/* ---- the structured program interpreter (runs on the coroutine's stack) ---- */

static void gate(void) { yield_to_sched(Y_READY); }

#if !defined(LK_STANDALONE_RC)
/* scheduling points inside real API functions */
static int post_lock_gate[MAXT], pre_unlock_gate[MAXT];
#if LK_ON
#if COAP_THREAD_RECURSIVE_CHECK
int __real_coap_lock_lock_func(const char *file, int line);
void __real_coap_lock_unlock_func(const char *file, int line);
int __wrap_coap_lock_lock_func(const char *file, int line) {
  int r = __real_coap_lock_lock_func(file, line);
  if (cur >= 0 && post_lock_gate[cur]) { post_lock_gate[cur] = 0; gate(); }
  return r;
}
void __wrap_coap_lock_unlock_func(const char *file, int line) {
  if (cur >= 0 && pre_unlock_gate[cur]) { pre_unlock_gate[cur] = 0; gate(); }
  __real_coap_lock_unlock_func(file, line);
}
#else
int __real_coap_lock_lock_func(void);
void __real_coap_lock_unlock_func(void);
int __wrap_coap_lock_lock_func(void) {
  int r = __real_coap_lock_lock_func();
  if (cur >= 0 && post_lock_gate[cur]) { post_lock_gate[cur] = 0; gate(); }
  return r;
}
void __wrap_coap_lock_unlock_func(void) {
  if (cur >= 0 && pre_unlock_gate[cur]) { pre_unlock_gate[cur] = 0; gate(); }
  __real_coap_lock_unlock_func();
}
#endif
#endif
static coap_context_t *real_ctx;
static const char *ev_prog[MAXT];     /* where the running E(...) of each thread continues */
static const char *run_calls(const char *p);
static int ev_handler(coap_session_t *session, const coap_event_t event) {
  int me = cur;
  (void)session;
  (void)event;
  if (me < 0) return 0;               /* not one of ours (context set-up) */
  /* entered right after in_callback++ ; the nested calls gate themselves */
  ev_prog[me] = run_calls(ev_prog[me]);
  gate();                             /* scheduling point before in_callback-- */
#if LK_ON
  pre_unlock_gate[me] = 1;            /* ... and one between in_callback-- and the unlock */
#else
  gate();                             /* no lock code at all: keep the step count of C(K()) */
#endif
  return 0;
}
#endif

static const char *run_calls(const char *p);

static int dummy_ret;
static int app_ret(const char **pp) { *pp = run_calls(*pp); gate(); return 0; }
static void app_void(const char **pp) { *pp = run_calls(*pp); gate(); }

/* items := { 'w' | k '(' calls ')' }*  - library code inside one API call, lock held */
static const char *run_items(const char *p) {
  for (;;) {
    char c = *p;
    if (c == 'w') {
      p++;
      gate(); thr[cur].in_work = 1;       /* LkWb */
      gate(); thr[cur].in_work = 0;       /* LkWe */
    } else if (c == 'k' || c == 'K' || c == 'r' || c == 'R' || c == 'i') {
      p += 2;                             /* kind and '(' */
      /* the gate before the macro is the step of its first primitive (in_callback++ / unlock);
         app_* run the nested calls and then gate for the macro's last primitive */
      gate();
      switch (c) {
      case 'k': coap_lock_callback(lkctx, app_void(&p)); break;
      case 'K': coap_lock_callback_ret(dummy_ret, lkctx, app_ret(&p)); break;
      case 'r': coap_lock_callback_release(lkctx, app_void(&p), abort()); break;
      case 'R': coap_lock_callback_ret_release(dummy_ret, lkctx, app_ret(&p), abort()); break;
      case 'i':
        /* transcription of coap_io_process_with_fds_lkd: unlock; wait; lock
           (tools/regen_lock.py checks on every run that the function still has this shape) */
        coap_lock_unlock(lkctx);
        app_void(&p);
        coap_lock_lock(lkctx, abort());
        break;
      }
      p++;                                /* ')' */
    } else {
      return p;
    }
  }
}

/* calls := { 'C' '(' items ')' }*  - application code: public API calls
   transcription of every COAP_API wrapper: coap_lock_lock(c, return); X_lkd(); coap_lock_unlock(c)
   (tools/regen_lock.py checks on every run that all COAP_API functions have this shape) */
static const char *run_calls(const char *p) {
  while (*p == 'C' || *p == 'E') {
    if (*p == 'C') {
      p += 2;
      gate();
      coap_lock_lock(lkctx, abort());
      p = run_items(p);
      gate();
      coap_lock_unlock(lkctx);
      p++;
    } else {
#if !defined(LK_STANDALONE_RC)
      int me = cur;
      gate();                           /* the step of the wrapper's coap_lock_lock_func */
#if LK_ON
      post_lock_gate[me] = 1;           /* next step: in_callback++ of coap_lock_callback_ret */
#else
      gate();
#endif
      ev_prog[me] = p + 2;
      coap_handle_event(real_ctx, COAP_EVENT_BAD_PACKET, NULL);
      p = ev_prog[me] + 1;
#else
      abort();                          /* E() needs the linked library */
#endif
    }
  }
  return p;
}

static void thread_entry(void) {
  int me = cur;
  const char *p = thr[me].prog;
  if (strcmp(p, "-") != 0) run_calls(p);
  thr[me].done = 1;
  thr[me].status = Y_DONE;
  cur = -1;
  swapcontext(&thr[me].ctx, &sched_ctx);
  abort();
}

static void resume(int i) {
  cur = i;
  swapcontext(&sched_ctx, &thr[i].ctx);
}

static void lock_snapshot(long *held, long *pid, long *incb, long *cnt) {
#if LK_ON
  *held = sim_held;
  *pid = (long)(uintptr_t)global_lock.pid;
  *incb = (long)(int32_t)global_lock.in_callback;
  *cnt = (long)(int32_t)global_lock.lock_count;
#else
  *held = *pid = *incb = *cnt = 0;
#endif
}

static int acc_mask(void) {
  int m = 0;
  for (int i = 0; i < nthr; i++)
    if (thr[i].in_work) m |= 1 << i;
  return m;
}

static int two_access(void) {
  int m = acc_mask();
  return (m & (m - 1)) != 0;
}

static void show_state(FILE *o) {
  long h, p, i, c;
  lock_snapshot(&h, &p, &i, &c);
  fprintf(o, "%ld.%ld.%ld.%ld.%d", h, p, i, c, acc_mask());
}

/* one scheduler step for thread i: '+' moved, 'b' blocked, 'x' finished / does not exist */
static char step(int i) {
  if (i < 0 || i >= nthr || thr[i].done) return 'x';
  resume(i);
  if (thr[i].status == Y_BLOCKED) return 'b';
  return '+';
}

static void reset_lock(void) {
#if LK_ON
  sim_held = 0;
  global_lock.pid = 0;
  global_lock.in_callback = 0;
  global_lock.lock_count = 0;
#endif
}

static void run_case(void) {
  int n = atoi(vtok[1]);
  if (n < 1 || n > MAXT || vntok != n + 3) {
    printf("ERROR bad case\n");
    return;
  }
  nthr = n;
  reset_lock();
  for (int i = 0; i < n; i++) {
    thr[i].prog = vtok[2 + i];
    thr[i].done = 0;
    thr[i].in_work = 0;
#if !defined(LK_STANDALONE_RC)
    post_lock_gate[i] = pre_unlock_gate[i] = 0;
#endif
    if (!thr[i].stack) thr[i].stack = (char *)malloc(STACKSZ);
    getcontext(&thr[i].ctx);
    thr[i].ctx.uc_stack.ss_sp = thr[i].stack;
    thr[i].ctx.uc_stack.ss_size = STACKSZ;
    thr[i].ctx.uc_link = NULL;
    makecontext(&thr[i].ctx, thread_entry, 0);
    /* run up to the first gate (or to the end of an empty program); not a step */
    resume(i);
  }
  int worst = 0;
  char *s = vtok[2 + n];
  if (strcmp(s, "-") != 0) {
    while (*s) {
      int i = (int)strtol(s, &s, 10);
      if (*s == ',') s++;
      char st = step(i);
      if (two_access()) worst = 1;
      printf("%d%c", i, st);
      show_state(stdout);
      putchar(',');
    }
  }
  printf("|,");
  /* drain: always the lowest thread that can move */
  for (;;) {
    int moved = 0;
    for (int i = 0; i < n && !moved; i++) {
      if (thr[i].done) continue;
      if (step(i) == '+') {
        moved = 1;
        if (two_access()) worst = 1;
        printf("%d+", i);
        show_state(stdout);
        putchar(',');
      }
    }
    if (!moved) break;
  }
  /* verdict on what the implementation did (same definition as LockModel.lk_verdict) */
  int alldone = 1;
  for (int i = 0; i < n; i++) alldone &= thr[i].done;
  long h, p, ic, c;
  lock_snapshot(&h, &p, &ic, &c);
  int v = 0;
  if (worst) v = 1;
  else if (!alldone) v = 2;        /* the drain stopped: nobody can move, work is left */
  else if (h || p || ic || c) v = 3;
  printf(" end=%d done=", v);
  for (int i = 0; i < n; i++) putchar(thr[i].done ? '1' : '0');
  putchar('\n');
}

int main(void) {
  setvbuf(stdout, NULL, _IOLBF, 0);
#ifdef LK_STANDALONE_RC
  coap_lock_init();
#else
  coap_startup();
#endif
  lkctx = (coap_context_t *)&lkctx;   /* never dereferenced by the lock macros */
#if !defined(LK_STANDALONE_RC)
  real_ctx = coap_new_context(NULL);
  if (!real_ctx) { printf("ERROR no context\n"); return 2; }
  coap_register_event_handler(real_ctx, ev_handler);
#endif
  while (next_case(stdin)) {
    if (vntok == 0) { printf("\n"); continue; }
    if (strcmp(vtok[0], "lk") == 0) {
      run_case();
    } else if (strcmp(vtok[0], "probe") == 0) {
      int ifdef = 0;
#ifdef COAP_THREAD_SAFE
      ifdef = 1;
#endif
#ifdef LK_STANDALONE_RC
      printf("supported=-1 macro=%d ifdef=%d rc=%d\n", LK_ON, ifdef, COAP_THREAD_RECURSIVE_CHECK + 0);
#else
      printf("supported=%d macro=%d ifdef=%d\n", coap_threadsafe_is_supported(), LK_ON, ifdef);
#endif
    } else {
      printf("ERROR unknown command\n");
    }
  }
  return 0;
}

/* C01 / C03 / C04 driver: PDU building, serialisation, parsing and in-place edits through
 * libcoap's API, one case per line (format: see ocaml/d_wire.ml). */
#include "coap3/coap_libcoap_build.h"
#include "common/util.h"
#include "common/dump.h"

static coap_proto_t proto_of(const char *s) {
  if (!strcmp(s, "udp")) return COAP_PROTO_UDP;
  if (!strcmp(s, "tcp")) return COAP_PROTO_TCP;
  return COAP_PROTO_WS;
}

/* parse exact-size heap copy -> dump or REJECT.
 * The same bytes are parsed twice: into a fresh PDU and into a PDU that already holds another
 * parsed message (token, option, payload) - coap_pdu_parse must report the same thing whatever the
 * PDU held before (the library's own tests reuse PDUs this way).  A difference is appended as
 * " REUSE[...]", which no model output contains. */
static int parse_into(char **res, coap_proto_t proto, const uint8_t *b, size_t n, int reuse) {
  static const uint8_t decoy_udp[] = {0x44, 0x02, 0x12, 0x34, 0xa1, 0xa2, 0xa3, 0xa4, 0xb1, 'x', 0xff, 'p', 'q', 'r'};
  static const uint8_t decoy_tcp[] = {0x64, 0x02, 0xa1, 0xa2, 0xa3, 0xa4, 0xb1, 'x', 0xff, 'p', 'q', 'r'};
  static const uint8_t decoy_ws[] = {0x04, 0x02, 0xa1, 0xa2, 0xa3, 0xa4, 0xb1, 'x', 0xff, 'p', 'q', 'r'};
  size_t sz = 0;
  FILE *m = open_memstream(res, &sz);
  coap_pdu_t *pdu = coap_pdu_init(0, 0, 0, n > 16 ? n : 16);
  if (!pdu) { fputs("NOPDU", m); fclose(m); return 0; }
  if (reuse) {
    int ok;
    if (proto == COAP_PROTO_UDP) ok = coap_pdu_parse(proto, decoy_udp, sizeof(decoy_udp), pdu);
    else if (proto == COAP_PROTO_TCP) ok = coap_pdu_parse(proto, decoy_tcp, sizeof(decoy_tcp), pdu);
    else ok = coap_pdu_parse(proto, decoy_ws, sizeof(decoy_ws), pdu);
    if (!ok) fputs("DECOYREJECT ", m);
  }
  if (coap_pdu_parse(proto, b, n, pdu)) dump_pdu(m, pdu);
  else fputs("REJECT", m);
  coap_delete_pdu(pdu);
  fclose(m);
  return 1;
}

static void parse_and_dump(FILE *o, coap_proto_t proto, const uint8_t *b, size_t n) {
  char *fresh = NULL, *reused = NULL;
  parse_into(&fresh, proto, b, n, 0);
  parse_into(&reused, proto, b, n, 1);
  fputs(fresh, o);
  if (strcmp(fresh, reused)) fprintf(o, " REUSE[%s]", reused);
  free(fresh);
  free(reused);
}

static void c01(void) {
  coap_proto_t proto = proto_of(vtok[1]);
  int ty = atoi(vtok[2]), code = atoi(vtok[3]), mid = atoi(vtok[4]);
  size_t mx = (size_t)atol(vtok[5]);
  coap_pdu_t *pdu = coap_pdu_init(ty, code, mid, mx);
  char rets[MAXTOK];
  int nr = 0, i = 6;
  if (!pdu) { puts("NOPDU"); return; }
  while (i < vntok) {
    size_t n;
    uint8_t *b;
    int r = 0;
    if (vtok[i][0] == 'T') {
      b = bytes_of_tok(vtok[i + 1], &n);
      r = coap_add_token(pdu, n, b);
      i += 2;
    } else if (vtok[i][0] == 'O') {
      b = bytes_of_tok(vtok[i + 2], &n);
      r = coap_add_option(pdu, (coap_option_num_t)atoi(vtok[i + 1]), n, b) != 0;
      i += 3;
    } else {
      b = bytes_of_tok(vtok[i + 1], &n);
      r = coap_add_data(pdu, n, b);
      i += 2;
    }
    free(b);
    rets[nr++] = r ? '1' : '0';
  }
  rets[nr] = 0;
  printf("rets=%s built=[", nr ? rets : "-");
  dump_pdu(stdout, pdu);
  fputs("] wire=", stdout);
  size_t hs = coap_pdu_encode_header(pdu, proto);
  if (!hs) {
    fputs("NOHDR reparse=[]", stdout);
  } else {
    size_t total = hs + pdu->used_size;
    uint8_t *copy = (uint8_t *)malloc(total);
    memcpy(copy, pdu->token - hs, total);
    show_bytes(stdout, copy, total);
    fputs(" reparse=[", stdout);
    parse_and_dump(stdout, proto, copy, total);
    fputs("]", stdout);
    free(copy);
  }
  fputc('\n', stdout);
  coap_delete_pdu(pdu);
}

/* bins <udp datagram> <number> <value>: coap_insert_option on a parsed datagram; prints the
 * option+payload area afterwards (byte-level tie of Wire/InsertBytes.v) */
static void bins(void) {
  size_t n, vl;
  uint8_t *b = bytes_of_tok(vtok[1], &n);
  unsigned num = (unsigned)atoi(vtok[2]);
  uint8_t *v = bytes_of_tok(vtok[3], &vl);
  coap_pdu_t *pdu = coap_pdu_init(0, 0, 0, n + vl + 64);
  if (!pdu) { puts("ERROR alloc"); free(b); free(v); return; }
  if (!coap_pdu_parse(COAP_PROTO_UDP, b, n, pdu)) puts("REJECT");
  else if (num >= pdu->max_opt) puts("append");
  else {
    size_t before = pdu->used_size;
    size_t r = coap_insert_option(pdu, (coap_option_num_t)num, vl, v);
    size_t tl = pdu->e_token_length;
    /* growth of the area (the return value is the size of the new option alone) */
    printf("r=%ld area=", r ? (long)pdu->used_size - (long)before : 0L);
    show_bytes(stdout, pdu->token + tl, pdu->used_size - tl);
    fputc('\n', stdout);
  }
  coap_delete_pdu(pdu);
  free(b);
  free(v);
}

static void c03(void) {
  size_t n;
  uint8_t *b = bytes_of_tok(vtok[2], &n);
  parse_and_dump(stdout, proto_of(vtok[1]), b, n);
  fputc('\n', stdout);
  free(b);
}

/* psize <proto> <bytes>: coap_pdu_parse_size on the header + token-extension bytes */
static void psize(void) {
  size_t n;
  uint8_t *b = bytes_of_tok(vtok[2], &n);
  coap_proto_t proto = proto_of(vtok[1]);
  if (n == 0 || coap_pdu_parse_header_size(proto, b) > n) puts("short");
  else printf("%zu\n", coap_pdu_parse_size(proto, b, n));
  free(b);
}

static void optparse(void) {
  size_t n;
  uint8_t *b = bytes_of_tok(vtok[1], &n);
  coap_option_t o;
  size_t r = coap_opt_parse(b, n, &o);
  if (!r) puts("0");
  else {
    printf("%zu %u ", r, (unsigned)o.delta);
    show_bytes(stdout, o.value, o.length);
    fputc('\n', stdout);
  }
  free(b);
}

static void optenc(void) {
  uint8_t buf[8];
  unsigned d = (unsigned)atoi(vtok[1]);
  size_t l = (size_t)atol(vtok[2]);
  size_t h = coap_opt_setheader(buf, sizeof(buf), (uint16_t)d, l);
  show_bytes(stdout, buf, h);
  printf(" %zu\n", coap_opt_encode_size((uint16_t)d, l));
}

static void optrt(void) {
  unsigned d = (unsigned)atoi(vtok[1]);
  size_t l = (size_t)atol(vtok[2]);
  size_t sz = coap_opt_encode_size((uint16_t)d, l);
  uint8_t *val = (uint8_t *)malloc(l ? l : 1);
  uint8_t *buf = (uint8_t *)malloc(sz);
  coap_option_t o;
  for (size_t i = 0; i < l; i++) val[i] = (uint8_t)fill_byte(1, i);
  size_t w = coap_opt_encode(buf, sz, (uint16_t)d, val, l);
  show_bytes(stdout, buf, w >= l ? w - l : 0);
  size_t r = coap_opt_parse(buf, w, &o);
  if (!r) printf(" %zu 0\n", w);
  else {
    printf(" %zu %zu %u ", w, r, (unsigned)o.delta);
    show_bytes(stdout, o.value, o.length);
    fputc('\n', stdout);
  }
  free(val);
  free(buf);
}

static void quiet_log(coap_log_t level, const char *message) { (void)level; (void)message; }

int main(void) {
  /* VERIF_LOG_DEBUG=1: every log statement is formatted (the debug dump of a malformed option
   * list walks the PDU a second time), the text is discarded */
  if (getenv("VERIF_LOG_DEBUG")) {
    coap_set_log_handler(quiet_log);
    coap_set_log_level(COAP_LOG_DEBUG);
  } else
    coap_set_log_level(COAP_LOG_EMERG);
  while (next_case(stdin)) {
    if (vntok == 0) { puts(""); continue; }
    if (!strcmp(vtok[0], "c01")) c01();
    else if (!strcmp(vtok[0], "c03") || !strcmp(vtok[0], "c02")) c03();
    else if (!strcmp(vtok[0], "psize")) psize();
    else if (!strcmp(vtok[0], "bins") && vntok == 4) bins();
    else if (!strcmp(vtok[0], "optparse")) optparse();
    else if (!strcmp(vtok[0], "optenc")) optenc();
    else if (!strcmp(vtok[0], "optrt")) optrt();
    else puts("ERROR unknown command");
  }
  return 0;
}

/* C14 driver: OSCORE protection through libcoap at PDU level, one case per line (formats: see
 * ocaml/d_oscore.ml).  coap_oscore.c is compiled into this driver from /repo's working tree
 * (so its static functions and internal entry points are reachable and its calls into the
 * transmit path can be interposed with ld --wrap); everything else comes from libcoap.a.
 *
 * An endpoint is a coap_context_t with an OSCORE security context made by coap_new_oscore_conf()
 * from a text configuration plus a blank UDP session (the same arrangement as
 * /repo/tests/test_oscore.c).  Nothing is sent: coap_send_internal / coap_send_ack_lkd /
 * coap_handle_event_lkd are interposed and only record what the library wanted to send. */
#include "coap3/coap_libcoap_build.h"
#include "coap_oscore.c"
#include "common/util.h"
#include "common/dump.h"

/* ---- interposed transmit path: record the replies ---- */
#define MAXREP 8
static int rep_code[MAXREP];
static int rep_n;
static int ev_last;

coap_mid_t __wrap_coap_send_internal(coap_session_t *session, coap_pdu_t *pdu) {
  (void)session;
  if (rep_n < MAXREP) rep_code[rep_n++] = pdu->code;
  coap_mid_t mid = pdu->mid;
  coap_delete_pdu(pdu);
  return mid;
}
coap_mid_t __wrap_coap_send_ack_lkd(coap_session_t *session, const coap_pdu_t *request) {
  (void)session;
  (void)request;
  if (rep_n < MAXREP) rep_code[rep_n++] = 0;  /* empty ACK */
  return request->mid;
}
int __wrap_coap_handle_event_lkd(coap_context_t *context, coap_event_t event,
                                 coap_session_t *session) {
  (void)context;
  (void)session;
  ev_last = (int)event;
  return 0;
}

static void show_full(FILE *o, const uint8_t *b, size_t n) {
  if (n == 0) { fputc('-', o); return; }
  for (size_t i = 0; i < n; i++) fprintf(o, "%02x", b[i]);
}
static void hex_into(char *dst, const uint8_t *b, size_t n) {
  for (size_t i = 0; i < n; i++) sprintf(dst + 2 * i, "%02x", b[i]);
  dst[2 * n] = 0;
}

/* ---- endpoints ---- */
typedef struct {
  coap_context_t *ctx;
  coap_session_t *sess;
} endpoint_t;

static endpoint_t ep_client, ep_server;

typedef struct {
  const char *secret, *salt, *idctx;
} secspec_t;

static void ep_clear(endpoint_t *e) {
  if (e->sess) {
    coap_delete_oscore_associations(e->sess);
    free(e->sess);
    e->sess = NULL;
  }
  if (e->ctx) coap_delete_all_oscore(e->ctx);
}

/* (re)create the security context of an endpoint: sender id sid, recipient id rid, sender
 * sequence number start_seq; returns 0 when libcoap refuses the configuration */
static int ep_setup2(endpoint_t *e, const secspec_t *s, const char *sid, const char *rid,
                     uint64_t start_seq, int add);
static int ep_setup(endpoint_t *e, const secspec_t *s, const char *sid, const char *rid,
                    uint64_t start_seq) {
  return ep_setup2(e, s, sid, rid, start_seq, 0);
}
/* add = 1: keep what the endpoint has and add one more security context to its coap_context_t
 * (a server with several contexts; they share the endpoint's one session) */
static int ep_setup2(endpoint_t *e, const secspec_t *s, const char *sid, const char *rid,
                     uint64_t start_seq, int add) {
  char conf[2048];
  size_t n;
  uint8_t *b;
  char hs[600], hsalt[600], hctx[600], hsid[64], hrid[64];
  coap_oscore_conf_t *oc;
  coap_str_const_t mem;
  if (!add) ep_clear(e);
  if (!e->ctx) e->ctx = coap_new_context(NULL);
  if (!e->ctx) return 0;
  b = bytes_of_tok(s->secret, &n); hex_into(hs, b, n); free(b);
  b = bytes_of_tok(sid, &n); hex_into(hsid, b, n); free(b);
  b = bytes_of_tok(rid, &n); hex_into(hrid, b, n); free(b);
  n = (size_t)snprintf(conf, sizeof(conf), "master_secret,hex,\"%s\"\n", hs);
  if (strcmp(s->salt, "-")) {
    size_t k;
    b = bytes_of_tok(s->salt, &k); hex_into(hsalt, b, k); free(b);
    n += (size_t)snprintf(conf + n, sizeof(conf) - n, "master_salt,hex,\"%s\"\n", hsalt);
  }
  if (strcmp(s->idctx, "-")) {
    size_t k;
    b = bytes_of_tok(s->idctx, &k); hex_into(hctx, b, k); free(b);
    n += (size_t)snprintf(conf + n, sizeof(conf) - n, "id_context,hex,\"%s\"\n", hctx);
  }
  n += (size_t)snprintf(conf + n, sizeof(conf) - n,
                        "sender_id,hex,\"%s\"\nrecipient_id,hex,\"%s\"\nrfc8613_b_1_2,bool,false\n",
                        hsid, hrid);
  mem.s = (const uint8_t *)conf;
  mem.length = n;
  oc = coap_new_oscore_conf(mem, NULL, NULL, start_seq);
  if (!oc) return 0;
  if (!coap_context_oscore_server(e->ctx, oc)) return 0;
  if (add && e->sess) return 1;
  e->sess = (coap_session_t *)calloc(1, sizeof(coap_session_t));
  e->sess->context = e->ctx;
  e->sess->proto = COAP_PROTO_UDP;
  e->sess->type = COAP_SESSION_TYPE_CLIENT;
  e->sess->recipient_ctx = e->ctx->p_osc_ctx->recipient_chain;
  return 1;
}

/* ---- messages ---- */
typedef struct {
  int type, code, mid;
  const char *token;
  int nopts;
  int first_opt; /* index into vtok of the first (num, bytes) pair */
  const char *payload;
} msgspec_t;

/* parse a message spec starting at vtok[i]; returns the index after it */
static int msg_spec(int i, msgspec_t *m) {
  m->type = atoi(vtok[i]);
  m->code = atoi(vtok[i + 1]);
  m->mid = atoi(vtok[i + 2]);
  m->token = vtok[i + 3];
  m->nopts = atoi(vtok[i + 4]);
  m->first_opt = i + 5;
  m->payload = vtok[i + 5 + 2 * m->nopts];
  return i + 6 + 2 * m->nopts;
}

/* build through the public API; NULL when libcoap refuses a step */
static coap_pdu_t *msg_build(const msgspec_t *m) {
  size_t n;
  uint8_t *b;
  coap_pdu_t *pdu = coap_pdu_init((coap_pdu_type_t)m->type, (coap_pdu_code_t)m->code,
                                  (coap_mid_t)m->mid, 0);
  int ok = 1;
  if (!pdu) return NULL;
  b = bytes_of_tok(m->token, &n);
  ok = ok && coap_add_token(pdu, n, b);
  free(b);
  for (int k = 0; ok && k < m->nopts; k++) {
    b = bytes_of_tok(vtok[m->first_opt + 2 * k + 1], &n);
    ok = ok && coap_add_option(pdu, (coap_option_num_t)atoi(vtok[m->first_opt + 2 * k]), n, b);
    free(b);
  }
  b = bytes_of_tok(m->payload, &n);
  ok = ok && coap_add_data(pdu, n, b);
  free(b);
  if (!ok) { coap_delete_pdu(pdu); return NULL; }
  return pdu;
}

/* the datagram of a PDU (header encoded for UDP), exact-size heap copy */
static uint8_t *datagram_of(coap_pdu_t *pdu, size_t *len) {
  size_t hs = coap_pdu_encode_header(pdu, COAP_PROTO_UDP);
  uint8_t *copy;
  if (!hs) return NULL;
  *len = hs + pdu->used_size;
  copy = (uint8_t *)malloc(*len);
  memcpy(copy, pdu->token - hs, *len);
  return copy;
}

static coap_pdu_t *protect(endpoint_t *e, coap_pdu_t *pdu, int send_piv) {
  coap_pdu_t *r;
  coap_lock_lock(e->ctx, return NULL);
  r = coap_oscore_new_pdu_encrypted_lkd(e->sess, pdu, NULL,
                                        send_piv ? OSCORE_SEND_PARTIAL_IV : OSCORE_SEND_NO_IV);
  coap_lock_unlock(e->ctx);
  return r;
}

/* what an endpoint does with a datagram: 'P' parse reject, 'N' no OSCORE option (plain),
 * 'R' OSCORE verification rejected, 'A' accepted (result in *out) */
static int receive(endpoint_t *e, const uint8_t *dg, size_t n, coap_pdu_t **out) {
  coap_opt_iterator_t oi;
  coap_pdu_t *pdu, *dec;
  uint8_t *copy = (uint8_t *)malloc(n ? n : 1);   /* exact size: overreads are visible to ASan */
  *out = NULL;
  memcpy(copy, dg, n);
  pdu = coap_pdu_init(0, 0, 0, n > 4 ? n : 4);
  rep_n = 0;
  ev_last = -1;
  if (!pdu || !coap_pdu_parse(COAP_PROTO_UDP, copy, n, pdu)) {
    coap_delete_pdu(pdu);
    free(copy);
    return 'P';
  }
  free(copy);
  if (!coap_check_option(pdu, COAP_OPTION_OSCORE, &oi)) {
    *out = pdu;
    return 'N';
  }
  coap_lock_lock(e->ctx, return 'R');
  dec = coap_oscore_decrypt_pdu(e->sess, pdu);
  coap_lock_unlock(e->ctx);
  coap_delete_pdu(pdu);
  if (!dec) return 'R';
  *out = dec;
  return 'A';
}

static void show_receive(FILE *o, int r, coap_pdu_t *p) {
  if (r == 'P') fputs("PARSE-REJECT", o);
  else if (r == 'R') fputs("REJECT", o);
  else {
    fputs(r == 'N' ? "PLAIN [" : "OK [", o);
    dump_pdu(o, p);
    fputc(']', o);
  }
  if (p) coap_delete_pdu(p);
}

/* install the association a client has after sending a request with this token and
 * sequence number (it is what verification of the response is bound to) */
static int client_expect(endpoint_t *e, const char *tok, uint64_t seq) {
  size_t n;
  uint8_t *b = bytes_of_tok(tok, &n);
  coap_pdu_t *req = coap_pdu_init(COAP_MESSAGE_CON, COAP_REQUEST_CODE_GET, 0, 0);
  coap_pdu_t *osc;
  (void)seq;
  coap_add_token(req, n, b);
  free(b);
  osc = protect(e, req, 0);
  coap_delete_pdu(req);
  if (!osc) return 0;
  coap_delete_pdu(osc);
  return 1;
}

/* oscderive <secret> <salt> <idctx> <sid> <rid> */
static void oscderive(void) {
  secspec_t s = { vtok[1], vtok[2], vtok[3] };
  oscore_ctx_t *oc;
  if (!ep_setup(&ep_client, &s, vtok[4], vtok[5], 0)) { puts("NOCTX"); return; }
  oc = ep_client.ctx->p_osc_ctx;
  fputs("skey=", stdout);
  show_full(stdout, oc->sender_context->sender_key->s, oc->sender_context->sender_key->length);
  fputs(" rkey=", stdout);
  show_full(stdout, oc->recipient_chain->recipient_key->s, oc->recipient_chain->recipient_key->length);
  fputs(" iv=", stdout);
  show_full(stdout, oc->common_iv->s, oc->common_iv->length);
  fputc('\n', stdout);
}

/* oscx <secret> <salt> <idctx> <cid> <sid> <reqmsg> <cseq> <respmsg> <sendpiv> <sseq> */
static void oscx(void) {
  secspec_t s = { vtok[1], vtok[2], vtok[3] };
  const char *cid = vtok[4], *sid = vtok[5];
  msgspec_t req, resp;
  int i = msg_spec(6, &req);
  uint64_t cseq = strtoull(vtok[i], NULL, 10);
  int sendpiv;
  uint64_t sseq;
  coap_pdu_t *pdu, *osc, *dec;
  oscore_ctx_t *oc;
  uint8_t *dg;
  size_t n;
  int r;
  i = msg_spec(i + 1, &resp);
  sendpiv = atoi(vtok[i]);
  sseq = strtoull(vtok[i + 1], NULL, 10);
  if (!ep_setup(&ep_client, &s, cid, sid, cseq) || !ep_setup(&ep_server, &s, sid, cid, sseq)) {
    puts("NOCTX");
    return;
  }
  oc = ep_client.ctx->p_osc_ctx;
  fputs("ck=", stdout);
  show_full(stdout, oc->sender_context->sender_key->s, oc->sender_context->sender_key->length);
  fputc('/', stdout);
  show_full(stdout, oc->recipient_chain->recipient_key->s, oc->recipient_chain->recipient_key->length);
  fputc('/', stdout);
  show_full(stdout, oc->common_iv->s, oc->common_iv->length);
  /* request */
  pdu = msg_build(&req);
  if (!pdu) { puts(" BUILD-REFUSED-REQ"); return; }
  osc = protect(&ep_client, pdu, 0);
  coap_delete_pdu(pdu);
  if (!osc) { puts(" p1=NONE"); return; }
  dg = datagram_of(osc, &n);
  coap_delete_pdu(osc);
  fputs(" p1=", stdout);
  show_full(stdout, dg, n);
  fputs(" d1=", stdout);
  r = receive(&ep_server, dg, n, &dec);
  show_receive(stdout, r, dec);
  free(dg);
  /* response */
  pdu = msg_build(&resp);
  if (!pdu) { puts(" BUILD-REFUSED-RESP"); return; }
  osc = protect(&ep_server, pdu, sendpiv);
  coap_delete_pdu(pdu);
  if (!osc) { puts(" p2=NONE"); return; }
  dg = datagram_of(osc, &n);
  coap_delete_pdu(osc);
  fputs(" p2=", stdout);
  show_full(stdout, dg, n);
  fputs(" d2=", stdout);
  r = receive(&ep_client, dg, n, &dec);
  show_receive(stdout, r, dec);
  free(dg);
  fputc('\n', stdout);
}

/* common part of oscun / oscflip: vtok[1..5] = secret salt idctx sid rid, vtok[6] = req|resp */
typedef struct {
  secspec_t s;
  const char *sid, *rid;
  int is_resp;
  const char *tok;
  uint64_t seq;
  int dg_index;
} unspec_t;

static void un_spec(unspec_t *u) {
  u->s.secret = vtok[1]; u->s.salt = vtok[2]; u->s.idctx = vtok[3];
  u->sid = vtok[4]; u->rid = vtok[5];
  u->is_resp = !strcmp(vtok[6], "resp");
  if (u->is_resp) {
    u->tok = vtok[7];
    u->seq = strtoull(vtok[8], NULL, 10);
    u->dg_index = 9;
  } else {
    u->tok = NULL; u->seq = 0; u->dg_index = 7;
  }
}

/* fresh endpoint state for one delivery */
static int un_fresh(const unspec_t *u) {
  if (!ep_setup(&ep_client, &u->s, u->sid, u->rid, u->seq)) return 0;
  if (u->is_resp && !client_expect(&ep_client, u->tok, u->seq)) return 0;
  return 1;
}

/* oscun <secret> <salt> <idctx> <sid> <rid> req <datagram>
 * oscun <secret> <salt> <idctx> <sid> <rid> resp <reqtoken> <reqseq> <datagram> */
static void oscun(void) {
  unspec_t u;
  size_t n;
  uint8_t *dg;
  coap_pdu_t *dec;
  int r;
  un_spec(&u);
  if (!un_fresh(&u)) { puts("NOCTX"); return; }
  dg = bytes_of_tok(vtok[u.dg_index], &n);
  r = receive(&ep_client, dg, n, &dec);
  show_receive(stdout, r, dec);
  fputc('\n', stdout);
  free(dg);
}

/* oscflip <...same as oscun...> : every single-bit flip and every truncation of the datagram is
 * delivered to a fresh endpoint.  Output: counts per outcome, every accepted variant in full
 * (bit index or kept length, and the message handed out), and the set of reply codes the library
 * wanted to send for rejected variants. */
static void oscflip(void) {
  unspec_t u;
  size_t n, nacc = 0;
  uint8_t *dg, *mut;
  long cnt[256];
  int seen_reply[256];
  memset(cnt, 0, sizeof(cnt));
  memset(seen_reply, 0, sizeof(seen_reply));
  un_spec(&u);
  dg = bytes_of_tok(vtok[u.dg_index], &n);
  mut = (uint8_t *)malloc(n ? n : 1);
  fputs("acc=", stdout);
  for (size_t bit = 0; bit < 8 * n; bit++) {
    coap_pdu_t *dec;
    int r;
    if (!un_fresh(&u)) { puts("NOCTX"); return; }
    memcpy(mut, dg, n);
    mut[bit / 8] ^= (uint8_t)(0x80u >> (bit % 8));
    r = receive(&ep_client, mut, n, &dec);
    cnt[r]++;
    if (r == 'A' || r == 'N') {
      printf("%sb%zu:%c[", nacc++ ? "|" : "", bit, r);
      dump_pdu(stdout, dec);
      fputc(']', stdout);
    }
    if (r == 'R')
      for (int k = 0; k < rep_n; k++) seen_reply[rep_code[k] & 0xff] = 1;
    if (dec) coap_delete_pdu(dec);
  }
  for (size_t keep = 0; keep < n; keep++) {
    coap_pdu_t *dec;
    int r;
    if (!un_fresh(&u)) { puts("NOCTX"); return; }
    r = receive(&ep_client, dg, keep, &dec);
    cnt[r + 0]++;
    if (r == 'A' || r == 'N') {
      printf("%st%zu:%c[", nacc++ ? "|" : "", keep, r);
      dump_pdu(stdout, dec);
      fputc(']', stdout);
    }
    if (r == 'R')
      for (int k = 0; k < rep_n; k++) seen_reply[rep_code[k] & 0xff] = 1;
    if (dec) coap_delete_pdu(dec);
  }
  if (!nacc) fputc('-', stdout);
  printf(" n=%zu parse_rej=%ld osc_rej=%ld plain=%ld accepted=%ld replies=", 9 * n, cnt['P'],
         cnt['R'], cnt['N'], cnt['A']);
  {
    int first = 1;
    for (int c = 0; c < 256; c++)
      if (seen_reply[c]) { printf("%s%d", first ? "" : ",", c); first = 0; }
    if (first) fputc('-', stdout);
  }
  fputc('\n', stdout);
  free(dg);
  free(mut);
}

/* oscseq <secret> <salt> <idctx> <cid> <sid> <token> <type> <cseq> <sseq> <step>*
 * several requests and responses on one token between the same two endpoints (no reset in
 * between): Q- | Q0 | Q1 = request without Observe / Observe 0 / Observe 1, R<o><p> = response
 * with(out) Observe, with(out) forced Partial IV.  See ocaml/d_oscore.ml. */
static void oscseq(void) {
  secspec_t s = { vtok[1], vtok[2], vtok[3] };
  const char *cid = vtok[4], *sid = vtok[5];
  size_t tl;
  uint8_t *tokb = bytes_of_tok(vtok[6], &tl);
  int type = atoi(vtok[7]);
  uint64_t cseq = strtoull(vtok[8], NULL, 10), sseq = strtoull(vtok[9], NULL, 10);
  if (!ep_setup(&ep_client, &s, cid, sid, cseq) || !ep_setup(&ep_server, &s, sid, cid, sseq)) {
    puts("NOCTX");
    free(tokb);
    return;
  }
  for (int i = 10, k = 1; i < vntok; i++, k++) {
    const char *st = vtok[i];
    coap_pdu_t *pdu, *osc, *dec;
    uint8_t *dg;
    size_t n;
    int r;
    if (st[0] == 'Q') {
      pdu = coap_pdu_init((coap_pdu_type_t)type, COAP_REQUEST_CODE_GET, (coap_mid_t)(100 + k), 0);
      coap_add_token(pdu, tl, tokb);
      if (st[1] == '0') coap_add_option(pdu, COAP_OPTION_OBSERVE, 0, NULL);
      if (st[1] == '1') { uint8_t one = 1; coap_add_option(pdu, COAP_OPTION_OBSERVE, 1, &one); }
      coap_add_option(pdu, COAP_OPTION_URI_PATH, 1, (const uint8_t *)"s");
      osc = protect(&ep_client, pdu, 0);
      coap_delete_pdu(pdu);
      if (!osc) { fputs(" q=NONE", stdout); continue; }
      dg = datagram_of(osc, &n);
      coap_delete_pdu(osc);
      fputs(" q=", stdout);
      show_full(stdout, dg, n);
      fputs(" dq=", stdout);
      r = receive(&ep_server, dg, n, &dec);
      show_receive(stdout, r, dec);
      free(dg);
    } else {
      uint8_t pl[2] = { 'r', (uint8_t)('0' + k % 10) };
      uint8_t ov = (uint8_t)k;
      pdu = coap_pdu_init(COAP_MESSAGE_NON, COAP_RESPONSE_CODE(205), (coap_mid_t)(200 + k), 0);
      coap_add_token(pdu, tl, tokb);
      if (st[1] == '1') coap_add_option(pdu, COAP_OPTION_OBSERVE, 1, &ov);
      coap_add_data(pdu, 2, pl);
      osc = protect(&ep_server, pdu, st[2] == '1');
      coap_delete_pdu(pdu);
      if (!osc) { fputs(" r=NONE", stdout); continue; }
      dg = datagram_of(osc, &n);
      coap_delete_pdu(osc);
      fputs(" r=", stdout);
      show_full(stdout, dg, n);
      fputs(" dr=", stdout);
      r = receive(&ep_client, dg, n, &dec);
      show_receive(stdout, r, dec);
      free(dg);
    }
  }
  fputc('\n', stdout);
  free(tokb);
}

/* oscproxy <secret> <salt> <idctx> <cid> <sid> <proxy-uri bytes> <msgspec> <cseq>
 * a request built by the application with a Proxy-Uri option: libcoap first splits it
 * (coap_rebuild_pdu_for_proxy, as coap_send does on an OSCORE session) and then protects it.
 * <msgspec> is the message the split must produce (Uri-Host, Uri-Port, Uri-Path, Uri-Query,
 * Hop-Limit, Proxy-Scheme + the other options): the reference protects that one; this driver
 * takes from it only what is not derived from the URI. */
static int from_uri(int n) {
  return n == 3 || n == 7 || n == 11 || n == 15 || n == 16 || n == 39;
}

static void oscproxy(void) {
  secspec_t s = { vtok[1], vtok[2], vtok[3] };
  const char *cid = vtok[4], *sid = vtok[5];
  msgspec_t m;
  int i = msg_spec(7, &m);
  uint64_t cseq = strtoull(vtok[i], NULL, 10);
  size_t n, un;
  uint8_t *b, *uri = bytes_of_tok(vtok[6], &un);
  coap_pdu_t *pdu, *osc, *dec;
  uint8_t *dg;
  int ok, r, added = 0;
  if (!ep_setup(&ep_client, &s, cid, sid, cseq) || !ep_setup(&ep_server, &s, sid, cid, 0)) {
    puts("NOCTX");
    free(uri);
    return;
  }
  pdu = coap_pdu_init((coap_pdu_type_t)m.type, (coap_pdu_code_t)m.code, (coap_mid_t)m.mid, 0);
  b = bytes_of_tok(m.token, &n);
  ok = coap_add_token(pdu, n, b);
  free(b);
  for (int k = 0; ok && k < m.nopts; k++) {
    int num = atoi(vtok[m.first_opt + 2 * k]);
    if (from_uri(num)) continue;
    if (num > 35 && !added) { ok = ok && coap_add_option(pdu, COAP_OPTION_PROXY_URI, un, uri); added = 1; }
    b = bytes_of_tok(vtok[m.first_opt + 2 * k + 1], &n);
    ok = ok && coap_add_option(pdu, (coap_option_num_t)num, n, b);
    free(b);
  }
  if (!added) ok = ok && coap_add_option(pdu, COAP_OPTION_PROXY_URI, un, uri);
  b = bytes_of_tok(m.payload, &n);
  ok = ok && coap_add_data(pdu, n, b);
  free(b);
  free(uri);
  if (!ok) { puts("BUILD-REFUSED"); coap_delete_pdu(pdu); return; }
  if (!coap_rebuild_pdu_for_proxy(pdu)) { puts("p1=NONE (Proxy-Uri not split)"); coap_delete_pdu(pdu); return; }
  fputs("split=[", stdout);
  dump_pdu(stdout, pdu);
  fputs("]", stdout);
  osc = protect(&ep_client, pdu, 0);
  coap_delete_pdu(pdu);
  if (!osc) { puts(" p1=NONE"); return; }
  dg = datagram_of(osc, &n);
  coap_delete_pdu(osc);
  fputs(" p1=", stdout);
  show_full(stdout, dg, n);
  fputs(" d1=", stdout);
  r = receive(&ep_server, dg, n, &dec);
  show_receive(stdout, r, dec);
  free(dg);
  fputc('\n', stdout);
}

/* oscmulti <peer A: secret salt idctx cid sid cseq sseq token> <peer B: same> <step>*
 * two security contexts at ONE server endpoint / session, two client endpoints; requests
 * interleaved, responses delayed or out of order.  See ocaml/d_oscore.ml. */
static endpoint_t ep_client_b;

static void oscmulti(void) {
  secspec_t sa = { vtok[1], vtok[2], vtok[3] }, sb = { vtok[9], vtok[10], vtok[11] };
  size_t tla, tlb;
  uint8_t *ta = bytes_of_tok(vtok[8], &tla), *tb = bytes_of_tok(vtok[16], &tlb);
  int ok = ep_setup(&ep_client, &sa, vtok[4], vtok[5], strtoull(vtok[6], NULL, 10)) &&
           ep_setup(&ep_client_b, &sb, vtok[12], vtok[13], strtoull(vtok[14], NULL, 10)) &&
           ep_setup(&ep_server, &sa, vtok[5], vtok[4], strtoull(vtok[7], NULL, 10)) &&
           ep_setup2(&ep_server, &sb, vtok[13], vtok[12], strtoull(vtok[15], NULL, 10), 1);
  if (!ok) { puts("NOCTX"); free(ta); free(tb); return; }
  for (int i = 17, k = 1; i < vntok; i++, k++) {
    const char *st = vtok[i];
    int isa = st[1] == 'A';
    endpoint_t *cl = isa ? &ep_client : &ep_client_b;
    const uint8_t *tok = isa ? ta : tb;
    size_t tl = isa ? tla : tlb;
    coap_pdu_t *pdu, *osc, *dec;
    uint8_t *dg;
    size_t n;
    int r;
    if (st[0] == 'Q') {
      pdu = coap_pdu_init(COAP_MESSAGE_NON, COAP_REQUEST_CODE_GET, (coap_mid_t)(100 + k), 0);
      coap_add_token(pdu, tl, tok);
      if (st[2] == '0') coap_add_option(pdu, COAP_OPTION_OBSERVE, 0, NULL);
      if (st[2] == '1') { uint8_t one = 1; coap_add_option(pdu, COAP_OPTION_OBSERVE, 1, &one); }
      coap_add_option(pdu, COAP_OPTION_URI_PATH, 1, (const uint8_t *)"s");
      osc = protect(cl, pdu, 0);
      coap_delete_pdu(pdu);
      if (!osc) { fputs(" q=NONE", stdout); continue; }
      dg = datagram_of(osc, &n);
      coap_delete_pdu(osc);
      fputs(" q=", stdout);
      show_full(stdout, dg, n);
      fputs(" dq=", stdout);
      r = receive(&ep_server, dg, n, &dec);
      show_receive(stdout, r, dec);
      free(dg);
    } else {
      uint8_t pl[2] = { 'r', (uint8_t)('0' + k % 10) };
      uint8_t ov = (uint8_t)k;
      pdu = coap_pdu_init(COAP_MESSAGE_NON, COAP_RESPONSE_CODE(205), (coap_mid_t)(200 + k), 0);
      coap_add_token(pdu, tl, tok);
      if (st[2] == '1') coap_add_option(pdu, COAP_OPTION_OBSERVE, 1, &ov);
      coap_add_data(pdu, 2, pl);
      osc = protect(&ep_server, pdu, st[3] == '1');
      coap_delete_pdu(pdu);
      if (!osc) { fputs(" r=NONE", stdout); continue; }
      dg = datagram_of(osc, &n);
      coap_delete_pdu(osc);
      fputs(" r=", stdout);
      show_full(stdout, dg, n);
      fputs(" dr=", stdout);
      r = receive(cl, dg, n, &dec);
      show_receive(stdout, r, dec);
      free(dg);
    }
  }
  fputc('\n', stdout);
  free(ta);
  free(tb);
}

int main(void) {
  coap_startup();
  coap_set_log_level(getenv("VLOG") ? COAP_LOG_OSCORE : COAP_LOG_EMERG);
  while (next_case(stdin)) {
    if (vntok == 0) { fputc('\n', stdout); continue; }
    if (!strcmp(vtok[0], "oscx")) oscx();
    else if (!strcmp(vtok[0], "oscun")) oscun();
    else if (!strcmp(vtok[0], "oscflip")) oscflip();
    else if (!strcmp(vtok[0], "oscderive")) oscderive();
    else if (!strcmp(vtok[0], "oscseq")) oscseq();
    else if (!strcmp(vtok[0], "oscmulti")) oscmulti();
    else if (!strcmp(vtok[0], "oscproxy")) oscproxy();
    else puts("ERROR unknown command");
    fflush(stdout);
  }
  ep_clear(&ep_client);
  ep_clear(&ep_client_b);
  ep_clear(&ep_server);
  return 0;
}

/* C14 live driver: a real OSCORE client session and a real OSCORE server context in one
 * process, joined by the scripted network of harness/common/vnet.h.  Everything runs through the
 * public API and the library's real send / receive paths (coap_send -> coap_send_internal ->
 * coap_oscore_new_pdu_encrypted_lkd -> coap_socket_send; coap_io_do_epoll -> coap_read_endpoint
 * -> coap_handle_dgram -> coap_dispatch -> coap_oscore_decrypt_pdu -> resource handler).
 * What the application sees is logged by the handlers; datagrams come from the vnet log.
 *
 * The server has one resource (the "unknown resource", so that every Uri-Path reaches it) flagged
 * COAP_RESOURCE_FLAGS_OSCORE_ONLY with a handler for every method.
 *
 *   live <secret> <salt> <idctx> <cid> <sid> <reqmsg> <cseq> <respmsg> <sseq>
 *        -> p1=<request datagram> H=[request seen by the handler] R=[response seen by the client]
 *   liveflip <same> : every single-bit flip and truncation of p1 is delivered to the server
 *        (a) as the first datagram from a new peer address, (b) from the address of a peer that has
 *        just completed the genuine exchange; listed: every variant for which the handler ran,
 *        and the reply codes.  Then the same for the response datagram at the client.
 */
#include "coap3/coap_libcoap_build.h"
#include "common/util.h"
#include "common/dump.h"
#include "common/vnet.h"

/* ---- what the application saw ---- */
static char *hl_buf = NULL;
static size_t hl_len = 0;
static FILE *hl = NULL;
static int n_handler = 0, n_response = 0, n_nack = 0;

static void hl_reset(void) {
  if (hl) fclose(hl);
  free(hl_buf);
  hl_buf = NULL;
  hl_len = 0;
  hl = open_memstream(&hl_buf, &hl_len);
  n_handler = n_response = n_nack = 0;
}

/* ---- messages (same spec as h_oscore.c) ---- */
typedef struct {
  int type, code, mid;
  const char *token;
  int nopts;
  int first_opt;
  const char *payload;
} msgspec_t;

static int msg_spec(int i, msgspec_t *m) {
  m->type = atoi(vtok[i]);
  m->code = atoi(vtok[i + 1]);
  m->mid = atoi(vtok[i + 2]);
  m->token = vtok[i + 3];
  m->nopts = atoi(vtok[i + 4]);
  m->first_opt = i + 5;
  m->payload = vtok[i + 5 + 2 * m->nopts];
  return i + 6 + 2 * m->nopts;
}

static msgspec_t cur_resp;   /* what the server handler answers */

static void on_request(coap_resource_t *r, coap_session_t *s, const coap_pdu_t *req,
                       const coap_string_t *q, coap_pdu_t *resp) {
  size_t n;
  uint8_t *b;
  (void)r; (void)s; (void)q;
  n_handler++;
  fputs("H[", hl);
  dump_pdu(hl, req);
  fputs("]", hl);
  coap_pdu_set_code(resp, (coap_pdu_code_t)cur_resp.code);
  for (int k = 0; k < cur_resp.nopts; k++) {
    b = bytes_of_tok(vtok[cur_resp.first_opt + 2 * k + 1], &n);
    coap_add_option(resp, (coap_option_num_t)atoi(vtok[cur_resp.first_opt + 2 * k]), n, b);
    free(b);
  }
  b = bytes_of_tok(cur_resp.payload, &n);
  if (n) coap_add_data(resp, n, b);
  free(b);
}

static coap_response_t on_response(coap_session_t *s, const coap_pdu_t *sent,
                                   const coap_pdu_t *rcv, const coap_mid_t mid) {
  (void)s; (void)sent; (void)mid;
  n_response++;
  fputs("R[", hl);
  dump_pdu(hl, rcv);
  fputs("]", hl);
  return COAP_RESPONSE_OK;
}

static void on_nack(coap_session_t *s, const coap_pdu_t *sent, const coap_nack_reason_t reason,
                    const coap_mid_t mid) {
  (void)s; (void)sent; (void)mid;
  n_nack++;
  fprintf(hl, "N[%d]", (int)reason);
}

/* ---- endpoints ---- */
typedef struct {
  const char *secret, *salt, *idctx, *cid, *sid;
} secspec_t;

static void hex_into(char *dst, const uint8_t *b, size_t n) {
  for (size_t i = 0; i < n; i++) sprintf(dst + 2 * i, "%02x", b[i]);
  dst[2 * n] = 0;
}

static coap_oscore_conf_t *make_conf(const secspec_t *s, const char *sid, const char *rid,
                                     uint64_t start_seq) {
  char conf[2048], hx[700];
  size_t n = 0, k;
  uint8_t *b;
  coap_str_const_t mem;
  b = bytes_of_tok(s->secret, &k); hex_into(hx, b, k); free(b);
  n += (size_t)snprintf(conf + n, sizeof(conf) - n, "master_secret,hex,\"%s\"\n", hx);
  if (strcmp(s->salt, "-")) {
    b = bytes_of_tok(s->salt, &k); hex_into(hx, b, k); free(b);
    n += (size_t)snprintf(conf + n, sizeof(conf) - n, "master_salt,hex,\"%s\"\n", hx);
  }
  if (strcmp(s->idctx, "-")) {
    b = bytes_of_tok(s->idctx, &k); hex_into(hx, b, k); free(b);
    n += (size_t)snprintf(conf + n, sizeof(conf) - n, "id_context,hex,\"%s\"\n", hx);
  }
  b = bytes_of_tok(sid, &k); hex_into(hx, b, k); free(b);
  n += (size_t)snprintf(conf + n, sizeof(conf) - n, "sender_id,hex,\"%s\"\n", hx);
  b = bytes_of_tok(rid, &k); hex_into(hx, b, k); free(b);
  n += (size_t)snprintf(conf + n, sizeof(conf) - n,
                        "recipient_id,hex,\"%s\"\nrfc8613_b_1_2,bool,false\n", hx);
  mem.s = (const uint8_t *)conf;
  mem.length = n;
  return coap_new_oscore_conf(mem, NULL, NULL, start_seq);
}

static coap_context_t *srv = NULL, *cli = NULL;
static coap_endpoint_t *srv_ep = NULL;
static coap_session_t *cli_sess = NULL;

static void world_down(void) {
  if (cli_sess) { vn_unregister_client(cli_sess); coap_session_release(cli_sess); cli_sess = NULL; }
  if (cli) { coap_free_context(cli); cli = NULL; }
  if (srv) { coap_free_context(srv); srv = NULL; }
  srv_ep = NULL;
  vn_nnodes = 0;
  vn_log_reset();
}

static int server_up(const secspec_t *s, uint64_t sseq) {
  coap_oscore_conf_t *oc;
  coap_resource_t *r;
  srv = coap_new_context(NULL);
  if (!srv) return 0;
  srv_ep = vn_new_server_ep(srv);
  oc = make_conf(s, s->sid, s->cid, sseq);
  if (!srv_ep || !oc || !coap_context_oscore_server(srv, oc)) return 0;
  r = coap_resource_unknown_init2(on_request, COAP_RESOURCE_FLAGS_OSCORE_ONLY);
  for (int m = 1; m <= 7; m++) coap_register_request_handler(r, (coap_request_t)m, on_request);
  coap_add_resource(srv, r);
  return 1;
}

static int client_up(const secspec_t *s, uint64_t cseq) {
  coap_oscore_conf_t *oc;
  cli = coap_new_context(NULL);
  if (!cli) return 0;
  coap_register_response_handler(cli, on_response);
  coap_register_nack_handler(cli, on_nack);
  oc = make_conf(s, s->cid, s->sid, cseq);
  if (!oc) return 0;
  cli_sess = coap_new_client_session_oscore(cli, NULL, &srv_ep->bind_addr, COAP_PROTO_UDP, oc);
  if (!cli_sess) return 0;
  vn_register_client(cli, cli_sess);
  return 1;
}

/* the client sends the request; returns the index of its datagram in the vnet log or -1 */
static long client_send(const msgspec_t *m) {
  size_t n;
  uint8_t *b;
  size_t before = vn_nout;
  coap_pdu_t *pdu = coap_pdu_init((coap_pdu_type_t)m->type, (coap_pdu_code_t)m->code,
                                  (coap_mid_t)m->mid, coap_session_max_pdu_size(cli_sess));
  int ok = 1;
  if (!pdu) return -1;
  b = bytes_of_tok(m->token, &n);
  ok = ok && coap_add_token(pdu, n, b);
  free(b);
  for (int k = 0; ok && k < m->nopts; k++) {
    b = bytes_of_tok(vtok[m->first_opt + 2 * k + 1], &n);
    ok = ok && coap_add_option(pdu, (coap_option_num_t)atoi(vtok[m->first_opt + 2 * k]), n, b);
    free(b);
  }
  b = bytes_of_tok(m->payload, &n);
  ok = ok && coap_add_data(pdu, n, b);
  free(b);
  if (!ok) { coap_delete_pdu(pdu); return -1; }
  if (coap_send(cli_sess, pdu) == COAP_INVALID_MID) return -1;
  return vn_nout > before ? (long)before : -1;
}

static void show_full(FILE *o, const uint8_t *b, size_t n) {
  if (n == 0) { fputc('-', o); return; }
  for (size_t i = 0; i < n; i++) fprintf(o, "%02x", b[i]);
}

typedef struct {
  secspec_t s;
  msgspec_t req, resp;
  uint64_t cseq, sseq;
} livespec_t;

static void live_spec(livespec_t *L) {
  int i;
  L->s.secret = vtok[1]; L->s.salt = vtok[2]; L->s.idctx = vtok[3];
  L->s.cid = vtok[4]; L->s.sid = vtok[5];
  i = msg_spec(6, &L->req);
  L->cseq = strtoull(vtok[i], NULL, 10);
  i = msg_spec(i + 1, &L->resp);
  L->sseq = strtoull(vtok[i], NULL, 10);
  cur_resp = L->resp;
}

/* route everything the server has logged since 'from' to the client; returns the new log size */
static void route_from(size_t from) {
  for (size_t i = from; i < vn_nout; i++) vn_route(i);
}

static void live(void) {
  livespec_t L;
  long i1;
  size_t mark;
  live_spec(&L);
  world_down();
  hl_reset();
  vn_prng_seed(L.cseq * 31 + L.sseq + 7);
  if (!server_up(&L.s, L.sseq) || !client_up(&L.s, L.cseq)) { puts("NOCTX"); return; }
  i1 = client_send(&L.req);
  if (i1 < 0) { puts("p1=NONE"); return; }
  fputs("p1=", stdout);
  show_full(stdout, vn_out[i1].data, vn_out[i1].len);
  mark = vn_nout;
  vn_route((size_t)i1);          /* server: dispatch, handler, reply logged */
  /* deliver what the server sent (empty ACK and/or response) and what the client then sends
     (ACK of a separate response), twice is enough */
  for (int round = 0; round < 3; round++) {
    size_t end = vn_nout;
    route_from(mark);
    mark = end;
  }
  fflush(hl);
  printf(" app=%s handler=%d responses=%d nacks=%d\n", hl_len ? hl_buf : "-", n_handler, n_response,
         n_nack);
}

/* every flip / truncation of the request datagram at the server */
static void liveflip(void) {
  livespec_t L;
  long i1;
  uint8_t *dg, *mut;
  size_t n, nshown = 0;
  long n_var = 0, n_handler_runs = 0, n_replies = 0;
  int seen_reply[256];
  coap_address_t peer;
  int warm = !strcmp(vtok[0], "liveflipw");
  memset(seen_reply, 0, sizeof(seen_reply));
  live_spec(&L);
  world_down();
  hl_reset();
  vn_prng_seed(L.cseq * 31 + L.sseq + 7);
  if (!server_up(&L.s, L.sseq) || !client_up(&L.s, L.cseq)) { puts("NOCTX"); return; }
  i1 = client_send(&L.req);
  if (i1 < 0) { puts("p1=NONE"); return; }
  n = vn_out[i1].len;
  dg = (uint8_t *)malloc(n);
  memcpy(dg, vn_out[i1].data, n);
  mut = (uint8_t *)malloc(n ? n : 1);
  fputs("p1=", stdout);
  show_full(stdout, dg, n);
  fputs(" ran=", stdout);
  vn_addr4(&peer, 0x0a000001u, 40000);
  for (size_t v = 0; v < 9 * n; v++) {
    size_t len = n;
    size_t before;
    /* fresh server for every variant */
    if (srv) { coap_free_context(srv); srv = NULL; }
    vn_nnodes = 0;
    if (!server_up(&L.s, L.sseq)) { puts("NOCTX"); return; }
    hl_reset();
    if (warm) {
      /* the peer first completes the genuine exchange from this address */
      vn_inject_ep(srv, srv_ep, &peer, NULL, dg, n);
      if (n_handler != 1) { printf("WARMUP-FAILED\n"); return; }
      hl_reset();
    }
    memcpy(mut, dg, n);
    if (v < 8 * n) mut[v / 8] ^= (uint8_t)(0x80u >> (v % 8));
    else len = v - 8 * n;
    before = vn_nout;
    vn_inject_ep(srv, srv_ep, &peer, NULL, mut, len);
    n_var++;
    fflush(hl);
    if (n_handler) {
      n_handler_runs++;
      printf("%s%c%zu:%s", nshown++ ? "|" : "", v < 8 * n ? 'b' : 't', v < 8 * n ? v : v - 8 * n,
             hl_buf);
    }
    for (size_t k = before; k < vn_nout; k++) {
      n_replies++;
      if (vn_out[k].len >= 2) seen_reply[vn_out[k].data[1]] = 1;
    }
    if (vn_nout > 4096) vn_log_reset();
  }
  if (!nshown) fputc('-', stdout);
  printf(" n=%ld handler_runs=%ld replies=%ld codes=", n_var, n_handler_runs, n_replies);
  {
    int first = 1;
    for (int c = 0; c < 256; c++)
      if (seen_reply[c]) { printf("%s%d", first ? "" : ",", c); first = 0; }
    if (first) fputc('-', stdout);
  }
  fputc('\n', stdout);
  free(dg);
  free(mut);
}

/* every flip / truncation of the response datagram at the client: for each variant the whole
 * world is rebuilt, the request travels to the server, the server's datagrams before the
 * response (an empty ACK) are delivered, then the variant of the response */
static void liveflipr(void) {
  livespec_t L;
  uint8_t *dg = NULL, *mut = NULL;
  size_t n = 0, nshown = 0;
  long n_var = 0, n_runs = 0;
  live_spec(&L);
  for (size_t v = 0; dg == NULL || v < 9 * n; v++) {
    long i1;
    size_t first, last, len;
    world_down();
    hl_reset();
    vn_prng_seed(L.cseq * 31 + L.sseq + 7);
    if (!server_up(&L.s, L.sseq) || !client_up(&L.s, L.cseq)) { puts("NOCTX"); return; }
    i1 = client_send(&L.req);
    if (i1 < 0) { puts("p1=NONE"); return; }
    first = vn_nout;
    vn_route((size_t)i1);
    if (vn_nout == first) { puts("p2=NONE"); return; }
    last = vn_nout - 1;                       /* the response is the last thing the server sent */
    for (size_t k = first; k < last; k++) vn_route(k);
    if (dg == NULL) {
      n = vn_out[last].len;
      dg = (uint8_t *)malloc(n ? n : 1);
      memcpy(dg, vn_out[last].data, n);
      mut = (uint8_t *)malloc(n ? n : 1);
      fputs("p2=", stdout);
      show_full(stdout, dg, n);
      fputs(" ran=", stdout);
      if (n == 0) break;
    }
    hl_reset();
    memcpy(mut, dg, n);
    len = n;
    if (v < 8 * n) mut[v / 8] ^= (uint8_t)(0x80u >> (v % 8));
    else len = v - 8 * n;
    vn_inject_session(cli, cli_sess, mut, len);
    n_var++;
    fflush(hl);
    if (n_response) {
      n_runs++;
      printf("%s%c%zu:%s", nshown++ ? "|" : "", v < 8 * n ? 'b' : 't', v < 8 * n ? v : v - 8 * n,
             hl_buf);
    }
  }
  if (!nshown) fputc('-', stdout);
  printf(" n=%ld handler_runs=%ld\n", n_var, n_runs);
  free(dg);
  free(mut);
}

/* ---- Observe over time: liveobs <secret> <salt> <idctx> <cid> <sid> <type> <token> <cseq> <sseq> <n>
 * an observable resource "obs"; the client registers, the server changes the resource n times.
 * Printed: every datagram of the server that carries the OSCORE option (in order) and what the
 * client's response handler saw. */
static int obs_counter = 0;

static void on_obs_get(coap_resource_t *r, coap_session_t *s, const coap_pdu_t *req,
                       const coap_string_t *q, coap_pdu_t *resp) {
  char buf[16];
  (void)r; (void)s; (void)req; (void)q;
  n_handler++;
  coap_pdu_set_code(resp, COAP_RESPONSE_CODE_CONTENT);
  snprintf(buf, sizeof(buf), "v%d", obs_counter);
  coap_add_data(resp, strlen(buf), (const uint8_t *)buf);
}

static void liveobs(void) {
  secspec_t s = { vtok[1], vtok[2], vtok[3], vtok[4], vtok[5] };
  int type = atoi(vtok[6]);
  const char *token = vtok[7];
  uint64_t cseq = strtoull(vtok[8], NULL, 10), sseq = strtoull(vtok[9], NULL, 10);
  int n = atoi(vtok[10]);
  coap_oscore_conf_t *oc;
  coap_resource_t *r;
  coap_pdu_t *pdu;
  size_t tl, mark, shown = 0;
  uint8_t *tb;
  world_down();
  hl_reset();
  obs_counter = 0;
  vn_prng_seed(cseq * 31 + sseq + 11);
  srv = coap_new_context(NULL);
  srv_ep = srv ? vn_new_server_ep(srv) : NULL;
  oc = make_conf(&s, s.sid, s.cid, sseq);
  if (!srv_ep || !oc || !coap_context_oscore_server(srv, oc)) { puts("NOCTX"); return; }
  r = coap_resource_init(coap_make_str_const("obs"), COAP_RESOURCE_FLAGS_OSCORE_ONLY);
  coap_register_request_handler(r, COAP_REQUEST_GET, on_obs_get);
  coap_resource_set_get_observable(r, 1);
  coap_add_resource(srv, r);
  if (!client_up(&s, cseq)) { puts("NOCTX"); return; }
  pdu = coap_pdu_init((coap_pdu_type_t)type, COAP_REQUEST_CODE_GET, 77,
                      coap_session_max_pdu_size(cli_sess));
  tb = bytes_of_tok(token, &tl);
  coap_add_token(pdu, tl, tb);
  free(tb);
  coap_add_option(pdu, COAP_OPTION_OBSERVE, 0, NULL);
  coap_add_option(pdu, COAP_OPTION_URI_PATH, 3, (const uint8_t *)"obs");
  mark = vn_nout;
  if (coap_send(cli_sess, pdu) == COAP_INVALID_MID) { puts("p1=NONE"); return; }
  fputs("dgrams=", stdout);
  for (int step = 0; step <= n; step++) {
    if (step > 0) {
      obs_counter++;
      coap_resource_notify_observers(r, NULL);
      vn_advance(1000);
      vn_prepare(srv);
    }
    /* deliver everything in flight, both directions, until quiet */
    for (int round = 0; round < 6 && mark < vn_nout; round++) {
      size_t end = vn_nout;
      for (size_t i = mark; i < end; i++) {
        if (vn_out[i].ctx == srv && vn_out[i].len > 4 && vn_out[i].data[1] != 0) {
          printf("%s", shown++ ? "," : "");
          show_full(stdout, vn_out[i].data, vn_out[i].len);
        }
        vn_route(i);
      }
      mark = end;
    }
  }
  fflush(hl);
  printf(" app=%s responses=%d\n", hl_len ? hl_buf : "-", n_response);
}

int main(void) {
  coap_startup();
  coap_set_log_level(getenv("VLOG") ? COAP_LOG_OSCORE : COAP_LOG_EMERG);
  while (next_case(stdin)) {
    if (vntok == 0) { fputc('\n', stdout); continue; }
    if (!strcmp(vtok[0], "live")) live();
    else if (!strcmp(vtok[0], "liveflip") || !strcmp(vtok[0], "liveflipw")) liveflip();
    else if (!strcmp(vtok[0], "liveflipr")) liveflipr();
    else if (!strcmp(vtok[0], "liveobs")) liveobs();
    else puts("ERROR unknown command");
    fflush(stdout);
  }
  world_down();
  return 0;
}

/* C17 driver: the persistence code of src/coap_subscribe.c run for real - in scratch
 * directories, inside forked server processes that are killed at a chosen stdio call.
 *
 * Case line (same line goes to ocaml/d_persist.ml):
 *   c17 <mode> <buf> <freq> <cfg> <port> <la> <lt> <listen> <proto> <ntup> <tuple>*ntup <event>*
 *     mode  T: run the history, print traces      E: additionally kill the last process before
 *           each of its stdio calls (and at its end), print the files left behind and what a
 *           fresh process restores from them
 *     buf   L | E | D   stdio buffering of the write streams (see common/ps_stdio.h)
 *     freq  save_freq given to coap_persist_startup
 *     cfg   three characters, 'd' 'o' 'c' or '-': which files are given to coap_persist_startup
 *           (a 4th character 'u' = no unknown-resource handler is registered; a 5th character
 *           selects resource flags the application may use and that must not matter here:
 *           'w' unknown resource with COAP_RESOURCE_HANDLE_WELLKNOWN_CORE, 'm' every resource
 *           with multicast support flags, 'f' every resource with FORCE_SINGLE_BODY, 'a' all)
 *     port  UDP port of the server endpoint on 127.0.0.1
 *     la lt listen proto tuples: the memory images the model needs (sizeof coap_address_t,
 *           sizeof coap_addr_tuple_t, bind address, COAP_PROTO_UDP, session address tuple of
 *           client i); produced by the "layout" command, checked here against the real ones
 *   events
 *     I <client> <datagram>     datagram from client i (127.0.0.1:41000+i) through the real
 *                               receive path (PUT to an unknown path creates a resource, DELETE
 *                               removes it, GET Observe:0/1 registers/cancels)
 *     N <name>                  coap_resource_notify_observers + coap_check_notify
 *     X <k>                     this process dies after k stdio calls (-1: after its last event);
 *                               what follows runs in a fresh process on the same directory
 *     UA <key> <tuple> <pkt> <osc|~>   direct call of coap_op_observe_added
 *     UD <key>                         coap_op_observe_deleted
 *     UT <name> <value>                coap_op_obs_cnt_track_observe
 *     UC <name>                        coap_op_obs_cnt_deleted
 *     UR <name> <pkt>                  coap_op_dyn_resource_added
 *     UO <proto> <key> <tuple> <pkt> <osc|~>  coap_op_observe_added for a session of that transport
 *     UP <proto> <name> <pkt>          coap_op_dyn_resource_added from a session of that transport
 *                                      (coap_proto_t as a number; UA / UR = COAP_PROTO_UDP)
 *     UX <name>                        coap_op_resource_deleted
 *     W <file> <bytes>          (between processes only) overwrite a persistence file
 *   Static resources "s0" and "s1" (observable) exist before coap_persist_startup.
 *   Resources created by the unknown-resource PUT handler are observable unless their name
 *   starts with 'x'.
 *
 * Output: one line, fields separated by blanks:
 *   seg<i>=<n>|<trace>|<sends>|<bounds>|<dump>   per process: number of stdio calls, their log,
 *                                   2.05+Observe messages sent, calls completed after startup
 *                                   and after each event, resources/observers after startup
 *   crash=<sid>,<sid>,...           (mode E) state id left by a kill after k calls, k = 0..n
 *   st<sid>=<files>                 the six files of that state
 *   rs<sid>=<restart dump>          what a fresh process restores from state sid
 */
#include "coap3/coap_libcoap_build.h"
#include "common/util.h"
#include "common/vnet.h"
#include "common/ps_stdio.h"
#include <sys/wait.h>
#include <sys/mman.h>
#include <sys/stat.h>
#include <fcntl.h>
#include <dirent.h>

#include "coap_subscribe.c"

/* ------------------------------------------------------------------ deterministic keys */
/* The key of an observe record is the address of the coap_subscription_t.  Subscriptions are
 * served from an arena at a fixed address, lowest free slot first, so that the key of every
 * subscription is a function of the history (the model uses the same rule). */
#define ARENA_BASE 0x7e0000000000ULL
#define ARENA_SLOT 512
#define ARENA_N 2048
static uint8_t arena_used[ARENA_N];
void *__real_coap_malloc_type(coap_memory_tag_t type, size_t size);
void __real_coap_free_type(coap_memory_tag_t type, void *p);

void *__wrap_coap_malloc_type(coap_memory_tag_t type, size_t size) {
  if (type == COAP_SUBSCRIPTION && size <= ARENA_SLOT) {
    for (int i = 0; i < ARENA_N; i++)
      if (!arena_used[i]) {
        arena_used[i] = 1;
        return (void *)(uintptr_t)(ARENA_BASE + (uint64_t)i * ARENA_SLOT);
      }
    return NULL;
  }
  return __real_coap_malloc_type(type, size);
}

void __wrap_coap_free_type(coap_memory_tag_t type, void *p) {
  uint64_t a = (uint64_t)(uintptr_t)p;
  if (a >= ARENA_BASE && a < ARENA_BASE + (uint64_t)ARENA_N * ARENA_SLOT) {
    arena_used[(a - ARENA_BASE) / ARENA_SLOT] = 0;
    return;
  }
  __real_coap_free_type(type, p);
}

/* ------------------------------------------------------------------ case */
typedef struct {
  char kind[3];
  int client;
  long k;
  int proto;
  uint8_t *a, *b, *c, *d;
  size_t na, nb, nc, nd;
  int d_absent;
} event_t;

static struct {
  int mode, buf, freq, port;
  char cfg[8];
  event_t *ev;
  int nev;
} cs;

static coap_address_t g_listen, g_client[8];
static char g_root[400];
static int g_seq = 0;

static void mk_addrs(int port) {
  vn_addr4(&g_listen, VN_LOOPBACK, (uint16_t)port);
  for (int i = 0; i < 8; i++) vn_addr4(&g_client[i], VN_LOOPBACK, (uint16_t)(41000 + i));
}

static void tuple_of(int client, coap_addr_tuple_t *t) {
  memset(t, 0, sizeof(*t));
  memcpy(&t->remote, &g_client[client], sizeof(coap_address_t));
  memcpy(&t->local, &g_listen, sizeof(coap_address_t));
}

/* ------------------------------------------------------------------ output buffer */
typedef struct { char *s; size_t n, cap; } sbuf;
static void sb_add(sbuf *b, const char *fmt, ...) {
  va_list ap;
  if (!b->s) { b->cap = 1 << 10; b->s = (char *)malloc(b->cap); b->s[0] = 0; b->n = 0; }
  for (;;) {
    va_start(ap, fmt);
    int n = vsnprintf(b->s + b->n, b->cap - b->n, fmt, ap);
    va_end(ap);
    if (n >= 0 && (size_t)n < b->cap - b->n) { b->n += (size_t)n; return; }
    b->cap = b->cap ? b->cap * 2 : 1 << 14;
    b->s = (char *)realloc(b->s, b->cap);
  }
}
static void sb_hex(sbuf *b, const uint8_t *p, size_t n) {
  if (n == 0) { sb_add(b, "-"); return; }
  for (size_t i = 0; i < n; i++) sb_add(b, "%02x", p[i]);
}

/* ------------------------------------------------------------------ server side */
static coap_context_t *g_ctx;
static coap_endpoint_t *g_ep;
static sbuf g_sends, g_bounds, g_startdump;
static size_t g_seen_out = 0;

static void hnd_get(coap_resource_t *r, coap_session_t *s, const coap_pdu_t *req,
                    const coap_string_t *q, coap_pdu_t *resp) {
  (void)r; (void)s; (void)req; (void)q;
  coap_pdu_set_code(resp, COAP_RESPONSE_CODE_CONTENT);
  coap_add_data(resp, 2, (const uint8_t *)"ok");
}
static void hnd_put(coap_resource_t *r, coap_session_t *s, const coap_pdu_t *req,
                    const coap_string_t *q, coap_pdu_t *resp) {
  (void)r; (void)s; (void)req; (void)q;
  coap_pdu_set_code(resp, COAP_RESPONSE_CODE_CHANGED);
}
static void hnd_delete(coap_resource_t *r, coap_session_t *s, const coap_pdu_t *req,
                       const coap_string_t *q, coap_pdu_t *resp) {
  (void)s; (void)req; (void)q;
  coap_delete_resource(NULL, r);
  coap_pdu_set_code(resp, COAP_RESPONSE_CODE_DELETED);
}
static void add_handlers(coap_resource_t *r) {
  coap_register_request_handler(r, COAP_REQUEST_GET, hnd_get);
  coap_register_request_handler(r, COAP_REQUEST_PUT, hnd_put);
  coap_register_request_handler(r, COAP_REQUEST_DELETE, hnd_delete);
}
/* resource flags of the configuration (5th character of cfg) */
static int extra_flags(int unknown) {
  char f = cs.cfg[3] ? cs.cfg[4] : 0;
  int fl = 0;
  if (unknown && (f == 'w' || f == 'a')) fl |= COAP_RESOURCE_HANDLE_WELLKNOWN_CORE;
  if (f == 'm' || f == 'a') fl |= COAP_RESOURCE_FLAGS_HAS_MCAST_SUPPORT | COAP_RESOURCE_FLAGS_LIB_DIS_MCAST_DELAYS;
  if (f == 'f' || f == 'a') fl |= COAP_RESOURCE_FLAGS_FORCE_SINGLE_BODY;
  return fl;
}
/* the application's handler for unknown resources: PUT creates the resource */
static void hnd_put_unknown(coap_resource_t *r, coap_session_t *s, const coap_pdu_t *req,
                            const coap_string_t *q, coap_pdu_t *resp) {
  (void)r; (void)s; (void)q;
  coap_string_t *path = coap_get_uri_path(req);
  if (!path) { coap_pdu_set_code(resp, COAP_RESPONSE_CODE_BAD_REQUEST); return; }
  coap_resource_t *n = coap_resource_init((coap_str_const_t *)path,
                                          COAP_RESOURCE_FLAGS_RELEASE_URI |
                                          COAP_RESOURCE_FLAGS_NOTIFY_NON_ALWAYS | extra_flags(0));
  add_handlers(n);
  if (!(path->length > 0 && path->s[0] == 'x')) coap_resource_set_get_observable(n, 1);
  coap_add_resource(g_ctx, n);
  coap_pdu_set_code(resp, COAP_RESPONSE_CODE_CREATED);
}

static char *path_of(const char *name) {
  static char buf[8][700];
  static int i = 0;
  i = (i + 1) & 7;
  snprintf(buf[i], sizeof(buf[i]), "%s/%s", ps_dir, name);
  return buf[i];
}

/* every 2.05 with an Observe option that left the server since the last call:
 * <client>/<token>/<value>@<stdio calls completed>#<index of the event> */
static void collect_sends(int ev) {
  for (; g_seen_out < vn_nout; g_seen_out++) {
    vn_dgram_t *d = &vn_out[g_seen_out];
    if (d->len < 4 || d->data[1] != 69) continue;
    size_t tkl = d->data[0] & 15, p = 4 + tkl;
    if (tkl > 8 || p > d->len) continue;
    unsigned num = 0;
    while (p < d->len && d->data[p] != 0xff) {
      unsigned dl = d->data[p] >> 4, ln = d->data[p] & 15;
      p++;
      if (dl == 13) dl = 13 + d->data[p++];
      else if (dl == 14) { dl = 269 + (d->data[p] << 8) + d->data[p + 1]; p += 2; }
      if (ln == 13) ln = 13 + d->data[p++];
      else if (ln == 14) { ln = 269 + (d->data[p] << 8) + d->data[p + 1]; p += 2; }
      num += dl;
      if (num == COAP_OPTION_OBSERVE) {
        unsigned v = 0;
        for (unsigned i = 0; i < ln; i++) v = (v << 8) | d->data[p + i];
        if (g_sends.n) sb_add(&g_sends, ",");
        sb_add(&g_sends, "%d/", (int)ntohs(d->dst.addr.sin.sin_port) - 41000);
        sb_hex(&g_sends, d->data + 4, tkl);
        sb_add(&g_sends, "/%u@%ld#%d", v, ps_opcount, ev);
      }
      p += ln;
    }
  }
}

static void server_start(void) {
  coap_startup();
  coap_set_log_level(COAP_LOG_EMERG);
  vn_prng_seed(1);
  g_ctx = coap_new_context(NULL);
  coap_context_set_block_mode(g_ctx, 0);
  g_ep = coap_new_endpoint(g_ctx, &g_listen, COAP_PROTO_UDP);
  if (!g_ctx || !g_ep) {
    /* cannot bind: report as a driver problem, never as a result */
    if (ps_log_fd >= 0) { const char *m = "NOBIND"; (void)!write(ps_log_fd, m, 6); }
    _exit(3);
  }
  vn_register_ep(g_ctx, g_ep);
  for (int i = 0; i < 2; i++) {
    coap_resource_t *r = coap_resource_init(coap_make_str_const(i ? "s1" : "s0"),
                                            COAP_RESOURCE_FLAGS_NOTIFY_NON_ALWAYS | extra_flags(0));
    add_handlers(r);
    coap_resource_set_get_observable(r, 1);
    coap_add_resource(g_ctx, r);
  }
  if (cs.cfg[3] != 'u') {
    coap_resource_t *u = coap_resource_unknown_init2(hnd_put_unknown, extra_flags(1));
    coap_add_resource(g_ctx, u);
  }
  coap_persist_startup(g_ctx, cs.cfg[0] == 'd' ? path_of("dyn") : NULL,
                       cs.cfg[1] == 'o' ? path_of("obs") : NULL,
                       cs.cfg[2] == 'c' ? path_of("cnt") : NULL, (uint32_t)cs.freq);
}

static int g_cur_ev = -1;
static void do_event(event_t *e) {
  if (e->kind[0] == 'I') {
    vn_inject_ep(g_ctx, g_ep, &g_client[e->client & 7], NULL, e->a, e->na);
  } else if (e->kind[0] == 'N') {
    coap_str_const_t n = {e->na, e->a};
    coap_resource_t *r = coap_get_resource_from_uri_path(g_ctx, &n);
    if (r) {
      coap_resource_notify_observers(r, NULL);
      coap_check_notify(g_ctx);
    }
  } else if (e->kind[0] == 'U') {
    coap_session_t fs;
    coap_str_const_t name = {e->na, e->a};
    memset(&fs, 0, sizeof(fs));
    fs.context = g_ctx;
    fs.proto = (e->kind[1] == 'A' || e->kind[1] == 'R') ? (coap_proto_t)e->proto : COAP_PROTO_UDP;
    coap_lock_lock(g_ctx, return);
    switch (e->kind[1]) {
    case 'A': {
      coap_subscription_t *key = NULL;
      coap_addr_tuple_t t;
      coap_bin_const_t pkt = {e->nc, e->c}, osc = {e->nd, e->d};
      memcpy(&key, e->a, e->na < sizeof(key) ? e->na : sizeof(key));
      memset(&t, 0, sizeof(t));
      memcpy(&t, e->b, e->nb < sizeof(t) ? e->nb : sizeof(t));
      coap_op_observe_added(&fs, key, fs.proto, &g_listen, &t, &pkt,
                            e->d_absent ? NULL : &osc, NULL);
      break;
    }
    case 'D': {
      coap_subscription_t *key = NULL;
      memcpy(&key, e->a, e->na < sizeof(key) ? e->na : sizeof(key));
      coap_op_observe_deleted(&fs, key, NULL);
      break;
    }
    case 'T':
      coap_op_obs_cnt_track_observe(g_ctx, &name, (uint32_t)e->k, NULL);
      break;
    case 'C':
      coap_op_obs_cnt_deleted(g_ctx, &name);
      break;
    case 'R': {
      coap_bin_const_t pkt = {e->nb, e->b};
      coap_op_dyn_resource_added(&fs, &name, &pkt, NULL);
      break;
    }
    case 'X':
      coap_op_resource_deleted(g_ctx, &name, NULL);
      break;
    }
    coap_lock_unlock(g_ctx);
  }
  collect_sends(g_cur_ev);
}

/* names hex, lexicographic */
static int cmp_str(const void *a, const void *b) {
  return strcmp(*(const char *const *)a, *(const char *const *)b);
}

static void dump_resources(sbuf *o) {
  char *lines[512];
  int n = 0;
  RESOURCES_ITER(g_ctx->resources, r) {
    sbuf b = {0, 0, 0};
    sb_hex(&b, r->uri_path->s, r->uri_path->length);
    sb_add(&b, ":%d:%u:", r->observable ? 1 : 0, (unsigned)r->observe);
    coap_subscription_t *s;
    int k = 0;
    LL_FOREACH(r->subscribers, s) {
      if (k++) sb_add(&b, "+");
      sb_add(&b, "%d/", (int)ntohs(s->session->addr_info.remote.addr.sin.sin_port) - 41000);
      sb_hex(&b, s->pdu->actual_token.s, s->pdu->actual_token.length);
      sb_add(&b, "/%llx", (unsigned long long)(uintptr_t)s);
    }
    if (!k) sb_add(&b, "-");
    if (n < 512) lines[n++] = b.s;
  }
  qsort(lines, (size_t)n, sizeof(char *), cmp_str);
  for (int i = 0; i < n; i++) sb_add(o, "%s%s", i ? "|" : "", lines[i]);
  if (!n) sb_add(o, "-");
}

/* ------------------------------------------------------------------ files */
static int read_file(const char *path, uint8_t **out, size_t *len) {
  int fd = open(path, O_RDONLY);
  if (fd < 0) return 0;
  size_t cap = 1 << 12, n = 0;
  uint8_t *b = (uint8_t *)malloc(cap);
  for (;;) {
    if (n == cap) { cap *= 2; b = (uint8_t *)realloc(b, cap); }
    ssize_t r = read(fd, b + n, cap - n);
    if (r <= 0) break;
    n += (size_t)r;
  }
  close(fd);
  *out = b;
  *len = n;
  return 1;
}

static void write_file(const char *path, const uint8_t *b, size_t n) {
  int fd = open(path, O_WRONLY | O_CREAT | O_TRUNC, 0644);
  if (fd < 0) return;
  size_t off = 0;
  while (off < n) {
    ssize_t w = write(fd, b + off, n - off);
    if (w <= 0) break;
    off += (size_t)w;
  }
  close(fd);
}

static void files_text(const char *dir, sbuf *o, int nfiles) {
  for (int i = 0; i < nfiles; i++) {
    char p[700];
    uint8_t *b;
    size_t n;
    snprintf(p, sizeof(p), "%s/%s", dir, ps_fnames[i]);
    sb_add(o, "%s%c=", i ? "," : "", ps_fcodes[i]);
    if (read_file(p, &b, &n)) { sb_hex(o, b, n); free(b); }
    else sb_add(o, "~");
  }
}

static void rm_dir(const char *dir) {
  DIR *d = opendir(dir);
  if (d) {
    struct dirent *e;
    while ((e = readdir(d))) {
      if (e->d_name[0] == '.') continue;
      char p[800];
      snprintf(p, sizeof(p), "%s/%s", dir, e->d_name);
      unlink(p);
    }
    closedir(d);
  }
  rmdir(dir);
}

static void copy_dir(const char *from, const char *to) {
  mkdir(to, 0755);
  for (int i = 0; i < 6; i++) {
    char a[700], b[700];
    uint8_t *d;
    size_t n;
    snprintf(a, sizeof(a), "%s/%s", from, ps_fnames[i]);
    snprintf(b, sizeof(b), "%s/%s", to, ps_fnames[i]);
    if (read_file(a, &d, &n)) { write_file(b, d, n); free(d); }
  }
}

static void fresh_dir(char *out, size_t cap) {
  snprintf(out, cap, "%s/d%d", g_root, g_seq++);
  rm_dir(out);
  mkdir(out, 0755);
}

/* ------------------------------------------------------------------ processes */
static char *slurp_fd(int fd) {
  size_t cap = 1 << 14, n = 0;
  char *b = (char *)malloc(cap);
  for (;;) {
    if (n + 1 >= cap) { cap *= 2; b = (char *)realloc(b, cap); }
    ssize_t r = read(fd, b + n, cap - n - 1);
    if (r <= 0) break;
    n += (size_t)r;
  }
  b[n] = 0;
  return b;
}

static int g_die_fd = -1;
static void on_death(void) {
  collect_sends(g_cur_ev);
  sbuf o = {0, 0, 0};
  if (ps_log) ps_log[ps_log_len] = 0;
  sb_add(&o, "%ld|%s|%s|%s|%s", ps_opcount, ps_log_len ? ps_log : "-", g_sends.n ? g_sends.s : "-",
         g_bounds.n ? g_bounds.s : "-", g_startdump.n ? g_startdump.s : "-");
  (void)!write(g_die_fd, o.s, o.n);
}

/* run one process; returns its report (malloc'ed) or NULL when not logging */
static char *run_process_once(const char *dir, int from, int to, long die_at, int want_log,
                              int *env_failure);

/* a child that could not even create its context / bind its endpoint (exit code 3, nothing of
 * the persistence code has run yet) is an accident of the machine, not a result: try again */
static char *run_process(const char *dir, int from, int to, long die_at, int want_log) {
  char *rep = NULL;
  for (int attempt = 0; attempt < 6; attempt++) {
    int envf = 0;
    rep = run_process_once(dir, from, to, die_at, want_log, &envf);
    if (!envf) break;
    if (attempt < 5) { free(rep); rep = NULL; usleep(50000 * (attempt + 1)); }
  }
  return rep;
}

static char *run_process_once(const char *dir, int from, int to, long die_at, int want_log,
                              int *env_failure) {
  int pfd[2] = {-1, -1};
  if (want_log && pipe(pfd) != 0) return NULL;
  fflush(stdout);
  pid_t pid = fork();
  if (pid == 0) {
    if (want_log) {
      close(pfd[0]);
      g_die_fd = pfd[1];
    }
    ps_reset(dir, cs.buf, die_at, want_log, -1);
    ps_before_death = want_log ? on_death : NULL;
    g_sends.n = 0;
    g_bounds.n = 0;
    g_startdump.n = 0;
    g_seen_out = 0;
    g_cur_ev = -1;
    server_start();
    collect_sends(-1);
    if (want_log) {
      dump_resources(&g_startdump);
      sb_add(&g_bounds, "%ld", ps_opcount);
    }
    for (int i = from; i < to; i++) {
      g_cur_ev = i - from;
      do_event(&cs.ev[i]);
      if (want_log) sb_add(&g_bounds, ",%ld", ps_opcount);
    }
    if (want_log) on_death();
    _exit(0);
  }
  char *rep = NULL;
  if (want_log) {
    close(pfd[1]);
    rep = slurp_fd(pfd[0]);
    close(pfd[0]);
  }
  int st;
  waitpid(pid, &st, 0);
  *env_failure = WIFEXITED(st) && WEXITSTATUS(st) == 3;
  if (want_log && (!rep || !rep[0])) {
    free(rep);
    rep = (char *)malloc(64);
    snprintf(rep, 64, "CHILD-FAILED-%d", WIFEXITED(st) ? WEXITSTATUS(st) : -WTERMSIG(st));
  } else if (!(WIFEXITED(st) && (WEXITSTATUS(st) == 0 || WEXITSTATUS(st) == 77))) {
    char *r2 = (char *)malloc((rep ? strlen(rep) : 0) + 64);
    sprintf(r2, "CHILD-FAILED-%d:%s", WIFEXITED(st) ? WEXITSTATUS(st) : -WTERMSIG(st),
            rep ? rep : "");
    free(rep);
    rep = r2;
  }
  return rep;
}

/* a fresh process on a copy of dir: startup, dump, notify everything; returns the dump */
static char *run_restart_dump_once(const char *dir, int *env_failure);
static char *run_restart_dump(const char *dir) {
  char *rep = NULL;
  for (int attempt = 0; attempt < 6; attempt++) {
    int envf = 0;
    rep = run_restart_dump_once(dir, &envf);
    if (!envf) break;
    if (attempt < 5) { free(rep); rep = NULL; usleep(50000 * (attempt + 1)); }
  }
  return rep;
}

static char *run_restart_dump_once(const char *dir, int *env_failure) {
  char tmp[500];
  fresh_dir(tmp, sizeof(tmp));
  copy_dir(dir, tmp);
  int pfd[2];
  if (pipe(pfd) != 0) return NULL;
  fflush(stdout);
  pid_t pid = fork();
  if (pid == 0) {
    close(pfd[0]);
    ps_reset(tmp, cs.buf, -1, 1, -1);
    g_sends.n = 0;
    g_seen_out = 0;
    server_start();
    collect_sends(-1);
    sbuf o = {0, 0, 0};
    sb_add(&o, "%ld;", ps_opcount);
    if (ps_log) ps_log[ps_log_len] = 0;
    sb_add(&o, "%s;", ps_log_len ? ps_log : "-");
    dump_resources(&o);
    sb_add(&o, ";");
    files_text(tmp, &o, 3);
    /* next Observe value of every resource that has observers */
    char *names[512];
    int n = 0;
    RESOURCES_ITER(g_ctx->resources, r) {
      if (r->subscribers && n < 512) {
        sbuf b = {0, 0, 0};
        sb_hex(&b, r->uri_path->s, r->uri_path->length);
        names[n++] = b.s;
      }
    }
    qsort(names, (size_t)n, sizeof(char *), cmp_str);
    for (int i = 0; i < n; i++) {
      size_t l;
      uint8_t *nm = bytes_of_tok(names[i], &l);
      coap_str_const_t sn = {l, nm};
      coap_resource_t *r = coap_get_resource_from_uri_path(g_ctx, &sn);
      if (r) {
        coap_resource_notify_observers(r, NULL);
        coap_check_notify(g_ctx);
      }
      collect_sends(i);
    }
    sb_add(&o, ";%s", g_sends.n ? g_sends.s : "-");
    (void)!write(pfd[1], o.s, o.n);
    _exit(0);
  }
  close(pfd[1]);
  char *rep = slurp_fd(pfd[0]);
  close(pfd[0]);
  int st;
  waitpid(pid, &st, 0);
  *env_failure = WIFEXITED(st) && WEXITSTATUS(st) == 3;
  if (!(WIFEXITED(st) && WEXITSTATUS(st) == 0)) {
    char *r2 = (char *)malloc(strlen(rep) + 64);
    sprintf(r2, "CHILD-FAILED-%d:%s", WIFEXITED(st) ? WEXITSTATUS(st) : -WTERMSIG(st), rep);
    free(rep);
    rep = r2;
  }
  rm_dir(tmp);
  return rep;
}

/* ------------------------------------------------------------------ one case */
/* bytes of token i, followed by a NUL that is not counted (resource names are C strings in
 * the library: coap_new_str_const / string literals) */
static uint8_t *tokb(int i, size_t *n) {
  if (i >= vntok) { *n = 0; return (uint8_t *)calloc(1, 1); }
  uint8_t *b = bytes_of_tok(vtok[i], n);
  b = (uint8_t *)realloc(b, *n + 1);
  b[*n] = 0;
  return b;
}

static int parse_case(void) {
  if (vntok < 11) return 0;
  cs.mode = vtok[1][0];
  cs.buf = vtok[2][0];
  cs.freq = atoi(vtok[3]);
  memset(cs.cfg, 0, sizeof(cs.cfg));
  strncpy(cs.cfg, vtok[4], 5);
  cs.port = atoi(vtok[5]);
  mk_addrs(cs.port);
  int ntup = atoi(vtok[10]);
  /* layout check */
  {
    size_t n;
    uint8_t *b = tokb(8, &n);
    coap_proto_t pr = COAP_PROTO_UDP;
    int ok = atoi(vtok[6]) == (int)sizeof(coap_address_t) &&
             atoi(vtok[7]) == (int)sizeof(coap_addr_tuple_t) &&
             n == sizeof(coap_address_t) && memcmp(b, &g_listen, n) == 0;
    free(b);
    b = tokb(9, &n);
    ok = ok && n == sizeof(pr) && memcmp(b, &pr, n) == 0;
    free(b);
    for (int i = 0; i < ntup && i < 8 && ok; i++) {
      coap_addr_tuple_t t;
      tuple_of(i, &t);
      b = tokb(11 + i, &n);
      ok = n == sizeof(t) && memcmp(b, &t, n) == 0;
      free(b);
    }
    if (!ok) return -1;
  }
  int i = 11 + ntup;
  cs.ev = (event_t *)calloc((size_t)vntok, sizeof(event_t));
  cs.nev = 0;
  while (i < vntok) {
    event_t *e = &cs.ev[cs.nev++];
    strncpy(e->kind, vtok[i], 2);
    e->proto = COAP_PROTO_UDP;
    if (!strcmp(vtok[i], "UO") || !strcmp(vtok[i], "UP")) {
      /* the same calls as UA / UR with the transport as first argument */
      if (i + 1 >= vntok) return 0;
      e->proto = atoi(vtok[i + 1]);
      e->kind[1] = vtok[i][1] == 'O' ? 'A' : 'R';
      vtok[i + 1] = e->kind[1] == 'A' ? (char *)"UA" : (char *)"UR";
      i += 1;
    }
    if (!strcmp(vtok[i], "I")) { e->client = atoi(vtok[i + 1]); e->a = tokb(i + 2, &e->na); i += 3; }
    else if (!strcmp(vtok[i], "N")) { e->a = tokb(i + 1, &e->na); i += 2; }
    else if (!strcmp(vtok[i], "X")) { e->k = atol(vtok[i + 1]); i += 2; }
    else if (!strcmp(vtok[i], "W")) { e->client = vtok[i + 1][0]; e->a = tokb(i + 2, &e->na); i += 3; }
    else if (!strcmp(vtok[i], "UA")) {
      e->a = tokb(i + 1, &e->na); e->b = tokb(i + 2, &e->nb); e->c = tokb(i + 3, &e->nc);
      e->d_absent = (i + 4 < vntok && !strcmp(vtok[i + 4], "~"));
      e->d = e->d_absent ? (uint8_t *)calloc(1, 1) : tokb(i + 4, &e->nd);
      i += 5;
    }
    else if (!strcmp(vtok[i], "UD")) { e->a = tokb(i + 1, &e->na); i += 2; }
    else if (!strcmp(vtok[i], "UT")) { e->a = tokb(i + 1, &e->na); e->k = atol(vtok[i + 2]); i += 3; }
    else if (!strcmp(vtok[i], "UC")) { e->a = tokb(i + 1, &e->na); i += 2; }
    else if (!strcmp(vtok[i], "UR")) { e->a = tokb(i + 1, &e->na); e->b = tokb(i + 2, &e->nb); i += 3; }
    else if (!strcmp(vtok[i], "UX")) { e->a = tokb(i + 1, &e->na); i += 2; }
    else return 0;
  }
  return 1;
}

static void free_case(void) {
  for (int i = 0; i < cs.nev; i++) { free(cs.ev[i].a); free(cs.ev[i].b); free(cs.ev[i].c); free(cs.ev[i].d); }
  free(cs.ev);
  cs.ev = NULL;
}

static void run_case(void) {
  int pc = parse_case();
  if (pc == 0) { puts("BADCASE"); return; }
  if (pc < 0) { puts("LAYOUT-MISMATCH"); return; }
  char dir[500];
  fresh_dir(dir, sizeof(dir));
  int from = 0, seg = 0;
  sbuf out = {0, 0, 0};
  /* all processes but the last */
  for (int i = 0; i <= cs.nev; i++) {
    if (i < cs.nev && cs.ev[i].kind[0] == 'W') {
      char p[700];
      const char *nm = cs.ev[i].client == 'd' ? "dyn" : cs.ev[i].client == 'o' ? "obs" : "cnt";
      snprintf(p, sizeof(p), "%s/%s", dir, nm);
      write_file(p, cs.ev[i].a, cs.ev[i].na);
      from = i + 1;
      continue;
    }
    if (i < cs.nev && cs.ev[i].kind[0] != 'X') continue;
    if (i < cs.nev) {
      char *rep = run_process(dir, from, i, cs.ev[i].k, 1);
      sb_add(&out, "%sseg%d=%s", seg ? " " : "", seg, rep ? rep : "?");
      free(rep);
      seg++;
      from = i + 1;
      continue;
    }
    /* the last process */
    char dir0[500];
    fresh_dir(dir0, sizeof(dir0));
    copy_dir(dir, dir0);
    char *rep = run_process(dir, from, cs.nev, -1, 1);
    long n = rep ? atol(rep) : 0;
    int failed = !rep || !strncmp(rep, "CHILD", 5);
    sb_add(&out, "%sseg%d=%s", seg ? " " : "", seg, rep ? rep : "?");
    free(rep);
    if (cs.mode == 'E' && !failed) {
      char **texts = (char **)calloc((size_t)n + 2, sizeof(char *));
      int ntexts = 0;
      sbuf crash = {0, 0, 0}, extra = {0, 0, 0};
      for (long k = 0; k <= n; k++) {
        char dk[500];
        fresh_dir(dk, sizeof(dk));
        copy_dir(dir0, dk);
        char *r = run_process(dk, from, cs.nev, k, 0);
        sbuf t = {0, 0, 0};
        if (r) { sb_add(&t, "%s:", r); free(r); }     /* only set when the child failed */
        files_text(dk, &t, cs.buf == 'D' ? 3 : 6);
        int sid = -1;
        for (int q = 0; q < ntexts; q++)
          if (!strcmp(texts[q], t.s)) { sid = q; break; }
        if (sid < 0) {
          sid = ntexts;
          texts[ntexts++] = t.s;
          char *rd = run_restart_dump(dk);
          sb_add(&extra, " st%d=%s rs%d=%s", sid, t.s, sid, rd ? rd : "?");
          free(rd);
        } else {
          free(t.s);
        }
        sb_add(&crash, "%s%d", k ? "," : "", sid);
        rm_dir(dk);
      }
      sb_add(&out, " crash=%s%s", crash.s, extra.s ? extra.s : "");
      for (int q = 0; q < ntexts; q++) free(texts[q]);
      free(texts);
      free(crash.s);
      free(extra.s);
    }
    rm_dir(dir0);
  }
  fputs(out.s ? out.s : "", stdout);
  fputc('\n', stdout);
  free(out.s);
  rm_dir(dir);
  free_case();
}

int main(int argc, char **argv) {
  const char *root = getenv("VERIF_PS_DIR");
  if (root) snprintf(g_root, sizeof(g_root), "%s", root);
  else snprintf(g_root, sizeof(g_root), "/var/tmp/verif.ps.%d", (int)getpid());
  mkdir(g_root, 0755);
  void *m = mmap((void *)(uintptr_t)ARENA_BASE, (size_t)ARENA_N * ARENA_SLOT,
                 PROT_READ | PROT_WRITE, MAP_PRIVATE | MAP_ANONYMOUS | MAP_FIXED_NOREPLACE, -1, 0);
  if (m == MAP_FAILED || (uint64_t)(uintptr_t)m != ARENA_BASE) {
    fprintf(stderr, "arena mmap failed\n");
    return 2;
  }
  (void)argc; (void)argv;
  while (next_case(stdin)) {
    if (vntok == 0) { puts(""); continue; }
    if (!strcmp(vtok[0], "layout")) {
      /* layout <port>: la lt listen proto tuple0..7 */
      mk_addrs(vntok > 1 ? atoi(vtok[1]) : 5683);
      coap_proto_t pr = COAP_PROTO_UDP;
      sbuf o = {0, 0, 0};
      sb_add(&o, "%zu %zu ", sizeof(coap_address_t), sizeof(coap_addr_tuple_t));
      sb_hex(&o, (uint8_t *)&g_listen, sizeof(g_listen));
      sb_add(&o, " ");
      sb_hex(&o, (uint8_t *)&pr, sizeof(pr));
      for (int i = 0; i < 8; i++) {
        coap_addr_tuple_t t;
        tuple_of(i, &t);
        sb_add(&o, " ");
        sb_hex(&o, (uint8_t *)&t, sizeof(t));
      }
      sb_add(&o, " key=%zu len=%zu arena=%llx slot=%d rx=%d", sizeof(void *), sizeof(ssize_t),
             (unsigned long long)ARENA_BASE, ARENA_SLOT, COAP_RXBUFFER_SIZE);
      puts(o.s);
      free(o.s);
    } else if (!strcmp(vtok[0], "c17")) {
      run_case();
    } else {
      puts("ERROR unknown command");
    }
    fflush(stdout);
  }
  rm_dir(g_root);
  return 0;
}

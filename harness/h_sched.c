/* C06 driver: retransmission schedule of Confirmable messages on the real library, driven by a
 * virtual clock and a scripted peer (harness/common/vnet.h).  One case per line; the extracted
 * model (ocaml/d_sched.ml) prints the same format for the same line.
 *
 *   c06 <nsess> { <at_ip> <at_fp> <arf_ip> <arf_fp> <max_rtx> <nstart> }*nsess  <event>*
 *     A <dt>                              advance the clock by dt ticks (= ms)
 *     S <sess> <mid> <code> <tok> <payload> <r>   coap_send() of a CON built through the API;
 *                                         r = the PRNG byte the library will draw for the jitter
 *     T                                   coap_io_prepare_epoll(ctx, now): fire what is due, report wait
 *     W <k>                               sleep until (time of the last T) + (its reported wait) + k,
 *                                         if that is in the future (k = 0: punctual driver)
 *     K <sess> <mid>                      peer's empty ACK arrives
 *     P <sess> <mid> <tok>                peer's piggybacked 2.05 ACK arrives
 *     R <sess> <mid>                      peer's RST arrives
 *     N <sess> <mid> <code> <tok>         peer's NON with that mid arrives (not a reply to the CON)
 *     D <sess> <reason>                   coap_session_disconnected(session, reason); the session is dead
 *                                         afterwards (its socket is closed): later events on it are skipped
 *     X <sess> <mid>                      coap_delete_node() on the first queued node of that session with that
 *                                         mid, while it is linked into the send queue (what the library does to a
 *                                         delayed multicast response it has just sent)
 *     I <timeout_ms>                      coap_io_process(ctx, timeout_ms) (0 = COAP_IO_WAIT, 4294967295 =
 *                                         COAP_IO_NO_WAIT); epoll_wait is interposed: it moves the clock by
 *                                         the timeout it is given and reports no event
 *     G <sess> <tok>                      (only at the start of the event list) session <sess> becomes a SERVER session:
 *                                         the context gets an endpoint and an observable resource whose notifications
 *                                         are Confirmable; a scripted peer registers as observer (NON GET, Observe 0,
 *                                         token <tok>); the session's settings are applied to the new session
 *     O <sess> <r>                        coap_resource_notify_observers(), then coap_io_prepare_epoll(): the
 *                                         notification is generated and sent INSIDE the prepare call (r = its jitter
 *                                         byte); prints its transmission and the reported wait.  In K/P/R events the
 *                                         mid "L" stands for the mid of the session's last notification.
 *     B <mode> | E <secs> | M <secs>      (only at the start of the event list) context options that bring OTHER timers
 *                                         into the wait coap_io_prepare reports: B = coap_context_set_block_mode (1 =
 *                                         COAP_BLOCK_USE_LIBCOAP: state of large transmits / receives expires), E =
 *                                         coap_context_set_keepalive (the library sends Confirmable pings from inside the
 *                                         prepare call), M = coap_context_set_session_timeout + an endpoint + a
 *                                         stranger's request that leaves an idle server session behind
 *     U <sess> <mid> <tok> <size> <r>     a Block1 upload in 16-byte blocks (coap_add_data_large_request + coap_send of a
 *                                         CON PUT); the peer never sends the 2.31 that would continue it: the large
 *                                         transmit stalls and its state lingers until it expires
 *     Z <r>                               like T, with r the jitter byte of whatever the library sends from inside the call
 *                                         (keep-alive pings); a new ping is reported as pg:<sess>:<mid>
 *     Q                                   dump the send queue (absolute deadlines)
 *   first, per session, what the getters report after the setters ran: 0.cfg:<k>:<at_ip>:<at_fp>:<arf_ip>:<arf_fp>:<max>
 *   output items, each prefixed with "<index of the event>." (times relative to the start of the case):
 *     s:<ret>  tx:<t>:<sess>:<bytes>  nk:<t>:<sess>:<reason>:<mid>:<has_pdu>
 *     w:<t>:<ms>:<deadline of the queue head or -1>
 *     q:<t>:<deadline>/<sess>/<mid>/<cnt>,...
 *     ep:<t>:<timeout given to epoll_wait>   io:<t>:<return value of coap_io_process>
 *
 *   calc <at_ip> <at_fp> <arf_ip> <arf_fp> <r>   -> coap_calc_timeout (leaf sweep)
 *   qops <op>*                                    -> the send-queue primitives on hand-made nodes
 *     i <t> <id>   coap_insert_node(t relative to basetime)   p  coap_pop_next
 *     r <sess> <id>  coap_remove_from_queue                   b <now> coap_adjust_basetime
 *     output: queue as <t_rel>/<sess>/<id> list after every op (+ result of the op)
 */
#include "coap3/coap_libcoap_build.h"
#include "common/util.h"
#include "common/vnet.h"

#define MAXSESS 16
static coap_context_t *g_ctx;
static coap_session_t *g_sess[MAXSESS];
static int g_nsess;
static int g_dead[MAXSESS];
static coap_endpoint_t *g_ep;
static coap_resource_t *g_res;
static coap_session_t *g_obs_new;      /* session seen by the GET handler during a registration */
static int g_is_server[MAXSESS];
static int g_last_nmid[MAXSESS];
static int g_opts;                     /* context options B/E/M present: other timers enter the wait */
static int g_notify_sess = -1;         /* >= 0 while an O event runs: remember the first mid sent on it */

static void on_obs_get(coap_resource_t *r, coap_session_t *s, const coap_pdu_t *req,
                       const coap_string_t *q, coap_pdu_t *resp) {
  (void)r; (void)req; (void)q;
  g_obs_new = s;
  coap_pdu_set_code(resp, COAP_RESPONSE_CODE_CONTENT);
  coap_add_data(resp, 2, (const uint8_t *)"ob");
}

/* a datagram from the peer of session s: through the session's own socket (client session) or
 * through the endpoint from the peer's address (server session) */
static void inject_to(int s, const uint8_t *b, size_t n) {
  if (g_is_server[s]) {
    coap_address_t peer;
    vn_addr4(&peer, 0x0a000001u + (uint32_t)s, (uint16_t)(40000 + s));
    vn_inject_ep(g_ctx, g_ep, &peer, NULL, b, n);
  } else {
    vn_inject_session(g_ctx, g_sess[s], b, n);
  }
}

static int mid_tok(const char *t, int s) {
  return t[0] == 'L' ? g_last_nmid[s] : atoi(t);
}
static coap_tick_t g_t0;
static int g_logging;
static int g_first;

static int g_ev;            /* index of the event being executed; every item is prefixed with it */

static void item_sep(void) {
  if (!g_first) fputc(' ', stdout);
  g_first = 0;
  printf("%d.", g_ev);
}

static int sess_index(const coap_session_t *s) {
  for (int i = 0; i < g_nsess; i++)
    if (g_sess[i] == s) return i;
  return -1;
}

/* datagram bytes: hex up to 48 bytes, else the 4 header bytes in hex + "#len:fnv1a32" */
static void show_dgram_bytes(const uint8_t *b, size_t n) {
  if (n > 48)
    for (size_t i = 0; i < 4; i++) printf("%02x", b[i]);
  show_bytes(stdout, b, n);
}

static void on_send_hook(size_t idx) {
  if (!g_logging) return;
  if (g_notify_sess >= 0 && vn_out[idx].session == g_sess[g_notify_sess] && vn_out[idx].len >= 4) {
    g_last_nmid[g_notify_sess] = (vn_out[idx].data[2] << 8) | vn_out[idx].data[3];
    g_notify_sess = -1;
  }
  item_sep();
  printf("tx:%llu:%d:", (unsigned long long)(vn_out[idx].t - g_t0), sess_index(vn_out[idx].session));
  show_dgram_bytes(vn_out[idx].data, vn_out[idx].len);
}

static void on_nack(coap_session_t *s, const coap_pdu_t *sent, const coap_nack_reason_t reason,
                    const coap_mid_t mid) {
  if (!g_logging) return;
  item_sep();
  printf("nk:%llu:%d:%d:%d:%d", (unsigned long long)(vn_now - g_t0), sess_index(s), (int)reason,
         (int)mid, sent != NULL);
}

static coap_response_t on_resp(coap_session_t *s, const coap_pdu_t *sent, const coap_pdu_t *rcv,
                               const coap_mid_t mid) {
  (void)s; (void)sent; (void)rcv; (void)mid;
  return COAP_RESPONSE_OK;
}

/* epoll_wait as seen by coap_io_process(): sleeping = advancing the virtual clock; nothing is
 * ever readable (datagrams are injected through coap_io_do_epoll by the driver itself) */
static int g_ep_calls;
int __wrap_epoll_wait(int epfd, struct epoll_event *events, int maxevents, int timeout) {
  (void)epfd; (void)events; (void)maxevents;
  if (g_logging && g_ep_calls++ == 0) {
    item_sep();
    printf("ep:%llu:%d", (unsigned long long)(vn_now - g_t0), timeout);
  }
  if (timeout > 0) vn_now += (coap_tick_t)timeout;
  return 0;
}

static void dump_queue(void) {
  item_sep();
  printf("q:%llu:", (unsigned long long)(vn_now - g_t0));
  coap_lock_lock(g_ctx, return);
  coap_queue_t *q = g_ctx->sendqueue;
  coap_tick_t acc = g_ctx->sendqueue_basetime;
  if (!q) fputc('-', stdout);
  for (int k = 0; q; q = q->next, k++) {
    acc += q->t;
    printf("%s%lld/%d/%d/%u", k ? "," : "", (long long)(acc - g_t0), sess_index(q->session),
           (int)q->id, (unsigned)q->retransmit_cnt);
  }
  coap_lock_unlock(g_ctx);
}

static void c06(void) {
  int i = 1;
  g_nsess = atoi(vtok[i++]);
  if (g_nsess < 1 || g_nsess > MAXSESS || vntok < 2 + 6 * g_nsess) { puts("ERROR args"); return; }
  g_ctx = coap_new_context(NULL);
  if (!g_ctx) { puts("ERROR ctx"); return; }
  coap_register_nack_handler(g_ctx, on_nack);
  coap_register_response_handler(g_ctx, on_resp);
  g_opts = 0;
  int stranger_timeout = 0;
  for (int j = 2 + 6 * g_nsess; j < vntok && strchr("GBEM", vtok[j][0]) && vtok[j][1] == 0;) {
    char o = vtok[j][0];
    if (o == 'G') { j += 3; continue; }
    if (j + 1 >= vntok) break;
    unsigned v = (unsigned)strtoul(vtok[j + 1], NULL, 10);
    g_opts = 1;
    if (o == 'B') coap_context_set_block_mode(g_ctx, v);
    else if (o == 'E') coap_context_set_keepalive(g_ctx, v);
    else if (o == 'M') { coap_context_set_session_timeout(g_ctx, v); stranger_timeout = 1; }
    j += 2;
  }
  vn_now = 1000;
  g_t0 = vn_now;
  vn_log_reset();
  vn_nnodes = 0;
  vn_on_send = on_send_hook;
  for (int k = 0; k < g_nsess; k++) {
    coap_address_t a;
    vn_addr4(&a, VN_LOOPBACK, (uint16_t)(21000 + k));
    vn_prng_seed(1000 + k);
    g_sess[k] = vn_new_client(g_ctx, &a);
    if (!g_sess[k]) { puts("ERROR session"); return; }
    coap_fixed_point_t at = {(uint16_t)atoi(vtok[i]), (uint16_t)atoi(vtok[i + 1])};
    coap_fixed_point_t arf = {(uint16_t)atoi(vtok[i + 2]), (uint16_t)atoi(vtok[i + 3])};
    coap_session_set_ack_timeout(g_sess[k], at);
    coap_session_set_ack_random_factor(g_sess[k], arf);
    coap_session_set_max_retransmit(g_sess[k], (uint16_t)atoi(vtok[i + 4]));
    coap_session_set_nstart(g_sess[k], (uint16_t)atoi(vtok[i + 5]));
    g_dead[k] = 0;
    g_is_server[k] = 0;
    g_last_nmid[k] = -1;
    i += 6;
  }
  g_ep = NULL;
  g_res = NULL;
  g_logging = 0;
  if (stranger_timeout) {
    /* a request from a peer nobody holds a reference for: an idle server session whose expiry enters the wait */
    coap_address_t peer;
    uint8_t b[8] = {0x51, 0x01, 0x7d, 0x01, 0x99, 0xb1, 'x'};
    g_ep = vn_new_server_ep(g_ctx);
    vn_addr4(&peer, 0x0a000101u, 50000);
    vn_inject_ep(g_ctx, g_ep, &peer, NULL, b, 7);
  }
  for (int j = i; j + 1 < vntok && strchr("GBEM", vtok[j][0]) && vtok[j][1] == 0; j += (vtok[j][0] == 'G' ? 3 : 2)) {
    /* observer registration: session s is replaced by the server session the peer's GET creates */
    if (vtok[j][0] != 'G' || j + 2 >= vntok) continue;
    int s = atoi(vtok[j + 1]) % g_nsess;
    if (g_is_server[s]) continue;
    if (!g_ep) g_ep = vn_new_server_ep(g_ctx);
    if (!g_res) {
      g_res = coap_resource_init(coap_make_str_const("o"), COAP_RESOURCE_FLAGS_NOTIFY_CON);
      coap_register_request_handler(g_res, COAP_REQUEST_GET, on_obs_get);
      coap_resource_set_get_observable(g_res, 1);
      coap_add_resource(g_ctx, g_res);
    }
    size_t tl;
    uint8_t *tok = bytes_of_tok(vtok[j + 2], &tl);
    if (tl > 8) tl = 8;
    uint8_t b[32] = {(uint8_t)(0x50 | tl), 0x01, 0x7e, (uint8_t)s};
    memcpy(b + 4, tok, tl);
    b[4 + tl] = 0x60;            /* Observe (6), empty value = register */
    b[5 + tl] = 0x51;            /* Uri-Path (11), "o" */
    b[6 + tl] = 'o';
    free(tok);
    coap_address_t peer;
    vn_addr4(&peer, 0x0a000001u + (uint32_t)s, (uint16_t)(40000 + s));
    g_obs_new = NULL;
    vn_inject_ep(g_ctx, g_ep, &peer, NULL, b, 7 + tl);
    if (!g_obs_new) continue;
    coap_session_reference(g_obs_new);
    vn_unregister_client(g_sess[s]);
    coap_session_release(g_sess[s]);
    g_sess[s] = g_obs_new;
    g_is_server[s] = 1;
    int c = 2 + 6 * s;
    coap_fixed_point_t at = {(uint16_t)atoi(vtok[c]), (uint16_t)atoi(vtok[c + 1])};
    coap_fixed_point_t arf = {(uint16_t)atoi(vtok[c + 2]), (uint16_t)atoi(vtok[c + 3])};
    coap_session_set_ack_timeout(g_sess[s], at);
    coap_session_set_ack_random_factor(g_sess[s], arf);
    coap_session_set_max_retransmit(g_sess[s], (uint16_t)atoi(vtok[c + 4]));
    coap_session_set_nstart(g_sess[s], (uint16_t)atoi(vtok[c + 5]));
  }
  g_logging = 1;
  g_first = 1;
  g_ev = 0;
  for (int k = 0; k < g_nsess; k++) {     /* what the getters say after the setters ran */
    coap_fixed_point_t at = coap_session_get_ack_timeout(g_sess[k]);
    coap_fixed_point_t arf = coap_session_get_ack_random_factor(g_sess[k]);
    item_sep();
    printf("cfg:%d:%u:%u:%u:%u:%u", k, at.integer_part, at.fractional_part, arf.integer_part,
           arf.fractional_part, (unsigned)coap_session_get_max_retransmit(g_sess[k]));
  }
  long long last_tick = -1, last_wait = 0;
  g_ev = -1;
  while (i < vntok) {
    char c = vtok[i][0];
    g_ev++;
    if (c == 'W' && i + 1 < vntok) {
      if (last_tick >= 0) {
        long long target = last_tick + last_wait + atoll(vtok[i + 1]);
        if (target > (long long)vn_now) vn_now = (coap_tick_t)target;
      }
      i += 2;
    } else if (c == 'D' && i + 2 < vntok) {
      int s = atoi(vtok[i + 1]) % g_nsess;
      if (!g_dead[s]) {
        coap_session_disconnected(g_sess[s], (coap_nack_reason_t)atoi(vtok[i + 2]));
        g_dead[s] = 1;
      }
      i += 3;
    } else if ((c == 'S' || c == 'K' || c == 'R' || c == 'P' || c == 'N' || c == 'X' || c == 'U') && i + 1 < vntok &&
               g_dead[atoi(vtok[i + 1]) % g_nsess]) {
      i += (c == 'S') ? 7 : (c == 'U') ? 6 : (c == 'P') ? 4 : (c == 'N') ? 5 : 3;
    } else if (c == 'X' && i + 2 < vntok) {
      int s = atoi(vtok[i + 1]) % g_nsess;
      int mid = atoi(vtok[i + 2]);
      coap_queue_t *q;
      coap_lock_lock(g_ctx, return);
      for (q = g_ctx->sendqueue; q; q = q->next)
        if (q->session == g_sess[s] && q->id == mid) break;
      coap_lock_unlock(g_ctx);
      if (q) coap_delete_node(q);
      i += 3;
    } else if (c == 'G' && i + 2 < vntok) {
      i += 3;                      /* done before the first event */
    } else if ((c == 'B' || c == 'E' || c == 'M') && i + 1 < vntok) {
      i += 2;                      /* done before the first event */
    } else if (c == 'U' && i + 5 < vntok) {
      int s = atoi(vtok[i + 1]) % g_nsess;
      size_t tl, size = (size_t)atoi(vtok[i + 4]);
      uint8_t *tok = bytes_of_tok(vtok[i + 3], &tl);
      static uint8_t body[4096], rb3[16], blk[1] = {0x08};   /* Block1: num 0, more, szx 0 (16 bytes) */
      if (size > sizeof(body)) size = sizeof(body);
      memset(body, 'u', sizeof(body));
      memset(rb3, atoi(vtok[i + 5]), sizeof(rb3));
      coap_pdu_t *p = coap_pdu_init(COAP_MESSAGE_CON, COAP_REQUEST_CODE_PUT, (coap_mid_t)atoi(vtok[i + 2]), 1152);
      if (tl > 4) tl = 4;
      coap_add_token(p, tl, tok);
      coap_add_option(p, COAP_OPTION_URI_PATH, 1, (const uint8_t *)"b");
      coap_add_option(p, COAP_OPTION_BLOCK1, 1, blk);
      coap_mid_t r = COAP_INVALID_MID;
      if (coap_add_data_large_request(g_sess[s], p, size, body, NULL, NULL)) {
        vn_prng_script = rb3;
        vn_prng_script_len = sizeof(rb3);
        vn_prng_script_pos = 0;
        r = coap_send(g_sess[s], p);
        vn_prng_script_len = 0;
      } else {
        coap_delete_pdu(p);
      }
      item_sep();
      printf("s:%d", (int)r);
      free(tok);
      i += 6;
    } else if (c == 'Z' && i + 1 < vntok) {
      static uint8_t rb4[16];
      coap_mid_t before[MAXSESS];
      memset(rb4, atoi(vtok[i + 1]), sizeof(rb4));
      for (int k = 0; k < g_nsess; k++) before[k] = g_dead[k] ? COAP_INVALID_MID : g_sess[k]->last_ping_mid;
      vn_prng_script = rb4;
      vn_prng_script_len = sizeof(rb4);
      vn_prng_script_pos = 0;
      unsigned w = vn_prepare(g_ctx);
      vn_prng_script_len = 0;
      for (int k = 0; k < g_nsess; k++)
        if (!g_dead[k] && g_sess[k]->last_ping_mid != before[k] && g_sess[k]->last_ping_mid != COAP_INVALID_MID) {
          g_last_nmid[k] = g_sess[k]->last_ping_mid;
          item_sep();
          printf("pg:%d:%d", k, g_last_nmid[k]);
        }
      long long hd = -1;
      last_tick = (long long)vn_now;
      last_wait = (long long)w;
      coap_lock_lock(g_ctx, return);
      if (g_ctx->sendqueue)
        hd = (long long)(g_ctx->sendqueue_basetime + g_ctx->sendqueue->t - g_t0);
      coap_lock_unlock(g_ctx);
      item_sep();
      printf("w:%llu:%u:%lld", (unsigned long long)(vn_now - g_t0), w, hd);
      i += 2;
    } else if (c == 'O' && i + 2 < vntok) {
      int s = atoi(vtok[i + 1]) % g_nsess;
      static uint8_t rb2[1];
      if (g_res && g_is_server[s] && !g_dead[s]) {
        coap_resource_notify_observers(g_res, NULL);
        rb2[0] = (uint8_t)atoi(vtok[i + 2]);
        vn_prng_script = rb2;
        vn_prng_script_len = 1;
        vn_prng_script_pos = 0;
        g_notify_sess = s;
      }
      unsigned w = vn_prepare(g_ctx);
      vn_prng_script_len = 0;
      g_notify_sess = -1;
      long long hd = -1;
      last_tick = (long long)vn_now;
      last_wait = (long long)w;
      coap_lock_lock(g_ctx, return);
      if (g_ctx->sendqueue)
        hd = (long long)(g_ctx->sendqueue_basetime + g_ctx->sendqueue->t - g_t0);
      coap_lock_unlock(g_ctx);
      item_sep();
      printf("w:%llu:%u:%lld", (unsigned long long)(vn_now - g_t0), w, hd);
      i += 3;
    } else if (c == 'A' && i + 1 < vntok) {
      vn_advance((coap_tick_t)strtoull(vtok[i + 1], NULL, 10));
      i += 2;
    } else if (c == 'S' && i + 6 < vntok) {
      int s = atoi(vtok[i + 1]) % g_nsess;
      size_t tl, pl;
      uint8_t *tok = bytes_of_tok(vtok[i + 4], &tl);
      uint8_t *pay = bytes_of_tok(vtok[i + 5], &pl);
      static uint8_t rb[1];
      coap_pdu_t *p = coap_pdu_init(COAP_MESSAGE_CON, (coap_pdu_code_t)atoi(vtok[i + 3]),
                                    (coap_mid_t)atoi(vtok[i + 2]), 1152);
      coap_add_token(p, tl, tok);
      if (pl) coap_add_data(p, pl, pay);
      rb[0] = (uint8_t)atoi(vtok[i + 6]);
      vn_prng_script = rb;
      vn_prng_script_len = 1;
      vn_prng_script_pos = 0;
      coap_mid_t r = coap_send(g_sess[s], p);
      vn_prng_script_len = 0;
      item_sep();
      printf("s:%d", (int)r);
      free(tok);
      free(pay);
      i += 7;
    } else if (c == 'T') {
      unsigned w = vn_prepare(g_ctx);
      long long hd = -1;
      last_tick = (long long)vn_now;
      last_wait = (long long)w;
      coap_lock_lock(g_ctx, return);
      if (g_ctx->sendqueue)
        hd = (long long)(g_ctx->sendqueue_basetime + g_ctx->sendqueue->t - g_t0);
      coap_lock_unlock(g_ctx);
      item_sep();
      printf("w:%llu:%u:%lld", (unsigned long long)(vn_now - g_t0), w, hd);
      i += 1;
    } else if ((c == 'K' || c == 'R') && i + 2 < vntok) {
      int s = atoi(vtok[i + 1]) % g_nsess;
      unsigned mid = (unsigned)mid_tok(vtok[i + 2], s);
      uint8_t b[4] = {(uint8_t)(c == 'K' ? 0x60 : 0x70), 0, (uint8_t)(mid >> 8), (uint8_t)mid};
      inject_to(s, b, 4);
      i += 3;
    } else if (c == 'P' && i + 3 < vntok) {
      int s = atoi(vtok[i + 1]) % g_nsess;
      unsigned mid = (unsigned)atoi(vtok[i + 2]);
      size_t tl;
      uint8_t *tok = bytes_of_tok(vtok[i + 3], &tl);
      uint8_t b[16] = {(uint8_t)(0x60 | (tl & 15)), 0x45, (uint8_t)(mid >> 8), (uint8_t)mid};
      if (tl > 8) tl = 8;
      memcpy(b + 4, tok, tl);
      inject_to(s, b, 4 + tl);
      free(tok);
      i += 4;
    } else if (c == 'N' && i + 4 < vntok) {
      int s = atoi(vtok[i + 1]) % g_nsess;
      unsigned mid = (unsigned)atoi(vtok[i + 2]);
      size_t tl;
      uint8_t *tok = bytes_of_tok(vtok[i + 4], &tl);
      uint8_t b[16] = {0, (uint8_t)atoi(vtok[i + 3]), (uint8_t)(mid >> 8), (uint8_t)mid};
      if (tl > 8) tl = 8;
      b[0] = (uint8_t)(0x50 | (tl & 15));
      memcpy(b + 4, tok, tl);
      inject_to(s, b, 4 + tl);
      free(tok);
      i += 5;
    } else if (c == 'I' && i + 1 < vntok) {
      g_ep_calls = 0;
      int r = coap_io_process(g_ctx, (uint32_t)strtoul(vtok[i + 1], NULL, 10));
      item_sep();
      printf("io:%llu:%d", (unsigned long long)(vn_now - g_t0), r);
      i += 2;
    } else if (c == 'Q') {
      dump_queue();
      i += 1;
    } else {
      item_sep();
      printf("ERROR-event:%s", vtok[i]);
      break;
    }
  }
  if (g_first) fputc('-', stdout);
  fputc('\n', stdout);
  g_logging = 0;
  vn_on_send = NULL;
  for (int k = 0; k < g_nsess; k++) {
    vn_unregister_client(g_sess[k]);
    coap_session_release(g_sess[k]);
  }
  coap_free_context(g_ctx);
  g_ctx = NULL;
  vn_log_reset();
}

/* ---- leaf: coap_calc_timeout ---- */
static void calc(void) {
  static coap_session_t s;
  memset(&s, 0, sizeof(s));
  s.ack_timeout.integer_part = (uint16_t)atoi(vtok[1]);
  s.ack_timeout.fractional_part = (uint16_t)atoi(vtok[2]);
  s.ack_random_factor.integer_part = (uint16_t)atoi(vtok[3]);
  s.ack_random_factor.fractional_part = (uint16_t)atoi(vtok[4]);
  printf("%u\n", coap_calc_timeout(&s, (unsigned char)atoi(vtok[5])));
}

/* all 256 random bytes for one setting, one line */
static void calcrow(void) {
  static coap_session_t s;
  memset(&s, 0, sizeof(s));
  s.ack_timeout.integer_part = (uint16_t)atoi(vtok[1]);
  s.ack_timeout.fractional_part = (uint16_t)atoi(vtok[2]);
  s.ack_random_factor.integer_part = (uint16_t)atoi(vtok[3]);
  s.ack_random_factor.fractional_part = (uint16_t)atoi(vtok[4]);
  for (int r = 0; r < 256; r++) printf("%s%u", r ? "," : "", coap_calc_timeout(&s, (unsigned char)r));
  fputc('\n', stdout);
}

/* ---- leaf: queue primitives on hand-made nodes (no PDUs, fake session pointers) ---- */
static coap_session_t fake_sess[4];

static void show_q(coap_context_t *c) {
  coap_queue_t *q = c->sendqueue;
  printf("[b=%lld", (long long)c->sendqueue_basetime);
  for (; q; q = q->next)
    printf(" %lld/%d/%d", (long long)q->t, (int)(q->session - fake_sess), (int)q->id);
  fputc(']', stdout);
}

static void qops(void) {
  static coap_context_t c;
  memset(&c, 0, sizeof(c));
  int i = 1;
  while (i < vntok) {
    char op = vtok[i][0];
    if (op == 'i' && i + 3 < vntok) {
      coap_queue_t *n = coap_new_node();
      n->t = (coap_tick_t)strtoull(vtok[i + 1], NULL, 10);
      n->session = &fake_sess[atoi(vtok[i + 2]) & 3];
      n->id = atoi(vtok[i + 3]);
      printf("i%d", coap_insert_node(&c.sendqueue, n));
      i += 4;
    } else if (op == 'p') {
      coap_queue_t *n = coap_pop_next(&c);
      if (n) { printf("p%lld/%d/%d", (long long)n->t, (int)(n->session - fake_sess), (int)n->id); coap_free_type(COAP_NODE, n); }
      else printf("p-");
      i += 1;
    } else if (op == 'r' && i + 2 < vntok) {
      coap_queue_t *n = NULL;
      int r = coap_remove_from_queue(&c.sendqueue, &fake_sess[atoi(vtok[i + 1]) & 3], atoi(vtok[i + 2]), &n);
      if (r && n) { printf("r%lld/%d/%d", (long long)n->t, (int)(n->session - fake_sess), (int)n->id); coap_free_type(COAP_NODE, n); }
      else printf("r-");
      i += 3;
    } else if (op == 'b' && i + 1 < vntok) {
      printf("b%u", coap_adjust_basetime(&c, (coap_tick_t)strtoull(vtok[i + 1], NULL, 10)));
      i += 2;
    } else { printf("ERROR-op"); break; }
    show_q(&c);
    fputc(' ', stdout);
  }
  fputc('\n', stdout);
  while (c.sendqueue) {
    coap_queue_t *n = coap_pop_next(&c);
    coap_free_type(COAP_NODE, n);
  }
}

int main(void) {
  coap_startup();
  coap_set_log_level(COAP_LOG_EMERG);
  while (next_case(stdin)) {
    if (vntok == 0) { puts(""); continue; }
    if (!strcmp(vtok[0], "c06")) c06();
    else if (!strcmp(vtok[0], "calc")) calc();
    else if (!strcmp(vtok[0], "calcrow")) calcrow();
    else if (!strcmp(vtok[0], "qops")) qops();
    else puts("ERROR unknown command");
    fflush(stdout);
  }
  coap_cleanup();
  return 0;
}

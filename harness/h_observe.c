/* C11 driver: a real libcoap server with 1..3 observable resources, driven through the scripted
 * network of common/vnet.h by up to 4 scripted observers (raw CoAP datagrams from fabricated
 * source addresses) - one case (a history) per input line, one trace line per case.
 *
 * case line:
 *   c11 <nres> <mode0> <mode1> <mode2> <nstart> <op> <op> ...
 *     mode: 0 = default (NON, every (COAP_OBS_MAX_NON+1)-th CON), 1 = NOTIFY_CON, 2 = NOTIFY_NON_ALWAYS
 *     nstart: NSTART given to every server session when it is created
 *   ops (fields separated by ':'):
 *     reg:<c>:<r>:<q>:<tok>:<t>[:<x>]  observer c sends GET Observe:0 for resource r; q = '-' or
 *                                      '+'-separated hex Uri-Query values; tok = hex token;
 *                                      t = 0 CON / 1 NON; x = extra options 'n=hex,n=hex' (n decimal;
 *                                      all options are sent in ascending order; the pseudo
 *                                      option 0 makes the request a FETCH with that payload)
 *     can:<c>:<r>:<q>:<tok>:<t>[:<x>]  same with Observe:1
 *     redo:<c>                          the last request datagram of observer c arrives again
 *     chg:<r>:<n>                       the application changes resource r n times
 *                                       (coap_resource_notify_observers each time)
 *     io                                one turn of the I/O loop without progress of time
 *     adv:<ms>                          time advances by ms, then one turn of the I/O loop
 *     fail                              time advances punctually (exactly the wait the library asks
 *                                       for) until nothing is pending any more
 *     ack:<c>:<j> / rst:<c>:<j>         observer c answers the j-th latest (0 = latest) confirmable
 *                                       message (ack) / notification (rst) it was sent
 *     err:<r>:<code>                    the handler of r answers with this code from now on (0 = 2.05)
 *     lost:<c>                          coap_session_disconnected() on the server session of c
 *     del:<r>                           coap_delete_resource(), then the resource is created again
 *     big:<r>:<n>                       bodies of r are n bytes from now on (large response API); with
 *                                       'x' = 23=_ (Block2 0/0/16 bytes) in the registration they take
 *                                       several blocks
 *     blk:<c>:<r>:<q>:<tok>:<t>:<num>   observer c fetches block num >= 1 (GET, Block2 num/0/0, no Observe)
 *     (reg/can: t = type + 2 * z sends the Observe value with z leading zero bytes, e.g. 00 01)
 *     idle                              400 s pass, then one turn of the I/O loop
 *     init:<r>:<v>                      coap_persist_set_observe_num(r, v) (only before the first
 *                                       registration: a server restarting from persisted state)
 *
 * trace line (events in the order in which they happened):
 *   K non=<COAP_OBS_MAX_NON> fail=<COAP_OBS_MAX_FAIL>
 *   [<op>  ...                   start of an op (for ack/rst: [ack:<c>:<j>=<k> with the index k of the
 *                                datagram that is answered, or =none)
 *   S<ca0>,<ca1>,<ca2>,<ca3>~<l0><l1><l2><l3>
 *                                coap_check_notify_lkd() is entered; con_active of the session of
 *                                each observer ('-': no session); l = 1: a large transmission to
 *                                it is unfinished and younger than 2 s                (wrapped)
 *   U<c>:<mid>                   coap_retransmit() is called for a message that has no retransmission
 *                                left: it is given up                                 (wrapped)
 *   F<c>:<tok>:<mid>             coap_handle_failed_notify(session of c, token) for the node with
 *                                this mid that coap_retransmit gave up                (wrapped)
 *   Z<ca0>,..                    con_active of the sessions when coap_delete_resource is called
 *   X<k>:<c>:<o>:<T>:<code>:<mid>:<tok>:<obs>:<payload>:<block2 NUM.M or ->
 *                                datagram k sent to observer c; o = origin: n = from inside
 *                                coap_check_notify_lkd, g = during coap_delete_resource, r = other;
 *                                T = C/N/A/R; obs = Observe value or '-'
 *   | R<r>=<observe>/<dirty>/<partiallydirty>:<c>.<tok>.<non>.<fail>.<dirty>,...  (subscribers in list
 *     order, resources in hash iteration order) ... P<observe_pending> ref=<ref0>,<ref1>,..
 *     q=<c>.<mid>,...   (send queue)
 */
#include "coap3/coap_libcoap_build.h"
#include "common/util.h"
#include "common/vnet.h"

#define MAXOBS 4
#define MAXRES 3

typedef struct {
  int id;
  unsigned state;      /* application state version: number of changes so far */
  int err;             /* response code the handler uses (0: 2.05) */
  int big;             /* body length when > 0 (multi-block notifications) */
  int mode;
  coap_resource_t *res;
} hres_t;

static hres_t R[MAXRES];
static int nres, g_nstart;
static coap_context_t *srv;
static coap_endpoint_t *ep;
static coap_address_t peer[MAXOBS];
static unsigned peer_mid[MAXOBS];
static uint8_t last_req[MAXOBS][256];
static size_t last_req_len[MAXOBS];
static int origin = 'r';
static coap_context_t *cli[MAXOBS];      /* real libcoap clients (mode c11r) */
static coap_session_t *cls[MAXOBS];
static int ncli = 0;
static size_t base_out;          /* index of the first log entry of this case */

void __real_coap_check_notify_lkd(coap_context_t *context);
void __real_coap_handle_failed_notify(coap_context_t *context, coap_session_t *session,
                                      const coap_bin_const_t *token);
coap_mid_t __real_coap_retransmit(coap_context_t *context, coap_queue_t *node);
static long retx_mid = -1;       /* mid of the node coap_retransmit is working on */

static int peer_of_addr(const coap_address_t *a) {
  int c;
  if (ncli > 0) {
    /* real clients: their sockets have kernel-chosen ports (which may fall into 40000..40003) */
    for (c = 0; c < ncli; c++)
      if (cls[c] && coap_address_equals(&cls[c]->addr_info.local, a)) return c;
    return -1;
  }
  c = (int)ntohs(a->addr.sin.sin_port) - 40000;
  return (c >= 0 && c < MAXOBS) ? c : -1;
}

static coap_session_t *sess_of(int c) {
  coap_session_t *s, *tmp;
  if (!ep) return NULL;
  SESSIONS_ITER(ep->sessions, s, tmp) {
    if (c < ncli && cls[c]) {
      if (coap_address_equals(&s->addr_info.remote, &cls[c]->addr_info.local)) return s;
    } else if (coap_address_equals(&s->addr_info.remote, &peer[c])) return s;
  }
  return NULL;
}

static void put_hex(const uint8_t *b, size_t n) {
  if (n == 0) { putchar('-'); return; }
  for (size_t i = 0; i < n; i++) printf("%02x", b[i]);
}

/* con_active of every observer's session, then '~' and, per session, whether a large (Block2)
 * transmission to it is unfinished and younger than 2 s (the hold-off test of coap_notify_observers) */
static void snapshot(void) {
  for (int c = 0; c < MAXOBS; c++) {
    coap_session_t *s = sess_of(c);
    if (c) putchar(',');
    if (s) printf("%u", (unsigned)s->con_active);
    else putchar('-');
  }
  putchar('~');
  for (int c = 0; c < MAXOBS; c++) {
    coap_session_t *s = sess_of(c);
    int lg = s && s->lg_xmit && s->lg_xmit->last_all_sent == 0 && s->lg_xmit->last_obs &&
             (s->lg_xmit->last_obs + 2 * COAP_TICKS_PER_SECOND) > vn_now;
    putchar(lg ? '1' : '0');
  }
}

void __wrap_coap_check_notify_lkd(coap_context_t *context) {
  if (context == srv) {
    printf(" S");
    snapshot();
    int o = origin;
    origin = 'n';
    __real_coap_check_notify_lkd(context);
    origin = o;
    printf(" s");
  } else {
    __real_coap_check_notify_lkd(context);
  }
}

void __wrap_coap_handle_failed_notify(coap_context_t *context, coap_session_t *session,
                                      const coap_bin_const_t *token) {
  if (context == srv) {
    printf(" F%d:", peer_of_addr(&session->addr_info.remote));
    put_hex(token->s, token->length);
    printf(":%ld", retx_mid);
  }
  __real_coap_handle_failed_notify(context, session, token);
}

coap_mid_t __wrap_coap_retransmit(coap_context_t *context, coap_queue_t *node) {
  long o = retx_mid;
  coap_mid_t m;
  retx_mid = node ? (long)(uint16_t)node->id : -1;
  /* this call gives the message up (no retransmission left): reported whatever the library then
   * does about its observer */
  if (node && context == srv && node->retransmit_cnt >= node->session->max_retransmit)
    printf(" U%d:%ld", peer_of_addr(&node->session->addr_info.remote), retx_mid);
  m = __real_coap_retransmit(context, node);
  retx_mid = o;
  return m;
}

/* minimal reader for the datagrams the server sends: Observe option (6) and payload */
static void on_send(size_t idx) {
  static const char tn[] = "CNAR";
  const vn_dgram_t *d = &vn_out[idx];
  const uint8_t *p = d->data;
  size_t n = d->len;
  if (n < 4) { printf(" X%zu:runt", idx - base_out); return; }
  unsigned tkl = p[0] & 15;
  if (d->ctx != srv) {
    /* a datagram of a real client: Y<k>:<c>:<T>:<code>:<mid>:<tok> */
    printf(" Y%zu:%d:%c:%u:%u:", idx - base_out, peer_of_addr(&d->src), tn[(p[0] >> 4) & 3], p[1],
           (p[2] << 8) | p[3]);
    if (tkl <= 8 && 4 + tkl <= n) put_hex(p + 4, tkl);
    return;
  }
  printf(" X%zu:%d:%c:%c:%u:%u:", idx - base_out, peer_of_addr(&d->dst), origin,
         tn[(p[0] >> 4) & 3], p[1], (p[2] << 8) | p[3]);
  if (tkl > 8 || 4 + tkl > n) { printf("badtkl"); return; }
  put_hex(p + 4, tkl);
  size_t i = 4 + tkl;
  unsigned num = 0;
  long obs = -1, blk2 = -1;
  while (i < n && p[i] != 0xff) {
    unsigned dl = p[i] >> 4, ln = p[i] & 15;
    i++;
    if (dl == 13) { dl = 13 + p[i]; i++; }
    else if (dl == 14) { dl = 269 + ((p[i] << 8) | p[i + 1]); i += 2; }
    if (ln == 13) { ln = 13 + p[i]; i++; }
    else if (ln == 14) { ln = 269 + ((p[i] << 8) | p[i + 1]); i += 2; }
    num += dl;
    if (num == COAP_OPTION_OBSERVE) {
      obs = 0;
      for (unsigned k = 0; k < ln; k++) obs = (obs << 8) | p[i + k];
    }
    if (num == COAP_OPTION_BLOCK2) {
      blk2 = 0;
      for (unsigned k = 0; k < ln; k++) blk2 = (blk2 << 8) | p[i + k];
    }
    i += ln;
  }
  if (obs >= 0) printf(":%ld:", obs);
  else printf(":-:");
  if (i < n && p[i] == 0xff) put_hex(p + i + 1, n - i - 1);
  else putchar('-');
  if (blk2 >= 0) printf(":%ld.%ld", blk2 >> 4, (blk2 >> 3) & 1);     /* Block2 NUM.M */
  else printf(":-");
}

static void free_body(coap_session_t *s, void *p) { (void)s; free(p); }

static void on_get(coap_resource_t *r, coap_session_t *s, const coap_pdu_t *req,
                   const coap_string_t *q, coap_pdu_t *resp) {
  hres_t *h = (hres_t *)coap_resource_get_userdata(r);
  char body[32];
  coap_pdu_set_code(resp, h->err ? (coap_pdu_code_t)h->err : COAP_RESPONSE_CODE_CONTENT);
  int n = snprintf(body, sizeof(body), "%d.%u", h->id, h->state);
  if (h->big > n && !h->err) {
    /* a body of h->big bytes: "<r>.<state>." padded with 'x' (several blocks of 16 bytes when the
     * request carries Block2 with SZX 0) */
    uint8_t *d = (uint8_t *)malloc((size_t)h->big);
    memset(d, 'x', (size_t)h->big);
    memcpy(d, body, (size_t)n);
    d[n] = '.';
    coap_add_data_large_response(r, s, req, resp, q, COAP_MEDIATYPE_TEXT_PLAIN, -1, 0,
                                 (size_t)h->big, d, free_body, d);
    return;
  }
  coap_add_data(resp, (size_t)n, (const uint8_t *)body);
}

static int on_event(coap_session_t *s, const coap_event_t ev) {
  if (ev == COAP_EVENT_SERVER_SESSION_NEW && g_nstart > 0)
    coap_session_set_nstart(s, (uint16_t)g_nstart);
  return 0;
}

static void mk_resource(int i) {
  char path[8];
  int flags = R[i].mode == 1 ? COAP_RESOURCE_FLAGS_NOTIFY_CON :
              R[i].mode == 2 ? COAP_RESOURCE_FLAGS_NOTIFY_NON_ALWAYS : COAP_RESOURCE_FLAGS_NOTIFY_NON;
  snprintf(path, sizeof(path), "r%d", i);
  coap_str_const_t sc = { strlen(path), (const uint8_t *)path };
  R[i].res = coap_resource_init(&sc, flags);      /* copies the path (no RELEASE_URI flag) */
  coap_resource_set_userdata(R[i].res, &R[i]);
  coap_resource_set_get_observable(R[i].res, 1);
  coap_register_request_handler(R[i].res, COAP_REQUEST_GET, on_get);
  coap_register_request_handler(R[i].res, COAP_REQUEST_FETCH, on_get);
  coap_add_resource(srv, R[i].res);
}

/* ---- building requests ---- */
static size_t put_opt(uint8_t *b, unsigned *last, unsigned num, const uint8_t *v, size_t len) {
  unsigned d = num - *last;
  size_t i = 0, hp = i++;
  unsigned dn, ln;
  if (d < 13) dn = d;
  else if (d < 269) { dn = 13; b[i++] = (uint8_t)(d - 13); }
  else { dn = 14; b[i++] = (uint8_t)((d - 269) >> 8); b[i++] = (uint8_t)(d - 269); }
  if (len < 13) ln = (unsigned)len;
  else { ln = 13; b[i++] = (uint8_t)(len - 13); }     /* values <= 268 bytes only */
  b[hp] = (uint8_t)((dn << 4) | ln);
  memcpy(b + i, v, len);
  *last = num;
  return i + len;
}

/* fields: c r q tok t [x]; observe = 0 / 1 */
static void do_request(char **f, int nf, int observe) {
  /* t = type (0 CON, 1 NON) + 2 * (number of leading zero bytes of the Observe value);
   * observe: 0 / 1 = Observe option with that value, < 0 = no Observe option but Block2 with
   * block number -observe (SZX 0) */
  int c = atoi(f[0]), r = atoi(f[1]), t = atoi(f[4]) % 2, zeros = (atoi(f[4]) / 2) % 3;
  uint8_t b[256];
  size_t n = 0, tl;
  uint8_t *tok = bytes_of_tok(f[3], &tl);
  unsigned last = 0;
  if (c < 0 || c >= MAXOBS || tl > 8) { free(tok); return; }
  unsigned mid = ++peer_mid[c];
  b[n++] = (uint8_t)(0x40 | (t ? 0x10 : 0) | tl);
  b[n++] = COAP_REQUEST_CODE_GET;
  b[n++] = (uint8_t)(mid >> 8);
  b[n++] = (uint8_t)mid;
  memcpy(b + n, tok, tl);
  n += tl;
  /* collect the options, then emit them in ascending order (stable) */
  struct { unsigned num; uint8_t v[40]; size_t len; } o[24];
  int no = 0, fetch = 0;
  uint8_t payload[16];
  size_t paylen = 0;
  if (observe >= 0) {
    o[no].num = COAP_OPTION_OBSERVE;
    memset(o[no].v, 0, 4);
    o[no].len = (size_t)zeros;
    if (observe) o[no].v[o[no].len++] = (uint8_t)observe;
    no++;
  } else {
    unsigned bv = ((unsigned)(-observe)) << 4;        /* NUM, M = 0, SZX = 0 */
    o[no].num = COAP_OPTION_BLOCK2;
    o[no].len = 0;
    if (bv > 0xff) o[no].v[o[no].len++] = (uint8_t)(bv >> 8);
    o[no].v[o[no].len++] = (uint8_t)bv;
    no++;
  }
  char path[8];
  snprintf(path, sizeof(path), "r%d", r);
  o[no].num = COAP_OPTION_URI_PATH;
  o[no].len = strlen(path);
  memcpy(o[no].v, path, o[no].len);
  no++;
  if (strcmp(f[2], "-")) {
    char *q = f[2];
    while (q && *q && no < 20) {
      char *nx = strchr(q, '+');
      if (nx) *nx++ = 0;
      size_t ql;
      uint8_t *qb = bytes_of_tok(*q == '_' ? "-" : q, &ql);     /* '_' = empty query value */
      if (ql > 40) ql = 40;
      o[no].num = COAP_OPTION_URI_QUERY;
      o[no].len = ql;
      memcpy(o[no].v, qb, ql);
      no++;
      free(qb);
      q = nx;
    }
  }
  if (nf > 5) {
    char *x = f[5];
    while (x && *x && no < 24) {
      char *nx = strchr(x, ',');
      if (nx) *nx++ = 0;
      char *eq = strchr(x, '=');
      if (eq) {
        *eq++ = 0;
        size_t xl;
        uint8_t *xb = bytes_of_tok(*eq == '_' ? "-" : eq, &xl);
        if (xl > 12) xl = 12;
        if (atoi(x) == 0) {
          /* pseudo option 0: the request is a FETCH with this payload */
          fetch = 1;
          paylen = xl;
          memcpy(payload, xb, xl);
        } else {
          o[no].num = (unsigned)atoi(x);
          o[no].len = xl;
          memcpy(o[no].v, xb, xl);
          no++;
        }
        free(xb);
      }
      x = nx;
    }
  }
  for (int a = 1; a < no; a++)          /* insertion sort, stable */
    for (int b2 = a; b2 > 0 && o[b2 - 1].num > o[b2].num; b2--) {
      typeof(o[0]) tmp = o[b2];
      o[b2] = o[b2 - 1];
      o[b2 - 1] = tmp;
    }
  for (int a = 0; a < no && n < 230; a++)
    n += put_opt(b + n, &last, o[a].num, o[a].v, o[a].len);
  if (fetch) {
    b[1] = COAP_REQUEST_CODE_FETCH;
    if (paylen) {
      b[n++] = 0xff;
      memcpy(b + n, payload, paylen);
      n += paylen;
    }
  }
  free(tok);
  memcpy(last_req[c], b, n);
  last_req_len[c] = n;
  vn_inject_ep(srv, ep, &peer[c], NULL, b, n);
}

/* the j-th latest datagram sent to c: want_con = confirmable messages (distinct mids),
 * else notifications (origin n; distinct mids) */
static long find_target(int c, int j, int want_con, const char *orig) {
  unsigned seen[64];
  int nseen = 0;
  for (size_t i = vn_nout; i > base_out; i--) {
    const vn_dgram_t *d = &vn_out[i - 1];
    if (d->len < 4 || peer_of_addr(&d->dst) != c) continue;
    unsigned type = (d->data[0] >> 4) & 3, mid = (d->data[2] << 8) | d->data[3];
    if (want_con ? type != 0 : (type > 1 || orig[i - 1 - base_out] != 'n')) continue;
    if (d->data[1] == 0) continue;
    int dup = 0;
    for (int k = 0; k < nseen; k++) if (seen[k] == mid) dup = 1;
    if (dup) continue;
    if (j == 0) {
      /* the first transmission of this mid */
      long first = (long)(i - 1);
      for (size_t m = i - 1; m > base_out; m--) {
        const vn_dgram_t *e = &vn_out[m - 1];
        if (e->len >= 4 && peer_of_addr(&e->dst) == c &&
            (unsigned)((e->data[2] << 8) | e->data[3]) == mid && e->data[1] != 0)
          first = (long)(m - 1);
      }
      return first;
    }
    j--;
    if (nseen < 64) seen[nseen++] = mid;
  }
  return -1;
}

static char *origins = NULL;
static size_t origins_cap = 0;
static void on_send_hook(size_t idx) {
  size_t k = idx - base_out;
  if (k >= origins_cap) {
    origins_cap = origins_cap ? origins_cap * 2 : 1024;
    while (k >= origins_cap) origins_cap *= 2;
    origins = (char *)realloc(origins, origins_cap);
  }
  origins[k] = (char)origin;
  on_send(idx);
}

static void turn(void) {
  vn_prepare(srv);
}

static void dump_state(void) {
  printf(" |");
  RESOURCES_ITER(srv->resources, r) {
    hres_t *h = (hres_t *)coap_resource_get_userdata(r);
    coap_subscription_t *s;
    int first = 1;
    printf(" R%d=%u/%u/%u:", h ? h->id : -1, (unsigned)r->observe, (unsigned)r->dirty,
           (unsigned)r->partiallydirty);
    LL_FOREACH(r->subscribers, s) {
      if (!first) putchar(',');
      first = 0;
      printf("%d.", peer_of_addr(&s->session->addr_info.remote));
      put_hex(s->pdu->actual_token.s, s->pdu->actual_token.length);
      printf(".%u.%u.%u", (unsigned)s->non_cnt, (unsigned)s->fail_cnt, (unsigned)s->dirty);
    }
    if (first) putchar('-');
  }
  printf(" P%u ref=", (unsigned)srv->observe_pending);
  for (int c = 0; c < MAXOBS; c++) {
    coap_session_t *s = sess_of(c);
    if (c) putchar(',');
    if (s) printf("%u", (unsigned)s->ref);
    else putchar('-');
  }
  printf(" q=");
  if (!srv->sendqueue) putchar('-');
  for (coap_queue_t *q = srv->sendqueue; q; q = q->next)
    printf("%s%d.%u", q == srv->sendqueue ? "" : ",", peer_of_addr(&q->session->addr_info.remote),
           (unsigned)(uint16_t)q->id);
}

static int split(char *s, char **f, int max) {
  int n = 0;
  while (s && n < max) {
    f[n++] = s;
    s = strchr(s, ':');
    if (s) *s++ = 0;
  }
  return n;
}

static void c11(void) {
  if (vntok < 6) { puts("ERROR c11 args"); return; }
  nres = atoi(vtok[1]);
  if (nres < 1 || nres > MAXRES) { puts("ERROR c11 nres"); return; }
  g_nstart = atoi(vtok[5]);
  vn_now = 1000;
  vn_nnodes = 0;
  vn_log_reset();
  base_out = 0;
  vn_prng_seed(11);
  vn_on_send = on_send_hook;
  origin = 'r';
  srv = coap_new_context(NULL);
  ep = vn_new_server_ep(srv);
  if (!srv || !ep) { puts("ERROR c11 setup"); return; }
  coap_register_event_handler(srv, on_event);
  coap_context_set_block_mode(srv, COAP_BLOCK_USE_LIBCOAP);
  for (int i = 0; i < MAXRES; i++) {
    memset(&R[i], 0, sizeof(R[i]));
    R[i].id = i;
    R[i].mode = atoi(vtok[2 + i]);
  }
  for (int i = 0; i < nres; i++) mk_resource(i);
  for (int c = 0; c < MAXOBS; c++) {
    vn_addr4(&peer[c], 0x0a000001u + (unsigned)c, (uint16_t)(40000 + c));
    peer_mid[c] = 0x1000u * (unsigned)(c + 1);
    last_req_len[c] = 0;
  }
  printf("K non=%d fail=%d", COAP_OBS_MAX_NON, COAP_OBS_MAX_FAIL);
  for (int i = 6; i < vntok; i++) {
    char *f[8];
    char opcopy[512];
    snprintf(opcopy, sizeof(opcopy), "%s", vtok[i]);
    int nf = split(vtok[i], f, 8);
    const char *op = f[0];
    if (!strcmp(op, "ack") || !strcmp(op, "rst")) {
      if (nf < 3) continue;
      int c = atoi(f[1]), j = atoi(f[2]);
      if (c < 0 || c >= MAXOBS) continue;
      long k = find_target(c, j, op[0] == 'a', origins);
      if (k < 0) { printf(" [%s=none", opcopy); continue; }
      printf(" [%s=%ld", opcopy, k - (long)base_out);
      uint8_t b[4];
      b[0] = (uint8_t)(0x40 | (op[0] == 'a' ? 0x20 : 0x30));
      b[1] = 0;
      b[2] = vn_out[k].data[2];
      b[3] = vn_out[k].data[3];
      vn_inject_ep(srv, ep, &peer[c], NULL, b, 4);
      continue;
    }
    printf(" [%s", opcopy);
    if (!strcmp(op, "reg") && nf >= 6) do_request(f + 1, nf - 1, 0);
    else if (!strcmp(op, "can") && nf >= 6) do_request(f + 1, nf - 1, 1);
    else if (!strcmp(op, "blk") && nf >= 7) {
      /* blk:<c>:<r>:<q>:<tok>:<t>:<num> - fetch block num (>= 1) of the current representation */
      int num = atoi(f[6]);
      if (num >= 1 && num < 64) do_request(f + 1, 5, -num);
    } else if (!strcmp(op, "big") && nf >= 3) {
      int r = atoi(f[1]);
      if (r >= 0 && r < nres) R[r].big = atoi(f[2]) > 200 ? 200 : atoi(f[2]);
    }
    else if (!strcmp(op, "redo") && nf >= 2) {
      int c = atoi(f[1]);
      if (c >= 0 && c < MAXOBS && last_req_len[c])
        vn_inject_ep(srv, ep, &peer[c], NULL, last_req[c], last_req_len[c]);
    } else if (!strcmp(op, "chg") && nf >= 3) {
      int r = atoi(f[1]), n = atoi(f[2]);
      if (r >= 0 && r < nres)
        for (int k = 0; k < n; k++) {
          R[r].state++;
          coap_resource_notify_observers(R[r].res, NULL);
        }
    } else if (!strcmp(op, "init") && nf >= 3) {
      int r = atoi(f[1]);
      if (r >= 0 && r < nres) coap_persist_set_observe_num(R[r].res, (uint32_t)strtoul(f[2], NULL, 10));
    } else if (!strcmp(op, "io")) {
      turn();
    } else if (!strcmp(op, "adv") && nf >= 2) {
      vn_advance((coap_tick_t)atol(f[1]));
      turn();
    } else if (!strcmp(op, "fail")) {
      for (int guard = 0; guard < 64; guard++) {
        unsigned w = vn_prepare(srv);
        if (w == 0 || srv->sendqueue == NULL) break;
        vn_advance(w);
      }
    } else if (!strcmp(op, "err") && nf >= 3) {
      int r = atoi(f[1]);
      if (r >= 0 && r < nres) R[r].err = atoi(f[2]);
    } else if (!strcmp(op, "lost") && nf >= 2) {
      int c = atoi(f[1]);
      coap_session_t *s = (c >= 0 && c < MAXOBS) ? sess_of(c) : NULL;
      if (s) coap_session_disconnected(s, COAP_NACK_NOT_DELIVERABLE);
      else printf("=none");
    } else if (!strcmp(op, "del") && nf >= 2) {
      int r = atoi(f[1]);
      if (r >= 0 && r < nres) {
        int o = origin;
        origin = 'g';
        printf(" Z");
        snapshot();
        coap_delete_resource(srv, R[r].res);
        origin = o;
        mk_resource(r);
      }
    } else if (!strcmp(op, "idle")) {
      vn_advance(400000);
      turn();
    }
  }
  dump_state();
  vn_on_send = NULL;
  coap_free_context(srv);
  srv = NULL;
  ep = NULL;
  vn_log_reset();
  putchar('\n');
}

/* ------------------------------------------------------------------ real libcoap clients
 * c11r <nres> <mode0> <mode1> <mode2> <nstart> <nclients> <op> ...
 *   creg:<c>:<r>:<q>   client c: coap_send(GET, Observe:0, Uri-Path r<r>[, Uri-Query q])
 *   ccan:<c>:<r>:<q>   coap_cancel_observe() for that observation
 *   cfgt:<c>:<r>:<q>   the application forgets it: its handler answers COAP_RESPONSE_FAIL (-> RST)
 *   chg / err / del / lost / adv as in c11; io = one turn of every context
 *   pump[:<mask>]      deliver everything that is pending, in sending order, until quiet; the
 *                      i-th delivery of this pump is dropped when bit (i mod 16) of mask is set
 * At the end, three times: every resource changes once more and the network runs loss-free (with
 * time for the retransmissions) until quiet.
 * trace: H<c>:<tok>:<obs>:<code>:<body> response handler of client c; A/Z<c>:<tok> the server
 * added / deleted an observer (coap_persist_track_funcs callbacks); X / Y datagrams;
 * | server dump, then O<c>:<r>:<q>:<tok>:<state a=active c=cancelled f=forgotten> per observation */
typedef struct { int used, c, r; char q[8]; uint8_t tok[8]; size_t tl; int st; } cobs_t;
static cobs_t CO[32];
static int nco = 0;
static size_t next_deliver = 0;

static cobs_t *co_by_token(int c, const uint8_t *t, size_t tl) {
  for (int i = 0; i < nco; i++)
    if (CO[i].c == c && CO[i].tl == tl && !memcmp(CO[i].tok, t, tl)) return &CO[i];
  return NULL;
}

static coap_response_t cl_resp(coap_session_t *s, const coap_pdu_t *sent, const coap_pdu_t *rcv,
                               const coap_mid_t mid) {
  (void)sent; (void)mid;
  int c = -1;
  for (int i = 0; i < ncli; i++) if (cls[i] == s) c = i;
  coap_bin_const_t tk = coap_pdu_get_token(rcv);
  size_t len = 0;
  const uint8_t *data = NULL;
  coap_opt_iterator_t oi;
  coap_opt_t *o = coap_check_option(rcv, COAP_OPTION_OBSERVE, &oi);
  printf(" H%d:", c);
  put_hex(tk.s, tk.length);
  if (o) printf(":%u", coap_decode_var_bytes(coap_opt_value(o), coap_opt_length(o)));
  else printf(":-");
  printf(":%u:", coap_pdu_get_code(rcv));
  if (coap_get_data(rcv, &len, &data)) put_hex(data, len);
  else putchar('-');
  cobs_t *co = co_by_token(c, tk.s, tk.length);
  /* an application that forgot or cancelled the observation rejects what still arrives for it
   * (a notification then draws an RST); the answer to the Observe:1 request itself is fine */
  if (!co) return COAP_RESPONSE_FAIL;
  if (co->st == 'f') return COAP_RESPONSE_FAIL;
  if (co->st == 'c' && o) return COAP_RESPONSE_FAIL;
  return COAP_RESPONSE_OK;
}

static int on_added(coap_session_t *session, coap_subscription_t *k, coap_proto_t pr,
                    coap_address_t *la, coap_addr_tuple_t *ai, coap_bin_const_t *raw,
                    coap_bin_const_t *osc, void *ud) {
  (void)pr; (void)la; (void)ai; (void)raw; (void)osc; (void)ud;
  printf(" A%d:", peer_of_addr(&session->addr_info.remote));
  put_hex(k->pdu->actual_token.s, k->pdu->actual_token.length);
  return 1;
}

static int on_deleted(coap_session_t *session, coap_subscription_t *k, void *ud) {
  (void)ud;
  printf(" Z%d:", peer_of_addr(&session->addr_info.remote));
  put_hex(k->pdu->actual_token.s, k->pdu->actual_token.length);
  return 1;
}

static void all_turns(void) {
  vn_prepare(srv);
  for (int c = 0; c < ncli; c++) vn_prepare(cli[c]);
}

static void pump(unsigned mask) {
  int i = 0;
  for (int guard = 0; guard < 400 && next_deliver < vn_nout; guard++, i++) {
    size_t k = next_deliver++;
    if (mask & (1u << (i & 15))) { printf(" d%zu", k); continue; }
    vn_route(k);
  }
}

static cobs_t *co_find(int c, int r, const char *q) {
  for (int i = 0; i < nco; i++)
    if (CO[i].c == c && CO[i].r == r && !strcmp(CO[i].q, q) && CO[i].st == 'a') return &CO[i];
  return NULL;
}

static void c11r(void) {
  if (vntok < 7) { puts("ERROR c11r args"); return; }
  nres = atoi(vtok[1]);
  if (nres < 1 || nres > MAXRES) { puts("ERROR c11r nres"); return; }
  g_nstart = atoi(vtok[5]);
  ncli = 0;
  int want = atoi(vtok[6]);
  if (want < 1 || want > MAXOBS) { puts("ERROR c11r nclients"); return; }
  vn_now = 1000;
  vn_nnodes = 0;
  vn_log_reset();
  base_out = 0;
  next_deliver = 0;
  nco = 0;
  vn_prng_seed(23);
  vn_on_send = on_send_hook;
  origin = 'r';
  srv = coap_new_context(NULL);
  ep = vn_new_server_ep(srv);
  if (!srv || !ep) { puts("ERROR c11r setup"); return; }
  coap_register_event_handler(srv, on_event);
  coap_persist_track_funcs(srv, on_added, on_deleted, NULL, NULL, NULL, 1, NULL);
  for (int i = 0; i < MAXRES; i++) {
    memset(&R[i], 0, sizeof(R[i]));
    R[i].id = i;
    R[i].mode = atoi(vtok[2 + i]);
  }
  for (int i = 0; i < nres; i++) mk_resource(i);
  for (int c = 0; c < want; c++) {
    cli[c] = coap_new_context(NULL);
    coap_context_set_block_mode(cli[c], COAP_BLOCK_USE_LIBCOAP);   /* needed by coap_cancel_observe */
    coap_register_response_handler(cli[c], cl_resp);
    cls[c] = vn_new_client(cli[c], &ep->bind_addr);
    if (!cls[c]) { puts("ERROR c11r client"); return; }
    ncli = c + 1;
  }
  printf("K non=%d fail=%d", COAP_OBS_MAX_NON, COAP_OBS_MAX_FAIL);
  for (int i = 7; i <= vntok; i++) {
    char *f[8];
    char opcopy[128];
    int nf;
    if (i == vntok) {
      /* closing phase: one more change everywhere, then a loss-free network until quiet */
      printf(" [final");
      for (int rep = 0; rep < 3; rep++) {
        for (int r = 0; r < nres; r++) { R[r].state++; coap_resource_notify_observers(R[r].res, NULL); }
        for (int round = 0; round < 10; round++) {
          all_turns();
          pump(0);
          vn_advance(4000);
        }
      }
      all_turns();
      pump(0);
      break;
    }
    snprintf(opcopy, sizeof(opcopy), "%s", vtok[i]);
    nf = split(vtok[i], f, 8);
    const char *op = f[0];
    printf(" [%s", opcopy);
    if (!strcmp(op, "creg") && nf >= 4) {
      int c = atoi(f[1]), r = atoi(f[2]);
      if (c < 0 || c >= ncli || r < 0 || r >= nres || nco >= 32 || co_find(c, r, f[3])) continue;
      coap_pdu_t *p = coap_new_pdu(COAP_MESSAGE_CON, COAP_REQUEST_CODE_GET, cls[c]);
      cobs_t *co = &CO[nco++];
      memset(co, 0, sizeof(*co));
      co->c = c; co->r = r; co->st = 'a';
      snprintf(co->q, sizeof(co->q), "%s", f[3]);
      coap_session_new_token(cls[c], &co->tl, co->tok);
      coap_add_token(p, co->tl, co->tok);
      coap_add_option(p, COAP_OPTION_OBSERVE, 0, NULL);
      char path[8];
      snprintf(path, sizeof(path), "r%d", r);
      coap_add_option(p, COAP_OPTION_URI_PATH, strlen(path), (const uint8_t *)path);
      if (strcmp(f[3], "-")) coap_add_option(p, COAP_OPTION_URI_QUERY, strlen(f[3]), (const uint8_t *)f[3]);
      printf("=");
      put_hex(co->tok, co->tl);
      coap_send(cls[c], p);
    } else if ((!strcmp(op, "ccan") || !strcmp(op, "cfgt")) && nf >= 4) {
      int c = atoi(f[1]), r = atoi(f[2]);
      cobs_t *co = (c >= 0 && c < ncli) ? co_find(c, r, f[3]) : NULL;
      if (!co) { printf("=none"); continue; }
      printf("=");
      put_hex(co->tok, co->tl);
      if (op[1] == 'c') {
        coap_binary_t tk = { co->tl, co->tok };
        if (coap_cancel_observe(cls[c], &tk, COAP_MESSAGE_CON)) co->st = 'c';
        else printf("=failed");
      } else {
        co->st = 'f';
      }
    } else if (!strcmp(op, "chg") && nf >= 3) {
      int r = atoi(f[1]), n = atoi(f[2]);
      if (r >= 0 && r < nres)
        for (int k = 0; k < n; k++) { R[r].state++; coap_resource_notify_observers(R[r].res, NULL); }
    } else if (!strcmp(op, "io")) {
      all_turns();
    } else if (!strcmp(op, "pump")) {
      pump(nf >= 2 ? (unsigned)strtoul(f[1], NULL, 0) : 0);
    } else if (!strcmp(op, "adv") && nf >= 2) {
      vn_advance((coap_tick_t)atol(f[1]));
      all_turns();
    } else if (!strcmp(op, "err") && nf >= 3) {
      int r = atoi(f[1]);
      if (r >= 0 && r < nres) R[r].err = atoi(f[2]);
    } else if (!strcmp(op, "lost") && nf >= 2) {
      int c = atoi(f[1]);
      coap_session_t *s = NULL, *tmp;
      if (c >= 0 && c < ncli)
        SESSIONS_ITER(ep->sessions, s, tmp) {
          if (coap_address_equals(&s->addr_info.remote, &cls[c]->addr_info.local)) break;
        }
      if (s) coap_session_disconnected(s, COAP_NACK_NOT_DELIVERABLE);
    } else if (!strcmp(op, "del") && nf >= 2) {
      int r = atoi(f[1]);
      if (r >= 0 && r < nres) {
        int o = origin;
        origin = 'g';
        coap_delete_resource(srv, R[r].res);
        origin = o;
        mk_resource(r);
      }
    }
  }
  printf(" |");
  RESOURCES_ITER(srv->resources, r) {
    hres_t *h = (hres_t *)coap_resource_get_userdata(r);
    coap_subscription_t *sb;
    int first = 1;
    printf(" R%d=%u:", h ? h->id : -1, h ? h->state : 0);
    LL_FOREACH(r->subscribers, sb) {
      if (!first) putchar(',');
      first = 0;
      printf("%d.", peer_of_addr(&sb->session->addr_info.remote));
      put_hex(sb->pdu->actual_token.s, sb->pdu->actual_token.length);
    }
    if (first) putchar('-');
  }
  for (int i = 0; i < nco; i++) {
    printf(" O%d:%d:%s:", CO[i].c, CO[i].r, CO[i].q);
    put_hex(CO[i].tok, CO[i].tl);
    printf(":%c", CO[i].st);
  }
  vn_on_send = NULL;
  for (int c = 0; c < ncli; c++) {
    vn_unregister_client(cls[c]);
    coap_session_release(cls[c]);
    coap_free_context(cli[c]);
    cls[c] = NULL;
    cli[c] = NULL;
  }
  ncli = 0;
  coap_free_context(srv);
  srv = NULL;
  ep = NULL;
  vn_log_reset();
  putchar('\n');
}

int main(void) {
  coap_startup();
  coap_set_log_level(COAP_LOG_EMERG);
  while (next_case(stdin)) {
    if (vntok == 0) { puts(""); continue; }
    if (!strcmp(vtok[0], "c11")) c11();
    else if (!strcmp(vtok[0], "c11r")) c11r();
    else puts("ERROR unknown command");
    fflush(stdout);
  }
  return 0;
}

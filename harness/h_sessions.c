/* C12 driver: one UDP server endpoint driven through the real receive path by scripted peers.
 *
 * Build: vlib.build_driver("h_sessions", ["h_sessions.c"], variant, wraps=SE_WRAPS) with
 *   coap_ticks coap_socket_send coap_socket_recv                 (common/vnet.h)
 *   coap_malloc_type coap_realloc_type coap_free_type            (common/valloc.h)
 *   coap_session_reference_lkd coap_session_release_lkd coap_endpoint_get_session   (here)
 * Nothing in libcoap is changed: the three session functions are defined in coap_session.c and
 * called from coap_net.c / coap_io.c / coap_resource.c / coap_async.c, so the linker redirects
 * exactly the calls made by the reference holders (queue node, observer, async entry, I/O loop).
 *
 * Case line:  se <seed> <session_timeout_s> <max_idle_sessions> <op>*
 *   rx:<p>:<kind>   datagram from peer p (source address 10.0.0.(1+p/4), port 40000+p%4)
 *        g NON GET /r          c CON GET /r (piggybacked)   s NON GET /s (answered with a CON)
 *        o GET /o Observe:0    O GET /oc Observe:0 (CON notifications)   d GET /o Observe:1
 *        D GET /oc Observe:1   a CON GET /a (async, answered 2 s later)
 *        h NON GET /h (the handler takes an application reference)
 *        b NON GET /b (large body, block 0)   n NON GET /b Block2 num 1
 *        B NON GET /b Block2 num 1 with an ETag that does not match
 *        z Z Y  GET /o?a, /o, /oc Observe:1 with a token that differs from the registration's
 *        u w GET /o?a, /o?b Observe:0 with other tokens (several observations of one resource by
 *          one peer)   U GET /oc?a Observe:0   y GET /o?a Observe:1
 *        x 3-byte runt         v wrong protocol version     e empty CON (ping)
 *        p q P  NON PUT /w Block1 block 0 (more), block 1 (more), block 2 (last): a block-wise
 *          upload whose reassembly state hangs off the session
 *        m NON GET /r sent to the multicast address 224.0.1.187 (response delayed by a queue
 *          node for a random leisure time)
 *   ack:<p> rst:<p>   ACK / RST for the oldest unanswered CON the server sent to p
 *   ref:<p> rel:<p>   the driver takes / drops an application reference on p's session
 *   relall            the driver drops every application reference it holds
 *   evref:<n>         from now on the SESSION_NEW event handler takes an application reference
 *                     on the sessions of peers p with p % n == 0 (0 = off)
 *   adv:<ms>          virtual time advances
 *   prep              coap_io_prepare_epoll (timers, idle scan)
 *   notify:<0|1>      coap_resource_notify_observers on /o (0) or /oc (1)
 *   disc:<p>          coap_session_disconnected on p's session
 *   free              coap_free_context; the history ends here
 * At the end of every history the context is freed (application references are dropped first
 * unless the history ended with an explicit "free").
 *
 * Client histories:  sc <seed> <op>*   (a context without endpoint; slots i = 0..15)
 *   new:<i>           coap_new_client_session to 127.0.0.1:(6000+i); the application owns the
 *                     initial reference
 *   newl:<i>          the same with an explicit local address and port
 *   dup:<i>           a second coap_new_client_session with slot i's local and remote address
 *                     (must be refused), then coap_session_get_by_peer for that peer:
 *                     G:<slot>:<sid of slot>:<sid found>
 *   send:<i>:<c|n>    CON / NON GET /r on slot i (only while the application holds a reference)
 *   resp:<i> rst:<i>  piggybacked 2.05 / RST for the oldest unanswered CON request of slot i
 *   ref:<i> rel:<i> relall adv:<ms> prep free     as above
 *   trace: NC:<sid> (session created), +,-,F,T,U,C as above, H:<slot>:<sid> (response or nack
 *   handler ran), B[<sid>:<ref>;...] W[<sid>:<nq>:<napp>;...] (context->sessions)
 *
 * Stream histories:  st <seed> <session_timeout_s> <op>*   (CoAP over TCP server endpoint on a
 *   unix-domain stream socket; connections i = 0..15; coap_socket_read / coap_socket_write of
 *   the accepted sessions are interposed, the accept itself is real)
 *   conn:<i>          a client connects and is accepted through coap_io_do_epoll
 *   csm:<i>           the client's CSM arrives (session becomes ESTABLISHED)
 *   get:<i>:<r|h|a>   GET /r (plain), /h (handler keeps an application reference), /a (async
 *                     entry, answered 2 s later)
 *   part:<i>:<n>      the first n bytes (1..33) of a 34-byte request arrive (3-byte header with
 *                     extended length, 8-byte token, options, 20-byte payload): a message cut
 *                     inside the header / token / body
 *   rest:<i>          the remaining bytes of that request arrive
 *   close:<i>         the peer closes the connection (read error): the session goes to NONE
 *   ref:<i> rel:<i> relall adv:<ms> prep free     as above
 *   extra trace tokens: A:<key>:<now> (accept, key = 1000 + i), R:<sid>:<now> (bytes read),
 *   S[<sid>:<state>;...] (session states at a boundary); F carries the state as 9th field
 *
 * Result line:  <trace> | <allocation trace> | <statistics>
 * trace tokens (in the order things happened):
 *   X:<key>:<now> Y:<sid>     coap_endpoint_get_session called / returned (sid 0 = NULL)
 *   N:<sid>:<key> D:<sid>     SERVER_SESSION_NEW / SERVER_SESSION_DEL seen by the event handler
 *   F:<sid>:<ref>:<nq>:<nobs>:<nasync>:<napp>:<dq>   the session object is released (state at
 *                             that moment: ref includes coap_session_free's own reference; dq =
 *                             delay queue empty)
 *   +:<sid>:<h> -:<sid>:<h>   reference taken / dropped (h = 1 application, 2 library)
 *   T:<sid>:<now>             datagram sent on the session
 *   H:<key>:<sid>             a request handler runs for a request of peer key on session sid
 *   P:<now>                   an idle scan has just run (end of coap_io_do_epoll / prepare)
 *   K:<sid>                   coap_session_disconnected(sid) has just returned
 *   C                         coap_free_context has just run
 *   U:<what>                  a released session was handed to the library or the driver
 *   B[<sid>:<key>:<ref>:<last>:<dq>;...]        table in iteration order at an op boundary
 *   W[<sid>:<nq>:<nobs>:<nasync>:<napp>;...]    who holds references (sessions with any)
 * Sessions are numbered in the order their objects are allocated (1, 2, ...).
 */
#include "coap3/coap_libcoap_build.h"
#include <stdarg.h>
#include <sys/socket.h>
#include <sys/un.h>
#include <unistd.h>
#include "common/util.h"
#include "common/vnet.h"
#include "common/valloc.h"

/* ------------------------------------------------------------------ output buffer */
static char *ob = NULL;
static size_t ob_len = 0, ob_cap = 0;
static void emit(const char *fmt, ...) {
  va_list ap;
  if (ob_cap - ob_len < 256) {
    ob_cap = ob_cap ? ob_cap * 2 : 65536;
    ob = (char *)realloc(ob, ob_cap);
  }
  if (ob_len) ob[ob_len++] = ' ';
  va_start(ap, fmt);
  ob_len += (size_t)vsnprintf(ob + ob_len, ob_cap - ob_len, fmt, ap);
  va_end(ap);
}

/* ------------------------------------------------------------------ session identities */
#define MAXS 8192
static struct {
  uintptr_t hp;     /* session pointer, hidden from LeakSanitizer (see valloc.h VA_HP) */
  int live;
} sess[MAXS];
static int nsess = 0; /* sid = index + 1 */

static int sid_of(const coap_session_t *s) { /* live session -> sid, 0 if unknown */
  for (int i = nsess - 1; i >= 0; i--)
    if (sess[i].hp == VA_HP(s) && sess[i].live) return i + 1;
  return 0;
}
static int dead_sid_of(const coap_session_t *s) {
  for (int i = nsess - 1; i >= 0; i--)
    if (sess[i].hp == VA_HP(s)) return i + 1;
  return 0;
}

#define MAXP 256
static int app_refs[MAXP];              /* references the application holds, per peer */
static coap_session_t *app_sess[MAXP];
static coap_context_t *g_ctx = NULL;
static coap_endpoint_t *g_ep = NULL;
static coap_resource_t *res_o = NULL, *res_oc = NULL;
static unsigned n_uaf_marks = 0;

static long key_of_addr(const coap_address_t *a) {
  if (a->addr.sa.sa_family != AF_INET) return -1;
  uint32_t ip = ntohl(a->addr.sin.sin_addr.s_addr);
  unsigned port = ntohs(a->addr.sin.sin_port);
  return (long)(ip - 0x0a000001u) * 4 + (long)(port - 40000);
}
static void addr_of_key(coap_address_t *a, int p) {
  vn_addr4(a, 0x0a000001u + (uint32_t)(p / 4), (uint16_t)(40000 + p % 4));
}

static int st_mode = 0;                 /* stream history: sessions are identified by slot */
static int st_napp_of(const coap_session_t *s);
static long st_key_of(const coap_session_t *s);
static long skey_of(const coap_session_t *s) {
  return st_mode ? st_key_of(s) : key_of_addr(&s->addr_info.remote);
}
static int napp_of(const coap_session_t *s) {
  int n = 0;
  if (st_mode) return st_napp_of(s);
  for (int p = 0; p < MAXP; p++)
    if (app_sess[p] == s) n += app_refs[p];
  return n;
}
static void holders_of(const coap_session_t *s, int *nq, int *nobs, int *nasync) {
  *nq = *nobs = *nasync = 0;
  if (!g_ctx) return;
  for (coap_queue_t *q = g_ctx->sendqueue; q; q = q->next)
    if (q->session == s) (*nq)++;
  RESOURCES_ITER(g_ctx->resources, r) {
    coap_subscription_t *o;
    LL_FOREACH(r->subscribers, o) if (o->session == s) (*nobs)++;
  }
#if COAP_ASYNC_SUPPORT
  coap_async_t *a;
  LL_FOREACH(g_ctx->async_state, a) if (a->session == s) (*nasync)++;
#endif
}

static int creating = 0;          /* a session creation that may be refused is under way */
static uintptr_t creating_hp = 0;
static void register_session(uintptr_t hp) {
  if (nsess < MAXS) {
    sess[nsess].hp = hp;
    sess[nsess].live = 1;
    nsess++;
  }
}
static void on_alloc(int type, void *p, uint32_t id, size_t size) {
  (void)id; (void)size;
  if (type != COAP_SESSION) return;
  if (creating) {               /* numbered only if the creation succeeds */
    creating_hp = VA_HP(p);
    return;
  }
  if (nsess < MAXS) {
    sess[nsess].hp = VA_HP(p);
    sess[nsess].live = 1;
    nsess++;
  }
}
static void on_free(int type, void *p, uint32_t id) {
  (void)id;
  if (type != COAP_SESSION) return;
  coap_session_t *s = (coap_session_t *)p;
  int sid = sid_of(s);
  int nq, nobs, nasync;
  holders_of(s, &nq, &nobs, &nasync);
  emit("F:%d:%u:%d:%d:%d:%d:%d:%d", sid, s->ref, nq, nobs, nasync, napp_of(s), s->delayqueue == NULL,
       (int)s->state);
  if (sid) sess[sid - 1].live = 0;
}

static int checked_sid(const coap_session_t *s, const char *what) {
  int sid = sid_of(s);
  if (!sid) {
    emit("U:%s:%d", what, dead_sid_of(s));
    n_uaf_marks++;
  }
  return sid;
}

/* ------------------------------------------------------------------ interposed session calls */
coap_session_t *__real_coap_session_reference_lkd(coap_session_t *session);
void __real_coap_session_release_lkd(coap_session_t *session);
coap_session_t *__real_coap_endpoint_get_session(coap_endpoint_t *endpoint,
                                                 const coap_packet_t *packet, coap_tick_t now);

coap_session_t *__wrap_coap_session_reference_lkd(coap_session_t *session) {
  int sid = checked_sid(session, "reference");
  if (sid) emit("+:%d:2", sid);
  else return session;             /* do not touch a released object */
  return __real_coap_session_reference_lkd(session);
}
void __wrap_coap_session_release_lkd(coap_session_t *session) {
  if (!session) return;
  int sid = checked_sid(session, "release");
  if (!sid) return;
  emit("-:%d:2", sid);
  __real_coap_session_release_lkd(session);
}
coap_session_t *__wrap_coap_endpoint_get_session(coap_endpoint_t *endpoint,
                                                 const coap_packet_t *packet, coap_tick_t now) {
  emit("X:%ld:%llu", key_of_addr(&packet->addr_info.remote), (unsigned long long)now);
  coap_session_t *s = __real_coap_endpoint_get_session(endpoint, packet, now);
  emit("Y:%d", s ? checked_sid(s, "get_session") : 0);
  return s;
}

static void on_send(size_t idx) {
  coap_session_t *s = vn_out[idx].session;
  int sid = s ? checked_sid(s, "send") : 0;
  if (sid) emit("T:%d:%llu", sid, (unsigned long long)vn_now);
}

/* ------------------------------------------------------------------ application callbacks */
static int evref_mod = 0;   /* > 0: the SESSION_NEW handler keeps sessions of peers p % mod == 0 */
static int on_event(coap_session_t *s, const coap_event_t ev) {
  if (ev == COAP_EVENT_SERVER_SESSION_NEW) {
    long p = st_mode ? st_key_of(s) : key_of_addr(&s->addr_info.remote);
    int sid = checked_sid(s, "event_new");
    emit("N:%d:%ld", sid, p);
    if (!st_mode && evref_mod > 0 && sid && p >= 0 && p < MAXP && p % evref_mod == 0) {
      emit("+:%d:1", sid);
      coap_session_reference(s);
      app_refs[p]++;
      app_sess[p] = s;
    }
  }
  else if (ev == COAP_EVENT_SERVER_SESSION_DEL)
    emit("D:%d", checked_sid(s, "event_del"));
  return 0;
}

static void note_handler(coap_session_t *s) {
  emit("H:%ld:%d", key_of_addr(&s->addr_info.remote), checked_sid(s, "handler"));
}

static void h_plain(coap_resource_t *r, coap_session_t *s, const coap_pdu_t *req,
                    const coap_string_t *q, coap_pdu_t *resp) {
  (void)r; (void)req; (void)q;
  note_handler(s);
  coap_pdu_set_code(resp, COAP_RESPONSE_CODE_CONTENT);
  coap_add_data(resp, 5, (const uint8_t *)"hello");
}
static void h_sep(coap_resource_t *r, coap_session_t *s, const coap_pdu_t *req,
                  const coap_string_t *q, coap_pdu_t *resp) {
  (void)r; (void)req; (void)q;
  note_handler(s);
  coap_pdu_set_type(resp, COAP_MESSAGE_CON);
  coap_pdu_set_code(resp, COAP_RESPONSE_CODE_CONTENT);
  coap_add_data(resp, 3, (const uint8_t *)"sep");
}
static void h_hold(coap_resource_t *r, coap_session_t *s, const coap_pdu_t *req,
                   const coap_string_t *q, coap_pdu_t *resp) {
  (void)r; (void)req; (void)q;
  note_handler(s);
  long p = key_of_addr(&s->addr_info.remote);
  if (p >= 0 && p < MAXP) {
    int sid = checked_sid(s, "app_reference");
    if (sid) {
      emit("+:%d:1", sid);
      coap_session_reference(s);
      app_refs[p]++;
      app_sess[p] = s;
    }
  }
  coap_pdu_set_code(resp, COAP_RESPONSE_CODE_CONTENT);
}
static void h_async(coap_resource_t *r, coap_session_t *s, const coap_pdu_t *req,
                    const coap_string_t *q, coap_pdu_t *resp) {
  (void)r; (void)q;
  note_handler(s);
  coap_bin_const_t token = coap_pdu_get_token(req);
  if (!coap_find_async(s, token)) {
    if (coap_register_async(s, req, 2 * COAP_TICKS_PER_SECOND)) return;   /* empty ACK */
    coap_pdu_set_code(resp, COAP_RESPONSE_CODE_SERVICE_UNAVAILABLE);
    return;
  }
  coap_pdu_set_code(resp, COAP_RESPONSE_CODE_CONTENT);
  coap_add_data(resp, 4, (const uint8_t *)"done");
}
static void h_put(coap_resource_t *r, coap_session_t *s, const coap_pdu_t *req,
                  const coap_string_t *q, coap_pdu_t *resp) {
  (void)r; (void)req; (void)q;
  note_handler(s);
  coap_pdu_set_code(resp, COAP_RESPONSE_CODE_CHANGED);
}
static uint8_t big_body[2500];
static void h_big(coap_resource_t *r, coap_session_t *s, const coap_pdu_t *req,
                  const coap_string_t *q, coap_pdu_t *resp) {
  note_handler(s);
  coap_pdu_set_code(resp, COAP_RESPONSE_CODE_CONTENT);
  coap_add_data_large_response(r, s, req, resp, q, COAP_MEDIATYPE_TEXT_PLAIN, -1, 0x1234,
                               sizeof(big_body), big_body, NULL, NULL);
}

/* ------------------------------------------------------------------ snapshots */
static void snapshot(void) {
  coap_session_t *s, *tmp;
  if (!g_ctx || !g_ep) {
    emit("B[]");
    emit("W[]");
    return;
  }
  emit("B[");
  int first = 1;
  SESSIONS_ITER(g_ep->sessions, s, tmp) {
    if (ob_cap - ob_len < 256) {
      ob_cap *= 2;
      ob = (char *)realloc(ob, ob_cap);
    }
    ob_len += (size_t)snprintf(ob + ob_len, ob_cap - ob_len, "%s%d:%ld:%u:%llu:%d", first ? "" : ";",
                               sid_of(s), skey_of(s), s->ref,
                               (unsigned long long)s->last_rx_tx, s->delayqueue == NULL);
    first = 0;
  }
  ob[ob_len++] = ']';
  ob[ob_len] = 0;
  emit("W[");
  first = 1;
  SESSIONS_ITER(g_ep->sessions, s, tmp) {
    int nq, nobs, nasync, napp = napp_of(s);
    holders_of(s, &nq, &nobs, &nasync);
    if (!(nq || nobs || nasync || napp || s->ref)) continue;
    if (ob_cap - ob_len < 256) {
      ob_cap *= 2;
      ob = (char *)realloc(ob, ob_cap);
    }
    ob_len += (size_t)snprintf(ob + ob_len, ob_cap - ob_len, "%s%d:%d:%d:%d:%d", first ? "" : ";",
                               sid_of(s), nq, nobs, nasync, napp);
    first = 0;
  }
  ob[ob_len++] = ']';
  ob[ob_len] = 0;
  if (st_mode) {
    emit("S[");
    first = 1;
    SESSIONS_ITER(g_ep->sessions, s, tmp) {
      if (ob_cap - ob_len < 256) {
        ob_cap *= 2;
        ob = (char *)realloc(ob, ob_cap);
      }
      ob_len += (size_t)snprintf(ob + ob_len, ob_cap - ob_len, "%s%d:%d", first ? "" : ";", sid_of(s),
                                 (int)s->state);
      first = 0;
    }
    ob[ob_len++] = ']';
    ob[ob_len] = 0;
  }
}

/* ------------------------------------------------------------------ scripted peers */
static unsigned peer_mid[MAXP];
static size_t answered_upto[MAXP];   /* vn_out index below which CONs to p are answered */

static size_t put_opt(uint8_t *b, unsigned *last, unsigned num, const uint8_t *v, size_t len) {
  unsigned d = num - *last;                 /* deltas < 269, lengths < 13 only */
  size_t n = 0;
  if (d < 13) {
    b[n++] = (uint8_t)((d << 4) | len);
  } else {
    b[n++] = (uint8_t)((13 << 4) | len);
    b[n++] = (uint8_t)(d - 13);
  }
  memcpy(b + n, v, len);
  *last = num;
  return n + len;
}

/* NON PUT /w with Block1 (16-byte blocks): block <num>, more flag */
static size_t mk_put(uint8_t *b, int p, int num, int more) {
  size_t n = 0;
  unsigned mid = ++peer_mid[p];
  b[n++] = (uint8_t)(0x40 | 0x10 | 2);
  b[n++] = COAP_REQUEST_CODE_PUT;
  b[n++] = (uint8_t)(mid >> 8);
  b[n++] = (uint8_t)mid;
  b[n++] = (uint8_t)(0xB0 + (p >> 6));
  b[n++] = (uint8_t)p;
  unsigned last = 0;
  n += put_opt(b + n, &last, COAP_OPTION_URI_PATH, (const uint8_t *)"w", 1);
  uint8_t v = (uint8_t)((num << 4) | (more ? 8 : 0));
  n += put_opt(b + n, &last, COAP_OPTION_BLOCK1, &v, 1);
  b[n++] = 0xff;
  for (int i = 0; i < 16; i++) b[n++] = (uint8_t)('A' + i);
  return n;
}

static const char *mk_query = NULL;   /* Uri-Query of the next request, and a token variant */
static unsigned mk_tokv = 0;
static size_t mk_request(uint8_t *b, int p, int con, const char *path, int observe,
                         int block2_num, int etag) {
  size_t n = 0;
  unsigned mid = ++peer_mid[p];
  b[n++] = (uint8_t)(0x40 | (con ? 0x00 : 0x10) | 2);
  b[n++] = COAP_REQUEST_CODE_GET;
  b[n++] = (uint8_t)(mid >> 8);
  b[n++] = (uint8_t)mid;
  b[n++] = (uint8_t)(0xA0 + (p >> 6) + 0x10 * mk_tokv); /* token: a function of the peer */
  b[n++] = (uint8_t)p;
  unsigned last = 0;
  if (etag >= 0) {
    uint8_t e[2] = {(uint8_t)(etag >> 8), (uint8_t)etag};
    n += put_opt(b + n, &last, COAP_OPTION_ETAG, e, 2);
  }
  if (observe >= 0) {
    uint8_t o = (uint8_t)observe;
    n += put_opt(b + n, &last, COAP_OPTION_OBSERVE, &o, observe ? 1 : 0);
  }
  n += put_opt(b + n, &last, COAP_OPTION_URI_PATH, (const uint8_t *)path, strlen(path));
  if (mk_query)
    n += put_opt(b + n, &last, COAP_OPTION_URI_QUERY, (const uint8_t *)mk_query, strlen(mk_query));
  mk_query = NULL;
  mk_tokv = 0;
  if (block2_num >= 0) {
    uint8_t v = (uint8_t)((block2_num << 4) | 6);   /* szx 6 = 1024 byte blocks */
    n += put_opt(b + n, &last, COAP_OPTION_BLOCK2, &v, 1);
  }
  return n;
}

static void inject_to(int p, const uint8_t *b, size_t n, int mcast) {
  coap_address_t src, local;
  addr_of_key(&src, p);
  if (mcast) {   /* All CoAP Nodes 224.0.1.187, the endpoint's port */
    vn_addr4(&local, 0xe00001bbu, ntohs(g_ep->bind_addr.addr.sin.sin_port));
    vn_inject_ep(g_ctx, g_ep, &src, &local, b, n);
  } else {
    vn_inject_ep(g_ctx, g_ep, &src, NULL, b, n);
  }
  emit("P:%llu", (unsigned long long)vn_now);
}
static void inject(int p, const uint8_t *b, size_t n) {
  inject_to(p, b, n, 0);
}

static coap_session_t *live_session_of(int p) {
  coap_session_t *s, *tmp;
  SESSIONS_ITER(g_ep->sessions, s, tmp) {
    if (key_of_addr(&s->addr_info.remote) == p) return s;
  }
  return NULL;
}

/* the oldest CON the server sent to p that the script has not answered yet; -1 if none */
static long oldest_unanswered_con(int p) {
  coap_address_t a;
  addr_of_key(&a, p);
  for (size_t i = answered_upto[p]; i < vn_nout; i++) {
    const vn_dgram_t *d = &vn_out[i];
    if (d->len >= 4 && ((d->data[0] >> 4) & 3) == COAP_MESSAGE_CON &&
        coap_address_equals(&d->dst, &a)) {
      answered_upto[p] = i + 1;
      return (long)((d->data[2] << 8) | d->data[3]);
    }
  }
  answered_upto[p] = vn_nout;
  return -1;
}

static void drop_app_refs(void) {
  for (int p = 0; p < MAXP; p++) {
    while (app_refs[p] > 0) {
      int sid = checked_sid(app_sess[p], "app_release");
      app_refs[p]--;
      if (sid) {
        emit("-:%d:1", sid);
        coap_session_release(app_sess[p]);
      }
    }
    app_sess[p] = NULL;
  }
}

static void teardown(void) {
  if (!g_ctx) return;
  coap_free_context(g_ctx);
  emit("C");
  g_ctx = NULL;
  g_ep = NULL;
  res_o = res_oc = NULL;
}

static void add_res(const char *path, coap_method_handler_t h, int observable, int flags) {
  coap_resource_t *r = coap_resource_init(coap_make_str_const(path), flags);
  coap_register_request_handler(r, COAP_REQUEST_GET, h);
  if (observable) coap_resource_set_get_observable(r, 1);
  coap_add_resource(g_ctx, r);
  if (observable) {
    if (flags & COAP_RESOURCE_FLAGS_NOTIFY_CON) res_oc = r;
    else res_o = r;
  }
}

static void run_history(void) {
  /* vtok: se seed timeout maxidle ops... */
  unsigned long seed = strtoul(vtok[1], NULL, 10);
  unsigned timeout = (unsigned)strtoul(vtok[2], NULL, 10);
  unsigned maxidle = (unsigned)strtoul(vtok[3], NULL, 10);
  int explicit_free = 0;

  ob_len = 0;
  if (!ob) {
    ob_cap = 65536;
    ob = (char *)malloc(ob_cap);
  }
  ob[0] = 0;
  va_reset();
  vn_log_reset();
  vn_nnodes = 0;
  vn_now = 1000;
  vn_prng_seed(seed);
  vn_on_send = on_send;
  nsess = 0;
  n_uaf_marks = 0;
  evref_mod = 0;
  memset(app_refs, 0, sizeof(app_refs));
  memset(app_sess, 0, sizeof(app_sess));
  memset(peer_mid, 0, sizeof(peer_mid));
  memset(answered_upto, 0, sizeof(answered_upto));
  va_on_alloc = on_alloc;
  va_on_free = on_free;

  g_ctx = coap_new_context(NULL);
  coap_context_set_block_mode(g_ctx, COAP_BLOCK_USE_LIBCOAP | COAP_BLOCK_SINGLE_BODY);
  coap_context_set_session_timeout(g_ctx, timeout);
  coap_context_set_max_idle_sessions(g_ctx, maxidle);
  coap_register_event_handler(g_ctx, on_event);
  g_ep = vn_new_server_ep(g_ctx);
  add_res("r", h_plain, 0, 0);
  add_res("s", h_sep, 0, 0);
  add_res("h", h_hold, 0, 0);
  add_res("a", h_async, 0, 0);
  add_res("b", h_big, 0, 0);
  {
    coap_resource_t *w = coap_resource_init(coap_make_str_const("w"), 0);
    coap_register_request_handler(w, COAP_REQUEST_PUT, h_put);
    coap_add_resource(g_ctx, w);
  }
  add_res("o", h_plain, 1, COAP_RESOURCE_FLAGS_NOTIFY_NON);
  add_res("oc", h_plain, 1, COAP_RESOURCE_FLAGS_NOTIFY_CON);
  snapshot();

  for (int i = 4; i < vntok && g_ctx; i++) {
    char *op = vtok[i];
    uint8_t b[96];
    size_t n;
    if (!strncmp(op, "rx:", 3)) {
      int p = atoi(op + 3);
      char *c = strchr(op + 3, ':');
      char k = c ? c[1] : 'g';
      int mc = 0;
      if (p < 0 || p >= MAXP) continue;
      switch (k) {
      case 'g': n = mk_request(b, p, 0, "r", -1, -1, -1); break;
      case 'c': n = mk_request(b, p, 1, "r", -1, -1, -1); break;
      case 's': n = mk_request(b, p, 0, "s", -1, -1, -1); break;
      case 'o': n = mk_request(b, p, 0, "o", 0, -1, -1); break;
      case 'O': n = mk_request(b, p, 0, "oc", 0, -1, -1); break;
      case 'd': n = mk_request(b, p, 0, "o", 1, -1, -1); break;
      /* further observations of the same resource by the same peer: other query, other token */
      case 'u': mk_query = "a"; mk_tokv = 1; n = mk_request(b, p, 0, "o", 0, -1, -1); break;
      case 'w': mk_query = "b"; mk_tokv = 2; n = mk_request(b, p, 0, "o", 0, -1, -1); break;
      case 'U': mk_query = "a"; mk_tokv = 1; n = mk_request(b, p, 0, "oc", 0, -1, -1); break;
      case 'y': mk_query = "a"; mk_tokv = 1; n = mk_request(b, p, 0, "o", 1, -1, -1); break;
      /* cancel (Observe:1) with a token other than the one used to register */
      case 'z': mk_query = "a"; mk_tokv = 3; n = mk_request(b, p, 0, "o", 1, -1, -1); break;
      case 'Z': mk_tokv = 3; n = mk_request(b, p, 0, "o", 1, -1, -1); break;
      case 'Y': mk_tokv = 3; n = mk_request(b, p, 0, "oc", 1, -1, -1); break;
      case 'D': n = mk_request(b, p, 0, "oc", 1, -1, -1); break;
      case 'a': n = mk_request(b, p, 1, "a", -1, -1, -1); break;
      case 'h': n = mk_request(b, p, 0, "h", -1, -1, -1); break;
      case 'b': n = mk_request(b, p, 0, "b", -1, -1, -1); break;
      case 'n': n = mk_request(b, p, 0, "b", -1, 1, -1); break;
      case 'B': n = mk_request(b, p, 0, "b", -1, 1, 0x7777); break;
      case 'm': n = mk_request(b, p, 0, "r", -1, -1, -1); mc = 1; break;
      case 'p': n = mk_put(b, p, 0, 1); break;
      case 'q': n = mk_put(b, p, 1, 1); break;
      case 'P': n = mk_put(b, p, 2, 0); break;
      case 'x': b[0] = 0x40; b[1] = 1; b[2] = 0; n = 3; break;
      case 'v': n = mk_request(b, p, 0, "r", -1, -1, -1); b[0] = (uint8_t)((b[0] & 0x3f) | 0x80); break;
      case 'e': {
        unsigned mid = ++peer_mid[p];
        b[0] = 0x40; b[1] = 0; b[2] = (uint8_t)(mid >> 8); b[3] = (uint8_t)mid; n = 4;
        break;
      }
      default: n = mk_request(b, p, 0, "r", -1, -1, -1); break;
      }
      inject_to(p, b, n, mc);
    } else if (!strncmp(op, "ack:", 4) || !strncmp(op, "rst:", 4)) {
      int p = atoi(op + 4);
      if (p < 0 || p >= MAXP) continue;
      long mid = oldest_unanswered_con(p);
      if (mid < 0) mid = 0xfffe;
      b[0] = (uint8_t)(0x40 | ((op[0] == 'a' ? COAP_MESSAGE_ACK : COAP_MESSAGE_RST) << 4));
      b[1] = 0;
      b[2] = (uint8_t)(mid >> 8);
      b[3] = (uint8_t)mid;
      inject(p, b, 4);
    } else if (!strncmp(op, "ref:", 4)) {
      int p = atoi(op + 4);
      coap_session_t *s = (p >= 0 && p < MAXP) ? live_session_of(p) : NULL;
      if (s) {
        emit("+:%d:1", sid_of(s));
        coap_session_reference(s);
        app_refs[p]++;
        app_sess[p] = s;
      }
    } else if (!strncmp(op, "rel:", 4)) {
      int p = atoi(op + 4);
      if (p >= 0 && p < MAXP && app_refs[p] > 0) {
        int sid = checked_sid(app_sess[p], "app_release");
        app_refs[p]--;
        if (sid) {
          emit("-:%d:1", sid);
          coap_session_release(app_sess[p]);
        }
        if (!app_refs[p]) app_sess[p] = NULL;
      }
    } else if (!strcmp(op, "relall")) {
      drop_app_refs();
    } else if (!strncmp(op, "evref:", 6)) {
      evref_mod = atoi(op + 6);
    } else if (!strncmp(op, "adv:", 4)) {
      vn_advance((coap_tick_t)strtoull(op + 4, NULL, 10));
    } else if (!strcmp(op, "prep")) {
      vn_prepare(g_ctx);
      emit("P:%llu", (unsigned long long)vn_now);
    } else if (!strncmp(op, "notify:", 7)) {
      coap_resource_t *r = atoi(op + 7) ? res_oc : res_o;
      if (r) coap_resource_notify_observers(r, NULL);
    } else if (!strncmp(op, "disc:", 5)) {
      int p = atoi(op + 5);
      coap_session_t *s = (p >= 0 && p < MAXP) ? live_session_of(p) : NULL;
      if (s) {
        int sid = sid_of(s);
        coap_session_disconnected(s, COAP_NACK_NOT_DELIVERABLE);
        emit("K:%d", sid);     /* disconnected: nothing of the library may hang off it any more */
      }
    } else if (!strcmp(op, "freeep")) {
      /* probe only (not generated): coap_free_endpoint() on a live context */
      if (g_ep) {
        coap_free_endpoint(g_ep);
        vn_nnodes = 0;
        g_ep = NULL;
      }
    } else if (!strcmp(op, "free")) {
      explicit_free = 1;
      teardown();
    }
    snapshot();
  }
  if (g_ctx) {
    drop_app_refs();
    teardown();
    snapshot();
  }
  (void)explicit_free;
  vn_log_reset();
  unsigned long uaf = va_flush();
  fputs(ob, stdout);
  fputs(" | ", stdout);
  va_dump(stdout);
  printf(" | uaf_writes=%lu bad_frees=%lu uaf_marks=%u live=%zu types=", uaf, va_bad_frees,
         n_uaf_marks, va_live_count());
  va_dump_live_types(stdout);
  printf(" sessions=%d\n", nsess);
  fflush(stdout);
}

/* ------------------------------------------------------------------ client histories */
#define MAXC 16
static uintptr_t c_hp[MAXC];            /* hidden session pointer per slot */
static int c_refs[MAXC];                /* application references per slot */
static size_t c_answered[MAXC];

static coap_session_t *c_sess(int i) {
  return c_hp[i] ? (coap_session_t *)(c_hp[i] ^ VA_HIDE) : NULL;
}
static int c_slot_of(const coap_session_t *s) {
  for (int i = 0; i < MAXC; i++)
    if (c_hp[i] && c_hp[i] == VA_HP(s)) return i;
  return -1;
}
static int c_napp_of(const coap_session_t *s) {
  int i = c_slot_of(s);
  return i >= 0 ? c_refs[i] : 0;
}

static coap_response_t c_on_resp(coap_session_t *s, const coap_pdu_t *sent, const coap_pdu_t *rcv,
                                 const coap_mid_t mid) {
  (void)sent; (void)rcv; (void)mid;
  emit("H:%d:%d", c_slot_of(s), checked_sid(s, "response_handler"));
  return COAP_RESPONSE_OK;
}
static void c_on_nack(coap_session_t *s, const coap_pdu_t *sent, const coap_nack_reason_t reason,
                      const coap_mid_t mid) {
  (void)sent; (void)reason; (void)mid;
  emit("H:%d:%d", c_slot_of(s), checked_sid(s, "nack_handler"));
}

static void c_on_free(int type, void *p, uint32_t id) {
  (void)id;
  if (type != COAP_SESSION) return;
  coap_session_t *s = (coap_session_t *)p;
  int sid = sid_of(s);
  if (!sid && creating) return;      /* the refused session object itself */
  int nq, nobs, nasync;
  holders_of(s, &nq, &nobs, &nasync);
  emit("F:%d:%u:%d:%d:%d:%d:%d", sid, s->ref, nq, nobs, nasync, c_napp_of(s), s->delayqueue == NULL);
  if (sid) sess[sid - 1].live = 0;
}

static void c_snapshot(void) {
  coap_session_t *s, *tmp;
  if (!g_ctx) {
    emit("B[]");
    emit("W[]");
    return;
  }
  emit("B[");
  int first = 1;
  SESSIONS_ITER(g_ctx->sessions, s, tmp) {
    if (ob_cap - ob_len < 256) {
      ob_cap *= 2;
      ob = (char *)realloc(ob, ob_cap);
    }
    ob_len += (size_t)snprintf(ob + ob_len, ob_cap - ob_len, "%s%d:%u", first ? "" : ";",
                               sid_of(s), s->ref);
    first = 0;
  }
  ob[ob_len++] = ']';
  ob[ob_len] = 0;
  emit("W[");
  first = 1;
  SESSIONS_ITER(g_ctx->sessions, s, tmp) {
    int nq, nobs, nasync;
    holders_of(s, &nq, &nobs, &nasync);
    if (ob_cap - ob_len < 256) {
      ob_cap *= 2;
      ob = (char *)realloc(ob, ob_cap);
    }
    ob_len += (size_t)snprintf(ob + ob_len, ob_cap - ob_len, "%s%d:%d:%d", first ? "" : ";",
                               sid_of(s), nq, c_napp_of(s));
    first = 0;
  }
  ob[ob_len++] = ']';
  ob[ob_len] = 0;
}

static void c_drop_app_refs(void) {
  for (int i = 0; i < MAXC; i++) {
    while (c_refs[i] > 0) {
      coap_session_t *s = c_sess(i);
      int sid = checked_sid(s, "app_release");
      c_refs[i]--;
      if (sid) {
        emit("-:%d:1", sid);
        coap_session_release(s);
      }
    }
    c_hp[i] = 0;
  }
}

/* oldest CON request sent on session s that the script has not answered; -1 if none */
static long c_oldest_con(int i, const coap_session_t *s) {
  for (size_t k = c_answered[i]; k < vn_nout; k++) {
    const vn_dgram_t *d = &vn_out[k];
    if (d->session == s && d->len >= 4 && ((d->data[0] >> 4) & 3) == COAP_MESSAGE_CON) {
      c_answered[i] = k + 1;
      return (long)k;
    }
  }
  c_answered[i] = vn_nout;
  return -1;
}

static void run_client_history(void) {
  unsigned long seed = strtoul(vtok[1], NULL, 10);
  ob_len = 0;
  if (!ob) {
    ob_cap = 65536;
    ob = (char *)malloc(ob_cap);
  }
  ob[0] = 0;
  va_reset();
  vn_log_reset();
  vn_nnodes = 0;
  vn_now = 1000;
  vn_prng_seed(seed);
  vn_on_send = on_send;
  nsess = 0;
  n_uaf_marks = 0;
  memset(c_hp, 0, sizeof(c_hp));
  memset(c_refs, 0, sizeof(c_refs));
  memset(c_answered, 0, sizeof(c_answered));
  memset(app_refs, 0, sizeof(app_refs));
  memset(app_sess, 0, sizeof(app_sess));
  va_on_alloc = on_alloc;
  va_on_free = c_on_free;
  g_ep = NULL;
  g_ctx = coap_new_context(NULL);
  coap_register_response_handler(g_ctx, c_on_resp);
  coap_register_nack_handler(g_ctx, c_on_nack);
  c_snapshot();

  for (int t = 2; t < vntok && g_ctx; t++) {
    char *op = vtok[t];
    if (!strncmp(op, "new:", 4) || !strncmp(op, "newl:", 5)) {
      int explicit_local = op[3] == 'l';
      int i = atoi(op + (explicit_local ? 5 : 4));
      if (i < 0 || i >= MAXC || c_refs[i] > 0) continue;
      coap_session_t *old = c_sess(i);
      if (old && sid_of(old)) continue;     /* still alive (a queued message holds it) */
      coap_address_t a, l;
      vn_addr4(&a, VN_LOOPBACK, (uint16_t)(6000 + i));
      /* explicit local address and port (bound with SO_REUSEADDR, so that only libcoap's own
       * 4-tuple check refuses a duplicate) */
      vn_addr4(&l, VN_LOOPBACK, (uint16_t)(20000 + ((unsigned)getpid() * 16u) % 30000u + (unsigned)i));
      creating = 1;
      creating_hp = 0;
      coap_session_t *s = coap_new_client_session(g_ctx, explicit_local ? &l : NULL, &a, COAP_PROTO_UDP);
      creating = 0;
      if (s) {
        register_session(VA_HP(s));
        c_hp[i] = VA_HP(s);
        c_refs[i] = 1;
        c_answered[i] = vn_nout;
        emit("NC:%d", sid_of(s));
      }
    } else if (!strncmp(op, "dup:", 4)) {
      /* a second session with the same local and remote address must be refused, and the
       * refusal must not disturb the sessions that exist */
      int i = atoi(op + 4);
      if (i < 0 || i >= MAXC || c_refs[i] <= 0) continue;
      coap_session_t *s = c_sess(i);
      coap_address_t l, r;
      coap_address_copy(&l, &s->addr_info.local);
      coap_address_copy(&r, &s->addr_info.remote);
      creating = 1;
      creating_hp = 0;
      coap_session_t *d = coap_new_client_session(g_ctx, &l, &r, COAP_PROTO_UDP);
      creating = 0;
      if (d) {
        register_session(VA_HP(d));
        emit("U:duplicate_accepted:%d", sid_of(d));
        n_uaf_marks++;
        coap_session_release(d);
      }
      coap_session_t *g = coap_session_get_by_peer(g_ctx, &r, s->ifindex);
      emit("G:%d:%d:%d", i, sid_of(s), g ? sid_of(g) : 0);
    } else if (!strncmp(op, "send:", 5)) {
      int i = atoi(op + 5);
      char *c = strchr(op + 5, ':');
      int con = !(c && c[1] == 'n');
      if (i < 0 || i >= MAXC || c_refs[i] <= 0) continue;
      coap_session_t *s = c_sess(i);
      coap_pdu_t *p = coap_new_pdu(con ? COAP_MESSAGE_CON : COAP_MESSAGE_NON, COAP_REQUEST_CODE_GET, s);
      if (p) {
        uint8_t tok[8];
        size_t tl;
        coap_session_new_token(s, &tl, tok);
        coap_add_token(p, tl, tok);
        coap_add_option(p, COAP_OPTION_URI_PATH, 1, (const uint8_t *)"r");
        coap_send(s, p);
      }
    } else if (!strncmp(op, "resp:", 5) || !strncmp(op, "rst:", 4)) {
      int is_rst = op[1] == 's';
      int i = atoi(op + (is_rst ? 4 : 5));
      if (i < 0 || i >= MAXC) continue;
      coap_session_t *s = c_sess(i);
      if (!s || !sid_of(s)) continue;
      long k = c_oldest_con(i, s);
      if (k < 0) continue;
      uint8_t b[32];
      size_t n = 0;
      unsigned tkl = vn_out[k].data[0] & 15;
      if (tkl > 8) tkl = 0;
      b[n++] = (uint8_t)(0x40 | ((is_rst ? COAP_MESSAGE_RST : COAP_MESSAGE_ACK) << 4) | (is_rst ? 0 : tkl));
      b[n++] = is_rst ? 0 : COAP_RESPONSE_CODE_CONTENT;
      b[n++] = vn_out[k].data[2];
      b[n++] = vn_out[k].data[3];
      if (!is_rst) {
        memcpy(b + n, vn_out[k].data + 4, tkl);
        n += tkl;
      }
      vn_inject_session(g_ctx, s, b, n);
      emit("P:%llu", (unsigned long long)vn_now);
    } else if (!strncmp(op, "ref:", 4)) {
      int i = atoi(op + 4);
      if (i < 0 || i >= MAXC || c_refs[i] <= 0) continue;
      coap_session_t *s = c_sess(i);
      emit("+:%d:1", sid_of(s));
      coap_session_reference(s);
      c_refs[i]++;
    } else if (!strncmp(op, "rel:", 4)) {
      int i = atoi(op + 4);
      if (i < 0 || i >= MAXC || c_refs[i] <= 0) continue;
      coap_session_t *s = c_sess(i);
      int sid = checked_sid(s, "app_release");
      c_refs[i]--;
      if (sid) {
        emit("-:%d:1", sid);
        coap_session_release(s);
      }
    } else if (!strcmp(op, "relall")) {
      c_drop_app_refs();
    } else if (!strncmp(op, "adv:", 4)) {
      vn_advance((coap_tick_t)strtoull(op + 4, NULL, 10));
    } else if (!strcmp(op, "prep")) {
      vn_prepare(g_ctx);
      emit("P:%llu", (unsigned long long)vn_now);
    } else if (!strcmp(op, "free")) {
      teardown();
    }
    c_snapshot();
  }
  if (g_ctx) {
    c_drop_app_refs();
    teardown();
    c_snapshot();
  }
  vn_log_reset();
  unsigned long uaf = va_flush();
  fputs(ob, stdout);
  fputs(" | ", stdout);
  va_dump(stdout);
  printf(" | uaf_writes=%lu bad_frees=%lu uaf_marks=%u live=%zu types=", uaf, va_bad_frees,
         n_uaf_marks, va_live_count());
  va_dump_live_types(stdout);
  printf(" sessions=%d\n", nsess);
  fflush(stdout);
}

/* ------------------------------------------------------------------ stream (TCP) histories */
static uintptr_t t_hp[MAXC];             /* hidden session pointer per connection */
static int t_refs[MAXC];                 /* application references per connection */
static int t_fd[MAXC];                   /* client side of the connection */
static int t_cur = -1;                   /* connection being accepted */
static const uint8_t *t_buf;             /* bytes that have arrived for t_rd */
static size_t t_len, t_pos;
static int t_eof;
static coap_socket_t *t_rd = NULL;       /* socket the arrival is for */
static char t_path[108];
static uint8_t t_rest[MAXC][40];          /* undelivered tail of a request cut by part:<i>:<n> */
static size_t t_restlen[MAXC];

static coap_session_t *t_sess(int i) {
  return t_hp[i] ? (coap_session_t *)(t_hp[i] ^ VA_HIDE) : NULL;
}
static int t_slot_of(const coap_session_t *s) {
  for (int i = 0; i < MAXC; i++)
    if (t_hp[i] && t_hp[i] == VA_HP(s)) return i;
  return -1;
}
static long st_key_of(const coap_session_t *s) {
  int i = t_slot_of(s);
  return i >= 0 ? 1000 + i : (t_cur >= 0 ? 1000 + t_cur : -1);
}
static int st_napp_of(const coap_session_t *s) {
  int i = t_slot_of(s);
  return i >= 0 ? t_refs[i] : 0;
}

ssize_t __real_coap_socket_read(coap_socket_t *sock, uint8_t *data, size_t data_len);
ssize_t __real_coap_socket_write(coap_socket_t *sock, const uint8_t *data, size_t data_len);

ssize_t __wrap_coap_socket_read(coap_socket_t *sock, uint8_t *data, size_t data_len) {
  if (!st_mode) return __real_coap_socket_read(sock, data, data_len);
  if (sock != t_rd) {
    sock->flags &= ~COAP_SOCKET_CAN_READ;
    errno = EAGAIN;
    return 0;
  }
  size_t avail = t_len - t_pos;
  if (avail == 0) {
    sock->flags &= ~COAP_SOCKET_CAN_READ;
    if (t_eof) {
      errno = ECONNRESET;
      return -1;
    }
    errno = EAGAIN;
    return 0;
  }
  size_t n = avail < data_len ? avail : data_len;
  memcpy(data, t_buf + t_pos, n);
  t_pos += n;
  if (n < data_len) sock->flags &= ~COAP_SOCKET_CAN_READ;
  return (ssize_t)n;
}

ssize_t __wrap_coap_socket_write(coap_socket_t *sock, const uint8_t *data, size_t data_len) {
  if (!st_mode) return __real_coap_socket_write(sock, data, data_len);
  if (sock->session) {
    int sid = checked_sid(sock->session, "write");
    if (sid) emit("T:%d:%llu", sid, (unsigned long long)vn_now);
  }
  return (ssize_t)data_len;
}

static void st_note_handler(coap_session_t *s) {
  emit("H:%ld:%d", st_key_of(s), checked_sid(s, "handler"));
}
static void st_h_plain(coap_resource_t *r, coap_session_t *s, const coap_pdu_t *req,
                       const coap_string_t *q, coap_pdu_t *resp) {
  (void)r; (void)req; (void)q;
  st_note_handler(s);
  coap_pdu_set_code(resp, COAP_RESPONSE_CODE_CONTENT);
}
static void st_h_hold(coap_resource_t *r, coap_session_t *s, const coap_pdu_t *req,
                      const coap_string_t *q, coap_pdu_t *resp) {
  (void)r; (void)req; (void)q;
  st_note_handler(s);
  int i = t_slot_of(s);
  int sid = checked_sid(s, "app_reference");
  if (i >= 0 && sid) {
    emit("+:%d:1", sid);
    coap_session_reference(s);
    t_refs[i]++;
  }
  coap_pdu_set_code(resp, COAP_RESPONSE_CODE_CONTENT);
}
static void st_h_async(coap_resource_t *r, coap_session_t *s, const coap_pdu_t *req,
                       const coap_string_t *q, coap_pdu_t *resp) {
  (void)r; (void)q;
  st_note_handler(s);
  coap_bin_const_t token = coap_pdu_get_token(req);
  if (!coap_find_async(s, token)) {
    if (coap_register_async(s, req, 2 * COAP_TICKS_PER_SECOND)) return;
    coap_pdu_set_code(resp, COAP_RESPONSE_CODE_SERVICE_UNAVAILABLE);
    return;
  }
  coap_pdu_set_code(resp, COAP_RESPONSE_CODE_CONTENT);
}

/* bytes arrive on connection i (eof: the peer has closed); the level-triggered loop */
static void st_deliver(int i, const uint8_t *b, size_t n, int eof) {
  coap_session_t *s = t_sess(i);
  if (!s || !sid_of(s)) return;
  if (s->sock.flags == COAP_SOCKET_EMPTY) return;    /* already closed by the library */
  t_buf = b;
  t_len = n;
  t_pos = 0;
  t_eof = eof;
  t_rd = &s->sock;
  if (n) emit("R:%d:%llu", sid_of(s), (unsigned long long)vn_now);
  for (int guard = 0; guard < 8; guard++) {
    struct epoll_event e;
    size_t before = t_pos;
    memset(&e, 0, sizeof(e));
    e.events = EPOLLIN;
    e.data.ptr = t_rd;
    coap_io_do_epoll(g_ctx, &e, 1);
    if (eof || t_pos >= t_len || t_pos == before) break;
    s = t_sess(i);
    if (!s || !sid_of(s) || s->sock.flags == COAP_SOCKET_EMPTY) break;
  }
  t_rd = NULL;
  t_buf = NULL;
  t_len = t_pos = 0;
  t_eof = 0;
  emit("P:%llu", (unsigned long long)vn_now);
}

static void st_drop_app_refs(void) {
  for (int i = 0; i < MAXC; i++) {
    while (t_refs[i] > 0) {
      coap_session_t *s = t_sess(i);
      int sid = checked_sid(s, "app_release");
      t_refs[i]--;
      if (sid) {
        emit("-:%d:1", sid);
        coap_session_release(s);
      }
    }
  }
}

static void run_stream_history(void) {
  unsigned long seed = strtoul(vtok[1], NULL, 10);
  unsigned timeout = (unsigned)strtoul(vtok[2], NULL, 10);
  ob_len = 0;
  if (!ob) {
    ob_cap = 65536;
    ob = (char *)malloc(ob_cap);
  }
  ob[0] = 0;
  va_reset();
  vn_log_reset();
  vn_nnodes = 0;
  vn_now = 1000;
  vn_prng_seed(seed);
  vn_on_send = on_send;
  nsess = 0;
  n_uaf_marks = 0;
  evref_mod = 0;
  st_mode = 1;
  t_cur = -1;
  memset(t_hp, 0, sizeof(t_hp));
  memset(t_refs, 0, sizeof(t_refs));
  memset(t_restlen, 0, sizeof(t_restlen));
  for (int i = 0; i < MAXC; i++) t_fd[i] = -1;
  memset(app_refs, 0, sizeof(app_refs));
  memset(app_sess, 0, sizeof(app_sess));
  va_on_alloc = on_alloc;
  va_on_free = on_free;
  /* libcoap binds unix-domain addresses with a 28-byte sockaddr: at most 25 characters */
  snprintf(t_path, sizeof(t_path), "/var/tmp/verif.12.%d", (int)getpid());
  unlink(t_path);

  g_ctx = coap_new_context(NULL);
  coap_context_set_session_timeout(g_ctx, timeout);
  coap_register_event_handler(g_ctx, on_event);
  {
    coap_address_t addr;
    coap_address_set_unix_domain(&addr, (const uint8_t *)t_path, strlen(t_path));
    g_ep = coap_new_endpoint(g_ctx, &addr, COAP_PROTO_TCP);
  }
  add_res("r", st_h_plain, 0, 0);
  add_res("h", st_h_hold, 0, 0);
  add_res("a", st_h_async, 0, 0);
  if (!g_ep) {
    printf("ERROR no stream endpoint\n");
    coap_free_context(g_ctx);
    g_ctx = NULL;
    st_mode = 0;
    return;
  }
  snapshot();
  for (int t = 3; t < vntok && g_ctx; t++) {
    char *op = vtok[t];
    if (!strncmp(op, "conn:", 5)) {
      int i = atoi(op + 5);
      if (i < 0 || i >= MAXC || t_hp[i]) continue;
      struct sockaddr_un sa;
      int fd = socket(AF_UNIX, SOCK_STREAM, 0);
      memset(&sa, 0, sizeof(sa));
      sa.sun_family = AF_UNIX;
      strncpy(sa.sun_path, t_path, sizeof(sa.sun_path) - 1);
      if (fd < 0 || connect(fd, (struct sockaddr *)&sa, sizeof(sa)) < 0) {
        fprintf(stderr, "st: connect %s: %s\n", t_path, strerror(errno));
        if (fd >= 0) close(fd);
        continue;
      }
      t_fd[i] = fd;
      t_cur = i;
      int before = nsess;
      emit("A:%d:%llu", 1000 + i, (unsigned long long)vn_now);
      struct epoll_event e;
      memset(&e, 0, sizeof(e));
      e.events = EPOLLIN;
      e.data.ptr = &g_ep->sock;
      /* the session object is allocated inside; remember it as soon as it exists so that the
       * SESSION_NEW handler can name it */
      coap_io_do_epoll(g_ctx, &e, 1);
      if (nsess > before) t_hp[i] = sess[nsess - 1].hp;
      t_cur = -1;
      emit("P:%llu", (unsigned long long)vn_now);
    } else if (!strncmp(op, "csm:", 4)) {
      static const uint8_t csm[] = {0x00, 0xe1};
      int i = atoi(op + 4);
      if (i >= 0 && i < MAXC) st_deliver(i, csm, sizeof(csm), 0);
    } else if (!strncmp(op, "get:", 4)) {
      int i = atoi(op + 4);
      char *c = strchr(op + 4, ':');
      uint8_t g[5] = {0x21, 0x01, 0xaa, 0xb1, 'r'};
      if (c && (c[1] == 'h' || c[1] == 'a')) g[4] = (uint8_t)c[1];
      if (i >= 0 && i < MAXC) {
        g[2] = (uint8_t)(0xa0 + i);
        st_deliver(i, g, sizeof(g), 0);
      }
    } else if (!strncmp(op, "part:", 5)) {
      int i = atoi(op + 5);
      char *c = strchr(op + 5, ':');
      size_t n = c ? (size_t)atoi(c + 1) : 5;
      if (i >= 0 && i < MAXC && t_restlen[i] == 0) {
        uint8_t m[34];
        size_t k = 0;
        m[k++] = 0xD8;                 /* Len nibble 13 (extended), TKL 8 */
        m[k++] = 23 - 13;              /* options + payload = 23 bytes */
        m[k++] = COAP_REQUEST_CODE_GET;
        for (int j = 0; j < 8; j++) m[k++] = (uint8_t)(0xc0 + i + j);
        m[k++] = 0xb1;
        m[k++] = 'r';
        m[k++] = 0xff;
        for (int j = 0; j < 20; j++) m[k++] = (uint8_t)('a' + j);
        if (n < 1) n = 1;
        if (n > sizeof(m) - 1) n = sizeof(m) - 1;
        memcpy(t_rest[i], m + n, sizeof(m) - n);
        t_restlen[i] = sizeof(m) - n;
        st_deliver(i, m, n, 0);
      }
    } else if (!strncmp(op, "rest:", 5)) {
      int i = atoi(op + 5);
      if (i >= 0 && i < MAXC && t_restlen[i]) {
        uint8_t m[40];
        size_t n = t_restlen[i];
        memcpy(m, t_rest[i], n);
        t_restlen[i] = 0;
        st_deliver(i, m, n, 0);
      }
    } else if (!strncmp(op, "close:", 6)) {
      int i = atoi(op + 6);
      if (i >= 0 && i < MAXC) {
        if (t_fd[i] >= 0) {
          close(t_fd[i]);
          t_fd[i] = -1;
        }
        st_deliver(i, (const uint8_t *)"", 0, 1);
      }
    } else if (!strncmp(op, "ref:", 4)) {
      int i = atoi(op + 4);
      coap_session_t *s = (i >= 0 && i < MAXC) ? t_sess(i) : NULL;
      if (s && sid_of(s)) {
        emit("+:%d:1", sid_of(s));
        coap_session_reference(s);
        t_refs[i]++;
      }
    } else if (!strncmp(op, "rel:", 4)) {
      int i = atoi(op + 4);
      if (i >= 0 && i < MAXC && t_refs[i] > 0) {
        coap_session_t *s = t_sess(i);
        int sid = checked_sid(s, "app_release");
        t_refs[i]--;
        if (sid) {
          emit("-:%d:1", sid);
          coap_session_release(s);
        }
      }
    } else if (!strcmp(op, "relall")) {
      st_drop_app_refs();
    } else if (!strncmp(op, "adv:", 4)) {
      vn_advance((coap_tick_t)strtoull(op + 4, NULL, 10));
    } else if (!strcmp(op, "prep")) {
      vn_prepare(g_ctx);
      emit("P:%llu", (unsigned long long)vn_now);
    } else if (!strcmp(op, "free")) {
      teardown();
    }
    snapshot();
  }
  if (g_ctx) {
    st_drop_app_refs();
    teardown();
    snapshot();
  }
  for (int i = 0; i < MAXC; i++)
    if (t_fd[i] >= 0) close(t_fd[i]);
  unlink(t_path);
  vn_log_reset();
  unsigned long uaf = va_flush();
  fputs(ob, stdout);
  fputs(" | ", stdout);
  va_dump(stdout);
  printf(" | uaf_writes=%lu bad_frees=%lu uaf_marks=%u live=%zu types=", uaf, va_bad_frees,
         n_uaf_marks, va_live_count());
  va_dump_live_types(stdout);
  printf(" sessions=%d\n", nsess);
  fflush(stdout);
  st_mode = 0;
}

int main(void) {
  coap_startup();
  coap_set_log_level(COAP_LOG_EMERG);
  for (size_t i = 0; i < sizeof(big_body); i++) big_body[i] = (uint8_t)('a' + i % 26);
  while (next_case(stdin)) {
    if (vntok >= 2 && !strcmp(vtok[0], "sc")) {
      run_client_history();
      continue;
    }
    if (vntok >= 3 && !strcmp(vtok[0], "st")) {
      run_stream_history();
      continue;
    }
    if (vntok < 4 || strcmp(vtok[0], "se")) {
      printf("ERROR bad case\n");
      fflush(stdout);
      continue;
    }
    run_history();
  }
  coap_cleanup();
  return 0;
}

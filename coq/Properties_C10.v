(* C10 - Server answers each request datagram once, with the protocol-prescribed code.

   Model: Server/Dispatch.v  - [dp_serve cfg h mc req]: coap_dispatch()/handle_request()/
            no_response()/coap_new_error_response() transcribed in the code's order of checks
            (UDP server session, block_mode 0, no OSCORE context, no observable resources);
          Server/DispatchSpec.v - [dp_allowed cfg h mc req out]: the relation of the property
            statement, independent of the order of checks: each rule is a predicate
            ([sp_applies]), any applicable error may be answered, a rejected NON may be reset or
            ignored, the handler runs iff nothing blocks the request ([sp_blocked]);
          Server/NoResponse.v - the suppression table of no_response() and its declarative form.
   [out] is the list of events: EvH i (request handler invoked with request i) and EvTx m
   (datagram m emitted), in order.  cfg: resource table, unknown/proxy resources, registered
   options, mcast_per_resource; h: what the handlers set; mc: multicast destination.
   Statements only; proofs in Server/*Proofs.v, Server/DispatchProps.v. *)
From LibcoapV Require Import Base.Tactics Base.Bytes Wire.OptCodec Wire.Pdu Server.NoResponse
  Server.NoResponseProofs Server.Dispatch Server.DispatchSpec Server.DispatchLemmas
  Server.DispatchProofs Server.DispatchProps.
Local Open Scope Z_scope.

(* ---- the code's function is within the relation, for every datagram the parser accepts,
        every configuration, handler behaviour and destination ---- *)
Theorem C10_serve_allowed : forall cfg h mc bs req,
  wfb bs -> parse UDP bs = Some req -> dp_in_scope cfg h req ->
  dp_allowed cfg h mc req (dp_serve cfg h mc req).
Proof. exact serve_datagram_allowed. Qed.
Print Assumptions C10_serve_allowed.

Theorem C10_serve_allowed_msg : forall cfg h mc req,
  dp_req_wf req -> 0 <= m_type req <= 3 -> dp_in_scope cfg h req ->
  In (dp_serve cfg h mc req) (dp_allowed_outs cfg h mc req).
Proof. exact serve_allowed. Qed.
Print Assumptions C10_serve_allowed_msg.

(* ---- at most one direct reply (a reply of type ACK, RST or NON); at most one more datagram,
        the separate CON response after an Empty ACK; at most one handler invocation ---- *)
Theorem C10_one_reply : forall cfg h mc req out,
  0 <= m_type req <= 3 -> dp_allowed cfg h mc req out ->
  (length (filter is_direct (dp_txs out)) <= 1)%nat /\ (length (dp_txs out) <= 2)%nat /\
  (length (dp_calls out) <= 1)%nat.
Proof. intros cfg h mc req out _. exact (one_direct_reply cfg h mc req out). Qed.
Print Assumptions C10_one_reply.

(* ---- every emitted datagram carries the request's message id; it is an Empty ACK/RST or
        echoes the token; ACK only for CON; a CON gets ACK or RST (or the separate CON response);
        a NON gets NON or RST ---- *)
Theorem C10_token_mid : forall cfg h mc req out m,
  dp_allowed cfg h mc req out -> In m (dp_txs out) ->
  m_mid m = m_mid req /\
  ((dp_is_empty m /\ (m_type m = NR_ACK \/ m_type m = NR_RST)) \/ m_token m = m_token req) /\
  (m_type m = NR_ACK -> m_type req = NR_CON) /\
  (m_type req = NR_CON -> m_type m = NR_ACK \/ m_type m = NR_RST \/ m_type m = NR_CON) /\
  (m_type req = NR_NON -> m_type m = NR_NON \/ m_type m = NR_RST).
Proof.
  intros cfg h mc req out m Ha Hin.
  destruct (replies_well_formed cfg h mc req out m Ha Hin) as [H1 H2 H3 H4 H5]. auto.
Qed.
Print Assumptions C10_token_mid.

Theorem C10_no_reset_on_multicast : forall cfg h req out m,
  0 <= m_type req <= 3 ->
  dp_allowed cfg h true req out -> In m (dp_txs out) -> m_type m <> NR_RST.
Proof. exact no_reset_on_multicast. Qed.
Print Assumptions C10_no_reset_on_multicast.

(* ---- the rules.  sp_applies cfg mc req e (DispatchSpec.v) is the condition of rule e:
        E402 unknown critical / illegally repeated option (or Proxy-Scheme without Uri-Host)
        E505 proxy option, no proxy support      E508 / E400 Hop-Limit 1 / 0
        E404 / E202 nothing found (DELETE)       E401 OSCORE-only resource
        E412 If-None-Match on an existing resource
        E405 no handler for the method (or no multicast support)
        E415 FETCH without Content-Format ---- *)

(* the scan of coap_option_check_critical() decides exactly "no unknown critical option and no
   illegal repeat" *)
Theorem C10_critical_scan : forall cfg req,
  dp_req_wf req ->
  cs_ok (dp_check_critical cfg req) = negb (sp_unknown_critical cfg req || sp_repeat (m_opts req)).
Proof. intros cfg req H. exact (scan_ok cfg req H). Qed.
Print Assumptions C10_critical_scan.

(* when exactly one rule applies, the reply is the one of that rule (or its suppressed form) *)
Theorem C10_single_error : forall cfg h mc req,
  0 <= m_type req <= 3 -> conn req ->
  dp_bad_class (m_code req) = false -> dp_is_request (m_code req) = true ->
  forall e, e <> E402 -> sp_applies cfg mc req e = true ->
  (forall e', e' <> e -> sp_applies cfg mc req e' = false) ->
  sp_oscore_drop cfg req = false -> sp_long_token req = false ->
  mc && (m_type req =? NR_CON) = false -> sp_async cfg req = false ->
  forall out, dp_allowed cfg h mc req out ->
  out = dp_fail cfg mc req (sp_rflags cfg req e) (dp_err_code e).
Proof. exact single_error_reply. Qed.
Print Assumptions C10_single_error.

Theorem C10_unknown_critical_or_repeat : forall cfg h mc req,
  0 <= m_type req <= 3 -> conn req ->
  dp_bad_class (m_code req) = false -> dp_is_request (m_code req) = true ->
  sp_applies cfg mc req E402 = true ->
  (forall e', e' <> E402 -> sp_applies cfg mc req e' = false) ->
  sp_oscore_drop cfg req = false -> sp_long_token req = false ->
  mc && (m_type req =? NR_CON) = false -> sp_async cfg req = false ->
  forall out, dp_allowed cfg h mc req out ->
  (m_type req = NR_CON /\ out = [sp_err402_direct cfg req]) \/
  (exists rf, out = dp_fail cfg mc req rf 130) \/
  (m_type req = NR_NON /\ sp_bad_options cfg req = true /\ In out (sp_reject mc req)).
Proof. exact bad_option_reply. Qed.
Print Assumptions C10_unknown_critical_or_repeat.

(* with several rules applicable: still no handler, and (previous theorems) one well-formed reply *)
Theorem C10_error_blocks_handler : forall cfg h mc req,
  conn req -> dp_bad_class (m_code req) = false -> dp_is_request (m_code req) = true ->
  sp_blocked cfg mc req = true ->
  forall out, dp_allowed cfg h mc req out -> dp_calls out = [].
Proof. exact blocked_no_handler. Qed.
Print Assumptions C10_error_blocks_handler.

(* the form of an error reply: request's type class, id and token, the code of the rule, no
   options (Hop-Limit 255 on a 5.08), or its No-Response / multicast suppressed form *)
Theorem C10_error_reply_form : forall cfg mc req rf c,
  nr_std_code c ->
  dp_fail cfg mc req rf c =
  match nr_fate_spec (dp_noresp_of req) mc (c_mpr cfg) rf (dp_resp_type req) c false with
  | NrDropped => []
  | NrEmptyAck => [EvTx false (dp_empty NR_ACK (m_mid req))]
  | NrSendAsIs =>
      [EvTx true (mkMsg (dp_resp_type req) c (m_mid req) (m_token req)
                        (if (c =? 168) && nr_immediate mc (c_mpr cfg) rf then [(DP_HOP_LIMIT, [255])] else [])
                        [])]
  end.
Proof. exact error_reply_is. Qed.
Print Assumptions C10_error_reply_form.

(* invalid code classes: Reset or ignored; ACK/RST typed messages: ignored *)
Theorem C10_bad_class : forall cfg h mc req out,
  conn req -> dp_bad_class (m_code req) = true -> dp_allowed cfg h mc req out ->
  out = [] \/ (mc = false /\ out = [EvTx false (dp_empty NR_RST (m_mid req))]).
Proof. exact bad_class_rejected. Qed.
Print Assumptions C10_bad_class.

Theorem C10_ack_rst_ignored : forall cfg h mc req out,
  m_type req = NR_ACK \/ m_type req = NR_RST -> dp_allowed cfg h mc req out -> out = [].
Proof. exact not_conn_silent. Qed.
Print Assumptions C10_ack_rst_ignored.

(* ---- otherwise exactly the handler registered for that path and method runs once.
   sp_handler_outs = dp_invoke on the selected resource for each admitted view of the options
   (sp_views: as libcoap edits them = sp_handler_out, unedited, or one edit only) ---- *)
Theorem C10_handler_iff_unblocked : forall cfg h mc req,
  0 <= m_type req <= 3 -> conn req -> dp_bad_class (m_code req) = false -> dp_is_request (m_code req) = true ->
  sp_blocked cfg mc req = false ->
  forall out, dp_allowed cfg h mc req out <-> In out (sp_handler_outs cfg h mc req).
Proof. exact unblocked_runs_handler. Qed.
Print Assumptions C10_handler_iff_unblocked.

Theorem C10_handler_once : forall cfg h mc req,
  sp_target cfg req <> TWellKnown ->
  dp_observe (sp_target cfg req) (sp_req' cfg req) <> ObsBlocked ->
  dp_calls (sp_handler_out cfg h mc req) =
  [mkHreq (dp_target_rid (sp_target cfg req)) (m_code req) (sp_req' cfg req) (dp_query cfg (m_opts req))].
Proof. exact handler_call. Qed.
Print Assumptions C10_handler_once.

(* ... with the request's path, query, options and payload (two documented edits: Block2 M bit,
   Hop-Limit decrement) *)
Theorem C10_handler_sees_request : forall cfg req,
  map fst (sp_adjusted cfg req) = map fst (m_opts req) /\
  (forall n, n <> DP_BLOCK2 -> n <> DP_HOP_LIMIT ->
             dp_values n (sp_adjusted cfg req) = dp_values n (m_opts req)) /\
  dp_uri_path cfg (sp_adjusted cfg req) = dp_uri_path cfg (m_opts req) /\
  dp_query cfg (sp_adjusted cfg req) = dp_query cfg (m_opts req) /\
  m_payload (sp_req' cfg req) = m_payload req /\ m_token (sp_req' cfg req) = m_token req /\
  m_code (sp_req' cfg req) = m_code req /\ m_type (sp_req' cfg req) = m_type req /\
  m_mid (sp_req' cfg req) = m_mid req.
Proof. exact handler_sees_request. Qed.
Print Assumptions C10_handler_sees_request.

(* the relation also admits the unedited options and each edit alone *)
Theorem C10_handler_views : forall cfg req o, In o (sp_views cfg req) ->
  map fst o = map fst (m_opts req) /\
  (forall n, n <> DP_BLOCK2 -> n <> DP_HOP_LIMIT -> dp_values n o = dp_values n (m_opts req)) /\
  dp_uri_path cfg o = dp_uri_path cfg (m_opts req) /\ dp_query cfg o = dp_query cfg (m_opts req).
Proof. exact handler_views. Qed.
Print Assumptions C10_handler_views.

(* with tables that keep the separators escaped (the check forces exactly these four bits on
   the tables it takes from the library), one Uri-Path / Uri-Query option never contributes a
   separator to the look-up key / query string *)
Theorem C10_one_option_no_separator : forall cfg seg,
  dp_tables_ok cfg -> wfb seg ->
  ~ In 47 (dp_uri_path cfg [(DP_URI_PATH, seg)]) /\ ~ In 38 (dp_query cfg [(DP_URI_QUERY, seg)]).
Proof. exact one_option_no_separator. Qed.
Print Assumptions C10_one_option_no_separator.

(* the resource: registered path first; nothing iff no such path, not /.well-known/core and no
   unknown-resource handler for the method *)
Theorem C10_lookup_registered : forall cfg code p r,
  dp_find_res (c_res cfg) p = Some r -> dp_lookup cfg false code p = TRes r.
Proof. exact lookup_registered. Qed.
Print Assumptions C10_lookup_registered.

Theorem C10_lookup_none : forall cfg code p,
  dp_lookup cfg false code p = TNone <->
  (forall r, In r (c_res cfg) -> r_path r <> p) /\ p <> dp_wellknown /\
  dp_unknown_takes cfg code false = None.
Proof. exact lookup_none. Qed.
Print Assumptions C10_lookup_none.

Theorem C10_lookup_wellknown : forall cfg code,
  dp_find_res (c_res cfg) dp_wellknown = None -> dp_unknown_takes cfg code true = None ->
  dp_lookup cfg false code dp_wellknown = TWellKnown.
Proof. exact lookup_wellknown. Qed.
Print Assumptions C10_lookup_wellknown.

(* ---- what the handler sets is what is sent, subject to No-Response and multicast rules.
   dp_resp_opts: the handler's coap_add_option() calls in order (after the Observe option of a
   new registration on an observable resource); dp_sent_opts: Block1 off an error response ---- *)
Theorem C10_what_is_set_is_sent : forall cfg h mc req,
  (m_type req = NR_CON \/ m_type req = NR_NON) ->
  (match sp_target cfg req with TRes _ | TUnknown _ _ => True | _ => False end) ->
  let obs := dp_observe (sp_target cfg req) (sp_req' cfg req) in
  obs <> ObsBlocked ->
  let i := mkHreq (dp_target_rid (sp_target cfg req)) (m_code req) (sp_req' cfg req)
                  (dp_query cfg (m_opts req)) in
  let r := h i in
  nr_std_code (hr_code r) -> hr_code r <> 168 ->
  sp_handler_out cfg h mc req =
  EvH i ::
  match nr_fate_spec (dp_noresp_of req) mc (c_mpr cfg) (Some (dp_target_flags (sp_target cfg req)))
                     (dp_resp_type req) (hr_code r)
                     (match hr_payload r with [] => false | _ => true end) with
  | NrDropped => []
  | NrEmptyAck => [EvTx false (dp_empty NR_ACK (m_mid req))]
  | NrSendAsIs =>
      [EvTx false (mkMsg (dp_resp_type req) (hr_code r) (m_mid req) (m_token req)
                         (dp_sent_opts false (hr_code r) true (dp_resp_opts obs (hr_code r) (hr_opts r)))
                         (hr_payload r))]
  end.
Proof. exact handler_out_is. Qed.
Print Assumptions C10_what_is_set_is_sent.

Theorem C10_wellknown : forall cfg h mc req,
  sp_target cfg req = TWellKnown -> dp_has DP_BLOCK2 (m_opts req) = false ->
  sp_handler_out cfg h mc req =
  dp_finish cfg mc (sp_req' cfg req) (Some NR_F_HAS_MCAST) false false
    (mkMsg (dp_resp_type req) 69 (m_mid req) (m_token req) [(DP_CONTENT_FORMAT, [40])]
           (c_wk cfg (dp_query cfg (m_opts req)))).
Proof. exact wellknown_out. Qed.
Print Assumptions C10_wellknown.

(* the bitmap test of no_response() is the table of RFC 7967; the code's decision procedure is
   the declarative table (No-Response first, else multicast per-resource flags / RFC 7252 8.1) *)
Theorem C10_noresponse_table : forall v cls,
  cls = 2 \/ cls = 4 \/ cls = 5 -> Z.testbit v (cls - 1) = nr_rfc7967_uninterested v cls.
Proof. exact nr_bitmap_is_rfc7967. Qed.
Print Assumptions C10_noresponse_table.

Theorem C10_suppression_table : forall noresp mc mpr rflags req_ty rtype code has_data,
  nr_std_code code -> rtype = NR_ACK \/ rtype = NR_NON \/ rtype = NR_CON ->
  nr_fate_code noresp mc mpr rflags req_ty rtype code has_data =
  nr_fate_spec noresp mc mpr rflags rtype code has_data.
Proof. exact nr_fate_code_is_spec. Qed.
Print Assumptions C10_suppression_table.

Theorem C10_confirmable_always_acknowledged_unicast : forall noresp mpr rflags req_ty code has_data,
  nr_fate_code noresp false mpr rflags req_ty NR_ACK code has_data <> NrDropped.
Proof. exact nr_ack_never_dropped_unicast. Qed.
Print Assumptions C10_confirmable_always_acknowledged_unicast.

(* ---- non-vacuity: a concrete server on concrete requests ---- *)
Theorem C10_nonvacuous :
  dp_serve ex_cfg ex_handler false (ex_get 0 [97] []) =
  [EvH (mkHreq (RRes [97]) 1 (ex_get 0 [97] []) []);
   EvTx false (mkMsg 2 69 4660 [170; 187] [(12, [0])] [104; 105])] /\
  sp_blocked ex_cfg false (ex_get 0 [97] []) = false /\
  dp_in_scope ex_cfg ex_handler (ex_get 0 [97] []) /\
  (forall out, dp_allowed ex_cfg ex_handler false (ex_get 0 [97] []) out ->
               out = dp_serve ex_cfg ex_handler false (ex_get 0 [97] [])).
Proof. exact ex_handler_runs. Qed.
Print Assumptions C10_nonvacuous.

(* Extraction of the executable models for the correspondence checks (ExtrOcamlBasic only). *)
Require Extraction.
Require ExtrOcamlBasic.
From LibcoapV Require Import Base.Bytes Wire.OptCodec Wire.Pdu Wire.Build.
Extraction Language OCaml.
Extraction "model.ml"
  Bytes.len Bytes.take Bytes.drop
  OptCodec.opt_enc OptCodec.opt_parse OptCodec.opt_encode_size OptCodec.opts_parse
  Pdu.serialize Pdu.parse Pdu.limit_ok
  Build.pdu_init Build.run_ops Build.apply_op.

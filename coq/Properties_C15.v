(* C15 - OSCORE never accepts a replay or reuses a nonce; forgeries leave no trace.
   Statements only; models in Oscore/Replay.v (recipient) and Oscore/SenderSeq.v (sender),
   proofs in Oscore/ReplayProofs.v, Oscore/SenderSeqProofs.v, witnesses in
   Oscore/ReplayRefuted.v.

   [rp_fixed] is the recipient code after the eight "fix:" commits in /repo (the variant the
   correspondence check runs against the C on every invocation), [rp_orig] the code as found.
   A history is any list of messages: requests, and responses that carry a Partial IV of their
   own (notifications) for requests of this endpoint; each with any sequence number in its
   Partial IV, genuine, forged, turned away before the replay check, or stopped at any exit
   between the replay check and the decryption verdict ([RpAbort]: every path of
   coap_oscore_decrypt_pdu is a message class of the model), with or without a (valid or
   invalid) Echo option.  [rp_accepted] lists the numbers accepted after a replay check
   (verdict RpAccept: every accepted request, and every accepted response once the context is
   armed); a response delivered while the context is still in its initial state has the
   verdict RpAcceptUnchecked - nothing is claimed for those (see notes/C15.md).  W is replay_window_size (every
   integer; the code keeps 64 bits, so sizes above 64 act like 64), b12 is rfc8613_b_1_2. *)
From LibcoapV Require Import Base.Tactics Oscore.Replay Oscore.ReplayProofs Oscore.ReplayRefuted
  Oscore.SenderSeq Oscore.SenderSeqProofs Oscore.EndToEnd Oscore.Recipients
  Oscore.RecipientsProofs.
From Coq Require Import Sorted.
Local Open Scope Z_scope.

(* ---- recipient: the repaired code ---- *)

(* a sequence number reaches the handler at most once, in every history *)
Theorem C15_at_most_once : forall W b12 h,
  NoDup (rp_accepted rp_fixed W b12 rp_init h).
Proof. exact rp_at_most_once. Qed.
Print Assumptions C15_at_most_once.

(* the verdict of every message in every history is the verdict of the RFC 8613 section 7.4
   sliding window over the set of accepted numbers (specification [rp_abs_recv]) *)
Theorem C15_window_exact : forall W b12 h,
  fst (rp_run rp_fixed W b12 rp_init h) = fst (rp_abs_run W b12 rp_abs_init h).
Proof. exact rp_window_exact. Qed.
Print Assumptions C15_window_exact.

(* a message that fails authentication (or is turned away before that: undecodable option, no
   kid, unknown security context; or whose processing stops anywhere between the replay check
   and the decryption verdict) is never accepted and leaves last_seq, the window and
   initial_state exactly as they were, in every reachable state *)
Theorem C15_forgery_no_trace : forall W b12 s m,
  rp_reachable W b12 s -> rp_m_auth m <> RpGenuine ->
  rp_obs (snd (rp_recv rp_fixed W b12 s m)) = rp_obs s /\
  rp_delivered (fst (rp_recv rp_fixed W b12 s m)) = false.
Proof. exact rp_forgery_no_trace. Qed.
Print Assumptions C15_forgery_no_trace.

(* hence the genuine messages of a history get the verdicts they would get if the forgeries had
   never arrived *)
Theorem C15_genuine_still_accepted : forall W b12 h,
  rp_genuine_verdicts h (fst (rp_run rp_fixed W b12 rp_init h)) =
  fst (rp_run rp_fixed W b12 rp_init (filter rp_is_genuine h)).
Proof. exact rp_genuine_still_accepted. Qed.
Print Assumptions C15_genuine_still_accepted.

(* the other direction (the window is not just "reject everything"): once the context is armed,
   a genuine number newer than everything accepted, or not yet accepted and within the window
   below the newest, is accepted *)
Theorem C15_fresh_accepted : forall W b12 h m,
  let acc := rp_accepted rp_fixed W b12 rp_init h in
  let s := snd (rp_run rp_fixed W b12 rp_init h) in
  rp_initial s = false ->
  rp_m_auth m = RpGenuine -> rp_m_seq m < rp_seq_max ->
  ((forall x, In x acc -> x < rp_m_seq m) \/
   (~ In (rp_m_seq m) acc /\ forall x, In x acc -> x - rp_m_seq m < rp_weff W)) ->
  fst (rp_recv rp_fixed W b12 s m) = RpAccept.
Proof. exact rp_fresh_accepted. Qed.
Print Assumptions C15_fresh_accepted.

(* no shift by 64 or more bits is ever evaluated *)
Theorem C15_no_undef : forall W b12 h,
  rp_undef (snd (rp_run rp_fixed W b12 rp_init h)) = false.
Proof. exact rp_no_undef. Qed.
Print Assumptions C15_no_undef.

(* the model's integers never leave the range of the uint64_t fields (any variant) *)
Theorem C15_state_fits_uint64 : forall v W b12 h,
  Forall (fun m => 0 <= rp_m_seq m < 2 ^ 64) h ->
  rp_in_range (snd (rp_run v W b12 rp_init h)).
Proof. intros v W b12 h H. exact (rp_run_range v W b12 h rp_init H rp_init_range). Qed.
Print Assumptions C15_state_fits_uint64.

(* the recipient's own Sender Key is never used twice with the same AEAD nonce for the replies
   it protects (RFC 8613 5.2), whatever requests arrive in whatever multiplicity: the request's
   nonce is used only for the response to an accepted request, the Appendix B.1.2 Echo
   challenge - which the same request can trigger again - gets a Partial IV of its own *)
Theorem C15_reply_nonces_unique : forall W b12 h c,
  NoDup (rp_reply_nonces true c h (fst (rp_run rp_fixed W b12 rp_init h))).
Proof. exact rp_reply_nonces_unique. Qed.
Print Assumptions C15_reply_nonces_unique.

(* the other choice for the challenge is refuted by the same first request arriving twice *)
Theorem C15_challenge_request_nonce_refuted :
  exists h, ~ NoDup (rp_reply_nonces false 0 h (fst (rp_run rp_fixed 32 true rp_init h))).
Proof. exact rp_challenge_request_nonce_refuted. Qed.
Print Assumptions C15_challenge_request_nonce_refuted.

(* ---- the recipient chain and its management calls (coap_new_oscore_recipient,
   coap_delete_oscore_recipient, recipient_id lines) interleaved with deliveries ---- *)

(* adding an id that is already in the chain is refused and changes nothing: no second, empty
   replay window can shadow the existing one *)
Theorem C15_duplicate_recipient_refused : forall v W b12 c id,
  In id (rl_ids c) -> rl_step v W b12 c (RlAdd id) = (RlRet false, c).
Proof. exact rl_add_duplicate_refused. Qed.
Print Assumptions C15_duplicate_recipient_refused.

(* per lifetime of a recipient context: any interleaving of adds (also of the same id), deletes
   of other ids and deliveries for any id, starting from an empty chain - no sequence number is
   accepted twice for an id that is not deleted *)
Theorem C15_recipient_at_most_once : forall W b12 id ops,
  existsb (rl_is_del id) ops = false ->
  NoDup (rl_accepted id ops (fst (rl_run rp_fixed W b12 [] ops))).
Proof. exact rl_at_most_once. Qed.
Print Assumptions C15_recipient_at_most_once.

(* the ids of the chain stay pairwise distinct, so the lookup by kid never has a choice *)
Theorem C15_recipient_ids_distinct : forall v W b12 ops,
  NoDup (rl_ids (snd (rl_run v W b12 [] ops))).
Proof. intros v W b12 ops. apply rl_run_nodup. constructor. Qed.
Print Assumptions C15_recipient_ids_distinct.

(* delete followed by add is, by decision of the application, a NEW recipient context in its
   initial state (what is claimed above is per lifetime of an entry; see Oscore/Recipients.v) *)
Theorem C15_delete_add_new_context : forall v W b12 c id s,
  NoDup (rl_ids c) -> rl_find c id = Some s ->
  let c1 := snd (rl_step v W b12 c (RlDel id)) in
  rl_find c1 id = None /\
  rl_find (snd (rl_step v W b12 c1 (RlAdd id))) id = Some rp_init.
Proof. exact rl_del_add_is_new_context. Qed.
Print Assumptions C15_delete_add_new_context.

(* ---- sender ---- *)

(* the Partial IVs put on the wire over any sequence of protect and crash/restart steps (restart
   = new context with start_seq_num = the value last handed to save_seq_num_func, or the
   configured start value if it was never called; any ssn_freq at each restart) are pairwise
   distinct.  start_seq_num is a sequence number (<= 2^40), ssn_freq a uint32_t; fewer than
   2^63 steps (the 64-bit counter does not wrap). *)
Theorem C15_piv_unique : forall freq start ops,
  0 <= start <= 2 ^ 40 -> ss_freq_ok freq -> Forall ss_op_ok ops ->
  Z.of_nat (length ops) < 2 ^ 63 ->
  NoDup (ss_pivs (ss_boot freq start) ops).
Proof. exact ss_piv_unique. Qed.
Print Assumptions C15_piv_unique.

(* stronger: they are strictly increasing, also across restarts, and each is a number a
   recipient accepts (below OSCORE_SEQ_MAX) *)
Theorem C15_pivs_increasing : forall freq start ops,
  0 <= start <= 2 ^ 40 -> ss_freq_ok freq -> Forall ss_op_ok ops ->
  Z.of_nat (length ops) < 2 ^ 63 ->
  StronglySorted Z.lt (ss_pivs (ss_boot freq start) ops) /\
  Forall (fun p => 0 <= p < ss_seq_max) (ss_pivs (ss_boot freq start) ops).
Proof. exact ss_pivs_increasing. Qed.
Print Assumptions C15_pivs_increasing.

(* ---- sender and recipient together ---- *)

(* the property in its own terms: a protected request (a position in what the sender put on
   the wire), delivered in any order, any number of times, among forgeries with any claimed
   Partial IV, reaches the handler at most once *)
Theorem C15_message_at_most_once : forall pivs W b12 sched,
  Forall (e2e_valid (length pivs)) sched ->
  NoDup (e2e_accepted_idx sched
           (fst (rp_run rp_fixed W b12 rp_init (map (e2e_msg pivs) sched)))).
Proof. exact e2e_message_at_most_once. Qed.
Print Assumptions C15_message_at_most_once.

(* and the halves fit: everything a sender produced over any protect / crash-restart sequence,
   delivered once each in the order of sending, is accepted *)
Theorem C15_in_order_all_accepted : forall freq start ops W b12,
  0 <= start <= 2 ^ 40 -> ss_freq_ok freq -> Forall ss_op_ok ops ->
  Z.of_nat (length ops) < 2 ^ 63 ->
  let pivs := ss_pivs (ss_boot freq start) ops in
  fst (rp_run rp_fixed W b12 rp_init (e2e_in_order pivs)) = map (fun _ => RpAccept) pivs.
Proof. exact e2e_in_order_all_accepted. Qed.
Print Assumptions C15_in_order_all_accepted.

(* ---- the code as found (/repo 74963ff): refuted, minimal histories ---- *)

Theorem C15_orig_replay_accepted_refuted :
  exists h, ~ NoDup (rp_accepted rp_orig 32 true rp_init h).
Proof. exact rp_orig_replay_accepted_refuted. Qed.
Print Assumptions C15_orig_replay_accepted_refuted.

Theorem C15_orig_never_armed_refuted :
  exists h, ~ NoDup (rp_accepted rp_orig 32 false rp_init h).
Proof. exact rp_orig_never_armed_refuted. Qed.
Print Assumptions C15_orig_never_armed_refuted.

Theorem C15_orig_last_seq_lowered_refuted :
  exists h, ~ NoDup (rp_accepted rp_orig 32 true rp_init h).
Proof. exact rp_orig_last_seq_lowered_refuted. Qed.
Print Assumptions C15_orig_last_seq_lowered_refuted.

Theorem C15_orig_forgery_leaves_trace_refuted :
  exists h m g,
    let s := snd (rp_run rp_orig 32 true rp_init h) in
    rp_m_auth m = RpForged /\ rp_m_auth g = RpGenuine /\
    fst (rp_recv rp_orig 32 true s g) = RpAccept /\
    rp_obs (snd (rp_recv rp_orig 32 true s m)) <> rp_obs s /\
    fst (rp_recv rp_orig 32 true (snd (rp_recv rp_orig 32 true s m)) g) = RpRejReplay.
Proof. exact rp_orig_forgery_leaves_trace_refuted. Qed.
Print Assumptions C15_orig_forgery_leaves_trace_refuted.

Theorem C15_orig_shift_by_width_refuted :
  exists h, rp_undef (snd (rp_run rp_orig 32 true rp_init h)) = true.
Proof. exact rp_orig_shift_by_width_refuted. Qed.
Print Assumptions C15_orig_shift_by_width_refuted.

(* ---- each of the eight repairs is necessary (the other seven applied) ---- *)

Theorem C15_no_bitidx_refuted :
  exists h, ~ NoDup (rp_accepted rp_no_bitidx 32 false rp_init h) /\
            fst (rp_run rp_no_bitidx 32 false rp_init (h ++ [rp_g 6])) =
              [RpAccept; RpAccept; RpAccept; RpRejReplay].
Proof. exact rp_no_bitidx_refuted. Qed.
Print Assumptions C15_no_bitidx_refuted.

Theorem C15_no_shguard_refuted :
  exists h, rp_undef (snd (rp_run rp_no_shguard 32 false rp_init h)) = true /\
            fst (rp_run rp_no_shguard 32 false rp_init h) = [RpAccept; RpAccept; RpAccept; RpRejReplay].
Proof. exact rp_no_shguard_refuted. Qed.
Print Assumptions C15_no_shguard_refuted.

Theorem C15_no_nooverwrite_refuted :
  exists h, ~ NoDup (rp_accepted rp_no_nooverwrite 32 false rp_init h).
Proof. exact rp_no_nooverwrite_refuted. Qed.
Print Assumptions C15_no_nooverwrite_refuted.

Theorem C15_no_rbflag_refuted :
  exists h,
    rp_genuine_verdicts h (fst (rp_run rp_no_rbflag 32 false rp_init h)) <>
    fst (rp_run rp_no_rbflag 32 false rp_init (filter rp_is_genuine h)).
Proof. exact rp_no_rbflag_refuted. Qed.
Print Assumptions C15_no_rbflag_refuted.

Theorem C15_no_arm_refuted :
  exists h, ~ NoDup (rp_accepted rp_no_arm 32 false rp_init h).
Proof. exact rp_no_arm_refuted. Qed.
Print Assumptions C15_no_arm_refuted.

(* forged responses (right token, any claimed Partial IV): on an endpoint that also serves the
   peer, and on a plain client *)
Theorem C15_no_resp_rb_refuted :
  exists h,
    rp_genuine_verdicts h (fst (rp_run rp_no_resp_rb 32 false rp_init h)) <>
    fst (rp_run rp_no_resp_rb 32 false rp_init (filter rp_is_genuine h)).
Proof. exact rp_no_resp_rb_refuted. Qed.
Print Assumptions C15_no_resp_rb_refuted.

Theorem C15_no_resp_nowrite_refuted :
  exists h,
    rp_genuine_verdicts h (fst (rp_run rp_no_resp_nowrite 32 true rp_init h)) <>
    fst (rp_run rp_no_resp_nowrite 32 true rp_init (filter rp_is_genuine h)).
Proof. exact rp_no_resp_nowrite_refuted. Qed.
Print Assumptions C15_no_resp_nowrite_refuted.

Theorem C15_no_abort_rb_refuted :
  exists h,
    rp_genuine_verdicts h (fst (rp_run rp_no_abort_rb 32 false rp_init h)) <>
    fst (rp_run rp_no_abort_rb 32 false rp_init (filter rp_is_genuine h)).
Proof. exact rp_no_abort_rb_refuted. Qed.
Print Assumptions C15_no_abort_rb_refuted.

Theorem C15_orig_forged_response_refuted :
  exists h1 h2,
    rp_genuine_verdicts h1 (fst (rp_run rp_orig 32 true rp_init h1)) <>
      fst (rp_run rp_orig 32 true rp_init (filter rp_is_genuine h1)) /\
    rp_genuine_verdicts h2 (fst (rp_run rp_orig 32 true rp_init h2)) <>
      fst (rp_run rp_orig 32 true rp_init (filter rp_is_genuine h2)).
Proof. exact rp_orig_forged_response_refuted. Qed.
Print Assumptions C15_orig_forged_response_refuted.

(* ---- non-vacuity: concrete histories through the repaired model ---- *)

Example C15_example_history :
  fst (rp_run rp_fixed 32 false rp_init
         [rp_g 5; rp_g 7; rp_g 5; rp_g 6; rp_g 6; rp_f 9; rp_g 8; rp_g 100; rp_g 37; rp_g 36]) =
  [RpAccept; RpAccept; RpRejReplay; RpAccept; RpRejReplay; RpRejDecrypt; RpAccept; RpAccept; RpRejReplay; RpRejReplay].
Proof. exact rp_fixed_example. Qed.

Example C15_example_sender :
  ss_trace (ss_boot 4 6) [SsProtect; SsProtect; SsProtect; SsCrash 3; SsProtect; SsProtect; SsProtect] =
  [(6, 8); (7, -1); (8, 12); (-1, -1); (12, 15); (13, -1); (14, -1)].
Proof. vm_compute. reflexivity. Qed.

(* Mem/AllocTraceProofs.v - the allocation-trace checker decides balancedness. *)
From LibcoapV Require Import Base.Tactics Mem.AllocTrace.
Local Open Scope Z_scope.

(* indicator of membership *)
Definition at_in (id : Z) (live : list Z) : Z := if at_mem id live then 1 else 0.

Lemma at_mem_In : forall x l, at_mem x l = true <-> In x l.
Proof.
  induction l as [|y r IH]; cbn [at_mem In].
  - split; [discriminate | tauto].
  - destruct (Z.eqb_spec x y).
    + split; auto.
    + rewrite IH. split; [auto | intros [H|H]; [congruence | exact H]].
Qed.

Lemma at_mem_false : forall x l, at_mem x l = false <-> ~ In x l.
Proof.
  intros. rewrite <- at_mem_In. destruct (at_mem x l); split; congruence.
Qed.

Lemma at_remove_In : forall x y l, In y (at_remove x l) -> In y l.
Proof.
  induction l as [|z r IH]; cbn [at_remove In]; auto.
  destruct (Z.eqb_spec x z); cbn [In]; intuition.
Qed.

Lemma at_remove_NoDup : forall x l, NoDup l -> NoDup (at_remove x l).
Proof.
  induction l as [|z r IH]; cbn [at_remove]; intros H; auto.
  inversion H; subst. destruct (Z.eqb_spec x z); auto.
  constructor; auto. intro Hin. apply at_remove_In in Hin. contradiction.
Qed.

Lemma at_remove_notin : forall x l, NoDup l -> ~ In x (at_remove x l).
Proof.
  induction l as [|z r IH]; cbn [at_remove]; intros H; auto.
  inversion H; subst. destruct (Z.eqb_spec x z).
  - subst. auto.
  - cbn [In]. intros [E|E]; [congruence | apply IH; auto].
Qed.

Lemma at_remove_other : forall x y l, x <> y -> In y l -> In y (at_remove x l).
Proof.
  induction l as [|z r IH]; cbn [at_remove In]; auto.
  intros Hne [E|E]; destruct (Z.eqb_spec x z); subst; cbn [In]; auto; congruence.
Qed.

(* [at_in] after removing a live element / adding a fresh one *)
Lemma at_in_remove : forall i id l, NoDup l -> at_mem i l = true ->
  at_in id l = (if i =? id then 1 else 0) + at_in id (at_remove i l).
Proof.
  intros i id l ND Hm. unfold at_in.
  destruct (Z.eqb_spec i id).
  - subst. rewrite Hm.
    destruct (at_mem id (at_remove id l)) eqn:E; auto.
    apply at_mem_In in E. exfalso. eapply at_remove_notin; eauto.
  - destruct (at_mem id l) eqn:E1; destruct (at_mem id (at_remove i l)) eqn:E2; auto.
    + apply at_mem_In in E1. apply at_mem_false in E2. exfalso. apply E2.
      apply at_remove_other; auto.
    + apply at_mem_In in E2. apply at_mem_false in E1. exfalso. apply E1.
      eapply at_remove_In; eauto.
Qed.

Lemma at_in_cons : forall i id l,
  at_mem i l = false -> at_in id (i :: l) = (if i =? id then 1 else 0) + at_in id l.
Proof.
  intros i id l Hm. unfold at_in. cbn [at_mem].
  destruct (Z.eqb_spec id i); destruct (Z.eqb_spec i id); try congruence; subst.
  - rewrite Hm. reflexivity.
  - destruct (at_mem id l); reflexivity.
Qed.

Lemma at_in_range : forall id l, 0 <= at_in id l <= 1.
Proof. intros. unfold at_in. destruct (at_mem id l); lia. Qed.

(* quantification over (prefix, event) splits, one event at a time *)
Lemma at_split_cons : forall (Q : list at_ev -> at_ev -> Prop) x r,
  (forall pre e post, x :: r = pre ++ e :: post -> Q pre e) <->
  (Q [] x /\ forall pre e post, r = pre ++ e :: post -> Q (x :: pre) e).
Proof.
  intros Q x r. split.
  - intros H. split.
    + apply (H [] x r). reflexivity.
    + intros pre e post E. apply (H (x :: pre) e post). cbn. rewrite E. reflexivity.
  - intros [H0 H1] pre e post E. destruct pre as [|e' pre].
    + cbn in E. inversion E; subst. exact H0.
    + cbn in E. inversion E; subst. apply (H1 pre e post). reflexivity.
Qed.

(* the specification relative to a checker state *)
Definition at_Q (live : list Z) (pre : list at_ev) (e : at_ev) : Prop :=
  forall id, at_fr id e = 1 -> at_nfree id pre + 1 <= at_nalloc id pre + at_in id live.

Definition at_gspec (live : list Z) (last : Z) (tr : list at_ev) : Prop :=
  at_incr last (at_new_ids tr) /\
  (forall pre e post, tr = pre ++ e :: post -> at_Q live pre e) /\
  (forall id, at_nalloc id tr + at_in id live = at_nfree id tr).

Definition at_inv (live : list Z) (last : Z) : Prop :=
  0 <= last /\ NoDup live /\ Forall (fun i => 0 < i <= last) live.

Lemma at_inv_fresh : forall live last i, at_inv live last -> last < i -> at_mem i live = false.
Proof.
  intros live last i (_ & _ & HF) Hlt. apply at_mem_false. intro Hin.
  rewrite Forall_forall in HF. apply HF in Hin. lia.
Qed.

Lemma at_inv_alloc : forall live last i, at_inv live last -> last < i -> at_inv (i :: live) i.
Proof.
  intros live last i Hinv Hlt. pose proof (at_inv_fresh _ _ _ Hinv Hlt) as Hf.
  destruct Hinv as (H0 & ND & HF). repeat split; try lia.
  - constructor; auto. apply at_mem_false. exact Hf.
  - constructor; [lia|]. eapply Forall_impl; [|exact HF]. cbn. intros; lia.
Qed.

Lemma at_inv_remove : forall live last i, at_inv live last -> at_inv (at_remove i live) last.
Proof.
  intros live last i (H0 & ND & HF). repeat split; auto.
  - apply at_remove_NoDup; auto.
  - rewrite Forall_forall in *. intros x Hx. apply HF. eapply at_remove_In; eauto.
Qed.

Lemma at_bad_free_not_clean : forall id last, at_bad_free id last <> AtClean.
Proof. intros. unfold at_bad_free. destruct ((0 <? id) && (id <=? last)); discriminate. Qed.

Ltac at_arith :=
  repeat match goal with
         | |- context [Z.eqb ?a ?b] => destruct (Z.eqb_spec a b)
         | H : context [Z.eqb ?a ?b] |- _ => destruct (Z.eqb_spec a b)
         end; try lia.

(* one event that keeps the checker going: the specification moves along with the state *)
Lemma at_gspec_step : forall live last live' last' x r,
  (forall id, at_in id live' = at_in id live + at_al id x - at_fr id x) ->
  at_Q live [] x ->
  (at_incr last (at_new_ids (x :: r)) <-> at_incr last' (at_new_ids r)) ->
  (at_gspec live' last' r <-> at_gspec live last (x :: r)).
Proof.
  intros live last live' last' x r Hin Hq0 Hincr. unfold at_gspec.
  rewrite (at_split_cons (at_Q live)). rewrite Hincr.
  split.
  - intros (Hi & Hp & He). split; [auto|]. split; [split; [exact Hq0|]|].
    + intros pre e post E id Hf. specialize (Hp pre e post E id Hf). rewrite Hin in Hp.
      unfold at_nfree, at_nalloc in *. cbn [at_sum]. lia.
    + intros id. specialize (He id). rewrite Hin in He.
      unfold at_nfree, at_nalloc in *. cbn [at_sum]. lia.
  - intros (Hi & (_ & Hp) & He). split; [auto|]. split.
    + intros pre e post E id Hf. specialize (Hp pre e post E id Hf). rewrite Hin.
      unfold at_nfree, at_nalloc in *. cbn [at_sum] in Hp. lia.
    + intros id. specialize (He id). rewrite Hin.
      unfold at_nfree, at_nalloc in *. cbn [at_sum] in He. lia.
Qed.

Lemma at_go_spec : forall tr live last,
  at_inv live last -> (at_go live last tr = AtClean <-> at_gspec live last tr).
Proof.
  induction tr as [|e r IH]; intros live last Hinv.
  - cbn [at_go]. unfold at_gspec. cbn [at_new_ids at_incr].
    destruct live as [|x l].
    + split; auto. intros _. split; auto. split.
      * intros pre e post E. destruct pre; discriminate.
      * intros id. cbn. reflexivity.
    + split; [discriminate|]. intros (_ & _ & H). specialize (H x).
      unfold at_nalloc, at_nfree, at_in in H. cbn [at_sum at_mem] in H.
      rewrite Z.eqb_refl in H. lia.
  - destruct e as [i ty sz | o n sz | i].
    + (* alloc *)
      cbn [at_go]. destruct (Z.leb_spec i last) as [Hle|Hlt].
      * split; [discriminate|]. intros (Hincr & _). cbn [at_new_ids at_incr] in Hincr. lia.
      * rewrite (IH (i :: live) i (at_inv_alloc _ _ _ Hinv Hlt)).
        pose proof (at_inv_fresh _ _ _ Hinv Hlt) as Hf.
        apply at_gspec_step.
        -- intros id. rewrite (at_in_cons _ _ _ Hf). cbn [at_al at_fr]. lia.
        -- intros id Hfr. cbn [at_fr] in Hfr. lia.
        -- cbn [at_new_ids at_incr]. tauto.
    + (* realloc *)
      cbn [at_go]. destruct (at_mem o live) eqn:Hm.
      * destruct (Z.leb_spec n last) as [Hle|Hlt].
        -- split; [discriminate|]. intros (Hincr & _). cbn [at_new_ids at_incr] in Hincr. lia.
        -- pose proof (at_inv_remove _ _ o Hinv) as Hinv'.
           rewrite (IH (n :: at_remove o live) n (at_inv_alloc _ _ _ Hinv' Hlt)).
           pose proof (at_inv_fresh _ _ _ Hinv' Hlt) as Hf.
           destruct Hinv as (H0 & ND & HF).
           apply at_gspec_step.
           ++ intros id. rewrite (at_in_cons _ _ _ Hf). rewrite (at_in_remove o id live ND Hm).
              cbn [at_al at_fr]. lia.
           ++ intros id Hfr. cbn [at_fr] in Hfr. unfold at_nfree, at_nalloc. cbn [at_sum].
              destruct (Z.eqb_spec o id); [subst|lia]. unfold at_in. rewrite Hm. lia.
           ++ cbn [at_new_ids at_incr]. tauto.
      * split; [intro H; exfalso; eapply at_bad_free_not_clean; eauto|].
        intros (_ & Hp & _). specialize (Hp [] (AtRealloc o n sz) r eq_refl o).
        unfold at_nfree, at_nalloc, at_in in Hp. cbn [at_sum at_al at_fr] in Hp.
        rewrite Hm, Z.eqb_refl in Hp. specialize (Hp eq_refl). lia.
    + (* free *)
      cbn [at_go]. destruct (at_mem i live) eqn:Hm.
      * rewrite (IH (at_remove i live) last (at_inv_remove _ _ i Hinv)).
        destruct Hinv as (H0 & ND & HF).
        apply at_gspec_step.
        -- intros id. rewrite (at_in_remove i id live ND Hm). cbn [at_al at_fr]. lia.
        -- intros id Hfr. cbn [at_fr] in Hfr. unfold at_nfree, at_nalloc. cbn [at_sum].
           destruct (Z.eqb_spec i id); [subst|lia]. unfold at_in. rewrite Hm. lia.
        -- cbn [at_new_ids]. tauto.
      * split; [intro H; exfalso; eapply at_bad_free_not_clean; eauto|].
        intros (_ & Hp & _). specialize (Hp [] (AtFree i) r eq_refl i).
        unfold at_nfree, at_nalloc, at_in in Hp. cbn [at_sum at_al at_fr] in Hp.
        rewrite Hm, Z.eqb_refl in Hp. specialize (Hp eq_refl). lia.
Qed.

Lemma at_inv_init : at_inv [] 0.
Proof. repeat split; try lia; constructor. Qed.

(* main theorem: the checker answers AtClean exactly on the balanced traces *)
Theorem at_verdict_clean_iff : forall tr, at_verdict tr = AtClean <-> at_spec tr.
Proof.
  intros tr. unfold at_verdict. rewrite (at_go_spec tr [] 0 at_inv_init).
  unfold at_gspec, at_spec, at_log_wf, at_Q.
  split.
  - intros (H1 & H2 & H3). split; auto. split.
    + intros pre e post E id Hf. specialize (H2 pre e post E id Hf). unfold at_in in H2. cbn in H2. lia.
    + intros id. specialize (H3 id). unfold at_in in H3. cbn in H3. lia.
  - intros (H1 & H2 & H3). split; auto. split.
    + intros pre e post E id Hf. specialize (H2 pre e post E id Hf). unfold at_in. cbn. lia.
    + intros id. specialize (H3 id). unfold at_in. cbn. lia.
Qed.

Theorem at_balanced_iff : forall tr, at_balanced tr = true <-> at_spec tr.
Proof.
  intros tr. rewrite <- at_verdict_clean_iff. unfold at_balanced.
  destruct (at_verdict tr); split; congruence.
Qed.

(* ------------------------------------------------------------------ readable consequences *)

(* with increasing serials every serial is issued at most once *)
Lemma at_incr_lower : forall l last x, at_incr last l -> In x l -> last < x.
Proof.
  induction l as [|y r IH]; cbn [at_incr In]; intros last x H Hin; [tauto|].
  destruct H as [H1 H2]. destruct Hin as [E|Hin]; [lia|].
  specialize (IH y x H2 Hin). lia.
Qed.

Lemma at_nalloc_new_ids : forall id tr, at_nalloc id tr = 0 \/ In id (at_new_ids tr).
Proof.
  induction tr as [|e r IH]; [left; reflexivity|].
  destruct e as [i ty sz | o n sz | i]; unfold at_nalloc in *; cbn [at_sum at_al at_new_ids In].
  - destruct (Z.eqb_spec i id); [right; auto|]. destruct IH; [left; lia | right; auto].
  - destruct (Z.eqb_spec n id); [right; auto|]. destruct IH; [left; lia | right; auto].
  - destruct IH; [left; lia | right; auto].
Qed.

Lemma at_nalloc_le1 : forall tr last id, at_incr last (at_new_ids tr) -> 0 <= at_nalloc id tr <= 1.
Proof.
  induction tr as [|e r IH]; intros last id H; [unfold at_nalloc; cbn; lia|].
  destruct e as [i ty sz | o n sz | i]; unfold at_nalloc in *; cbn [at_sum at_al at_new_ids at_incr] in *.
  - destruct H as [H1 H2]. specialize (IH i id H2).
    destruct (Z.eqb_spec i id); [|lia]. subst.
    destruct (at_nalloc_new_ids id r) as [E|E]; [unfold at_nalloc in E; lia|].
    pose proof (at_incr_lower _ _ _ H2 E). lia.
  - destruct H as [H1 H2]. specialize (IH n id H2).
    destruct (Z.eqb_spec n id); [|lia]. subst.
    destruct (at_nalloc_new_ids id r) as [E|E]; [unfold at_nalloc in E; lia|].
    pose proof (at_incr_lower _ _ _ H2 E). lia.
  - specialize (IH last id H). lia.
Qed.

Lemma at_nfree_nonneg : forall id tr, 0 <= at_nfree id tr.
Proof.
  induction tr as [|e r IH]; unfold at_nfree in *; cbn [at_sum]; [lia|].
  destruct e; cbn [at_fr]; at_arith.
Qed.

Lemma at_nalloc_pos_new_ids : forall id tr, In id (at_new_ids tr) -> 1 <= at_nalloc id tr.
Proof.
  induction tr as [|e r IH]; cbn [at_new_ids In]; [tauto|].
  assert (Hnn: forall t, 0 <= at_nalloc id t).
  { induction t as [|e' t IHt]; unfold at_nalloc in *; cbn [at_sum]; [lia|].
    destruct e'; cbn [at_al]; at_arith. }
  specialize (Hnn r).
  destruct e as [i ty sz | o n sz | i]; unfold at_nalloc in *; cbn [at_sum at_al at_new_ids In].
  - intros [E|E]; [subst; rewrite Z.eqb_refl; lia|]. specialize (IH E). at_arith.
  - intros [E|E]; [subst; rewrite Z.eqb_refl; lia|]. specialize (IH E). at_arith.
  - intros E. specialize (IH E). lia.
Qed.

(* every allocated block is released exactly once *)
Theorem at_clean_freed_once : forall tr id,
  at_verdict tr = AtClean -> In id (at_new_ids tr) -> at_nfree id tr = 1 /\ at_nalloc id tr = 1.
Proof.
  intros tr id H Hin. apply at_verdict_clean_iff in H. destruct H as (Hwf & _ & He).
  pose proof (at_nalloc_le1 tr 0 id Hwf). pose proof (at_nalloc_pos_new_ids id tr Hin).
  specialize (He id). lia.
Qed.

(* nothing is released twice *)
Theorem at_clean_no_double_free : forall tr id, at_verdict tr = AtClean -> at_nfree id tr <= 1.
Proof.
  intros tr id H. apply at_verdict_clean_iff in H. destruct H as (Hwf & _ & He).
  pose proof (at_nalloc_le1 tr 0 id Hwf). specialize (He id). lia.
Qed.

(* nothing is released that was not allocated before *)
Theorem at_clean_free_after_alloc : forall tr pre e post id,
  at_verdict tr = AtClean -> tr = pre ++ e :: post -> at_fr id e = 1 -> In id (at_new_ids pre).
Proof.
  intros tr pre e post id H E Hfr. apply at_verdict_clean_iff in H. destruct H as (Hwf & Hp & _).
  specialize (Hp pre e post E id Hfr).
  pose proof (at_nfree_nonneg id pre) as Hn.
  destruct (at_nalloc_new_ids id pre) as [E0|Hin]; [lia | exact Hin].
Qed.

(* the leak verdict lists exactly the blocks still live *)
Lemma at_go_leak : forall tr live last l,
  at_go live last tr = AtLeak l -> at_live_go live last tr = Some l /\ l <> [].
Proof.
  induction tr as [|e r IH]; intros live last l.
  - cbn. destruct live; [discriminate|]. intros H; inversion H; subst. split; [auto|discriminate].
  - destruct e as [i ty sz | o n sz | i]; cbn [at_go at_live_go].
    + destruct (i <=? last); [discriminate|]. apply IH.
    + destruct (at_mem o live).
      * destruct (n <=? last); [discriminate|]. apply IH.
      * unfold at_bad_free. destruct ((0 <? o) && (o <=? last)); discriminate.
    + destruct (at_mem i live); [apply IH|].
      unfold at_bad_free. destruct ((0 <? i) && (i <=? last)); discriminate.
Qed.

Lemma at_live_go_sound : forall tr live last l,
  at_inv live last -> at_live_go live last tr = Some l ->
  forall id, at_in id l = at_nalloc id tr + at_in id live - at_nfree id tr.
Proof.
  induction tr as [|e r IH]; intros live last l Hinv.
  - cbn. intros H id; inversion H; subst. lia.
  - destruct e as [i ty sz | o n sz | i]; cbn [at_live_go]; unfold at_nalloc, at_nfree in *;
      cbn [at_sum at_al at_fr].
    + destruct (Z.leb_spec i last) as [Hle|Hlt]; [discriminate|]. intros H id.
      rewrite (IH _ _ _ (at_inv_alloc _ _ _ Hinv Hlt) H id).
      rewrite (at_in_cons _ _ _ (at_inv_fresh _ _ _ Hinv Hlt)). lia.
    + destruct (at_mem o live) eqn:Hm; [|discriminate].
      destruct (Z.leb_spec n last) as [Hle|Hlt]; [discriminate|]. intros H id.
      pose proof (at_inv_remove _ _ o Hinv) as Hinv'.
      rewrite (IH _ _ _ (at_inv_alloc _ _ _ Hinv' Hlt) H id).
      rewrite (at_in_cons _ _ _ (at_inv_fresh _ _ _ Hinv' Hlt)).
      destruct Hinv as (_ & ND & _). rewrite (at_in_remove o id live ND Hm). lia.
    + destruct (at_mem i live) eqn:Hm; [|discriminate]. intros H id.
      rewrite (IH _ _ _ (at_inv_remove _ _ i Hinv) H id).
      destruct Hinv as (_ & ND & _). rewrite (at_in_remove i id live ND Hm). lia.
Qed.

Theorem at_leak_sound : forall tr l id,
  at_verdict tr = AtLeak l ->
  l <> [] /\ (In id l <-> at_nalloc id tr - at_nfree id tr = 1).
Proof.
  intros tr l id H. unfold at_verdict in H. apply at_go_leak in H. destruct H as [H Hne].
  split; auto.
  pose proof (at_live_go_sound tr [] 0 l at_inv_init H id) as E.
  unfold at_in in E. cbn [at_mem] in E. rewrite <- at_mem_In.
  destruct (at_mem id l); split; intros; try lia; try congruence.
Qed.

(* an error verdict points at a release of something that is not live at that point *)
Lemma at_go_bad_free : forall tr live last id,
  at_inv live last ->
  (at_go live last tr = AtDoubleFree id \/ at_go live last tr = AtFreeUnalloc id) ->
  exists pre e post, tr = pre ++ e :: post /\ at_fr id e = 1 /\
                     at_nalloc id pre + at_in id live - at_nfree id pre = 0.
Proof.
  induction tr as [|e r IH]; intros live last id Hinv H.
  - cbn in H. destruct live; destruct H; discriminate.
  - destruct e as [i ty sz | o n sz | i]; cbn [at_go] in H.
    + destruct (Z.leb_spec i last) as [Hle|Hlt]; [destruct H; discriminate|].
      destruct (IH _ _ _ (at_inv_alloc _ _ _ Hinv Hlt) H) as (pre & e & post & E & Hf & Hc).
      exists (AtAlloc i ty sz :: pre), e, post. subst r. split; [reflexivity|]. split; auto.
      rewrite (at_in_cons _ _ _ (at_inv_fresh _ _ _ Hinv Hlt)) in Hc.
      unfold at_nalloc, at_nfree in *. cbn [at_sum at_al at_fr]. lia.
    + destruct (at_mem o live) eqn:Hm.
      * destruct (Z.leb_spec n last) as [Hle|Hlt]; [destruct H; discriminate|].
        pose proof (at_inv_remove _ _ o Hinv) as Hinv'.
        destruct (IH _ _ _ (at_inv_alloc _ _ _ Hinv' Hlt) H) as (pre & e & post & E & Hf & Hc).
        exists (AtRealloc o n sz :: pre), e, post. subst r. split; [reflexivity|]. split; auto.
        rewrite (at_in_cons _ _ _ (at_inv_fresh _ _ _ Hinv' Hlt)) in Hc.
        destruct Hinv as (_ & ND & _). rewrite (at_in_remove o id live ND Hm).
        unfold at_nalloc, at_nfree in *. cbn [at_sum at_al at_fr]. lia.
      * assert (o = id).
        { unfold at_bad_free in H. destruct ((0 <? o) && (o <=? last)); destruct H as [H|H]; congruence. }
        subst o. exists [], (AtRealloc id n sz), r. split; [reflexivity|]. split.
        -- cbn. rewrite Z.eqb_refl. reflexivity.
        -- unfold at_in. rewrite Hm. cbn. reflexivity.
    + destruct (at_mem i live) eqn:Hm.
      * destruct (IH _ _ _ (at_inv_remove _ _ i Hinv) H) as (pre & e & post & E & Hf & Hc).
        exists (AtFree i :: pre), e, post. subst r. split; [reflexivity|]. split; auto.
        destruct Hinv as (_ & ND & _). rewrite (at_in_remove i id live ND Hm).
        unfold at_nalloc, at_nfree in *. cbn [at_sum at_al at_fr]. lia.
      * assert (i = id).
        { unfold at_bad_free in H. destruct ((0 <? i) && (i <=? last)); destruct H as [H|H]; congruence. }
        subst i. exists [], (AtFree id), r. split; [reflexivity|]. split.
        -- cbn. rewrite Z.eqb_refl. reflexivity.
        -- unfold at_in. rewrite Hm. cbn. reflexivity.
Qed.

Theorem at_bad_free_sound : forall tr id,
  (at_verdict tr = AtDoubleFree id \/ at_verdict tr = AtFreeUnalloc id) ->
  exists pre e post, tr = pre ++ e :: post /\ at_fr id e = 1 /\
                     at_nalloc id pre = at_nfree id pre.
Proof.
  intros tr id H. destruct (at_go_bad_free tr [] 0 id at_inv_init H) as (pre & e & post & E & Hf & Hc).
  exists pre, e, post. repeat split; auto. unfold at_in in Hc. cbn in Hc. lia.
Qed.

(* non-vacuity: a balanced trace with a realloc chain is accepted, its variants are not *)
Example at_example_clean :
  at_verdict [AtAlloc 1 5 100; AtAlloc 2 3 40; AtRealloc 2 3 80; AtFree 1; AtFree 3] = AtClean.
Proof. reflexivity. Qed.
Example at_example_leak :
  at_verdict [AtAlloc 1 5 100; AtAlloc 2 3 40; AtRealloc 2 3 80; AtFree 1] = AtLeak [3].
Proof. reflexivity. Qed.
Example at_example_double :
  at_verdict [AtAlloc 1 5 100; AtFree 1; AtFree 1] = AtDoubleFree 1.
Proof. reflexivity. Qed.
Example at_example_unalloc :
  at_verdict [AtAlloc 1 5 100; AtFree 0; AtFree 1] = AtFreeUnalloc 0.
Proof. reflexivity. Qed.
Example at_example_stale_realloc :
  at_verdict [AtAlloc 1 5 100; AtRealloc 1 2 10; AtFree 1; AtFree 2] = AtDoubleFree 1.
Proof. reflexivity. Qed.

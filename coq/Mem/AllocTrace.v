(* Mem/AllocTrace.v - verified checker for typed allocation traces (used by C12 and C18).

   The C side (harness/common/valloc.h) interposes coap_malloc_type / coap_realloc_type /
   coap_free_type at link time and writes one event per call:
     AtAlloc id ty sz      a successful allocation; [id] is a fresh serial number (1, 2, 3 ...)
     AtRealloc old new sz  a successful realloc: block [old] is consumed, block [new] exists
     AtFree id             coap_free_type on the block that was given serial [id]; a free of a
                           pointer that is not live is logged with the serial the pointer had
                           last (a double free) or with 0 (never allocated)
   Failed allocations and free(NULL) are not events.

   [at_verdict] judges a complete trace (context torn down):  AtClean iff every allocated block
   was released exactly once, nothing was released twice or without having been allocated, and
   nothing is left.  Definitions only; the proofs are in Mem/AllocTraceProofs.v. *)
From LibcoapV Require Import Base.Tactics.
Local Open Scope Z_scope.

Inductive at_ev :=
| AtAlloc (id ty sz : Z)
| AtRealloc (old new sz : Z)
| AtFree (id : Z).

Inductive at_result :=
| AtClean
| AtDoubleFree (id : Z)      (* released although not live; the serial was issued before *)
| AtFreeUnalloc (id : Z)     (* released although never allocated *)
| AtBadLog (id : Z)          (* serial numbers not strictly increasing: the log itself is broken *)
| AtLeak (ids : list Z).     (* still live at the end, most recent first *)

Fixpoint at_mem (x : Z) (l : list Z) : bool :=
  match l with
  | [] => false
  | y :: r => if x =? y then true else at_mem x r
  end.

Fixpoint at_remove (x : Z) (l : list Z) : list Z :=
  match l with
  | [] => []
  | y :: r => if x =? y then r else y :: at_remove x r
  end.

Definition at_bad_free (id last : Z) : at_result :=
  if (0 <? id) && (id <=? last) then AtDoubleFree id else AtFreeUnalloc id.

(* [live]: serials currently allocated; [last]: the largest serial issued so far *)
Fixpoint at_go (live : list Z) (last : Z) (tr : list at_ev) : at_result :=
  match tr with
  | [] => match live with [] => AtClean | _ => AtLeak live end
  | AtAlloc id _ _ :: r =>
      if id <=? last then AtBadLog id else at_go (id :: live) id r
  | AtFree id :: r =>
      if at_mem id live then at_go (at_remove id live) last r else at_bad_free id last
  | AtRealloc old new _ :: r =>
      if at_mem old live then
        if new <=? last then AtBadLog new else at_go (new :: at_remove old live) new r
      else at_bad_free old last
  end.

Definition at_verdict (tr : list at_ev) : at_result := at_go [] 0 tr.

Definition at_balanced (tr : list at_ev) : bool :=
  match at_verdict tr with AtClean => true | _ => false end.

(* what is live after a (possibly incomplete) trace; None if the trace is already in error *)
Fixpoint at_live_go (live : list Z) (last : Z) (tr : list at_ev) : option (list Z) :=
  match tr with
  | [] => Some live
  | AtAlloc id _ _ :: r =>
      if id <=? last then None else at_live_go (id :: live) id r
  | AtFree id :: r =>
      if at_mem id live then at_live_go (at_remove id live) last r else None
  | AtRealloc old new _ :: r =>
      if at_mem old live then
        if new <=? last then None else at_live_go (new :: at_remove old live) new r
      else None
  end.
Definition at_live (tr : list at_ev) : option (list Z) := at_live_go [] 0 tr.

(* ------------------------------------------------------------------ specification
   Independent of the checker: plain counting of events per serial number. *)

(* 1 if the event creates block [id] *)
Definition at_al (id : Z) (e : at_ev) : Z :=
  match e with
  | AtAlloc i _ _ => if i =? id then 1 else 0
  | AtRealloc _ n _ => if n =? id then 1 else 0
  | AtFree _ => 0
  end.

(* 1 if the event releases block [id] *)
Definition at_fr (id : Z) (e : at_ev) : Z :=
  match e with
  | AtAlloc _ _ _ => 0
  | AtRealloc o _ _ => if o =? id then 1 else 0
  | AtFree i => if i =? id then 1 else 0
  end.

Fixpoint at_sum (f : at_ev -> Z) (tr : list at_ev) : Z :=
  match tr with
  | [] => 0
  | e :: r => f e + at_sum f r
  end.

Definition at_nalloc (id : Z) (tr : list at_ev) : Z := at_sum (at_al id) tr.
Definition at_nfree (id : Z) (tr : list at_ev) : Z := at_sum (at_fr id) tr.

(* serial numbers in the order they were issued *)
Fixpoint at_new_ids (tr : list at_ev) : list Z :=
  match tr with
  | [] => []
  | AtAlloc i _ _ :: r => i :: at_new_ids r
  | AtRealloc _ n _ :: r => n :: at_new_ids r
  | AtFree _ :: r => at_new_ids r
  end.

Fixpoint at_incr (last : Z) (l : list Z) : Prop :=
  match l with
  | [] => True
  | x :: r => last < x /\ at_incr x r
  end.

(* the log is well formed: serials are positive and strictly increasing (so unique) *)
Definition at_log_wf (tr : list at_ev) : Prop := at_incr 0 (at_new_ids tr).

(* balancedness:
   - every release hits a block that is live at that point: strictly before the releasing
     event the block was allocated more often than released (so nothing is released before or
     without being allocated, and nothing twice);
   - at the end every block has been released exactly as often as allocated (nothing left;
     with unique serials: every allocated block released exactly once). *)
Definition at_spec (tr : list at_ev) : Prop :=
  at_log_wf tr /\
  (forall pre e post, tr = pre ++ e :: post ->
     forall id, at_fr id e = 1 -> at_nfree id pre + 1 <= at_nalloc id pre) /\
  (forall id, at_nalloc id tr = at_nfree id tr).

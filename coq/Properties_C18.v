(* C18 - any allocation failure is survived: clean error, no leak, endpoint still works.
   Which of libcoap's allocation sites check their result is a fact about the C text; it is
   decided by exhaustive fault enumeration (tools/checks/c18.py).  What theorems carry:
   (1) the oracle that judges every allocation trace of that enumeration is correct;
   statements only, proofs in Fault/*.v. *)
From LibcoapV Require Import Base.Tactics Fault.AllocOracle Fault.AllocOracleProofs.
Local Open Scope Z_scope.

(* (1) the verdict is FaClean exactly for the traces in which ids are fresh, every release hits
   a block that was allocated before and not released before (no wild free, no double free),
   a failing realloc is applied to a live block, and every allocated block is released *)
Theorem C18_verdict_clean_iff : forall tr, fa_verdict tr = FaClean <-> fa_spec tr.
Proof. exact fa_verdict_clean_iff. Qed.
Print Assumptions C18_verdict_clean_iff.

(* the blocks named in a leak verdict are exactly the allocated-and-never-released ones *)
Theorem C18_verdict_leak_sound : forall tr ids,
  fa_verdict tr = FaLeak ids ->
  ids <> [] /\ forall i, In i ids <-> In i (fa_allocs tr) /\ ~ In i (fa_frees tr).
Proof. exact fa_verdict_leak_sound. Qed.
Print Assumptions C18_verdict_leak_sound.

(* a double-free verdict points at a release of a block released earlier in the trace *)
Theorem C18_verdict_double_free_sound : forall tr i,
  fa_verdict tr = FaDoubleFree i ->
  exists pre e post, tr = pre ++ e :: post /\ In i (fa_ev_frees e) /\ In i (fa_frees pre).
Proof. exact fa_verdict_double_free_sound. Qed.
Print Assumptions C18_verdict_double_free_sound.

(* consequence in the usual wording: no block is released twice *)
Theorem C18_spec_no_double_free : forall tr, fa_spec tr -> NoDup (fa_frees tr).
Proof. exact fa_spec_no_double_free. Qed.
Print Assumptions C18_spec_no_double_free.

(* non-vacuity: a trace with a moving realloc, a failed allocation and a failed realloc meets
   the specification *)
Theorem C18_spec_nonvacuous :
  fa_spec [FaAlloc 1; FaAlloc 2; FaRealloc 2 3; FaAllocFail; FaReallocFail 3; FaFreeNull;
           FaFree 3; FaRealloc 0 4; FaFree 1; FaFree 4].
Proof. exact fa_example_clean. Qed.
Print Assumptions C18_spec_nonvacuous.

(* (2) PDU layer: the builder operations with the buffer accounting of coap_pdu_check_resize /
   coap_pdu_resize and an oracle deciding, for every allocation attempt, whether it fails. *)
From LibcoapV Require Import Base.Bytes Wire.OptCodec Wire.Pdu Wire.Build Fault.PduAtomic
  Fault.PduAtomicProofs.

(* every operation, any failure pattern: it succeeds with the specified result (Wire/Build.v,
   the builder C01 is proved about) or fails leaving the abstract message untouched; the only
   exception in either direction is the implicit Hop-Limit that coap_add_option inserts before
   a Proxy-Uri/Proxy-Scheme option and whose result the code ignores; and an operation fails
   where the fault-free builder succeeds only if an allocation attempt made by it failed *)
Theorem C18_pdu_atomic : forall fails n p o r p1 n1,
  fa_inv p -> fa_apply_op fails n p o = (r, p1, n1) ->
  fa_inv p1 /\ (n <= n1)%nat /\
  (r = true ->
     apply_op (fp_pdu p) o = (true, fp_pdu p1) \/
     (exists num v, o = OpOpt num v /\ fa_hop_step (fp_pdu p) num = true /\
                    add_opt_raw (fp_pdu p) num v = (true, fp_pdu p1))) /\
  (r = false ->
     fp_pdu p1 = fp_pdu p \/
     (exists num v, o = OpOpt num v /\ fa_hop_step (fp_pdu p) num = true /\
                    fp_pdu p1 = fa_hop_added (fp_pdu p))) /\
  (r = false -> fst (apply_op (fp_pdu p) o) = true -> fa_failed_between fails n n1).
Proof. exact fa_apply_op_atomic. Qed.
Print Assumptions C18_pdu_atomic.

(* coap_pdu_init gives the specified empty PDU or nothing *)
Theorem C18_pdu_init_atomic : forall fails n ty code mid size,
  0 <= size ->
  match fa_pdu_init fails n ty code mid size with
  | (Some p, n1) => fp_pdu p = pdu_init ty code mid size /\ fa_inv p /\ n1 = S (S n) /\
                    fails n = false /\ fails (S n) = false
  | (None, n1) => fa_max_init < size \/ fa_failed_between fails n n1
  end.
Proof. exact fa_pdu_init_atomic. Qed.
Print Assumptions C18_pdu_init_atomic.

(* with no failure the model is exactly the builder of Wire/Build.v, for whole op lists *)
Theorem C18_pdu_nofault_refines : forall fails ops n p rs p1 n1,
  (forall k, fails k = false) -> fa_inv p ->
  fa_run_ops fails n p ops = (rs, p1, n1) ->
  run_ops (fp_pdu p) ops = (rs, fp_pdu p1).
Proof. exact fa_run_ops_nofault. Qed.
Print Assumptions C18_pdu_nofault_refines.

(* the growth loop of coap_pdu_check_resize always reaches the requested size (the model's
   fuel is never exhausted) *)
Theorem C18_grow_reaches : forall alloc size, size <= fa_first_size alloc size.
Proof. exact fa_first_size_ge. Qed.
Print Assumptions C18_grow_reaches.

(* strict atomicity ("success = the fault-free result") is false for the implicit Hop-Limit:
   witness replayed on the code as corpus/C18/fixed.case "fapdu ... O 35" *)
Theorem C18_pdu_strict_atomicity_refuted :
  exists fails n p o r p1 n1,
    fa_inv p /\ fa_apply_op fails n p o = (r, p1, n1) /\ r = true /\
    apply_op (fp_pdu p) o <> (true, fp_pdu p1).
Proof. exact fa_strict_atomicity_refuted. Qed.
Print Assumptions C18_pdu_strict_atomicity_refuted.

(* (3) ownership on the send path: decision-tree model of coap_send_lkd / coap_send_internal
   (every validity test, allocation result and socket outcome is one bit of the environment) *)
From LibcoapV Require Import Fault.SendOwner Fault.SendOwnerProofs.

(* in every branch, each failure branch included: nothing is left dangling, the PDU given to
   coap_send is released or held by exactly one of {send queue node, delay queue}, an
   encrypted PDU replaces the released original, and COAP_INVALID_MID / DROPPED is returned
   exactly when nothing is kept *)
Theorem C18_send_consumes : forall v, fa_env_wf v -> fa_send_ok (fa_send v) = true.
Proof. exact fa_send_consumes. Qed.
Print Assumptions C18_send_consumes.

(* the part the driver can see of a call is accepted by the extracted acceptor, which rejects
   a leaked PDU, a PDU in two queues and a released PDU that is still queued *)
Theorem C18_send_obs_accepted : forall v,
  fa_env_wf v -> fa_obs_ok (fa_send_obs (fa_send v)) = true.
Proof. exact fa_send_obs_accepted. Qed.
Print Assumptions C18_send_obs_accepted.

Theorem C18_send_acceptor_rejects :
  fa_obs_ok (false, true, false, false) = false /\ fa_obs_ok (true, true, true, true) = false /\
  fa_obs_ok (true, false, true, false) = false.
Proof. repeat split; reflexivity. Qed.
Print Assumptions C18_send_acceptor_rejects.

(* C18 - any allocation failure is survived: clean error, no leak, endpoint still works.
   Which of libcoap's allocation sites check their result is a fact about the C text; it is
   decided by exhaustive fault enumeration (tools/checks/c18.py).  What theorems carry:
   (1) the oracle that judges every allocation trace of that enumeration is correct;
   statements only, proofs in Fault/*.v. *)
From LibcoapV Require Import Base.Tactics Fault.AllocOracle Fault.AllocOracleProofs.
Local Open Scope Z_scope.

(* (1) the verdict is FaClean exactly for the traces in which ids are fresh, every release hits
   a block that was allocated before and not released before (no wild free, no double free),
   a failing realloc is applied to a live block, and every allocated block is released *)
Theorem C18_verdict_clean_iff : forall tr, fa_verdict tr = FaClean <-> fa_spec tr.
Proof. exact fa_verdict_clean_iff. Qed.
Print Assumptions C18_verdict_clean_iff.

(* the blocks named in a leak verdict are exactly the allocated-and-never-released ones *)
Theorem C18_verdict_leak_sound : forall tr ids,
  fa_verdict tr = FaLeak ids ->
  ids <> [] /\ forall i, In i ids <-> In i (fa_allocs tr) /\ ~ In i (fa_frees tr).
Proof. exact fa_verdict_leak_sound. Qed.
Print Assumptions C18_verdict_leak_sound.

(* a double-free verdict points at a release of a block released earlier in the trace *)
Theorem C18_verdict_double_free_sound : forall tr i,
  fa_verdict tr = FaDoubleFree i ->
  exists pre e post, tr = pre ++ e :: post /\ In i (fa_ev_frees e) /\ In i (fa_frees pre).
Proof. exact fa_verdict_double_free_sound. Qed.
Print Assumptions C18_verdict_double_free_sound.

(* consequence in the usual wording: no block is released twice *)
Theorem C18_spec_no_double_free : forall tr, fa_spec tr -> NoDup (fa_frees tr).
Proof. exact fa_spec_no_double_free. Qed.
Print Assumptions C18_spec_no_double_free.

(* non-vacuity: a trace with a moving realloc, a failed allocation and a failed realloc meets
   the specification *)
Theorem C18_spec_nonvacuous :
  fa_spec [FaAlloc 1; FaAlloc 2; FaRealloc 2 3; FaAllocFail; FaReallocFail 3; FaFreeNull;
           FaFree 3; FaRealloc 0 4; FaFree 1; FaFree 4].
Proof. exact fa_example_clean. Qed.
Print Assumptions C18_spec_nonvacuous.
